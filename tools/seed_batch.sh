#!/bin/bash
# usage: tools/seed_batch.sh C07 C10 ...   (evaluates /tmp/seed_<id>/m1 and m2 against the checks of the same family)
cd "$(dirname "$0")/.."
[ -n "$VP_RUN_REPO" ] && export VERIF_REPO=$VP_RUN_REPO
[ -d coq/Model ] && [ ! -f coq/Model/Floor.vo ] && ./check --setup | tail -2
fam() { case $1 in C01|C07) echo C01,C07;; C09|C10) echo C09,C10;; C12) echo C12;; C18) echo C18;; C19) echo C19;; C14) echo C14,C01;; C20) echo C20;; *) echo C02,C03,C04,C05,C06,C08,C11,C13,C15,C16,C17;; esac; }
claimed=$(python3 -c "import json;print(' '.join(c['property_id'] for c in json.load(open('MANIFEST.json'))['checks']))")
for id in "$@"; do
  for m in ${SEED_MUTS:-m1 m2 m3}; do
    [ -f /tmp/seed_$id/$m/patch.diff ] || continue
    ps=""; for p in $(fam $id | tr , ' '); do case " $claimed " in *" $p "*) ps="$ps,$p";; esac; done
    echo "== $id $m (${ps#,})"
    python3 tools/seed_eval.py /tmp/seed_$id/$m --props ${ps#,} 2>&1 | tail -20
  done
done
