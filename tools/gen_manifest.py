#!/usr/bin/env python3
"""Writes MANIFEST.json from harness/props.py (single source of truth for the claimed checks)."""
import json, os, sys
sys.path.insert(0, os.path.dirname(os.path.dirname(os.path.abspath(__file__))))
from harness.props import PROPS, NOT_APPLICABLE, LEVELS

checks = []
for pid in sorted(PROPS):
    lv = LEVELS[pid]
    checks.append(dict(
        property_id=pid,
        quick_cmd='./check %s --tier quick' % pid,
        thorough_cmd='./check %s --tier thorough' % pid,
        evidence_file='evidence/%s.json' % pid,
        replay_cmd_template='./check %s --replay {path}' % pid,
        engine='coq-model',
        level_claimed=dict(category='proof', text=lv['text'], design_ref=lv['design_ref']),
        level_note=lv['note'],
        technique=lv['technique']))
m = dict(
    version=1,
    setup_cmd='./check --setup',
    hooks=dict(guard='SIMPROCESD_VERIF', enable='no repository hooks are used; the harness patches random.random and wraps Event.__init__ in its own process',
               baseline_off_cmd='cd /repo && /venv/bin/python -m pytest -q -p no:cacheprovider simprocesd/tests/model',
               source_commits=[], add_only=True),
    engines=[dict(name='coq-model', path='coq/', serves_properties=sorted(PROPS),
                  kind_free_text='Coq 8.16 development: hand-written executable Gallina model of simprocesd (coq/Model), '
                                 'theorems (coq/Proofs, coq/Props), fact tables regenerated from /repo (coq/Gen, coq/Tie), '
                                 'extracted to OCaml (ocaml/) and run in lock-step with the implementation (harness/)')],
    checks=checks,
    notes='See DESIGN.md. Every check: regenerate facts from /repo, rebuild the proofs of the property (full .vo), '
          'Print Assumptions, lock-step correspondence model vs implementation, monitors on the implementation traces.',
    not_applicable=NOT_APPLICABLE)
with open(os.path.join(os.path.dirname(os.path.dirname(os.path.abspath(__file__))), 'MANIFEST.json'), 'w') as f:
    json.dump(m, f, indent=1)
print('MANIFEST.json: %d checks, %d not applicable' % (len(checks), len(NOT_APPLICABLE)))
