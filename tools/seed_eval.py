#!/usr/bin/env python3
"""Evaluate a seeded change: confirm it (tests pass, demonstration fails on the changed tree and passes on the clean one),
run the registered checks against it and store everything under /verif/seeded/<id>/<mutant>/.

usage: tools/seed_eval.py <dir with patch.diff demo.py meta.json> [--tier quick|thorough] [--props C01,C07]
The change is applied to /repo's working tree with `git apply` and always undone with `git checkout -- .`."""
import json, os, shutil, subprocess, sys, time

VERIF = os.path.dirname(os.path.dirname(os.path.abspath(__file__)))
REPO = os.environ.get('VERIF_REPO', '/repo')
ENV = dict(os.environ, PYTHONPATH=REPO, PYTHONHASHSEED='0')


def sh(cmd, **kw):
    return subprocess.run(cmd, shell=True, stdout=subprocess.PIPE, stderr=subprocess.STDOUT, text=True, **kw)


def main():
    src = os.path.abspath(sys.argv[1])
    tier = 'quick'
    props = None
    args = sys.argv[2:]
    while args:
        a = args.pop(0)
        if a == '--tier':
            tier = args.pop(0)
        elif a == '--props':
            props = args.pop(0).split(',')
    meta = json.load(open(os.path.join(src, 'meta.json')))
    pid = meta['property']
    name = 'm%s' % meta.get('mutant', os.path.basename(src))
    manifest = json.load(open(os.path.join(VERIF, 'MANIFEST.json')))
    claimed = [c['property_id'] for c in manifest['checks']]
    props = props or claimed
    if sh('git -C %s status --porcelain' % REPO).stdout.strip():
        sys.exit('refusing: /repo working tree not clean')
    out = dict(meta)
    demo = os.path.join(src, 'demo.py')
    r = sh('/venv/bin/python %s' % demo, env=ENV, cwd='/tmp')
    out['demo_clean_exit'] = r.returncode
    a = sh('git -C %s apply %s' % (REPO, os.path.join(src, 'patch.diff')))
    if a.returncode:
        sys.exit('patch does not apply: ' + a.stdout)
    try:
        t = sh('cd %s && /venv/bin/python -m pytest -q -p no:cacheprovider --continue-on-collection-errors 2>&1 | tail -1' % REPO, env=ENV)
        out['tests'] = t.stdout.strip()
        r = sh('/venv/bin/python %s' % demo, env=ENV, cwd='/tmp')
        out['demo_mutated_exit'] = r.returncode
        out['demo_mutated_output'] = r.stdout.strip()[-600:]
        res = {}
        for p in props:
            t0 = time.time()
            c = sh('./check %s %s' % (p, tier), cwd=VERIF, env=dict(os.environ, VERIF_REPO=REPO, VERIF_SEED=os.environ.get('VERIF_SEED', '0'), VERIF_TIER=tier))
            vio = [l for l in c.stdout.splitlines() if l.startswith('VIOLATION')]
            res[p] = dict(exit=c.returncode, violation=vio[:3], seconds=round(time.time() - t0, 1))
            if vio:
                # keep the replay text of the first violation of the seeded property
                if p == pid:
                    rp = vio[0].split('replay=')[1].split()[0]
                    try:
                        res[p]['replay_head'] = open(rp).read()[:1500]
                    except OSError:
                        pass
            print(p, res[p]['exit'], vio[:1], flush=True)
        out['checks'] = res
        out['caught_by'] = sorted(p for p in res if res[p]['exit'] != 0)
        out['caught_by_own_check'] = pid in out['caught_by']
    finally:
        sh('git -C %s checkout -- .' % REPO)
    dst = os.path.join(os.environ.get('SEED_OUT', os.path.join(VERIF, 'seeded')), pid, name)
    os.makedirs(dst, exist_ok=True)
    for f in ('patch.diff', 'demo.py'):
        if os.path.abspath(os.path.join(src, f)) != os.path.join(dst, f):
            shutil.copy(os.path.join(src, f), os.path.join(dst, f))
    out['confirmed'] = (out.get('demo_clean_exit') == 0 and out.get('demo_mutated_exit') == 1 and out.get('tests', '').startswith('150 passed'))
    json.dump(out, open(os.path.join(dst, 'meta.json'), 'w'), indent=1)
    print('confirmed=%s caught_by=%s' % (out['confirmed'], out['caught_by']))


if __name__ == '__main__':
    main()
