#!/usr/bin/env python3
"""Re-run, on the current tree, the check of the property each seeded change was written against (own check only, quick tier) and
write seeded/FINAL.md.  The change is applied in a scratch worktree of /repo (VERIF_REPO for the check), never to /repo itself.

usage: tools/seed_recheck.py [ids...]"""
import glob, json, os, subprocess, sys, time

VERIF = os.path.dirname(os.path.dirname(os.path.abspath(__file__)))
REPO = os.environ.get('VERIF_REPO', '/repo')
WT = '/tmp/seed_recheck_wt_%d' % os.getpid()


def sh(cmd, **kw):
    return subprocess.run(cmd, shell=True, stdout=subprocess.PIPE, stderr=subprocess.STDOUT, text=True, **kw)


def harvest(pid, k, vio):
    """The scenario on which the changed tree failed (the minimised input, or the first scenario on which implementation and model
    disagreed) is kept in the corpus, which every check runs first: the detection of this change no longer depends on what the random
    generator happens to produce."""
    if not vio:
        return
    path = vio[0].split('replay=')[1].split()[0]
    try:
        r = json.load(open(path))
    except Exception:
        return
    fam, sc = r.get('family'), r.get('scenario')
    if sc is None:
        for c in r.get('correspondence') or []:
            if c.get('scenario') is not None and c.get('family') and not str(c.get('name', '')).endswith('.json'):
                fam, sc = c['family'], c['scenario']
                break
    if not fam or sc is None or str(r.get('found_in', '')).endswith('.json'):
        return          # (found on a corpus scenario already, or a tie broke and no scenario is involved)
    d = os.path.join(VERIF, 'corpus', fam)
    os.makedirs(d, exist_ok=True)
    with open(os.path.join(d, 'seeded_%s_m%s.json' % (pid, k)), 'w') as fh:
        json.dump(dict(scenario=sc, note='scenario on which seeded change %s m%s was detected (%s)' % (pid, k, r.get('violated') or 'lock-step disagreement')), fh)


def main():
    only = set(sys.argv[1:])
    sh('git -C %s worktree add -f %s HEAD' % (REPO, WT))
    rows = []
    try:
        for f in sorted(glob.glob(os.path.join(VERIF, 'seeded', '*', 'm*', 'meta.json'))):
            m = json.load(open(f))
            pid, k = m['property'], m['mutant']
            if only and pid not in only:
                continue
            patch = os.path.join(os.path.dirname(f), 'patch.diff')
            a = sh('git -C %s apply %s' % (WT, patch))
            if a.returncode:
                rows.append((pid, k, 'patch does not apply', ''))
                continue
            t0 = time.time()
            c = sh('./check %s quick' % pid, cwd=VERIF, env=dict(os.environ, VERIF_REPO=WT, VERIF_SEED='0'))
            sh('git -C %s checkout -- .' % WT)
            vio = [l for l in c.stdout.splitlines() if l.startswith('VIOLATION')]
            kind = 'MISSED' if c.returncode == 0 else ('tie/corr.' if vio and vio[0].endswith('no-failing-input-found') else 'input')
            rows.append((pid, k, kind, '%.0fs' % (time.time() - t0)))
            print(pid, 'm%s' % k, kind, flush=True)
            m['final_own_check'] = kind          # the evaluation on the final tree (tools/seed_table.py prefers it)
            harvest(pid, k, vio)
            json.dump(m, open(f, 'w'), indent=1)
    finally:
        sh('git -C %s worktree remove --force %s' % (REPO, WT))
        sh('git checkout -q -- evidence', cwd=VERIF)      # the checks above rewrote evidence files from changed trees
        sh('./check --setup', cwd=VERIF)                 # ... and regenerated coq/Gen/Facts.v from them
    # FINAL.md is always written from the recorded evaluations of all changes (a run restricted to some ids refreshes only those)
    rows = []
    for f in sorted(glob.glob(os.path.join(VERIF, 'seeded', '*', 'm*', 'meta.json'))):
        m = json.load(open(f))
        rows.append((m['property'], m['mutant'], m.get('final_own_check', 'not re-checked')))
    rows.sort(key=lambda r: (r[0], r[1]))
    with open(os.path.join(VERIF, 'seeded', 'FINAL.md'), 'w') as fh:
        fh.write('# Seeded changes re-checked on the final tree (own check, quick tier)\n\n')
        n = len(rows)
        fh.write('%d changes: %d caught with a failing input, %d through a broken tie/correspondence, %d missed.\n\n' % (
            n, sum(r[2] == 'input' for r in rows), sum(r[2] == 'tie/corr.' for r in rows), sum(r[2] not in ('input', 'tie/corr.') for r in rows)))
        fh.write('| change | own check |\n|---|---|\n')
        for pid, k, kind in rows:
            fh.write('| %s m%s | %s |\n' % (pid, k, kind))


if __name__ == '__main__':
    main()
