#!/bin/bash
# usage: tools/run_all.sh quick|thorough   (every registered check once; prints one line per property)
cd "$(dirname "$0")/.."
[ -n "$VP_RUN_REPO" ] && export VERIF_REPO=$VP_RUN_REPO
tier=${1:-quick}
./check --setup | tail -1
for p in $(python3 -c "import json;print(' '.join(c['property_id'] for c in json.load(open('MANIFEST.json'))['checks']))"); do
  s=$(date +%s); out=$(./check $p --tier $tier 2>&1); rc=$?; e=$(date +%s)
  echo "$p rc=$rc $((e-s))s $(echo "$out" | grep -E '^(OK|VIOLATION|KNOWN-FINDING|FATAL)' | tr '\n' ' ')"
done
