#!/usr/bin/env python3
"""Confirm seeded changes that were not batch-evaluated: the test suite still passes on the changed tree, the demonstration exits 1
there and 0 on the clean tree.  Writes tests / demo_mutated_exit / demo_clean_exit / confirmed into seeded/<id>/<m>/meta.json."""
import glob, json, os, subprocess, sys
VERIF = os.path.dirname(os.path.dirname(os.path.abspath(__file__)))
WT = '/tmp/seed_confirm_wt_%d' % os.getpid()


def sh(cmd, **kw):
    return subprocess.run(cmd, shell=True, stdout=subprocess.PIPE, stderr=subprocess.STDOUT, text=True, **kw)


sh('git -C /repo worktree add -f %s HEAD' % WT)
try:
    for f in sorted(glob.glob(os.path.join(VERIF, 'seeded', '*', 'm*', 'meta.json'))):
        m = json.load(open(f))
        if 'confirmed' in m and 'demo_clean_exit' in m and not m.get('ported_to'):
            continue
        d = os.path.dirname(f)
        env = dict(os.environ, PYTHONPATH=WT, PYTHONHASHSEED='0')
        clean = sh('timeout 120 /venv/bin/python %s/demo.py' % d, env=env, cwd='/tmp').returncode
        if sh('git -C %s apply %s/patch.diff' % (WT, d)).returncode:
            print(m['property'], m['mutant'], 'patch does not apply'); continue
        t = sh('cd %s && timeout 600 /venv/bin/python -m pytest -q -p no:cacheprovider --continue-on-collection-errors 2>&1 | tail -1' % WT).stdout.strip()
        mut = sh('timeout 120 /venv/bin/python %s/demo.py' % d, env=env, cwd='/tmp').returncode
        sh('git -C %s checkout -- .' % WT)
        m.update(tests=t, demo_mutated_exit=mut, demo_clean_exit=clean, confirmed=('150 passed' in t and mut == 1 and clean == 0))
        json.dump(m, open(f, 'w'), indent=1)
        print(m['property'], 'm%s' % m['mutant'], m['confirmed'], t, mut, clean, flush=True)
finally:
    sh('git -C /repo worktree remove --force %s' % WT)
