#!/usr/bin/env python3
"""Writes seeded/SUMMARY.md from seeded/<property>/<mutant>/meta.json."""
import glob, json, os
VERIF = os.path.dirname(os.path.dirname(os.path.abspath(__file__)))
rows = []
for f in sorted(glob.glob(os.path.join(VERIF, 'seeded', '*', '*', 'meta.json'))):
    m = json.load(open(f))
    own = m.get('checks', {}).get(m['property'], {})
    kind = ''
    if own.get('violation'):
        kind = 'no-failing-input-found' if 'no-failing-input-found' in own['violation'][0] else 'failing input'
    fin = m.get('final_own_check')
    if fin:          # the evaluation on the final tree (tools/seed_recheck.py) takes precedence over the one made when the change was written
        kind = {'input': 'failing input', 'tie/corr.': 'no-failing-input-found'}.get(fin, '')
        m['caught_by_own_check'] = fin in ('input', 'tie/corr.')
    rows.append((m['property'], 'm%s' % m.get('mutant'), ', '.join(os.path.basename(x) for x in m.get('files', [])), m.get('clause', '')[:150].replace('|', '/'),
                 'yes' if m.get('confirmed') else 'NO', 'yes' if m.get('caught_by_own_check') else 'NO', kind, ' '.join(m.get('caught_by', []))))
out = ['# Seeded changes and which checks catch them', '',
       'Each change was written by a fresh sub-agent that saw only the property text and a scratch worktree of the repository.',
       '"confirmed" = the unedited test suite still passes (150 passed), the demonstration fails on the changed tree and passes on the clean one.',
       '"own check" = `./check <property> quick` exits 1 with a VIOLATION line on the changed tree (as re-evaluated on the final tree by tools/seed_recheck.py); "how" says whether a concrete failing input was found.',
       '"all checks that exit 1" is from the batch evaluation made when the change was written (empty for changes that were only evaluated against their own check).', '',
       '| property | mutant | file | clause broken | confirmed | own check catches | how | all checks that exit 1 |', '|---|---|---|---|---|---|---|---|']
for r in rows:
    out.append('| ' + ' | '.join(r) + ' |')
n = len(rows)
out += ['', '%d seeded changes, %d confirmed, %d caught by the check of the property they were written against, %d of those with a concrete failing input.' % (
    n, sum(1 for r in rows if r[4] == 'yes'), sum(1 for r in rows if r[5] == 'yes'), sum(1 for r in rows if r[6] == 'failing input'))]
open(os.path.join(VERIF, 'seeded', 'SUMMARY.md'), 'w').write('\n'.join(out) + '\n')
print(out[-1])
