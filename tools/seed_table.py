#!/usr/bin/env python3
"""Regenerates the table of seeded changes in DESIGN.md (between the seeded-table markers) from seeded/<id>/<m>/meta.json."""
import glob, json, os, re
VERIF = os.path.dirname(os.path.dirname(os.path.abspath(__file__)))
rows = []
for f in sorted(glob.glob(os.path.join(VERIF, 'seeded', '*', '*', 'meta.json'))):
    m = json.load(open(f))
    pid = m['property']
    own = m.get('checks', {}).get(pid, {})
    if own.get('violation'):
        how = 'tie/corr.' if 'no-failing-input-found' in own['violation'][0] else 'input'
    else:
        how = 'MISSED' if own else 'n/a'
    if m.get('final_own_check'):
        how = m['final_own_check']
    others = ' '.join(p for p in m.get('caught_by', []) if p != pid) or '—'
    rows.append('| %s m%s | %s | %s | %s | %s |' % (pid, m.get('mutant'), ', '.join(os.path.basename(x) for x in m.get('files', [])),
                                                 m.get('summary', '')[:170].replace('|', '/').replace('\n', ' '), how, others))
table = ['| change | file | what was changed | own check | others |', '|---|---|---|---|---|'] + rows
p = os.path.join(VERIF, 'DESIGN.md')
s = open(p).read()
b, e = '<!-- seeded-table-begin -->', '<!-- seeded-table-end -->'
assert b in s and e in s
s = s[:s.index(b) + len(b)] + '\n' + '\n'.join(table) + '\n' + s[s.index(e):]
open(p, 'w').write(s)
n = len(rows)
print('%d rows; own check: %d input, %d tie/corr., %d missed' % (n, sum('| input |' in r for r in rows), sum('| tie/corr. |' in r for r in rows), sum('| MISSED |' in r for r in rows)))
