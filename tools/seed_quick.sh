#!/bin/bash
# usage: tools/seed_quick.sh m6 C01 C07 ...   own check (quick) of each /tmp/seed_<id>/<m> in a scratch worktree of /repo
m=$1; shift
cd "$(dirname "$0")/.."
wt=/tmp/seed_quick_wt_$$
git -C /repo worktree add -f $wt HEAD -q
for id in "$@"; do
  [ -f /tmp/seed_$id/$m/patch.diff ] || { echo "$id $m: no patch"; continue; }
  git -C $wt apply /tmp/seed_$id/$m/patch.diff || { echo "$id $m: patch does not apply"; continue; }
  r=$(VERIF_REPO=$wt ./check $id quick 2>&1 | grep -E "^(OK|VIOLATION|FATAL)" | cut -c1-150)
  echo "$id $m: $r"
  git -C $wt checkout -q -- .
done
git -C /repo worktree remove --force $wt
git checkout -q -- evidence 2>/dev/null
./check --setup > /dev/null 2>&1     # regenerate coq/Gen/Facts.v from the real /repo (the checks above regenerated it from the changed tree)
