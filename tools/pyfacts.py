#!/usr/bin/env python3
"""Fail-closed AST extractor: /repo/simprocesd/model/**.py -> coq/Gen/Facts.v.

Regenerated on every run of every check.  Anything whose shape it does not
recognise raises FactError (the caller treats that as a broken tie).  The
tables are compared with the hand model's own tables by `reflexivity` in
coq/Proofs/FactsTie*.v.
"""
import ast
import os
import sys


class FactError(Exception):
    pass


def q(s):
    return '"' + s.replace('"', "'") + '"'


def coq_list(items, indent='  '):
    if not items:
        return '[]'
    return '[\n' + ';\n'.join(indent + '  ' + i for i in items) + ']'


def parse(path):
    with open(path) as f:
        return ast.parse(f.read(), path)


def classes(tree):
    return [n for n in tree.body if isinstance(n, ast.ClassDef)]


def methods(cls):
    return [n for n in cls.body if isinstance(n, ast.FunctionDef)]


def src(node):
    return ast.unparse(node)


# ---------------------------------------------------------------- EventType
def event_types(sim_tree):
    for c in classes(sim_tree):
        if c.name == 'EventType':
            out = []
            for st in c.body:
                if isinstance(st, ast.Expr) and isinstance(st.value, ast.Constant):
                    continue
                if isinstance(st, ast.Assign) and len(st.targets) == 1 and isinstance(st.targets[0], ast.Name) \
                        and isinstance(st.value, ast.Call) and src(st.value.func) == 'auto' and not st.value.args:
                    out.append(st.targets[0].id)
                else:
                    raise FactError('EventType: unexpected statement ' + src(st))
            bases = [src(b) for b in c.bases]
            if bases != ['IntEnum']:
                raise FactError('EventType: unexpected bases ' + repr(bases))
            return out
    raise FactError('class EventType not found')


# ---------------------------------------------------------------- Event.__lt__
def lt_chain(sim_tree):
    ev = [c for c in classes(sim_tree) if c.name == 'Event']
    if not ev:
        raise FactError('class Event not found')
    lt = [m for m in methods(ev[0]) if m.name == '__lt__']
    if not lt:
        raise FactError('Event.__lt__ not found')
    body = [s for s in lt[0].body if not (isinstance(s, ast.Expr) and isinstance(s.value, ast.Constant))]
    if len(body) != 1 or not isinstance(body[0], ast.If):
        raise FactError('Event.__lt__: expected a single if-chain')
    chain = []
    node = body[0]

    def field_of(test):
        # self.F != other.F
        if not (isinstance(test, ast.Compare) and len(test.ops) == 1 and isinstance(test.ops[0], ast.NotEq)):
            raise FactError('__lt__: test not of the form self.f != other.f: ' + src(test))
        l, r = test.left, test.comparators[0]
        if not (src(l).startswith('self.') and src(r) == 'other.' + src(l)[5:]):
            raise FactError('__lt__: test fields differ: ' + src(test))
        return src(l)[5:]

    def ret_of(stmts, field):
        if len(stmts) != 1 or not isinstance(stmts[0], ast.Return):
            raise FactError('__lt__: branch is not a single return')
        c = stmts[0].value
        if not (isinstance(c, ast.Compare) and len(c.ops) == 1 and src(c.left) == 'self.' + field
                and src(c.comparators[0]) == 'other.' + field):
            raise FactError('__lt__: return does not compare the tested field: ' + src(c))
        if isinstance(c.ops[0], ast.Lt):
            return 'lt'
        if isinstance(c.ops[0], ast.Gt):
            return 'gt'
        raise FactError('__lt__: unexpected operator in ' + src(c))

    while True:
        f = field_of(node.test)
        chain.append((f, ret_of(node.body, f)))
        if len(node.orelse) == 1 and isinstance(node.orelse[0], ast.If):
            node = node.orelse[0]
            continue
        # final else: return self.g < other.g
        stmts = [s for s in node.orelse if not (isinstance(s, ast.Expr) and isinstance(s.value, ast.Constant))]
        if len(stmts) != 1 or not isinstance(stmts[0], ast.Return):
            raise FactError('__lt__: final else is not a return')
        c = stmts[0].value
        if not (isinstance(c, ast.Compare) and len(c.ops) == 1 and src(c.left).startswith('self.')
                and src(c.comparators[0]) == 'other.' + src(c.left)[5:]):
            raise FactError('__lt__: final return shape')
        op = 'lt' if isinstance(c.ops[0], ast.Lt) else 'gt' if isinstance(c.ops[0], ast.Gt) else None
        if op is None:
            raise FactError('__lt__: final operator')
        chain.append((src(c.left)[5:], op))
        return chain


# ---------------------------------------------------------------- call sites
def norm_time(e):
    s = src(e).replace('self._env', 'ENV').replace('self.env', 'ENV')
    return s


def call_sites(tree, modname, fname):
    """All calls X.fname(...) inside class methods: (class, method, [arg sources], {kw sources})."""
    out = []
    for c in classes(tree):
        for m in methods(c):
            for n in ast.walk(m):
                if isinstance(n, ast.Call) and isinstance(n.func, ast.Attribute) and n.func.attr == fname:
                    out.append((c.name, m.name, n))
    return out


def sched_sites(trees):
    out = []
    for modname, tree in trees:
        for cname, mname, call in call_sites(tree, modname, 'schedule_event'):
            args = list(call.args)
            kws = {k.arg: k.value for k in call.keywords}
            names = ['time', 'asset_id', 'action', 'event_type', 'message']
            for i, a in enumerate(args):
                kws[names[i]] = a
            for k in ('time', 'asset_id', 'action'):
                if k not in kws:
                    raise FactError(f'{cname}.{mname}: schedule_event without {k}')
            et = src(kws['event_type']) if 'event_type' in kws else 'EventType.OTHER_LOW_PRIORITY'
            action = src(kws['action'])
            if action.startswith('partial('):
                action = src(kws['action'].args[0])
            out.append((cname, mname, norm_time(kws['time']), src(kws['asset_id']), action, et))
    return out


def data_sites(trees):
    out = []
    for modname, tree in trees:
        for cname, mname, call in call_sites(tree, modname, 'add_datapoint'):
            if len(call.args) != 3:
                raise FactError(f'{cname}.{mname}: add_datapoint arity')
            lab = call.args[0]
            if isinstance(lab, ast.Constant) and isinstance(lab.value, str):
                label = lab.value
            elif isinstance(lab, ast.Name):
                label = '$' + lab.id
            else:
                raise FactError(f'{cname}.{mname}: add_datapoint label shape')
            payload = call.args[2]
            arity = len(payload.elts) if isinstance(payload, ast.Tuple) else -1
            out.append((cname, mname, label, src(call.args[1]).replace('self.', ''), str(arity)))
    return out


def pause_sites(trees):
    out = []
    for modname, tree in trees:
        for fname in ('pause_matching_events', 'unpause_matching_events', 'cancel_matching_events'):
            for cname, mname, call in call_sites(tree, modname, fname):
                if cname == 'Environment':
                    continue
                kws = {k.arg: src(k.value) for k in call.keywords}
                if call.args:
                    kws['asset_id'] = src(call.args[0])
                out.append((cname, mname, fname, kws.get('asset_id', '?')))
    return out


# ---------------------------------------------------------------- defaults
def ctor_defaults(trees, want):
    out = []
    for modname, tree in trees:
        for c in classes(tree):
            for m in methods(c):
                key = f'{c.name}.{m.name}'
                if key in want:
                    a = m.args
                    pos = a.args
                    defs = [None] * (len(pos) - len(a.defaults)) + list(a.defaults)
                    lst = []
                    for p, d in zip(pos, defs):
                        if p.arg == 'self':
                            continue
                        lst.append((p.arg, src(d) if d is not None else '<required>'))
                    if a.vararg:
                        lst.append(('*' + a.vararg.arg, ''))
                    out.append((key, lst))
    found = {k for k, _ in out}
    missing = set(want) - found
    if missing:
        raise FactError('constructors not found: ' + ', '.join(sorted(missing)))
    out.sort()
    return out


# ---------------------------------------------------------------- class IR (C20)
def class_ir(trees):
    """For each class: bases, and for __init__/initialize the ordered statement IR:
       A:<attr>            self.<attr> = ...  (with the self-attributes read on the right: R:<attr>)
       SUPER:<method>      super().<method>(...)
       CALL:<method>       self.<method>(...)
       REG                 System.add_asset(self)
    """
    out = []
    for modname, tree in trees:
        for c in classes(tree):
            bases = [src(b) for b in c.bases]
            props = []
            for m in methods(c):
                decs = [src(d) for d in m.decorator_list]
                if 'property' in decs or any(d.endswith('.getter') for d in decs):
                    props.append(m.name)
            ir = {}
            for m in methods(c):
                if m.name not in ('__init__', 'initialize'):
                    continue
                ir[m.name] = stmts_ir(m.body, f'{c.name}.{m.name}')
            setters = []
            for m in methods(c):
                decs = [src(d) for d in m.decorator_list]
                for d in decs:
                    if d.endswith('.setter'):
                        setters.append((m.name, stmts_ir(m.body, f'{c.name}.{m.name}.setter')))
            helper = {}
            for m in methods(c):
                if m.name in ('_set_waiting_for_part', '_schedule_finish_cycle', '_update_state', '_schedule_next_sense',
                              '_schedule_next_transition', 'set_upstream', '_finish_cycle', '_schedule_pass_part_downstream'):
                    helper[m.name] = stmts_ir(m.body, f'{c.name}.{m.name}')
            out.append((c.name, bases, sorted(props), ir, setters, helper))
    return out


def reads_of(node):
    r = []
    for n in ast.walk(node):
        if isinstance(n, ast.Attribute) and isinstance(n.value, ast.Name) and n.value.id == 'self' \
                and isinstance(n.ctx, ast.Load):
            r.append(n.attr)
    seen = []
    for x in r:
        if x not in seen:
            seen.append(x)
    return seen


def stmts_ir(body, where):
    out = []
    for st in body:
        if isinstance(st, ast.Expr) and isinstance(st.value, ast.Constant):
            continue
        out += stmt_ir(st, where)
    return out


def stmt_ir(st, where):
    out = []
    if isinstance(st, ast.Assign):
        for r in reads_of(st.value):
            out.append('R:' + r)
        if isinstance(st.value, ast.Call) and src(st.value.func).startswith('super().'):
            out.append('SUPER:' + src(st.value.func)[len('super().'):])
        for t in st.targets:
            if isinstance(t, ast.Attribute) and isinstance(t.value, ast.Name) and t.value.id == 'self':
                out.append('A:' + t.attr)
            elif isinstance(t, ast.Attribute) and src(t.value) in ('Asset', 'System'):
                out.append('G:' + t.attr)
            elif isinstance(t, ast.Attribute) and isinstance(t.value, ast.Name):
                out.append('O:' + src(t))
            elif isinstance(t, ast.Name):
                out.append('L:' + t.id)
            elif isinstance(t, ast.Subscript):
                for r in reads_of(t):
                    out.append('R:' + r)
            elif isinstance(t, ast.Tuple):
                out.append('L:tuple')
            else:
                raise FactError(f'{where}: unsupported assignment target {src(t)}')
        return out
    if isinstance(st, ast.AugAssign):
        t = st.target
        for r in reads_of(st.value):
            out.append('R:' + r)
        if isinstance(t, ast.Attribute) and src(t.value) == 'Asset':
            out.append('G:' + t.attr)
        elif isinstance(t, ast.Attribute) and src(t.value) == 'self':
            out += ['R:' + t.attr, 'A:' + t.attr]
        elif isinstance(t, ast.Name):
            out.append('L:' + t.id)
        else:
            raise FactError(f'{where}: unsupported aug-assignment target {src(t)}')
        return out
    if isinstance(st, ast.Expr) and isinstance(st.value, ast.Call):
        call = st.value
        f = src(call.func)
        for a in list(call.args) + [k.value for k in call.keywords]:
            for r in reads_of(a):
                out.append('R:' + r)
        if f.startswith('super().'):
            out.append('SUPER:' + f[len('super().'):])
        elif f == 'System.add_asset':
            out.append('REG')
        elif f.startswith('self.') and f.count('.') == 1:
            out.append('CALL:' + f[5:])
        elif f.startswith('self.'):
            out.append('R:' + f.split('.')[1])
            out.append('EXT:' + f[5:])
        else:
            out.append('EXT:' + f)
        return out
    if isinstance(st, ast.Assert):
        for r in reads_of(st.test):
            out.append('R:' + r)
        return out
    if isinstance(st, ast.If):
        for r in reads_of(st.test):
            out.append('R:' + r)
        out.append('IF')
        out += stmts_ir(st.body, where)
        out.append('ELSE')
        out += stmts_ir(st.orelse, where)
        out.append('FI')
        return out
    if isinstance(st, ast.For):
        for r in reads_of(st.iter):
            out.append('R:' + r)
        out.append('FOR')
        out += stmts_ir(st.body, where)
        out.append('ROF')
        return out
    if isinstance(st, ast.While):
        for r in reads_of(st.test):
            out.append('R:' + r)
        out.append('FOR')
        out += stmts_ir(st.body, where)
        out.append('ROF')
        return out
    if isinstance(st, ast.Return):
        if st.value is not None:
            for r in reads_of(st.value):
                out.append('R:' + r)
        out.append('RET')
        return out
    if isinstance(st, ast.Raise):
        out.append('RAISE')
        return out
    if isinstance(st, ast.Pass):
        return out
    if isinstance(st, ast.Try):
        out.append('IF')
        out += stmts_ir(st.body, where)
        out.append('ELSE')
        for h in st.handlers:
            out += stmts_ir(h.body, where)
        out.append('FI')
        return out
    if isinstance(st, ast.Expr):
        for r in reads_of(st.value):
            out.append('R:' + r)
        return out
    raise FactError(f'{where}: unsupported statement {type(st).__name__}: {src(st)[:60]}')


def meta_ir(trees):
    """(class, metaclass, IR of the metaclass' __call__) for every class declared with metaclass=<a class of the model>."""
    metas = {}
    for modname, tree in trees:
        for c in classes(tree):
            for m in methods(c):
                if m.name == '__call__' and any(src(b) == 'type' for b in c.bases):
                    metas[c.name] = stmts_ir(m.body, f'{c.name}.__call__')
    out = []
    for modname, tree in trees:
        for c in classes(tree):
            for k in c.keywords:
                if k.arg == 'metaclass':
                    mc = src(k.value)
                    if mc not in metas:
                        raise FactError(f'{c.name}: metaclass {mc} without a __call__ the extractor understands')
                    out.append((c.name, mc, metas[mc]))
    return out


# ---------------------------------------------------------------- main
MODEL_FILES = [
    'simulation.py', 'resource_manager.py', 'system.py',
    'factory_floor/asset.py', 'factory_floor/part.py', 'factory_floor/batch.py',
    'factory_floor/part_flow_controller.py', 'factory_floor/part_handler.py',
    'factory_floor/part_processor.py', 'factory_floor/buffer.py', 'factory_floor/source.py',
    'factory_floor/sink.py', 'factory_floor/decision_gate.py', 'factory_floor/part_batcher.py',
    'factory_floor/group.py', 'factory_floor/maintainer.py', 'factory_floor/action_scheduler.py',
    'sensors/sensor.py', 'sensors/part_sensor.py', 'cms/cms.py',
]

CTORS = [
    'Environment.__init__', 'Environment.run', 'Environment.schedule_event', 'Event.__init__',
    'System.__init__', 'System.simulate', 'System.simulate_multiple_times', 'System.find_assets',
    'Asset.__init__', 'Part.__init__', 'PartGenerator.__init__', 'Batch.__init__',
    'PartFlowController.__init__', 'PartHandler.__init__', 'PartProcessor.__init__', 'Buffer.__init__',
    'Source.__init__', 'Sink.__init__', 'DecisionGate.__init__', 'PartBatcher.__init__',
    'Group.__init__', 'GroupPath.__init__', 'Maintainer.__init__', 'Maintainer.create_work_order',
    'ActionScheduler.__init__', 'ActionScheduler.register_object',
    'Sensor.__init__', 'PeriodicSensor.__init__', 'OutputPartSensor.__init__', 'Cms.__init__',
    'PartHandler._set_waiting_for_part', 'PartHandler._schedule_finish_cycle',
    'PartHandler._schedule_pass_part_downstream', 'ActionScheduler._update_state',
]


def generate(repo):
    base = os.path.join(repo, 'simprocesd', 'model')
    trees = []
    for f in MODEL_FILES:
        p = os.path.join(base, f)
        if not os.path.exists(p):
            raise FactError('missing source file ' + p)
        trees.append((f, parse(p)))
    sim = dict(trees)['simulation.py']
    L = []
    L.append('(* GENERATED by tools/pyfacts.py from /repo — do not edit. *)')
    L.append('From Coq Require Import String List.')
    L.append('Import ListNotations.')
    L.append('Open Scope string_scope.')
    L.append('')
    L.append('Definition event_types : list string := ' + coq_list([q(x) for x in event_types(sim)]) + '.')
    L.append('')
    L.append('Definition lt_chain : list (string * string) := '
             + coq_list([f'({q(a)}, {q(b)})' for a, b in lt_chain(sim)]) + '.')
    L.append('')
    L.append('(* (class, method, time, asset id, action, event type) of every schedule_event call *)')
    L.append('Definition sched_sites : list (string * string * string * string * string * string) := '
             + coq_list(['(' + ', '.join(q(x) for x in s) + ')' for s in sched_sites(trees)]) + '.')
    L.append('')
    L.append('(* (class, method, label, sub label, payload arity) of every add_datapoint call *)')
    L.append('Definition data_sites : list (string * string * string * string * string) := '
             + coq_list(['(' + ', '.join(q(x) for x in s) + ')' for s in data_sites(trees)]) + '.')
    L.append('')
    L.append('(* (class, method, call, asset id) of every pause/unpause/cancel call outside Environment *)')
    L.append('Definition pause_sites : list (string * string * string * string) := '
             + coq_list(['(' + ', '.join(q(x) for x in s) + ')' for s in pause_sites(trees)]) + '.')
    L.append('')
    L.append('Definition ctor_defaults : list (string * list (string * string)) := '
             + coq_list([f'({q(k)}, [' + '; '.join(f'({q(a)}, {q(d)})' for a, d in lst) + '])'
                         for k, lst in ctor_defaults(trees, CTORS)]) + '.')
    L.append('')
    irs = class_ir(trees)
    L.append('(* (class, bases, properties, __init__ IR, initialize IR) *)')
    items = []
    for name, bases, props, ir, setters, helper in irs:
        def sl(xs):
            return '[' + '; '.join(q(x) for x in xs) + ']'
        items.append(f'({q(name)}, {sl(bases)}, {sl(props)}, {sl(ir.get("__init__", ["<none>"]))}, '
                     f'{sl(ir.get("initialize", ["<none>"]))})')
    L.append('Definition class_ir : list (string * list string * list string * list string * list string) := '
             + coq_list(items) + '.')
    L.append('')
    items = []
    for name, bases, props, ir, setters, helper in irs:
        for sname, sir in setters:
            items.append(f'({q(name)}, {q(sname + ".setter")}, [' + '; '.join(q(x) for x in sir) + '])')
        for hname, hir in sorted(helper.items()):
            items.append(f'({q(name)}, {q(hname)}, [' + '; '.join(q(x) for x in hir) + '])')
    L.append('(* IR of property setters and helper methods reachable from constructors/initialisers *)')
    L.append('Definition helper_ir : list (string * string * list string) := ' + coq_list(items) + '.')
    L.append('')
    L.append('(* (class, its metaclass, IR of the metaclass __call__): code that runs around the whole constructor chain *)')
    items = [f'({q(c)}, {q(mc)}, [' + '; '.join(q(x) for x in ir) + '])' for c, mc, ir in meta_ir(trees)]
    L.append('Definition meta_ir : list (string * string * list string) := ' + coq_list(items) + '.')
    L.append('')
    return '\n'.join(L)


def main():
    repo = sys.argv[1] if len(sys.argv) > 1 else '/repo'
    outp = sys.argv[2] if len(sys.argv) > 2 else os.path.join(os.path.dirname(os.path.dirname(os.path.abspath(__file__))),
                                                            'coq', 'Gen', 'Facts.v')
    try:
        text = generate(repo)
    except (FactError, SyntaxError) as e:
        print('FACTERROR: ' + str(e))
        sys.exit(2)
    old = None
    if os.path.exists(outp):
        with open(outp) as f:
            old = f.read()
    if old != text:
        os.makedirs(os.path.dirname(outp), exist_ok=True)
        with open(outp, 'w') as f:
            f.write(text)
        print('facts: updated ' + outp)
    else:
        print('facts: unchanged')


if __name__ == '__main__':
    main()
