(* family id -> extracted model entry point *)
let table = [
  (1, FamEnv.run_fam_env);
  (2, FamRM.run_fam_rm);
  (3, FamMaint.run_fam_maint);
  (4, FamSched.run_fam_sched);
  (5, FamSensor.run_fam_sensor);
  (6, FamFloor.run_fam_floor);
  (7, FamSys.run_fam_sys);
  (8, FamLine.run_fam_line);
]
