(* family id -> extracted model entry point *)
let table = [
  (1, FamEnv.run_fam_env);
]
