(* Hand-written driver: one scenario per input line, "family int int ...";
   prints the model's integer output on one line. Only int <-> Z conversion. *)
open BinNums

let rec pos_of_int n = if n = 1 then Coq_xH else if n land 1 = 0 then Coq_xO (pos_of_int (n lsr 1)) else Coq_xI (pos_of_int (n lsr 1))
let z_of_int n = if n = 0 then Z0 else if n > 0 then Zpos (pos_of_int n) else Zneg (pos_of_int (-n))
let rec int_of_pos = function Coq_xH -> 1 | Coq_xO p -> 2 * int_of_pos p | Coq_xI p -> 2 * int_of_pos p + 1
let int_of_z = function Z0 -> 0 | Zpos p -> int_of_pos p | Zneg p -> - (int_of_pos p)

let families : (int * (coq_Z list -> coq_Z list)) list = Families.table

let () =
  try
    while true do
      let line = input_line stdin in
      let toks = Stdlib.List.filter (fun s -> s <> "") (String.split_on_char ' ' line) in
      match Stdlib.List.map int_of_string toks with
      | [] -> print_newline ()
      | fam :: args ->
        let f = try Stdlib.List.assoc fam families with Not_found -> (fun _ -> []) in
        let out = f (Stdlib.List.map z_of_int args) in
        let b = Buffer.create 4096 in
        Stdlib.List.iter (fun z -> Buffer.add_string b (string_of_int (int_of_z z)); Buffer.add_char b ' ') out;
        print_string (Buffer.contents b); print_newline ()
    done
  with End_of_file -> ()
