(** The class IR of asset.py and its subclasses as extracted (tools/pyfacts.py) from the code before the
    repair of defect D5 (/repo commit f79706b): frozen, for the refutation in C20_refuted.v. *)
From Coq Require Import String List.
Import ListNotations.
Open Scope string_scope.

Definition class_ir_v0 : list (string * list string * list string * list string * list string) := [
    ("EventType", ["IntEnum"], [], ["<none>"], ["<none>"]);
    ("Event", [], [], ["IF"; "EXT:assert_is_instance"; "EXT:assert_is_instance"; "EXT:assert_callable"; "ELSE"; "FI"; "A:time"; "A:asset_id"; "A:action"; "A:event_type"; "A:message"; "A:status"; "A:random_weight"; "A:paused_at"; "A:cancelled"; "A:executed"], ["<none>"]);
    ("Environment", [], ["now"], ["A:name"; "A:resource_manager"; "CALL:_reset"], ["<none>"]);
    ("ResourceManager", [], [], ["A:_resources"; "A:_waiting_requests"; "A:_env"; "A:_name"], ["A:_env"; "R:_resources"; "FOR"; "CALL:_record_resource_amount_update"; "ROF"]);
    ("ReservedResources", [], ["reserved_resources"], ["A:_resource_manager"; "A:_reserved_resources"], ["<none>"]);
    ("System", [], ["env"; "resource_manager"; "simulation_data"], ["A:_assets"; "IF"; "L:resource_manager"; "ELSE"; "FI"; "A:_env"; "A:_simulation_is_initialized"; "G:_instance"], ["<none>"]);
    ("Asset", [], ["env"; "id"; "name"; "value"; "value_history"], ["G:_id_counter"; "A:_id"; "IF"; "R:_id"; "A:_name"; "ELSE"; "A:_name"; "FI"; "A:_env"; "A:_value"; "A:_initial_value"; "A:_value_history"; "IF"; "REG"; "ELSE"; "FI"], ["EXT:assert_is_instance"; "R:_env"; "A:_env"; "R:_initial_value"; "A:_value"; "A:_value_history"]);
    ("Part", ["Asset"], ["routing_history"], ["SUPER:__init__"; "A:quality"; "A:_routing_history"; "A:_group_pathing"], ["<none>"]);
    ("PartGenerator", [], [], ["A:name_prefix"; "A:value"; "A:quality"; "A:_generated_part_counter"], ["<none>"]);
    ("Batch", ["Part"], ["value"], ["SUPER:__init__"; "IF"; "L:parts"; "ELSE"; "FI"; "A:parts"], ["SUPER:initialize"; "R:parts"; "FOR"; "EXT:p.initialize"; "ROF"]);
    ("PartFlowController", ["Asset"], ["block_input"; "downstream"; "joined_groups"; "upstream"; "waiting_for_part_start_time"], ["A:_downstream"; "A:_upstream"; "A:_block_input"; "A:_recursion_prevention"; "A:_joined_groups"; "SUPER:__init__"; "CALL:set_upstream"], ["<none>"]);
    ("PartHandler", ["PartFlowController"], ["cycle_time"; "waiting_for_part_start_time"], ["A:_waiting_for_part_since"; "SUPER:__init__"; "A:cycle_time"; "A:_next_cycle_time_offset"; "A:_part"; "A:_output"; "A:_received_part_callbacks"; "A:_waiting_for_downstream_space"], ["SUPER:initialize"; "CALL:_set_waiting_for_part"]);
    ("PartProcessor", ["PartHandler"; "Maintainable"], ["uptime"; "utilization_time"], ["SUPER:__init__"; "A:_is_shut_down"; "A:_resources_for_processing"; "A:_reserved_resources"; "A:_waiting_for_resources"; "A:_finish_processing_callbacks"; "A:_shutdown_callbacks"; "A:_restored_callbacks"; "A:_uptime"; "A:_last_restore"; "A:_time_in_use"; "A:_last_use_start"], ["SUPER:initialize"; "R:env"; "A:_last_restore"]);
    ("Buffer", ["PartHandler"], ["capacity"; "cycle_time"; "minimum_delay"; "stored_parts"], ["SUPER:__init__"; "A:_minimum_delay"; "IF"; "A:_capacity"; "ELSE"; "A:_capacity"; "FI"; "R:_capacity"; "A:_buffer"; "A:_level"], ["<none>"]);
    ("Source", ["PartHandler"], ["cost_of_produced_parts"; "produced_parts"; "remaining_parts"], ["SUPER:__init__"; "IF"; "R:id"; "A:_part_generator"; "ELSE"; "EXT:assert_is_instance"; "A:_part_generator"; "FI"; "A:_max_produced_parts"; "A:_cost_of_produced_parts"; "A:_produced_parts"], ["SUPER:initialize"; "CALL:_schedule_finish_cycle"]);
    ("Sink", ["PartHandler"], ["received_parts_count"; "value_of_received_parts"], ["SUPER:__init__"; "A:_collect_parts"; "A:collected_parts"; "A:_received_parts_count"; "A:_value_of_received_parts"], ["<none>"]);
    ("DecisionGate", ["PartFlowController"], [], ["SUPER:__init__"; "IF"; "R:part_pass_decider"; "A:_decider_override"; "ELSE"; "A:_decider_override"; "FI"], ["<none>"]);
    ("PartBatcher", ["PartHandler"], ["output_batch_size"], ["SUPER:__init__"; "A:_output_batch_size"; "A:_in_progress_batch"], ["<none>"]);
    ("Group", [], [], ["A:_devices"; "A:name"; "A:_group_paths"; "L:all_devices"; "IF"; "L:all_devices"; "ELSE"; "FI"; "IF"; "L:all_devices"; "ELSE"; "FI"; "L:all_devices"; "FOR"; "EXT:assert_is_instance"; "EXT:device._joined_groups.append"; "FOR"; "IF"; "RAISE"; "ELSE"; "FI"; "ROF"; "FOR"; "IF"; "RAISE"; "ELSE"; "FI"; "ROF"; "ROF"; "IF"; "A:_input_device"; "ELSE"; "R:_devices"; "A:_input_device"; "FI"; "IF"; "A:_output_device"; "ELSE"; "R:_devices"; "A:_output_device"; "FI"], ["<none>"]);
    ("GroupInput", ["PartFlowController"], ["upstream"], ["SUPER:__init__"; "A:_group"; "R:_group"; "R:_joined_groups"; "EXT:_joined_groups.append"; "FOR"; "EXT:d.set_upstream"; "ROF"], ["<none>"]);
    ("GroupOutput", ["PartFlowController"], ["downstream"], ["SUPER:__init__"; "A:_group"; "R:_group"; "R:_joined_groups"; "EXT:_joined_groups.append"; "CALL:set_upstream"], ["<none>"]);
    ("GroupPath", ["PartFlowController"], [], ["SUPER:__init__"; "A:_group"; "R:_group"; "EXT:_group._group_paths.append"], ["<none>"]);
    ("Maintainer", ["Asset"], ["available_capacity"; "total_capacity"], ["SUPER:__init__"; "A:_capacity"; "A:_utilization"; "A:_env"; "A:_request_queue"; "A:_active_requests"], ["<none>"]);
    ("_WorkOrder", [], [], ["EXT:assert_is_instance"; "A:target"; "A:tag"; "A:needed_capacity"; "A:info"], ["<none>"]);
    ("Maintainable", [], [], ["<none>"], ["<none>"]);
    ("ActionScheduler", ["Asset"], ["current_state"], ["FOR"; "ROF"; "SUPER:__init__"; "A:_schedule"; "A:_is_cyclical"; "A:_schedule_index"; "A:_state"; "A:_registered_objects"], ["SUPER:initialize"; "CALL:_update_state"]);
    ("Probe", [], [], ["EXT:assert_callable"; "A:_get_data"; "A:target"], ["<none>"]);
    ("AttributeProbe", ["Probe"], [], ["EXT:assert_is_instance"; "A:_attribute_name"; "R:_get_data"; "SUPER:__init__"], ["<none>"]);
    ("Sensor", ["Asset"], ["last_sense"; "probes"], ["SUPER:__init__"; "A:_data_capacity"; "A:_on_sense"; "A:_last_sense"; "EXT:assert_is_instance"; "A:_probes"; "A:data"; "R:_probes"; "FOR"; "R:data"; "ROF"], ["SUPER:initialize"; "A:_last_sense"; "A:data"; "R:_probes"; "FOR"; "R:data"; "ROF"]);
    ("PeriodicSensor", ["Sensor"], [], ["SUPER:__init__"; "A:_interval"], ["SUPER:initialize"; "R:data"; "CALL:_schedule_next_sense"]);
    ("OutputPartSensor", ["Sensor"], [], ["EXT:assert_is_instance"; "SUPER:__init__"; "A:_part_processor"; "A:_probing_interval"; "A:_counter"], ["R:_env"; "IF"; "R:_probe_part"; "R:_part_processor"; "EXT:_part_processor.add_finish_processing_callback"; "ELSE"; "FI"; "SUPER:initialize"; "A:_counter"]);
    ("Cms", ["Asset"], [], ["SUPER:__init__"; "A:maintainer"; "A:_sensors"], ["<none>"])].
