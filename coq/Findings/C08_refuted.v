(** C08 / C03 on the faithful model of the ORIGINAL group.py (finding D7): GroupOutput.give_part read the innermost group path
    from the top of the part's stack, offered the part downstream and removed the entry only after a successful offer.  When the
    path of an inner group is the last device of an enclosing group, the enclosing group's output is reached in the same call,
    still finds the inner path on top and hands the part to it again, for ever: RecursionError on the first part that leaves.
    [give_v0] is the frozen original [give] (the GroupOutput case is the only difference to Model/Floor.v).  Replayed on the
    implementation (corpus/floor/D7.json); repaired by a fix: commit. *)
From Coq Require Import ZArith List Bool Lia.
From RecordUpdate Require Import RecordUpdate.
From SimVerif Require Import Model.Base Model.Env Model.RM Model.Maint Model.FloorTypes Model.Floor.
Import ListNotations.
Open Scope Z_scope.

Fixpoint give_v0 (fuel : nat) (nw : Z) (w : fw) (d : Z) (it : item) : fw * bool :=
  match fuel with
  | O => (failf w E_FUELX, false)
  | S f =>
    if negb (okf w) then (w, false) else
    let x := getd w d in
    let try_list (w0 : fw) (it0 : item) (l : list Z) : fw * bool :=
      fold_left (fun (acc : fw * bool) d' => if snd acc then acc else give_v0 f nw (fst acc) d' it0) l (w0, false) in
    match d_kind x with
    | KPfc | KGate =>
      if (match d_kind x with KGate => negb (decide (d_decider x) it) | _ => false end) then (w, false)
      else if negb (operational x && negb (d_block x)) then (w, false)
      else try_list w (item_add_hist d it) (sorted_down fuel w d)
    | KGroupIn =>
      if negb (operational x && negb (d_block x)) then (w, false)
      else try_list w it (sorted_down fuel w d)
    | KGroupPath =>
      if d_block x then (w, false)
      else match aget (d_group x) (f_groups w) with
           | Some g => give_v0 f nw w (g_in g) (item_add_hist d (item_push_gpath d it))
           | None => (w, false)
           end
    | KGroupOut =>
      match rev (item_gpath it) with
      | [] => (failf w E_RUNTIME, false)
      | gp :: _ =>
        let '(w1, ok) := try_list w it (sorted_down fuel w gp) in
        if ok then (upd_part_everywhere (item_id it) (fun p => p <| p_gpath ::= fun s => removelast s |>) w1, true)
        else (w1, false)
      end
    | KHandler | KSource | KSink | KBatcher =>
      if handler_can_accept x then (accept f nw w d it, true) else (w, false)
    | KBuffer =>
      if inf_leb (d_level x + item_count it) (d_capacity x) && handler_can_accept x then (accept f nw w d it, true) else (w, false)
    | KProcessor =>
      let '(w1, ok) := proc_can_accept nw w d in
      if ok then (accept f nw w1 d it, true) else (w1, false)
    end
  end.

(** outer group 1 = [.. ; inner path 6], its output 8, its path 9 -> sink 11; inner group 2, its output 5, its path 6 -> 8.
    A part that entered through 9 and then 6 is offered to the inner output 5. *)
Definition wD7 : fw :=
  mkFw [(5, (blank_dev KGroupOut) <| d_group := 2 |>);
        (6, (blank_dev KGroupPath) <| d_group := 2 |> <| d_down := [8] |>);
        (8, (blank_dev KGroupOut) <| d_group := 1 |>);
        (9, (blank_dev KGroupPath) <| d_group := 1 |> <| d_down := [11] |>);
        (11, (blank_dev KSink))] [] init_rs [] 20 [] [] 0.
Definition itD7 : item := ISingle (mkPart 21 0 8 [1; 9; 2; 6; 3] [9; 6]).

Example C08_refuted_D7 :
  (* original: the recursion never ends (here: 40 levels of fuel used up), nothing is delivered *)
  f_err (fst (give_v0 40 0 wD7 5 itD7)) = E_FUELX /\ snd (give_v0 40 0 wD7 5 itD7) = false /\
  (* repaired: delivered to the sink through the inner path, then the outer path; both stack entries are gone *)
  snd (give 40 0 wD7 5 itD7) = true /\ f_err (fst (give 40 0 wD7 5 itD7)) = 0 /\
  map (fun it => (item_id it, p_hist (item_head it), item_gpath it)) (d_collected (getd (fst (give 40 0 wD7 5 itD7)) 11)) = [] /\
  d_received (getd (fst (give 40 0 wD7 5 itD7)) 11) = 1.
Proof. vm_compute. repeat split; reflexivity. Qed.

(** Finding D9 (C08, "the device idle longest receives the part"): the original PartHandler.notify_upstream_of_available_space
    started the waiting-for-part clock unconditionally ([stamp_v0]); unblocking the input of a device that is still processing a part
    stamped it "waiting since now", and when it became empty later the stamp was kept.  Device 5 below processes a part until 36 and
    has its input unblocked at 32; device 6 has been idle since 32.  Original: 5 counts as idle since 32 and, listed first, is offered
    the next part before 6 (the ranking of [sorted_down] is stable).  Repaired ([wait_if_empty]): 5 counts as idle since 36, 6 goes first. *)
Definition stamp_v0 (nw : Z) (w : fw) (d : Z) : fw := updd w d (dev_set_wait nw true false).

Definition wD9 : fw :=
  mkFw [(1, (blank_dev KSource) <| d_down := [5; 6] |>);
        (5, (blank_dev KHandler) <| d_up := [1] |> <| d_part := Some (ISingle (mkPart 11 0 8 [1; 5] [])) |> <| d_wait_since := None |>);
        (6, (blank_dev KHandler) <| d_up := [1] |> <| d_wait_since := Some 32 |>)] [] init_rs [] 20 [] [] 0.

(** what the device looks like once its part has left at 36 (both slots empty, the clock (re)started without reset) *)
Definition emptied36 (w : fw) : fw := updd (updd w 5 t_clear_part) 5 (dev_set_wait 36 true false).

Example C08_refuted_D9 :
  d_wait_since (getd (stamp_v0 32 wD9 5) 5) = Some 32 /\ d_wait_since (getd (wait_if_empty 32 wD9 5) 5) = None /\
  sorted_down 5 (emptied36 (stamp_v0 32 wD9 5)) 1 = [5; 6] /\ sorted_down 5 (emptied36 (wait_if_empty 32 wD9 5)) 1 = [6; 5].
Proof. vm_compute. repeat split; reflexivity. Qed.
