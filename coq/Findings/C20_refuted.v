(** C20, defect D5: with the original constructors (registration inside Asset.__init__, i.e. in the
    middle of the subclass constructors) an asset created while the simulation is in progress does
    NOT go through the same operations as one created before the start: [initialize] runs before the
    subclass constructor has set the attributes it reads (Source, ActionScheduler, sensors: AttributeError),
    or the constructor afterwards overwrites what [initialize] set (Maintainer._env, PartProcessor._last_restore). *)
From Coq Require Import String List Bool.
From SimVerif Require Import Model.Life Findings.Life_v0.
Import ListNotations.
Open Scope string_scope.

Theorem C20_late_creation_refuted :
  late_safe class_ir_v0 [] "Source" = false /\
  effects (late class_ir_v0 [] "Source") <> effects (early class_ir_v0 [] "Source") /\
  effects (late class_ir_v0 [] "ActionScheduler") <> effects (early class_ir_v0 [] "ActionScheduler") /\
  effects (late class_ir_v0 [] "PeriodicSensor") <> effects (early class_ir_v0 [] "PeriodicSensor") /\
  effects (late class_ir_v0 [] "Maintainer") <> effects (early class_ir_v0 [] "Maintainer") /\
  effects (late class_ir_v0 [] "PartProcessor") <> effects (early class_ir_v0 [] "PartProcessor").
Proof. repeat split; vm_compute; congruence. Qed.

(** the witness for Source: late creation runs the initialiser's "schedule the first cycle" before cycle_time is assigned *)
Fixpoint index_of (x : string) (l : list string) (i : nat) : option nat :=
  match l with [] => None | y :: l' => if x =? y then Some i else index_of x l' (S i) end.

Theorem C20_source_witness :
  let ops := effects (late class_ir_v0 [] "Source") in
  match index_of "CALL:_schedule_finish_cycle" ops 0, index_of "A:cycle_time" ops 0 with
  | Some i, Some j => Nat.ltb i j = true
  | _, _ => False
  end.
Proof. vm_compute. reflexivity. Qed.

Theorem C20_all_late_safe_v0_false : all_late_safe class_ir_v0 [] = false.
Proof. vm_compute. reflexivity. Qed.

Print Assumptions C20_late_creation_refuted.
Print Assumptions C20_source_witness.
