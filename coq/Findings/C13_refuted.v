(** C06 / C13 on the faithful model of the ORIGINAL part_processor.py (finding D4): a failure that
    arrives while the processor is already shut down loses the part in process without telling the
    shutdown callbacks and without cancelling the paused FINISH_PROCESSING event.  [shutdown_v0] and
    [fail_v0] are the frozen original fragments (the rest of Model/Floor.v is unchanged).  Replayed on
    the implementation (corpus/floor/D4.json); repaired by a fix: commit. *)
From Coq Require Import ZArith List Bool Lia.
From RecordUpdate Require Import RecordUpdate.
From SimVerif Require Import Model.Base Model.Env Model.RM Model.Maint Model.FloorTypes Model.Floor.
Import ListNotations.
Open Scope Z_scope.

Definition shutdown_v0 (nw : Z) (is_failure : bool) (lost : Z) (w : fw) (d : Z) : fw :=
  let x := getd w d in
  if d_shut x then w
  else
    let w1 := emitf (updd w d (fun y => y <| d_shut := true |>)) (if is_failure then FCancel d else FPause d) in
    let w2 := updd w1 d (fun y =>
                dev_set_wait nw false false
                  (y <| d_uptime ::= Z.add (nw - match d_last_restore y with Some t => t | None => nw end) |>
                     <| d_last_restore := None |>
                     <| d_inuse ::= Z.add (match d_last_use y with Some t => nw - t | None => 0 end) |>
                     <| d_last_use := None |>)) in
    run_cbops nw d true is_failure lost (d_on_shutdown x) w2.

Definition fail_v0 (nw : Z) (w : fw) (d : Z) : fw :=
  let x := getd w d in
  let lost := match d_part x with Some it => item_id it | None => -1 end in
  let w1 := updd w d (fun y => y <| d_part := None |>) in
  let w2 := release_reserved nw w1 d in
  let w3 := data w2 L_FAILURE d [nw; lost] in
  shutdown_v0 nw true lost w3 d.

(** a processor shut down for maintenance with part 7 in process and a logging shutdown callback *)
Definition wD4 : fw :=
  let x := (blank_dev KProcessor) <| d_shut := true |> <| d_part := Some (ISingle (mkPart 7 0 8 [1; 2] [])) |>
                                  <| d_on_shutdown := [CbLog 2] |> <| d_last_restore := None |> in
  mkFw [(2, x)] [] init_rs [] 7 [] [] 0.

Example C13_refuted_D4 :
  let w' := fail_v0 40 wD4 2 in
  d_part (getd w' 2) = None /\                       (* the part is lost ... *)
  f_cblog w' = [] /\                                 (* ... the shutdown callbacks are not told ... *)
  ~ In (FCancel 2) (f_out w').                       (* ... and the paused cycle is not cancelled *)
Proof. vm_compute. repeat split. intros [H|[]]. discriminate. Qed.
