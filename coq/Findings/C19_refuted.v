(** C19 on the faithful model of the ORIGINAL sensor.py: the time series of a PeriodicSensor
    is never trimmed, so with a data capacity it neither stays bounded nor aligned with the
    probe series.  [periodic_sense_v0] is the frozen original model fragment. Replayed on the
    implementation (corpus/sensor/D3.json), repaired by a fix: commit. *)
From Coq Require Import ZArith List Bool Lia.
From SimVerif Require Import Model.Base Model.Env Model.Sensor.
Import ListNotations.
Open Scope Z_scope.

Definition periodic_sense_v0 (nw : Z) (vals : list Z) (s : sensor) : sensor :=
  sn_collect vals (sn_add_time nw s).

Fixpoint iter (n : nat) (t : Z) (s : sensor) : sensor :=
  match n with O => s | S n' => iter n' (t + 8) (periodic_sense_v0 t [t] s) end.

Example C19_refuted_D3 :
  exists n, let s := iter n 8 (new_sensor (Some 3) 1) in
            length (hd [] (sn_data s)) = 3%nat /\ length (sn_time s) = 10%nat.
Proof. exists 10%nat. vm_compute. split; reflexivity. Qed.

(** D11: after the first repair the time series was trimmed only when sense() had returned, so the on-sense callbacks ran in a state
    ([notified_v1]) whose time series was one entry longer than the probe series.  Replayed on the implementation
    (corpus/sensor/D11.json), repaired by fix: 92eafab (trim before sense()). *)
Definition notified_v1 (nw : Z) (vals : list Z) (s : sensor) : sensor := sn_collect vals (sn_add_time nw s).
Definition periodic_sense_v1 (nw : Z) (vals : list Z) (s : sensor) : sensor := sn_trim_time (notified_v1 nw vals s).

Fixpoint iter1 (n : nat) (t : Z) (s : sensor) : sensor :=
  match n with O => s | S n' => iter1 n' (t + 8) (periodic_sense_v1 t [t] s) end.

Example C19_refuted_D11 :
  exists n, let s := iter1 n 8 (new_sensor (Some 3) 1) in
            let seen := notified_v1 (8 + 8 * Z.of_nat n) [0] s in
            length (hd [] (sn_data s)) = length (sn_time s) /\
            length (hd [] (sn_data seen)) = 3%nat /\ length (sn_time seen) = 4%nat.
Proof. exists 3%nat. vm_compute. repeat split; reflexivity. Qed.
