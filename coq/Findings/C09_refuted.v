(** C09 on the faithful model of the ORIGINAL resource_manager.py: three clauses
    are false.  Each witness was replayed on the implementation (see
    corpus/rm/D1.json, D2.json, D6.json and known_findings.json) and repaired by
    a "fix:" commit; Props/C09.v proves the clauses of the repaired code. *)
From Coq Require Import ZArith List Bool Lia.
From SimVerif Require Import Model.Base Model.Env Findings.RM_v0.
Import ListNotations.
Open Scope Z_scope.

Definition s0 : rs := rm_initialize 0 (add_resources 0 1 16 (add_resources 0 0 16 init_rs)).

(** D1: reserve {r0: 1, r1: -1} raises ValueError after having taken r0. *)
Example C09_refuted_D1 :
  exists r, let s1 := run_rop 0 [] (RReserve 0 r) s0 in
            r_err s1 <> 0 /\ usage (r_pools s1) 0 <> usage (r_pools s0) 0 /\ r_res s1 = r_res s0.
Proof. exists [(0, 8); (1, -8)]. vm_compute. repeat split; discriminate. Qed.

(** D2: release {r9: 0, r0: 1} returns the pool's r0, then raises KeyError before reducing the reservation. *)
Example C09_refuted_D2 :
  exists r, let s1 := run_rop 0 [] (RReserve 0 [(0, 16)]) s0 in
            let s2 := run_rop 0 [] (RRelease 0 r) s1 in
            r_err s2 <> 0 /\ usage (r_pools s2) 0 <> usage (r_pools s1) 0 /\ r_res s2 = r_res s1.
Proof. exists [(9, 0); (0, 8)]. vm_compute. repeat split; discriminate. Qed.

(** D6: add_resources on an unknown name with a negative amount creates a pool of negative capacity. *)
Example C09_refuted_D6 :
  exists n a, let s1 := run_rop 0 [] (RAdd n a) s0 in r_err s1 = 0 /\ capacity (r_pools s1) n < 0.
Proof. exists 9, (-8). vm_compute. split; reflexivity. Qed.
