(** action_scheduler.py facts the model relies on. *)
From Coq Require Import String List ZArith.
From SimVerif Require Import Model.Base Model.Env Model.Sched Gen.Facts Tie.TieEnv Tie.TieRM.
Import ListNotations.
Open Scope string_scope.

Lemma tie_sched_sites :
  of_class "ActionScheduler" site_class Facts.sched_sites =
  [("ActionScheduler", "_schedule_next_transition", "ENV.now + delay", "self.id", "self._update_state", "EventType.OTHER_HIGH_PRIORITY")].
Proof. reflexivity. Qed.

Lemma tie_sched_data :
  of_class "ActionScheduler" data_class Facts.data_sites =
  [("ActionScheduler", "_update_state", "schedule_update", "name", "2")].
Proof. reflexivity. Qed.

(** is_cyclical defaults to True; _update_state advances by default; override_action defaults to None *)
Lemma tie_sched_defaults :
  defaults_of "ActionScheduler.__init__" = [("schedule", "<required>"); ("name", "None"); ("is_cyclical", "True")] /\
  defaults_of "ActionScheduler._update_state" = [("advance_schedule", "True")] /\
  defaults_of "ActionScheduler.register_object" = [("obj", "<required>"); ("override_action", "None")].
Proof. repeat split; reflexivity. Qed.
