(** maintainer.py facts the model relies on. *)
From Coq Require Import String List ZArith.
From SimVerif Require Import Model.Base Model.Env Model.Maint Gen.Facts Tie.TieEnv Tie.TieRM.
Import ListNotations.
Open Scope string_scope.

(** START_WORK now / FINISH_WORK at now + duration, both under the maintainer's own id *)
Lemma tie_maint_sites :
  of_class "Maintainer" site_class Facts.sched_sites =
  [("Maintainer", "try_working_requests", "ENV.now", "self.id", "self._start_work_order", "EventType.START_WORK");
   ("Maintainer", "_start_work_order", "ENV.now + ttm", "self.id", "self._finish_work_order", "EventType.FINISH_WORK")].
Proof. reflexivity. Qed.

Lemma tie_maint_data :
  of_class "Maintainer" data_class Facts.data_sites =
  [("Maintainer", "_record_work_order_datapoint", "$list_label", "name", "4")].
Proof. reflexivity. Qed.

Lemma tie_maint_defaults :
  defaults_of "Maintainer.__init__" = [("name", "'maintainer'"); ("capacity", "float('inf')"); ("value", "0")] /\
  defaults_of "Maintainer.create_work_order" = [("target", "<required>"); ("tag", "None"); ("info", "None")].
Proof. split; reflexivity. Qed.
