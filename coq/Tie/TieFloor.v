(** part_handler.py / part_processor.py / source.py / sink.py / buffer.py facts the floor model relies on. *)
From Coq Require Import String List ZArith.
From SimVerif Require Import Model.Base Model.Env Model.FloorTypes Model.Floor Gen.Facts Tie.TieEnv Tie.TieRM Tie.TieMaint.
Import ListNotations.
Open Scope string_scope.

(** every event a device schedules: finish-cycle at now + cycle time, pass-downstream, release-if-idle now,
    scheduled failure at the requested time: all under the device's own id (what pause/cancel match on) *)
Lemma tie_floor_sites :
  (of_class "PartHandler" site_class Facts.sched_sites ++ of_class "PartProcessor" site_class Facts.sched_sites)%list =
  [("PartHandler", "_schedule_finish_cycle", "ENV.now + next_cycle_time", "self.id", "self._finish_cycle", "EventType.FINISH_PROCESSING");
   ("PartHandler", "_schedule_pass_part_downstream", "event_time", "self.id", "self._pass_part_downstream", "EventType.PASS_PART");
   ("PartProcessor", "_finish_cycle", "ENV.now", "self.id", "self._release_resources_if_idle", "EventType.RELEASE_RESERVED_RESOURCES");
   ("PartProcessor", "schedule_failure", "time", "self.id", "self._fail", "EventType.FAIL")].
Proof. reflexivity. Qed.

(** no other floor class schedules events of its own *)
Lemma tie_floor_no_other_sites :
  map site_class Facts.sched_sites =
  ["Environment"; "ResourceManager"; "PartHandler"; "PartHandler"; "PartProcessor"; "PartProcessor";
   "Maintainer"; "Maintainer"; "ActionScheduler"; "PeriodicSensor"].
Proof. reflexivity. Qed.

Lemma tie_floor_data :
  (of_class "PartHandler" data_class Facts.data_sites ++ of_class "PartProcessor" data_class Facts.data_sites ++
   of_class "Buffer" data_class Facts.data_sites ++ of_class "Source" data_class Facts.data_sites)%list =
  [("PartHandler", "_on_received_new_part", "received_part", "name", "4");
   ("PartProcessor", "_finish_cycle", "produced_part", "name", "4");
   ("PartProcessor", "_fail", "device_failure", "name", "2");
   ("Buffer", "_on_received_new_part", "level", "name", "2");
   ("Buffer", "_pass_part_downstream", "level", "name", "2");
   ("Source", "_pass_part_downstream", "supplied_new_part", "name", "2")].
Proof. reflexivity. Qed.

(** shutdown pauses, restore unpauses, a failure cancels: the device's own events only *)
Lemma tie_floor_pause :
  Facts.pause_sites =
  [("PartProcessor", "_shutdown", "pause_matching_events", "self.id");
   ("PartProcessor", "restore_functionality", "unpause_matching_events", "self.id");
   ("PartProcessor", "_shutdown", "cancel_matching_events", "self.id");
   ("PartProcessor", "_shutdown", "cancel_matching_events", "self.id")].
Proof. reflexivity. Qed.

Lemma tie_floor_defaults :
  defaults_of "PartHandler.__init__" = [("name", "None"); ("upstream", "None"); ("cycle_time", "0"); ("value", "0")] /\
  defaults_of "PartProcessor.__init__" = [("name", "None"); ("upstream", "None"); ("cycle_time", "0"); ("value", "0"); ("resources_for_processing", "None")] /\
  defaults_of "Buffer.__init__" = [("name", "None"); ("upstream", "None"); ("minimum_delay", "0"); ("capacity", "None"); ("value", "0")] /\
  defaults_of "Source.__init__" = [("name", "None"); ("part_generator", "None"); ("cycle_time", "0.0"); ("starting_parts", "float('inf')")] /\
  defaults_of "Sink.__init__" = [("name", "None"); ("upstream", "None"); ("cycle_time", "0"); ("collect_parts", "False")] /\
  defaults_of "PartBatcher.__init__" = [("name", "None"); ("upstream", "None"); ("value", "0"); ("output_batch_size", "None")] /\
  defaults_of "PartHandler._schedule_finish_cycle" = [("time_offset", "0")] /\
  defaults_of "PartHandler._set_waiting_for_part" = [("is_waiting", "True"); ("reset", "False")] /\
  defaults_of "Part.__init__" = [("name", "None"); ("value", "0"); ("quality", "1")].
Proof. repeat split; reflexivity. Qed.

(** the priorities the model gives those events are the ones event.py orders them by (TieEnv) *)
Lemma tie_floor_priorities :
  (P_FAIL < P_RELEASE)%Z /\ (P_RELEASE < P_PASS_PART)%Z /\ (P_PASS_PART < P_FINISH_PROCESSING)%Z.
Proof. repeat split; reflexivity. Qed.
