(** system.py / asset.py facts the C20 model relies on, re-checked against the regenerated tables. *)
From Coq Require Import String List ZArith Bool.
From SimVerif Require Import Model.Base Model.Sys Model.Life Gen.Facts Tie.TieEnv.
Import ListNotations.
Open Scope string_scope.

(** the registration call is the last effect of creating any asset class of the code base:
    the hypothesis of [late_eq_early], for the classes as they are now *)
Lemma tie_all_late_safe : all_late_safe Facts.class_ir Facts.meta_ir = true.
Proof. vm_compute. reflexivity. Qed.

(** registration happens in the metaclass __call__, after the constructor chain *)
Lemma tie_meta : Facts.meta_ir = [("Asset", "_AssetType", ["SUPER:__call__"; "L:asset"; "IF"; "REG"; "ELSE"; "FI"; "RET"])].
Proof. reflexivity. Qed.

(** Asset.initialize: the assertion that makes a second initialisation an error, then the reset *)
Lemma tie_asset_initialize :
  option_map c_initialize (find_cls Facts.class_ir "Asset") =
  Some ["EXT:assert_is_instance"; "R:_env"; "A:_env"; "R:_initial_value"; "A:_value"; "A:_value_history"].
Proof. reflexivity. Qed.

(** the class hierarchy behind find_assets(subtype=...) *)
Lemma tie_hierarchy :
  mro Facts.class_ir "PartProcessor" = ["PartProcessor"; "PartHandler"; "PartFlowController"; "Asset"; "Maintainable"] /\
  mro Facts.class_ir "Buffer" = ["Buffer"; "PartHandler"; "PartFlowController"; "Asset"] /\
  mro Facts.class_ir "Source" = ["Source"; "PartHandler"; "PartFlowController"; "Asset"] /\
  mro Facts.class_ir "Sink" = ["Sink"; "PartHandler"; "PartFlowController"; "Asset"] /\
  mro Facts.class_ir "PartBatcher" = ["PartBatcher"; "PartHandler"; "PartFlowController"; "Asset"] /\
  mro Facts.class_ir "DecisionGate" = ["DecisionGate"; "PartFlowController"; "Asset"] /\
  mro Facts.class_ir "Maintainer" = ["Maintainer"; "Asset"] /\
  mro Facts.class_ir "ActionScheduler" = ["ActionScheduler"; "Asset"] /\
  mro Facts.class_ir "PeriodicSensor" = ["PeriodicSensor"; "Sensor"; "Asset"] /\
  mro Facts.class_ir "Part" = ["Part"; "Asset"].
Proof. repeat split; reflexivity. Qed.

Lemma tie_system_defaults :
  defaults_of "System.__init__" = [("resource_manager", "None")] /\
  defaults_of "System.find_assets" = [("name", "None"); ("id_", "None"); ("type_", "None"); ("subtype", "None")] /\
  defaults_of "Asset.__init__" = [("name", "None"); ("value", "0"); ("is_transitory", "False")].
Proof. repeat split; reflexivity. Qed.
