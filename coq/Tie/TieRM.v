(** resource_manager.py facts the RM model relies on, compared with the tables
    regenerated from /repo. *)
From Coq Require Import String List ZArith.
From SimVerif Require Import Model.Base Model.Env Model.RM Gen.Facts Tie.TieEnv.
Import ListNotations.
Open Scope string_scope.

(** the only event the manager schedules: the availability check, now, asset -1, OTHER_HIGH_PRIORITY *)
Lemma tie_rm_sites :
  of_class "ResourceManager" site_class Facts.sched_sites =
  [("ResourceManager", "_schedule_check_pending_requesters", "ENV.now", "-1",
    "self._check_pending_requests", "EventType.OTHER_HIGH_PRIORITY")].
Proof. reflexivity. Qed.

Definition data_class (s : string * string * string * string * string) : string := let '(c, _, _, _, _) := s in c.

(** the only datapoint: resource_update / resource name / (now, in_use, capacity) *)
Lemma tie_rm_data :
  of_class "ResourceManager" data_class Facts.data_sites =
  [("ResourceManager", "_record_resource_amount_update", "resource_update", "resource_name", "3")].
Proof. reflexivity. Qed.
