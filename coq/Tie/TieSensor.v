(** sensor.py / part_sensor.py / cms.py facts the model relies on. *)
From Coq Require Import String List ZArith.
From SimVerif Require Import Model.Base Model.Env Model.Sensor Gen.Facts Tie.TieEnv Tie.TieRM.
Import ListNotations.
Open Scope string_scope.

Lemma tie_sensor_sites :
  of_class "PeriodicSensor" site_class Facts.sched_sites =
  [("PeriodicSensor", "_schedule_next_sense", "ENV.now + self._interval", "self.id", "self._periodic_sense", "EventType.SENSOR")].
Proof. reflexivity. Qed.

Lemma tie_sensor_defaults :
  defaults_of "Sensor.__init__" = [("probes", "<required>"); ("name", "None"); ("data_capacity", "float('inf')"); ("value", "0")] /\
  defaults_of "PeriodicSensor.__init__" = [("interval", "<required>"); ("probes", "<required>"); ("name", "None"); ("data_capacity", "float('inf')"); ("value", "0")] /\
  defaults_of "OutputPartSensor.__init__" = [("part_processor", "<required>"); ("part_probes", "<required>"); ("sensing_interval", "0"); ("name", "None"); ("data_capacity", "float('inf')"); ("value", "0")].
Proof. repeat split; reflexivity. Qed.
