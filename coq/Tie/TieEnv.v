(** The event-system model's tables = the tables read from /repo (regenerated
    on every run into Gen/Facts.v).  Closed by computation. *)
From Coq Require Import String List ZArith.
From SimVerif Require Import Model.Base Model.Env Gen.Facts.
Import ListNotations.
Open Scope string_scope.

Definition show_field (f : efield) : string :=
  match f with Ftime => "time" | Fprio => "event_type" | Fweight => "random_weight" | Fasset => "asset_id" end.
Definition show_dir (d : dir) : string := match d with Asc => "lt" | Desc => "gt" end.

(** Event.__lt__ compares the fields in the model's order and directions. *)
Lemma tie_lt_chain : map (fun fd => (show_field (fst fd), show_dir (snd fd))) Env.lt_chain = Facts.lt_chain.
Proof. reflexivity. Qed.

(** The built-in priorities: rank in class EventType (auto() numbering from 1), in 1/16 units. *)
Definition model_priorities : list (string * Z) :=
  [("TERMINATE", P_TERMINATE); ("OTHER_LOW_PRIORITY", P_OTHER_LOW); ("START_WORK", P_START_WORK);
   ("SENSOR", P_SENSOR); ("FAIL", P_FAIL); ("RELEASE_RESERVED_RESOURCES", P_RELEASE);
   ("PASS_PART", P_PASS_PART); ("FINISH_PROCESSING", P_FINISH_PROCESSING); ("RESTORE", P_RESTORE);
   ("FINISH_WORK", P_FINISH_WORK); ("OTHER_HIGH_PRIORITY", P_OTHER_HIGH)].

Lemma tie_event_types :
  model_priorities = combine Facts.event_types (map (fun i => (16 * Z.of_nat i)%Z) (seq 1 (length Facts.event_types))).
Proof. reflexivity. Qed.

Definition of_class (c : string) {X} (get : X -> string) (l : list X) : list X :=
  filter (fun x => String.eqb (get x) c) l.

Definition site_class (s : string * string * string * string * string * string) : string :=
  let '(c, _, _, _, _, _) := s in c.

(** Environment.run schedules its own termination at now+d, asset -1, priority TERMINATE;
    nothing else in Environment schedules. *)
Lemma tie_env_sites :
  of_class "Environment" site_class Facts.sched_sites =
  [("Environment", "run", "self.now + simulation_duration", "-1", "self._terminate", "EventType.TERMINATE")].
Proof. reflexivity. Qed.

Definition defaults_of (k : string) : list (string * string) :=
  match find (fun p => String.eqb (fst p) k) Facts.ctor_defaults with Some p => snd p | None => [] end.

Lemma tie_env_defaults :
  defaults_of "Environment.schedule_event" =
    [("time", "<required>"); ("asset_id", "<required>"); ("action", "<required>");
     ("event_type", "EventType.OTHER_LOW_PRIORITY"); ("message", "''")] /\
  defaults_of "Environment.run" = [("simulation_duration", "<required>"); ("trace", "False")].
Proof. split; reflexivity. Qed.
