(** L4 types: parts, batches, devices and the factory-floor world. *)
From Coq Require Import ZArith List Bool Lia.
From RecordUpdate Require Import RecordUpdate.
From SimVerif Require Import Model.Base Model.Env Model.RM Model.Maint.
Import ListNotations.
Open Scope Z_scope.

(** A Part (an Asset): id, value, quality, routing history (device ids, oldest first) and the
    stack of GroupPaths it is inside (innermost last). *)
Record part := mkPart {
  p_id : Z; p_value : Z; p_quality : Z; p_hist : list Z; p_gpath : list Z }.
#[export] Instance etaPart : Settable _ := settable! mkPart <p_id; p_value; p_quality; p_hist; p_gpath>.

(** what moves between devices: a Part, or a Batch (itself a Part with quality 0 and no own value) of Parts *)
Inductive item := ISingle (p : part) | IBatch (b : part) (ps : list part).

Definition item_head (it : item) : part := match it with ISingle p => p | IBatch b _ => b end.
Definition item_id (it : item) : Z := p_id (item_head it).
Definition item_parts (it : item) : list part := match it with ISingle p => [p] | IBatch _ ps => ps end.
Definition item_count (it : item) : Z := match it with ISingle _ => 1 | IBatch _ ps => Z.of_nat (length ps) end.
Definition item_value (it : item) : Z :=
  match it with ISingle p => p_value p | IBatch _ ps => fold_right (fun p acc => p_value p + acc) 0 ps end.
Definition item_quality (it : item) : Z := p_quality (item_head it).
Definition item_gpath (it : item) : list Z := p_gpath (item_head it).

(** the identities of the parts an item consists of (a batch is its parts; the batch object itself is only a carrier) *)
Definition item_leaves (it : item) : list Z := map p_id (item_parts it).
Definition opt_leaves (o : option item) : list Z := match o with Some it => item_leaves it | None => [] end.

(** routing-history updates are applied to a batch and to every part it contains *)
Definition part_add_hist (d : Z) (p : part) : part := p <| p_hist ::= fun h => h ++ [d] |>.
Definition part_pop_hist (p : part) : part := p <| p_hist ::= fun h => removelast h |>.
Definition item_add_hist (d : Z) (it : item) : item :=
  match it with ISingle p => ISingle (part_add_hist d p) | IBatch b ps => IBatch (part_add_hist d b) (map (part_add_hist d) ps) end.
Definition item_pop_hist (it : item) : item :=
  match it with ISingle p => ISingle (part_pop_hist p) | IBatch b ps => IBatch (part_pop_hist b) (map part_pop_hist ps) end.
(** the group-path stack lives on the batch object only *)
Definition item_push_gpath (g : Z) (it : item) : item :=
  match it with
  | ISingle p => ISingle (p <| p_gpath ::= fun s => s ++ [g] |>)
  | IBatch b ps => IBatch (b <| p_gpath ::= fun s => s ++ [g] |>) ps
  end.
Definition item_pop_gpath (it : item) : item :=
  match it with
  | ISingle p => ISingle (p <| p_gpath ::= fun s => removelast s |>)
  | IBatch b ps => IBatch (b <| p_gpath ::= fun s => removelast s |>) ps
  end.

Inductive kind :=
| KPfc | KGate | KHandler | KProcessor | KBuffer | KSource | KSink | KBatcher | KGroupPath | KGroupIn | KGroupOut.

Definition kind_eqb (a b : kind) : bool :=
  match a, b with
  | KPfc, KPfc | KGate, KGate | KHandler, KHandler | KProcessor, KProcessor | KBuffer, KBuffer | KSource, KSource
  | KSink, KSink | KBatcher, KBatcher | KGroupPath, KGroupPath | KGroupIn, KGroupIn | KGroupOut, KGroupOut => true
  | _, _ => false
  end.

Definition is_holder (k : kind) : bool :=
  match k with KHandler | KProcessor | KBuffer | KSource | KSink | KBatcher => true | _ => false end.

(** gate deciders: pure functions of the part's observable state *)
Inductive decider :=
| DAlways | DNever
| DQualityGe (q : Z) | DQualityLt (q : Z)
| DValueGe (v : Z) | DValueLt (v : Z)
| DIdEven | DIdOdd.

Definition decide (dc : decider) (it : item) : bool :=
  match dc with
  | DAlways => true | DNever => false
  | DQualityGe q => q <=? item_quality it | DQualityLt q => item_quality it <? q
  | DValueGe v => v <=? item_value it | DValueLt v => item_value it <? v
  | DIdEven => Z.even (item_id it) | DIdOdd => Z.odd (item_id it)
  end.

(** scripted user callbacks *)
Inductive cbop :=
| CbSetCycle (z : Z)             (* device.cycle_time = z *)
| CbOffsetNext (z : Z)           (* device.offset_next_cycle_time(z) *)
| CbPartAddValue (z : Z)         (* part.add_value('x', z) *)
| CbPartSetQuality (z : Z)       (* part.quality = z *)
| CbCreateWO (m t g : Z)         (* maintainer m .create_work_order(device t, tag g) *)
| CbCreateWOIfFailure (m g : Z)  (* shutdown callback: if is_failure: maintainer m .create_work_order(this device, g) *)
| CbLog (k : Z).

Record dev := mkDev {
  d_kind : kind;
  d_up : list Z;                  (* _upstream *)
  d_down : list Z;                (* _downstream (raw list) *)
  d_block : bool;
  d_value : Z; d_vhist : list (Z * Z * Z * Z);   (* (label code, time, delta, new value) *)
  d_wait_since : option Z;        (* _waiting_for_part_since *)
  d_cycle : Z; d_offset : Z;
  d_part : option item; d_out : option item;
  d_waiting_ds : bool;            (* _waiting_for_downstream_space *)
  d_on_receive : list cbop;
  (* PartProcessor *)
  d_shut : bool;
  d_req : option req;             (* resources_for_processing *)
  d_reserved : option nat;        (* the ReservedResources object held *)
  d_waiting_res : bool;
  d_on_finish : list cbop; d_on_shutdown : list cbop; d_on_restore : list cbop;
  d_uptime : Z; d_last_restore : option Z; d_inuse : Z; d_last_use : option Z;
  d_wo_dur : Z; d_wo_cap : Z; d_wo_cost : Z;   (* get_work_order_duration / capacity / cost (0 by default) *)
  (* Buffer *)
  d_buf : list (Z * item); d_level : Z; d_capacity : inf; d_min_delay : Z;
  (* Source *)
  d_budget : inf; d_produced : Z; d_cost_produced : Z; d_gen_value : Z; d_gen_quality : Z; d_gen_count : Z;
  d_gen_batch : Z;                (* 0: single parts; n > 0: a batch generator producing batches of n parts; n < 0: empty batches *)
  d_gen_pattern : list Z;         (* non-empty: the sizes (as for d_gen_batch) of the successive items, cyclically *)
  (* Sink *)
  d_collect : bool; d_collected : list item; d_received : Z; d_value_received : Z;
  (* PartBatcher *)
  d_batch_size : option Z; d_inprog : option item;
  (* DecisionGate *)
  d_decider : decider;
  (* GroupPath / GroupInput / GroupOutput: the group they belong to *)
  d_group : Z;
  (* ghost (not part of the Python state, never read by the model): the identities of the parts this device has
     generated (Source), received for good (Sink), lost to a failure (PartProcessor) *)
  d_made : list Z; d_delivered : list Z; d_lost : list Z;
  d_accepts : Z;                  (* ghost: how many items this device has taken in (C15: one received-part record each) *)
  (* false: declared by the scenario but not constructed yet (a device created while the simulation is in progress) *)
  d_live : bool }.

#[export] Instance etaDev : Settable _ := settable! mkDev
  <d_kind; d_up; d_down; d_block; d_value; d_vhist; d_wait_since; d_cycle; d_offset; d_part; d_out; d_waiting_ds; d_on_receive;
   d_shut; d_req; d_reserved; d_waiting_res; d_on_finish; d_on_shutdown; d_on_restore; d_uptime; d_last_restore; d_inuse; d_last_use; d_wo_dur; d_wo_cap; d_wo_cost;
   d_buf; d_level; d_capacity; d_min_delay;
   d_budget; d_produced; d_cost_produced; d_gen_value; d_gen_quality; d_gen_count; d_gen_batch; d_gen_pattern;
   d_collect; d_collected; d_received; d_value_received; d_batch_size; d_inprog; d_decider; d_group; d_made; d_delivered; d_lost; d_accepts; d_live>.

Definition blank_dev (k : kind) : dev :=
  mkDev k [] [] false 0 [] None 0 0 None None false []
        false None None false [] [] [] 0 (Some 0) 0 None 0 0 0
        [] 0 None 0
        None 0 0 0 8 0 0 []
        false [] 0 0 None None DAlways 0 [] [] [] 0 true.

Record group := mkGroup { g_in : Z; g_out : Z; g_paths : list Z }.

(** actions the floor puts on the event queue *)
Inductive fact :=
| AFinishCycle (d : Z) | APassPart (d : Z) | AFail (d : Z) | AReleaseIfIdle (d : Z)
| AResCheck
| AMaintAct (m : Z) (a : mact)
| AUser (k : nat).

Inductive fcmd := FSched (t prio asset : Z) (a : fact) | FData (label sub : Z) (payload : list Z)
                | FPause (asset : Z) | FUnpause (asset : Z) | FCancel (asset : Z).

Definition L_RECEIVED := 6.
Definition L_PRODUCED := 7.
Definition L_FAILURE := 8.
Definition L_LEVEL := 9.
Definition L_SUPPLIED := 10.

Record fw := mkFw {
  f_devs : list (Z * dev);
  f_groups : list (Z * group);
  f_rm : rs;                        (* the resource manager (its r_out is not used: calls go to f_out) *)
  f_maints : list (Z * mst);
  f_next_id : Z;                    (* Asset._id_counter *)
  f_cblog : list (list Z);          (* user callback log, newest first *)
  f_out : list fcmd;                (* environment calls, newest first *)
  f_err : Z }.                      (* 0, or the code of the Python exception that aborted the action *)

#[export] Instance etaFw : Settable _ := settable! mkFw <f_devs; f_groups; f_rm; f_maints; f_next_id; f_cblog; f_out; f_err>.

Definition E_RUNTIME := 5.     (* RuntimeError *)
Definition E_ASSERT := 6.      (* AssertionError *)
Definition E_FUELX := 9.

Definition getd (w : fw) (d : Z) : dev := match aget d (f_devs w) with Some x => x | None => blank_dev KPfc end.
Definition setd (w : fw) (d : Z) (x : dev) : fw := w <| f_devs ::= arepl d x |>.
Definition updd (w : fw) (d : Z) (f : dev -> dev) : fw := setd w d (f (getd w d)).
Definition emitf (w : fw) (c : fcmd) : fw := w <| f_out ::= cons c |>.
Definition failf (w : fw) (e : Z) : fw := if f_err w =? 0 then w <| f_err := e |> else w.
Definition okf (w : fw) : bool := f_err w =? 0.
