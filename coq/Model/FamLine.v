(** Family F_line: the recurrence evaluated on the stations of an (encoded) F_floor serial-line scenario. *)
From Coq Require Import ZArith List Bool Lia.
From RecordUpdate Require Import RecordUpdate.
From SimVerif Require Import Model.Base Model.FloorTypes Model.FamFloor Model.Line.
Import ListNotations.
Open Scope Z_scope.

Definition station_of (x : dev) : station :=
  match d_kind x with
  | KBuffer => mkStation (d_min_delay x) (match d_capacity x with Some c => Some (Z.to_nat c) | None => None end)
  | _ => mkStation (d_cycle x) (Some 1%nat)
  end.

Definition run_fam_line (input : list Z) : list Z :=
  let sc := decode_fl_scn input in
  let devs := map snd (f_devs (fq_world sc)) in
  let sts := map station_of devs in
  let n := match devs with
           | x :: _ => match d_budget x with Some b => Nat.min 60 (Z.to_nat b) | None => 60%nat end
           | [] => O
           end in
  [Z.of_nat (length sts); Z.of_nat n] ++ concat (rev (table sts n)).
