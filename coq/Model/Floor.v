(** L4: the factory floor — part_flow_controller.py, part_handler.py, part_processor.py,
    buffer.py, source.py, sink.py, decision_gate.py, part_batcher.py, group.py — together
    with the resource manager and maintainers they talk to.  One function per Python
    method, same order of effects.  Recursion over the device graph takes fuel
    (exhaustion = the RecursionError of a cyclic pass-through graph, flagged in [f_err]). *)
From Coq Require Import ZArith List Bool Lia.
From RecordUpdate Require Import RecordUpdate.
From SimVerif Require Import Model.Base Model.Env Model.RM Model.Maint Model.FloorTypes.
Import ListNotations.
Open Scope Z_scope.

Definition operational (x : dev) : bool :=
  match d_kind x with KProcessor => negb (d_shut x) | _ => true end.

(** * waiting_for_part_start_time and the downstream priority order *)
Definition min_opt (a b : option Z) : option Z :=
  match a, b with None, x => x | x, None => x | Some x, Some y => Some (Z.min x y) end.

Fixpoint wait_time (fuel : nat) (w : fw) (visiting : list Z) (d : Z) : option Z :=
  match fuel with
  | O => None
  | S f =>
    let x := getd w d in
    if is_holder (d_kind x) then d_wait_since x
    else if existsb (Z.eqb d) visiting then None        (* _recursion_prevention *)
    else fold_left (fun acc d' => min_opt acc (wait_time f w (d :: visiting) d')) (d_down x) None
  end.

Definition key_le (a b : option Z) : bool :=
  match a, b with
  | _, None => true
  | None, Some _ => false
  | Some x, Some y => x <=? y
  end.

Fixpoint ins_sorted (k : option Z) (d : Z) (l : list (option Z * Z)) : list (option Z * Z) :=
  match l with
  | [] => [(k, d)]
  | (k', d') :: l' => if key_le k' k then (k', d') :: ins_sorted k d l' else (k, d) :: l
  end.

(** get_sorted_downstream_list: stable sort by idle-since time, never-idle last *)
Definition sorted_down (fuel : nat) (w : fw) (d : Z) : list Z :=
  map snd (fold_left (fun acc d' => ins_sorted (wait_time fuel w [] d') d' acc) (d_down (getd w d)) []).

(** * small helpers *)
Definition dev_set_wait (nw : Z) (is_waiting reset : bool) (x : dev) : dev :=
  if negb is_waiting then x <| d_wait_since := None |>
  else match d_wait_since x with
       | Some _ => if reset then x <| d_wait_since := Some nw |> else x
       | None => x <| d_wait_since := Some nw |>
       end.

Definition data (w : fw) (label sub : Z) (payload : list Z) : fw := emitf w (FData label sub payload).

(** Asset.add_value on a device *)
Definition dev_add_value (nw : Z) (label v : Z) (x : dev) : dev :=
  if v =? 0 then x else x <| d_value ::= Z.add v |> <| d_vhist ::= fun h => h ++ [(label, nw, v, d_value x + v)] |>.

(** * device transformers: every change of a device record made by the functions below is one of these *)
Definition t_waiting_ds (b : bool) (x : dev) : dev := x <| d_waiting_ds := b |>.
Definition t_map_slot (slot : bool) (f : item -> item) (x : dev) : dev :=
  if slot then x <| d_part ::= option_map f |> else x <| d_out ::= option_map f |>.
Definition t_set_cycle (z : Z) (x : dev) : dev := x <| d_cycle := z |>.
Definition t_add_offset (z : Z) (x : dev) : dev := x <| d_offset ::= Z.add z |>.
Definition t_reset_offset (x : dev) : dev := x <| d_offset := 0 |>.
Definition t_generated (it : item) (x : dev) : dev := x <| d_gen_count ::= Z.add 1 |> <| d_out := Some it |> <| d_made ::= fun l => l ++ item_leaves it |>.
Definition t_finish (it : item) (x : dev) : dev := x <| d_out := Some it |> <| d_part := None |>.
Definition t_stop_use (nw : Z) (x : dev) : dev :=
  x <| d_inuse ::= Z.add (nw - match d_last_use x with Some t => t | None => nw end) |> <| d_last_use := None |>.
(** PartProcessor._finish_cycle: the device fields it changes (part -> output, utilisation clock stopped) *)
Definition t_finish_proc (nw : Z) (it : item) (x : dev) : dev := t_stop_use nw (t_finish it x).
(** PartProcessor._fail: the part in process is dropped; the utilisation clock stops at this instant
    (in the code _shutdown does that a few lines later, at the same time) *)
Definition t_fail_clear (nw : Z) (x : dev) : dev := t_stop_use nw (x <| d_part := None |> <| d_lost ::= fun l => l ++ opt_leaves (d_part x) |>).
Definition t_clear_out (x : dev) : dev := x <| d_out := None |>.
Definition t_clear_part (x : dev) : dev := x <| d_part := None |>.
Definition t_batch_single (rest : option item) (p : part) (x : dev) : dev := x <| d_part := rest |> <| d_out := Some (ISingle p) |>.
Definition t_batch_full (rest : option item) (b : part) (ps : list part) (x : dev) : dev :=
  x <| d_part := rest |> <| d_out := Some (IBatch b ps) |> <| d_inprog := None |>.
Definition t_batch_more (rest : option item) (b : part) (ps : list part) (x : dev) : dev :=
  x <| d_part := rest |> <| d_inprog := Some (IBatch b ps) |>.
Definition t_reserved (o : option nat) (x : dev) : dev := x <| d_reserved := o |>.
Definition t_waiting_res (b : bool) (x : dev) : dev := x <| d_waiting_res := b |>.
Definition t_accept (nw : Z) (it : item) (x : dev) : dev := dev_set_wait nw false false (x <| d_part := Some it |> <| d_accepts ::= Z.add 1 |>).
(** a PartProcessor starts the utilisation clock when it takes a part (_try_move_part_to_output, reached
    from _accept_part whenever the part was accepted: operational, output slot empty) *)
Definition t_accept_proc (nw : Z) (it : item) (x : dev) : dev := (t_accept nw it x) <| d_last_use := Some nw |>.
Definition t_accept_buffer (nw : Z) (it : item) (x : dev) : dev := (t_accept nw it x) <| d_level ::= Z.add (item_count it) |>.
Definition t_accept_sink (nw : Z) (it : item) (x : dev) : dev :=
  let y := t_accept nw it x in
  dev_add_value nw 1 (item_value it) (y <| d_received ::= Z.add (item_count it) |> <| d_value_received ::= Z.add (item_value it) |>)
    <| d_collected ::= fun l => if d_collect x then l ++ [it] else l |>
    <| d_delivered ::= fun l => l ++ item_leaves it |>.
Definition t_buf_store (nw : Z) (it : item) (x : dev) : dev := x <| d_buf ::= fun b => b ++ [(nw, it)] |> <| d_part := None |>.
(** `self._level -= part_count; self._buffer.pop(0)` after a successful hand-over of the head.  The head
    cannot change while it is being offered (hand-overs only append at the back), so it is re-read here,
    together with the delay test that let it be offered. *)
Definition t_buf_pop (nw : Z) (x : dev) : dev :=
  match d_buf x with
  | (t0, it) :: rest =>
    if 0 <? d_min_delay x - (nw - t0) then x
    else x <| d_level ::= fun l => l - item_count it |> <| d_buf := rest |>
  | [] => x
  end.
Definition t_supplied (nw v : Z) (x : dev) : dev :=
  dev_add_value nw 2 (- v) (x <| d_produced ::= Z.add 1 |>) <| d_cost_produced ::= Z.add v |>.
Definition t_shutdown (nw : Z) (x : dev) : dev :=
  dev_set_wait nw false false
    (x <| d_shut := true |>
       <| d_uptime ::= Z.add (nw - match d_last_restore x with Some t => t | None => nw end) |>
       <| d_last_restore := None |>
       <| d_inuse ::= Z.add (match d_last_use x with Some t => nw - t | None => 0 end) |>
       <| d_last_use := None |>).
(** restore_functionality's own fields: operational again, uptime clock restarted, and the utilisation
    clock restarted when a part is in process (set at the end of the method in the code; nothing in between reads it) *)
Definition t_restore (nw : Z) (x : dev) : dev :=
  x <| d_shut := false |> <| d_last_restore := Some nw |>
    <| d_last_use := match d_part x with Some _ => Some nw | None => d_last_use x end |>.
Definition t_block (b : bool) (x : dev) : dev := x <| d_block := b |>.
(** run-time rewiring (PartFlowController.set_upstream): leaving / joining a downstream list, replacing the upstream list *)
Definition t_down_del (z : Z) (x : dev) : dev := x <| d_down ::= filter (fun y => negb (y =? z)) |>.
Definition t_down_add (z : Z) (x : dev) : dev := x <| d_down ::= fun l => l ++ [z] |>.
Definition t_up (l : list Z) (x : dev) : dev := x <| d_up := l |>.
Definition t_budget (z : Z) (x : dev) : dev := x <| d_budget := Some z |>.

(** _schedule_pass_part_downstream (a no-op for Sink) *)
Definition sched_pass (nw offset : Z) (w : fw) (d : Z) : fw :=
  match d_kind (getd w d) with
  | KSink => w
  | _ => emitf (updd w d (t_waiting_ds false)) (FSched (Z.max 0 (nw + offset)) P_PASS_PART d (APassPart d))
  end.

(** apply [f] to the part object with identity [pid], wherever it currently is (Python mutates the
    shared object; by conservation it is in exactly one place) *)
Definition upd_part_in_item (pid : Z) (f : part -> part) (it : item) : item :=
  match it with
  | ISingle p => ISingle (if p_id p =? pid then f p else p)
  | IBatch b ps => IBatch (if p_id b =? pid then f b else b) (map (fun p => if p_id p =? pid then f p else p) ps)
  end.

Definition upd_part_in_dev (pid : Z) (f : part -> part) (x : dev) : dev :=
  x <| d_part ::= option_map (upd_part_in_item pid f) |>
    <| d_out ::= option_map (upd_part_in_item pid f) |>
    <| d_inprog ::= option_map (upd_part_in_item pid f) |>
    <| d_buf ::= map (fun e => (fst e, upd_part_in_item pid f (snd e))) |>
    <| d_collected ::= map (upd_part_in_item pid f) |>.

Definition upd_part_everywhere (pid : Z) (f : part -> part) (w : fw) : fw :=
  w <| f_devs ::= map (fun e => (fst e, upd_part_in_dev pid f (snd e))) |>.

(** PartHandler.notify_upstream_of_available_space: the waiting-for-part time starts only if a part could actually be taken *)
Definition wait_if_empty (nw : Z) (w : fw) (d : Z) : fw :=
  match d_part (getd w d), d_out (getd w d) with
  | None, None => updd w d (dev_set_wait nw true false)
  | _, _ => w
  end.

(** * notifications travelling upstream *)
(** [up_mode = true]  : d.notify_upstream_of_available_space()
    [up_mode = false] : d.space_available_downstream() *)
Fixpoint signal (fuel : nat) (nw : Z) (up_mode : bool) (w : fw) (d : Z) : fw :=
  match fuel with
  | O => failf w E_FUELX
  | S f =>
    let x := getd w d in
    let notify_ups (w0 : fw) := fold_left (fun w1 u => signal f nw false w1 u) (d_up (getd w0 d)) w0 in
    if up_mode then
      match d_kind x with
      | KHandler | KProcessor | KSource | KSink | KBatcher =>
        notify_ups (wait_if_empty nw w d)
      | KBuffer =>
        if inf_ltb (d_level x) (d_capacity x) then notify_ups (wait_if_empty nw w d) else w
      | KGroupIn =>
        match aget (d_group x) (f_groups w) with
        | Some g => fold_left (fun w1 gp => signal f nw true w1 gp) (g_paths g) w
        | None => w
        end
      | KPfc | KGate | KGroupPath | KGroupOut => notify_ups w
      end
    else
      match d_kind x with
      | KPfc | KGate => signal f nw true w d
      | KHandler | KProcessor | KBuffer | KSource | KSink | KBatcher =>
        if operational x && d_waiting_ds x then sched_pass nw 0 w d else w
      | KGroupIn => signal f nw true w d
      | KGroupOut => signal f nw true w d
      | KGroupPath =>
        match aget (d_group x) (f_groups w) with
        | Some g => signal f nw false w (g_out g)
        | None => w
        end
      end
  end.

(** * resource manager and maintainer calls made from the floor *)
Definition conv_rcmd (c : rcmd) : fcmd :=
  match c with
  | RSched t p a ACheck => FSched t p a AResCheck
  | RSched t p a (ADeferred k) => FSched t p a (AUser k)
  | RData l s d => FData l s d
  end.

Definition rm_call (w : fw) (f : rs -> rs) : fw :=
  let r0 := f_rm w in
  let r1 := f (mkRs (r_pools r0) (r_wait r0) (r_res r0) (r_slots r0) (r_cblog r0) [] 0 (r_env r0) (r_nreg r0)) in
  let w1 := w <| f_rm := mkRs (r_pools r1) (r_wait r1) (r_res r1) (r_slots r1) (r_cblog r1) [] 0 (r_env r1) (r_nreg r1) |>
              <| f_out ::= app (map conv_rcmd (r_out r1)) |> in
  if r_err r1 =? 0 then w1 else failf w1 (r_err r1).

Definition conv_mcmd (mid : Z) (c : mcmd) : fcmd :=
  match c with
  | MSched t p a => FSched t p mid (AMaintAct mid a)
  | MData l d => FData l mid d
  end.

Definition getm (w : fw) (mid : Z) : mst := match aget mid (f_maints w) with Some m => m | None => init_mst None 0 end.

Definition maint_call (w : fw) (mid : Z) (f : mst -> mst) : fw :=
  let m0 := getm w mid in
  let m1 := f (mkM (m_capacity m0) (m_util m0) (m_queue m0) (m_active m0) (m_next m0) (m_value m0) (m_vhist m0) []) in
  w <| f_maints ::= aset mid (mkM (m_capacity m1) (m_util m1) (m_queue m1) (m_active m1) (m_next m1) (m_value m1) (m_vhist m1) []) |>
    <| f_out ::= app (map (conv_mcmd mid) (m_out m1)) |>.

(** maintainer.create_work_order(target device, tag) *)
Definition create_wo (nw : Z) (mid t g : Z) (w : fw) : fw :=
  maint_call w mid (fun m => fst (m_create nw t g (d_wo_cap (getd w t)) (-1) m)).

(** * user callbacks *)
Definition E_NOTIMPL := 7.

(** Part.add_value on a single part (Batch.add_value raises NotImplementedError, see [run_cbop]) *)
Definition item_add_value (v : Z) (it : item) : item :=
  match it with
  | ISingle p => ISingle (if v =? 0 then p else p <| p_value ::= Z.add v |>)
  | IBatch b ps => IBatch b ps
  end.
Definition is_batch (it : item) : bool := match it with IBatch _ _ => true | ISingle _ => false end.

Definition part_set_quality (q : Z) (it : item) : item :=
  match it with
  | ISingle p => ISingle (p <| p_quality := q |>)
  | IBatch b ps => IBatch (b <| p_quality := q |>) ps
  end.

(** [slot]: true = the callback's part argument is the device's _part, false = its _output *)
Definition run_cbop (nw : Z) (d : Z) (slot : bool) (is_failure : bool) (lost : Z) (w : fw) (o : cbop) : fw :=
  if negb (okf w) then w else
  let cur := if slot then d_part (getd w d) else d_out (getd w d) in
  match o with
  | CbSetCycle z => updd w d (t_set_cycle z)
  | CbOffsetNext z => updd w d (t_add_offset z)
  | CbPartAddValue v =>
    match cur with
    | Some it => if is_batch it then failf w E_NOTIMPL else updd w d (t_map_slot slot (item_add_value v))
    | None => w
    end
  | CbPartSetQuality q => updd w d (t_map_slot slot (part_set_quality q))
  | CbCreateWO m t g => create_wo nw m t g w
  | CbCreateWOIfFailure m g => if is_failure then create_wo nw m d g w else w
  | CbLog k =>
    w <| f_cblog ::= cons [k; d; nw; match cur with Some it => item_id it | None => -1 end; bZ is_failure; lost] |>
  end.

Definition run_cbops (nw : Z) (d : Z) (slot : bool) (is_failure : bool) (lost : Z) (ops : list cbop) (w : fw) : fw :=
  fold_left (run_cbop nw d slot is_failure lost) ops w.

(** * finishing a cycle *)
Definition new_part (id : Z) (x : dev) : part := mkPart id (d_gen_value x) (d_gen_quality x) [] [].

(** PartGenerator.generate_part (+ initialize + add_routing_history(source)) *)
(** the size of the next item a source generates: 0 a single part, n > 0 a batch of n parts, n < 0 an empty batch; a source
    with a pattern goes through it cyclically (by the number of items generated so far) *)
Definition gen_size (x : dev) : Z :=
  match d_gen_pattern x with
  | [] => d_gen_batch x
  | l => nth (Z.to_nat (d_gen_count x) mod length l) l 0
  end.

Definition generate (w : fw) (d : Z) : fw * item :=
  let x := getd w d in
  let n := gen_size x in
  if n =? 0 then
    let id := f_next_id w + 1 in
    (w <| f_next_id := id |>, item_add_hist d (ISingle (new_part id x)))
  else
    let k := Z.max n 0 in
    let ids := map (fun i => f_next_id w + 1 + Z.of_nat i) (seq 0 (Z.to_nat k)) in
    let bid := f_next_id w + k + 1 in
    (w <| f_next_id := bid |>, item_add_hist d (IBatch (mkPart bid 0 0 [] []) (map (fun id => new_part id x) ids))).

Definition rec_part (w : fw) (label d : Z) (nw : Z) (it : item) : fw :=
  data w label d [nw; item_id it; item_quality it; item_value it].

(** PartHandler._finish_cycle and its overrides *)
Definition finish_cycle (fuel : nat) (nw : Z) (w : fw) (d : Z) : fw :=
  let x := getd w d in
  match d_kind x with
  | KSource =>
    let w1 := match d_out x with
              | Some _ => w
              | None => let '(w', it) := generate w d in
                        updd w' d (t_generated it)
              end in
    sched_pass nw 0 w1 d
  | KHandler | KProcessor | KSink =>
    if negb (operational x) then failf w E_ASSERT
    else match d_part x, d_out x with
         | None, _ => failf w E_ASSERT
         | Some _, Some _ => failf w E_ASSERT
         | Some it, None =>
           let w1 := sched_pass nw 0 (updd w d (match d_kind x with KProcessor => t_finish_proc nw it | _ => t_finish it end)) d in
           match d_kind x with
           | KProcessor =>
             let y := getd w1 d in
             let w3 := match d_reserved y with
                       | Some _ => emitf w1 (FSched nw P_RELEASE d (AReleaseIfIdle d))
                       | None => w1
                       end in
             let w4 := run_cbops nw d false false (-1) (d_on_finish y) w3 in
             match d_out (getd w4 d) with
             | Some it' => rec_part w4 L_PRODUCED d nw it'
             | None => w4
             end
           | KSink =>
             signal fuel nw true (updd w1 d t_clear_out) d
           | _ => w1
           end
         end
  | _ => failf w E_ASSERT      (* never scheduled for the other kinds *)
  end.

(** _schedule_finish_cycle *)
Definition sched_finish (fuel : nat) (nw : Z) (w : fw) (d : Z) : fw :=
  let x := getd w d in
  let next := Z.max 0 (d_cycle x + d_offset x) in
  let w1 := updd w d t_reset_offset in
  if next <=? 0 then finish_cycle fuel nw w1 d
  else emitf w1 (FSched (nw + next) P_FINISH_PROCESSING d (AFinishCycle d)).

(** * PartBatcher._try_move_part_to_output *)
Fixpoint batcher_fill (n : nat) (w : fw) (d : Z) : fw :=
  match n with
  | O => w
  | S n' =>
    let x := getd w d in
    match d_out x, d_part x with
    | None, Some it =>
      (* _get_part_from_input *)
      let '(p, rest) := match it with
                        | ISingle p => (Some p, None)
                        | IBatch b (p :: ps) => (Some p, match ps with [] => None | _ => Some (IBatch b ps) end)
                        | IBatch b [] => (None, None)
                        end in
      match p with
      | None => w
      | Some p =>
        (* _add_part_to_output *)
        let w2 := match d_batch_size x with
                  | None => updd w d (t_batch_single rest p)
                  | Some size =>
                    match d_inprog x with
                    | Some (ISingle _) => w     (* not a state of the Python object: _in_progress_batch is None or a Batch *)
                    | inp =>
                      let '(w1', b, ps) := match inp with
                                           | Some (IBatch b ps) => (w, b, ps)
                                           | _ => let id := f_next_id w + 1 in (w <| f_next_id := id |>, mkPart id 0 0 [] [], [])
                                           end in
                      let ps' := ps ++ [p] in
                      if size <=? Z.of_nat (length ps') then updd w1' d (t_batch_full rest b ps')
                      else updd w1' d (t_batch_more rest b ps')
                    end
                  end in
        batcher_fill n' w2 d
      end
    | _, _ => w
    end
  end.

Definition batcher_try_move (nw : Z) (w : fw) (d : Z) : fw :=
  let x := getd w d in
  match d_part x, d_out x with
  | Some it, None =>
    if negb (operational x) then w
    else match it with
         | IBatch _ [] => updd w d t_clear_part
         | _ =>
           let w1 := batcher_fill (S (Z.to_nat (item_count it))) w d in
           match d_out (getd w1 d) with Some _ => sched_pass nw 0 w1 d | None => w1 end
         end
  | _, _ => w
  end.

(** * accepting a part *)
Definition handler_can_accept (x : dev) : bool :=
  operational x && negb (d_block x) && (match d_part x with None => true | Some _ => false end)
  && (match d_out x with None => true | Some _ => false end).

(** PartProcessor._can_accept_part: reserves the resources as a side effect *)
Definition proc_can_accept (nw : Z) (w : fw) (d : Z) : fw * bool :=
  let x := getd w d in
  if negb (handler_can_accept x) then (w, false)
  else match d_req x, d_reserved x with
       | Some rq, None =>
         let rs0 := f_rm w in
         let res := reserve nw rq (mkRs (r_pools rs0) (r_wait rs0) (r_res rs0) (r_slots rs0) (r_cblog rs0) [] 0 (r_env rs0) (r_nreg rs0)) in
         let w1 := rm_call w (fun _ => fst res) in
         match snd res with
         | Some i => (updd w1 d (t_reserved (Some i)), okf w1)
         | None =>
           if negb (okf w1) then (w1, false)
           else if d_waiting_res x then (w1, false)
           else (updd (rm_call w1 (register nw (Z.to_nat d) rq)) d (t_waiting_res true), false)
         end
       | _, _ => (w, true)
       end.

(** _accept_part + _on_received_new_part, in two pieces: taking the part in ([accept_first]: the slot, and for a buffer the
    level with its record, for a sink the counters, value and collected list) and everything that follows ([accept_rest]) *)
Definition accept_first (nw : Z) (k : kind) (w : fw) (d : Z) (it1 : item) : fw :=
  match k with
  | KBuffer =>
    let w' := updd w d (t_accept_buffer nw it1) in
    data w' L_LEVEL d [nw; d_level (getd w' d)]
  | KSink => updd w d (t_accept_sink nw it1)
  | KProcessor => updd w d (t_accept_proc nw it1)
  | _ => updd w d (t_accept nw it1)
  end.

Definition accept_rest (fuel : nat) (nw : Z) (k : kind) (w2 : fw) (d : Z) (it1 : item) : fw :=
  let w3 := rec_part w2 L_RECEIVED d nw it1 in
  let w4 := run_cbops nw d true false (-1) (d_on_receive (getd w3 d)) w3 in
  if negb (okf w4) then w4 else
  let x := getd w4 d in
  match d_out x with
  | Some _ => w4
  | None =>
    (* _try_move_part_to_output *)
    match k with
    | KBuffer =>
      match d_part x with
      | Some itb =>
        let w5 := updd w4 d (t_buf_store nw itb) in
        let w6 := signal fuel nw true w5 d in
        if (length (d_buf (getd w6 d)) =? 1)%nat then sched_pass nw (d_min_delay x) w6 d else w6
      | None => w4
      end
    | KBatcher => batcher_try_move nw w4 d
    | _ =>
      if operational x && (match d_part x with Some _ => true | None => false end)
      then sched_finish fuel nw w4 d else w4
    end
  end.

Definition accept (fuel : nat) (nw : Z) (w : fw) (d : Z) (it : item) : fw :=
  let it1 := item_add_hist d it in
  let k := d_kind (getd w d) in
  accept_rest fuel nw k (accept_first nw k w d it1) d it1.

(** * give_part *)
Fixpoint give (fuel : nat) (nw : Z) (w : fw) (d : Z) (it : item) : fw * bool :=
  match fuel with
  | O => (failf w E_FUELX, false)
  | S f =>
    if negb (okf w) then (w, false) else
    let x := getd w d in
    let try_list (w0 : fw) (it0 : item) (l : list Z) : fw * bool :=
      fold_left (fun (acc : fw * bool) d' => if snd acc then acc else give f nw (fst acc) d' it0) l (w0, false) in
    match d_kind x with
    | KPfc | KGate =>
      if (match d_kind x with KGate => negb (decide (d_decider x) it) | _ => false end) then (w, false)
      else if negb (operational x && negb (d_block x)) then (w, false)
      else try_list w (item_add_hist d it) (sorted_down fuel w d)
    | KGroupIn =>
      if negb (operational x && negb (d_block x)) then (w, false)
      else try_list w it (sorted_down fuel w d)
    | KGroupPath =>
      if d_block x then (w, false)
      else match aget (d_group x) (f_groups w) with
           | Some g => give f nw w (g_in g) (item_add_hist d (item_push_gpath d it))
           | None => (w, false)
           end
    | KGroupOut =>
      match rev (item_gpath it) with
      | [] => (failf w E_RUNTIME, false)
      | gp :: _ =>
        (* the part has left this group before it is offered on (an enclosing group's output reached in the same call must
           see the enclosing path); on refusal the caller's part object is unchanged *)
        try_list w (item_pop_gpath it) (sorted_down fuel w gp)
      end
    | KHandler | KSource | KSink | KBatcher =>
      if handler_can_accept x then (accept f nw w d it, true) else (w, false)
    | KBuffer =>
      if inf_leb (d_level x + item_count it) (d_capacity x) && handler_can_accept x then (accept f nw w d it, true) else (w, false)
    | KProcessor =>
      let '(w1, ok) := proc_can_accept nw w d in
      if ok then (accept f nw w1 d it, true) else (w1, false)
    end
  end.

(** * passing parts downstream (the PASS_PART event) *)
Definition try_downstream (fuel : nat) (nw : Z) (w : fw) (d : Z) (it : item) : fw * bool :=
  fold_left (fun (acc : fw * bool) d' => if snd acc then acc else give fuel nw (fst acc) d' it)
            (sorted_down fuel w d) (w, false).

(** PartHandler._pass_part_downstream; returns whether the output left *)
Definition handler_pass (fuel : nat) (nw : Z) (w : fw) (d : Z) : fw * bool :=
  let x := getd w d in
  match d_out x with
  | None => (w, false)
  | Some it =>
    if negb (operational x) then (w, false)
    else
      let '(w1, ok) := try_downstream fuel nw w d it in
      if ok then (signal fuel nw true (updd w1 d t_clear_out) d, true)
      else (updd w1 d (t_waiting_ds true), false)
  end.

Fixpoint buffer_loop (n : nat) (fuel : nat) (nw : Z) (w : fw) (d : Z) : fw :=
  match n with
  | O => w
  | S n' =>
    let x := getd w d in
    match d_buf x with
    | [] => w
    | (t0, it) :: rest =>
      if 0 <? d_min_delay x - (nw - t0) then w
      else
        let '(w1, ok) := try_downstream fuel nw w d it in
        if ok then
          let w2 := updd w1 d (t_buf_pop nw) in
          buffer_loop n' fuel nw (data w2 L_LEVEL d [nw; d_level (getd w2 d)]) d
        else w1
    end
  end.

Definition pass_part (fuel : nat) (nw : Z) (w : fw) (d : Z) : fw :=
  let x := getd w d in
  match d_kind x with
  | KBuffer =>
    let w1 := buffer_loop (S (length (d_buf x))) fuel nw w d in
    let y := getd w1 d in
    let w2 := match d_buf y with
              | [] => w1
              | (t0, _) :: _ =>
                let remaining := d_min_delay y - (nw - t0) in
                if 0 <? remaining then sched_pass nw remaining w1 d
                else updd w1 d (t_waiting_ds true)
              end in
    signal fuel nw true w2 d
  | KSource =>
    let remaining_ok := match d_budget x with None => true | Some b => 1 <=? Z.max (b - d_produced x) 0 end in
    match d_out x with
    | Some it =>
      if negb remaining_ok then w
      else
        let v := item_value it in
        let id := item_id it in
        let '(w1, ok) := handler_pass fuel nw w d in
        if ok then
          let w2 := updd w1 d (t_supplied nw v) in
          sched_finish fuel nw (data w2 L_SUPPLIED d [nw; id]) d
        else w1
    | None => w
    end
  | KBatcher =>
    let '(w1, ok) := handler_pass fuel nw w d in
    match d_out (getd w1 d) with None => batcher_try_move nw w1 d | Some _ => w1 end
  | _ => fst (handler_pass fuel nw w d)
  end.

(** * PartProcessor: resources, shutdown, failure, restore *)
Definition release_reserved (nw : Z) (w : fw) (d : Z) : fw :=
  match d_reserved (getd w d) with
  | Some i => updd (rm_call w (release_obj nw i None)) d (t_reserved None)
  | None => w
  end.

Definition release_if_idle (nw : Z) (w : fw) (d : Z) : fw :=
  let x := getd w d in
  if negb (operational x) || (match d_part x with None => true | Some _ => false end) then release_reserved nw w d else w.

Definition is_processor (x : dev) : bool := match d_kind x with KProcessor => true | _ => false end.

Definition shutdown (nw : Z) (is_failure : bool) (lost : Z) (w : fw) (d : Z) : fw :=
  let x := getd w d in
  if negb (is_processor x) then w else
  if d_shut x then
    (* failed while already shut down: cancel the interrupted cycle, report the lost part *)
    if is_failure then run_cbops nw d true is_failure lost (d_on_shutdown x) (emitf w (FCancel d)) else w
  else
    let w2 := emitf (updd w d (t_shutdown nw)) (if is_failure then FCancel d else FPause d) in
    run_cbops nw d true is_failure lost (d_on_shutdown x) w2.

Definition fail (nw : Z) (w : fw) (d : Z) : fw :=
  let x := getd w d in
  if negb (is_processor x) then w else
  let lost := match d_part x with Some it => item_id it | None => -1 end in
  let w1 := updd w d (t_fail_clear nw) in
  let w2 := release_reserved nw w1 d in
  let w3 := data w2 L_FAILURE d [nw; lost] in
  shutdown nw true lost w3 d.

Definition restore (fuel : nat) (nw : Z) (w : fw) (d : Z) : fw :=
  let x := getd w d in
  if negb (is_processor x) then w else
  if negb (d_shut x) then w
  else
    let w1 := emitf (updd w d (t_restore nw)) (FUnpause d) in
    let w2 := match d_out x, d_part x with
              | Some _, _ => sched_pass nw 0 w1 d
              | None, None => signal fuel nw true w1 d
              | None, Some _ => w1
              end in
    run_cbops nw d true false (-1) (d_on_restore x) w2.

(** ResourceManager._check_pending_requests with the processors' _reserve_resource_callback *)
Fixpoint res_check (n : nat) (fuel : nat) (nw : Z) (i : nat) (w : fw) : fw :=
  match n with
  | O => failf w E_FUELX
  | S n' =>
    match nth_error (r_wait (f_rm w)) i with
    | None => w
    | Some (mkW r cb id) =>
      if can_fulfill (r_pools (f_rm w)) r then
        let d := Z.of_nat cb in
        let w1 := w <| f_rm ::= fun s => set_cblog s (mkCb cb r nw id (r_pools s) :: r_cblog s) |> in
        let w2 := signal fuel nw true (updd w1 d (t_waiting_res false)) d in
        if negb (okf w2) then w2
        else res_check n' fuel nw i (w2 <| f_rm ::= fun s => RM.set_wait s (firstn i (r_wait s) ++ skipn (S i) (r_wait s)) |>)
      else res_check n' fuel nw (S i) w
    end
  end.

(** Maintainer._start_work_order / _finish_work_order on a PartProcessor target *)
(** get_work_order_cost as the scripted processors answer it: a surcharge (their work-order duration) while they are shut down,
    so that the answer depends on WHEN the maintainer asks (it asks before it starts the work) *)
Definition wo_cost_now (x : dev) : Z := if d_shut x then d_wo_cost x + d_wo_dur x else d_wo_cost x.
(** ... and so is the duration: the scripted processors report [d_wo_dur], plus 8 ticks when they are already shut down; what counts is
    the answer at the start of the order, before [start_work] shuts the target down *)
Definition wo_dur_now (x : dev) : Z := if d_shut x then d_wo_dur x + 8 else d_wo_dur x.

Definition maint_start (nw : Z) (mid : Z) (wo : worder) (w : fw) : fw :=
  let t := wo_target wo in
  let x := getd w t in
  let w1 := maint_call w mid (m_start_pre nw wo (wo_cost_now x)) in
  let w2 := shutdown nw false (-1) w1 t in
  maint_call w2 mid (m_start_post nw wo (wo_dur_now x)).

Definition maint_finish (fuel : nat) (nw : Z) (mid : Z) (wo : worder) (w : fw) : fw :=
  let w1 := restore fuel nw w (wo_target wo) in
  maint_call w1 mid (m_finish_post nw wo).

(** * scripted user operations (executed as events or between runs) *)
Inductive uop :=
| UShutdown (d : Z) | URestore (d : Z) | UFailAt (d t : Z)
| UBlock (d : Z) (b : bool)
| UAdjust (d z : Z)
| UOffset (d z : Z)                  (* device.offset_next_cycle_time(z), called from outside *)
| URewire (d : Z) (ups : list Z)     (* device.set_upstream(ups) while the simulation is in progress *)
| UAddRes (n a : Z)
| UCreateWO (m t g : Z).

(** PartFlowController.set_upstream at run time.  The validation loop comes first (an upstream that is the device itself:
    AssertionError, nothing changed).  A PartHandler that is waiting for a part restarts its waiting time.  Then the device leaves
    the downstream lists of all its old upstreams and joins, at the end, those of the new ones; each new upstream is told that
    space may have become available ([space_available_downstream]).  Rewiring a sink or a group output in as an upstream raises
    half-way in the implementation; here it is refused before anything changes (outside the well-posed class). *)
Definition bad_up (d : Z) (w : fw) (u : Z) : bool :=
  (u =? d) || negb (amem u (f_devs w)) ||
  match d_kind (getd w u) with KSink | KGroupOut | KGroupIn => true | _ => false end.

Definition rewire (fuel : nat) (nw : Z) (w : fw) (d : Z) (ups : list Z) : fw :=
  let x := getd w d in
  if existsb (bad_up d w) ups then failf w E_ASSERT else
  let w0 := if is_holder (d_kind x) then
              match d_wait_since x with Some _ => updd w d (dev_set_wait nw true true) | None => w end
            else w in
  let w1 := fold_left (fun w' u => updd w' u (t_down_del d)) (d_up x) w0 in
  let w2 := updd w1 d (t_up ups) in
  fold_left (fun w' u => if existsb (Z.eqb d) (d_down (getd w' u)) then w'
                         else signal fuel nw false (updd w' u (t_down_add d)) u) ups w2.

Definition run_uop (fuel : nat) (nw : Z) (w : fw) (o : uop) : fw :=
  if negb (okf w) then w else
  match o with
  | UShutdown d => shutdown nw false (-1) w d
  | URestore d => restore fuel nw w d
  | UFailAt d t => emitf w (FSched t P_FAIL d (AFail d))
  | UBlock d b =>
    let x := getd w d in
    if Bool.eqb (d_block x) b then w
    else let w1 := updd w d (t_block b) in
         if b then w1 else signal fuel nw true w1 d
  | UAdjust d z =>
    let x := getd w d in
    match d_budget x with
    | None => w                                     (* infinite budget: was_empty false, max(inf + z, produced) = inf *)
    | Some b =>
      let was_empty := b - d_produced x <? 1 in
      let w1 := updd w d (t_budget (Z.max (b + z) (d_produced x))) in
      if was_empty then sched_pass nw 0 w1 d else w1
    end
  | UOffset d z => updd w d (t_add_offset z)
  | URewire d ups => rewire fuel nw w d ups
  | UAddRes n a => rm_call w (add_resources nw n a)
  | UCreateWO m t g => create_wo nw m t g w
  end.

(** * the action of an event *)
Definition exec_fact (fuel : nat) (uops : nat -> list uop) (a : fact) (w : fw) (nw : Z) : fw :=
  match a with
  | AFinishCycle d => finish_cycle fuel nw w d
  | APassPart d => pass_part fuel nw w d
  | AFail d => fail nw w d
  | AReleaseIfIdle d => release_if_idle nw w d
  | AResCheck => res_check (S (S (length (r_wait (f_rm w)) + length (f_devs w)))) fuel nw 0 w
  | AMaintAct m (MStart wo) => maint_start nw m wo w
  | AMaintAct m (MFinish wo) => maint_finish fuel nw m wo w
  | AUser k => fold_left (run_uop fuel nw) (uops k) w
  end.
