(** L3: simprocesd/model/factory_floor/action_scheduler.py. *)
From Coq Require Import ZArith List Bool Lia.
From SimVerif Require Import Model.Base Model.Env.
Import ListNotations.
Open Scope Z_scope.

Definition L_SCHEDULE_UPDATE := 5.

Inductive scmd := SSched (t : Z) | SData (payload : list Z).

Record sst := mkS {
  s_schedule : list (Z * Z);            (* (duration, state) *)
  s_cyclic : bool;
  s_index : nat;
  s_state : option Z;                   (* None before the first update *)
  s_reg : list (Z * option Z);          (* registered object -> override action id (insertion-ordered dict) *)
  s_calls : list (Z * option Z * Z * Z);(* action calls (object, override, time, new state), newest first *)
  s_count : nat;                        (* ghost: number of state updates performed *)
  s_out : list scmd }.                  (* newest first *)

Definition init_sst (schedule : list (Z * Z)) (cyclic : bool) : sst := mkS schedule cyclic O None [] [] O [].

Definition s_emit (s : sst) (c : scmd) : sst :=
  mkS (s_schedule s) (s_cyclic s) (s_index s) (s_state s) (s_reg s) (s_calls s) (s_count s) (c :: s_out s).

(** register_object / unregister_object: the returned bool is [snd] *)
Definition s_register (obj : Z) (ov : option Z) (s : sst) : sst * bool :=
  if amem obj (s_reg s) then (s, false)
  else (mkS (s_schedule s) (s_cyclic s) (s_index s) (s_state s) (s_reg s ++ [(obj, ov)]) (s_calls s) (s_count s) (s_out s), true).

Definition s_unregister (obj : Z) (s : sst) : sst * bool :=
  if amem obj (s_reg s) then
    (mkS (s_schedule s) (s_cyclic s) (s_index s) (s_state s) (adel obj (s_reg s)) (s_calls s) (s_count s) (s_out s), true)
  else (s, false).

(** _update_state(advance_schedule) *)
Definition s_update (nw : Z) (advance : bool) (s : sst) : sst :=
  let n := length (s_schedule s) in
  let idx1 := if advance then S (s_index s) else s_index s in
  if advance && negb (s_cyclic s) && (n <=? idx1)%nat then
    mkS (s_schedule s) (s_cyclic s) idx1 (s_state s) (s_reg s) (s_calls s) (s_count s) (s_out s)
  else
    let idx := if advance then Nat.modulo idx1 n else idx1 in
    let '(dur, st) := nth idx (s_schedule s) (0, 0) in
    let calls := rev (map (fun r => (fst r, snd r, nw, st)) (s_reg s)) ++ s_calls s in
    mkS (s_schedule s) (s_cyclic s) idx (Some st) (s_reg s) calls (S (s_count s))
        (SSched (nw + dur) :: SData [nw; st] :: s_out s).
