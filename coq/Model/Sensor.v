(** L3: simprocesd/model/sensors/sensor.py, part_sensor.py and cms/cms.py. *)
From Coq Require Import ZArith List Bool Lia.
From SimVerif Require Import Model.Base Model.Env.
Import ListNotations.
Open Scope Z_scope.

Record sensor := mkSn {
  sn_cap : inf;                    (* data_capacity; None = float('inf') *)
  sn_data : list (list Z);         (* one series per probe, oldest first *)
  sn_time : list Z;                (* PeriodicSensor's data['time'] *)
  sn_last : list Z;                (* last_sense *)
  sn_cbs : list Z;                 (* on-sense callbacks in registration order (ids; 100+k = the on_sense of Cms k) *)
  sn_counter : Z;                  (* OutputPartSensor._counter *)
  sn_count : nat }.                (* ghost: number of measurements taken *)

Definition new_sensor (cap : inf) (nprobes : nat) : sensor := mkSn cap (repeat [] nprobes) [] [] [] 0 O.

(** Sensor.initialize: data and last_sense are reset, the callback list is kept *)
Definition sn_initialize (s : sensor) : sensor :=
  mkSn (sn_cap s) (map (fun _ => []) (sn_data s)) [] [] (sn_cbs s) 0 O.

Definition over_capacity (cap : inf) (n : nat) : bool :=
  match cap with None => false | Some c => c <? Z.of_nat n end.

(** _collect_data: append one value per probe; drop the oldest entry of every series when the first is over capacity *)
Definition sn_collect (vals : list Z) (s : sensor) : sensor :=
  let data1 := map (fun dv => fst dv ++ [snd dv]) (combine (sn_data s) vals) in
  let trim := over_capacity (sn_cap s) (length (hd [] data1)) in
  let data2 := if trim then map (@tl Z) data1 else data1 in
  mkSn (sn_cap s) data2 (sn_time s) vals (sn_cbs s) (sn_counter s) (S (sn_count s)).

(** the list of callback invocations made by sense(): (callback, time, values) in registration order *)
Definition sn_sense_calls (nw : Z) (s : sensor) : list (Z * Z * list Z) :=
  map (fun c => (c, nw, sn_last s)) (sn_cbs s).

Definition sn_add_time (nw : Z) (s : sensor) : sensor :=
  mkSn (sn_cap s) (sn_data s) (sn_time s ++ [nw]) (sn_last s) (sn_cbs s) (sn_counter s) (sn_count s).

Definition sn_add_cb (c : Z) (s : sensor) : sensor :=
  mkSn (sn_cap s) (sn_data s) (sn_time s) (sn_last s) (sn_cbs s ++ [c]) (sn_counter s) (sn_count s).

Definition sn_set_counter (z : Z) (s : sensor) : sensor :=
  mkSn (sn_cap s) (sn_data s) (sn_time s) (sn_last s) (sn_cbs s) z (sn_count s).

(** PeriodicSensor._periodic_sense (without the scheduling of the next one): returns sensor and callback calls *)
Definition sn_trim_time (s : sensor) : sensor :=
  if over_capacity (sn_cap s) (length (sn_time s))
  then mkSn (sn_cap s) (sn_data s) (tl (sn_time s)) (sn_last s) (sn_cbs s) (sn_counter s) (sn_count s)
  else s.

(** the time series is appended to and trimmed first, then sense() collects and notifies: the callbacks run in the final state *)
Definition periodic_sense (nw : Z) (vals : list Z) (s : sensor) : sensor * list (Z * Z * list Z) :=
  let s1 := sn_collect vals (sn_trim_time (sn_add_time nw s)) in (s1, sn_sense_calls nw s1).

(** OutputPartSensor._probe_part: [interval] = sensing interval n *)
Definition probe_part (nw : Z) (interval : Z) (vals : list Z) (s : sensor) : sensor * list (Z * Z * list Z) :=
  let c := sn_counter s - 1 in
  if c <? 0 then
    let s1 := sn_collect vals (sn_set_counter c s) in
    (sn_set_counter interval s1, sn_sense_calls nw s1)
  else (sn_set_counter c s, []).

(** Cms.add_sensor: idempotent *)
Definition cms_add (cms_sensors : list Z) (sid : Z) : list Z * bool :=
  if existsb (Z.eqb sid) cms_sensors then (cms_sensors, false) else (cms_sensors ++ [sid], true).
