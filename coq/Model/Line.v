(** C04: the blocking-after-service recurrence for serial lines, as an executable reference.

      D(j,k) = max (A(j,k) + c_j) (D(j,k-1)) (D(j+1, k - K_{j+1}))      A(j,k) = D(j-1,k),  A(0,k) = D(0,k-1)

    [D(j,k)] = time at which the k-th part leaves station j (= enters station j+1); station 0 is the source, the last one
    the sink.  Rows are computed for k = 1, 2, ... from the rows before ([hist], newest first). *)
From Coq Require Import ZArith List Bool Lia.
Import ListNotations.
Open Scope Z_scope.

Record station := mkStation { st_c : Z; st_K : option nat }.   (* service time; how many parts it holds (None = unbounded) *)

(** D(j, k - d) for d >= 1; 0 before the first part *)
Definition get (hist : list (list Z)) (j d : nat) : Z :=
  match d with
  | O => 0
  | S d' => nth j (nth d' hist []) 0
  end.

Definition block_time (rest : list station) (j : nat) (hist : list (list Z)) : Z :=
  match rest with
  | s' :: _ => match st_K s' with Some K => get hist (S j) K | None => 0 end
  | [] => 0
  end.

Fixpoint row_aux (sts : list station) (j : nat) (A : Z) (hist : list (list Z)) : list Z :=
  match sts with
  | [] => []
  | s :: rest =>
    let d := Z.max (Z.max (A + st_c s) (get hist j 1)) (block_time rest j hist) in
    d :: row_aux rest (S j) d hist
  end.

Definition next_row (sts : list station) (hist : list (list Z)) : list Z := row_aux sts 0 (get hist 0 1) hist.

Fixpoint table (sts : list station) (n : nat) : list (list Z) :=
  match n with
  | O => []
  | S n' => let h := table sts n' in next_row sts h :: h
  end.

(** D(j,k) for 1 <= k <= n *)
Definition D (sts : list station) (n j k : nat) : Z := get (table sts n) j (S n - k).
