(** Family F_sched: ActionScheduler + Environment, registrations before and during the run. *)
From Coq Require Import ZArith List Bool Lia.
From SimVerif Require Import Model.Base Model.Env Model.FamEnv Model.Sched.
Import ListNotations.
Open Scope Z_scope.

Inductive sxop :=
| SXReg (obj : Z) (ov : option Z) | SXUnreg (obj : Z)
| SXDeferReg (t prio obj : Z) (ov : option Z) | SXDeferUnreg (t prio obj : Z)
| SXInit | SXStep | SXRun (d : Z).

Record sc_scn := mkScScn { sq_seed : Z; sq_mod : Z; sq_cyclic : bool; sq_schedule : list (Z * Z); sq_ext : list sxop }.

Definition ovz (z : Z) : option Z := if z <? 0 then None else Some z.

Definition decode_sc_tuple (sc : sc_scn) (tp : tup8) : sc_scn :=
  let '(op, a, b, c, d, _, _, _) := tp in
  let addx x := mkScScn (sq_seed sc) (sq_mod sc) (sq_cyclic sc) (sq_schedule sc) (sq_ext sc ++ [x]) in
  if op =? 0 then mkScScn a b (sq_cyclic sc) (sq_schedule sc) (sq_ext sc)
  else if op =? 50 then mkScScn (sq_seed sc) (sq_mod sc) (negb (a =? 0)) (sq_schedule sc) (sq_ext sc)   (* 2 = argument omitted: default True *)
  else if op =? 51 then mkScScn (sq_seed sc) (sq_mod sc) (sq_cyclic sc) (sq_schedule sc ++ [(a, b)]) (sq_ext sc)
  else if op =? 52 then addx (SXReg a (ovz b))
  else if op =? 53 then addx (SXUnreg a)
  else if op =? 54 then addx (SXDeferReg a b c (ovz d))
  else if op =? 55 then addx (SXDeferUnreg a b c)
  else if op =? 16 then addx SXInit
  else if op =? 14 then addx SXStep
  else if op =? 15 then addx (SXRun a)
  else sc.

Definition decode_sc_scn (l : list Z) : sc_scn :=
  fold_left decode_sc_tuple (chunk8 l) (mkScScn 0 1 true [] []).

Record sw := mkSW { w_s : sst; w_res : list (Z * Z * Z) }.   (* results: (0 reg / 1 unreg, obj, returned bool), newest first *)

Inductive sfact := AUpdate | ADeferReg (obj : Z) (ov : option Z) | ADeferUnreg (obj : Z).

Definition sched_asset : Z := 1.

Definition flush_s (w : sw) : sw * list (cmd sfact) :=
  let s := w_s w in
  (mkSW (mkS (s_schedule s) (s_cyclic s) (s_index s) (s_state s) (s_reg s) (s_calls s) (s_count s) []) (w_res w),
   map (fun c => match c with
                 | SSched t => CSched t P_OTHER_HIGH sched_asset AUpdate
                 | SData d => CData L_SCHEDULE_UPDATE sched_asset d
                 end) (rev (s_out s))).

Definition sw_reg (obj : Z) (ov : option Z) (w : sw) : sw :=
  let '(s', b) := s_register obj ov (w_s w) in mkSW s' ((0, obj, bZ b) :: w_res w).
Definition sw_unreg (obj : Z) (w : sw) : sw :=
  let '(s', b) := s_unregister obj (w_s w) in mkSW s' ((1, obj, bZ b) :: w_res w).

Definition exec_sc (a : sfact) (w : sw) (nw : Z) : sw * list (cmd sfact) :=
  match a with
  | AUpdate => flush_s (mkSW (s_update nw true (w_s w)) (w_res w))
  | ADeferReg obj ov => flush_s (sw_reg obj ov w)
  | ADeferUnreg obj => flush_s (sw_unreg obj w)
  end.

Definition enc_ov (o : option Z) : Z := match o with Some z => z | None => -1 end.

Definition enc_sfact (a : option sfact) : list Z :=
  match a with
  | None => [-1; 0]
  | Some AUpdate => [1; 0]
  | Some (ADeferReg obj _) => [2; obj]
  | Some (ADeferUnreg obj) => [3; obj]
  end.

Definition enc_sc_event (e : event sfact) : list Z :=
  [Z.of_nat (e_id e); e_time e; e_prio e; e_w e; e_asset e] ++ enc_sfact (e_act e).

Definition enc_sw (w : sw) : list Z :=
  let s := w_s w in
  [Z.of_nat (s_index s); match s_state s with Some z => z | None => -1 end;
   Z.of_nat (length (s_reg s))] ++ flat_map (fun r => [fst r; enc_ov (snd r)]) (s_reg s)
  ++ [Z.of_nat (length (s_calls s))] ++ flat_map (fun c => let '(o, ov, t, st) := c in [o; enc_ov ov; t; st]) (rev (s_calls s))
  ++ [Z.of_nat (length (w_res w))] ++ flat_map (fun r => let '(k, o, b) := r in [k; o; b]) (rev (w_res w)).

Definition enc_sc_state (s : sw * env sfact) (ndata : nat) : list Z :=
  let en := snd s in
  enc_sw (fst s)
  ++ [now en; bZ (terminated en); Z.of_nat (length (queue en))] ++ flat_map enc_sc_event (queue en)
  ++ [Z.of_nat (length (datalog en) - ndata)]
  ++ flat_map (fun d => let '(l, _, p) := d in [l; Z.of_nat (length p)] ++ p) (rev (firstn (length (datalog en) - ndata) (datalog en))).

Definition do_sxop (sc : sc_scn) (s : sw * env sfact) (x : sxop) : (sw * env sfact) * Z :=
  let ws := wgen (sq_seed sc) (sq_mod sc) in
  let fin (w : sw) := let '(w1, cs) := flush_s w in
                      match apply_cmds ws (snd s) cs with Ok en => ((w1, en), 0) | Err en => ((w1, en), 1) end in
  let ext c := match apply_cmd ws (snd s) c with Ok en => ((fst s, en), 0) | Err en => ((fst s, en), 1) end in
  match x with
  | SXReg obj ov => fin (sw_reg obj ov (fst s))
  | SXUnreg obj => fin (sw_unreg obj (fst s))
  | SXDeferReg t p obj ov => ext (CSched t p (-5) (ADeferReg obj ov))
  | SXDeferUnreg t p obj => ext (CSched t p (-5) (ADeferUnreg obj))
  | SXInit => fin (mkSW (s_update (now (snd s)) false (w_s (fst s))) (w_res (fst s)))
  | SXStep => match step ws exec_sc (fun _ => false) s with
              | None => (s, 2) | Some (Ok s') => (s', 0) | Some (Err s') => (s', 1) end
  | SXRun d => match run ws exec_sc (fun _ => false) 3000 d s with
               | None => (s, 3) | Some (Ok s') => (s', 0) | Some (Err s') => (s', 1) end
  end.

Fixpoint run_sxops (sc : sc_scn) (s : sw * env sfact) (xs : list sxop) (acc : list (list Z)) : list (list Z) :=
  match xs with
  | [] => rev acc
  | x :: xs' =>
    let nd := length (datalog (snd s)) in
    let '(s', st) := do_sxop sc s x in
    run_sxops sc s' xs' (([-777; st] ++ enc_sc_state s' nd) :: acc)
  end.

Definition run_fam_sched (input : list Z) : list Z :=
  let sc := decode_sc_scn input in
  concat (run_sxops sc (mkSW (init_sst (sq_schedule sc) (sq_cyclic sc)) [], init_env) (sq_ext sc) []).
