(** Family F_maint: Maintainer + Environment with scripted Maintainable targets. *)
From Coq Require Import ZArith List Bool Lia.
From SimVerif Require Import Model.Base Model.Env Model.FamEnv Model.Maint.
Import ListNotations.
Open Scope Z_scope.

Record tentry := mkT { t_target : Z; t_tag : Z; t_cap : Z; t_dur : Z; t_cost : Z;
                       t_start : list (Z * Z); t_end : list (Z * Z) }.

Inductive mxop := MXCreate (t g info : Z) | MXDefer (tm t g info : Z) | MXStep | MXRun (d : Z).

Record mt_scn := mkMtScn {
  mq_seed : Z; mq_mod : Z; mq_capacity : inf; mq_value : Z;
  mq_table : list tentry;
  mq_ext : list mxop }.

Definition find_entry (tb : list tentry) (t g : Z) : tentry :=
  match find (fun e => (t_target e =? t) && (t_tag e =? g)) tb with
  | Some e => e
  | None => mkT t g 0 0 0 [] []        (* the defaults of class Maintainable *)
  end.

Fixpoint upd_entry (tb : list tentry) (t g : Z) (f : tentry -> tentry) : list tentry :=
  match tb with
  | [] => [f (mkT t g 0 0 0 [] [])]
  | e :: tb' => if (t_target e =? t) && (t_tag e =? g) then f e :: tb' else e :: upd_entry tb' t g f
  end.

Definition decode_mt_tuple (sc : mt_scn) (tp : tup8) : mt_scn :=
  let '(op, a, b, c, d, e, _, _) := tp in
  let settb tb := mkMtScn (mq_seed sc) (mq_mod sc) (mq_capacity sc) (mq_value sc) tb (mq_ext sc) in
  let addx x := mkMtScn (mq_seed sc) (mq_mod sc) (mq_capacity sc) (mq_value sc) (mq_table sc) (mq_ext sc ++ [x]) in
  if op =? 0 then mkMtScn a b (mq_capacity sc) (mq_value sc) (mq_table sc) (mq_ext sc)
  else if op =? 40 then mkMtScn (mq_seed sc) (mq_mod sc) (if a <? 0 then None else Some a) b (mq_table sc) (mq_ext sc)
  else if op =? 41 then settb (upd_entry (mq_table sc) a b (fun x => mkT a b c d e (t_start x) (t_end x)))
  else if op =? 42 then settb (upd_entry (mq_table sc) a b (fun x => mkT a b (t_cap x) (t_dur x) (t_cost x) (t_start x ++ [(c, d)]) (t_end x)))
  else if op =? 43 then settb (upd_entry (mq_table sc) a b (fun x => mkT a b (t_cap x) (t_dur x) (t_cost x) (t_start x) (t_end x ++ [(c, d)])))
  else if op =? 44 then addx (MXCreate a b c)
  else if op =? 45 then addx (MXDefer a b c d)
  else if op =? 14 then addx MXStep
  else if op =? 15 then addx (MXRun a)
  else sc.

Definition decode_mt_scn (l : list Z) : mt_scn :=
  fold_left decode_mt_tuple (chunk8 l) (mkMtScn 0 1 None 0 [] []).

(** world: the maintainer, the targets' hook log and the results of create_work_order calls *)
Record mw := mkMW {
  w_m : mst;
  w_hooks : list (Z * Z * Z * Z);     (* (0 start / 1 end, target, tag, time), newest first *)
  w_results : list (Z * Z * Z) }.     (* (target, tag, 1 accepted / 0 rejected), newest first *)

Inductive mfact := AM (a : mact) | ADeferCreate (t g info : Z).

Definition mw_create (tb : list tentry) (nw : Z) (t g info : Z) (w : mw) : mw :=
  let '(m', ok) := m_create nw t g (t_cap (find_entry tb t g)) info (w_m w) in
  mkMW m' (w_hooks w) ((t, g, bZ ok) :: w_results w).

Definition run_hook (tb : list tentry) (nw : Z) (kind : Z) (t g : Z) (reqs : list (Z * Z)) (w : mw) : mw :=
  fold_left (fun w r => mw_create tb nw (fst r) (snd r) 0 w) reqs
            (mkMW (w_m w) ((kind, t, g, nw) :: w_hooks w) (w_results w)).

Definition maint_asset : Z := 1.

Definition flush_m (w : mw) : mw * list (cmd mfact) :=
  let m := w_m w in
  (mkMW (mkM (m_capacity m) (m_util m) (m_queue m) (m_active m) (m_next m) (m_value m) (m_vhist m) []) (w_hooks w) (w_results w),
   map (fun c => match c with
                 | MSched t p a => CSched t p maint_asset (AM a)
                 | MData l d => CData l maint_asset d
                 end) (rev (m_out m))).

Definition with_m (w : mw) (m : mst) : mw := mkMW m (w_hooks w) (w_results w).

Definition exec_mt (tb : list tentry) (a : mfact) (w : mw) (nw : Z) : mw * list (cmd mfact) :=
  match a with
  | AM (MStart wo) =>
    let e := find_entry tb (wo_target wo) (wo_tag wo) in
    let w1 := with_m w (m_start_pre nw wo (t_cost e) (w_m w)) in
    let w2 := run_hook tb nw 0 (wo_target wo) (wo_tag wo) (t_start e) w1 in
    flush_m (with_m w2 (m_start_post nw wo (t_dur e) (w_m w2)))
  | AM (MFinish wo) =>
    let e := find_entry tb (wo_target wo) (wo_tag wo) in
    let w1 := run_hook tb nw 1 (wo_target wo) (wo_tag wo) (t_end e) w in
    flush_m (with_m w1 (m_finish_post nw wo (w_m w1)))
  | ADeferCreate t g info => flush_m (mw_create tb nw t g info w)
  end.

Definition enc_wo (wo : worder) : list Z :=
  [Z.of_nat (wo_id wo); wo_target wo; wo_tag wo; wo_cap wo; wo_info wo].

Definition enc_mfact (a : option mfact) : list Z :=
  match a with
  | None => [-1; 0]
  | Some (AM (MStart wo)) => [1; Z.of_nat (wo_id wo)]
  | Some (AM (MFinish wo)) => [2; Z.of_nat (wo_id wo)]
  | Some (ADeferCreate t g _) => [3; t * 100 + g]
  end.

Definition enc_mt_event (e : event mfact) : list Z :=
  [Z.of_nat (e_id e); e_time e; e_prio e; e_w e; e_asset e] ++ enc_mfact (e_act e).

Definition enc_mw (w : mw) : list Z :=
  let m := w_m w in
  [m_util m; match m_capacity m with None => -1 | Some c => c end; m_value m;
   Z.of_nat (length (m_queue m))] ++ flat_map enc_wo (m_queue m)
  ++ [Z.of_nat (length (m_active m))] ++ flat_map enc_wo (m_active m)
  ++ [Z.of_nat (length (m_vhist m))] ++ flat_map (fun h => let '(g, t, tm, d, v) := h in [g; t; tm; d; v]) (m_vhist m)
  ++ [Z.of_nat (length (w_hooks w))] ++ flat_map (fun h => let '(k, t, g, tm) := h in [k; t; g; tm]) (rev (w_hooks w))
  ++ [Z.of_nat (length (w_results w))] ++ flat_map (fun h => let '(t, g, ok) := h in [t; g; ok]) (rev (w_results w)).

Definition enc_data3 (d : Z * Z * list Z) : list Z :=
  let '(l, s, p) := d in [l; Z.of_nat (length p)] ++ p.

Definition enc_mt_state (s : mw * env mfact) (ndata : nat) : list Z :=
  let en := snd s in
  enc_mw (fst s)
  ++ [now en; bZ (terminated en); Z.of_nat (length (queue en))] ++ flat_map enc_mt_event (queue en)
  ++ [Z.of_nat (length (datalog en) - ndata)] ++ flat_map enc_data3 (rev (firstn (length (datalog en) - ndata) (datalog en))).

Definition do_mxop (sc : mt_scn) (s : mw * env mfact) (x : mxop) : (mw * env mfact) * Z :=
  let ws := wgen (mq_seed sc) (mq_mod sc) in
  let tb := mq_table sc in
  match x with
  | MXCreate t g info =>
    let '(w1, cs) := flush_m (mw_create tb (now (snd s)) t g info (fst s)) in
    match apply_cmds ws (snd s) cs with Ok en => ((w1, en), 0) | Err en => ((w1, en), 1) end
  | MXDefer tm t g info =>
    match apply_cmd ws (snd s) (CSched tm P_OTHER_LOW (-5) (ADeferCreate t g info)) with
    | Ok en => ((fst s, en), 0) | Err en => ((fst s, en), 1) end
  | MXStep => match step ws (exec_mt tb) (fun _ => false) s with
              | None => (s, 2) | Some (Ok s') => (s', 0) | Some (Err s') => (s', 1) end
  | MXRun d => match run ws (exec_mt tb) (fun _ => false) 3000 d s with
               | None => (s, 3) | Some (Ok s') => (s', 0) | Some (Err s') => (s', 1) end
  end.

Fixpoint run_mxops (sc : mt_scn) (s : mw * env mfact) (xs : list mxop) (acc : list (list Z)) : list (list Z) :=
  match xs with
  | [] => rev acc
  | x :: xs' =>
    let nd := length (datalog (snd s)) in
    let '(s', st) := do_mxop sc s x in
    run_mxops sc s' xs' (([-777; st] ++ enc_mt_state s' nd) :: acc)
  end.

Definition run_fam_maint (input : list Z) : list Z :=
  let sc := decode_mt_scn input in
  concat (run_mxops sc (mkMW (init_mst (mq_capacity sc) (mq_value sc)) [] [], init_env) (mq_ext sc) []).
