(** L2: simprocesd/model/resource_manager.py — pools, all-or-nothing
    reservations, ReservedResources.release / merge, the FIFO waiting list and
    its scan.  Faithful to the code including the order of validation and
    mutation (that is what C09's "an operation that raises changes nothing"
    is about).  Resource names are integers; amounts are [Z] on the 1/8 grid.

    The manager never reads the event queue: it emits environment calls
    (datapoints and "check pending requests" events at the current instant). *)
From Coq Require Import ZArith List Bool Lia.
From SimVerif Require Import Model.Base Model.Env.
Import ListNotations.
Open Scope Z_scope.

Definition req := list (Z * Z).                  (* insertion-ordered dict: name -> amount *)
Definition pools := list (Z * (Z * Z)).          (* name -> (in_use, capacity) *)

Definition usage (p : pools) (n : Z) : Z := match aget n p with Some (u, _) => u | None => 0 end.
Definition capacity (p : pools) (n : Z) : Z := match aget n p with Some (_, c) => c | None => 0 end.

(** ResourceManager._can_fulfill_request *)
Fixpoint can_fulfill (p : pools) (r : req) : bool :=
  match r with
  | [] => true
  | (n, a) :: r' =>
    if a =? 0 then can_fulfill p r'
    else match aget n p with
         | Some (u, c) => if c - u <? a then false else can_fulfill p r'
         | None => false
         end
  end.

Definition positive_part (r : req) : req := filter (fun na => 0 <? snd na) r.

(** Error codes (0 = no error): the Python exception that aborted the call. *)
Definition E_NONE := 0.
Definition E_VALUE := 1.
Definition E_KEY := 4.
Definition E_FUEL := 9.

Definition L_RESOURCE_UPDATE := 1.     (* datapoint label 'resource_update' *)

(** Actions the manager's world can put on the queue. *)
Inductive ract := ACheck | ADeferred (k : nat).

(** the only environment calls the manager makes *)
Inductive rcmd := RSched (t prio asset : Z) (a : ract) | RData (label sub : Z) (payload : list Z).
Definition to_cmd (c : rcmd) : cmd ract :=
  match c with RSched t p a act => CSched t p a act | RData l s d => CData l s d end.

(** a waiting entry: the deep-copied request, the callback, and (ghost) its registration number *)
Record wentry := mkW { we_req : req; we_cb : nat; we_id : nat }.
(** a callback invocation: callback, request passed, time, and (ghost) the registration number
    and the pools at the moment of the call *)
Record cbentry := mkCb { ce_cb : nat; ce_req : req; ce_time : Z; ce_id : nat; ce_pools : pools }.

Record rs := mkRs {
  r_pools : pools;
  r_wait : list wentry;                 (* in registration order *)
  r_res : list req;                     (* every ReservedResources object ever created, by creation index *)
  r_slots : list (Z * option nat);      (* harness variable -> reservation object (None = reserve returned None) *)
  r_cblog : list cbentry;               (* callback invocations, newest first *)
  r_out : list rcmd;                    (* environment calls made, newest first *)
  r_err : Z;
  r_env : bool;                         (* initialize(env) has been called *)
  r_nreg : nat }.                       (* ghost: number of registrations so far *)

Definition init_rs : rs := mkRs [] [] [] [] [] [] 0 false O.

Definition set_pools (s : rs) p := mkRs p (r_wait s) (r_res s) (r_slots s) (r_cblog s) (r_out s) (r_err s) (r_env s) (r_nreg s).
Definition set_wait (s : rs) w := mkRs (r_pools s) w (r_res s) (r_slots s) (r_cblog s) (r_out s) (r_err s) (r_env s) (r_nreg s).
Definition set_res (s : rs) x := mkRs (r_pools s) (r_wait s) x (r_slots s) (r_cblog s) (r_out s) (r_err s) (r_env s) (r_nreg s).
Definition set_slots (s : rs) x := mkRs (r_pools s) (r_wait s) (r_res s) x (r_cblog s) (r_out s) (r_err s) (r_env s) (r_nreg s).
Definition set_cblog (s : rs) x := mkRs (r_pools s) (r_wait s) (r_res s) (r_slots s) x (r_out s) (r_err s) (r_env s) (r_nreg s).
Definition emit (s : rs) c := mkRs (r_pools s) (r_wait s) (r_res s) (r_slots s) (r_cblog s) (c :: r_out s) (r_err s) (r_env s) (r_nreg s).
Definition fail (s : rs) e := mkRs (r_pools s) (r_wait s) (r_res s) (r_slots s) (r_cblog s) (r_out s) e (r_env s) (r_nreg s).
Definition set_env (s : rs) b := mkRs (r_pools s) (r_wait s) (r_res s) (r_slots s) (r_cblog s) (r_out s) (r_err s) b (r_nreg s).

(** _record_resource_amount_update *)
Definition record (nw : Z) (n : Z) (s : rs) : rs :=
  emit s (RData L_RESOURCE_UPDATE n [nw; usage (r_pools s) n; capacity (r_pools s) n]).

(** _schedule_check_pending_requesters *)
Definition sched_check (nw : Z) (s : rs) : rs :=
  emit s (RSched nw P_OTHER_HIGH (-1) ACheck).

(** add_resources *)
Definition add_resources (nw : Z) (n a : Z) (s : rs) : rs :=
  if a =? 0 then s
  else
    let s1 :=
      match aget n (r_pools s) with
      | Some (u, c) =>
        if (a <? 0) && (c + a <? 0) then fail s E_VALUE
        else set_pools s (aset n (u, c + a) (r_pools s))
      | None => if a <? 0 then fail s E_VALUE else set_pools s (aset n (0, a) (r_pools s))
      end in
    if negb (r_err s1 =? 0) then s1
    else if r_env s1 then sched_check nw (record nw n s1) else s1.

Definition has_negative (r : req) : bool := existsb (fun na => snd na <? 0) r.

(** the mutation loop of reserve_resources over the *original* request (validated before) *)
Fixpoint take (nw : Z) (r : req) (s : rs) : rs :=
  match r with
  | [] => s
  | (n, a) :: r' =>
    if a =? 0 then take nw r' s
    else match aget n (r_pools s) with
         | Some (u, c) => take nw r' (record nw n (set_pools s (aset n (u + a, c) (r_pools s))))
         | None => fail s E_KEY
         end
  end.

(** reserve_resources: returns the new state and the created object's index *)
Definition reserve (nw : Z) (r : req) (s : rs) : rs * option nat :=
  let f := positive_part r in
  if can_fulfill (r_pools s) f then
    if has_negative r then (fail s E_VALUE, None) else
    let s1 := take nw r s in
    if negb (r_err s1 =? 0) then (s1, None)
    else (set_res s1 (r_res s1 ++ [f]), Some (length (r_res s1)))
  else (s, None).

Definition reserve_into (nw : Z) (slot : Z) (r : req) (s : rs) : rs :=
  let '(s1, o) := reserve nw r s in
  if negb (r_err s1 =? 0) then s1 else set_slots s1 (aset slot o (r_slots s1)).

(** reserve_resources_with_callback *)
Definition register (nw : Z) (cb : nat) (r : req) (s : rs) : rs :=
  let s1 := set_wait s (r_wait s ++ [mkW r cb (r_nreg s)]) in
  sched_check nw (mkRs (r_pools s1) (r_wait s1) (r_res s1) (r_slots s1) (r_cblog s1) (r_out s1) (r_err s1) (r_env s1) (S (r_nreg s1))).

(** _release_resources *)
Fixpoint give_back (nw : Z) (r : req) (s : rs) : rs :=
  match r with
  | [] => s
  | (n, a) :: r' =>
    if a =? 0 then give_back nw r' s
    else match aget n (r_pools s) with
         | Some (u, c) => give_back nw r' (record nw n (set_pools s (aset n (u - a, c) (r_pools s))))
         | None => fail s E_KEY
         end
  end.

Definition release_resources (nw : Z) (r : req) (s : rs) : rs :=
  let s1 := give_back nw r s in
  if negb (r_err s1 =? 0) then s1 else sched_check nw s1.

(** validation loop of ReservedResources.release(resources) *)
Fixpoint validate_release (held r : req) : Z :=
  match r with
  | [] => E_NONE
  | (n, a) :: r' =>
    if a <? 0 then E_VALUE
    else if a =? 0 then validate_release held r'
    else match aget n held with
         | Some h => if h <? a then E_VALUE else validate_release held r'
         | None => E_KEY
         end
  end.

(** bookkeeping loop of release: reduce, remember what reached 0; KeyError aborts before deletion *)
Fixpoint reduce_held (held r : req) (todel : list Z) : req * list Z * Z :=
  match r with
  | [] => (held, todel, E_NONE)
  | (n, a) :: r' =>
    if a =? 0 then reduce_held held r' todel else
    let held1 := if 0 <? a then match aget n held with Some h => aset n (h - a) held | None => held end else held in
    if (0 <? a) && negb (amem n held) then (held, todel, E_KEY)
    else match aget n held1 with
         | None => (held1, todel, E_KEY)
         | Some h => reduce_held held1 r' (if h =? 0 then todel ++ [n] else todel)
         end
  end.

Definition set_nth {X} (i : nat) (x : X) (l : list X) : list X :=
  firstn i l ++ match skipn i l with [] => [] | _ :: t => x :: t end.

Definition release_obj (nw : Z) (i : nat) (ro : option req) (s : rs) : rs :=
  let held := nth i (r_res s) [] in
  match ro with
  | None =>
    (* resources = self._reserved_resources: everything is returned and every entry deleted *)
    let s1 := release_resources nw held s in
    if negb (r_err s1 =? 0) then s1 else set_res s1 (set_nth i [] (r_res s1))
  | Some r =>
    let e := validate_release held r in
    if negb (e =? 0) then fail s e
    else
      let s1 := release_resources nw r s in
      if negb (r_err s1 =? 0) then s1
      else
        let '(held1, todel, e1) := reduce_held held r [] in
        if negb (e1 =? 0) then fail (set_res s1 (set_nth i held1 (r_res s1))) e1
        else set_res s1 (set_nth i (fold_left (fun h n => adel n h) todel held1) (r_res s1))
  end.

Definition release_slot (nw : Z) (slot : Z) (ro : option req) (s : rs) : rs :=
  match aget slot (r_slots s) with
  | Some (Some i) => release_obj nw i ro s
  | _ => s
  end.

(** merge *)
Fixpoint merge_into (held other : req) : req :=
  match other with
  | [] => held
  | (n, a) :: o' =>
    merge_into (match aget n held with Some h => aset n (h + a) held | None => aset n a held end) o'
  end.

Definition merge_obj (i j : nat) (s : rs) : rs :=
  if Nat.eqb i j then set_res s (set_nth i [] (r_res s))          (* a.merge(a): doubles, then both (same) emptied *)
  else
    let hi := nth i (r_res s) [] in
    let hj := nth j (r_res s) [] in
    set_res s (set_nth j [] (set_nth i (merge_into hi hj) (r_res s))).

Definition merge_slots (s1 s2 : Z) (s : rs) : rs :=
  match aget s1 (r_slots s), aget s2 (r_slots s) with
  | Some (Some i), Some (Some j) => merge_obj i j s
  | _, _ => s
  end.

(** Scripted operations (external calls and callback bodies). *)
Inductive rop :=
| RAdd (n a : Z)
| RReserve (slot : Z) (r : req)
| RReserveArg (slot : Z)
| RReleaseAll (slot : Z)
| RRelease (slot : Z) (r : req)
| RMerge (s1 s2 : Z)
| RRegister (cb : nat) (r : req).

Definition run_rop (nw : Z) (arg : req) (o : rop) (s : rs) : rs :=
  if negb (r_err s =? 0) then s else
  match o with
  | RAdd n a => add_resources nw n a s
  | RReserve slot r => reserve_into nw slot r s
  | RReserveArg slot => reserve_into nw slot arg s
  | RReleaseAll slot => release_slot nw slot None s
  | RRelease slot r => release_slot nw slot (Some r) s
  | RMerge a b => merge_slots a b s
  | RRegister cb r => register nw cb r s
  end.

Definition run_rops (nw : Z) (arg : req) (os : list rop) (s : rs) : rs :=
  fold_left (fun s o => run_rop nw arg o s) os s.

(** _check_pending_requests: the index loop.  [cbs k] is the body of callback k. *)
Fixpoint check_pending (fuel : nat) (cbs : nat -> list rop) (nw : Z) (i : nat) (s : rs) : rs :=
  match fuel with
  | O => fail s E_FUEL
  | S f =>
    match nth_error (r_wait s) i with
    | None => s
    | Some (mkW r cb id) =>
      if can_fulfill (r_pools s) r then
        let s1 := run_rops nw r (cbs cb) (set_cblog s (mkCb cb r nw id (r_pools s) :: r_cblog s)) in
        if negb (r_err s1 =? 0) then s1
        else check_pending f cbs nw i (set_wait s1 (firstn i (r_wait s1) ++ skipn (S i) (r_wait s1)))
      else check_pending f cbs nw (S i) s
    end
  end.

(** initialize(env): record initial amounts *)
Definition rm_initialize (nw : Z) (s : rs) : rs :=
  fold_left (fun s n => record nw n s) (map fst (r_pools s)) (set_env s true).
