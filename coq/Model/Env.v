(** L1: the generic event system of simprocesd/model/simulation.py.

    Generic in the action identity [A], the world [W] and the behaviour
    [exec] of an action (a function of world and clock that returns the new
    world and the list of environment calls it made, in order).  Device code
    never reads the queue, so nothing is lost by the writer-monad form.

    Time, priorities (1/16 units), weights and asset ids are [Z].
    The tie-break weight of the n-th created event is [wsrc n]. *)
From Coq Require Import ZArith List Bool Lia.
From SimVerif Require Import Model.Base.
Import ListNotations.
Open Scope Z_scope.

(** The comparison chain of [Event.__lt__], as data (compared by
    [Proofs/FactsTie.v] with the table read from the source). *)
Inductive efield := Ftime | Fprio | Fweight | Fasset.
Inductive dir := Asc | Desc.
Definition lt_chain : list (efield * dir) :=
  [(Ftime, Asc); (Fprio, Desc); (Fweight, Asc); (Fasset, Asc)].

(** Built-in priorities in 1/16 units, in the order of [class EventType]. *)
Definition event_type_names : list nat := seq 1 11.
Definition P_TERMINATE := 16.
Definition P_OTHER_LOW := 32.
Definition P_START_WORK := 48.
Definition P_SENSOR := 64.
Definition P_FAIL := 80.
Definition P_RELEASE := 96.
Definition P_PASS_PART := 112.
Definition P_FINISH_PROCESSING := 128.
Definition P_RESTORE := 144.
Definition P_FINISH_WORK := 160.
Definition P_OTHER_HIGH := 176.

Section Env.
  Variable A : Type.
  Variable W : Type.
  Variable wsrc : nat -> Z.

  Record event := mkEvent {
    e_id : nat;
    e_time : Z;
    e_prio : Z;
    e_w : Z;
    e_asset : Z;
    e_act : option A;            (* None = Environment._terminate *)
    e_paused_at : option Z;
    e_cancelled : bool }.

  Definition efield_get (f : efield) (e : event) : Z :=
    match f with Ftime => e_time e | Fprio => e_prio e | Fweight => e_w e | Fasset => e_asset e end.
  Definition key (e : event) : list Z :=
    map (fun fd => match snd fd with Asc => efield_get (fst fd) e | Desc => - efield_get (fst fd) e end) lt_chain.
  Definition ev_ltb (a b : event) : bool := lex_ltb (key a) (key b).

  (** bisect.insort (= insort_right) on a list sorted by [ev_ltb]. *)
  Fixpoint insort (e : event) (l : list event) : list event :=
    match l with
    | [] => [e]
    | x :: l' => if ev_ltb e x then e :: l else x :: insort e l'
    end.

  Inductive cmd :=
  | CSched (t prio asset : Z) (a : A)
  | CPause (asset : Z)
  | CUnpause (asset : Z)
  | CCancel (asset : Z)
  | CData (label sub : Z) (payload : list Z).

  Record env := mkEnv {
    now : Z;
    queue : list event;
    paused : list event;
    next_eid : nat;
    terminated : bool;
    dispatched : list event;              (* newest first; the event trace *)
    datalog : list (Z * Z * list Z) }.    (* newest first *)

  Definition init_env : env := mkEnv 0 [] [] O true [] [].

  Definition set_queue (en : env) q := mkEnv (now en) q (paused en) (next_eid en) (terminated en) (dispatched en) (datalog en).
  Definition set_terminated (en : env) b := mkEnv (now en) (queue en) (paused en) (next_eid en) b (dispatched en) (datalog en).

  Definition matches (asset : Z) (e : event) : bool := e_asset e =? asset.

  Definition schedule (en : env) (t prio asset : Z) (a : option A) : res env :=
    if t <? now en then Err en
    else Ok (mkEnv (now en)
               (insort (mkEvent (next_eid en) t prio (wsrc (next_eid en)) asset a None false) (queue en))
               (paused en) (S (next_eid en)) (terminated en) (dispatched en) (datalog en)).

  Definition stamp (t : Z) (e : event) : event :=
    mkEvent (e_id e) (e_time e) (e_prio e) (e_w e) (e_asset e) (e_act e) (Some t) (e_cancelled e).
  Definition resume_time (t : Z) (e : event) : Z :=
    match e_paused_at e with Some p => e_time e + (t - p) | None => e_time e end.
  Definition resumed (t : Z) (e : event) : event :=
    mkEvent (e_id e) (resume_time t e) (e_prio e) (e_w e) (e_asset e) (e_act e) (e_paused_at e) (e_cancelled e).
  Definition cancel_ev (e : event) : event :=
    mkEvent (e_id e) (e_time e) (e_prio e) (e_w e) (e_asset e) (e_act e) (e_paused_at e) true.

  Definition pause (en : env) (asset : Z) : env :=
    mkEnv (now en)
      (filter (fun e => negb (matches asset e)) (queue en))
      (paused en ++ map (stamp (now en)) (filter (matches asset) (queue en)))
      (next_eid en) (terminated en) (dispatched en) (datalog en).

  Definition unpause (en : env) (asset : Z) : env :=
    mkEnv (now en)
      (fold_left (fun q e => insort (resumed (now en) e) q) (filter (matches asset) (paused en)) (queue en))
      (filter (fun e => negb (matches asset e)) (paused en))
      (next_eid en) (terminated en) (dispatched en) (datalog en).

  Definition cancel (en : env) (asset : Z) : env :=
    let f := fun e => if matches asset e then cancel_ev e else e in
    mkEnv (now en) (map f (queue en)) (map f (paused en))
      (next_eid en) (terminated en) (dispatched en) (datalog en).

  Definition add_data (en : env) (label sub : Z) (payload : list Z) : env :=
    mkEnv (now en) (queue en) (paused en) (next_eid en) (terminated en) (dispatched en)
      ((label, sub, payload) :: datalog en).

  Definition apply_cmd (en : env) (c : cmd) : res env :=
    match c with
    | CSched t p a act => schedule en t p a (Some act)
    | CPause a => Ok (pause en a)
    | CUnpause a => Ok (unpause en a)
    | CCancel a => Ok (cancel en a)
    | CData l s d => Ok (add_data en l s d)
    end.

  Fixpoint apply_cmds (en : env) (cs : list cmd) : res env :=
    match cs with
    | [] => Ok en
    | c :: cs' => match apply_cmd en c with
                  | Ok en' => apply_cmds en' cs'
                  | Err en' => Err en'
                  end
    end.

  Variable exec : A -> W -> Z -> W * list cmd.
  (** [wfail w] : the action raised a Python exception (recorded in the world);
      the exception propagates out of step() and run(). *)
  Variable wfail : W -> bool.

  Definition state : Type := W * env.

  (** Environment.step: [None] is the IndexError of popping an empty list. *)
  Definition step (s : state) : option (res state) :=
    let (w, en) := s in
    match queue en with
    | [] => None
    | e :: q =>
      let en1 := mkEnv (e_time e) q (paused en) (next_eid en) (terminated en) (e :: dispatched en) (datalog en) in
      if e_cancelled e then Some (Ok (w, en1))
      else match e_act e with
           | None => Some (Ok (w, set_terminated en1 true))
           | Some a =>
             let (w', cs) := exec a w (e_time e) in
             match apply_cmds en1 cs with
             | Ok en2 => if wfail w' then Some (Err (w', en2)) else Some (Ok (w', en2))
             | Err en2 => Some (Err (w', en2))
             end
           end
    end.

  (** `while self._events and not self._terminated: self.step()`; [None] = out of fuel. *)
  Fixpoint loop (fuel : nat) (s : state) : option (res state) :=
    match queue (snd s) with
    | [] => Some (Ok s)
    | _ :: _ =>
      if terminated (snd s) then Some (Ok s)
      else match fuel with
           | O => None
           | S f => match step s with
                    | Some (Ok s') => loop f s'
                    | Some (Err s') => Some (Err s')
                    | None => Some (Ok s)
                    end
           end
    end.

  Definition start_run (en : env) (d : Z) : res env :=
    schedule (set_terminated en false) (now en + d) P_TERMINATE (-1) None.

  Definition run (fuel : nat) (d : Z) (s : state) : option (res state) :=
    match start_run (snd s) d with
    | Ok en => loop fuel (fst s, en)
    | Err en => Some (Err (fst s, en))
    end.

End Env.

Arguments mkEvent {A}.
Arguments e_id {A}. Arguments e_time {A}. Arguments e_prio {A}. Arguments e_w {A}.
Arguments e_asset {A}. Arguments e_act {A}. Arguments e_paused_at {A}. Arguments e_cancelled {A}.
Arguments CSched {A}. Arguments CPause {A}. Arguments CUnpause {A}. Arguments CCancel {A}. Arguments CData {A}.
Arguments mkEnv {A}. Arguments now {A}. Arguments queue {A}. Arguments paused {A}. Arguments next_eid {A}.
Arguments terminated {A}. Arguments dispatched {A}. Arguments datalog {A}.
Arguments init_env {A}.
Arguments key {A} e : simpl never. Arguments ev_ltb {A} a b : simpl never. Arguments insort {A}.
Arguments matches {A}. Arguments stamp {A}. Arguments resumed {A}. Arguments resume_time {A}. Arguments cancel_ev {A}.
Arguments pause {A}. Arguments unpause {A}. Arguments cancel {A}. Arguments add_data {A}.
Arguments schedule {A}. Arguments apply_cmd {A}. Arguments apply_cmds {A}.
Arguments set_queue {A}. Arguments set_terminated {A}. Arguments start_run {A}.
Arguments step {A W}. Arguments loop {A W}. Arguments run {A W}.
