(** L3: simprocesd/model/factory_floor/maintainer.py — request queue, capacity,
    one order per target, work-order life cycle.  The maintainer emits
    environment calls; targets' hooks are supplied by the caller (the family
    F_maint scripts them; the floor model plugs in PartProcessor's). *)
From Coq Require Import ZArith List Bool Lia.
From SimVerif Require Import Model.Base Model.Env.
Import ListNotations.
Open Scope Z_scope.

Record worder := mkWO {
  wo_id : nat;          (* object identity of the _WorkOrder *)
  wo_target : Z;
  wo_tag : Z;           (* -1 = None *)
  wo_cap : Z;           (* needed capacity, read once at creation *)
  wo_info : Z }.

Inductive mact := MStart (wo : worder) | MFinish (wo : worder).
Inductive mcmd := MSched (t prio : Z) (a : mact) | MData (label : Z) (payload : list Z).

Definition L_ENTER_QUEUE := 2.
Definition L_START_WORK := 3.
Definition L_FINISH_WORK := 4.

Record mst := mkM {
  m_capacity : inf;                 (* None = float('inf') *)
  m_util : Z;
  m_queue : list worder;
  m_active : list worder;
  m_next : nat;
  m_value : Z;
  m_vhist : list (Z * Z * Z * Z * Z);   (* (tag, target, time, delta, new value), oldest first *)
  m_out : list mcmd }.                  (* newest first *)

Definition init_mst (capacity : inf) (value : Z) : mst := mkM capacity 0 [] [] O value [] [].

Definition m_emit (m : mst) (c : mcmd) : mst :=
  mkM (m_capacity m) (m_util m) (m_queue m) (m_active m) (m_next m) (m_value m) (m_vhist m) (c :: m_out m).

Definition m_record (nw : Z) (label : Z) (wo : worder) (m : mst) : mst :=
  m_emit m (MData label [nw; wo_target wo; wo_tag wo; wo_info wo]).

Definition same_order (t g : Z) (wo : worder) : bool := (wo_target wo =? t) && (wo_tag wo =? g).

(** _is_work_order_requested *)
Definition is_requested (m : mst) (t g : Z) : bool :=
  existsb (same_order t g) (m_queue m) || existsb (same_order t g) (m_active m).

Definition target_busy (active : list worder) (t : Z) : bool :=
  existsb (fun wo => wo_target wo =? t) active.

(** `self._utilization <= self._capacity - req.needed_capacity` *)
Definition cap_fits (capacity : inf) (util need : Z) : bool :=
  match capacity with None => true | Some c => util <=? c - need end.

(** try_working_requests: one left-to-right pass (nothing is appended during the loop) *)
Fixpoint try_pass (nw : Z) (capacity : inf) (q : list worder) (util : Z) (active : list worder)
         (out : list mcmd) : list worder * Z * list worder * list mcmd :=
  match q with
  | [] => ([], util, active, out)
  | wo :: q' =>
    if cap_fits capacity util (wo_cap wo) && negb (target_busy active (wo_target wo)) then
      try_pass nw capacity q' (util + wo_cap wo) (active ++ [wo]) (MSched nw P_START_WORK (MStart wo) :: out)
    else
      let '(kept, u, a, o) := try_pass nw capacity q' util active out in (wo :: kept, u, a, o)
  end.

Definition m_try (nw : Z) (m : mst) : mst :=
  let '(kept, u, a, o) := try_pass nw (m_capacity m) (m_queue m) (m_util m) (m_active m) (m_out m) in
  mkM (m_capacity m) u kept a (m_next m) (m_value m) (m_vhist m) o.

(** create_work_order; [capv] = target.get_work_order_capacity(tag) *)
Definition m_create (nw : Z) (t g capv info : Z) (m : mst) : mst * bool :=
  if is_requested m t g then (m, false)
  else
    let wo := mkWO (m_next m) t g capv info in
    let m1 := m_record nw L_ENTER_QUEUE wo m in
    let m2 := mkM (m_capacity m1) (m_util m1) (m_queue m1 ++ [wo]) (m_active m1) (S (m_next m1))
                  (m_value m1) (m_vhist m1) (m_out m1) in
    (m_try nw m2, true).

(** Asset.add_cost(label, cost) *)
Definition m_add_cost (nw : Z) (wo : worder) (costv : Z) (m : mst) : mst :=
  if costv =? 0 then m
  else mkM (m_capacity m) (m_util m) (m_queue m) (m_active m) (m_next m) (m_value m - costv)
           (m_vhist m ++ [(wo_tag wo, wo_target wo, nw, - costv, m_value m - costv)]) (m_out m).

(** _start_work_order, before and after the target's start_work hook *)
Definition m_start_pre (nw : Z) (wo : worder) (costv : Z) (m : mst) : mst :=
  m_add_cost nw wo costv (m_record nw L_START_WORK wo m).
Definition m_start_post (nw : Z) (wo : worder) (durv : Z) (m : mst) : mst :=
  m_emit m (MSched (nw + durv) P_FINISH_WORK (MFinish wo)).

Fixpoint remove_wo (i : nat) (l : list worder) : list worder :=
  match l with
  | [] => []
  | wo :: l' => if Nat.eqb (wo_id wo) i then l' else wo :: remove_wo i l'
  end.

(** _finish_work_order, after the target's end_work hook *)
Definition m_finish_post (nw : Z) (wo : worder) (m : mst) : mst :=
  let m1 := mkM (m_capacity m) (m_util m - wo_cap wo) (m_queue m) (remove_wo (wo_id wo) (m_active m)) (m_next m)
                (m_value m) (m_vhist m) (m_out m) in
  m_try nw (m_record nw L_FINISH_WORK wo m1).
