(** Family F_sensor: a PeriodicSensor, an OutputPartSensor and a Cms in the real Environment. *)
From Coq Require Import ZArith List Bool Lia.
From SimVerif Require Import Model.Base Model.Env Model.FamEnv Model.Sensor.
Import ListNotations.
Open Scope Z_scope.

Inductive nxop :=
| NXSet (i v : Z) | NXDeferSet (t i v : Z)
| NXPart (q v : Z)                 (* the processor finishes a part with this quality / value *)
| NXCms (which : Z)                (* cms.add_sensor(periodic = 0 / output = 1) *)
| NXAddCb (which k : Z)
| NXInit | NXStep | NXRun (d : Z).

Record sn_scn := mkSnScn {
  nq_seed : Z; nq_mod : Z; nq_interval : Z; nq_cap : inf; nq_nprobes : nat; nq_pinterval : Z; nq_ocap : inf;
  nq_ext : list nxop }.

Definition capz (z : Z) : inf := if z <? 0 then None else Some z.

Definition decode_sn_tuple (sc : sn_scn) (tp : tup8) : sn_scn :=
  let '(op, a, b, c, d, e, _, _) := tp in
  let addx x := mkSnScn (nq_seed sc) (nq_mod sc) (nq_interval sc) (nq_cap sc) (nq_nprobes sc) (nq_pinterval sc) (nq_ocap sc) (nq_ext sc ++ [x]) in
  if op =? 0 then mkSnScn a b (nq_interval sc) (nq_cap sc) (nq_nprobes sc) (nq_pinterval sc) (nq_ocap sc) (nq_ext sc)
  else if op =? 60 then mkSnScn (nq_seed sc) (nq_mod sc) a (capz b) (Z.to_nat c) d (capz e) (nq_ext sc)
  else if op =? 61 then addx (NXSet a b)
  else if op =? 62 then addx (NXDeferSet a b c)
  else if op =? 63 then addx (NXPart a b)
  else if op =? 64 then addx (NXCms a)
  else if op =? 65 then addx (NXAddCb a b)
  else if op =? 16 then addx NXInit
  else if op =? 14 then addx NXStep
  else if op =? 15 then addx (NXRun a)
  else sc.

Definition decode_sn_scn (l : list Z) : sn_scn :=
  fold_left decode_sn_tuple (chunk8 l) (mkSnScn 0 1 8 None 1%nat 0 None []).

Record nw_ := mkNW {
  n_vars : list Z;
  n_p : sensor;                    (* the periodic sensor *)
  n_o : sensor;                    (* the output-part sensor *)
  n_cms : list Z;                  (* Cms._sensors (0 = periodic, 1 = output) *)
  n_calls : list (Z * Z * Z * list Z);   (* (sensor, callback, time, values), newest first *)
  n_out : list Z }.                (* times of PeriodicSensor events to schedule, newest first *)

Inductive nfact := ASense | ADeferSet (i v : Z).

Definition periodic_asset : Z := 1.

Fixpoint set_nthZ (i : nat) (v : Z) (l : list Z) : list Z :=
  match i, l with
  | _, [] => []
  | O, _ :: l' => v :: l'
  | S i', x :: l' => x :: set_nthZ i' v l'
  end.

Definition nw_set (i v : Z) (w : nw_) : nw_ :=
  mkNW (set_nthZ (Z.to_nat i) v (n_vars w)) (n_p w) (n_o w) (n_cms w) (n_calls w) (n_out w).

(** the values reported for a callback of the periodic sensor end with the length of the time series the callback sees *)
Definition nw_sense (sc : sn_scn) (nw : Z) (w : nw_) : nw_ :=
  let '(p1, calls) := periodic_sense nw (firstn (nq_nprobes sc) (n_vars w)) (n_p w) in
  mkNW (n_vars w) p1 (n_o w) (n_cms w)
       (rev (map (fun c => let '(cb, t, vs) := c in (0, cb, t, vs ++ [Z.of_nat (length (sn_time p1))])) calls) ++ n_calls w)
       ((nw + nq_interval sc) :: n_out w).

Definition nw_part (sc : sn_scn) (nw : Z) (q v : Z) (w : nw_) : nw_ :=
  let '(o1, calls) := probe_part nw (nq_pinterval sc) [q; v] (n_o w) in
  mkNW (n_vars w) (n_p w) o1 (n_cms w)
       (rev (map (fun c => let '(cb, t, vs) := c in (1, cb, t, vs)) calls) ++ n_calls w) (n_out w).

Definition nw_cms (which : Z) (w : nw_) : nw_ :=
  let '(l, added) := cms_add (n_cms w) which in
  if added then
    if which =? 0 then mkNW (n_vars w) (sn_add_cb 100 (n_p w)) (n_o w) l (n_calls w) (n_out w)
    else mkNW (n_vars w) (n_p w) (sn_add_cb 100 (n_o w)) l (n_calls w) (n_out w)
  else w.

Definition nw_addcb (which k : Z) (w : nw_) : nw_ :=
  if which =? 0 then mkNW (n_vars w) (sn_add_cb k (n_p w)) (n_o w) (n_cms w) (n_calls w) (n_out w)
  else mkNW (n_vars w) (n_p w) (sn_add_cb k (n_o w)) (n_cms w) (n_calls w) (n_out w).

Definition nw_init (sc : sn_scn) (nw : Z) (w : nw_) : nw_ :=
  mkNW (n_vars w) (sn_initialize (n_p w)) (sn_initialize (n_o w)) (n_cms w) (n_calls w) ((nw + nq_interval sc) :: n_out w).

Definition flush_n (w : nw_) : nw_ * list (cmd nfact) :=
  (mkNW (n_vars w) (n_p w) (n_o w) (n_cms w) (n_calls w) [],
   map (fun t => CSched t P_SENSOR periodic_asset ASense) (rev (n_out w))).

Definition exec_sn (sc : sn_scn) (a : nfact) (w : nw_) (nw : Z) : nw_ * list (cmd nfact) :=
  match a with
  | ASense => flush_n (nw_sense sc nw w)
  | ADeferSet i v => flush_n (nw_set i v w)
  end.

Definition enc_inf (c : inf) : Z := match c with Some z => z | None => -1 end.
Definition enc_list (l : list Z) : list Z := Z.of_nat (length l) :: l.

Definition enc_sensor (s : sensor) : list Z :=
  [Z.of_nat (length (sn_data s))] ++ flat_map enc_list (sn_data s) ++ enc_list (sn_time s) ++ enc_list (sn_last s)
  ++ enc_list (sn_cbs s) ++ [sn_counter s].

Definition enc_nfact (a : option nfact) : list Z :=
  match a with None => [-1; 0] | Some ASense => [1; 0] | Some (ADeferSet i v) => [2; i * 1000 + v] end.

Definition enc_sn_event (e : event nfact) : list Z :=
  [Z.of_nat (e_id e); e_time e; e_prio e; e_w e; e_asset e] ++ enc_nfact (e_act e).

Definition enc_nw (w : nw_) : list Z :=
  enc_list (n_vars w) ++ enc_sensor (n_p w) ++ enc_sensor (n_o w) ++ enc_list (n_cms w)
  ++ [Z.of_nat (length (n_calls w))] ++ flat_map (fun c => let '(s, cb, t, vs) := c in [s; cb; t] ++ enc_list vs) (rev (n_calls w)).

Definition enc_sn_state (s : nw_ * env nfact) : list Z :=
  let en := snd s in
  enc_nw (fst s) ++ [now en; bZ (terminated en); Z.of_nat (length (queue en))] ++ flat_map enc_sn_event (queue en).

Definition do_nxop (sc : sn_scn) (s : nw_ * env nfact) (x : nxop) : (nw_ * env nfact) * Z :=
  let ws := wgen (nq_seed sc) (nq_mod sc) in
  let fin (w : nw_) := let '(w1, cs) := flush_n w in
                       match apply_cmds ws (snd s) cs with Ok en => ((w1, en), 0) | Err en => ((w1, en), 1) end in
  match x with
  | NXSet i v => fin (nw_set i v (fst s))
  | NXDeferSet t i v => match apply_cmd ws (snd s) (CSched t P_OTHER_LOW (-5) (ADeferSet i v)) with
                        | Ok en => ((fst s, en), 0) | Err en => ((fst s, en), 1) end
  | NXPart q v => fin (nw_part sc (now (snd s)) q v (fst s))
  | NXCms which => fin (nw_cms which (fst s))
  | NXAddCb which k => fin (nw_addcb which k (fst s))
  | NXInit => fin (nw_init sc (now (snd s)) (fst s))
  | NXStep => match step ws (exec_sn sc) (fun _ => false) s with
              | None => (s, 2) | Some (Ok s') => (s', 0) | Some (Err s') => (s', 1) end
  | NXRun d => match run ws (exec_sn sc) (fun _ => false) 3000 d s with
               | None => (s, 3) | Some (Ok s') => (s', 0) | Some (Err s') => (s', 1) end
  end.

Fixpoint run_nxops (sc : sn_scn) (s : nw_ * env nfact) (xs : list nxop) (acc : list (list Z)) : list (list Z) :=
  match xs with
  | [] => rev acc
  | x :: xs' =>
    let '(s', st) := do_nxop sc s x in
    run_nxops sc s' xs' (([-777; st] ++ enc_sn_state s') :: acc)
  end.

Definition run_fam_sensor (input : list Z) : list Z :=
  let sc := decode_sn_scn input in
  let w0 := mkNW [0; 0; 0] (new_sensor (nq_cap sc) (nq_nprobes sc)) (new_sensor (nq_ocap sc) 2) [] [] [] in
  concat (run_nxops sc (w0, init_env) (nq_ext sc) []).
