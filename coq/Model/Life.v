(** C20, late creation: what a constructor chain and the initialiser do, as sequences of the
    operations in tools/pyfacts.py's statement IR (coq/Gen/Facts.v: class_ir, meta_ir).

    The only thing that differs between creating an asset before the first simulate() and creating it
    while the simulation is in progress is what the registration call (token "REG") does: in the first
    case it only records the asset and the System runs [initialize] later; in the second it runs
    [initialize] on the spot.  [early] and [late] are the two resulting operation sequences. *)
From Coq Require Import String List Bool Arith.
Import ListNotations.
Open Scope string_scope.

Definition crow := (string * list string * list string * list string * list string)%type.
Definition c_name (r : crow) : string := let '(n, _, _, _, _) := r in n.
Definition c_bases (r : crow) : list string := let '(_, b, _, _, _) := r in b.
Definition c_init (r : crow) : list string := let '(_, _, _, i, _) := r in i.
Definition c_initialize (r : crow) : list string := let '(_, _, _, _, i) := r in i.

Definition mrow := (string * string * list string)%type.

Fixpoint find_cls (tbl : list crow) (n : string) : option crow :=
  match tbl with
  | [] => None
  | r :: tbl' => if c_name r =? n then Some r else find_cls tbl' n
  end.

Fixpoint mem (x : string) (l : list string) : bool :=
  match l with [] => false | y :: l' => (x =? y) || mem x l' end.

Fixpoint dedupe (l : list string) (seen : list string) : list string :=
  match l with
  | [] => []
  | x :: l' => if mem x seen then dedupe l' seen else x :: dedupe l' (x :: seen)
  end.

(** the classes whose methods [super()] reaches, most derived first (depth first, left to right,
    first occurrence kept: the method resolution order for the single-inheritance chains and the one
    mix-in of this code base; checked against Python's own mro by the harness) *)
Fixpoint lin (fuel : nat) (tbl : list crow) (n : string) : list string :=
  match fuel with
  | O => [n]
  | S f => n :: match find_cls tbl n with
                | Some r => flat_map (lin f tbl) (c_bases r)
                | None => []
                end
  end.
Definition mro (tbl : list crow) (n : string) : list string := dedupe (lin 12 tbl n) [].

Definition is_none (ir : list string) : bool := match ir with ["<none>"] => true | _ => false end.

(** a method's operations with every [super().<method>] call replaced by the next definition along the chain *)
Fixpoint expand (fuel : nat) (tbl : list crow) (sel : crow -> list string) (supertok : string) (chain : list string) : list string :=
  match fuel with
  | O => ["<fuel>"]
  | S f =>
    match chain with
    | [] => []
    | c :: rest =>
      match find_cls tbl c with
      | None => expand f tbl sel supertok rest
      | Some row =>
        if is_none (sel row) then expand f tbl sel supertok rest
        else flat_map (fun tok => if tok =? supertok then expand f tbl sel supertok rest else [tok]) (sel row)
      end
    end
  end.

Definition raw_ctor (tbl : list crow) (c : string) : list string := expand 20 tbl c_init "SUPER:__init__" (mro tbl c).
Definition init_ops (tbl : list crow) (c : string) : list string := expand 20 tbl c_initialize "SUPER:initialize" (mro tbl c).

(** code a metaclass' __call__ runs after the whole constructor chain *)
Fixpoint after_tok (t : string) (l : list string) : list string :=
  match l with [] => [] | x :: l' => if x =? t then l' else after_tok t l' end.
Fixpoint find_meta (meta : list mrow) (chain : list string) : list string :=
  match chain with
  | [] => []
  | c :: rest =>
    match find (fun m => let '(n, _, _) := m in n =? c) meta with
    | Some (_, _, ir) => after_tok "SUPER:__call__" ir
    | None => find_meta meta rest
    end
  end.
Definition raw_post (tbl : list crow) (meta : list mrow) (c : string) : list string := find_meta meta (mro tbl c).

Definition raw_create (tbl : list crow) (meta : list mrow) (c : string) : list string := raw_ctor tbl c ++ raw_post tbl meta c.

Definition subst_reg (onreg : list string) (l : list string) : list string :=
  flat_map (fun t => if t =? "REG" then onreg else [t]) l.

(** created while the simulation is in progress: registration initialises on the spot *)
Definition late (tbl : list crow) (meta : list mrow) (c : string) : list string :=
  subst_reg ("REG" :: init_ops tbl c) (raw_create tbl meta c).
(** created before the first simulate(): registration only records; the System initialises later *)
Definition early (tbl : list crow) (meta : list mrow) (c : string) : list string :=
  subst_reg ["REG"] (raw_create tbl meta c) ++ init_ops tbl c.

(** operations with an effect on, or a dependence on, the object's state *)
Definition prefix2 (t : string) : string := substring 0 2 t.
Definition effectful (t : string) : bool :=
  (prefix2 t =? "A:") || (prefix2 t =? "R:") || (prefix2 t =? "G:") || (prefix2 t =? "O:") ||
  (substring 0 5 t =? "CALL:") || (substring 0 4 t =? "EXT:") || (substring 0 6 t =? "SUPER:") || (t =? "RAISE") || (t =? "<fuel>").
Definition effects (l : list string) : list string := filter effectful l.

(** the static condition: exactly one registration, and nothing with an effect after it *)
Fixpoint split_reg (l : list string) : option (list string * list string) :=
  match l with
  | [] => None
  | x :: l' => if x =? "REG" then Some ([], l')
               else match split_reg l' with Some (a, b) => Some (x :: a, b) | None => None end
  end.
Definition late_safe (tbl : list crow) (meta : list mrow) (c : string) : bool :=
  match split_reg (raw_create tbl meta c) with
  | Some (_, suf) => negb (mem "REG" suf) && match effects suf with [] => true | _ => false end
  | None => false
  end.

Definition is_asset (tbl : list crow) (r : crow) : bool := mem "Asset" (mro tbl (c_name r)).
Definition all_late_safe (tbl : list crow) (meta : list mrow) : bool :=
  forallb (fun r => negb (is_asset tbl r) || late_safe tbl meta (c_name r)) tbl.
