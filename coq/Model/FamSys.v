(** Family F_sys: sequences of system creations, asset creations (before, between and during runs),
    simulate calls and look-ups on the real System. *)
From Coq Require Import ZArith List Bool Lia.
From SimVerif Require Import Model.Base Model.FamEnv Model.Sys.
Import ListNotations.
Open Scope Z_scope.

Definition sop_of_tuple (tp : tup8) : option sop :=
  let '(op, a, b, c, d, e, _, _) := tp in
  if op =? 1 then Some SNew
  else if op =? 2 then Some (SAsset a b (negb (c =? 0)))
  else if op =? 3 then Some (SSim (Z.to_nat a))
  else if op =? 4 then Some (SFind (Z.to_nat a) b c d e)
  else if op =? 5 then Some (SAdd (Z.to_nat a))
  else if op =? 6 then Some (SLate (Z.to_nat a) b c)
  else None.

Definition enc_sys (s : sysrec) : list Z := bZ (s_inited s) :: Z.of_nat (length (s_assets s)) :: map Z.of_nat (s_assets s).
Definition enc_asset (a : asset) : list Z :=
  [a_kind a; Z.of_nat (a_inits a); match a_env a with Some i => Z.of_nat i | None => -1 end].

Definition enc_reg (g : reg) : list Z :=
  [-777; g_err g; Z.of_nat (length (g_systems g)); match g_active g with Some i => Z.of_nat i | None => -1 end]
  ++ flat_map enc_sys (g_systems g)
  ++ [Z.of_nat (length (g_assets g))] ++ flat_map enc_asset (g_assets g)
  ++ [Z.of_nat (length (g_found g))] ++ map Z.of_nat (g_found g).

Fixpoint run_sops (g : reg) (os : list sop) : list Z :=
  match os with
  | [] => []
  | o :: os' => let g' := run_sop g o in enc_reg g' ++ run_sops g' os'
  end.

Definition run_fam_sys (input : list Z) : list Z :=
  run_sops init_reg (flat_map (fun tp => match sop_of_tuple tp with Some o => [o] | None => [] end) (chunk8 input)).
