(** Family F_floor: whole production lines (devices, groups, resources, maintainers, scripted
    user operations) inside the real Environment. *)
From Coq Require Import ZArith List Bool Lia.
From RecordUpdate Require Import RecordUpdate.
From SimVerif Require Import Model.Base Model.Env Model.FamEnv Model.RM Model.Maint Model.FloorTypes Model.Floor.
Import ListNotations.
Open Scope Z_scope.

Inductive fxop :=
| FXInit | FXStep | FXRun (d : Z)
| FXAt (t : Z) (k : nat) (prio : Z)       (* schedule user script k as an event *)
| FXNow (o : uop)                         (* a call made between events *)
| FXLate (d : Z) (ups : list Z).          (* Device(upstream=ups) constructed between events, while the simulation is in progress *)

Record fl_scn := mkFlScn {
  fq_seed : Z; fq_mod : Z;
  fq_world : fw;
  fq_uops : list (list uop);
  fq_ext : list fxop }.

Definition kind_of_code (c : Z) : kind :=
  if c =? 0 then KPfc else if c =? 1 then KGate else if c =? 2 then KHandler else if c =? 3 then KProcessor
  else if c =? 4 then KBuffer else if c =? 5 then KSource else if c =? 6 then KSink else if c =? 7 then KBatcher
  else if c =? 8 then KGroupPath else if c =? 9 then KGroupIn else KGroupOut.

Definition code_of_kind (k : kind) : Z :=
  match k with KPfc => 0 | KGate => 1 | KHandler => 2 | KProcessor => 3 | KBuffer => 4 | KSource => 5 | KSink => 6
             | KBatcher => 7 | KGroupPath => 8 | KGroupIn => 9 | KGroupOut => 10 end.

Definition decider_of_code (c a : Z) : decider :=
  if c =? 0 then DAlways else if c =? 1 then DNever else if c =? 2 then DQualityGe a else if c =? 3 then DQualityLt a
  else if c =? 4 then DValueGe a else if c =? 5 then DValueLt a else if c =? 6 then DIdEven else DIdOdd.

Definition cbop_of_code (c a b e : Z) : cbop :=
  if c =? 0 then CbSetCycle a else if c =? 1 then CbOffsetNext a else if c =? 2 then CbPartAddValue a
  else if c =? 3 then CbPartSetQuality a else if c =? 4 then CbCreateWO a b e else if c =? 5 then CbCreateWOIfFailure a b
  else CbLog a.

Definition nz (l : list Z) : list Z := filter (fun z => negb (z =? 0)) l.

Definition uop_of_code (c a b e : Z) : uop :=
  if c =? 0 then UShutdown a else if c =? 1 then URestore a else if c =? 2 then UFailAt a b
  else if c =? 3 then UBlock a (negb (b =? 0)) else if c =? 4 then UAdjust a b else if c =? 5 then UAddRes a b
  else if c =? 7 then UOffset a b
  else if c =? 8 then URewire a (nz [b; e])
  else UCreateWO a b e.

Definition capz (z : Z) : inf := if z <? 0 then None else Some z.

(** PartFlowController.set_upstream at construction time (no environment yet: no notifications) *)
Definition connect (w : fw) (d : Z) (ups : list Z) : fw :=
  let old := d_up (getd w d) in
  let w1 := fold_left (fun w0 u => updd w0 u (fun x => x <| d_down ::= filter (fun z => negb (z =? d)) |>)) old w in
  let w2 := updd w1 d (fun x => x <| d_up := ups |>) in
  fold_left (fun w0 u => updd w0 u (fun x => if existsb (Z.eqb d) (d_down x) then x else x <| d_down ::= fun l => l ++ [d] |>)) ups w2.

Definition new_dev (w : fw) (x : dev) : fw * Z :=
  let id := f_next_id w + 1 in (w <| f_next_id := id |> <| f_devs ::= fun l => l ++ [(id, x)] |>, id).


Fixpoint add_uop (i : nat) (o : uop) (s : list (list uop)) : list (list uop) :=
  match i, s with
  | O, [] => [[o]]
  | O, x :: s' => (x ++ [o]) :: s'
  | S i', [] => [] :: add_uop i' o []
  | S i', x :: s' => x :: add_uop i' o s'
  end.

Definition mk_req6 (l : list Z) : req :=
  match l with
  | [n1; a1; n2; a2; n3; a3] =>
    (if n1 <? 0 then [] else [(n1, a1)]) ++ (if n2 <? 0 then [] else [(n2, a2)]) ++ (if n3 <? 0 then [] else [(n3, a3)])
  | _ => []
  end.

Definition decode_fl_tuple (sc : fl_scn) (tp : tup8) : fl_scn :=
  let '(op, a, b, c, d, e, f, g) := tp in
  let w := fq_world sc in
  let setw w' := mkFlScn (fq_seed sc) (fq_mod sc) w' (fq_uops sc) (fq_ext sc) in
  let addx x := mkFlScn (fq_seed sc) (fq_mod sc) w (fq_uops sc) (fq_ext sc ++ [x]) in
  if op =? 0 then mkFlScn a b w (fq_uops sc) (fq_ext sc)
  else if op =? 100 then
    let k := kind_of_code a in
    let x0 := blank_dev k in
    let x := match k with
             | KHandler => x0 <| d_cycle := b |>
             | KProcessor => x0 <| d_cycle := b |> <| d_wo_dur := c |> <| d_wo_cap := d |> <| d_wo_cost := e |>
             | KBuffer => x0 <| d_min_delay := b |> <| d_capacity := capz c |>
             | KSource => x0 <| d_cycle := b |> <| d_budget := capz c |> <| d_gen_value := d |> <| d_gen_quality := e |> <| d_gen_batch := f |>
             | KSink => x0 <| d_cycle := b |> <| d_collect := negb (c =? 0) |>
             | KBatcher => x0 <| d_batch_size := capz b |>
             | KGate => x0 <| d_decider := decider_of_code b c |>
             | _ => x0
             end in
    setw (fst (new_dev w x))
  else if op =? 101 then setw (connect w a (nz [b; c; d; e; f; g]))
  else if op =? 102 then
    (* Group(name, devices): input = first device, output = last device *)
    let devs := nz [b; c; d; e; f; g] in
    let '(w1, gi) := new_dev w ((blank_dev KGroupIn) <| d_group := a |>) in
    let w2 := connect w1 (hd 0 devs) [gi] in
    let '(w3, go) := new_dev w2 ((blank_dev KGroupOut) <| d_group := a |>) in
    let w4 := connect w3 go [last devs 0] in
    setw (w4 <| f_groups ::= fun l => l ++ [(a, mkGroup gi go [])] |>)
  else if op =? 103 then
    let '(w1, gp) := new_dev w ((blank_dev KGroupPath) <| d_group := a |>) in
    let w2 := connect w1 gp (nz [b; c; d; e; f; g]) in
    setw (w2 <| f_groups ::= fun l => match aget a l with
                                      | Some gr => aset a (mkGroup (g_in gr) (g_out gr) (g_paths gr ++ [gp])) l
                                      | None => l end |>)
  else if op =? 108 then
    (* a device constructed later (FXLate): declared under the reserved key 1000 + a, no id taken yet, not connected *)
    let k := kind_of_code b in
    let x0 := (blank_dev k) <| d_live := false |> in
    let x := match k with
             | KHandler => x0 <| d_cycle := c |>
             | KProcessor => x0 <| d_cycle := c |> <| d_wo_dur := d |> <| d_wo_cap := e |> <| d_wo_cost := f |>
             | KBuffer => x0 <| d_min_delay := c |> <| d_capacity := capz d |>
             | KSink => x0 <| d_cycle := c |> <| d_collect := negb (d =? 0) |>
             | KBatcher => x0 <| d_batch_size := capz c |>
             | KGate => x0 <| d_decider := decider_of_code c d |>
             | _ => x0
             end in
    setw (w <| f_devs ::= fun l => l ++ [(1000 + a, x)] |>)
  else if op =? 107 then setw (updd w a (fun x => x <| d_gen_pattern := map (fun c0 => c0 - 2) (nz [b; c; d; e; f; g]) |>))
  else if op =? 104 then setw (updd w a (fun x => x <| d_req := Some (mk_req6 [b; c; d; e; f; g]) |>))
  else if op =? 105 then
    let o := cbop_of_code c d e f in
    setw (updd w a (fun x => if b =? 0 then x <| d_on_receive ::= fun l => l ++ [o] |>
                             else if b =? 1 then x <| d_on_finish ::= fun l => l ++ [o] |>
                             else if b =? 2 then x <| d_on_shutdown ::= fun l => l ++ [o] |>
                             else x <| d_on_restore ::= fun l => l ++ [o] |>))
  else if op =? 106 then
    let id := f_next_id w + 1 in
    setw (w <| f_next_id := id |> <| f_maints ::= fun l => l ++ [(id, init_mst (capz a) b)] |>)
  else if op =? 20 then setw (w <| f_rm ::= add_resources 0 a b |>)
  else if op =? 110 then mkFlScn (fq_seed sc) (fq_mod sc) w (add_uop (Z.to_nat a) (uop_of_code b c d e) (fq_uops sc)) (fq_ext sc)
  else if op =? 111 then addx (FXAt a (Z.to_nat b) c)
  else if op =? 112 then addx FXInit
  else if op =? 113 then addx (FXNow (uop_of_code a b c d))
  else if op =? 114 then addx (FXLate a (nz [b; c; d]))
  else if op =? 14 then addx FXStep
  else if op =? 15 then addx (FXRun a)
  else sc.

Definition empty_fw : fw := mkFw [] [] init_rs [] 0 [] [] 0.

Definition decode_fl_scn (l : list Z) : fl_scn :=
  fold_left decode_fl_tuple (chunk8 l) (mkFlScn 0 1 empty_fw [] []).

(** * well-formed initial worlds: a decidable condition (what the scenario decoder builds from generated scenarios);
    the theorems of Proofs/FloorReach.v hold for every scenario that passes it *)
Definition is_none {X} (o : option X) : bool := match o with None => true | Some _ => false end.

Definition pristine (x : dev) : bool :=
  is_none (d_part x) && is_none (d_out x) && is_none (d_inprog x) && is_none (d_reserved x) && is_none (d_last_use x) &&
  negb (d_shut x) && negb (is_none (d_last_restore x)) &&
  (match d_buf x with [] => true | _ => false end) && (d_level x =? 0) &&
  (match d_vhist x with [] => true | _ => false end) && (d_value x =? 0) && (d_cost_produced x =? 0) && (d_value_received x =? 0) &&
  (match d_batch_size x with None => true | Some n => 1 <=? n end) &&
  (match d_capacity x with None => true | Some c => 0 <=? c end) &&
  (match d_budget x with None => true | Some b => d_produced x <=? b end).

Fixpoint nodupb (l : list Z) : bool :=
  match l with [] => true | x :: l' => negb (existsb (Z.eqb x) l') && nodupb l' end.

Definition rm_fresh (s : rs) : bool :=
  (match r_res s with [] => true | _ => false end) && (match r_slots s with [] => true | _ => false end) &&
  forallb (fun e => (fst (snd e) =? 0) && (0 <=? snd (snd e))) (r_pools s).

(** nothing generated, delivered or lost yet; nothing is downstream of a sink *)
Definition census_fresh (x : dev) : bool :=
  (match d_made x with [] => true | _ => false end) && (match d_delivered x with [] => true | _ => false end) &&
  (match d_lost x with [] => true | _ => false end) &&
  (match d_kind x with KSink => (match d_down x with [] => true | _ => false end) | _ => true end).

Definition wf_worldb (w : fw) : bool :=
  forallb (fun e => pristine (snd e)) (f_devs w) && nodupb (map fst (f_devs w)) && rm_fresh (f_rm w) &&
  forallb (fun e => census_fresh (snd e)) (f_devs w).

(** System._initialize_assets after ResourceManager.initialize: every asset in creation order *)
Definition init_dev (fuel : nat) (nw : Z) (w : fw) (d : Z) : fw :=
  let x := getd w d in
  if is_holder (d_kind x) then
    let w1 := updd w d (fun y => dev_set_wait nw true true y) in
    match d_kind x with
    | KProcessor => updd w1 d (fun y => y <| d_last_restore := Some nw |>)
    | KSource => sched_finish fuel nw w1 d
    | _ => w1
    end
  else w.

Definition init_world (fuel : nat) (nw : Z) (w : fw) : fw :=
  let w1 := rm_call w (rm_initialize nw) in
  fold_left (init_dev fuel nw) (filter (fun d => d_live (getd w1 d)) (map fst (f_devs w1))) w1.

(** a device constructed while the simulation is in progress: [Device(upstream=ups)] between two events.  The constructor takes the
    next asset id, connects the device (the upstream devices are told at once: rewire) and, the system being initialised already,
    the registration initialises it.  Which kinds: everything with an upstream side that is not part of a group.  Initialisation is
    written first: it touches only the new device's own clock fields, which the connection does not read (the lock-step compares
    the whole state after the call). *)
Definition late_kind (k : kind) : bool :=
  match k with KPfc | KGate | KHandler | KProcessor | KBuffer | KSink | KBatcher => true | _ => false end.

Definition t_live (x : dev) : dev := x <| d_live := true |>.

Definition late_create (fuel : nat) (nw : Z) (w : fw) (d : Z) (ups : list Z) : fw :=
  let x := getd w d in
  if d_live x || negb (pristine x) || negb (late_kind (d_kind x)) || negb (amem d (f_devs w))
     || negb (match d_up x, d_down x with [], [] => true | _, _ => false end) then failf w E_ASSERT else
  let w1 := updd (w <| f_next_id := f_next_id w + 1 |>) d t_live in
  rewire fuel nw (init_dev fuel nw w1 d) d ups.

Definition to_cmd_f (c : fcmd) : cmd fact :=
  match c with
  | FSched t p a act => CSched t p a act
  | FData l s d => CData l s d
  | FPause a => CPause a
  | FUnpause a => CUnpause a
  | FCancel a => CCancel a
  end.

Definition flush_f (w : fw) : fw * list (cmd fact) :=
  (w <| f_out := [] |>, map to_cmd_f (rev (f_out w))).

Definition fl_fuel (w : fw) : nat := S (S (length (f_devs w) + length (f_devs w) + length (f_devs w))).

Definition exec_fl (sc : fl_scn) (a : fact) (w : fw) (nw : Z) : fw * list (cmd fact) :=
  flush_f (exec_fact (fl_fuel w) (fun k => nth k (fq_uops sc) []) a w nw).

Definition fl_wfail (w : fw) : bool := negb (f_err w =? 0).

(** * snapshot encoding *)
Definition enc_opt (o : option Z) : list Z := match o with Some z => [1; z] | None => [0; 0] end.
Definition enc_zs (l : list Z) : list Z := Z.of_nat (length l) :: l.

Definition enc_part (p : part) : list Z :=
  [p_id p; p_value p; p_quality p] ++ enc_zs (p_hist p) ++ enc_zs (p_gpath p).

Definition enc_item (it : item) : list Z :=
  match it with
  | ISingle p => [0] ++ enc_part p ++ [0]
  | IBatch b ps => [1] ++ enc_part b ++ [Z.of_nat (length ps)] ++ flat_map enc_part ps
  end.

Definition enc_oitem (o : option item) : list Z := match o with Some it => 1 :: enc_item it | None => [0] end.

Definition enc_dev (id : Z) (x : dev) : list Z :=
  [id; code_of_kind (d_kind x); bZ (d_block x)] ++ enc_opt (d_wait_since x)
  ++ [d_cycle x; d_offset x; bZ (d_waiting_ds x)]
  ++ enc_oitem (d_part x) ++ enc_oitem (d_out x)
  ++ [bZ (d_shut x); match d_reserved x with Some i => Z.of_nat i | None => -1 end; bZ (d_waiting_res x); d_uptime x]
  ++ enc_opt (d_last_restore x) ++ [d_inuse x] ++ enc_opt (d_last_use x)
  ++ [d_level x; Z.of_nat (length (d_buf x))] ++ flat_map (fun e => fst e :: enc_item (snd e)) (d_buf x)
  ++ [match d_budget x with Some b => b | None => -1 end; d_produced x; d_cost_produced x; d_received x; d_value_received x]
  ++ enc_zs (map item_id (d_collected x))
  ++ enc_oitem (d_inprog x)
  ++ [d_value x; Z.of_nat (length (d_vhist x))] ++ flat_map (fun h => let '(l, t, dl, v) := h in [l; t; dl; v]) (d_vhist x)
  ++ enc_zs (d_up x) ++ enc_zs (d_down x).

Definition enc_req_f (r : req) : list Z := Z.of_nat (length r) :: flat_map (fun na => [fst na; snd na]) r.

Definition enc_wo_f (wo : worder) : list Z := [Z.of_nat (wo_id wo); wo_target wo; wo_tag wo; wo_cap wo].

Definition enc_maint (e : Z * mst) : list Z :=
  let m := snd e in
  [fst e; m_util m; m_value m; Z.of_nat (length (m_queue m))] ++ flat_map enc_wo_f (m_queue m)
  ++ [Z.of_nat (length (m_active m))] ++ flat_map enc_wo_f (m_active m).

Definition enc_fact (a : option fact) : list Z :=
  match a with
  | None => [-1; 0]
  | Some (AFinishCycle d) => [1; d]
  | Some (APassPart d) => [2; d]
  | Some (AFail d) => [3; d]
  | Some (AReleaseIfIdle d) => [4; d]
  | Some AResCheck => [5; 0]
  | Some (AMaintAct _ (MStart wo)) => [6; Z.of_nat (wo_id wo)]
  | Some (AMaintAct _ (MFinish wo)) => [7; Z.of_nat (wo_id wo)]
  | Some (AUser k) => [8; Z.of_nat k]
  end.

Definition enc_fl_event (e : event fact) : list Z :=
  [Z.of_nat (e_id e); e_time e; e_prio e; e_w e; e_asset e] ++ enc_fact (e_act e) ++ [bZ (e_cancelled e)].

Definition enc_fw (w : fw) : list Z :=
  let live := filter (fun e => d_live (snd e)) (f_devs w) in
  [f_next_id w; Z.of_nat (length live)] ++ flat_map (fun e => enc_dev (fst e) (snd e)) live
  ++ [Z.of_nat (length (r_pools (f_rm w)))] ++ flat_map (fun p => [fst p; fst (snd p); snd (snd p)]) (r_pools (f_rm w))
  ++ [Z.of_nat (length (r_wait (f_rm w)))] ++ flat_map (fun e => Z.of_nat (we_cb e) :: enc_req_f (we_req e)) (r_wait (f_rm w))
  ++ [Z.of_nat (length (r_res (f_rm w)))] ++ flat_map enc_req_f (r_res (f_rm w))
  ++ [Z.of_nat (length (f_maints w))] ++ flat_map enc_maint (f_maints w)
  ++ [Z.of_nat (length (f_cblog w))] ++ flat_map enc_zs (rev (f_cblog w)).

Definition enc_fl_state (s : fw * env fact) (ndata : nat) : list Z :=
  let en := snd s in
  enc_fw (fst s)
  ++ [now en; bZ (terminated en); Z.of_nat (length (queue en))] ++ flat_map enc_fl_event (queue en)
  ++ [Z.of_nat (length (paused en))] ++ flat_map (fun e => enc_fl_event e ++ enc_opt (e_paused_at e)) (paused en)
  ++ [Z.of_nat (length (datalog en) - ndata)]
  ++ flat_map (fun d => let '(l, sb, p) := d in [l; sb] ++ enc_zs p) (rev (firstn (length (datalog en) - ndata) (datalog en))).

Definition clear_ferr (w : fw) : fw := w <| f_err := 0 |>.

Definition do_fxop (sc : fl_scn) (s : fw * env fact) (x : fxop) : (fw * env fact) * Z :=
  let ws := wgen (fq_seed sc) (fq_mod sc) in
  let nw := now (snd s) in
  let fin (w : fw) :=
    let '(w1, cs) := flush_f w in
    let st := f_err w1 in
    match apply_cmds ws (snd s) cs with
    | Ok en => ((clear_ferr w1, en), st)
    | Err en => ((clear_ferr w1, en), if st =? 0 then 1 else st)
    end in
  let after (r : option (res (fw * env fact))) (deflt : Z) :=
    match r with
    | None => (s, deflt)
    | Some (Ok s') => (s', 0)
    | Some (Err s') => ((clear_ferr (fst s'), snd s'), if f_err (fst s') =? 0 then 1 else f_err (fst s'))
    end in
  match x with
  | FXInit => fin (init_world (fl_fuel (fst s)) nw (fst s))
  | FXNow o => fin (run_uop (fl_fuel (fst s)) nw (fst s) o)
  | FXLate d ups => fin (late_create (fl_fuel (fst s)) nw (fst s) d ups)
  | FXAt t k p => match apply_cmd ws (snd s) (CSched t p (-5) (AUser k)) with
                  | Ok en => ((fst s, en), 0) | Err en => ((fst s, en), 1) end
  | FXStep => after (step ws (exec_fl sc) fl_wfail s) 2
  | FXRun d => after (run ws (exec_fl sc) fl_wfail (Z.to_nat 20000) d s) 3
  end.

Fixpoint run_fxops (sc : fl_scn) (s : fw * env fact) (xs : list fxop) (acc : list (list Z)) : list (list Z) :=
  match xs with
  | [] => rev acc
  | x :: xs' =>
    let nd := length (datalog (snd s)) in
    let '(s', st) := do_fxop sc s x in
    run_fxops sc s' xs' (([-777; st] ++ enc_fl_state s' nd) :: acc)
  end.

Definition run_fam_floor (input : list Z) : list Z :=
  let sc := decode_fl_scn input in
  [-778; bZ (wf_worldb (fq_world sc))] ++ concat (run_fxops sc (fq_world sc, init_env) (fq_ext sc) []).
