(** L0: shared basics — result type, option-infinity arithmetic, lexicographic
    keys, insertion-ordered association maps.  Executable, no proofs that the
    model needs in order to run. *)
From Coq Require Import ZArith List Bool Lia.
Import ListNotations.
Open Scope Z_scope.

(** [Err] carries the state at the point where the Python code raised. *)
Inductive res (X : Type) : Type := Ok (x : X) | Err (x : X).
Arguments Ok {X} x.
Arguments Err {X} x.

Definition res_val {X} (r : res X) : X := match r with Ok x => x | Err x => x end.
Definition is_ok {X} (r : res X) : bool := match r with Ok _ => true | Err _ => false end.

(** Lexicographic strict order on integer keys of equal length. *)
Fixpoint lex_ltb (a b : list Z) : bool :=
  match a, b with
  | x :: a', y :: b' => if x <? y then true else if y <? x then false else lex_ltb a' b'
  | _, _ => false
  end.

(** [None] is +infinity. *)
Definition inf := option Z.
Definition inf_leb (a : Z) (b : inf) : bool :=
  match b with None => true | Some y => a <=? y end.
Definition inf_ltb (a : Z) (b : inf) : bool :=
  match b with None => true | Some y => a <? y end.

(** Insertion-ordered association lists keyed by [Z]. *)
Section AMap.
  Context {V : Type}.
  Fixpoint aget (k : Z) (m : list (Z * V)) : option V :=
    match m with
    | [] => None
    | (k', v) :: m' => if k =? k' then Some v else aget k m'
    end.
  (** replace in place, or append at the back (Python dict insertion order) *)
  Fixpoint aset (k : Z) (v : V) (m : list (Z * V)) : list (Z * V) :=
    match m with
    | [] => [(k, v)]
    | (k', v') :: m' => if k =? k' then (k', v) :: m' else (k', v') :: aset k v m'
    end.
  (** replace an existing binding; unchanged when the key is absent *)
  Fixpoint arepl (k : Z) (v : V) (m : list (Z * V)) : list (Z * V) :=
    match m with
    | [] => []
    | (k', v') :: m' => if k =? k' then (k', v) :: m' else (k', v') :: arepl k v m'
    end.
  Fixpoint adel (k : Z) (m : list (Z * V)) : list (Z * V) :=
    match m with
    | [] => []
    | (k', v') :: m' => if k =? k' then m' else (k', v') :: adel k m'
    end.
  Definition amem (k : Z) (m : list (Z * V)) : bool :=
    match aget k m with Some _ => true | None => false end.
End AMap.

Definition sumZ (l : list Z) : Z := fold_right Z.add 0 l.

Fixpoint chunk6 (l : list Z) : list (Z * Z * Z * Z * Z * Z) :=
  match l with
  | a :: b :: c :: d :: e :: f :: l' => (a, b, c, d, e, f) :: chunk6 l'
  | _ => []
  end.

Definition nth_Z (n : nat) (l : list Z) : Z := nth n l 0.

Definition bZ (b : bool) : Z := if b then 1 else 0.
