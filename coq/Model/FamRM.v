(** Family F_rm: ResourceManager + Environment, scripted callbacks and external calls. *)
From Coq Require Import ZArith List Bool Lia.
From SimVerif Require Import Model.Base Model.Env Model.FamEnv Model.RM.
Import ListNotations.
Open Scope Z_scope.

Inductive rxop :=
| XR (o : rop)
| XInit
| XStep
| XRun (d : Z)
| XDefer (t : Z) (k : nat).

Record rm_scn := mkRmScn {
  rq_seed : Z; rq_mod : Z;
  rq_ext : list rxop;
  rq_cbs : list (list rop);
  rq_def : list (list rop);
  rq_sink : Z * nat }.             (* where decoded rops go: (0,_) external, (1,k) callback k, (2,k) deferred k *)

Definition mk_req (l : list Z) : req :=
  match l with
  | [n1; a1; n2; a2; n3; a3] =>
    (if n1 <? 0 then [] else [(n1, a1)]) ++ (if n2 <? 0 then [] else [(n2, a2)]) ++ (if n3 <? 0 then [] else [(n3, a3)])
  | _ => []
  end.

Fixpoint add_at {X} (i : nat) (x : X) (s : list (list X)) : list (list X) :=
  match i, s with
  | O, [] => [[x]]
  | O, y :: s' => (y ++ [x]) :: s'
  | S i', [] => [] :: add_at i' x []
  | S i', y :: s' => y :: add_at i' x s'
  end.

Definition push_rop (sc : rm_scn) (o : rop) : rm_scn :=
  let '(kind, k) := rq_sink sc in
  if kind =? 1 then mkRmScn (rq_seed sc) (rq_mod sc) (rq_ext sc) (add_at k o (rq_cbs sc)) (rq_def sc) (rq_sink sc)
  else if kind =? 2 then mkRmScn (rq_seed sc) (rq_mod sc) (rq_ext sc) (rq_cbs sc) (add_at k o (rq_def sc)) (rq_sink sc)
  else mkRmScn (rq_seed sc) (rq_mod sc) (rq_ext sc ++ [XR o]) (rq_cbs sc) (rq_def sc) (rq_sink sc).

Definition push_x (sc : rm_scn) (x : rxop) : rm_scn :=
  mkRmScn (rq_seed sc) (rq_mod sc) (rq_ext sc ++ [x]) (rq_cbs sc) (rq_def sc) (rq_sink sc).

Definition decode_rm_tuple (sc : rm_scn) (t : tup8) : rm_scn :=
  let '(op, a, b, c, d, e, f, g) := t in
  if op =? 0 then mkRmScn a b (rq_ext sc) (rq_cbs sc) (rq_def sc) (rq_sink sc)
  else if op =? 20 then push_rop sc (RAdd a b)
  else if op =? 21 then push_rop sc (RReserve a (mk_req [b; c; d; e; f; g]))
  else if op =? 22 then push_rop sc (RReleaseAll a)
  else if op =? 23 then push_rop sc (RRelease a (mk_req [b; c; d; e; f; g]))
  else if op =? 24 then push_rop sc (RMerge a b)
  else if op =? 25 then push_rop sc (RRegister (Z.to_nat a) (mk_req [b; c; d; e; f; g]))
  else if op =? 26 then push_rop sc (RReserveArg a)
  else if op =? 29 then mkRmScn (rq_seed sc) (rq_mod sc) (rq_ext sc) (rq_cbs sc) (rq_def sc) (a, Z.to_nat b)
  else if op =? 14 then push_x sc XStep
  else if op =? 15 then push_x sc (XRun a)
  else if op =? 16 then push_x sc XInit
  else if op =? 17 then push_x sc (XDefer a (Z.to_nat b))
  else sc.

Definition decode_rm_scn (l : list Z) : rm_scn :=
  fold_left decode_rm_tuple (chunk8 l) (mkRmScn 0 1 [] [] [] (0, O)).

Definition rm_fuel : nat := 400.

Definition flush (s : rs) : rs * list (cmd ract) :=
  (mkRs (r_pools s) (r_wait s) (r_res s) (r_slots s) (r_cblog s) [] (r_err s) (r_env s) (r_nreg s), map to_cmd (rev (r_out s))).

Definition exec_rm (sc : rm_scn) (a : ract) (w : rs) (nw : Z) : rs * list (cmd ract) :=
  match a with
  | ACheck => flush (check_pending rm_fuel (fun k => nth k (rq_cbs sc) []) nw 0 w)
  | ADeferred k => flush (run_rops nw [] (nth k (rq_def sc) []) w)
  end.

Definition rm_wfail (w : rs) : bool := negb (r_err w =? 0).

Definition enc_req (r : req) : list Z := Z.of_nat (length r) :: flat_map (fun na => [fst na; snd na]) r.

Definition enc_ract (a : option ract) : Z :=
  match a with None => -1 | Some ACheck => 0 | Some (ADeferred k) => 1 + Z.of_nat k end.

Definition enc_rm_event (e : event ract) : list Z :=
  [Z.of_nat (e_id e); e_time e; e_prio e; e_w e; e_asset e; enc_ract (e_act e)].

Definition enc_rs (s : rs) : list Z :=
  [Z.of_nat (length (r_pools s))] ++ flat_map (fun p => [fst p; fst (snd p); snd (snd p)]) (r_pools s)
  ++ [Z.of_nat (length (r_wait s))] ++ flat_map (fun w => Z.of_nat (we_cb w) :: enc_req (we_req w)) (r_wait s)
  ++ [Z.of_nat (length (r_res s))] ++ flat_map enc_req (r_res s)
  ++ [Z.of_nat (length (r_cblog s))] ++ flat_map (fun c => [Z.of_nat (ce_cb c); ce_time c] ++ enc_req (ce_req c)) (rev (r_cblog s)).

Definition enc_data (d : Z * Z * list Z) : list Z :=
  let '(l, s, p) := d in [l; s; Z.of_nat (length p)] ++ p.

Definition enc_rm_state (s : rs * env ract) (ndata : nat) : list Z :=
  let en := snd s in
  enc_rs (fst s)
  ++ [now en; bZ (terminated en); Z.of_nat (length (queue en))] ++ flat_map enc_rm_event (queue en)
  ++ [Z.of_nat (length (datalog en) - ndata)] ++ flat_map enc_data (rev (firstn (length (datalog en) - ndata) (datalog en))).

Definition clear_err (s : rs) : rs := fail s 0.

Definition do_rxop (sc : rm_scn) (s : rs * env ract) (x : rxop) : (rs * env ract) * Z :=
  let ws := wgen (rq_seed sc) (rq_mod sc) in
  let nw := now (snd s) in
  let finish (w : rs) :=
    let '(w1, cs) := flush w in
    let st := r_err w1 in
    match apply_cmds ws (snd s) cs with
    | Ok en => ((clear_err w1, en), st)
    | Err en => ((clear_err w1, en), if st =? 0 then 1 else st)
    end in
  match x with
  | XR o => finish (run_rop nw [] o (fst s))
  | XInit => finish (rm_initialize nw (fst s))
  | XDefer t k => match apply_cmd ws (snd s) (CSched t P_OTHER_LOW 7 (ADeferred k)) with
                  | Ok en => ((fst s, en), 0) | Err en => ((fst s, en), 1) end
  | XStep => match step ws (exec_rm sc) rm_wfail s with
             | None => (s, 2)
             | Some (Ok s') => (s', 0)
             | Some (Err s') => ((clear_err (fst s'), snd s'), if r_err (fst s') =? 0 then 1 else r_err (fst s'))
             end
  | XRun d => match run ws (exec_rm sc) rm_wfail 2000 d s with
              | None => (s, 3)
              | Some (Ok s') => (s', 0)
              | Some (Err s') => ((clear_err (fst s'), snd s'), if r_err (fst s') =? 0 then 1 else r_err (fst s'))
              end
  end.

Fixpoint run_rxops (sc : rm_scn) (s : rs * env ract) (xs : list rxop) (acc : list (list Z)) : list (list Z) :=
  match xs with
  | [] => rev acc
  | x :: xs' =>
    let nd := length (datalog (snd s)) in
    let '(s', st) := do_rxop sc s x in
    run_rxops sc s' xs' (([-777; st] ++ enc_rm_state s' nd) :: acc)
  end.

Definition run_fam_rm (input : list Z) : list Z :=
  let sc := decode_rm_scn input in
  concat (run_rxops sc (init_rs, init_env) (rq_ext sc) []).
