(** Family F_env: the bare Environment driven by scripted actions and external
    calls.  [run_fam_env : list Z -> list Z] is what the correspondence check
    runs on the model side (extracted, and by vm_compute for a sample). *)
From Coq Require Import ZArith List Bool Lia.
From SimVerif Require Import Model.Base Model.Env.
Import ListNotations.
Open Scope Z_scope.

(** Deterministic weight source shared with the harness (harness/weights.py). *)
Definition wgen (seed m : Z) (n : nat) : Z :=
  let k := Z.of_nat n in
  ((k + seed) * 7919 + k * k * 104729 + seed * seed * 31 + 17) mod (if m <=? 0 then 1 else m).

Inductive cmdT :=
| TSchedRel (dt prio asset : Z) (act : nat)
| TSchedAbs (t prio asset : Z) (act : nat)
| TPause (a : Z) | TUnpause (a : Z) | TCancel (a : Z).

Definition inst (nw : Z) (c : cmdT) : cmd nat :=
  match c with
  | TSchedRel dt p a act => CSched (nw + dt) p a act
  | TSchedAbs t p a act => CSched t p a act
  | TPause a => CPause a
  | TUnpause a => CUnpause a
  | TCancel a => CCancel a
  end.

Definition elog := list (nat * Z).   (* executed (action, time), newest first *)

Definition exec_env (script : list (list cmdT)) (a : nat) (w : elog) (nw : Z) : elog * list (cmd nat) :=
  ((a, nw) :: w, map (inst nw) (nth a script [])).

Inductive xop :=
| OSched (t prio asset : Z) (act : nat)
| OPause (a : Z) | OUnpause (a : Z) | OCancel (a : Z)
| OStep | ORun (d : Z).

Record env_scn := mkEnvScn {
  es_seed : Z; es_mod : Z;
  es_script : list (list cmdT);
  es_ops : list xop }.

Fixpoint add_script (i : nat) (c : cmdT) (s : list (list cmdT)) : list (list cmdT) :=
  match i, s with
  | O, [] => [[c]]
  | O, x :: s' => (x ++ [c]) :: s'
  | S i', [] => [] :: add_script i' c []
  | S i', x :: s' => x :: add_script i' c s'
  end.

Definition tup8 : Type := Z * Z * Z * Z * Z * Z * Z * Z.
Fixpoint chunk8 (l : list Z) : list tup8 :=
  match l with
  | a :: b :: c :: d :: e :: f :: g :: h :: l' => (a, b, c, d, e, f, g, h) :: chunk8 l'
  | _ => []
  end.

Definition decode_env_tuple (sc : env_scn) (t : tup8) : env_scn :=
  let '(op, a, b, c, d, e, _, _) := t in
  let add c' := mkEnvScn (es_seed sc) (es_mod sc) (add_script (Z.to_nat a) c' (es_script sc)) (es_ops sc) in
  let addop o := mkEnvScn (es_seed sc) (es_mod sc) (es_script sc) (es_ops sc ++ [o]) in
  if op =? 0 then mkEnvScn a b (es_script sc) (es_ops sc)
  else if op =? 1 then add (TSchedRel b c d (Z.to_nat e))
  else if op =? 2 then add (TSchedAbs b c d (Z.to_nat e))
  else if op =? 3 then add (TPause b)
  else if op =? 4 then add (TUnpause b)
  else if op =? 5 then add (TCancel b)
  else if op =? 10 then addop (OSched a b c (Z.to_nat d))
  else if op =? 11 then addop (OPause a)
  else if op =? 12 then addop (OUnpause a)
  else if op =? 13 then addop (OCancel a)
  else if op =? 14 then addop OStep
  else if op =? 15 then addop (ORun a)
  else sc.

Definition decode_env_scn (l : list Z) : env_scn :=
  fold_left decode_env_tuple (chunk8 l) (mkEnvScn 0 1 [] []).

Definition optZ (o : option Z) : list Z := match o with Some z => [1; z] | None => [0; 0] end.

Definition enc_event (e : event nat) : list Z :=
  [Z.of_nat (e_id e); e_time e; e_prio e; e_w e; e_asset e;
   match e_act e with Some a => Z.of_nat a | None => -1 end; bZ (e_cancelled e)]
  ++ optZ (e_paused_at e).

Definition enc_env (en : env nat) : list Z :=
  [now en; bZ (terminated en); Z.of_nat (next_eid en); Z.of_nat (length (queue en)); Z.of_nat (length (paused en))]
  ++ flat_map enc_event (queue en) ++ flat_map enc_event (paused en).

Definition enc_elog (w : elog) : list Z :=
  Z.of_nat (length w) :: flat_map (fun p => [Z.of_nat (fst p); snd p]) (rev w).

Definition env_fuel : nat := 5000.

(** status: 0 ok, 1 ValueError, 2 IndexError, 3 out of fuel *)
Definition do_xop (sc : env_scn) (s : elog * env nat) (o : xop) : (elog * env nat) * Z :=
  let ws := wgen (es_seed sc) (es_mod sc) in
  let ex := exec_env (es_script sc) in
  let ext c := match apply_cmd ws (snd s) c with
               | Ok en => ((fst s, en), 0) | Err en => ((fst s, en), 1) end in
  match o with
  | OSched t p a act => ext (CSched t p a act)
  | OPause a => ext (CPause a)
  | OUnpause a => ext (CUnpause a)
  | OCancel a => ext (CCancel a)
  | OStep => match step ws ex (fun _ => false) s with
             | None => (s, 2) | Some (Ok s') => (s', 0) | Some (Err s') => (s', 1) end
  | ORun d => match run ws ex (fun _ => false) env_fuel d s with
              | None => (s, 3) | Some (Ok s') => (s', 0) | Some (Err s') => (s', 1) end
  end.

Fixpoint run_xops (sc : env_scn) (s : elog * env nat) (ops : list xop) (acc : list Z) : list Z :=
  match ops with
  | [] => acc
  | o :: ops' =>
    let '(s', st) := do_xop sc s o in
    run_xops sc s' ops' (acc ++ [-777; st] ++ enc_env (snd s') ++ enc_elog (fst s'))
  end.

Definition run_fam_env (input : list Z) : list Z :=
  let sc := decode_env_scn input in
  run_xops sc ([], init_env) (es_ops sc) [].
