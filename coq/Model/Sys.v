(** C20: simprocesd/model/system.py and asset.py — which system an asset registers with, when it
    is initialised, which system may simulate, and asset look-up.  Assets are identified by their
    creation ordinal (the k-th asset object the scenario created); what a simulation does with the
    assets is the business of the other layers, here [simulate] only initialises. *)
From Coq Require Import ZArith List Bool Lia.
From SimVerif Require Import Model.Base.
Import ListNotations.
Open Scope Z_scope.

Definition S_RUNTIME := 5.    (* RuntimeError *)
Definition S_ASSERT := 6.     (* AssertionError *)

(** class codes and the class hierarchy (checked against class_ir by Tie/TieSys.v) *)
Definition parent (k : Z) : option Z :=
  if k =? 0 then None                       (* Asset *)
  else if k =? 1 then Some 0                (* PartFlowController *)
  else if k =? 2 then Some 1                (* PartHandler *)
  else if (k =? 3) || (k =? 4) || (k =? 5) || (k =? 6) || (k =? 8) then Some 2   (* PartProcessor Buffer Source Sink PartBatcher *)
  else if k =? 7 then Some 1                (* DecisionGate *)
  else if (k =? 9) || (k =? 10) || (k =? 12) || (k =? 13) || (k =? 14) then Some 0   (* Maintainer ActionScheduler Cms Part Sensor *)
  else if k =? 11 then Some 14              (* PeriodicSensor *)
  else None.

Fixpoint is_sub (fuel : nat) (k anc : Z) : bool :=
  (k =? anc) || match fuel with
                | O => false
                | S f => match parent k with Some p => is_sub f p anc | None => false end
                end.

Record asset := mkAsset {
  a_kind : Z; a_name : Z;          (* name code; -1 = default name, unique to the asset *)
  a_inits : nat;                   (* how many times Asset.initialize ran on it *)
  a_env : option nat }.            (* the system whose environment it was initialised with *)

Record sysrec := mkSys { s_assets : list nat; s_inited : bool }.

Record reg := mkReg {
  g_systems : list sysrec;         (* by creation order *)
  g_active : option nat;           (* System._instance *)
  g_assets : list asset;           (* every asset object created, by ordinal *)
  g_err : Z;
  g_found : list nat }.            (* result of the last find_assets *)

Definition init_reg : reg := mkReg [] None [] 0 [].

Definition set_nth {X} (i : nat) (x : X) (l : list X) : list X :=
  firstn i l ++ match skipn i l with [] => [] | _ :: r => x :: r end.

Definition fail_r (g : reg) (e : Z) : reg := mkReg (g_systems g) (g_active g) (g_assets g) e (g_found g).

(** Asset.initialize(env of system i): asserts the asset was never initialised *)
Definition init_asset (i : nat) (o : nat) (g : reg) : reg :=
  match nth_error (g_assets g) o with
  | None => g
  | Some a =>
    match a_env a with
    | Some _ => fail_r g S_ASSERT
    | None => mkReg (g_systems g) (g_active g)
                    (set_nth o (mkAsset (a_kind a) (a_name a) (S (a_inits a)) (Some i)) (g_assets g)) (g_err g) (g_found g)
    end
  end.

(** System.add_asset(asset o) *)
Definition add_asset (o : nat) (g : reg) : reg :=
  match g_active g with
  | None => fail_r g S_RUNTIME
  | Some i =>
    match nth_error (g_systems g) i with
    | None => g
    | Some s =>
      if existsb (Nat.eqb o) (s_assets s) then g
      else
        let g1 := mkReg (set_nth i (mkSys (s_assets s ++ [o]) (s_inited s)) (g_systems g)) (g_active g) (g_assets g) (g_err g) (g_found g) in
        if s_inited s then init_asset i o g1 else g1
    end
  end.

Inductive sop :=
| SNew
| SAsset (kind name : Z) (transitory : bool)
| SSim (i : nat)
| SLate (i : nat) (kind name : Z)        (* simulate; an event of that run creates the asset *)
| SAdd (o : nat)
| SFind (i : nat) (name id type_ subtype : Z).   (* -1 = filter not given *)

(** the constructor chain followed by registration *)
Definition new_asset (kind name : Z) (transitory : bool) (g : reg) : reg :=
  if transitory then mkReg (g_systems g) (g_active g) (g_assets g ++ [mkAsset kind name 0 None]) (g_err g) (g_found g)
  else match g_active g with
       | None => fail_r g S_RUNTIME      (* the object is never handed to the caller *)
       | Some _ =>
         let o := length (g_assets g) in
         add_asset o (mkReg (g_systems g) (g_active g) (g_assets g ++ [mkAsset kind name 0 None]) (g_err g) (g_found g))
       end.

(** System._initialize_assets: in registration order, stopping at the first failure *)
Fixpoint init_all (i : nat) (os : list nat) (g : reg) : reg :=
  match os with
  | [] => g
  | o :: os' => let g1 := init_asset i o g in if g_err g1 =? 0 then init_all i os' g1 else g1
  end.

Definition simulate (i : nat) (g : reg) : reg :=
  if negb (match g_active g with Some j => Nat.eqb i j | None => false end) then fail_r g S_RUNTIME
  else match nth_error (g_systems g) i with
       | None => fail_r g S_RUNTIME
       | Some s =>
         if s_inited s then g
         else let g1 := init_all i (s_assets s) g in
              if g_err g1 =? 0 then
                mkReg (set_nth i (mkSys (s_assets s) true) (g_systems g1)) (g_active g1) (g_assets g1) (g_err g1) (g_found g1)
              else g1
       end.

Definition matches (g : reg) (name id type_ subtype : Z) (o : nat) : bool :=
  match nth_error (g_assets g) o with
  | None => false
  | Some a =>
    ((name =? -1) || ((name =? a_name a) && negb (a_name a =? -1))) &&
    ((id =? -1) || (id =? Z.of_nat o)) &&
    ((type_ =? -1) || (type_ =? a_kind a)) &&
    ((subtype =? -1) || is_sub 6 (a_kind a) subtype)
  end.

Definition find_assets (i : nat) (name id type_ subtype : Z) (g : reg) : list nat :=
  match nth_error (g_systems g) i with
  | None => []
  | Some s => filter (matches g name id type_ subtype) (s_assets s)
  end.

Definition run_sop (g0 : reg) (o : sop) : reg :=
  let g := mkReg (g_systems g0) (g_active g0) (g_assets g0) 0 [] in
  match o with
  | SNew => mkReg (g_systems g ++ [mkSys [] false]) (Some (length (g_systems g))) (g_assets g) 0 []
  | SAsset k n t => new_asset k n t g
  | SSim i => simulate i g
  | SLate i k n => let g1 := simulate i g in if g_err g1 =? 0 then new_asset k n false g1 else g1
  | SAdd o => if (o <? length (g_assets g))%nat then add_asset o g else g      (* only objects the scenario created *)
  | SFind i n d t s => mkReg (g_systems g) (g_active g) (g_assets g) 0 (find_assets i n d t s g)
  end.
