(** Extraction of the executable model for the correspondence check.
    Directives: those of ExtrOcamlBasic only (bool, option, unit, list, prod,
    sumbool, sumor as OCaml natives; andb/orb inlined).  Z, positive and nat
    stay the extracted inductives. *)
From Coq Require Import ZArith List.
From Coq Require Import ExtrOcamlBasic.
From SimVerif Require Import Model.Base Model.Env Model.FamEnv Model.RM Model.FamRM Model.Maint Model.FamMaint Model.Sched Model.FamSched Model.Sensor Model.FamSensor Model.FloorTypes Model.Floor Model.FamFloor Model.Sys Model.FamSys Model.Line Model.FamLine.
Extraction Language OCaml.
Separate Extraction run_fam_env run_fam_rm run_fam_maint run_fam_sched run_fam_sensor run_fam_floor run_fam_sys run_fam_line.
