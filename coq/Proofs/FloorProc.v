(** Processor state machine facts (C13, C02): what a shut-down processor does not do, idempotence of
    shutdown / restore, and what a failure does to the slots. *)
From Coq Require Import ZArith List Bool Lia.
From RecordUpdate Require Import RecordUpdate.
From SimVerif Require Import Model.Base Model.Env Model.RM Model.Maint Model.FloorTypes Model.Floor.
From SimVerif Require Import Proofs.FloorSteps Proofs.FloorInv.
Import ListNotations.
Open Scope Z_scope.

(** while shut down (maintenance or failure) a processor accepts no part: the offer is refused and
    nothing at all changes *)
Theorem shut_refuses fuel nw w d it :
  d_kind (getd w d) = KProcessor -> d_shut (getd w d) = true -> f_err w = 0 ->
  give (S fuel) nw w d it = (w, false).
Proof.
  intros K S E. cbn [give]. unfold okf. rewrite E. cbn [Z.eqb negb]. rewrite K.
  unfold proc_can_accept, handler_can_accept, operational. rewrite K, S. cbn. reflexivity.
Qed.

(** ... and releases no part: its PASS_PART event does nothing *)
Theorem shut_keeps_output fuel nw w d :
  d_kind (getd w d) = KProcessor -> d_shut (getd w d) = true -> pass_part fuel nw w d = w.
Proof.
  intros K S. unfold pass_part, handler_pass. rewrite K. destruct (d_out (getd w d)); [|reflexivity].
  unfold operational. rewrite K, S. reflexivity.
Qed.

(** repeated shutdown or restore calls are no-ops *)
Theorem shutdown_again_noop nw lost w d : d_shut (getd w d) = true -> shutdown nw false lost w d = w.
Proof. intro S. unfold shutdown. destruct (negb (is_processor (getd w d))); [reflexivity|]. rewrite S. reflexivity. Qed.

Theorem restore_again_noop fuel nw w d : d_shut (getd w d) = false -> restore fuel nw w d = w.
Proof. intro S. unfold restore. destruct (negb (is_processor (getd w d))); [reflexivity|]. rewrite S. reflexivity. Qed.

(** user callbacks invoked with the input part never touch the finished part, the shut flag or the slots' occupancy *)
Lemma run_cbop_frame nw d slot isf lost w o d' :
  d_shut (getd (run_cbop nw d slot isf lost w o) d') = d_shut (getd w d') /\
  (slot = true -> d_out (getd (run_cbop nw d slot isf lost w o) d') = d_out (getd w d')) /\
  ((d_part (getd (run_cbop nw d slot isf lost w o) d') = None) <-> (d_part (getd w d') = None)).
Proof.
  unfold run_cbop. destruct (negb (okf w)); [repeat split; auto|].
  assert (MC : forall m t g, getd (create_wo nw m t g w) d' = getd w d') by (intros; reflexivity).
  destruct o; rewrite ?MC; try (repeat split; auto; fail).
  - rewrite !(getd_updd_field _ w d (t_set_cycle z) d') by reflexivity. repeat split; auto.
  - rewrite !(getd_updd_field _ w d (t_add_offset z) d') by reflexivity. repeat split; auto.
  - destruct (if slot then d_part (getd w d) else d_out (getd w d)) as [i|]; [|repeat split; auto].
    destruct (is_batch i); [unfold failf; destruct (f_err w =? 0); repeat split; auto|].
    rewrite (getd_updd_field d_shut w d _ d') by (intro y; unfold t_map_slot; destruct slot; reflexivity).
    split; [reflexivity|]. split.
    + intros ->. apply (getd_updd_field d_out w d _ d'). reflexivity.
    + rewrite getd_updd. destruct ((d' =? d) && amem d (f_devs w)) eqn:B; [|tauto].
      apply andb_true_iff in B. destruct B as [B _]. apply Z.eqb_eq in B. subst d'.
      unfold t_map_slot. destruct slot; cbn; [|tauto]. destruct (d_part (getd w d)); cbn; split; intro H; congruence.
  - rewrite (getd_updd_field d_shut w d _ d') by (intro y; unfold t_map_slot; destruct slot; reflexivity).
    split; [reflexivity|]. split.
    + intros ->. apply (getd_updd_field d_out w d _ d'). reflexivity.
    + rewrite getd_updd. destruct ((d' =? d) && amem d (f_devs w)) eqn:B; [|tauto].
      apply andb_true_iff in B. destruct B as [B _]. apply Z.eqb_eq in B. subst d'.
      unfold t_map_slot. destruct slot; cbn; [|tauto]. destruct (d_part (getd w d)); cbn; split; intro H; congruence.
  - destruct isf; rewrite ?MC; repeat split; auto.
Qed.

Lemma run_cbops_frame nw d isf lost ops : forall w d',
  d_shut (getd (run_cbops nw d true isf lost ops w) d') = d_shut (getd w d') /\
  d_out (getd (run_cbops nw d true isf lost ops w) d') = d_out (getd w d') /\
  ((d_part (getd (run_cbops nw d true isf lost ops w) d') = None) <-> (d_part (getd w d') = None)).
Proof.
  unfold run_cbops. induction ops as [|o ops IH]; intros w d'; cbn; [tauto|].
  destruct (IH (run_cbop nw d true isf lost w o) d') as [A [B C]].
  destruct (run_cbop_frame nw d true isf lost w o d') as [A' [B' C']].
  rewrite A, B, C. rewrite A', (B' eq_refl), C'. tauto.
Qed.

(** a failure discards exactly the part in process (the input slot is emptied), keeps an already finished
    part, leaves the processor shut down, and writes one failure record carrying the lost part's identity *)
Theorem fail_effect nw w d :
  d_kind (getd w d) = KProcessor -> amem d (f_devs w) = true ->
  let w' := fail nw w d in
  d_part (getd w' d) = None /\ d_out (getd w' d) = d_out (getd w d) /\ d_shut (getd w' d) = true.
Proof.
  intros K M. unfold fail. unfold is_processor. rewrite K. cbn [negb].
  set (lost := match d_part (getd w d) with Some it => item_id it | None => -1 end).
  set (w1 := updd w d (t_fail_clear nw)).
  assert (G1 : getd w1 d = t_fail_clear nw (getd w d)).
  { unfold w1. rewrite getd_updd, Z.eqb_refl, M. reflexivity. }
  set (w2 := release_reserved nw w1 d).
  assert (G2 : d_part (getd w2 d) = None /\ d_out (getd w2 d) = d_out (getd w d) /\ d_shut (getd w2 d) = d_shut (getd w d) /\
               d_kind (getd w2 d) = KProcessor /\ amem d (f_devs w2) = amem d (f_devs w1)).
  { unfold w2, release_reserved. destruct (d_reserved (getd w1 d)).
    - rewrite !(getd_updd_field _ _ d (t_reserved None) d) by reflexivity.
      rewrite (getd_other_fields w1 _ d (proj1 (rm_call_devs w1 _))). rewrite G1. cbn.
      repeat split; auto. rewrite !amem_arepl. rewrite (proj1 (rm_call_devs w1 _)). unfold w1. rewrite amem_updd. reflexivity.
    - rewrite G1. cbn. auto. }
  destruct G2 as [P2 [O2 [S2 [K2 M2]]]].
  set (w3 := data w2 L_FAILURE d [nw; lost]).
  assert (G3 : getd w3 d = getd w2 d) by reflexivity.
  unfold shutdown. fold w3. rewrite G3. unfold is_processor. rewrite K2. cbn [negb].
  assert (M3 : amem d (f_devs w3) = true).
  { change (f_devs w3) with (f_devs w2). rewrite M2. unfold w1. rewrite amem_updd. exact M. }
  destruct (d_shut (getd w2 d)) eqn:SH.
  - destruct (run_cbops_frame nw d true lost (d_on_shutdown (getd w2 d)) (emitf w3 (FCancel d)) d) as [A [B C]].
    change (getd (emitf w3 (FCancel d)) d) with (getd w2 d) in *. rewrite A, B. split; [apply C, P2|]. split; [exact O2|exact SH].
  - match goal with |- context[run_cbops nw d true true lost ?ops ?ww] =>
      destruct (run_cbops_frame nw d true lost ops ww d) as [A [B C]] end.
    match goal with |- context[emitf (updd w3 d (t_shutdown nw)) ?c] =>
      change (getd (emitf (updd w3 d (t_shutdown nw)) c) d) with (getd (updd w3 d (t_shutdown nw)) d) in * end.
    rewrite getd_updd, Z.eqb_refl, M3 in *. cbn [andb] in *. rewrite G3 in *.
    rewrite A, B. split; [apply C; unfold t_shutdown, dev_set_wait; cbn; exact P2|]. split; [unfold t_shutdown, dev_set_wait; cbn; exact O2|reflexivity].
Qed.
