(** Every state the floor system can reach from a well-formed initial world — through System
    initialisation, calls made between events, scheduling of user events, single steps and whole runs,
    whatever the tie-break weights — satisfies the per-device invariants and the resource invariant. *)
From Coq Require Import ZArith List Bool Lia.
From RecordUpdate Require Import RecordUpdate.
From SimVerif Require Import Model.Base Model.Env Model.FamEnv Model.RM Model.Maint Model.FloorTypes Model.Floor Model.FamFloor.
From SimVerif Require Import Proofs.RMInv Proofs.EnvInv Proofs.FloorSteps Proofs.FloorInv Proofs.FloorSys Proofs.FloorRes.
Import ListNotations.
Open Scope Z_scope.

(** all the per-device invariants together *)
Definition AllInv (x : dev) : Prop := SlotInv x /\ BufInv x /\ ValInv x /\ BatchInv x /\ AcctInv x /\ EndValInv x.

Lemma stable_and nw (P Q : dev -> Prop) : stable nw P -> stable nw Q -> stable nw (fun x => P x /\ Q x).
Proof.
  intros [P1 P2] [Q1 Q2]. split.
  - intros g f Pr x G [HP HQ]. split; [eapply P1; eauto|eapply Q1; eauto].
  - intros pid f Hid x [HP HQ]. split; [eapply P2; eauto|eapply Q2; eauto].
Qed.

Lemma stable_AllInv nw : stable nw AllInv.
Proof.
  unfold AllInv.
  apply (stable_and nw SlotInv (fun x => BufInv x /\ ValInv x /\ BatchInv x /\ AcctInv x /\ EndValInv x)); [apply stable_SlotInv|].
  apply (stable_and nw BufInv (fun x => ValInv x /\ BatchInv x /\ AcctInv x /\ EndValInv x)); [apply stable_BufInv|].
  apply (stable_and nw ValInv (fun x => BatchInv x /\ AcctInv x /\ EndValInv x)); [apply stable_ValInv|].
  apply (stable_and nw BatchInv (fun x => AcctInv x /\ EndValInv x)); [apply stable_BatchInv|].
  apply (stable_and nw AcctInv EndValInv); [apply stable_AcctInv|apply stable_EndValInv].
Qed.

Definition GoodW (w : fw) : Prop := DevInv AllInv w /\ HoldW w.

Lemma nodupb_NoDup l : nodupb l = true -> NoDup l.
Proof.
  induction l as [|x l IH]; cbn; intro H; [constructor|]. apply andb_true_iff in H. destruct H as [H1 H2]. constructor; [|apply IH, H2].
  intro Hin. apply negb_true_iff in H1. assert (existsb (Z.eqb x) l = true) by (apply existsb_exists; exists x; split; [exact Hin|apply Z.eqb_refl]). congruence.
Qed.

Lemma is_none_true {X} (o : option X) : is_none o = true -> o = None.
Proof. destruct o; [discriminate|reflexivity]. Qed.

Lemma pristine_facts x : pristine x = true ->
  d_part x = None /\ d_out x = None /\ d_inprog x = None /\ d_reserved x = None /\ d_last_use x = None /\
  d_shut x = false /\ d_last_restore x <> None /\ d_buf x = [] /\ d_level x = 0 /\ d_vhist x = [] /\ d_value x = 0 /\
  d_cost_produced x = 0 /\ d_value_received x = 0 /\
  (forall n, d_batch_size x = Some n -> 1 <= n) /\ (forall c, d_capacity x = Some c -> 0 <= c).
Proof.
  unfold pristine. intro H.
  repeat match type of H with (_ && _) = true => let H2 := fresh "H" in apply andb_true_iff in H; destruct H as [H H2] end.
  repeat split;
    try (apply is_none_true; assumption); try (apply Z.eqb_eq; assumption).
  - apply negb_true_iff. assumption.
  - intro E. rewrite E in *. discriminate.
  - destruct (d_buf x); [reflexivity|discriminate].
  - destruct (d_vhist x); [reflexivity|discriminate].
  - intros n E. rewrite E in *. apply Z.leb_le. assumption.
  - intros c E. rewrite E in *. apply Z.leb_le. assumption.
Qed.

Lemma pristine_AllInv x : pristine x = true -> AllInv x.
Proof.
  intro H. destruct (pristine_facts x H) as [P [O [IP [RV [LU [SH [LR [BF [LV [VH [VA [CP [VR [BS CA]]]]]]]]]]]]]].
  unfold AllInv, SlotInv, BufInv, ValInv, BatchInv, AcctInv, EndValInv.
  split; [destruct (d_kind x); auto|]. split.
  { intros _. rewrite LV, BF, P. unfold buf_count, opt_count. cbn [fold_right]. split; [lia|]. destruct (d_capacity x) as [c|] eqn:E; cbn; [apply Z.leb_le, (CA c eq_refl)|reflexivity]. }
  split; [rewrite VH, VA; cbn; auto|]. split.
  { intros _. destruct (d_batch_size x) as [n|] eqn:E; [|intros it E2; congruence]. split; [apply (BS n eq_refl)|]. split; intros it E2; congruence. }
  split.
  { intros _. rewrite SH, LU, P. split; split; intro X; try discriminate; try congruence. destruct X; congruence. }
  rewrite VA, CP, VR. split; intros _; lia.
Qed.

Lemma rm_fresh_RInv s : rm_fresh s = true -> RInv s /\ forall m, usage (r_pools s) m = 0.
Proof.
  unfold rm_fresh. intro H. apply andb_true_iff in H. destruct H as [H P]. apply andb_true_iff in H. destruct H as [R SL].
  destruct (r_res s) eqn:ER; [|discriminate]. destruct (r_slots s) eqn:ES; [|discriminate].
  rewrite forallb_forall in P.
  assert (U : forall m, usage (r_pools s) m = 0 /\ 0 <= capacity (r_pools s) m).
  { intro m. unfold usage, capacity. destruct (aget m (r_pools s)) as [[u c]|] eqn:G; [|split; lia].
    assert (Hin : In (m, (u, c)) (r_pools s)).
    { clear - G. induction (r_pools s) as [|[k v] l IH]; cbn in *; [discriminate|]. destruct (Z.eqb_spec m k) as [->|N]; [injection G as ->; left; reflexivity|right; apply IH, G]. }
    specialize (P _ Hin). cbn in P. apply andb_true_iff in P. destruct P as [P1 P2]. apply Z.eqb_eq in P1. apply Z.leb_le in P2. auto. }
  split; [|intro m; apply U]. split.
  - intro m. rewrite ER. cbn. apply U.
  - intro m. apply U.
  - rewrite ER. constructor.
  - intros k i. rewrite ES. discriminate.
  - intros k k' i. rewrite ES. discriminate.
Qed.

Theorem wf_world_good w : wf_worldb w = true -> GoodW w.
Proof.
  unfold wf_worldb. intro H. apply andb_true_iff in H. destruct H as [H _]. apply andb_true_iff in H. destruct H as [H RM]. apply andb_true_iff in H. destruct H as [PR ND].
  rewrite forallb_forall in PR. destruct (rm_fresh_RInv _ RM) as [I U]. split.
  - intros d x Hx. apply pristine_AllInv. apply (PR (d, x)). apply aget_In, Hx.
  - apply HoldW_initial; auto.
    + apply nodupb_NoDup, ND.
    + intros e He. specialize (PR e He). apply (pristine_facts _ PR).
Qed.

(** * preservation by everything the driver of a scenario can do *)
Lemma GoodW_same w w' :
  f_devs w' = f_devs w -> f_rm w' = f_rm w -> GoodW w -> GoodW w'.
Proof.
  intros D Rm [A B]. split.
  - intros d x Hx. rewrite D in Hx. apply (A d x Hx).
  - apply (HoldW_same w); auto; rewrite ?Rm; auto. apply B.
Qed.

Lemma GoodW_R n nw w w' : R n nw w w' -> GoodW w -> GoodW w'.
Proof. intros HR [A B]. split; [eapply R_DevInv; [apply stable_AllInv|exact HR|exact A]|eapply R_HoldW; eauto]. Qed.

(** System initialisation *)
Lemma rm_initialize_quiet nw s : rm_quiet s (rm_initialize nw s).
Proof.
  intro I. split; [apply rm_initialize_inv, I|].
  unfold rm_initialize.
  assert (G : forall l s0, r_res (fold_left (fun s n => record nw n s) l s0) = r_res s0 /\ r_pools (fold_left (fun s n => record nw n s) l s0) = r_pools s0).
  { induction l as [|n l IH]; intro s0; cbn; [auto|]. destruct (IH (record nw n s0)) as [A B]. rewrite A, B. auto. }
  destruct (G (map fst (r_pools s)) (set_env s true)) as [A B]. rewrite A, B. auto.
Qed.

Lemma AllInv_init_restore nw x :
  AllInv x -> d_kind x = KProcessor -> d_shut x = false -> AllInv (x <| d_last_restore := Some nw |>).
Proof.
  intros [a [b [c [d [e f]]]]] K S. unfold AllInv, SlotInv, BufInv, ValInv, BatchInv, AcctInv, EndValInv in *. cbn.
  repeat split; try tauto; try (intros; apply b; assumption); try (apply c); try (intros; apply f; assumption).
  - intro X. congruence.
  - intro X. discriminate.
Qed.

Lemma init_dev_good fuel nw w d : GoodW w -> (forall x, aget d (f_devs w) = Some x -> d_kind x = KProcessor -> d_shut x = false) -> GoodW (init_dev fuel nw w d).
Proof.
  intros G NS. unfold init_dev. set (x := getd w d). destruct (is_holder (d_kind x)) eqn:HK; [|exact G].
  set (w1 := updd w d (fun y => dev_set_wait nw true true y)).
  assert (G1 : GoodW w1).
  { eapply (GoodW_R MNeutral); [|exact G]. apply (R_dev nw MNeutral w d _ _ (dp_set_wait nw true true)); [kr|kn|ko|exact I]. }
  destruct (d_kind x) eqn:K; try exact G1.
  - (* processor *)
    destruct G1 as [A B]. split.
    + intros d' y Hy. unfold updd, setd in Hy. cbn in Hy. apply aget_arepl_some in Hy.
      destruct Hy as [[-> [-> M]]|Hy]; [|apply (A d' y Hy)].
      apply amem_some in M. destruct M as [z Hz]. rewrite (getd_some w1 d z Hz).
      assert (KZ : d_kind z = KProcessor /\ d_shut z = false).
      { unfold w1, updd, setd in Hz. cbn in Hz. rewrite aget_arepl in Hz. rewrite Z.eqb_refl in Hz. cbn in Hz.
        destruct (amem d (f_devs w)) eqn:M; [|unfold amem in M; fold x in Hz; destruct (aget d (f_devs w)); discriminate].
        injection Hz as <-. apply amem_some in M. destruct M as [x0 Hx0]. assert (x = x0) by (unfold x; apply getd_some, Hx0). subst x0.
        unfold dev_set_wait. cbn. fold x. destruct (d_wait_since x); cbn; (split; [exact K|apply (NS x Hx0 K)]). }
      apply AllInv_init_restore; [apply (A d z Hz)|apply KZ|apply KZ].
    + apply HoldW_updd; [intro y; split; reflexivity|exact B].
  - (* source *)
    eapply (GoodW_R MNeutral); [apply R_sched_finish|exact G1].
Qed.

(** a device constructed while the simulation is in progress *)
Lemma AllInv_live x : AllInv x -> AllInv (t_live x).
Proof. unfold AllInv, SlotInv, BufInv, ValInv, BatchInv, AcctInv, EndValInv, t_live. cbn. tauto. Qed.

Lemma late_create_good fuel nw w d ups : GoodW w -> GoodW (late_create fuel nw w d ups).
Proof.
  intro G. unfold late_create. set (x := getd w d).
  match goal with |- GoodW (if ?c then _ else _) => destruct c eqn:GD end.
  - apply (GoodW_R MNeutral nw w _ (R_fail nw MNeutral w E_ASSERT) G).
  - apply orb_false_iff in GD. destruct GD as [GD _]. apply orb_false_iff in GD. destruct GD as [GD AM].
    apply orb_false_iff in GD. destruct GD as [GD _]. apply orb_false_iff in GD. destruct GD as [_ PR].
    apply negb_false_iff in PR. apply negb_false_iff in AM.
    set (w0 := w <| f_next_id := f_next_id w + 1 |>).
    assert (G0 : GoodW w0) by (apply (GoodW_same w); [reflexivity|reflexivity|exact G]).
    set (w1 := updd w0 d t_live).
    assert (G1 : GoodW w1).
    { destruct G0 as [A B]. split; [|apply HoldW_updd; [intro y; split; reflexivity|exact B]].
      intros d' y Hy. unfold w1, updd, setd in Hy. cbn in Hy. apply aget_arepl_some in Hy.
      destruct Hy as [[-> [-> M]]|Hy]; [|apply (A d' y Hy)].
      apply amem_some in M. destruct M as [z Hz]. change (getd w0 d) with (getd w d). rewrite (getd_some w d z Hz). apply AllInv_live, (A d z Hz). }
    eapply (GoodW_R MNeutral); [apply R_rewire|]. apply init_dev_good; [exact G1|].
    intros y Hy _. unfold w1, updd, setd in Hy. cbn in Hy. rewrite aget_arepl, Z.eqb_refl in Hy. cbn in Hy.
    change (amem d (f_devs w0)) with (amem d (f_devs w)) in Hy. rewrite AM in Hy. injection Hy as <-.
    change (getd w0 d) with x. unfold t_live. cbn. destruct (pristine_facts x PR) as [_ [_ [_ [_ [_ [SH _]]]]]]. exact SH.
Qed.

(** the clocks of a processor constructed at [nw] start at [nw]: what it reports as uptime and utilisation right after its
    construction is what it had accumulated before (nothing, for a fresh device) — the time before its creation does not count *)
Lemma late_create_clock fuel nw w d ups x :
  GoodW w -> aget d (f_devs w) = Some x -> d_kind x = KProcessor -> d_live x = false -> pristine x = true ->
  d_up x = [] -> d_down x = [] ->
  exists x', aget d (f_devs (late_create fuel nw w d ups)) = Some x' /\ d_kind x' = KProcessor /\
             up_total nw x' = d_uptime x /\ use_total nw x' = d_inuse x.
Proof.
  intros G Hx K L PR U D. unfold late_create. rewrite (getd_some w d x Hx), L, PR, K, U, D.
  assert (AM : amem d (f_devs w) = true) by (unfold amem; rewrite Hx; reflexivity). rewrite AM. cbn [orb negb late_kind].
  set (w0 := w <| f_next_id := f_next_id w + 1 |>). set (w1 := updd w0 d t_live).
  destruct (pristine_facts x PR) as [_ [_ [_ [_ [LU [SH _]]]]]].
  assert (G0 : GoodW w0) by (apply (GoodW_same w); [reflexivity|reflexivity|exact G]).
  assert (X1 : aget d (f_devs w1) = Some (t_live x)).
  { unfold w1, updd, setd. cbn. rewrite aget_arepl, Z.eqb_refl. cbn. change (amem d (f_devs w0)) with (amem d (f_devs w)). rewrite AM.
    change (getd w0 d) with (getd w d). rewrite (getd_some w d x Hx). reflexivity. }
  assert (G1 : GoodW w1).
  { destruct G0 as [A B]. split; [|apply HoldW_updd; [intro y; split; reflexivity|exact B]].
    intros d' y Hy. unfold w1, updd, setd in Hy. cbn in Hy. apply aget_arepl_some in Hy.
    destruct Hy as [[-> [-> M]]|Hy]; [|apply (A d' y Hy)].
    change (getd w0 d) with (getd w d). rewrite (getd_some w d x Hx). apply AllInv_live, (A d x Hx). }
  set (w2 := init_dev fuel nw w1 d).
  assert (G2 : GoodW w2).
  { apply init_dev_good; [exact G1|]. intros y Hy _. rewrite X1 in Hy. injection Hy as <-. exact SH. }
  assert (GX1 : getd w1 d = t_live x) by (apply getd_some, X1).
  assert (KX : d_kind (t_live x) = KProcessor) by exact K.
  assert (AM1 : amem d (f_devs w1) = true) by (unfold amem; rewrite X1; reflexivity).
  assert (GX2 : getd w2 d = dev_set_wait nw true true (t_live x) <| d_last_restore := Some nw |>).
  { unfold w2, init_dev. rewrite GX1, KX. cbn [is_holder]. rewrite getd_updd, Z.eqb_refl, amem_updd, AM1. cbn [andb].
    rewrite getd_updd, Z.eqb_refl, AM1. cbn [andb]. rewrite GX1. reflexivity. }
  assert (AM2 : amem d (f_devs w2) = true) by (unfold w2, init_dev; rewrite GX1, KX; cbn [is_holder]; rewrite !amem_updd; exact AM1).
  assert (X2 : aget d (f_devs w2) = Some (dev_set_wait nw true true (t_live x) <| d_last_restore := Some nw |>)).
  { destruct (amem_some _ _ AM2) as [y2 Hy2]. rewrite <- GX2. rewrite (getd_some w2 d y2 Hy2). exact Hy2. }
  destruct (R_rel nw AcctInv (acct_rel nw)) with (n := MNeutral) (w := w2) (w' := rewire fuel nw w2 d ups) (d := d)
    (x := dev_set_wait nw true true (t_live x) <| d_last_restore := Some nw |>) as [x' [Hx' [K' A']]].
  - intro y. split; [reflexivity|auto].
  - intros y1 y2 y3 [K1 A1] [K2 A2]. split; [congruence|]. intro KK. destruct (A1 KK) as [U1 S1].
    rewrite <- K1 in KK. destruct (A2 KK) as [U2 S2]. split; congruence.
  - apply stable_AcctInv.
  - intros g f Pr y Gy I. apply (acct_prim nw g f Pr y Gy I).
  - intros pid f Hid y _. split; [reflexivity|]. intros _. split; reflexivity.
  - apply R_rewire.
  - intros d' y Hy. exact (proj1 (proj2 (proj2 (proj2 (proj2 (proj1 G2 d' y Hy)))))).
  - exact X2.
  - exists x'. split; [exact Hx'|].
    assert (KK : d_kind (dev_set_wait nw true true (t_live x) <| d_last_restore := Some nw |>) = KProcessor).
    { unfold dev_set_wait, t_live. cbn. destruct (d_wait_since x); cbn; exact K. }
    split; [rewrite K'; exact KK|]. destruct (A' KK) as [UP US]. rewrite UP, US. unfold up_total, use_total, dev_set_wait, t_live. cbn.
    destruct (d_wait_since x); cbn; rewrite ?LU; split; lia.
Qed.

(** initialisation shuts nothing down *)
Lemma sched_pass_shut nw off w d d' : d_shut (getd (sched_pass nw off w d) d') = d_shut (getd w d').
Proof.
  unfold sched_pass. destruct (d_kind (getd w d)); try reflexivity;
    (change (getd (emitf ?a ?c) d') with (getd a d'); apply getd_updd_field; reflexivity).
Qed.

Lemma init_dev_shut fuel nw w d d' : d_shut (getd (init_dev fuel nw w d) d') = d_shut (getd w d').
Proof.
  unfold init_dev. set (x := getd w d). destruct (is_holder (d_kind x)); [|reflexivity].
  set (w1 := updd w d (fun y => dev_set_wait nw true true y)).
  assert (S1 : d_shut (getd w1 d') = d_shut (getd w d')).
  { unfold w1. apply getd_updd_field. intro y. unfold dev_set_wait. cbn. destruct (d_wait_since y); reflexivity. }
  destruct (d_kind x) eqn:K; try exact S1.
  - rewrite <- S1. apply getd_updd_field. reflexivity.
  - (* source: the first cycle *)
    rewrite <- S1. unfold sched_finish.
    set (w2 := updd w1 d t_reset_offset).
    assert (S2 : d_shut (getd w2 d') = d_shut (getd w1 d')) by (apply getd_updd_field; reflexivity).
    assert (K2 : d_kind (getd w2 d) = KSource).
    { unfold w2. rewrite (getd_updd_field d_kind w1 d t_reset_offset d) by reflexivity.
      unfold w1. rewrite (getd_updd_field d_kind w d _ d); [exact K|]. intro y. unfold dev_set_wait. cbn. destruct (d_wait_since y); reflexivity. }
    destruct (_ <=? 0); [|rewrite <- S2; reflexivity].
    rewrite <- S2. unfold finish_cycle. rewrite K2.
    destruct (d_out (getd w2 d)); [apply sched_pass_shut|].
    destruct (generate w2 d) as [w' it] eqn:G. rewrite sched_pass_shut.
    rewrite (getd_updd_field d_shut w' d (t_generated it) d') by reflexivity.
    pose proof (generate_devs w2 d) as [GD _]. rewrite G in GD. cbn in GD. rewrite (getd_other_fields w2 w' d' GD). reflexivity.
Qed.

Definition NoShut (w : fw) : Prop := forall d, d_shut (getd w d) = false.

Lemma init_world_good fuel nw w : GoodW w -> NoShut w -> GoodW (init_world fuel nw w).
Proof.
  intros G NS. unfold init_world. set (w1 := rm_call w (rm_initialize nw)).
  assert (G1 : GoodW w1) by (eapply (GoodW_R MNeutral); [apply (R_rm_quiet nw MNeutral), rm_initialize_quiet|exact G]).
  assert (NS1 : NoShut w1) by (intro d; unfold w1; rewrite (getd_other_fields w _ d (proj1 (rm_call_devs w _))); apply NS).
  generalize (filter (fun d => d_live (getd w1 d)) (map fst (f_devs w1))). intro l. revert G1 NS1. generalize w1. clear.
  induction l as [|d l IH]; intros w G NS; cbn; [exact G|].
  apply IH.
  - apply init_dev_good; [exact G|]. intros x Hx _. rewrite <- (getd_some w d x Hx). apply NS.
  - intro d'. rewrite init_dev_shut. apply NS.
Qed.

Lemma pristine_noshut w : wf_worldb w = true -> NoShut w.
Proof.
  unfold wf_worldb. intro H. apply andb_true_iff in H. destruct H as [H _]. apply andb_true_iff in H. destruct H as [H _]. apply andb_true_iff in H. destruct H as [PR _].
  rewrite forallb_forall in PR. intro d. unfold getd. destruct (aget d (f_devs w)) as [x|] eqn:Hx; [|reflexivity].
  apply aget_In in Hx. specialize (PR _ Hx). apply (pristine_facts _ PR).
Qed.

(** * the whole system *)
Lemma GoodW_flush w : GoodW w -> GoodW (fst (flush_f w)).
Proof. apply GoodW_same; reflexivity. Qed.
Lemma GoodW_clear w : GoodW w -> GoodW (clear_ferr w).
Proof. apply GoodW_same; reflexivity. Qed.

Lemma step_good sc ws s r : GoodW (fst s) -> step ws (exec_fl sc) fl_wfail s = Some r -> GoodW (fst (res_val r)).
Proof.
  intros [A B] H. split.
  - eapply (step_DevInv sc ws AllInv stable_AllInv); eauto.
  - eapply step_HoldW; eauto.
Qed.

Lemma loop_good sc ws fuel : forall s r, GoodW (fst s) -> loop ws (exec_fl sc) fl_wfail fuel s = Some r -> GoodW (fst (res_val r)).
Proof.
  induction fuel as [|f IH]; intros s r G H; cbn in H.
  - destruct (queue (snd s)); [injection H as <-; exact G|]. destruct (terminated (snd s)); [injection H as <-; exact G|discriminate].
  - destruct (queue (snd s)) eqn:Q; [injection H as <-; exact G|]. destruct (terminated (snd s)); [injection H as <-; exact G|].
    destruct (step ws (exec_fl sc) fl_wfail s) as [[s'|s']|] eqn:ST.
    + apply (IH s' r); [apply (step_good sc ws s (Ok s') G ST)|exact H].
    + injection H as <-. apply (step_good sc ws s (Err s') G ST).
    + injection H as <-. exact G.
Qed.

Lemma run_good sc ws fuel d s r : GoodW (fst s) -> run ws (exec_fl sc) fl_wfail fuel d s = Some r -> GoodW (fst (res_val r)).
Proof.
  intros G H. unfold run in H. destruct (start_run ws (snd s) d) as [en|en]; [|injection H as <-; exact G].
  eapply loop_good; [|exact H]. exact G.
Qed.

(** one driver operation other than initialisation *)
Theorem do_fxop_good sc s x : GoodW (fst s) -> (x = FXInit -> NoShut (fst s)) -> GoodW (fst (fst (do_fxop sc s x))).
Proof.
  intros G NI. unfold do_fxop.
  set (ws := wgen (fq_seed sc) (fq_mod sc)).
  assert (FIN : forall w, GoodW w ->
     GoodW (fst (fst (let '(w1, cs) := flush_f w in
                      match apply_cmds ws (snd s) cs with
                      | Ok en => ((clear_ferr w1, en), f_err w1)
                      | Err en => ((clear_ferr w1, en), if f_err w1 =? 0 then 1 else f_err w1)
                      end)))).
  { intros w Gw. pose proof (GoodW_flush w Gw) as Gf. destruct (flush_f w) as [w1 cs]. cbn [fst] in Gf.
    destruct (apply_cmds ws (snd s) cs); cbn; apply GoodW_clear, Gf. }
  destruct x.
  - apply FIN. apply init_world_good; [exact G|apply NI; reflexivity].
  - destruct (step ws (exec_fl sc) fl_wfail s) as [[s'|s']|] eqn:ST; cbn.
    + apply (step_good sc ws s (Ok s') G ST).
    + apply GoodW_clear. apply (step_good sc ws s (Err s') G ST).
    + exact G.
  - destruct (run ws (exec_fl sc) fl_wfail (Z.to_nat 20000) d s) as [[s'|s']|] eqn:RN; cbn.
    + apply (run_good sc ws _ d s (Ok s') G RN).
    + apply GoodW_clear. apply (run_good sc ws _ d s (Err s') G RN).
    + exact G.
  - destruct (apply_cmd ws (snd s) (CSched t prio (-5) (AUser k))); cbn; exact G.
  - apply FIN. eapply (GoodW_R MNeutral); [apply R_run_uop|exact G].
  - apply FIN. apply late_create_good, G.
Qed.

(** the states a scenario can reach: initialisation of a well-formed world, then any operations *)
Inductive reach_fl (sc : fl_scn) : fw * env fact -> Prop :=
| rf_init : wf_worldb (fq_world sc) = true -> reach_fl sc (fst (do_fxop sc (fq_world sc, init_env) FXInit))
| rf_op s x : reach_fl sc s -> x <> FXInit -> reach_fl sc (fst (do_fxop sc s x)).

Theorem reach_good sc s : reach_fl sc s -> GoodW (fst s).
Proof.
  induction 1 as [WF|s x _ IH NX].
  - apply do_fxop_good; [apply wf_world_good, WF|intros _; apply pristine_noshut, WF].
  - apply do_fxop_good; [exact IH|intro E; contradiction].
Qed.

(** projections, for the property statements *)
Lemma reach_dev sc s d x : reach_fl sc s -> aget d (f_devs (fst s)) = Some x ->
  SlotInv x /\ BufInv x /\ ValInv x /\ BatchInv x /\ AcctInv x /\ EndValInv x.
Proof. intros H Hx. destruct (reach_good sc s H) as [A _]. exact (A d x Hx). Qed.

Lemma reach_hold sc s : reach_fl sc s -> HoldW (fst s).
Proof. intro H. exact (proj2 (reach_good sc s H)). Qed.

(** * the same closure argument for any invariant that reads the devices only *)
Section Closure.
  Variable Inv : fw -> Prop.
  Hypothesis Inv_same : forall w w', f_devs w' = f_devs w -> f_next_id w' = f_next_id w -> Inv w -> Inv w'.
  Hypothesis Inv_exec : forall nw fuel uops a w, Inv w -> Inv (exec_fact fuel uops a w nw).
  Hypothesis Inv_uop : forall fuel nw w o, Inv w -> Inv (run_uop fuel nw w o).
  Hypothesis Inv_init : forall fuel nw w, wf_worldb w = true -> Inv (init_world fuel nw w).
  Hypothesis Inv_late : forall fuel nw w d ups, Inv w -> Inv (late_create fuel nw w d ups).

  Lemma step_Inv sc ws s r : Inv (fst s) -> step ws (exec_fl sc) fl_wfail s = Some r -> Inv (fst (res_val r)).
  Proof.
    destruct s as [w en]. cbn [fst]. intros I H. unfold step in H.
    destruct (queue en) as [|e q]; [discriminate|].
    destruct (e_cancelled e); [injection H as <-; exact I|].
    destruct (e_act e) as [a|]; [|injection H as <-; exact I].
    unfold exec_fl in H.
    set (w1 := exec_fact (fl_fuel w) (fun k => nth k (fq_uops sc) []) a w (e_time e)) in *.
    assert (I1 : Inv w1) by (apply Inv_exec; exact I).
    assert (I2 : Inv (fst (flush_f w1))) by (apply (Inv_same w1); [reflexivity|reflexivity|exact I1]).
    destruct (flush_f w1) as [w2 cs] eqn:FL. cbn [fst] in I2.
    destruct (apply_cmds ws _ cs); [destruct (fl_wfail w2)|]; injection H as <-; cbn; exact I2.
  Qed.

  Lemma loop_Inv sc ws fuel : forall s r, Inv (fst s) -> loop ws (exec_fl sc) fl_wfail fuel s = Some r -> Inv (fst (res_val r)).
  Proof.
    induction fuel as [|f IH]; intros s r G H; cbn in H.
    - destruct (queue (snd s)); [injection H as <-; exact G|]. destruct (terminated (snd s)); [injection H as <-; exact G|discriminate].
    - destruct (queue (snd s)) eqn:Q; [injection H as <-; exact G|]. destruct (terminated (snd s)); [injection H as <-; exact G|].
      destruct (step ws (exec_fl sc) fl_wfail s) as [[s'|s']|] eqn:ST.
      + apply (IH s' r); [apply (step_Inv sc ws s (Ok s') G ST)|exact H].
      + injection H as <-. apply (step_Inv sc ws s (Err s') G ST).
      + injection H as <-. exact G.
  Qed.

  Lemma do_fxop_Inv sc s x : Inv (fst s) -> x <> FXInit -> Inv (fst (fst (do_fxop sc s x))).
  Proof.
    intros G NI. unfold do_fxop. set (ws := wgen (fq_seed sc) (fq_mod sc)).
    assert (FIN : forall w, Inv w ->
       Inv (fst (fst (let '(w1, cs) := flush_f w in
                      match apply_cmds ws (snd s) cs with
                      | Ok en => ((clear_ferr w1, en), f_err w1)
                      | Err en => ((clear_ferr w1, en), if f_err w1 =? 0 then 1 else f_err w1)
                      end)))).
    { intros w Gw. assert (Gf : Inv (fst (flush_f w))) by (apply (Inv_same w); [reflexivity|reflexivity|exact Gw]).
      destruct (flush_f w) as [w1 cs]. cbn [fst] in Gf.
      destruct (apply_cmds ws (snd s) cs); cbn; (apply (Inv_same w1); [reflexivity|reflexivity|exact Gf]). }
    destruct x.
    - contradiction.
    - destruct (step ws (exec_fl sc) fl_wfail s) as [[s'|s']|] eqn:ST; cbn.
      + apply (step_Inv sc ws s (Ok s') G ST).
      + apply (Inv_same (fst s')); [reflexivity|reflexivity|]. apply (step_Inv sc ws s (Err s') G ST).
      + exact G.
    - unfold run. destruct (start_run ws (snd s) d) as [en|en].
      + match goal with |- context[loop ?a ?b ?c ?n ?st] => destruct (loop a b c n st) as [[s'|s']|] eqn:RN end; cbn [fst].
        * apply (loop_Inv sc ws _ (fst s, en) (Ok s') G RN).
        * apply (Inv_same (fst s')); [reflexivity|reflexivity|]. apply (loop_Inv sc ws _ (fst s, en) (Err s') G RN).
        * exact G.
      + cbn [fst]. apply (Inv_same (fst s)); [reflexivity|reflexivity|exact G].
    - destruct (apply_cmd ws (snd s) (CSched t prio (-5) (AUser k))); cbn; exact G.
    - apply FIN. apply Inv_uop, G.
    - apply FIN. apply Inv_late, G.
  Qed.

  Theorem reach_Inv sc s : reach_fl sc s -> Inv (fst s).
  Proof.
    induction 1 as [WF|s x _ IH NX].
    - unfold do_fxop. cbn [fst snd].
      assert (G : Inv (init_world (fl_fuel (fq_world sc)) (now (init_env (A:=fact))) (fq_world sc))) by (apply Inv_init, WF).
      set (w0 := init_world _ _ _) in *.
      assert (Gf : Inv (fst (flush_f w0))) by (apply (Inv_same w0); [reflexivity|reflexivity|exact G]).
      destruct (flush_f w0) as [w1 cs]. cbn [fst] in Gf.
      destruct (apply_cmds _ _ cs); cbn; (apply (Inv_same w1); [reflexivity|reflexivity|exact Gf]).
    - apply do_fxop_Inv; assumption.
  Qed.
End Closure.
