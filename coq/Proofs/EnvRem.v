(** C06 / C07, for every action behaviour: timers count operational time.

    The REMAINING DELAY of a live (uncancelled) event is its time minus the clock while it is pending, and its time minus the
    instant it was paused while it is paused.  Whatever the actions do, one [step] takes exactly the elapsed time off the
    remaining delay of every event that was pending, and nothing off an event that was paused — unless the event is cancelled;
    and an event is dispatched exactly when its remaining delay is zero.  Pausing and resuming (any number of times, also within
    one action) never change a remaining delay: the time an asset spends paused is added on top of its timers, never lost. *)
From Coq Require Import ZArith List Bool Lia Sorting.Permutation.
From SimVerif Require Import Model.Base Model.Env Proofs.EnvInv.
Import ListNotations.
Open Scope Z_scope.

Section Rem.
  Variables (A W : Type) (wsrc : nat -> Z) (exec : A -> W -> Z -> W * list (cmd A)) (wfail : W -> bool).
  Notation env := (env A).
  Notation event := (event A).

  (** event number [i] is live with remaining delay [r] *)
  Definition Rem (en : env) (i : nat) (r : Z) : Prop :=
    (exists e, In e (queue en) /\ e_id e = i /\ e_cancelled e = false /\ r = e_time e - now en) \/
    (exists e p, In e (paused en) /\ e_id e = i /\ e_cancelled e = false /\ e_paused_at e = Some p /\ r = e_time e - p).

  (** a record of event number [i] is flagged cancelled *)
  Definition Cancelled (en : env) (i : nat) : Prop :=
    exists e, In e (queue en ++ paused en) /\ e_id e = i /\ e_cancelled e = true.

  Lemma in_fold_insort (g : event -> event) hit q x :
    In x (fold_left (fun q e => insort (g e) q) hit q) <-> In x q \/ In x (map g hit).
  Proof.
    split; intro H.
    - apply (Permutation_in _ (fold_insort_perm A g hit q)) in H. apply in_app_or in H. exact H.
    - apply (Permutation_in _ (Permutation_sym (fold_insort_perm A g hit q))). apply in_or_app. exact H.
  Qed.

  (** one environment call at a fixed instant: a live event keeps its remaining delay, or is cancelled *)
  Lemma cmd_rem (en en' : env) c i r :
    apply_cmd wsrc en c = Ok en' -> Rem en i r -> Rem en' i r \/ Cancelled en' i.
  Proof.
    intros H R. destruct c as [t p a act|a|a|a|l s d]; cbn in H.
    - unfold schedule in H. destruct (t <? now en); [discriminate|]. injection H as <-. left.
      destruct R as [[e [He [I [C E]]]]|[e [p0 [He [I [C [P E]]]]]]].
      + left. exists e. cbn. split; [apply (insort_in A); right; exact He|auto].
      + right. exists e, p0. cbn. auto.
    - injection H as <-.
      destruct R as [[e [He [I [C E]]]]|[e [p0 [He [I [C [P E]]]]]]].
      + left. destruct (matches a e) eqn:M.
        * right. exists (stamp (now en) e), (now en). cbn. split; [|auto].
          apply in_or_app. right. apply in_map, filter_In. auto.
        * left. exists e. cbn. split; [apply filter_In; rewrite M; auto|auto].
      + left. right. exists e, p0. cbn. split; [apply in_or_app; left; exact He|auto].
    - injection H as <-.
      destruct R as [[e [He [I [C E]]]]|[e [p0 [He [I [C [P E]]]]]]].
      + left. left. exists e. cbn. split; [apply in_fold_insort; left; exact He|auto].
      + left. destruct (matches a e) eqn:M.
        * left. exists (resumed (now en) e). cbn. split; [apply in_fold_insort; right; apply in_map, filter_In; auto|].
          split; [exact I|]. split; [exact C|]. unfold resume_time. rewrite P. lia.
        * right. exists e, p0. cbn. split; [apply filter_In; rewrite M; auto|auto].
    - injection H as <-.
      destruct R as [[e [He [I [C E]]]]|[e [p0 [He [I [C [P E]]]]]]].
      + destruct (matches a e) eqn:M.
        * right. exists (cancel_ev e). cbn. split; [apply in_or_app; left; apply in_map_iff; exists e; rewrite M; auto|auto].
        * left. left. exists e. cbn. split; [apply in_map_iff; exists e; rewrite M; auto|auto].
      + destruct (matches a e) eqn:M.
        * right. exists (cancel_ev e). cbn. split; [apply in_or_app; right; apply in_map_iff; exists e; rewrite M; auto|auto].
        * left. right. exists e, p0. cbn. split; [apply in_map_iff; exists e; rewrite M; auto|auto].
    - injection H as <-. left. exact R.
  Qed.

  (** the cancelled flag stays *)
  Lemma cmd_cancelled (en en' : env) c i : apply_cmd wsrc en c = Ok en' -> Cancelled en i -> Cancelled en' i.
  Proof.
    intros H [e [He [I C]]]. apply in_app_or in He. destruct c as [t p a act|a|a|a|l s d]; cbn in H.
    - unfold schedule in H. destruct (t <? now en); [discriminate|]. injection H as <-. exists e. cbn. split; [|auto].
      apply in_or_app. destruct He as [He|He]; [left; apply (insort_in A); right; exact He|right; exact He].
    - injection H as <-. destruct He as [He|He].
      + destruct (matches a e) eqn:M.
        * exists (stamp (now en) e). cbn. split; [|auto]. apply in_or_app. right. apply in_or_app. right. apply in_map, filter_In. auto.
        * exists e. cbn. split; [|auto]. apply in_or_app. left. apply filter_In. rewrite M. auto.
      + exists e. cbn. split; [|auto]. apply in_or_app. right. apply in_or_app. left. exact He.
    - injection H as <-. destruct He as [He|He].
      + exists e. cbn. split; [|auto]. apply in_or_app. left. apply in_fold_insort. left. exact He.
      + destruct (matches a e) eqn:M.
        * exists (resumed (now en) e). cbn. split; [|auto]. apply in_or_app. left. apply in_fold_insort. right. apply in_map, filter_In. auto.
        * exists e. cbn. split; [|auto]. apply in_or_app. right. apply filter_In. rewrite M. auto.
    - injection H as <-. exists (if matches a e then cancel_ev e else e). cbn.
      split; [|destruct (matches a e); cbn; auto].
      apply in_or_app. destruct He as [He|He]; [left|right]; apply in_map_iff; exists e; auto.
    - injection H as <-. exists e. cbn. split; [apply in_or_app; exact He|auto].
  Qed.

  Lemma cmds_cancelled cs : forall (en en' : env) i, apply_cmds wsrc en cs = Ok en' -> Cancelled en i -> Cancelled en' i.
  Proof.
    induction cs as [|c cs IH]; intros en en' i H C; cbn in H; [injection H as <-; exact C|].
    destruct (apply_cmd wsrc en c) as [en1|en1] eqn:E; [|discriminate].
    apply (IH en1 en' i H (cmd_cancelled en en1 c i E C)).
  Qed.

  Lemma cmds_rem cs : forall (en en' : env) i r,
    apply_cmds wsrc en cs = Ok en' -> Rem en i r -> Rem en' i r \/ Cancelled en' i.
  Proof.
    induction cs as [|c cs IH]; intros en en' i r H R; cbn in H; [injection H as <-; auto|].
    destruct (apply_cmd wsrc en c) as [en1|en1] eqn:E; [|discriminate].
    destruct (cmd_rem en en1 c i r E R) as [R1|C1]; [apply (IH en1 en' i r H R1)|].
    right. apply (cmds_cancelled cs en1 en' i H C1).
  Qed.

  (** * one step of the simulation *)
  (** an event that is pending and not the one dispatched: the elapsed time comes off its remaining delay *)
  Theorem step_pending w (en : env) e0 q w' en' e :
    queue en = e0 :: q -> step wsrc exec wfail (w, en) = Some (Ok (w', en')) ->
    In e q -> e_cancelled e = false ->
    Rem en' (e_id e) ((e_time e - now en) - (now en' - now en)) \/ Cancelled en' (e_id e).
  Proof.
    intros Q ST He C. unfold step in ST. rewrite Q in ST.
    set (en1 := mkEnv (e_time e0) q (paused en) (next_eid en) (terminated en) (e0 :: dispatched en) (datalog en)) in *.
    assert (R1 : Rem en1 (e_id e) (e_time e - e_time e0)) by (left; exists e; cbn; auto).
    destruct (e_cancelled e0).
    - injection ST as <- <-. left. cbn. replace (e_time e - now en - (e_time e0 - now en)) with (e_time e - e_time e0) by lia. exact R1.
    - destruct (e_act e0) as [a|].
      + destruct (exec a w (e_time e0)) as [w1 cs]. destruct (apply_cmds wsrc en1 cs) as [en2|en2] eqn:AC; [|discriminate].
        destruct (wfail w1); [discriminate|]. injection ST as <- <-.
        assert (N2 : now en2 = e_time e0).
        { clear R1. revert en1 AC. generalize (e_time e0). intros t0 en1. revert en1.
          assert (G : forall cs0 (ena enb : env), apply_cmds wsrc ena cs0 = Ok enb -> now enb = now ena).
          { induction cs0 as [|c cs0 IH]; intros ena enb H; cbn in H; [injection H as <-; reflexivity|].
            destruct (apply_cmd wsrc ena c) as [enc|enc] eqn:E; [|discriminate]. rewrite (IH enc enb H).
            destruct c as [t p a0 act|a0|a0|a0|l s d]; cbn in E; try (injection E as <-; reflexivity).
            unfold schedule in E. destruct (t <? now ena); [discriminate|]. injection E as <-. reflexivity. }
          intros en1 AC. rewrite (G cs en1 en2 AC). reflexivity. }
        rewrite N2. replace (e_time e - now en - (e_time e0 - now en)) with (e_time e - e_time e0) by lia.
        apply (cmds_rem cs en1 en2 _ _ AC R1).
      + injection ST as <- <-. left. cbn. replace (e_time e - now en - (e_time e0 - now en)) with (e_time e - e_time e0) by lia.
        destruct R1 as [[x Hx]|[x [p Hx]]]; [left; exists x; exact Hx|right; exists x, p; exact Hx].
  Qed.

  (** an event that is paused: nothing comes off *)
  Theorem step_paused w (en : env) w' en' e p :
    step wsrc exec wfail (w, en) = Some (Ok (w', en')) ->
    In e (paused en) -> e_cancelled e = false -> e_paused_at e = Some p ->
    Rem en' (e_id e) (e_time e - p) \/ Cancelled en' (e_id e).
  Proof.
    intros ST He C P. unfold step in ST. destruct (queue en) as [|e0 q] eqn:Q; [discriminate|].
    set (en1 := mkEnv (e_time e0) q (paused en) (next_eid en) (terminated en) (e0 :: dispatched en) (datalog en)) in *.
    assert (R1 : Rem en1 (e_id e) (e_time e - p)) by (right; exists e, p; cbn; auto).
    destruct (e_cancelled e0).
    - injection ST as <- <-. left. exact R1.
    - destruct (e_act e0) as [a|].
      + destruct (exec a w (e_time e0)) as [w1 cs]. destruct (apply_cmds wsrc en1 cs) as [en2|en2] eqn:AC; [|discriminate].
        destruct (wfail w1); [discriminate|]. injection ST as <- <-. apply (cmds_rem cs en1 en2 _ _ AC R1).
      + injection ST as <- <-. left. destruct R1 as [[x Hx]|[x [p0 Hx]]]; [left; exists x; exact Hx|right; exists x, p0; exact Hx].
  Qed.

  (** the event that is dispatched had no delay left at that instant *)
  Theorem step_dispatch_time w (en : env) e0 q w' en' :
    queue en = e0 :: q -> step wsrc exec wfail (w, en) = Some (Ok (w', en')) -> now en' = e_time e0.
  Proof.
    intros Q ST. unfold step in ST. rewrite Q in ST.
    set (en1 := mkEnv (e_time e0) q (paused en) (next_eid en) (terminated en) (e0 :: dispatched en) (datalog en)) in *.
    assert (G : forall cs0 (ena enb : env), apply_cmds wsrc ena cs0 = Ok enb -> now enb = now ena).
    { induction cs0 as [|c cs0 IH]; intros ena enb H; cbn in H; [injection H as <-; reflexivity|].
      destruct (apply_cmd wsrc ena c) as [enc|enc] eqn:E; [|discriminate]. rewrite (IH enc enb H).
      destruct c as [t p a0 act|a0|a0|a0|l s d]; cbn in E; try (injection E as <-; reflexivity).
      unfold schedule in E. destruct (t <? now ena); [discriminate|]. injection E as <-. reflexivity. }
    destruct (e_cancelled e0); [injection ST as <- <-; reflexivity|].
    destruct (e_act e0) as [a|]; [|injection ST as <- <-; reflexivity].
    destruct (exec a w (e_time e0)) as [w1 cs]. destruct (apply_cmds wsrc en1 cs) as [en2|en2] eqn:AC; [|discriminate].
    destruct (wfail w1); [discriminate|]. injection ST as <- <-. apply (G cs en1 en2 AC).
  Qed.

  (** pausing and resuming at any instants leave the remaining delay alone *)
  Theorem pause_rem (en : env) a i r : Rem en i r -> Rem (pause en a) i r.
  Proof.
    intros [[e [He [I [C E]]]]|[e [p0 [He [I [C [P E]]]]]]].
    - destruct (matches a e) eqn:M.
      + right. exists (stamp (now en) e), (now en). cbn. split; [|auto].
        apply in_or_app. right. apply in_map, filter_In. auto.
      + left. exists e. cbn. split; [apply filter_In; rewrite M; auto|auto].
    - right. exists e, p0. cbn. split; [apply in_or_app; left; exact He|auto].
  Qed.
  Theorem unpause_rem (en : env) a i r : Rem en i r -> Rem (unpause en a) i r.
  Proof.
    intros [[e [He [I [C E]]]]|[e [p0 [He [I [C [P E]]]]]]].
    - left. exists e. cbn. split; [apply in_fold_insort; left; exact He|auto].
    - destruct (matches a e) eqn:M.
      + left. exists (resumed (now en) e). cbn. split; [apply in_fold_insort; right; apply in_map, filter_In; auto|].
        split; [exact I|]. split; [exact C|]. unfold resume_time. rewrite P. lia.
      + right. exists e, p0. cbn. split; [apply filter_In; rewrite M; auto|auto].
  Qed.
End Rem.
