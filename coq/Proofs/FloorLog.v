(** C15: the decomposition under which the link between the devices and the DATA LOG survives step by step.
    The link: a source's produced-parts counter is the number of its supplied-part records (plus its initial value), and the
    last recorded level of a buffer is its level.  Steps: device transformers that leave both counters alone ([lsafe]);
    environment calls other than supplied/level records ([lemit_ok]); batches of such calls with the devices untouched (the
    resource manager's and the maintainers': their records carry other labels, proved below); and three compound steps —
    the counter change together with its record. *)
From Coq Require Import ZArith List Bool Lia.
From RecordUpdate Require Import RecordUpdate.
From SimVerif Require Import Model.Base Model.Env Model.RM Model.Maint Model.FloorTypes Model.Floor Model.FamFloor.
From SimVerif Require Import Proofs.RMInv Proofs.FloorSteps Proofs.FloorLink.
Import ListNotations.
Open Scope Z_scope.

Definition lsafe (f : dev -> dev) : Prop :=
  forall x, d_produced (f x) = d_produced x /\ d_level (f x) = d_level x /\ d_value_received (f x) = d_value_received x /\ d_kind (f x) = d_kind x /\
            d_accepts (f x) = d_accepts x.
Definition lemit_ok (c : fcmd) : Prop := match c with FData l _ _ => l <> L_SUPPLIED /\ l <> L_LEVEL /\ l <> L_RECEIVED | _ => True end.

Inductive lstep (nw : Z) : fw -> fw -> Prop :=
| l_dev w d f : lsafe f -> lstep nw w (updd w d f)
| l_emit w c : lemit_ok c -> lstep nw w (emitf w c)
| l_quiet w w' : f_devs w' = f_devs w -> (exists l, f_out w' = l ++ f_out w /\ Forall lemit_ok l) -> (okf w' = true -> okf w = true) -> lstep nw w w'
| l_dead w w' : okf w' = false -> lstep nw w w'
| l_everywhere w pid f : lstep nw w (upd_part_everywhere pid f w)
| l_supplied w d v id : amem d (f_devs w) = true -> lstep nw w (data (updd w d (t_supplied nw v)) L_SUPPLIED d [nw; id])
| l_accept_buffer w d it1 : d_kind (getd w d) = KBuffer ->
    lstep nw w (rec_part (let w' := updd w d (t_accept_buffer nw it1) in data w' L_LEVEL d [nw; d_level (getd w' d)]) L_RECEIVED d nw it1)
| l_buf_pop w d :
    lstep nw w (let w2 := updd w d (t_buf_pop nw) in data w2 L_LEVEL d [nw; d_level (getd w2 d)])
| l_accept w d f it1 :
    (let x := getd w d in let x' := getd (updd w d f) d in
     d_kind x' = d_kind x /\ d_produced x' = d_produced x /\ d_level x' = d_level x /\
     (amem d (f_devs w) = true -> d_accepts x' = 1 + d_accepts x) /\
     (d_kind x = KSink -> d_value_received x' = item_value it1 + d_value_received x)) ->
    lstep nw w (rec_part (updd w d f) L_RECEIVED d nw it1).

Inductive RL (nw : Z) : fw -> fw -> Prop :=
| RL_refl w : RL nw w w
| RL_step w1 w2 w3 : lstep nw w1 w2 -> RL nw w2 w3 -> RL nw w1 w3.

(** * the records of the resource manager and of the maintainers carry their own labels *)
Definition rlab (s : rs) : Prop := Forall (fun c => match c with RData l _ _ => l = L_RESOURCE_UPDATE | _ => True end) (r_out s).

Lemma rlab_emit s c : (match c with RData l _ _ => l = L_RESOURCE_UPDATE | _ => True end) -> rlab s -> rlab (emit s c).
Proof. intros H L. unfold rlab, emit. cbn. constructor; assumption. Qed.
Lemma rlab_record nw n s : rlab s -> rlab (record nw n s).
Proof. apply rlab_emit. reflexivity. Qed.
Lemma rlab_check nw s : rlab s -> rlab (sched_check nw s).
Proof. apply rlab_emit. exact I. Qed.
Lemma rlab_same s s' : r_out s' = r_out s -> rlab s -> rlab s'.
Proof. unfold rlab. intros ->. auto. Qed.

Lemma rlab_add nw n a s : rlab s -> rlab (add_resources nw n a s).
Proof.
  intro L. unfold add_resources. destruct (a =? 0); [exact L|]. cbv zeta.
  match goal with |- context[if negb (r_err ?s1 =? 0) then _ else _] => assert (L1 : rlab s1) end.
  { destruct (aget n (r_pools s)) as [[u c]|]; [destruct (_ && _)|destruct (a <? 0)]; apply (rlab_same s); auto. }
  match goal with |- context[if negb (r_err ?s1 =? 0) then _ else _] => destruct (negb (r_err s1 =? 0)); [exact L1|]; destruct (r_env s1); [|exact L1] end.
  apply rlab_check, rlab_record, L1.
Qed.

Lemma rlab_take nw r : forall s, rlab s -> rlab (take nw r s).
Proof.
  induction r as [|[n a] r IH]; intros s L; cbn [take]; [exact L|]. destruct (a =? 0); [apply IH, L|].
  destruct (aget n (r_pools s)) as [[u c]|]; [|apply (rlab_same s); auto]. apply IH, rlab_record. apply (rlab_same s); auto.
Qed.
Lemma rlab_give_back nw r : forall s, rlab s -> rlab (give_back nw r s).
Proof.
  induction r as [|[n a] r IH]; intros s L; cbn [give_back]; [exact L|]. destruct (a =? 0); [apply IH, L|].
  destruct (aget n (r_pools s)) as [[u c]|]; [|apply (rlab_same s); auto]. apply IH, rlab_record. apply (rlab_same s); auto.
Qed.

Lemma rlab_reserve nw r s : rlab s -> rlab (fst (reserve nw r s)).
Proof.
  intro L. unfold reserve. destruct (can_fulfill _ _); [|exact L]. destruct (has_negative r); [apply (rlab_same s); auto|].
  cbv zeta. destruct (negb _); cbn [fst]; [apply rlab_take, L|]. eapply rlab_same; [|apply (rlab_take nw r s L)]. reflexivity.
Qed.
Lemma rlab_register nw cb r s : rlab s -> rlab (register nw cb r s).
Proof. intro L. unfold register. apply rlab_check. apply (rlab_same s); auto. Qed.
Lemma rlab_release_resources nw r s : rlab s -> rlab (release_resources nw r s).
Proof. intro L. unfold release_resources. cbv zeta. destruct (negb _); [apply rlab_give_back, L|apply rlab_check, rlab_give_back, L]. Qed.
Lemma rlab_release_obj nw i s : rlab s -> rlab (release_obj nw i None s).
Proof.
  intro L. unfold release_obj. cbv zeta. destruct (negb _); [apply rlab_release_resources, L|].
  eapply rlab_same; [|apply (rlab_release_resources nw (nth i (r_res s) []) s L)]. reflexivity.
Qed.
Lemma rlab_initialize nw s : rlab s -> rlab (rm_initialize nw s).
Proof.
  intro L. unfold rm_initialize. assert (L0 : rlab (set_env s true)) by (apply (rlab_same s); auto).
  revert L0. generalize (set_env s true). induction (map fst (r_pools s)) as [|n l IH]; intros s0 L0; cbn; [exact L0|]. apply IH, rlab_record, L0.
Qed.

Lemma rlab_lemit l : Forall (fun c => match c with RData lb _ _ => lb = L_RESOURCE_UPDATE | _ => True end) l -> Forall lemit_ok (map conv_rcmd l).
Proof.
  induction 1 as [|c l H _ IH]; cbn; constructor; [|exact IH]. destruct c as [t p a [|k]|lb sb pl]; cbn; try exact I.
  rewrite H. repeat split; discriminate.
Qed.

Definition mlab (m : mst) : Prop :=
  Forall (fun c => match c with MData l _ => l = L_ENTER_QUEUE \/ l = L_START_WORK \/ l = L_FINISH_WORK | _ => True end) (m_out m).
Lemma mlab_same m m' : m_out m' = m_out m -> mlab m -> mlab m'.
Proof. unfold mlab. intros ->. auto. Qed.
Lemma mlab_record nw l wo m : (l = L_ENTER_QUEUE \/ l = L_START_WORK \/ l = L_FINISH_WORK) -> mlab m -> mlab (m_record nw l wo m).
Proof. intros H L. unfold mlab, m_record, m_emit. cbn. constructor; assumption. Qed.
Lemma try_pass_lab nw cap q : forall util active out,
  Forall (fun c => match c with MData l _ => l = L_ENTER_QUEUE \/ l = L_START_WORK \/ l = L_FINISH_WORK | _ => True end) out ->
  Forall (fun c => match c with MData l _ => l = L_ENTER_QUEUE \/ l = L_START_WORK \/ l = L_FINISH_WORK | _ => True end)
         (snd (try_pass nw cap q util active out)).
Proof.
  induction q as [|wo q IH]; intros util active out L; cbn [try_pass]; [exact L|].
  destruct (_ && _).
  - apply IH. constructor; [exact I|exact L].
  - specialize (IH util active out L). destruct (try_pass nw cap q util active out) as [[[kept u] a] o]. exact IH.
Qed.
Lemma mlab_try nw m : mlab m -> mlab (m_try nw m).
Proof.
  intro L. unfold m_try. pose proof (try_pass_lab nw (m_capacity m) (m_queue m) (m_util m) (m_active m) (m_out m) L) as X.
  destruct (try_pass _ _ _ _ _ _) as [[[kept u] a] o]. exact X.
Qed.
Lemma mlab_create nw t g capv info m : mlab m -> mlab (fst (m_create nw t g capv info m)).
Proof.
  intro L. unfold m_create. destruct (is_requested m t g); [exact L|]. cbn [fst]. apply mlab_try.
  eapply mlab_same; [|apply (mlab_record nw L_ENTER_QUEUE (mkWO (m_next m) t g capv info) m (or_introl eq_refl) L)]. reflexivity.
Qed.
Lemma mlab_start_pre nw wo c m : mlab m -> mlab (m_start_pre nw wo c m).
Proof.
  intro L. unfold m_start_pre, m_add_cost. destruct (c =? 0); [apply mlab_record; auto|].
  eapply mlab_same; [|apply (mlab_record nw L_START_WORK wo m (or_intror (or_introl eq_refl)) L)]. reflexivity.
Qed.
Lemma mlab_start_post nw wo dv m : mlab m -> mlab (m_start_post nw wo dv m).
Proof. intro L. unfold m_start_post, mlab, m_emit. cbn. constructor; [exact I|exact L]. Qed.
Lemma mlab_finish_post nw wo m : mlab m -> mlab (m_finish_post nw wo m).
Proof. intro L. unfold m_finish_post. apply mlab_try, mlab_record; [auto|]. apply (mlab_same m); auto. Qed.

Lemma mlab_lemit mid l :
  Forall (fun c => match c with MData lb _ => lb = L_ENTER_QUEUE \/ lb = L_START_WORK \/ lb = L_FINISH_WORK | _ => True end) l ->
  Forall lemit_ok (map (conv_mcmd mid) l).
Proof.
  induction 1 as [|c l H _ IH]; cbn; constructor; [|exact IH]. destruct c as [t p a|lb pl]; cbn; [exact I|].
  destruct H as [->|[->| ->]]; repeat split; discriminate.
Qed.

Ltac kl :=
  let x := fresh "x" in
  intro x;
  unfold t_accept_sink, t_accept_proc, t_accept, t_shutdown, t_restore, t_buf_store, t_map_slot, t_finish_proc, t_fail_clear, t_stop_use,
         t_finish, t_generated, t_clear_out, t_clear_part, t_batch_single, t_batch_full, t_batch_more, t_reserved,
         t_waiting_res, t_waiting_ds, t_set_cycle, t_add_offset, t_reset_offset, t_block, t_budget, dev_set_wait, dev_add_value;
  cbv zeta;
  repeat match goal with
         | |- context[if ?b then _ else _] => destruct b
         | |- context[match d_wait_since ?y with _ => _ end] => destruct (d_wait_since y)
         | |- context[match d_part ?y with _ => _ end] => destruct (d_part y)
         end;
  repeat split; reflexivity.

Section Log.
Variable nw : Z.
Notation RL := (RL nw).

Lemma RL_trans a b c : RL a b -> RL b c -> RL a c.
Proof. induction 1 as [|w1 w2 w3 S _ IH]; intro Hbc; [exact Hbc|]. econstructor; [exact S|apply IH, Hbc]. Qed.
Lemma RL_one a b : lstep nw a b -> RL a b.
Proof. intro H. econstructor; [exact H|constructor]. Qed.
Lemma RL_dev w d f : lsafe f -> RL w (updd w d f).
Proof. intros. apply RL_one. econstructor; eauto. Qed.
Lemma RL_emit w c : lemit_ok c -> RL w (emitf w c).
Proof. intro Q. apply RL_one, l_emit, Q. Qed.
Lemma RL_sched w t p a act : RL w (emitf w (FSched t p a act)).
Proof. apply RL_emit. exact I. Qed.
Lemma RL_pause w a : RL w (emitf w (FPause a)).
Proof. apply RL_emit. exact I. Qed.
Lemma RL_unpause w a : RL w (emitf w (FUnpause a)).
Proof. apply RL_emit. exact I. Qed.
Lemma RL_cancel w a : RL w (emitf w (FCancel a)).
Proof. apply RL_emit. exact I. Qed.
Lemma RL_data w l s p : l <> L_SUPPLIED -> l <> L_LEVEL -> l <> L_RECEIVED -> RL w (data w l s p).
Proof. intros A B C. apply RL_emit. repeat split; assumption. Qed.
Lemma RL_fail w e : RL w (failf w e).
Proof.
  apply RL_one, l_quiet.
  - unfold failf. destruct (f_err w =? 0); reflexivity.
  - exists []. split; [|constructor]. unfold failf. destruct (f_err w =? 0); reflexivity.
  - unfold failf, okf. destruct (f_err w =? 0) eqn:E; [auto|rewrite E; auto].
Qed.
Lemma RL_same w w' : f_devs w' = f_devs w -> f_out w' = f_out w -> f_err w' = f_err w -> RL w w'.
Proof.
  intros D O E. apply RL_one, l_quiet; [exact D|exists []; split; [exact O|constructor]|unfold okf; rewrite E; auto].
Qed.
Lemma RL_fold {X} (F : fw -> X -> fw) (l : list X) : (forall w x, RL w (F w x)) -> forall w, RL w (fold_left F l w).
Proof. intros H. induction l as [|x l IH]; intro w; cbn; [constructor|]. eapply RL_trans; [apply H|apply IH]. Qed.

Ltac Lt := first [apply RL_refl | apply RL_fail | (apply RL_data; discriminate) | apply RL_sched | apply RL_pause | apply RL_unpause | apply RL_cancel].
Ltac ldev w0 d0 f0 := apply (RL_trans w0 (updd w0 d0 f0)); [apply (RL_dev w0 d0 f0); kl|].

Lemma rlab_clean s : rlab (clean_rs s).
Proof. constructor. Qed.

Lemma RL_rm_call w f : rlab (f (clean_rs (f_rm w))) -> RL w (rm_call w f).
Proof.
  intro LB. destruct (rm_call_quiet_facts w f) as [A [_ C]]. apply RL_one, l_quiet; [exact A| |exact C].
  unfold rm_call. cbv zeta. match goal with |- context[map conv_rcmd ?l] => exists (map conv_rcmd l) end.
  split; [destruct (_ =? 0); [reflexivity|]; unfold failf; destruct (_ =? 0); reflexivity|]. apply rlab_lemit, LB.
Qed.

Lemma RL_maint_call w mid f :
  mlab (f (mkM (m_capacity (getm w mid)) (m_util (getm w mid)) (m_queue (getm w mid)) (m_active (getm w mid)) (m_next (getm w mid))
                (m_value (getm w mid)) (m_vhist (getm w mid)) [])) -> RL w (maint_call w mid f).
Proof.
  intro LB. apply RL_one, l_quiet; [reflexivity| |cbn; auto].
  unfold maint_call. cbv zeta. match goal with |- context[map (conv_mcmd mid) ?l] => exists (map (conv_mcmd mid) l) end.
  split; [reflexivity|apply mlab_lemit, LB].
Qed.
Lemma RL_create_wo mid t g w : RL w (create_wo nw mid t g w).
Proof. apply RL_maint_call. apply mlab_create. constructor. Qed.

Lemma RL_sched_pass off w d : RL w (sched_pass nw off w d).
Proof. unfold sched_pass. destruct (d_kind (getd w d)); try Lt; (ldev w d (t_waiting_ds false); Lt). Qed.

Lemma RL_signal fuel : forall m w d, RL w (signal fuel nw m w d).
Proof.
  induction fuel as [|f IH]; intros m w d; cbn [signal]; [apply RL_fail|].
  set (x := getd w d).
  assert (NU : forall w0, RL w0 (fold_left (fun w1 u => signal f nw false w1 u) (d_up (getd w0 d)) w0)).
  { intro w0. apply RL_fold. intros; apply IH. }
  assert (SW : RL w (fold_left (fun w1 u => signal f nw false w1 u)
                               (d_up (getd (wait_if_empty nw w d) d)) (wait_if_empty nw w d))).
  { unfold wait_if_empty. destruct (d_part (getd w d)); [apply NU|]. destruct (d_out (getd w d)); [apply NU|].
    ldev w d (dev_set_wait nw true false). apply NU. }
  destruct m.
  - destruct (d_kind x); try apply NU; try exact SW.
    + destruct (inf_ltb (d_level x) (d_capacity x)); [exact SW|Lt].
    + destruct (aget (d_group x) (f_groups w)); [|Lt]. apply RL_fold. intros; apply IH.
  - destruct (d_kind x); try apply IH;
      try (destruct (operational x && d_waiting_ds x); [apply RL_sched_pass|Lt]).
    destruct (aget (d_group x) (f_groups w)); [apply IH|Lt].
Qed.

Lemma RL_run_cbop d slot isf lost w o : RL w (run_cbop nw d slot isf lost w o).
Proof.
  unfold run_cbop. destruct (negb (okf w)); [Lt|].
  destruct o.
  - apply RL_dev; kl.
  - apply RL_dev; kl.
  - destruct (if slot then d_part (getd w d) else d_out (getd w d)) as [i|]; [|Lt].
    destruct (is_batch i); [Lt|]. apply RL_dev; kl.
  - apply RL_dev; kl.
  - apply RL_create_wo.
  - destruct isf; [apply RL_create_wo|Lt].
  - apply RL_same; reflexivity.
Qed.

Lemma RL_run_cbops d slot isf lost ops : forall w, RL w (run_cbops nw d slot isf lost ops w).
Proof. unfold run_cbops. apply RL_fold. intros. apply RL_run_cbop. Qed.

Lemma RL_finish_cycle fuel w d : RL w (finish_cycle fuel nw w d).
Proof.
  unfold finish_cycle. set (x := getd w d). destruct (d_kind x) eqn:K; try Lt;
  try (destruct (negb (operational x)); [Lt|]; destruct (d_part x) as [it|] eqn:P; [|Lt]; destruct (d_out x) eqn:O; [Lt|]).
  3:{ (* source *)
      destruct (d_out x) eqn:O; [apply RL_sched_pass|].
      destruct (generate w d) as [w' it] eqn:G.
      apply (RL_trans w w').
      { destruct (generate_nextid w d) as [z Hz]. rewrite G in Hz. cbn in Hz. subst w'. apply RL_same; reflexivity. }
      ldev w' d (t_generated it). apply RL_sched_pass. }
  - ldev w d (t_finish it). apply RL_sched_pass.
  - ldev w d (t_finish_proc nw it). eapply RL_trans; [apply RL_sched_pass|].
    match goal with |- context[match d_reserved ?y with _ => _ end] => destruct (d_reserved y) end.
    + eapply RL_trans; [apply RL_sched|]. eapply RL_trans; [apply RL_run_cbops|].
      match goal with |- context[match d_out ?y with _ => _ end] => destruct (d_out y) end; Lt.
    + eapply RL_trans; [apply RL_run_cbops|].
      match goal with |- context[match d_out ?y with _ => _ end] => destruct (d_out y) end; Lt.
  - ldev w d (t_finish it). eapply RL_trans; [apply RL_sched_pass|].
    match goal with |- RL ?w0 _ => ldev w0 d t_clear_out; apply RL_signal end.
Qed.

Lemma RL_sched_finish fuel w d : RL w (sched_finish fuel nw w d).
Proof.
  unfold sched_finish. ldev w d t_reset_offset.
  destruct (_ <=? 0); [apply RL_finish_cycle|Lt].
Qed.

Lemma RL_batcher_fill n : forall w d, RL w (batcher_fill n w d).
Proof.
  induction n as [|n IH]; intros w d; cbn [batcher_fill]; [Lt|].
  set (x := getd w d) in *. destruct (d_out x) eqn:O; [Lt|]. destruct (d_part x) as [it|] eqn:P; [|Lt].
  match goal with |- context[let '(p, rest) := ?e in _] => destruct e as [[p|] rest] end; [|Lt].
  destruct (d_batch_size x) as [size|] eqn:BS.
  - destruct (d_inprog x) as [[pp|b ps]|] eqn:IP.
    + apply IH.
    + destruct (size <=? Z.of_nat (length (ps ++ [p]))).
      * ldev w d (t_batch_full rest b (ps ++ [p])). apply IH.
      * ldev w d (t_batch_more rest b (ps ++ [p])). apply IH.
    + set (w1 := w <| f_next_id := f_next_id w + 1 |>).
      apply (RL_trans w w1); [apply RL_same; reflexivity|].
      destruct (size <=? Z.of_nat (length ([] ++ [p]))).
      * ldev w1 d (t_batch_full rest (mkPart (f_next_id w + 1) 0 0 [] []) ([] ++ [p])). apply IH.
      * ldev w1 d (t_batch_more rest (mkPart (f_next_id w + 1) 0 0 [] []) ([] ++ [p])). apply IH.
  - ldev w d (t_batch_single rest p). apply IH.
Qed.

Lemma RL_batcher_try_move w d : RL w (batcher_try_move nw w d).
Proof.
  unfold batcher_try_move. set (x := getd w d) in *. destruct (d_part x) as [it|] eqn:P; [|Lt]. destruct (d_out x); [Lt|].
  destruct (negb (operational x)); [Lt|].
  assert (G : RL w (let w1 := batcher_fill (S (Z.to_nat (item_count it))) w d in
                    match d_out (getd w1 d) with Some _ => sched_pass nw 0 w1 d | None => w1 end)).
  { cbv zeta. eapply RL_trans; [apply RL_batcher_fill|].
    match goal with |- context[match d_out ?y with _ => _ end] => destruct (d_out y) end; [apply RL_sched_pass|Lt]. }
  destruct it as [p|b [|p ps]]; try exact G.
  ldev w d t_clear_part. Lt.
Qed.

Lemma RL_accept_rest fuel k w2 d it1 : RL (rec_part w2 L_RECEIVED d nw it1) (accept_rest fuel nw k w2 d it1).
Proof.
  unfold accept_rest.
  set (w3 := rec_part w2 L_RECEIVED d nw it1).
  set (w4 := run_cbops nw d true false (-1) (d_on_receive (getd w3 d)) w3).
  apply (RL_trans w3 w4); [apply RL_run_cbops|].
  destruct (negb (okf w4)); [Lt|]. set (x := getd w4 d) in *. destruct (d_out x); [Lt|].
  destruct k eqn:K; cbv zeta;
    try (destruct (operational x && match d_part x with Some _ => true | None => false end); [apply RL_sched_finish|Lt]).
  - destruct (d_part x) as [itb|] eqn:PB; [|Lt].
    ldev w4 d (t_buf_store nw itb).
    eapply RL_trans; [apply RL_signal|].
    match goal with |- context[if ?c then _ else _] => destruct c end; [apply RL_sched_pass|Lt].
  - apply RL_batcher_try_move.
Qed.

(** taking a part in, up to and including its received-part record: one compound step (the accept counter, a sink's counters, a buffer's
    level with its record — and the received-part record) *)
Lemma accept_fields nw0 it x : d_kind (t_accept nw0 it x) = d_kind x /\ d_produced (t_accept nw0 it x) = d_produced x /\
  d_level (t_accept nw0 it x) = d_level x /\ d_accepts (t_accept nw0 it x) = 1 + d_accepts x /\ d_value_received (t_accept nw0 it x) = d_value_received x.
Proof. unfold t_accept, dev_set_wait. destruct (d_wait_since _); repeat split; reflexivity. Qed.

Lemma RL_accept_first w d it1 k : k = d_kind (getd w d) -> RL w (rec_part (accept_first nw k w d it1) L_RECEIVED d nw it1).
Proof.
  intro K. unfold accept_first.
  assert (NS : forall f, (let x := getd w d in d_kind (f x) = d_kind x /\ d_produced (f x) = d_produced x /\ d_level (f x) = d_level x /\
                                    d_accepts (f x) = 1 + d_accepts x /\ (d_kind x = KSink -> d_value_received (f x) = item_value it1 + d_value_received x)) ->
               RL w (rec_part (updd w d f) L_RECEIVED d nw it1)).
  { intros f F. apply RL_one, l_accept. cbv zeta. rewrite getd_updd, Z.eqb_refl. cbn [andb].
    cbv zeta in F. destruct F as [F1 [F2 [F3 [F4 F5]]]].
    destruct (amem d (f_devs w)) eqn:AM; [repeat split; auto|].
    repeat split; try reflexivity; [discriminate|].
    intro KS. exfalso. assert (AM' : amem d (f_devs w) = true) by (apply not_blank_amem; intro E; rewrite E in KS; discriminate). congruence. }
  destruct k.
  all: try (apply NS; cbv zeta; destruct (accept_fields nw it1 (getd w d)) as [A1 [A2 [A3 [A4 A5]]]]; unfold t_accept_proc; cbn [d_kind d_produced d_level d_accepts d_value_received];
            repeat split; auto; intro KS; exfalso; congruence).
  - (* buffer *)
    apply RL_one, (l_accept_buffer nw w d it1). symmetry. exact K.
  - (* sink *)
    apply NS. cbv zeta. unfold t_accept_sink, dev_add_value. cbv zeta.
    destruct (accept_fields nw it1 (getd w d)) as [A1 [A2 [A3 [A4 A5]]]].
    destruct (item_value it1 =? 0); cbn [d_kind d_produced d_level d_accepts d_value_received]; repeat split; auto; intros _; rewrite A5; reflexivity.
Qed.

Lemma RL_accept fuel w d it : RL w (accept fuel nw w d it).
Proof. unfold accept. eapply RL_trans; [apply RL_accept_first; reflexivity|apply RL_accept_rest]. Qed.

Lemma RL_proc_can_accept w d : RL w (fst (proc_can_accept nw w d)).
Proof.
  unfold proc_can_accept. set (x := getd w d). destruct (negb (handler_can_accept x)); [Lt|].
  destruct (d_req x) as [rq|] eqn:RQ; [|Lt]. destruct (d_reserved x) eqn:RV; [Lt|].
  change (mkRs (r_pools (f_rm w)) (r_wait (f_rm w)) (r_res (f_rm w)) (r_slots (f_rm w)) (r_cblog (f_rm w)) [] 0 (r_env (f_rm w)) (r_nreg (f_rm w)))
    with (clean_rs (f_rm w)).
  set (res := reserve nw rq (clean_rs (f_rm w))). set (w1 := rm_call w (fun _ => fst res)).
  assert (R1 : RL w w1) by (apply RL_rm_call; apply rlab_reserve, rlab_clean).
  destruct (snd res) as [i|].
  - cbn [fst]. eapply RL_trans; [exact R1|]. apply RL_dev; kl.
  - destruct (negb (okf w1)); [exact R1|]. destruct (d_waiting_res x); [exact R1|]. cbn [fst].
    eapply RL_trans; [exact R1|]. eapply RL_trans; [apply RL_rm_call, rlab_register, rlab_clean|].
    apply RL_dev; kl.
Qed.

Lemma RL_give fuel : forall w d it, RL w (fst (give fuel nw w d it)).
Proof.
  induction fuel as [|f IH]; intros w d it; cbn [give]; [apply RL_fail|].
  destruct (negb (okf w)); [Lt|]. set (x := getd w d).
  assert (TL : forall it0 l w0 b,
             RL w0 (fst (fold_left (fun (acc : fw * bool) d' => if snd acc then acc else give f nw (fst acc) d' it0) l (w0, b)))).
  { intros it0 l. induction l as [|d' l IHl]; intros w0 b; cbn; [Lt|].
    destruct b; cbn [snd fst].
    - apply IHl.
    - pose proof (IH w0 d' it0) as X. destruct (give f nw w0 d' it0) as [w1 b1]. cbn [fst] in X.
      eapply RL_trans; [exact X|apply IHl]. }
  destruct (d_kind x) eqn:K.
  - destruct (negb (operational x && negb (d_block x))); [Lt|apply TL].
  - destruct (negb (decide (d_decider x) it)); [Lt|]. destruct (negb (operational x && negb (d_block x))); [Lt|apply TL].
  - destruct (handler_can_accept x); [|Lt]. cbn [fst]. apply RL_accept.
  - pose proof (RL_proc_can_accept w d) as R1. destruct (proc_can_accept nw w d) as [w1 ok]. cbn [fst] in R1.
    destruct ok; [|exact R1]. cbn [fst]. eapply RL_trans; [exact R1|apply RL_accept].
  - destruct (inf_leb (d_level x + item_count it) (d_capacity x) && handler_can_accept x); [|Lt]. cbn [fst]. apply RL_accept.
  - destruct (handler_can_accept x); [|Lt]. cbn [fst]. apply RL_accept.
  - destruct (handler_can_accept x); [|Lt]. cbn [fst]. apply RL_accept.
  - destruct (handler_can_accept x); [|Lt]. cbn [fst]. apply RL_accept.
  - destruct (d_block x); [Lt|]. destruct (aget (d_group x) (f_groups w)); [apply IH|Lt].
  - destruct (negb (operational x && negb (d_block x))); [Lt|apply TL].
  - destruct (rev (item_gpath it)) as [|gp rest]; [apply RL_fail|apply TL].
Qed.

Lemma RL_try_downstream fuel w d it : RL w (fst (try_downstream fuel nw w d it)).
Proof.
  unfold try_downstream. generalize (sorted_down fuel w d). intro l. generalize false. revert w.
  induction l as [|d' l IHl]; intros w0 b; cbn; [Lt|].
  destruct b; cbn [snd fst].
  - apply IHl.
  - pose proof (RL_give fuel w0 d' it) as X. destruct (give fuel nw w0 d' it) as [w1 b1]. cbn [fst] in X.
    eapply RL_trans; [exact X|apply IHl].
Qed.

Lemma RL_handler_pass fuel w d : RL w (fst (handler_pass fuel nw w d)).
Proof.
  unfold handler_pass. set (x := getd w d). destruct (d_out x) as [it|]; [|Lt]. destruct (negb (operational x)); [Lt|].
  pose proof (RL_try_downstream fuel w d it) as X. destruct (try_downstream fuel nw w d it) as [w1 ok]. cbn [fst] in X.
  destruct ok; cbn [fst]; (eapply RL_trans; [exact X|]).
  - ldev w1 d t_clear_out. apply RL_signal.
  - apply RL_dev; kl.
Qed.

Lemma RL_release_reserved w d : RL w (release_reserved nw w d).
Proof.
  unfold release_reserved. destruct (d_reserved (getd w d)) eqn:RV; [|Lt].
  eapply RL_trans; [apply RL_rm_call, rlab_release_obj, rlab_clean|]. apply RL_dev; kl.
Qed.

Lemma RL_release_if_idle w d : RL w (release_if_idle nw w d).
Proof. unfold release_if_idle. destruct (_ || _); [apply RL_release_reserved|Lt]. Qed.

Lemma RL_shutdown isf lost w d : RL w (shutdown nw isf lost w d).
Proof.
  unfold shutdown. set (x := getd w d). destruct (is_processor x); cbn [negb]; [|Lt].
  destruct (d_shut x).
  - destruct isf; [|Lt]. eapply RL_trans; [apply RL_cancel|apply RL_run_cbops].
  - ldev w d (t_shutdown nw). eapply RL_trans; [|apply RL_run_cbops]. destruct isf; Lt.
Qed.

Lemma RL_fail_proc w d : RL w (fail nw w d).
Proof.
  unfold fail. set (x := getd w d). destruct (is_processor x); cbn [negb]; [|Lt].
  ldev w d (t_fail_clear nw). eapply RL_trans; [apply RL_release_reserved|]. eapply RL_trans; [apply (RL_data _ L_FAILURE); discriminate|apply RL_shutdown].
Qed.

Lemma RL_restore fuel w d : RL w (restore fuel nw w d).
Proof.
  unfold restore. set (x := getd w d). destruct (is_processor x); cbn [negb]; [|Lt].
  destruct (negb (d_shut x)); [Lt|].
  ldev w d (t_restore nw). eapply RL_trans; [apply RL_unpause|]. eapply RL_trans; [|apply RL_run_cbops].
  destruct (d_out x); [apply RL_sched_pass|]. destruct (d_part x); [Lt|apply RL_signal].
Qed.

Lemma RL_buffer_loop n fuel : forall w d, RL w (buffer_loop n fuel nw w d).
Proof.
  induction n as [|n IH]; intros w d; cbn [buffer_loop]; [Lt|].
  set (x := getd w d) in *. destruct (d_buf x) as [|[t0 it] rest] eqn:B; [Lt|].
  destruct (0 <? d_min_delay x - (nw - t0)); [Lt|].
  pose proof (RL_try_downstream fuel w d it) as X.
  destruct (try_downstream fuel nw w d it) as [w1 ok] eqn:TD. cbn [fst] in X.
  destruct ok; [|exact X]. eapply RL_trans; [exact X|].
  eapply RL_trans; [apply RL_one, (l_buf_pop nw w1 d)|]. cbv zeta. apply IH.
Qed.

Lemma RL_pass_part fuel w d : RL w (pass_part fuel nw w d).
Proof.
  unfold pass_part. set (x := getd w d). destruct (d_kind x) eqn:K; try (apply RL_handler_pass).
  - cbv zeta. set (w1' := buffer_loop (S (length (d_buf x))) fuel nw w d).
    apply (RL_trans w w1'); [apply RL_buffer_loop|].
    eapply RL_trans; [|apply RL_signal].
    destruct (d_buf (getd w1' d)) as [|[t0 it] rest]; [Lt|].
    match goal with |- context[if ?c then _ else _] => destruct c end; [apply RL_sched_pass|].
    apply RL_dev; kl.
  - destruct (d_out x) as [it|]; [|Lt].
    match goal with |- context[if negb ?c then _ else _] => destruct (negb c) end; [Lt|].
    pose proof (RL_handler_pass fuel w d) as X. pose proof (R_handler_pass nw MFull fuel w d eq_refl) as XR.
    destruct (handler_pass fuel nw w d) as [w1 ok]. cbn [fst] in X, XR.
    destruct ok; [|exact X]. eapply RL_trans; [exact X|].
    eapply RL_trans; [apply RL_one, (l_supplied nw w1 d (item_value it) (item_id it))|apply RL_sched_finish].
    rewrite (R_amem nw MFull w w1 XR d). apply not_blank_amem. intro E. fold x in E. rewrite E in K. discriminate.
  - pose proof (RL_handler_pass fuel w d) as X.
    destruct (handler_pass fuel nw w d) as [w1 ok]. cbn [fst] in X.
    eapply RL_trans; [exact X|]. destruct (d_out (getd w1 d)); [Lt|]. apply RL_batcher_try_move.
Qed.

Lemma RL_res_check n fuel : forall i w, RL w (res_check n fuel nw i w).
Proof.
  induction n as [|n IH]; intros i w; cbn [res_check]; [apply RL_fail|].
  destruct (nth_error (r_wait (f_rm w)) i) as [[r cb id]|]; [|Lt].
  destruct (can_fulfill (r_pools (f_rm w)) r); [|apply IH].
  match goal with |- context[signal fuel nw true (updd ?w1 ?dd _) _] => set (w1' := w1); set (d := dd) end.
  apply (RL_trans w w1'); [apply RL_same; reflexivity|].
  ldev w1' d (t_waiting_res false).
  eapply RL_trans; [apply RL_signal|].
  match goal with |- context[if negb (okf ?w2) then _ else _] => destruct (negb (okf w2)) end; [Lt|].
  eapply RL_trans; [|apply IH]. apply RL_same; reflexivity.
Qed.

Lemma RL_maint_start mid wo w : RL w (maint_start nw mid wo w).
Proof.
  unfold maint_start. eapply RL_trans; [apply RL_maint_call, mlab_start_pre; constructor|].
  eapply RL_trans; [apply RL_shutdown|apply RL_maint_call, mlab_start_post; constructor].
Qed.

Lemma RL_maint_finish fuel mid wo w : RL w (maint_finish fuel nw mid wo w).
Proof. unfold maint_finish. eapply RL_trans; [apply RL_restore|apply RL_maint_call, mlab_finish_post; constructor]. Qed.

Lemma RL_rewire fuel w d ups : RL w (rewire fuel nw w d ups).
Proof.
  unfold rewire. set (x := getd w d). destruct (existsb (bad_up d w) ups); [Lt|].
  match goal with |- RL w (fold_left _ ups (updd (fold_left _ _ ?w0') d _)) => set (w0 := w0') end.
  assert (R0 : RL w w0).
  { unfold w0. destruct (is_holder (d_kind x)); [|Lt]. destruct (d_wait_since x); [|Lt]. apply RL_dev; kl. }
  apply (RL_trans w w0); [exact R0|].
  set (w1 := fold_left (fun w' u => updd w' u (t_down_del d)) (d_up x) w0).
  apply (RL_trans w0 w1); [unfold w1; apply RL_fold; intros w' u; apply RL_dev; intro y; repeat split; reflexivity|].
  apply (RL_trans w1 (updd w1 d (t_up ups))); [apply RL_dev; intro y; repeat split; reflexivity|].
  apply RL_fold. intros w' u. destruct (existsb (Z.eqb d) (d_down (getd w' u))); [Lt|].
  apply (RL_trans w' (updd w' u (t_down_add d))); [apply RL_dev; intro y; repeat split; reflexivity|apply RL_signal].
Qed.

Lemma RL_run_uop fuel w o : RL w (run_uop fuel nw w o).
Proof.
  unfold run_uop. destruct (negb (okf w)); [Lt|]. destruct o.
  - apply RL_shutdown.
  - apply RL_restore.
  - Lt.
  - destruct (Bool.eqb _ _); [Lt|]. ldev w d (t_block b). destruct b; [Lt|apply RL_signal].
  - destruct (d_budget (getd w d)) as [b|]; [|Lt].
    match goal with |- context[t_budget ?z] => ldev w d (t_budget z) end.
    destruct (_ <? 1); [apply RL_sched_pass|Lt].
  - apply RL_dev; kl.
  - apply RL_rewire.
  - apply RL_rm_call, rlab_add, rlab_clean.
  - apply RL_create_wo.
Qed.

Theorem RL_exec_fact fuel uops a w : RL w (exec_fact fuel uops a w nw).
Proof.
  destruct a as [d|d|d|d| |m [wo|wo]|k]; cbn [exec_fact].
  - apply RL_finish_cycle.
  - apply RL_pass_part.
  - apply RL_fail_proc.
  - apply RL_release_if_idle.
  - apply RL_res_check.
  - apply RL_maint_start.
  - apply RL_maint_finish.
  - apply RL_fold. intros. apply RL_run_uop.
Qed.

Lemma RL_init_dev fuel w d : RL w (init_dev fuel nw w d).
Proof.
  unfold init_dev. set (x := getd w d). destruct (is_holder (d_kind x)); [|Lt].
  set (w1 := updd w d (fun y => dev_set_wait nw true true y)).
  assert (R1 : RL w w1) by (apply RL_dev; kl).
  destruct (d_kind x); try exact R1.
  - eapply RL_trans; [exact R1|]. apply RL_dev. intro y. repeat split; reflexivity.
  - eapply RL_trans; [exact R1|apply RL_sched_finish].
Qed.

Lemma RL_init_world fuel w : RL w (init_world fuel nw w).
Proof.
  unfold init_world. eapply RL_trans; [apply RL_rm_call, rlab_initialize, rlab_clean|]. apply RL_fold. intros. apply RL_init_dev.
Qed.

(** a device constructed between two events *)
Lemma RL_late_create fuel w d ups : RL w (late_create fuel nw w d ups).
Proof.
  unfold late_create. match goal with |- RL _ (if ?c then _ else _) => destruct c end; [Lt|].
  set (w0 := w <| f_next_id := f_next_id w + 1 |>).
  apply (RL_trans w w0); [apply RL_same; reflexivity|].
  apply (RL_trans w0 (updd w0 d t_live)); [apply RL_dev; intro y; repeat split; reflexivity|].
  eapply RL_trans; [apply RL_init_dev|apply RL_rewire].
Qed.

End Log.
