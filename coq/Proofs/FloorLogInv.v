(** C15: the data log mirrors the devices.  In every state reached without a Python exception (also inside a run):
    a source's produced-parts counter = its initial value + the number of its supplied-part records in the log, and the last
    level record of a buffer carries the buffer's level (no record yet: the level is the initial one). *)
From Coq Require Import ZArith List Bool Lia Sorting.Sorted Sorting.Permutation.
From RecordUpdate Require Import RecordUpdate.
From SimVerif Require Import Model.Base Model.Env Model.FamEnv Model.RM Model.Maint Model.FloorTypes Model.Floor Model.FamFloor.
From SimVerif Require Import Proofs.RMInv Proofs.EnvInv Proofs.EnvPause Proofs.FloorSteps Proofs.FloorInv Proofs.FloorRes Proofs.FloorLink Proofs.FloorReach Proofs.FloorIdle Proofs.FloorLog.
Import ListNotations.
Open Scope Z_scope.

Definition logent := (Z * Z * list Z)%type.
Fixpoint cntrec (l s : Z) (log : list logent) : Z :=
  match log with [] => 0 | (l', s', _) :: r => (if (l' =? l) && (s' =? s) then 1 else 0) + cntrec l s r end.
Fixpoint lastrec (l s : Z) (log : list logent) : option (list Z) :=
  match log with [] => None | (l', s', p) :: r => if (l' =? l) && (s' =? s) then Some p else lastrec l s r end.

Definition level_ok (lv : Z) (l0 : Z) (o : option (list Z)) : Prop :=
  match o with Some p => exists t, p = [t; lv] | None => lv = l0 end.

(** the value field of a received/produced-part record [time; id; quality; value] *)
Definition recval (p : list Z) : Z := match p with [_; _; _; v] => v | _ => 0 end.
Fixpoint sumrec (l s : Z) (log : list logent) : Z :=
  match log with [] => 0 | (l', s', p) :: r => (if (l' =? l) && (s' =? s) then recval p else 0) + sumrec l s r end.

Definition D (p0 l0 v0 a0 : Z -> Z) (w : fw) (en : fenv) : Prop :=
  forall d, d_produced (getd w d) = p0 d + cntrec L_SUPPLIED d (datalog en) /\
            level_ok (d_level (getd w d)) (l0 d) (lastrec L_LEVEL d (datalog en)) /\
            (d_kind (getd w d) = KSink -> d_value_received (getd w d) = v0 d + sumrec L_RECEIVED d (datalog en)) /\
            (amem d (f_devs w) = true -> d_accepts (getd w d) = a0 d + cntrec L_RECEIVED d (datalog en)).

Section LogInv.
Variable ws : nat -> Z.
Variables p0 l0 v0 a0 : Z -> Z.
Notation venv := (venv ws).
Notation D := (D p0 l0 v0 a0).

Definition logsame (en en' : fenv) : Prop :=
  forall d, cntrec L_SUPPLIED d (datalog en') = cntrec L_SUPPLIED d (datalog en) /\
            lastrec L_LEVEL d (datalog en') = lastrec L_LEVEL d (datalog en) /\
            sumrec L_RECEIVED d (datalog en') = sumrec L_RECEIVED d (datalog en) /\
            cntrec L_RECEIVED d (datalog en') = cntrec L_RECEIVED d (datalog en).

Lemma logsame_cmd en c en' : lemit_ok c -> apply_cmd ws en (to_cmd_f c) = Ok en' -> logsame en en'.
Proof.
  intros Q H d. destruct c as [t p a act|lb sb pl|a|a|a]; cbn in H.
  - unfold schedule in H. destruct (t <? now en); [discriminate|]. injection H as <-. cbn. auto.
  - injection H as <-. cbn. destruct Q as [Q1 [Q2 Q3]]. apply Z.eqb_neq in Q1, Q2, Q3. rewrite Q1, Q2, Q3. cbn. auto.
  - injection H as <-. cbn. auto.
  - injection H as <-. cbn. auto.
  - injection H as <-. cbn. auto.
Qed.

Lemma logsame_cmds l : Forall lemit_ok l -> forall en en', apply_cmds ws en (map to_cmd_f l) = Ok en' -> logsame en en'.
Proof.
  induction 1 as [|c l Q _ IH]; intros en en' H; cbn in H; [injection H as <-; intro d; auto|].
  destruct (apply_cmd ws en (to_cmd_f c)) as [en1|en1] eqn:E; [|discriminate].
  intro d. destruct (IH en1 en' H d) as [A [B [C C']]]. destruct (logsame_cmd en c en1 Q E d) as [A1 [B1 [C1 C1']]]. rewrite A, B, C, C'. auto.
Qed.

Definition LD (en0 : fenv) (w : fw) : Prop := okf w = true -> forall en, venv en0 w = Ok en -> D w en.

(** the fields the links read, and the set of devices, are the same in both worlds *)
Definition same_fields (w w' : fw) : Prop :=
  forall d, d_produced (getd w' d) = d_produced (getd w d) /\ d_level (getd w' d) = d_level (getd w d) /\
            d_value_received (getd w' d) = d_value_received (getd w d) /\ d_kind (getd w' d) = d_kind (getd w d) /\
            d_accepts (getd w' d) = d_accepts (getd w d) /\ amem d (f_devs w') = amem d (f_devs w).

Lemma D_logsame w w' en en' : logsame en en' -> same_fields w w' -> D w en -> D w' en'.
Proof.
  intros LS F H d. destruct (LS d) as [A [B [C C']]]. destruct (F d) as [F1 [F2 [F3 [F4 [F5 F6]]]]]. destruct (H d) as [H1 [H2 [H3 H4]]].
  rewrite A, B, C, C', F1, F2, F3, F4, F5, F6. auto.
Qed.

Lemma logsame_refl en : logsame en en.
Proof. intro d. auto. Qed.

Lemma fields_updd_lsafe w d f : lsafe f -> same_fields w (updd w d f).
Proof.
  intros LS d'. rewrite amem_updd. rewrite getd_updd. destruct ((d' =? d) && amem d (f_devs w)) eqn:C; [|repeat split; reflexivity].
  apply andb_true_iff in C. destruct C as [C _]. apply Z.eqb_eq in C. subst d'. destruct (LS (getd w d)) as [A [B [C [E G]]]]. repeat split; assumption.
Qed.

Lemma same_fields_devs w w' : f_devs w' = f_devs w -> same_fields w w'.
Proof. intros DV d. rewrite (getd_other_fields w w' d DV), DV. repeat split; reflexivity. Qed.

Lemma LD_quiet en0 w w' :
  same_fields w w' ->
  (exists l, f_out w' = l ++ f_out w /\ Forall lemit_ok l) -> (okf w' = true -> okf w = true) -> LD en0 w -> LD en0 w'.
Proof.
  intros F [l [O Q]] OK L OKF en' V. rewrite (venv_app ws en0 w w' l O) in V. destruct (venv en0 w) as [en|en] eqn:V0; [|discriminate].
  apply (D_logsame w w' en en'); [|exact F|apply (L (OK OKF) en V0)].
  apply (logsame_cmds (rev l)); [apply Forall_rev, Q|exact V].
Qed.

Lemma supplied_fields nw v x : d_produced (t_supplied nw v x) = 1 + d_produced x /\ d_level (t_supplied nw v x) = d_level x /\
  d_value_received (t_supplied nw v x) = d_value_received x /\ d_kind (t_supplied nw v x) = d_kind x /\ d_accepts (t_supplied nw v x) = d_accepts x.
Proof. unfold t_supplied, dev_add_value. destruct (- v =? 0); repeat split; reflexivity. Qed.

(** the records that go with a counter change *)
Lemma LD_record en0 w w1 lb d pl :
  LD en0 w -> f_out w1 = f_out w -> f_err w1 = f_err w ->
  (forall en, D w en -> D (data w1 lb d pl) (add_data en lb d pl)) -> LD en0 (data w1 lb d pl).
Proof.
  intros L O E STEP OKF en' V. unfold data in V. destruct (venv_emit ws en0 w1 _ en' V) as [en [V0 AC]]. cbn in AC. injection AC as <-.
  rewrite (venv_same ws en0 w w1 O) in V0. apply STEP. apply (L ltac:(unfold okf in *; cbn in OKF; rewrite <- E; exact OKF) en V0).
Qed.

Lemma LD_record2 en0 w w1 lb d pl lb2 pl2 :
  LD en0 w -> f_out w1 = f_out w -> f_err w1 = f_err w ->
  (forall en, D w en -> D (data (data w1 lb d pl) lb2 d pl2) (add_data (add_data en lb d pl) lb2 d pl2)) -> LD en0 (data (data w1 lb d pl) lb2 d pl2).
Proof.
  intros L O E STEP OKF en' V. unfold data in V. destruct (venv_emit ws en0 _ _ en' V) as [en1 [V1 AC1]]. cbn in AC1. injection AC1 as <-.
  destruct (venv_emit ws en0 w1 _ en1 V1) as [en [V0 AC]]. cbn in AC. injection AC as <-.
  rewrite (venv_same ws en0 w w1 O) in V0. apply STEP. apply (L ltac:(unfold okf in *; cbn in OKF; rewrite <- E; exact OKF) en V0).
Qed.

(** one record about device [d] together with the change of [d] it reports: the links survive when the supplied-parts counter moves
    with a supplied record only, a level record carries the new level, and with a received record (only) the accept counter moves by one
    and a sink's received value by the recorded value *)
Lemma D_rec w w1 en d lb pl :
  D w en -> (forall d', d' <> d -> getd w1 d' = getd w d') -> (forall d', amem d' (f_devs w1) = amem d' (f_devs w)) ->
  let x := getd w d in let x' := getd w1 d in
  d_kind x' = d_kind x ->
  d_produced x' = d_produced x + (if lb =? L_SUPPLIED then 1 else 0) ->
  (if lb =? L_LEVEL then exists t, pl = [t; d_level x'] else d_level x' = d_level x) ->
  (d_kind x = KSink -> d_value_received x' = d_value_received x + (if lb =? L_RECEIVED then recval pl else 0)) ->
  (amem d (f_devs w) = true -> d_accepts x' = d_accepts x + (if lb =? L_RECEIVED then 1 else 0)) ->
  D (data w1 lb d pl) (add_data en lb d pl).
Proof.
  intros H OTH AME x x' K P LV VR AC d'.
  change (getd (data w1 lb d pl) d') with (getd w1 d'). change (f_devs (data w1 lb d pl)) with (f_devs w1).
  cbn [datalog add_data cntrec lastrec sumrec]. rewrite AME.
  destruct (H d') as [H1 [H2 [H3 H4]]]. destruct (Z.eqb_spec d d') as [<-|N].
  - rewrite !andb_true_r. fold x x'. fold x in H1, H2, H3, H4. split; [|split; [|split]].
    + rewrite P, H1. destruct (lb =? L_SUPPLIED); lia.
    + destruct (lb =? L_LEVEL); [exact LV|rewrite LV; exact H2].
    + intro KS. rewrite K in KS. rewrite (VR KS), (H3 KS). destruct (lb =? L_RECEIVED); lia.
    + intro AM. rewrite (AC AM), (H4 AM). destruct (lb =? L_RECEIVED); lia.
  - rewrite !andb_false_r. rewrite (OTH d' (not_eq_sym N)). cbv iota. rewrite !Z.add_0_l. auto.
Qed.

Lemma updd_other w d f d' : d' <> d -> getd (updd w d f) d' = getd w d'.
Proof. intro N. rewrite getd_updd. apply Z.eqb_neq in N. rewrite N. reflexivity. Qed.

Lemma amem_map_snd {V} (g : Z * V -> V) d (l : list (Z * V)) : amem d (map (fun e => (fst e, g e)) l) = amem d l.
Proof. unfold amem. induction l as [|[k y] l IH]; cbn; [reflexivity|]. destruct (d =? k); [reflexivity|exact IH]. Qed.

Theorem lstep_LD nw en0 w w' : lstep nw w w' -> LD en0 w -> LD en0 w'.
Proof.
  intros S L. destruct S as [w d f LS|w c EO|w w' DV O OK|w w' DEAD|w pid f|w d v id AM|w d it1 KB|w d|w d f it1 AF].
  - apply (LD_quiet en0 w); [apply fields_updd_lsafe, LS|exists []; split; [reflexivity|constructor]|auto|exact L].
  - apply (LD_quiet en0 w); [apply same_fields_devs; reflexivity|exists [c]; split; [reflexivity|constructor; [exact EO|constructor]]|auto|exact L].
  - apply (LD_quiet en0 w); [apply same_fields_devs, DV|exact O|exact OK|exact L].
  - intros OKF. congruence.
  - apply (LD_quiet en0 w); [|exists []; split; [reflexivity|constructor]|auto|exact L].
    intro d. unfold upd_part_everywhere. cbn [f_devs set]. split; [|split; [|split; [|split; [|split]]]].
    6: apply (amem_map_snd (fun e => upd_part_in_dev pid f (snd e))).
    all: unfold getd; cbn; induction (f_devs w) as [|[k y] l IH]; cbn; [reflexivity|]; destruct (d =? k); [cbn; destruct y; reflexivity|exact IH].
  - (* a part supplied: counter and record together *)
    apply (LD_record en0 w); [exact L|reflexivity|reflexivity|]. intros en H.
    apply (D_rec w); [exact H|intros; apply updd_other; assumption|intro; apply amem_updd|..]; cbv zeta; rewrite getd_updd, Z.eqb_refl, AM; cbn [andb].
    all: destruct (supplied_fields nw v (getd w d)) as [E1 [E2 [E3 [E4 E5]]]].
    + exact E4.
    + change (L_SUPPLIED =? L_SUPPLIED) with true. cbv iota. rewrite E1. lia.
    + change (L_SUPPLIED =? L_LEVEL) with false. cbv iota. exact E2.
    + intros _. change (L_SUPPLIED =? L_RECEIVED) with false. cbv iota. rewrite E3. lia.
    + intros _. change (L_SUPPLIED =? L_RECEIVED) with false. cbv iota. rewrite E5. lia.
  - (* a buffer takes a part in: level with its record, accept counter with the received-part record *)
    cbv zeta. unfold rec_part.
    set (wB := updd w d (t_accept_buffer nw it1)).
    apply (LD_record2 en0 w wB); [exact L|reflexivity|reflexivity|]. intros en H.
    set (f1 := fun y : dev => (t_accept_buffer nw it1 y) <| d_accepts := d_accepts y |>).
    set (pl1 := [nw; d_level (getd wB d)]).
    assert (FB : forall y, d_kind (t_accept_buffer nw it1 y) = d_kind y /\ d_produced (t_accept_buffer nw it1 y) = d_produced y /\
                           d_value_received (t_accept_buffer nw it1 y) = d_value_received y /\ d_accepts (t_accept_buffer nw it1 y) = 1 + d_accepts y).
    { intro y. unfold t_accept_buffer, t_accept, dev_set_wait. destruct (d_wait_since _); repeat split; reflexivity. }
    assert (LVL : d_level (getd (updd w d f1) d) = d_level (getd wB d)).
    { unfold wB. rewrite !getd_updd, Z.eqb_refl. cbn [andb]. destruct (amem d (f_devs w)); reflexivity. }
    assert (HA : D (data (updd w d f1) L_LEVEL d pl1) (add_data en L_LEVEL d pl1)).
    { apply (D_rec w); [exact H|intros; apply updd_other; assumption|intro; apply amem_updd|..]; cbv zeta.
      - apply getd_updd_field. intro y. apply (FB y).
      - change (L_LEVEL =? L_SUPPLIED) with false. cbv iota. rewrite Z.add_0_r. apply getd_updd_field. intro y. apply (FB y).
      - change (L_LEVEL =? L_LEVEL) with true. cbv iota. exists nw. unfold pl1. rewrite LVL. reflexivity.
      - intros _. change (L_LEVEL =? L_RECEIVED) with false. cbv iota. rewrite Z.add_0_r. apply getd_updd_field. intro y. apply (FB y).
      - intros _. change (L_LEVEL =? L_RECEIVED) with false. cbv iota. rewrite Z.add_0_r. apply getd_updd_field. intro y. reflexivity. }
    apply (D_rec (data (updd w d f1) L_LEVEL d pl1) (data wB L_LEVEL d pl1)); [exact HA|..]; cbv zeta.
    + intros d' N. change (getd (data ?a ?b ?c ?e) d') with (getd a d'). unfold wB. rewrite !updd_other by exact N. reflexivity.
    + intro d'. change (f_devs (data ?a ?b ?c ?e)) with (f_devs a). unfold wB. rewrite !amem_updd. reflexivity.
    + change (getd (data ?a ?b ?c ?e) d) with (getd a d). unfold wB. rewrite !getd_updd, Z.eqb_refl. cbn [andb]. destruct (amem d (f_devs w)); reflexivity.
    + change (L_RECEIVED =? L_SUPPLIED) with false. cbv iota. rewrite Z.add_0_r.
      change (getd (data ?a ?b ?c ?e) d) with (getd a d). unfold wB. rewrite !getd_updd, Z.eqb_refl. cbn [andb]. destruct (amem d (f_devs w)); reflexivity.
    + change (L_RECEIVED =? L_LEVEL) with false. cbv iota. change (getd (data ?a ?b ?c ?e) d) with (getd a d). symmetry. exact LVL.
    + change (getd (data ?a ?b ?c ?e) d) with (getd a d). intro KS. exfalso.
      rewrite (getd_updd_field d_kind w d f1 d) in KS; [congruence|]. intro y. apply (FB y).
    + change (getd (data ?a ?b ?c ?e) d) with (getd a d). change (f_devs (data ?a ?b ?c ?e)) with (f_devs a). rewrite amem_updd. intro AM.
      change (L_RECEIVED =? L_RECEIVED) with true. cbv iota. unfold wB. rewrite !getd_updd, Z.eqb_refl, AM. cbn [andb].
      destruct (FB (getd w d)) as [_ [_ [_ E]]]. rewrite E. change (d_accepts (f1 (getd w d))) with (d_accepts (getd w d)). lia.
  - (* the head of a buffer leaves: level and record together *)
    cbv zeta. apply (LD_record en0 w); [exact L|reflexivity|reflexivity|]. intros en H.
    assert (FS : forall {X} (pr : dev -> X), (forall y, pr (t_buf_pop nw y) = pr y) ->
                 pr (getd (updd w d (t_buf_pop nw)) d) = pr (getd w d)) by (intros X pr Q; apply getd_updd_field, Q).
    assert (TB : forall {X} (pr : dev -> X) y, (forall g b, pr (y <| d_level ::= g |> <| d_buf := b |>) = pr y) -> pr (t_buf_pop nw y) = pr y).
    { intros X pr y Q. unfold t_buf_pop. destruct (d_buf y) as [|[? ?] ?]; [reflexivity|]. destruct (0 <? _); first [reflexivity|apply Q]. }
    apply (D_rec w); [exact H|intros; apply updd_other; assumption|intro; apply amem_updd|..]; cbv zeta.
    + apply FS. intro y. apply TB. reflexivity.
    + change (L_LEVEL =? L_SUPPLIED) with false. cbv iota. rewrite Z.add_0_r. apply FS. intro y. apply TB. reflexivity.
    + change (L_LEVEL =? L_LEVEL) with true. cbv iota. eexists; reflexivity.
    + intros _. change (L_LEVEL =? L_RECEIVED) with false. cbv iota. rewrite Z.add_0_r. apply FS. intro y. apply TB. reflexivity.
    + intros _. change (L_LEVEL =? L_RECEIVED) with false. cbv iota. rewrite Z.add_0_r. apply FS. intro y. apply TB. reflexivity.
  - (* a device takes a part in: accept counter (and a sink's counters) with the received-part record *)
    unfold rec_part. apply (LD_record en0 w); [exact L|reflexivity|reflexivity|]. intros en H.
    cbv zeta in AF. destruct AF as [A1 [A2 [A3 [A4 A5]]]].
    apply (D_rec w); [exact H|intros; apply updd_other; assumption|intro; apply amem_updd|..]; cbv zeta.
    + exact A1.
    + change (L_RECEIVED =? L_SUPPLIED) with false. cbv iota. rewrite A2. lia.
    + change (L_RECEIVED =? L_LEVEL) with false. cbv iota. exact A3.
    + intro KS. change (L_RECEIVED =? L_RECEIVED) with true. cbv iota. cbn [recval]. rewrite (A5 KS). lia.
    + intro AM. change (L_RECEIVED =? L_RECEIVED) with true. cbv iota. rewrite (A4 AM). lia.
Qed.

Theorem RL_LD nw en0 w w' : RL nw w w' -> LD en0 w -> LD en0 w'.
Proof. intro H. induction H as [|w1 w2 w3 S _ IH]; intro L; [exact L|]. apply IH. eapply lstep_LD; eauto. Qed.

(** * the system *)
Lemma LD_start en w : f_out w = [] -> D w en -> LD en w.
Proof. intros O H _ en' V. unfold FloorIdle.venv in V. rewrite O in V. cbn in V. injection V as <-. exact H. Qed.

Lemma D_same w w' en en' : f_devs w' = f_devs w -> datalog en' = datalog en -> D w en -> D w' en'.
Proof. intros DV DL H d. rewrite (getd_other_fields w w' d DV), DL, DV. apply H. Qed.

Definition DS (s : fw * fenv) : Prop := f_out (fst s) = [] /\ D (fst s) (snd s).

Theorem step_DS sc s s' : DS s -> step ws (exec_fl sc) fl_wfail s = Some (Ok s') -> DS s'.
Proof.
  destruct s as [w en]. intros [O H] ST. cbn [fst snd] in *. unfold step in ST.
  destruct (queue en) as [|e q] eqn:Q; [discriminate|].
  set (en1 := mkEnv (e_time e) q (paused en) (next_eid en) (terminated en) (e :: dispatched en) (datalog en)) in *.
  assert (H1 : D w en1) by (apply (D_same w w en en1); auto).
  destruct (e_cancelled e).
  - injection ST as <-. split; assumption.
  - destruct (e_act e) as [a|].
    + unfold exec_fl in ST.
      set (w1 := exec_fact (fl_fuel w) (fun k => nth k (fq_uops sc) []) a w (e_time e)) in *.
      destruct (flush_f w1) as [w2 cs] eqn:FL.
      destruct (apply_cmds ws en1 cs) as [en2|en2] eqn:AC; [|discriminate].
      destruct (fl_wfail w2) eqn:WF; [discriminate|]. injection ST as <-. cbn [fst snd].
      assert (E2 : w2 = fst (flush_f w1) /\ cs = snd (flush_f w1)) by (rewrite FL; auto). destruct E2 as [-> ->].
      split; [reflexivity|].
      assert (OKF : okf w1 = true) by (unfold fl_wfail in WF; apply negb_false_iff in WF; exact WF).
      apply (D_same w1 _ en2 en2); [reflexivity|reflexivity|].
      apply (RL_LD (e_time e) en1 w w1 (RL_exec_fact (e_time e) _ _ a w) (LD_start en1 w O H1) OKF en2 AC).
    + injection ST as <-. split; [exact O|]. apply (D_same w w en1 _); auto.
Qed.

Lemma DS_fin (w0 : fw) (en : fenv) (w : fw) s' :
  f_out w0 = [] -> D w0 en -> RL (now en) w0 w ->
  (let '(w1, cs) := flush_f w in
   match apply_cmds ws en cs with
   | Ok en' => ((clear_ferr w1, en'), f_err w1)
   | Err en' => ((clear_ferr w1, en'), if f_err w1 =? 0 then 1 else f_err w1)
   end) = (s', 0) -> DS s'.
Proof.
  intros O H HR. destruct (flush_f w) as [w1 cs] eqn:FL.
  assert (E2 : w1 = fst (flush_f w) /\ cs = snd (flush_f w)) by (rewrite FL; auto). destruct E2 as [-> ->].
  destruct (apply_cmds ws en (snd (flush_f w))) as [en'|en'] eqn:AC.
  - intro E. injection E as <- E0. cbn [fst snd]. split; [reflexivity|].
    apply (D_same w _ en' en'); [reflexivity|reflexivity|].
    apply (RL_LD (now en) en w0 w HR (LD_start en w0 O H)); [|exact AC].
    unfold okf. cbn in E0. rewrite E0. reflexivity.
  - intro E. injection E as _ E0. st0 E0.
Qed.

End LogInv.

Section LogReach.
Variable sc : fl_scn.
Notation wsd := (wgen (fq_seed sc) (fq_mod sc)).
Notation p0 := (fun d => d_produced (getd (fq_world sc) d)).
Notation l0 := (fun d => d_level (getd (fq_world sc) d)).
Notation v0 := (fun d => d_value_received (getd (fq_world sc) d)).
Notation a0 := (fun d => d_accepts (getd (fq_world sc) d)).

Theorem reach_in_DS s : f_out (fq_world sc) = [] -> reach_in sc s -> DS p0 l0 v0 a0 s.
Proof.
  intro O0. induction 1 as [s WF E|s o s' _ IH E|s t k p s' _ IH E|s s' _ IH E|s d en' _ IH E|s d ups s' _ IH E].
  - unfold do_fxop in E. cbn [fst snd] in E.
    apply (DS_fin wsd p0 l0 v0 a0 (fq_world sc) init_env (init_world (fl_fuel (fq_world sc)) (now (init_env (A:=fact))) (fq_world sc)) s O0); [|apply RL_init_world|exact E].
    intro d. cbn. split; [lia|split; [reflexivity|split; intros _; lia]].
  - destruct IH as [O H]. unfold do_fxop in E.
    apply (DS_fin wsd p0 l0 v0 a0 (fst s) (snd s) (run_uop (fl_fuel (fst s)) (now (snd s)) (fst s) o) s' O H); [apply RL_run_uop|exact E].
  - destruct IH as [O H]. unfold do_fxop in E.
    destruct (apply_cmd wsd (snd s) (CSched t p (-5) (AUser k))) as [en'|en'] eqn:AC; [|discriminate].
    injection E as <-. cbn [fst snd]. split; [exact O|].
    apply (D_same p0 l0 v0 a0 (fst s) (fst s) (snd s) en'); [reflexivity| |exact H].
    cbn in AC. unfold schedule in AC. destruct (t <? now (snd s)); [discriminate|]. injection AC as <-. reflexivity.
  - eapply step_DS; eauto.
  - destruct IH as [O H]. cbn [fst snd]. split; [exact O|].
    apply (D_same p0 l0 v0 a0 (fst s) (fst s) (snd s) en'); [reflexivity| |exact H].
    unfold start_run, schedule in E. cbn in E. destruct (now (snd s) + d <? now (snd s)); [discriminate|]. injection E as <-. reflexivity.
  - destruct IH as [O H]. unfold do_fxop in E.
    apply (DS_fin wsd p0 l0 v0 a0 (fst s) (snd s) (late_create (fl_fuel (fst s)) (now (snd s)) (fst s) d ups) s' O H); [apply RL_late_create|exact E].
Qed.

(** * C15: counters and last records *)
Theorem supplied_counter_is_record_count s d :
  f_out (fq_world sc) = [] -> reach_in sc s ->
  d_produced (getd (fst s) d) = d_produced (getd (fq_world sc) d) + cntrec L_SUPPLIED d (datalog (snd s)).
Proof. intros O HR. destruct (reach_in_DS s O HR) as [_ H]. apply H. Qed.

Theorem last_level_record_is_level s d :
  f_out (fq_world sc) = [] -> reach_in sc s ->
  match lastrec L_LEVEL d (datalog (snd s)) with
  | Some p => exists t, p = [t; d_level (getd (fst s) d)]
  | None => d_level (getd (fst s) d) = d_level (getd (fq_world sc) d)
  end.
Proof. intros O HR. destruct (reach_in_DS s O HR) as [_ H]. apply H. Qed.

(** a sink's received-value counter is the sum of the values its received-part records carry (plus its initial value) *)
Theorem sink_value_is_sum_of_records s d :
  f_out (fq_world sc) = [] -> reach_in sc s -> d_kind (getd (fst s) d) = KSink ->
  d_value_received (getd (fst s) d) = d_value_received (getd (fq_world sc) d) + sumrec L_RECEIVED d (datalog (snd s)).
Proof. intros O HR. destruct (reach_in_DS s O HR) as [_ H]. apply H. Qed.

(** every device of the world has taken in as many items as there are received-part records under its name (plus its initial count):
    exactly one record per acceptance, no record without one *)
Theorem accepts_is_received_record_count s d :
  f_out (fq_world sc) = [] -> reach_in sc s -> amem d (f_devs (fst s)) = true ->
  d_accepts (getd (fst s) d) = d_accepts (getd (fq_world sc) d) + cntrec L_RECEIVED d (datalog (snd s)).
Proof. intros O HR. destruct (reach_in_DS s O HR) as [_ H]. apply H. Qed.

End LogReach.

(** * every decoded scenario starts with no pending output *)
Lemma fold_updd_out {X} (F : X -> dev -> dev) (key : X -> Z) l : forall w, f_out (fold_left (fun w0 u => updd w0 (key u) (F u)) l w) = f_out w.
Proof. induction l as [|u l IH]; intro w; cbn; [reflexivity|]. rewrite IH. reflexivity. Qed.

Lemma connect_out w d ups : f_out (connect w d ups) = f_out w.
Proof.
  unfold connect. cbv zeta.
  rewrite (fold_updd_out (fun (_ : Z) x => if existsb (Z.eqb d) (d_down x) then x else x <| d_down ::= fun l => l ++ [d] |>) (fun u => u)).
  cbn. rewrite (fold_updd_out (fun (_ : Z) x => x <| d_down ::= filter (fun z => negb (z =? d)) |>) (fun u => u)). reflexivity.
Qed.

Local Opaque connect.
Lemma decode_tuple_out sc tp : f_out (fq_world (decode_fl_tuple sc tp)) = f_out (fq_world sc).
Proof.
  destruct tp as [[[[[[[op a] b] c] d] e] f] g]. unfold decode_fl_tuple.
  repeat match goal with |- context[if ?x =? ?k then _ else _] => destruct (x =? k); [try reflexivity|] end; try reflexivity.
  all: unfold new_dev; cbn; rewrite ?connect_out; cbn; rewrite ?connect_out; reflexivity.
Qed.
Local Transparent connect.

Theorem decoded_no_pending_output l : f_out (fq_world (decode_fl_scn l)) = [].
Proof.
  unfold decode_fl_scn. assert (G : forall tps sc, f_out (fq_world sc) = [] -> f_out (fq_world (fold_left decode_fl_tuple tps sc)) = []).
  { induction tps as [|tp tps IH]; intros sc H; cbn; [exact H|]. apply IH. rewrite decode_tuple_out. exact H. }
  apply G. reflexivity.
Qed.
