(** Environment.run: a run of duration d started at t0 executes every event due
    no later than t0+d (also those created while running), none due later, and
    ends with the clock at exactly t0+d.  For every action behaviour whose
    calls keep away from the library-reserved asset id -1 and from priorities
    at or below TERMINATE, every weight source, every fuel. *)
From Coq Require Import ZArith List Bool Lia Sorting.Sorted Sorting.Permutation.
From SimVerif Require Import Model.Base Model.Env Proofs.Lex Proofs.EnvInv.
Import ListNotations.
Open Scope Z_scope.

Section EnvRun.
  Variable A : Type.
  Variable W : Type.
  Variable wsrc : nat -> Z.
  Variable exec : A -> W -> Z -> W * list (cmd A).
  Variable wfail : W -> bool.

  Notation event := (event A).
  Notation env := (env A).
  Notation Inv := (Inv A).
  Notation le_ev := (le_ev A).

  Definition cmd_ok (c : cmd A) : Prop :=
    match c with
    | CSched _ p _ _ => P_TERMINATE < p
    | CPause a => a <> -1
    | CCancel a => a <> -1
    | _ => True
    end.

  Definition ev_ok (e : event) : Prop := P_TERMINATE < e_prio e /\ e_act e <> None.

  Hypothesis exec_ok : forall a w t, Forall cmd_ok (snd (exec a w t)).

  Section WithT.
    Variable eT : event.
    Hypothesis eT_asset : e_asset eT = -1.
    Hypothesis eT_act : e_act eT = None.
    Hypothesis eT_prio : e_prio eT = P_TERMINATE.
    Hypothesis eT_live : e_cancelled eT = false.

    (** Phase A of a run: the terminate event is pending. *)
    Record RunA (en : env) : Prop := {
      ra_inv : Inv en;
      ra_in : In eT (queue en);
      ra_term : terminated en = false;
      ra_others : forall e, In e (queue en ++ paused en) -> e = eT \/ ev_ok e }.

    Lemma ra_now en : RunA en -> now en <= e_time eT.
    Proof.
      intros [I H _ _]. destruct I as [_ F _ _ _ _]. rewrite Forall_forall in F. apply F, H.
    Qed.

    Lemma eT_not_ok : ~ ev_ok eT.
    Proof. intros [_ H]. apply H, eT_act. Qed.

    Lemma apply_cmd_runA en c en' :
      RunA en -> cmd_ok c -> apply_cmd wsrc en c = Ok en' -> RunA en'.
    Proof.
      intros [I H T O] K E.
      assert (I' : Inv en') by (apply (apply_cmd_inv A wsrc en c _ I E)).
      destruct c as [t p a act|a|a|a|l s d]; cbn in E, K.
      - unfold schedule in E. destruct (t <? now en); [discriminate|]. injection E as <-.
        split; cbn -[insort] in *; auto.
        + apply insort_in. right. exact H.
        + intros e He. apply in_app_or in He. destruct He as [He|He].
          * apply insort_in in He. destruct He as [->|He]; [right; split; cbn; [exact K|discriminate]|].
            apply O, in_or_app; auto.
          * apply O, in_or_app; auto.
      - injection E as <-. split; cbn in *; auto.
        + apply filter_In. split; [exact H|]. unfold matches. rewrite eT_asset.
          destruct (Z.eqb_spec (-1) a); [congruence|reflexivity].
        + intros e He. apply in_app_or in He. destruct He as [He|He].
          * apply filter_In in He. apply O, in_or_app; left; apply He.
          * apply in_app_or in He. destruct He as [He|He]; [apply O, in_or_app; auto|].
            apply in_map_iff in He. destruct He as [y [<- Hy]]. apply filter_In in Hy. destruct Hy as [Hy M].
            destruct (O y (in_or_app _ _ _ (or_introl Hy))) as [->|[P1 P2]].
            -- exfalso. unfold matches in M. rewrite eT_asset in M. apply Z.eqb_eq in M. congruence.
            -- right. split; cbn; assumption.
      - injection E as <-. split; cbn in *; auto.
        + eapply Permutation_in; [symmetry; apply fold_insort_perm|]. apply in_or_app. left. exact H.
        + intros e He. apply in_app_or in He. destruct He as [He|He].
          * eapply Permutation_in in He; [|apply fold_insort_perm]. apply in_app_or in He. destruct He as [He|He].
            -- apply O, in_or_app; auto.
            -- apply in_map_iff in He. destruct He as [y [<- Hy]]. apply filter_In in Hy. destruct Hy as [Hy M].
               destruct (O y (in_or_app _ _ _ (or_intror Hy))) as [->|[P1 P2]].
               ++ (* eT cannot be paused: ids are unique and eT is pending *)
                  exfalso. eapply (inv_queue_paused_disj A en eT eT I H Hy). reflexivity.
               ++ right. split; cbn; assumption.
          * apply filter_In in He. apply O, in_or_app; right; apply He.
      - injection E as <-. split; cbn in *; auto.
        + apply in_map_iff. exists eT. split; [|exact H]. unfold matches. rewrite eT_asset.
          destruct (Z.eqb_spec (-1) a); [congruence|reflexivity].
        + intros e He. rewrite <- map_app in He. apply in_map_iff in He. destruct He as [y [<- Hy]].
          destruct (O y Hy) as [->|[P1 P2]].
          * left. unfold matches. rewrite eT_asset. destruct (Z.eqb_spec (-1) a); [congruence|reflexivity].
          * right. destruct (matches a y); split; cbn; assumption.
      - injection E as <-. split; cbn in *; auto.
    Qed.

    Lemma apply_cmds_runA cs : forall en en',
      RunA en -> Forall cmd_ok cs -> apply_cmds wsrc en cs = Ok en' -> RunA en'.
    Proof.
      induction cs as [|c cs IH]; intros en en' R F E; cbn in E.
      - injection E as <-. exact R.
      - inversion F; subst. destruct (apply_cmd wsrc en c) eqn:E1; [|discriminate].
        apply (IH x en'); auto. eapply apply_cmd_runA; eauto.
    Qed.

    (** Phase B: terminated at exactly the time of eT, nothing due is left. *)
    Definition RunB (en : env) : Prop :=
      Inv en /\ terminated en = true /\ now en = e_time eT /\
      (forall e, In e (queue en) -> e_time eT < e_time e).

    Lemma step_runA w en s' :
      RunA en -> step wsrc exec wfail (w, en) = Some (Ok s') -> RunA (snd s') \/ RunB (snd s').
    Proof.
      intros R H. pose proof R as [I Hin T O]. unfold step in H.
      destruct (queue en) as [|e q] eqn:Q; [discriminate|].
      pose proof (pop_inv A en e q I Q) as I1. unfold popped in I1.
      pose proof I as [S _ _ N _ _]. rewrite Q in S. inversion S as [|? ? S' FS]; subst.
      rewrite Forall_forall in FS.
      destruct Hin as [Heq|Hin]; [subst e|].
      - (* the terminate event itself *)
        rewrite eT_live, eT_act in H. injection H as <-. right. cbn.
        split; [apply set_terminated_inv, I1|]. repeat split; auto.
        intros e' He'. pose proof (FS e' He') as L.
        pose proof (le_ev_time A _ _ L) as Lt.
        destruct (Z.eq_dec (e_time eT) (e_time e')) as [Eq|Ne]; [|lia].
        pose proof (le_ev_prio A _ _ L Eq) as Lp. rewrite eT_prio in Lp.
        destruct (O e') as [->|[P1 _]]; [apply in_or_app; left; right; exact He'| |lia].
        (* e' = eT twice in the queue contradicts unique ids *)
        exfalso. eapply (inv_queue_head_unique A en eT q eT I Q He'). reflexivity.
      - (* another event; eT stays pending *)
        assert (RA1 : RunA (mkEnv (e_time e) q (paused en) (next_eid en) (terminated en) (e :: dispatched en) (datalog en))).
        { split; cbn; auto. intros x Hx. apply O. apply in_app_or in Hx. apply in_or_app.
          destruct Hx; [left; right|right]; assumption. }
        destruct (e_cancelled e).
        + injection H as <-. left. exact RA1.
        + destruct (e_act e) as [a|] eqn:Ea.
          * pose proof (exec_ok a w (e_time e)) as K. destruct (exec a w (e_time e)) as [w' cs]. cbn in K.
            destruct (apply_cmds wsrc _ cs) eqn:E; [|discriminate]. destruct (wfail w'); [discriminate|]. injection H as <-. left. cbn.
            eapply apply_cmds_runA; eauto.
          * exfalso. destruct (O e) as [->|[_ P2]]; [left; reflexivity| |congruence].
            eapply (inv_queue_head_unique A en eT q eT I Q Hin). reflexivity.
    Qed.

    Lemma loop_runA fuel : forall w en s',
      RunA en -> loop wsrc exec wfail fuel (w, en) = Some (Ok s') -> RunB (snd s').
    Proof.
      induction fuel as [|f IH]; intros w en s' R H; cbn [loop snd] in H.
      - destruct (queue en) eqn:Q; [destruct R as [_ Hin _ _]; rewrite Q in Hin; destruct Hin|].
        destruct R as [_ _ T _]. rewrite T in H. discriminate.
      - destruct (queue en) eqn:Q; [destruct R as [_ Hin _ _]; rewrite Q in Hin; destruct Hin|].
        pose proof R as [_ _ T _]. rewrite T in H.
        destruct (step wsrc exec wfail (w, en)) as [[s1|s1]|] eqn:E; try discriminate.
        + destruct (step_runA w en s1 R E) as [RA|RB].
          * destruct s1 as [w1 en1]. cbn in RA. eapply IH; [exact RA|exact H].
          * destruct s1 as [w1 en1]. destruct RB as [I1 [T1 [N1 L1]]].
            cbn in T1.
            assert (HH : Some (Ok (w1, en1)) = Some (Ok s')).
            { destruct f; cbn [loop snd] in H; destruct (queue en1); try exact H; rewrite T1 in H; exact H. }
            injection HH as <-. split; [exact I1|]. split; [exact T1|]. split; [exact N1|exact L1].
        + apply (step_none A W wsrc exec wfail) in E. cbn in E. congruence.
    Qed.
  End WithT.

  (** The theorem about Environment.run. *)
  Theorem run_post fuel d w (en : env) s' :
    Inv en -> 0 <= d ->
    (forall e, In e (queue en ++ paused en) -> ev_ok e) ->
    run wsrc exec wfail fuel d (w, en) = Some (Ok s') ->
    now (snd s') = now en + d /\
    terminated (snd s') = true /\
    (forall e, In e (queue (snd s')) -> now en + d < e_time e) /\
    (forall e, In e (dispatched (snd s')) -> e_time e <= now en + d) /\
    Inv (snd s').
  Proof.
    intros I Hd O H. unfold run in H. cbn [snd fst] in H.
    destruct (start_run wsrc en d) as [en0|en0] eqn:E; [|discriminate].
    unfold start_run, schedule in E. cbn in E.
    destruct (now en + d <? now en) eqn:Hlt; [discriminate|]. injection E as <-.
    set (eT := mkEvent (next_eid en) (now en + d) P_TERMINATE (wsrc (next_eid en)) (-1) (@None A) None false) in *.
    assert (I0 : Inv (set_terminated en false)) by (apply set_terminated_inv, I).
    match type of H with loop _ _ _ _ (_, ?e0) = _ => set (en0 := e0) in * end.
    assert (I1 : Inv en0).
    { eapply (schedule_inv A wsrc (set_terminated en false) (now en + d) P_TERMINATE (-1) None); [exact I0|].
      unfold schedule. cbn. rewrite Hlt. reflexivity. }
    assert (RA : RunA eT en0).
    { split; auto.
      - cbn -[insort]. apply insort_in. left. reflexivity.
      - intros e He. cbn -[insort] in He. apply in_app_or in He. destruct He as [He|He].
        + apply insort_in in He. destruct He as [->|He]; [left; reflexivity|right; apply O, in_or_app; auto].
        + right. apply O, in_or_app; auto. }
    pose proof (loop_runA eT eq_refl eq_refl eq_refl eq_refl fuel w en0 s' RA H) as [I' [T' [N' L']]].
    cbn in N', L'. split; [exact N'|]. split; [exact T'|]. split; [exact L'|]. split; [|exact I'].
    intros e He. destruct I' as [_ _ _ _ _ D]. rewrite Forall_forall in D. apply D in He. lia.
  Qed.

End EnvRun.
