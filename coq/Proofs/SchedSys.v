(** ActionScheduler + event queue (C18): while the timetable has not ended there is
    exactly one pending transition event, due at the time the timetable
    prescribes; registrations issued from other events never disturb it. *)
From Coq Require Import ZArith List Bool Lia Sorting.Permutation.
From SimVerif Require Import Model.Base Model.Env Model.FamEnv Model.Sched Model.FamSched.
From SimVerif Require Import Proofs.ListAux Proofs.EnvInv Proofs.SchedInv.
Import ListNotations.
Open Scope Z_scope.

Definition upd_time (e : event sfact) : list Z :=
  match e_act e with Some AUpdate => [e_time e] | _ => [] end.
Definition scmd_time (c : scmd) : list Z := match c with SSched t => [t] | SData _ => [] end.
Definition tocmd_s (c : scmd) : cmd sfact :=
  match c with SSched t => CSched t P_OTHER_HIGH sched_asset AUpdate | SData d => CData L_SCHEDULE_UPDATE sched_asset d end.

Section SchedSys.
  Variable ws : nat -> Z.
  Variable s0 : sst.
  Variable t0 : Z.
  Hypothesis I0 : s_index s0 = O.
  Hypothesis N0 : (0 < length (s_schedule s0))%nat.

  Lemma apply_scmds (l : list scmd) : forall (en en' : env sfact),
    apply_cmds ws en (map tocmd_s l) = Ok en' ->
    (Forall (fun e => e_cancelled e = false) (queue en) -> Forall (fun e => e_cancelled e = false) (queue en')) /\
    Permutation (flat_map upd_time (queue en')) (flat_map upd_time (queue en) ++ flat_map scmd_time l).
  Proof.
    induction l as [|c l IH]; intros en en' H; cbn in H.
    - injection H as <-. rewrite app_nil_r. auto.
    - destruct c as [t|d]; cbn in H.
      + unfold schedule in H. destruct (t <? now en); [discriminate|].
        match type of H with apply_cmds _ ?e1 _ = _ => set (en1 := e1) in * end.
        destruct (IH en1 en' H) as [HC H3]. split.
        { intro F. apply HC. cbn -[insort]. eapply Permutation_Forall; [symmetry; apply insort_perm|]. constructor; [reflexivity|exact F]. }
        rewrite H3. cbn -[insort].
        match goal with |- context[insort ?e (queue en)] => set (ev := e) end.
        assert (P : Permutation (flat_map upd_time (insort ev (queue en))) (upd_time ev ++ flat_map upd_time (queue en))).
        { change (upd_time ev ++ flat_map upd_time (queue en)) with (flat_map upd_time (ev :: queue en)).
          apply perm_flat_map. apply insort_perm. }
        rewrite P. cbn. apply Permutation_middle.
      + destruct (IH (add_data en L_SCHEDULE_UPDATE sched_asset d) en' H) as [HC H3]. cbn in *. auto.
  Qed.

  (** phase of the scheduler: [Some t] = a transition is pending at t; [None] = the non-cyclic timetable has ended *)
  Definition phase_ok (w : sw) (en : env sfact) : Prop :=
    (exists k t, chain s0 t0 k (w_s w) t /\ flat_map upd_time (queue en) = [t]) \/
    (s_cyclic (w_s w) = false /\ (length (s_schedule (w_s w)) <= s_index (w_s w))%nat /\ flat_map upd_time (queue en) = []).

  Record SysS (s : sw * env sfact) : Prop := {
    ss_out : s_out (w_s (fst s)) = [];
    ss_einv : Inv sfact (snd s);
    ss_nocancel : Forall (fun e => e_cancelled e = false) (queue (snd s));
    ss_phase : phase_ok (fst s) (snd s) }.

  Lemma flush_s_cmds w : snd (flush_s w) = map tocmd_s (rev (s_out (w_s w))).
  Proof. reflexivity. Qed.

  Lemma chain_sched k s t : chain s0 t0 k s t -> s_schedule s = s_schedule s0 /\ s_cyclic s = s_cyclic s0.
  Proof. intro C. destruct (chain_timetable s0 t0 k s t I0 N0 C) as [_ [A [B _]]]. auto. Qed.

  Theorem step_SysS s s' : SysS s -> step ws exec_sc (fun _ => false) s = Some (Ok s') -> SysS s'.
  Proof.
    destruct s as [w en]. intros [OUT IE NC PH] H. cbn [fst snd] in *.
    unfold step in H. destruct (queue en) as [|e q] eqn:Q; [discriminate|].
    pose proof (pop_inv sfact en e q IE Q) as IP. unfold popped in IP.
    set (en1 := mkEnv (e_time e) q (paused en) (next_eid en) (terminated en) (e :: dispatched en) (datalog en)) in *.
    inversion NC as [|? ? NCe NCq]; subst. rewrite NCe in H. unfold phase_ok in PH. cbn [fst snd] in PH. try rewrite Q in PH. cbn [flat_map] in PH.
    assert (FIN : forall w3 en2, apply_cmds ws en1 (snd (flush_s w3)) = Ok en2 ->
                   phase_ok (fst (flush_s w3)) en2 -> s' = (fst (flush_s w3), en2) -> SysS s').
    { intros w3 en2 AP P ->. split; cbn; auto.
      - pose proof (apply_cmds_inv sfact ws (snd (flush_s w3)) en1 IP) as X. rewrite AP in X. exact X.
      - rewrite flush_s_cmds in AP. destruct (apply_scmds _ _ _ AP) as [HC _]. apply HC. exact NCq. }
    assert (UE : upd_time e = match e_act e with Some AUpdate => [e_time e] | _ => [] end) by reflexivity.
    rewrite UE in PH. clear UE.
    destruct (e_act e) as [[|obj ov|obj]|] eqn:EA; cbn [exec_sc] in H.
    - (* the transition event *)
      set (w3 := mkSW (s_update (e_time e) true (w_s w)) (w_res w)) in *.
      destruct (apply_cmds ws en1 (snd (flush_s w3))) as [en2|en2] eqn:AP; [|destruct (flush_s w3); cbn in *; rewrite AP in H; discriminate].
      assert (H' : s' = (fst (flush_s w3), en2)).
      { destruct (flush_s w3) as [wf cs] eqn:FL. cbn in AP. rewrite AP in H. injection H as <-. reflexivity. }
      apply (FIN w3 en2 AP); [|exact H'].
      rewrite flush_s_cmds in AP. destruct (apply_scmds _ _ _ AP) as [_ HP]. cbn [queue en1] in HP.
      destruct PH as [[k [t [CH PQ]]]|[_ [_ PQ]]]; [|cbn in PQ; discriminate].
      cbn in PQ. injection PQ as Et Eq.
      destruct (update_spec (e_time e) (w_s w)) as [U1 U2].
      destruct (stops (w_s w)) eqn:ST.
      + (* past the end of a non-cyclic timetable: the last state persists, no further event *)
        right. destruct (U1 eq_refl) as [_ [_ [UO _]]]. cbn [fst flush_s w_s w3].
        unfold stops in ST. apply andb_true_iff in ST. destruct ST as [ST1 ST2]. apply negb_true_iff in ST1. apply Nat.leb_le in ST2.
        assert (XX : s_cyclic (s_update (e_time e) true (w_s w)) = false /\ s_schedule (s_update (e_time e) true (w_s w)) = s_schedule (w_s w) /\
                     s_index (s_update (e_time e) true (w_s w)) = S (s_index (w_s w))).
        { unfold s_update. cbv beta iota zeta. rewrite ST1. cbn [negb andb].
          destruct (Nat.leb_spec (length (s_schedule (w_s w))) (S (s_index (w_s w)))); [cbn; auto|lia]. }
        destruct XX as [X1 [X2 X3]]. cbn. rewrite X1, X2, X3. split; [reflexivity|]. split; [exact ST2|].
        apply Permutation_nil. rewrite HP. cbn [w_s w3]. rewrite UO, OUT, Eq. reflexivity.
      + left. destruct (U2 eq_refl) as [_ [_ [_ [_ [_ UO]]]]].
        exists (S k). eexists. split.
        * cbn [fst flush_s w_s w3]. rewrite Et.
          assert (CS := chain_step s0 t0 k (w_s w) t CH ST).
          eapply chain_reg; [exact CS|]. repeat split.
        * apply Permutation_length_1_inv. rewrite HP. cbn [w_s w3]. rewrite UO, OUT, Eq. cbn. rewrite Et. reflexivity.
    - (* a deferred register call *)
      set (w3 := sw_reg obj ov w) in *.
      destruct (apply_cmds ws en1 (snd (flush_s w3))) as [en2|en2] eqn:AP; [|destruct (flush_s w3); cbn in *; rewrite AP in H; discriminate].
      assert (H' : s' = (fst (flush_s w3), en2)).
      { destruct (flush_s w3) as [wf cs] eqn:FL. cbn in AP. rewrite AP in H. injection H as <-. reflexivity. }
      apply (FIN w3 en2 AP); [|exact H'].
      rewrite flush_s_cmds in AP. destruct (apply_scmds _ _ _ AP) as [_ HP]. cbn [queue en1] in HP.
      assert (SP : same_position (w_s w) (w_s w3)).
      { unfold w3, sw_reg. pose proof (register_position obj ov (w_s w)) as R. destruct (s_register obj ov (w_s w)). exact R. }
      assert (OW : s_out (w_s w3) = []).
      { unfold w3, sw_reg. pose proof (register_out obj ov (w_s w)) as R. destruct (s_register obj ov (w_s w)). cbn in *. rewrite R. exact OUT. }
      rewrite OW in HP. cbn in HP. rewrite app_nil_r in HP. cbn [app] in PH.
      destruct PH as [[k [t [CH PQ]]]|[C1 [C2 PQ]]].
      + left. exists k, t. split; [cbn; eapply chain_reg; [exact CH|]; destruct SP as [A [B [C [D [E F]]]]]; repeat split; auto|].
        apply Permutation_length_1_inv. rewrite HP, PQ. reflexivity.
      + right. destruct SP as [A [B [C _]]]. cbn. rewrite A, B, C. split; [exact C1|]. split; [exact C2|].
        apply Permutation_nil. rewrite HP, PQ. reflexivity.
    - (* a deferred unregister call *)
      set (w3 := sw_unreg obj w) in *.
      destruct (apply_cmds ws en1 (snd (flush_s w3))) as [en2|en2] eqn:AP; [|destruct (flush_s w3); cbn in *; rewrite AP in H; discriminate].
      assert (H' : s' = (fst (flush_s w3), en2)).
      { destruct (flush_s w3) as [wf cs] eqn:FL. cbn in AP. rewrite AP in H. injection H as <-. reflexivity. }
      apply (FIN w3 en2 AP); [|exact H'].
      rewrite flush_s_cmds in AP. destruct (apply_scmds _ _ _ AP) as [_ HP]. cbn [queue en1] in HP.
      assert (SP : same_position (w_s w) (w_s w3)).
      { unfold w3, sw_unreg. pose proof (unregister_position obj (w_s w)) as R. destruct (s_unregister obj (w_s w)). exact R. }
      assert (OW : s_out (w_s w3) = []).
      { unfold w3, sw_unreg. pose proof (unregister_out obj (w_s w)) as R. destruct (s_unregister obj (w_s w)). cbn in *. rewrite R. exact OUT. }
      rewrite OW in HP. cbn in HP. rewrite app_nil_r in HP. cbn [app] in PH.
      destruct PH as [[k [t [CH PQ]]]|[C1 [C2 PQ]]].
      + left. exists k, t. split; [cbn; eapply chain_reg; [exact CH|]; destruct SP as [A [B [C [D [E F]]]]]; repeat split; auto|].
        apply Permutation_length_1_inv. rewrite HP, PQ. reflexivity.
      + right. destruct SP as [A [B [C _]]]. cbn. rewrite A, B, C. split; [exact C1|]. split; [exact C2|].
        apply Permutation_nil. rewrite HP, PQ. reflexivity.
    - (* terminate *)
      injection H as <-. split; cbn; auto. apply set_terminated_inv, IP.
  Qed.

  (** the pending transition is due exactly when the timetable says, and the current state is the prescribed one *)
  Theorem SysS_timetable (w : sw) (en : env sfact) :
    SysS (w, en) ->
    (exists k, (1 <= k)%nat /\
       s_state (w_s w) = Some (st_of s0 (sidx (s_cyclic s0) (length (s_schedule s0)) (k - 1))) /\
       flat_map upd_time (queue en) = [T (s_schedule s0) (s_cyclic s0) t0 k]) \/
    (s_cyclic (w_s w) = false /\ flat_map upd_time (queue en) = []).
  Proof.
    intros [_ _ _ PH]. cbn in PH. destruct PH as [[k [t [CH PQ]]]|[C1 [_ PQ]]]; [left|right; auto].
    destruct (chain_timetable s0 t0 k (w_s w) t I0 N0 CH) as [K [_ [_ [_ [ST [Tt _]]]]]].
    exists k. rewrite PQ, Tt. auto.
  Qed.
End SchedSys.
