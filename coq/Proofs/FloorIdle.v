(** C11, last clause: whenever time advances, no idle operational processor holds resources.
    The link invariant [J]: every processor that holds a reservation and has no part in process owns an uncancelled RELEASE
    event that is pending at the current instant, or — while the processor is shut down — paused with a stamp equal to its
    time (so that the restore puts it back at the instant of the restore).  It is preserved by every [jstep] (FloorLink.v)
    when the environment calls made so far are applied to the environment the action started in ([venv]), hence by every
    action, every call between events, every step of the event loop. *)
From Coq Require Import ZArith List Bool Lia Sorting.Sorted Sorting.Permutation.
From RecordUpdate Require Import RecordUpdate.
From SimVerif Require Import Model.Base Model.Env Model.FamEnv Model.RM Model.Maint Model.FloorTypes Model.Floor Model.FamFloor.
From SimVerif Require Import Proofs.RMInv Proofs.EnvInv Proofs.EnvPause Proofs.FloorSteps Proofs.FloorInv Proofs.FloorRes Proofs.FloorLink Proofs.FloorReach.
Import ListNotations.
Open Scope Z_scope.

Notation fenv := (env fact).
Ltac st0 E0 := match type of E0 with (if ?c then _ else _) = 0 => let Z0 := fresh in destruct c eqn:Z0; [discriminate E0|apply Z.eqb_neq in Z0; contradiction] end.
Notation fevent := (event fact).

Definition witness (sh : bool) (d : Z) (en : fenv) : Prop :=
  exists e : fevent, e_asset e = d /\ e_act e = Some (AReleaseIfIdle d) /\ e_cancelled e = false /\
    ((In e (queue en) /\ e_time e = now en) \/ (In e (paused en) /\ e_paused_at e = Some (e_time e) /\ sh = true)).

Definition J (skip : Z -> Prop) (w : fw) (en : fenv) : Prop :=
  forall d, ~ skip d -> idle_holder (getd w d) -> witness (d_shut (getd w d)) d en.

Section Idle.
Variable ws : nat -> Z.

(** * the environment calls *)
Lemma witness_mono sh sh' d en : (sh = true -> sh' = true) -> witness sh d en -> witness sh' d en.
Proof. intros M [e [A [B [C [D|[D1 [D2 D3]]]]]]]; exists e; (split; [exact A|split; [exact B|split; [exact C|]]]); [left; exact D|right; auto]. Qed.

Lemma In_fold_insort (g : fevent -> fevent) l : forall q x, In x q -> In x (fold_left (fun q e => insort (g e) q) l q).
Proof. induction l as [|e l IH]; intros q x H; cbn; [exact H|]. apply IH. apply (insort_in fact). right. exact H. Qed.
Lemma In_fold_insort_new (g : fevent -> fevent) l : forall q e, In e l -> In (g e) (fold_left (fun q e => insort (g e) q) l q).
Proof.
  induction l as [|e0 l IH]; intros q e H; cbn; [destruct H|]. destruct H as [->|H]; [|apply IH, H].
  apply In_fold_insort. apply (insort_in fact). left. reflexivity.
Qed.

Lemma witness_quiet sh d en c en' : quiet_cmd c -> apply_cmd ws en (to_cmd_f c) = Ok en' -> witness sh d en -> witness sh d en'.
Proof.
  intros Q H [e [A [B [C D]]]]. destruct c; try contradiction; cbn in H.
  - unfold schedule in H. destruct (t <? now en); [discriminate|]. injection H as <-. exists e. cbn. repeat split; auto.
    destruct D as [[D1 D2]|D]; [left; split; [apply (insort_in fact); right; exact D1|exact D2]|right; exact D].
  - injection H as <-. exists e. cbn. repeat split; auto.
Qed.

Lemma witness_quiets sh d l : Forall quiet_cmd l -> forall en en', apply_cmds ws en (map to_cmd_f l) = Ok en' -> witness sh d en -> witness sh d en'.
Proof.
  induction 1 as [|c l Q _ IH]; intros en en' H Wt; cbn in H; [injection H as <-; exact Wt|].
  destruct (apply_cmd ws en (to_cmd_f c)) as [en1|en1] eqn:E; [|discriminate].
  apply (IH en1 en' H). eapply witness_quiet; eauto.
Qed.

Lemma witness_new sh d en p en' :
  apply_cmd ws en (CSched (now en) p d (AReleaseIfIdle d)) = Ok en' -> witness sh d en'.
Proof.
  cbn. unfold schedule. destruct (now en <? now en); [discriminate|]. intro H. injection H as <-.
  eexists. cbn. split; [|split; [|split; [|left; split; [apply (insort_in fact); left; reflexivity|]]]]; reflexivity.
Qed.

Lemma matches_false a (e : fevent) : e_asset e <> a -> matches a e = false.
Proof. unfold matches. intro N. apply Z.eqb_neq, N. Qed.
Lemma matches_true a (e : fevent) : e_asset e = a -> matches a e = true.
Proof. unfold matches. intro N. apply Z.eqb_eq, N. Qed.

Lemma witness_pause_other sh d en a : a <> d -> witness sh d en -> witness sh d (pause en a).
Proof.
  intros N [e [A [B [C D]]]]. exists e. repeat split; auto. cbn.
  assert (M : matches a e = false) by (apply matches_false; congruence).
  destruct D as [[D1 D2]|[D1 D2]]; [left; split; [apply filter_In; split; [exact D1|rewrite M; reflexivity]|exact D2]|].
  right. split; [apply in_or_app; left; exact D1|exact D2].
Qed.

Lemma witness_pause_same sh d en : witness sh d en -> witness true d (pause en d).
Proof.
  intros [e [A [B [C D]]]]. destruct D as [[D1 D2]|[D1 [D2 D3]]].
  - exists (stamp (now en) e). cbn. repeat split; auto. right. split; [|split; [rewrite D2; reflexivity|reflexivity]].
    apply in_or_app. right. apply in_map. apply filter_In. split; [exact D1|apply matches_true, A].
  - exists e. repeat split; auto. right. cbn. split; [apply in_or_app; left; exact D1|auto].
Qed.

Lemma witness_unpause_other sh d en a : a <> d -> witness sh d en -> witness sh d (unpause en a).
Proof.
  intros N [e [A [B [C D]]]]. exists e. repeat split; auto. cbn.
  assert (M : matches a e = false) by (apply matches_false; congruence).
  destruct D as [[D1 D2]|[D1 D2]]; [left; split; [apply In_fold_insort; exact D1|exact D2]|].
  right. split; [apply filter_In; split; [exact D1|rewrite M; reflexivity]|exact D2].
Qed.

Lemma witness_unpause_same sh sh' d en : witness sh d en -> witness sh' d (unpause en d).
Proof.
  intros [e [A [B [C D]]]]. destruct D as [[D1 D2]|[D1 [D2 D3]]].
  - exists e. repeat split; auto. left. cbn. split; [apply In_fold_insort; exact D1|exact D2].
  - exists (resumed (now en) e). cbn. repeat split; auto. left. split.
    + apply (In_fold_insort_new (resumed (now en))). apply filter_In. split; [exact D1|apply matches_true, A].
    + unfold resume_time. rewrite D2. lia.
Qed.

Lemma witness_cancel_other sh d en a : a <> d -> witness sh d en -> witness sh d (cancel en a).
Proof.
  intros N [e [A [B [C D]]]]. exists e. repeat split; auto. cbn.
  assert (M : matches a e = false) by (apply matches_false; congruence).
  set (f := fun e0 : fevent => if matches a e0 then cancel_ev e0 else e0).
  assert (E : f e = e) by (unfold f; rewrite M; reflexivity).
  destruct D as [[D1 D2]|[D1 D2]]; [left|right]; (split; [rewrite <- E; apply in_map; assumption|assumption]).
Qed.

(** * the virtual environment: the calls made so far, applied to the environment the action started in *)
Definition venv (en0 : fenv) (w : fw) : res fenv := apply_cmds ws en0 (map to_cmd_f (rev (f_out w))).

Lemma apply_cmds_app (l1 l2 : list (cmd fact)) : forall en : fenv,
  apply_cmds ws en (l1 ++ l2) = match apply_cmds ws en l1 with Ok en1 => apply_cmds ws en1 l2 | Err en1 => Err en1 end.
Proof.
  induction l1 as [|c l1 IH]; intro en; cbn; [reflexivity|]. destruct (apply_cmd ws en c); [apply IH|reflexivity].
Qed.

Lemma venv_app en0 w w' l : f_out w' = l ++ f_out w ->
  venv en0 w' = match venv en0 w with Ok en => apply_cmds ws en (map to_cmd_f (rev l)) | Err en => Err en end.
Proof. intro E. unfold venv. rewrite E, rev_app_distr, map_app. apply apply_cmds_app. Qed.

Lemma venv_emit en0 w c en' : venv en0 (emitf w c) = Ok en' -> exists en, venv en0 w = Ok en /\ apply_cmd ws en (to_cmd_f c) = Ok en'.
Proof.
  rewrite (venv_app en0 w (emitf w c) [c]) by reflexivity. destruct (venv en0 w) as [en|en]; [|discriminate].
  cbn. intro H. exists en. split; [reflexivity|]. destruct (apply_cmd ws en (to_cmd_f c)); [exact H|discriminate].
Qed.

Lemma venv_same en0 w w' : f_out w' = f_out w -> venv en0 w' = venv en0 w.
Proof. unfold venv. intros ->. reflexivity. Qed.

Lemma apply_cmds_now' cs : forall (en en' : fenv), apply_cmds ws en cs = Ok en' -> now en' = now en.
Proof. intros en en' H. pose proof (apply_cmds_now fact ws cs en) as X. rewrite H in X. exact X. Qed.
Lemma venv_now en0 w en : venv en0 w = Ok en -> now en = now en0.
Proof. apply apply_cmds_now'. Qed.

Definition LJ (skip : Z -> Prop) (en0 : fenv) (w : fw) : Prop :=
  okf w = true -> forall en, venv en0 w = Ok en -> J skip w en.

(** J for a world whose devices are those of another one *)
Lemma J_same_devs skip w w' en : f_devs w' = f_devs w -> J skip w en -> J skip w' en.
Proof. intros D H d NS IH. rewrite (getd_other_fields w w' d D) in *. apply H; assumption. Qed.

Lemma J_env skip w en en' : (forall sh d, witness sh d en -> witness sh d en') -> J skip w en -> J skip w en'.
Proof. intros M H d NS IH. apply M, H; assumption. Qed.

(** a device update at [d]: all other devices are untouched *)
Lemma J_updd skip w d f en :
  (amem d (f_devs w) = true -> ~ skip d -> idle_holder (f (getd w d)) -> witness (d_shut (f (getd w d))) d en) ->
  J skip w en -> J skip (updd w d f) en.
Proof.
  intros Hd H d' NS IH. rewrite getd_updd in *. destruct (Z.eqb_spec d' d) as [->|N]; cbn [andb] in *; [|apply H; assumption].
  destruct (amem d (f_devs w)) eqn:M; [apply Hd; auto|apply H; assumption].
Qed.

Lemma okf_emitf w c : okf (emitf w c) = okf w.
Proof. reflexivity. Qed.
Lemma okf_updd w d f : okf (updd w d f) = okf w.
Proof. reflexivity. Qed.

(** * the pieces of the preservation argument *)
Lemma LJ_weaken (skip skip' : Z -> Prop) en0 w : (forall d, skip d -> skip' d) -> LJ skip en0 w -> LJ skip' en0 w.
Proof. intros M L OKF en V d NS IH. apply (L OKF en V d); [intro X; apply NS, M, X|exact IH]. Qed.

Lemma LJ_split (skip : Z -> Prop) d0 en0 w :
  LJ (fun d => skip d \/ d = d0) en0 w ->
  (okf w = true -> forall en, venv en0 w = Ok en -> ~ skip d0 -> idle_holder (getd w d0) -> witness (d_shut (getd w d0)) d0 en) ->
  LJ skip en0 w.
Proof.
  intros L1 L2 OKF en V d NS IH. destruct (Z.eq_dec d d0) as [->|N].
  - apply (L2 OKF en V); assumption.
  - apply (L1 OKF en V d); [intros [X|X]; [exact (NS X)|exact (N X)]|exact IH].
Qed.

Lemma LJ_updd_skip (skip : Z -> Prop) en0 w d f : skip d -> LJ skip en0 w -> LJ skip en0 (updd w d f).
Proof.
  intros SK L OKF en V. rewrite okf_updd in OKF. rewrite (venv_same en0 w (updd w d f) eq_refl) in V.
  apply J_updd; [|apply (L OKF en V)]. intros _ NS. contradiction.
Qed.

Lemma LJ_updd_safe (skip : Z -> Prop) en0 w d g f : jsafe g f -> g (getd w d) -> LJ skip en0 w -> LJ skip en0 (updd w d f).
Proof.
  intros JS G L OKF en V. rewrite okf_updd in OKF. rewrite (venv_same en0 w (updd w d f) eq_refl) in V.
  specialize (L OKF en V). apply J_updd; [|exact L]. intros M NS IH.
  destruct (JS (getd w d) G) as [K [RS [P SH]]]. destruct IH as [IK [IR IP]].
  assert (IH0 : idle_holder (getd w d)) by (split; [congruence|split; [apply RS, IR|apply P; [congruence|exact IP]]]).
  eapply witness_mono; [|apply (L d NS IH0)]. apply SH.
Qed.

Definition emit_ok' (skip : Z -> Prop) (w : fw) (c : fcmd) : Prop :=
  match c with
  | FPause a => skip a \/ d_shut (getd w a) = true
  | FCancel a => skip a \/ d_reserved (getd w a) = None
  | _ => True
  end.

Lemma LJ_emit (skip : Z -> Prop) en0 w c : emit_ok' skip w c -> LJ skip en0 w -> LJ skip en0 (emitf w c).
Proof.
  intros EO L OKF en' V. rewrite okf_emitf in OKF. destruct (venv_emit en0 w c en' V) as [en [V0 AC]].
  specialize (L OKF en V0). apply (J_same_devs skip w); [reflexivity|].
  destruct c as [t p a act|lb sb pl|a|a|a]; cbn in AC.
  - eapply J_env; [|exact L]. intros sh d. apply (witness_quiet sh d en (FSched t p a act)); [exact I|exact AC].
  - eapply J_env; [|exact L]. intros sh d. apply (witness_quiet sh d en (FData lb sb pl)); [exact I|exact AC].
  - injection AC as <-. cbn in EO. intros d NS IH. destruct (Z.eq_dec a d) as [->|N].
    + destruct EO as [EO|EO]; [contradiction|]. rewrite EO. eapply witness_pause_same. apply (L d NS IH).
    + apply witness_pause_other; [exact N|apply (L d NS IH)].
  - injection AC as <-. intros d NS IH. destruct (Z.eq_dec a d) as [->|N].
    + eapply witness_unpause_same. apply (L d NS IH).
    + apply witness_unpause_other; [exact N|apply (L d NS IH)].
  - injection AC as <-. cbn in EO. intros d NS IH. destruct (Z.eq_dec a d) as [->|N].
    + destruct EO as [EO|EO]; [contradiction|]. destruct IH as [_ [IR _]]. contradiction.
    + apply witness_cancel_other; [exact N|apply (L d NS IH)].
Qed.

Lemma LJ_quiet (skip : Z -> Prop) en0 w w' :
  f_devs w' = f_devs w -> (exists l, f_out w' = l ++ f_out w /\ Forall quiet_cmd l) -> (okf w' = true -> okf w = true) ->
  LJ skip en0 w -> LJ skip en0 w'.
Proof.
  intros D [l [O Q]] OK L OKF en' V. rewrite (venv_app en0 w w' l O) in V. destruct (venv en0 w) as [en|en] eqn:V0; [|discriminate].
  specialize (L (OK OKF) en V0). apply (J_same_devs skip w); [exact D|].
  eapply J_env; [|exact L]. intros sh d. apply (witness_quiets sh d (rev l)); [apply Forall_rev, Q|exact V].
Qed.

Lemma LJ_rm_call (skip : Z -> Prop) en0 w f : LJ skip en0 w -> LJ skip en0 (rm_call w f).
Proof. destruct (rm_call_quiet_facts w f) as [A [B C]]. apply LJ_quiet; assumption. Qed.

Lemma LJ_sched_pass (skip : Z -> Prop) en0 nw off w d : skip d -> LJ skip en0 w -> LJ skip en0 (sched_pass nw off w d).
Proof.
  intros SK L. unfold sched_pass. destruct (d_kind (getd w d)); try exact L;
    (apply LJ_emit; [exact I|apply LJ_updd_skip; [exact SK|exact L]]).
Qed.

Lemma sched_pass_fields nw off w d d' :
  d_kind (getd (sched_pass nw off w d) d') = d_kind (getd w d') /\ d_reserved (getd (sched_pass nw off w d) d') = d_reserved (getd w d') /\
  d_part (getd (sched_pass nw off w d) d') = d_part (getd w d') /\ d_shut (getd (sched_pass nw off w d) d') = d_shut (getd w d').
Proof.
  unfold sched_pass. destruct (d_kind (getd w d)); try (repeat split; reflexivity);
    (change (getd (emitf ?a ?c) d') with (getd a d');
     rewrite !(getd_updd_field _ w d (t_waiting_ds false) d') by reflexivity; repeat split; reflexivity).
Qed.

Lemma okf_sched_pass nw off w d : okf (sched_pass nw off w d) = okf w.
Proof. unfold sched_pass. destruct (d_kind (getd w d)); reflexivity. Qed.

(** * every [jstep] preserves the link *)
Theorem jstep_LJ nw skip en0 w w' : now en0 = nw -> jstep nw w w' -> LJ skip en0 w -> LJ skip en0 w'.
Proof.
  intros NW S L. destruct S as [w d g f JS G|w c EO|w w' D O OK|w w' DEAD|w pid f|w d it|w d|w d|w d rq i it1 RQ RV AM SR].
  - eapply LJ_updd_safe; eauto.
  - apply LJ_emit; [|exact L]. destruct c; cbn in *; auto.
  - eapply LJ_quiet; eauto.
  - intros OKF. congruence.
  - (* an id-preserving rewrite of a part *)
    intros OKF en V. specialize (L OKF en V). intros d NS IH.
    assert (E : forall d', d_kind (getd (upd_part_everywhere pid f w) d') = d_kind (getd w d') /\
                           d_reserved (getd (upd_part_everywhere pid f w) d') = d_reserved (getd w d') /\
                           (d_part (getd (upd_part_everywhere pid f w) d') = None -> d_part (getd w d') = None) /\
                           d_shut (getd (upd_part_everywhere pid f w) d') = d_shut (getd w d')).
    { intro d'. unfold upd_part_everywhere, getd. cbn. induction (f_devs w) as [|[k y] l0 IHl]; cbn; [repeat split; auto|].
      destruct (d' =? k); [|exact IHl]. cbn. repeat split; auto. destruct (d_part y); [discriminate|reflexivity]. }
    destruct (E d) as [E1 [E2 [E3 E4]]]. rewrite E4. apply L; [exact NS|]. destruct IH as [A [B C]]. split; [congruence|split; [congruence|auto]].
  - (* finish a cycle, schedule the hand-over and the release *)
    cbv zeta. set (w1 := sched_pass nw 0 (updd w d (t_finish_proc nw it)) d).
    assert (L1 : LJ (fun d' => skip d' \/ d' = d) en0 w1).
    { apply LJ_sched_pass; [right; reflexivity|]. apply LJ_updd_skip; [right; reflexivity|]. eapply LJ_weaken; [|exact L]. auto. }
    destruct (d_reserved (getd w1 d)) eqn:RVD.
    + apply (LJ_split skip d); [apply LJ_emit; [exact I|exact L1]|].
      intros OKF en' V NS IH.
      destruct (venv_emit en0 w1 _ en' V) as [en1 [V1 AC]]. cbn in AC.
      rewrite <- NW, <- (venv_now en0 w1 en1 V1) in AC. eapply witness_new. exact AC.
    + apply (LJ_split skip d); [exact L1|].
      intros OKF en' V NS IH.
      destruct IH as [_ [IR _]]. congruence.
  - (* a failure: the part is lost and the reservation released *)
    apply (LJ_split skip d).
    + unfold release_reserved. set (w0 := updd w d (t_fail_clear nw)).
      assert (L0 : LJ (fun d' => skip d' \/ d' = d) en0 w0) by (apply LJ_updd_skip; [right; reflexivity|eapply LJ_weaken; [|exact L]; auto]).
      destruct (d_reserved (getd w0 d)); [|exact L0]. apply LJ_updd_skip; [right; reflexivity|]. apply LJ_rm_call, L0.
    + intros OKF en' V NS IH.
      destruct IH as [_ [IR _]]. rewrite release_reserved_none in IR. contradiction.
  - (* restore: operational again, the paused events come back *)
    apply (LJ_split skip d).
    + apply LJ_emit; [exact I|]. apply LJ_updd_skip; [right; reflexivity|]. eapply LJ_weaken; [|exact L]. auto.
    + intros OKF en' V NS IH.
      destruct (venv_emit en0 _ _ en' V) as [en [V0 AC]]. cbn in AC. injection AC as <-.
      rewrite (venv_same en0 w (updd w d (t_restore nw)) eq_refl) in V0. rewrite okf_emitf, okf_updd in OKF.
      change (getd (emitf ?a ?c) d) with (getd a d) in *.
      assert (IH0 : idle_holder (getd w d)).
      { rewrite getd_updd, Z.eqb_refl in IH. cbn [andb] in IH. destruct (amem d (f_devs w)); [|exact IH].
        destruct IH as [A [B C]]. unfold t_restore in *. cbn in *. split; [exact A|split; [exact B|exact C]]. }
      eapply witness_unpause_same. apply (L OKF en V0 d); [exact NS|exact IH0].
  - (* reserve and take the part in *)
    apply (LJ_split skip d).
    + apply LJ_updd_skip; [right; reflexivity|]. apply LJ_updd_skip; [right; reflexivity|]. apply LJ_rm_call. eapply LJ_weaken; [|exact L]. auto.
    + intros OKF en' V NS IH.
      destruct IH as [_ [_ IP]]. rewrite getd_updd, Z.eqb_refl in IP. cbn [andb] in IP.
      rewrite amem_updd, (proj1 (rm_call_devs w _)), AM in IP. unfold t_accept_proc, t_accept, dev_set_wait in IP. cbn in IP. discriminate.
Qed.

Theorem RJ_LJ nw skip en0 w w' : now en0 = nw -> RJ nw w w' -> LJ skip en0 w -> LJ skip en0 w'.
Proof. intros NW H. induction H as [|w1 w2 w3 S _ IH]; intro L; [exact L|]. apply IH. eapply jstep_LJ; eauto. Qed.


(** * one action, started in an environment whose pending calls are all applied *)
Lemma LJ_start skip en w : f_out w = [] -> J skip w en -> LJ skip en w.
Proof. intros O H _ en' V. unfold venv in V. rewrite O in V. cbn in V. injection V as <-. exact H. Qed.

Lemma exec_J skip fuel uops a w en en2 :
  f_out w = [] -> J skip w en ->
  okf (exec_fact fuel uops a w (now en)) = true ->
  apply_cmds ws en (snd (flush_f (exec_fact fuel uops a w (now en)))) = Ok en2 ->
  J skip (fst (flush_f (exec_fact fuel uops a w (now en)))) en2.
Proof.
  intros O H OKF A. apply (J_same_devs skip (exec_fact fuel uops a w (now en))); [reflexivity|].
  apply (RJ_LJ (now en) skip en w _ eq_refl (RJ_exec_fact (now en) fuel uops a w) (LJ_start skip en w O H) OKF). exact A.
Qed.

Lemma release_if_idle_not_idle nw w d : ~ idle_holder (getd (release_if_idle nw w d) d).
Proof.
  unfold release_if_idle. set (x := getd w d). intros [_ [IR IP]].
  destruct (negb (operational x) || match d_part x with None => true | Some _ => false end) eqn:C.
  - rewrite release_reserved_none in IR. contradiction.
  - apply orb_false_iff in C. destruct C as [_ C]. fold x in IP. rewrite IP in C. discriminate.
Qed.

Lemma fact_release_dec (a : fact) d : {a = AReleaseIfIdle d} + {a <> AReleaseIfIdle d}.
Proof. destruct a as [x|x|x|x| |m ma|k]; try (right; discriminate). destruct (Z.eq_dec x d) as [->|N]; [left; reflexivity|right; congruence]. Qed.

(** * taking the head of the queue *)
Lemma pop_witness sh d (en : fenv) e q :
  EnvInv.Inv fact en -> queue en = e :: q -> witness sh d en ->
  (e_asset e = d /\ e_act e = Some (AReleaseIfIdle d) /\ e_cancelled e = false) \/ witness sh d (popped fact en e q).
Proof.
  intros [S F _ _ _ _] Q [e' [A [B [C D]]]]. destruct D as [[D1 D2]|D].
  - rewrite Q in D1. destruct D1 as [<-|D1]; [left; auto|]. right. exists e'. repeat split; auto. left. cbn. split; [exact D1|].
    rewrite Q in S, F. inversion S as [|? ? _ FS]; subst. inversion F as [|? ? Fe _]; subst.
    rewrite Forall_forall in FS. pose proof (le_ev_time fact _ _ (FS e' D1)). lia.
  - right. exists e'. repeat split; auto.
Qed.

Definition JS (s : fw * fenv) : Prop :=
  f_out (fst s) = [] /\ EnvInv.Inv fact (snd s) /\ J (fun _ => False) (fst s) (snd s).

Theorem step_JS sc s s' : JS s -> step ws (exec_fl sc) fl_wfail s = Some (Ok s') -> JS s'.
Proof.
  destruct s as [w en]. intros [O [I H]] ST. cbn [fst snd] in *. unfold step in ST.
  destruct (queue en) as [|e q] eqn:Q; [discriminate|].
  pose proof (pop_inv fact en e q I Q) as I1. unfold popped in I1.
  set (en1 := mkEnv (e_time e) q (paused en) (next_eid en) (terminated en) (e :: dispatched en) (datalog en)) in *.
  assert (POP : forall sh d, witness sh d en -> (e_asset e = d /\ e_act e = Some (AReleaseIfIdle d) /\ e_cancelled e = false) \/ witness sh d en1)
    by (intros sh d; apply (pop_witness sh d en e q I Q)).
  destruct (e_cancelled e) eqn:CE.
  - injection ST as <-. split; [exact O|]. split; [exact I1|]. intros d NS IH. destruct (POP _ d (H d NS IH)) as [[_ [_ X]]|X]; [discriminate|exact X].
  - destruct (e_act e) as [a|] eqn:AE.
    + unfold exec_fl in ST.
      set (w1 := exec_fact (fl_fuel w) (fun k => nth k (fq_uops sc) []) a w (e_time e)) in *.
      destruct (flush_f w1) as [w2 cs] eqn:FL.
      destruct (apply_cmds ws en1 cs) as [en2|en2] eqn:AC; [|discriminate].
      destruct (fl_wfail w2) eqn:WF; [discriminate|]. injection ST as <-. cbn [fst snd].
      assert (E2 : w2 = fst (flush_f w1) /\ cs = snd (flush_f w1)) by (rewrite FL; auto). destruct E2 as [-> ->].
      split; [reflexivity|]. split; [pose proof (apply_cmds_inv fact ws (snd (flush_f w1)) en1 I1) as X; rewrite AC in X; exact X|].
      assert (OKF : okf w1 = true) by (unfold fl_wfail in WF; apply negb_false_iff in WF; exact WF).
      set (skip := fun d => a = AReleaseIfIdle d).
      assert (H1 : J skip w en1).
      { intros d NS IH. destruct (POP _ d (H d (fun X => X) IH)) as [[_ [X _]]|X]; [|exact X].
        exfalso. apply NS. unfold skip. congruence. }
      pose proof (exec_J skip (fl_fuel w) (fun k => nth k (fq_uops sc) []) a w en1 en2 O H1 OKF AC) as H2.
      intros d _ IH. destruct (fact_release_dec a d) as [E|NE].
      * exfalso. subst a. cbn [exec_fact] in IH. change (getd (fst (flush_f ?x)) d) with (getd x d) in IH.
        exact (release_if_idle_not_idle _ _ _ IH).
      * apply H2; [exact NE|exact IH].
    + injection ST as <-. split; [exact O|]. split; [apply set_terminated_inv, I1|].
      intros d NS IH. destruct (POP _ d (H d NS IH)) as [[_ [X _]]|X]; [discriminate|].
      destruct X as [e' X]. exists e'. exact X.
Qed.


(** * what the driver does between events *)
Lemma JS_fin (w0 : fw) (en : fenv) (w : fw) s' :
  f_out w0 = [] -> EnvInv.Inv fact en -> J (fun _ => False) w0 en -> RJ (now en) w0 w ->
  (let '(w1, cs) := flush_f w in
   match apply_cmds ws en cs with
   | Ok en' => ((clear_ferr w1, en'), f_err w1)
   | Err en' => ((clear_ferr w1, en'), if f_err w1 =? 0 then 1 else f_err w1)
   end) = (s', 0) -> JS s'.
Proof.
  intros O I H HR. destruct (flush_f w) as [w1 cs] eqn:FL.
  assert (E2 : w1 = fst (flush_f w) /\ cs = snd (flush_f w)) by (rewrite FL; auto). destruct E2 as [-> ->].
  destruct (apply_cmds ws en (snd (flush_f w))) as [en'|en'] eqn:AC.
  - intro E. injection E as <- E0. cbn [fst snd]. split; [reflexivity|].
    split; [pose proof (apply_cmds_inv fact ws (snd (flush_f w)) en I) as X; rewrite AC in X; exact X|].
    apply (J_same_devs _ w); [reflexivity|].
    apply (RJ_LJ (now en) _ en w0 w eq_refl HR (LJ_start _ en w0 O H)); [|exact AC].
    unfold okf. cbn in E0. rewrite E0. reflexivity.
  - intro E. injection E as _ E0. st0 E0.
Qed.

End Idle.

(** * every state a scenario reaches without a Python exception, including every state inside a run *)
Section ReachIn.
Variable sc : fl_scn.
Notation wsd := (wgen (fq_seed sc) (fq_mod sc)).

Inductive reach_in : fw * fenv -> Prop :=
| ri_init s : wf_worldb (fq_world sc) = true -> do_fxop sc (fq_world sc, init_env) FXInit = (s, 0) -> reach_in s
| ri_now s o s' : reach_in s -> do_fxop sc s (FXNow o) = (s', 0) -> reach_in s'
| ri_at s t k p s' : reach_in s -> do_fxop sc s (FXAt t k p) = (s', 0) -> reach_in s'
| ri_step s s' : reach_in s -> step wsd (exec_fl sc) fl_wfail s = Some (Ok s') -> reach_in s'
| ri_start s d en' : reach_in s -> start_run wsd (snd s) d = Ok en' -> reach_in (fst s, en')
| ri_late s d ups s' : reach_in s -> do_fxop sc s (FXLate d ups) = (s', 0) -> reach_in s'.

Lemma no_holder_J skip w en : (forall d, d_reserved (getd w d) = None) -> J skip w en.
Proof. intros N d _ [_ [IR _]]. rewrite N in IR. contradiction. Qed.

Lemma pristine_no_holder w : wf_worldb w = true -> forall d, d_reserved (getd w d) = None.
Proof.
  unfold wf_worldb. intro H. apply andb_true_iff in H. destruct H as [H _]. apply andb_true_iff in H. destruct H as [H _]. apply andb_true_iff in H. destruct H as [PR _].
  rewrite forallb_forall in PR. intro d. unfold getd. destruct (aget d (f_devs w)) as [x|] eqn:Hx; [|reflexivity].
  apply aget_In in Hx. specialize (PR _ Hx). apply (pristine_facts _ PR).
Qed.

Theorem reach_in_JS s : reach_in s -> JS s.
Proof.
  induction 1 as [s WF E|s o s' _ IH E|s t k p s' _ IH E|s s' _ IH E|s d en' _ IH E|s d ups s' _ IH E].
  - (* initialisation: nothing is reserved; the pending output of the initial world plays no role *)
    unfold do_fxop in E. cbn [fst snd] in E.
    set (w0 := fq_world sc) in *. set (w := init_world (fl_fuel w0) (now (init_env (A:=fact))) w0) in *.
    destruct (flush_f w) as [w1 cs] eqn:FL.
    assert (E2 : w1 = fst (flush_f w) /\ cs = snd (flush_f w)) by (rewrite FL; auto). destruct E2 as [-> ->].
    destruct (apply_cmds wsd init_env (snd (flush_f w))) as [en'|en'] eqn:AC.
    + injection E as <- E0. split; [reflexivity|].
      split; [pose proof (apply_cmds_inv fact wsd (snd (flush_f w)) init_env (Inv_init fact)) as X; rewrite AC in X; exact X|].
      cbn [fst snd]. apply (J_same_devs _ w); [reflexivity|].
      assert (L0 : LJ wsd (fun _ => False) init_env w0).
      { intros _ en _. apply no_holder_J, pristine_no_holder, WF. }
      apply (RJ_LJ wsd 0 _ init_env w0 w eq_refl (RJ_init_world 0 (fl_fuel w0) w0) L0); [|exact AC].
      unfold okf. cbn in E0. rewrite E0. reflexivity.
    + injection E as _ E0. st0 E0.
  - destruct IH as [O [I H]]. unfold do_fxop in E.
    apply (JS_fin wsd (fst s) (snd s) (run_uop (fl_fuel (fst s)) (now (snd s)) (fst s) o) s' O I H); [apply RJ_run_uop|exact E].
  - destruct IH as [O [I H]]. unfold do_fxop in E.
    destruct (apply_cmd wsd (snd s) (CSched t p (-5) (AUser k))) as [en'|en'] eqn:AC; [|discriminate].
    injection E as <-. cbn [fst snd]. split; [exact O|].
    split; [pose proof (apply_cmd_inv fact wsd (snd s) _ _ I AC) as X; exact X|].
    eapply J_env; [|exact H]. intros sh d. apply (witness_quiet wsd sh d (snd s) (FSched t p (-5) (AUser k))); [exact Logic.I|exact AC].
  - eapply step_JS; eauto.
  - destruct IH as [O [I H]]. cbn [fst snd]. split; [exact O|].
    split; [pose proof (start_run_inv fact wsd (snd s) d I) as X; rewrite E in X; exact X|].
    unfold start_run, schedule in E. cbn in E. destruct (now (snd s) + d <? now (snd s)); [discriminate|]. injection E as <-.
    intros d' NS IH'. destruct (H d' NS IH') as [e' [A [B [C D]]]]. exists e'. repeat split; auto. cbn.
    destruct D as [[D1 D2]|D]; [left; split; [apply (insort_in fact); right; exact D1|exact D2]|right; exact D].
  - destruct IH as [O [I H]]. unfold do_fxop in E.
    apply (JS_fin wsd (fst s) (snd s) (late_create (fl_fuel (fst s)) (now (snd s)) (fst s) d ups) s' O I H); [apply RJ_late_create|exact E].
Qed.

(** the driver's own reachability (whole runs), restricted to histories without an exception, is covered *)
Inductive reach_ok : fw * fenv -> Prop :=
| ro_init s : wf_worldb (fq_world sc) = true -> do_fxop sc (fq_world sc, init_env) FXInit = (s, 0) -> reach_ok s
| ro_op s x s' : reach_ok s -> x <> FXInit -> do_fxop sc s x = (s', 0) -> reach_ok s'.

Lemma loop_reach_in fuel : forall s s', reach_in s -> loop wsd (exec_fl sc) fl_wfail fuel s = Some (Ok s') -> reach_in s'.
Proof.
  induction fuel as [|f IH]; intros s s' HR H; cbn in H.
  - destruct (queue (snd s)); [injection H as <-; exact HR|]. destruct (terminated (snd s)); [injection H as <-; exact HR|discriminate].
  - destruct (queue (snd s)) eqn:Q; [injection H as <-; exact HR|]. destruct (terminated (snd s)); [injection H as <-; exact HR|].
    destruct (step wsd (exec_fl sc) fl_wfail s) as [[s1|s1]|] eqn:ST.
    + apply (IH s1 s'); [eapply ri_step; eauto|exact H].
    + discriminate.
    + injection H as <-. exact HR.
Qed.

Theorem reach_ok_in s : reach_ok s -> reach_in s.
Proof.
  induction 1 as [s WF E|s x s' _ IH NX E]; [eapply ri_init; eauto|].
  destruct x as [| |d|t k p|o|d ups].
  - contradiction.
  - unfold do_fxop in E. destruct (step wsd (exec_fl sc) fl_wfail s) as [[s1|s1]|] eqn:ST; cbn in E.
    + injection E as <-. eapply ri_step; eauto.
    + injection E as _ E. st0 E.
    + discriminate.
  - unfold do_fxop in E. unfold run in E. destruct (start_run wsd (snd s) d) as [en|en] eqn:SR.
    + match type of E with context[loop ?a ?b ?c ?n ?st] => destruct (loop a b c n st) as [[s1|s1]|] eqn:RN end; cbn in E.
      * injection E as <-. eapply loop_reach_in; [|exact RN]. eapply ri_start; eauto.
      * injection E as _ E. st0 E.
      * discriminate.
    + cbn in E. injection E as _ E. st0 E.
  - eapply ri_at; eauto.
  - eapply ri_now; eauto.
  - eapply ri_late; eauto.
Qed.

(** * C11, last clause *)
Theorem idle_processor_holds_nothing s :
  reach_in s -> (forall e, In e (queue (snd s)) -> now (snd s) < e_time e) ->
  forall d, d_kind (getd (fst s) d) = KProcessor -> d_shut (getd (fst s) d) = false -> d_part (getd (fst s) d) = None ->
  d_reserved (getd (fst s) d) = None.
Proof.
  intros HR ADV d K SH P. destruct (reach_in_JS s HR) as [_ [_ H]].
  destruct (d_reserved (getd (fst s) d)) eqn:RV; [|reflexivity]. exfalso.
  destruct (H d (fun X => X)) as [e [_ [_ [_ [[D1 D2]|[_ [_ D3]]]]]]].
  - split; [exact K|split; [congruence|exact P]].
  - specialize (ADV e D1). lia.
  - congruence.
Qed.

(** ... and what holds at every instant, not only when time advances: an idle holder always has its release pending *)
Theorem idle_holder_release_pending s d :
  reach_in s -> idle_holder (getd (fst s) d) -> witness (d_shut (getd (fst s) d)) d (snd s).
Proof. intros HR IH. destruct (reach_in_JS s HR) as [_ [_ H]]. apply H; [intro X; exact X|exact IH]. Qed.

End ReachIn.

(** helpers for concrete examples: n single steps, all without exception *)
Fixpoint fx_steps (sc : fl_scn) (n : nat) (s : fw * fenv) : fw * fenv :=
  match n with O => s | S k => fx_steps sc k (fst (do_fxop sc s FXStep)) end.
Fixpoint fx_all_ok (sc : fl_scn) (n : nat) (s : fw * fenv) : bool :=
  match n with O => true | S k => (snd (do_fxop sc s FXStep) =? 0) && fx_all_ok sc k (fst (do_fxop sc s FXStep)) end.
Lemma fx_steps_reach sc n : forall s, reach_ok sc s -> fx_all_ok sc n s = true -> reach_ok sc (fx_steps sc n s).
Proof.
  induction n as [|n IH]; intros s HR OK; cbn [fx_steps fx_all_ok] in *; [exact HR|]. apply andb_true_iff in OK. destruct OK as [O1 O2].
  apply IH; [|exact O2]. apply (ro_op sc s FXStep); [exact HR|discriminate|].
  apply Z.eqb_eq in O1. rewrite <- O1. destruct (do_fxop sc s FXStep); reflexivity.
Qed.
