(** Invariants of the generic event system, for every action behaviour [exec],
    every weight source and every interleaving of internal and external calls. *)
From Coq Require Import ZArith List Bool Lia Sorting.Sorted Sorting.Permutation.
From SimVerif Require Import Model.Base Model.Env Proofs.Lex.
Import ListNotations.
Open Scope Z_scope.

Section EnvInv.
  Variable A : Type.
  Variable W : Type.
  Variable wsrc : nat -> Z.
  Variable exec : A -> W -> Z -> W * list (cmd A).
  Variable wfail : W -> bool.

  Notation event := (event A).
  Notation env := (env A).

  Definition le_ev (a b : event) : Prop := ev_ltb b a = false.

  Lemma key_len (e : event) : length (key e) = 4%nat.
  Proof. reflexivity. Qed.

  Lemma le_ev_refl a : le_ev a a.
  Proof. apply lex_ltb_irrefl. Qed.

  Lemma le_ev_trans a b c : le_ev a b -> le_ev b c -> le_ev a c.
  Proof.
    unfold le_ev, ev_ltb. intros H1 H2.
    apply (lex_le_trans (key a) (key b) (key c)); auto.
  Qed.

  Lemma lt_le_ev a b : ev_ltb a b = true -> le_ev a b.
  Proof. apply lex_ltb_asym. Qed.

  Lemma key_eq (e : event) : key e = [e_time e; - e_prio e; e_w e; e_asset e].
  Proof. reflexivity. Qed.

  Lemma le_ev_time a b : le_ev a b -> e_time a <= e_time b.
  Proof. unfold le_ev, ev_ltb. rewrite !key_eq. apply lex_le_hd. Qed.

  Lemma le_ev_prio a b : le_ev a b -> e_time a = e_time b -> e_prio b <= e_prio a.
  Proof.
    unfold le_ev, ev_ltb. rewrite !key_eq. intros H E.
    pose proof (lex_le_hd2 _ _ _ _ _ _ H E). lia.
  Qed.

  (** * insort *)
  Lemma insort_perm (e : event) l : Permutation (insort e l) (e :: l).
  Proof.
    induction l as [|x l IH]; cbn; [reflexivity|].
    destruct (ev_ltb e x); [reflexivity|].
    rewrite IH. apply perm_swap.
  Qed.

  Lemma insort_in (e : event) l x : In x (insort e l) <-> x = e \/ In x l.
  Proof.
    split; intro H.
    - apply (Permutation_in _ (insort_perm e l)) in H. destruct H; auto.
    - apply (Permutation_in _ (Permutation_sym (insort_perm e l))). destruct H; [left|right]; auto.
  Qed.

  Lemma insort_sorted (e : event) l : StronglySorted le_ev l -> StronglySorted le_ev (insort e l).
  Proof.
    induction l as [|x l IH]; intro S; cbn.
    - constructor; constructor.
    - inversion S as [|? ? S' F]; subst.
      destruct (ev_ltb e x) eqn:E.
      + constructor; [exact S|]. constructor; [apply lt_le_ev; exact E|].
        rewrite Forall_forall in *. intros y Hy. eapply le_ev_trans; [apply lt_le_ev; exact E|]. auto.
      + constructor; [auto|]. rewrite Forall_forall in *. intros y Hy.
        apply insort_in in Hy. destruct Hy as [->|Hy]; [exact E|auto].
  Qed.

  Lemma filter_sorted (f : event -> bool) l : StronglySorted le_ev l -> StronglySorted le_ev (filter f l).
  Proof.
    induction 1 as [|x l S IH F]; cbn; [constructor|].
    destruct (f x); [|exact IH]. constructor; [exact IH|].
    rewrite Forall_forall in *. intros y Hy. apply filter_In in Hy. apply F, Hy.
  Qed.

  Lemma filter_split (f : event -> bool) l :
    Permutation l (filter (fun e => negb (f e)) l ++ filter f l).
  Proof.
    induction l as [|x l IH]; cbn; [reflexivity|].
    destruct (f x); cbn.
    - rewrite IH at 1. apply Permutation_middle.
    - constructor. exact IH.
  Qed.

  Lemma map_sorted (g : event -> event) l :
    (forall e, key (g e) = key e) -> StronglySorted le_ev l -> StronglySorted le_ev (map g l).
  Proof.
    intros K. induction 1 as [|x l S IH F]; cbn; constructor; [exact IH|].
    rewrite Forall_forall in *. intros y Hy. apply in_map_iff in Hy. destruct Hy as [z [<- Hz]].
    unfold le_ev, ev_ltb. rewrite !K. apply F, Hz.
  Qed.

  Lemma fold_insort_perm (g : event -> event) hit q :
    Permutation (fold_left (fun q e => insort (g e) q) hit q) (q ++ map g hit).
  Proof.
    revert q. induction hit as [|e hit IH]; intro q; cbn; [rewrite app_nil_r; reflexivity|].
    rewrite IH. rewrite insort_perm. cbn. apply Permutation_middle.
  Qed.

  Lemma fold_insort_sorted (g : event -> event) hit q :
    StronglySorted le_ev q -> StronglySorted le_ev (fold_left (fun q e => insort (g e) q) hit q).
  Proof.
    revert q. induction hit as [|e hit IH]; intros q S; cbn; [exact S|].
    apply IH, insort_sorted, S.
  Qed.

  (** * The invariant *)
  Definition all_events (en : env) : list event := queue en ++ paused en ++ dispatched en.

  Record Inv (en : env) : Prop := {
    inv_sorted : StronglySorted le_ev (queue en);
    inv_future : Forall (fun e => now en <= e_time e) (queue en);
    inv_paused : Forall (fun e => exists p, e_paused_at e = Some p /\ p <= now en /\ p <= e_time e) (paused en);
    inv_ids : NoDup (map e_id (all_events en));
    inv_fresh : Forall (fun e => (e_id e < next_eid en)%nat) (all_events en);
    inv_disp : Forall (fun e => e_time e <= now en) (dispatched en) }.

  Lemma NoDup_app_l {X} (l l' : list X) : NoDup (l ++ l') -> NoDup l.
  Proof.
    induction l as [|x l IH]; cbn; [constructor|]. intro H. inversion H; subst.
    constructor; [|auto]. intro Hin. apply H2. apply in_or_app. auto.
  Qed.

  Lemma NoDup_app_disj {X} (l l' : list X) x : NoDup (l ++ l') -> In x l -> In x l' -> False.
  Proof.
    induction l as [|y l IH]; cbn; [tauto|]. intros H [->|Hin] H'.
    - inversion H; subst. apply H2. apply in_or_app. auto.
    - inversion H; subst. auto.
  Qed.

  Lemma inv_queue_paused_disj (en : env) x y : Inv en -> In x (queue en) -> In y (paused en) -> e_id x <> e_id y.
  Proof.
    intros [_ _ _ N _ _] Hx Hy E. unfold all_events in N. rewrite app_assoc, map_app in N.
    apply NoDup_app_l in N. rewrite map_app in N.
    eapply NoDup_app_disj; [exact N|apply in_map, Hx|rewrite E; apply in_map, Hy].
  Qed.

  Lemma inv_queue_head_unique (en : env) e q e' : Inv en -> queue en = e :: q -> In e' q -> e_id e <> e_id e'.
  Proof.
    intros [_ _ _ N _ _] Q H E. unfold all_events in N. rewrite Q in N. cbn in N.
    inversion N as [|? ? Nin _]; subst. apply Nin. rewrite map_app. apply in_or_app. left.
    rewrite E. apply in_map, H.
  Qed.

  Lemma Inv_init : Inv init_env.
  Proof. split; cbn; constructor. Qed.

  Lemma NoDup_map_perm (l l' : list event) :
    Permutation l l' -> NoDup (map e_id l) -> NoDup (map e_id l').
  Proof. intros P. apply Permutation_NoDup, Permutation_map, P. Qed.

  Lemma Forall_perm (P : event -> Prop) (l l' : list event) :
    Permutation l l' -> Forall P l -> Forall P l'.
  Proof. intros Pm F. rewrite Forall_forall in *. intros x Hx. apply F. eapply Permutation_in; [symmetry; exact Pm|exact Hx]. Qed.

  Lemma schedule_inv (en : env) t p a act en' :
    Inv en -> schedule wsrc en t p a act = Ok en' -> Inv en'.
  Proof.
    intros I H. unfold schedule in H. destruct (t <? now en) eqn:Ht; [discriminate|].
    apply Z.ltb_ge in Ht. injection H as <-. destruct I as [S F P N R D].
    set (e := mkEvent (next_eid en) t p (wsrc (next_eid en)) a act None false).
    assert (PM : Permutation (insort e (queue en) ++ paused en ++ dispatched en)
                             (e :: queue en ++ paused en ++ dispatched en)).
    { change (e :: queue en ++ paused en ++ dispatched en) with ((e :: queue en) ++ paused en ++ dispatched en).
      apply Permutation_app_tail, insort_perm. }
    split; cbn -[insort].
    - apply insort_sorted, S.
    - eapply Forall_perm; [symmetry; apply insort_perm|]. constructor; [cbn; lia|exact F].
    - exact P.
    - unfold all_events in *; cbn -[insort]. eapply NoDup_map_perm; [symmetry; exact PM|].
      cbn. constructor; [|exact N]. intro Hin. apply in_map_iff in Hin. destruct Hin as [x [Hx Hin]].
      rewrite Forall_forall in R. apply R in Hin. lia.
    - unfold all_events in *; cbn -[insort]. eapply Forall_perm; [symmetry; exact PM|].
      constructor; [cbn; lia|]. eapply Forall_impl; [|exact R]. cbn. intros; lia.
    - exact D.
  Qed.

  Lemma schedule_err (en : env) t p a act en' :
    schedule wsrc en t p a act = Err en' -> en' = en /\ t < now en.
  Proof.
    unfold schedule. destruct (t <? now en) eqn:Ht; [|discriminate].
    intros H; injection H as <-. apply Z.ltb_lt in Ht. auto.
  Qed.

  Lemma schedule_ok_iff (en : env) t p a act :
    (exists en', schedule wsrc en t p a act = Ok en') <-> now en <= t.
  Proof.
    unfold schedule. destruct (t <? now en) eqn:Ht.
    - apply Z.ltb_lt in Ht. split; [intros [? ?]; discriminate|lia].
    - apply Z.ltb_ge in Ht. split; [lia|eauto].
  Qed.

  Lemma pause_inv (en : env) a : Inv en -> Inv (pause en a).
  Proof.
    intros [S F P N R D].
    assert (PM : Permutation (all_events (pause en a))
                  (map (fun e => if matches a e then stamp (now en) e else e) (queue en) ++ paused en ++ dispatched en)).
    { unfold all_events; cbn.
      assert (Pq : Permutation (filter (fun e => negb (matches a e)) (queue en) ++ map (stamp (now en)) (filter (matches a) (queue en)))
                               (map (fun e => if matches a e then stamp (now en) e else e) (queue en))).
      { clear. induction (queue en) as [|x l IH]; cbn; [reflexivity|].
        destruct (matches a x); cbn.
        - rewrite <- Permutation_middle. constructor. exact IH.
        - constructor. exact IH. }
      rewrite <- Pq. rewrite <- !app_assoc. apply Permutation_app_head.
      apply Permutation_app_swap_app. }
    split; cbn.
    - apply filter_sorted, S.
    - rewrite Forall_forall in *. intros x Hx. apply filter_In in Hx. apply F, Hx.
    - apply Forall_app; split; [exact P|].
      rewrite Forall_forall in *. intros x Hx. apply in_map_iff in Hx. destruct Hx as [y [<- Hy]].
      apply filter_In in Hy. destruct Hy as [Hy _]. apply F in Hy. exists (now en). cbn. repeat split; lia.
    - eapply NoDup_map_perm; [symmetry; exact PM|].
      rewrite map_app, map_map.
      replace (map (fun x => e_id (if matches a x then stamp (now en) x else x)) (queue en)) with (map e_id (queue en)).
      + unfold all_events in N. rewrite map_app in N. exact N.
      + apply map_ext. intros x. destruct (matches a x); reflexivity.
    - eapply Forall_perm; [symmetry; exact PM|].
      unfold all_events in R. apply Forall_app in R. destruct R as [R1 R2]. apply Forall_app; split; [|exact R2].
      rewrite Forall_forall in *. intros x Hx. apply in_map_iff in Hx. destruct Hx as [y [<- Hy]].
      destruct (matches a y); cbn; apply R1, Hy.
    - exact D.
  Qed.

  Lemma resumed_id t (e : event) : e_id (resumed t e) = e_id e.
  Proof. reflexivity. Qed.

  Lemma unpause_inv (en : env) a : Inv en -> Inv (unpause en a).
  Proof.
    intros [S F P N R D].
    pose (hit := filter (matches a) (paused en)).
    pose (rest := filter (fun e => negb (matches a e)) (paused en)).
    assert (PQ : Permutation (queue (unpause en a)) (queue en ++ map (resumed (now en)) hit))
      by apply fold_insort_perm.
    assert (PM : Permutation (all_events (unpause en a))
                  (queue en ++ (map (resumed (now en)) hit ++ rest) ++ dispatched en)).
    { unfold all_events. rewrite PQ. cbn. rewrite <- !app_assoc. reflexivity. }
    assert (PP : Permutation (paused en) (rest ++ hit)) by apply filter_split.
    split.
    - apply fold_insort_sorted, S.
    - eapply Forall_perm; [symmetry; exact PQ|]. apply Forall_app; split; [exact F|].
      rewrite Forall_forall in *. intros x Hx. apply in_map_iff in Hx. destruct Hx as [y [<- Hy]].
      apply filter_In in Hy. destruct Hy as [Hy _]. apply P in Hy. destruct Hy as [p [E [H1 H2]]].
      cbn. unfold resume_time. rewrite E. lia.
    - cbn. rewrite Forall_forall in *. intros x Hx. apply filter_In in Hx. apply P, Hx.
    - eapply NoDup_map_perm; [symmetry; exact PM|].
      rewrite !map_app, map_map. cbn.
      unfold all_events in N. rewrite !map_app in N.
      eapply Permutation_NoDup; [|exact N].
      apply Permutation_app_head. apply Permutation_app_tail.
      rewrite (Permutation_map e_id PP). rewrite map_app. apply Permutation_app_comm.
    - eapply Forall_perm; [symmetry; exact PM|].
      unfold all_events in R. apply Forall_app in R. destruct R as [R1 R2]. apply Forall_app in R2. destruct R2 as [R2 R3].
      apply Forall_app; split; [exact R1|]. apply Forall_app; split; [|exact R3].
      apply Forall_app; split; rewrite Forall_forall in *.
      + intros x Hx. apply in_map_iff in Hx. destruct Hx as [y [<- Hy]]. apply filter_In in Hy. cbn. apply R2, Hy.
      + intros x Hx. apply filter_In in Hx. apply R2, Hx.
    - exact D.
  Qed.

  Lemma cancel_key a (e : event) : key (if matches a e then cancel_ev e else e) = key e.
  Proof. destruct (matches a e); reflexivity. Qed.

  Lemma cancel_inv (en : env) a : Inv en -> Inv (cancel en a).
  Proof.
    intros [S F P N R D].
    set (f := fun e : event => if matches a e then cancel_ev e else e).
    assert (Hid : forall l, map e_id (map f l) = map e_id l).
    { intros l. rewrite map_map. apply map_ext. intros x. unfold f. destruct (matches a x); reflexivity. }
    split; cbn; fold f.
    - apply map_sorted; [apply cancel_key|exact S].
    - rewrite Forall_forall in *. intros x Hx. apply in_map_iff in Hx. destruct Hx as [y [<- Hy]].
      unfold f. destruct (matches a y); cbn; apply F, Hy.
    - rewrite Forall_forall in *. intros x Hx. apply in_map_iff in Hx. destruct Hx as [y [<- Hy]].
      unfold f. destruct (matches a y); cbn; apply P, Hy.
    - unfold all_events in *; cbn; fold f. rewrite !map_app in *. rewrite !Hid. exact N.
    - unfold all_events in *; cbn; fold f.
      apply Forall_app in R. destruct R as [R1 R2]. apply Forall_app in R2. destruct R2 as [R2 R3].
      apply Forall_app; split; [|apply Forall_app; split; [|exact R3]];
        rewrite Forall_forall in *; intros x Hx; apply in_map_iff in Hx; destruct Hx as [y [<- Hy]];
        unfold f; destruct (matches a y); cbn; auto.
    - exact D.
  Qed.

  Lemma add_data_inv (en : env) l s d : Inv en -> Inv (add_data en l s d).
  Proof. intros [S F P N R D]. split; assumption. Qed.

  Lemma apply_cmd_inv (en : env) c r : Inv en -> apply_cmd wsrc en c = r -> Inv (res_val r).
  Proof.
    intros I <-. destruct c; cbn.
    - destruct (schedule wsrc en t prio asset (Some a)) eqn:E; cbn.
      + eapply schedule_inv; eauto.
      + apply schedule_err in E. destruct E as [-> _]. exact I.
    - apply pause_inv, I.
    - apply unpause_inv, I.
    - apply cancel_inv, I.
    - apply add_data_inv, I.
  Qed.

  Lemma apply_cmds_inv cs : forall en : env, Inv en -> Inv (res_val (apply_cmds wsrc en cs)).
  Proof.
    induction cs as [|c cs IH]; intros en I; cbn; [exact I|].
    destruct (apply_cmd wsrc en c) eqn:E.
    - apply IH. apply (apply_cmd_inv en c _ I E).
    - cbn. apply (apply_cmd_inv en c _ I E).
  Qed.

  (** Popping the head: clock := its time. *)
  Definition popped (en : env) (e : event) (q : list event) : env :=
    mkEnv (e_time e) q (paused en) (next_eid en) (terminated en) (e :: dispatched en) (datalog en).

  Lemma pop_inv (en : env) e q : Inv en -> queue en = e :: q -> Inv (popped en e q).
  Proof.
    intros [S F P N R D] Q. rewrite Q in *.
    inversion S as [|? ? S' FS]; subst. inversion F as [|? ? Fe F']; subst.
    assert (PM : Permutation (q ++ paused en ++ e :: dispatched en) ((e :: q) ++ paused en ++ dispatched en)).
    { cbn. rewrite !app_assoc. symmetry. apply Permutation_middle. }
    split; cbn.
    - exact S'.
    - rewrite Forall_forall in *. intros x Hx. apply le_ev_time. apply FS, Hx.
    - rewrite Forall_forall in *. intros x Hx. destruct (P x Hx) as [p [E [H1 H2]]]. exists p. repeat split; auto; lia.
    - unfold all_events in *; cbn. rewrite Q in N. eapply NoDup_map_perm; [symmetry; exact PM|exact N].
    - unfold all_events in *; cbn. rewrite Q in R. eapply Forall_perm; [symmetry; exact PM|exact R].
    - constructor; [lia|]. eapply Forall_impl; [|exact D]. cbn. intros; lia.
  Qed.

  Lemma set_terminated_inv (en : env) b : Inv en -> Inv (set_terminated en b).
  Proof. intros [S F P N R D]. split; assumption. Qed.

  Notation state := (W * env)%type.
  Notation step := (step wsrc exec wfail).

  Lemma step_inv s r : Inv (snd s) -> step s = Some r -> Inv (snd (res_val r)).
  Proof.
    destruct s as [w en]. cbn [snd]. intros I H. unfold Env.step in H.
    destruct (queue en) as [|e q] eqn:Q; [discriminate|].
    pose proof (pop_inv en e q I Q) as I1. unfold popped in I1.
    destruct (e_cancelled e).
    - injection H as <-. exact I1.
    - destruct (e_act e) as [a|].
      + destruct (exec a w (e_time e)) as [w' cs].
        pose proof (apply_cmds_inv cs _ I1) as I2.
        destruct (apply_cmds wsrc _ cs); [destruct (wfail w')|]; injection H as <-; exact I2.
      + injection H as <-. cbn. apply set_terminated_inv, I1.
  Qed.

  Lemma step_none s : step s = None -> queue (snd s) = [].
  Proof.
    destruct s as [w en]. unfold Env.step. cbn [snd]. destruct (queue en) as [|e q]; [reflexivity|].
    destruct (e_cancelled e); [discriminate|]. destruct (e_act e) as [a|]; [|discriminate].
    destruct (exec a w (e_time e)) as [w' cs]. destruct (apply_cmds wsrc _ cs); [destruct (wfail w')|]; discriminate.
  Qed.

  (** * Reachability: any interleaving of steps and external calls.  The
      world may be changed arbitrarily by an external call. *)
  Inductive ext_op :=
  | XCmd (c : cmd A)                 (* schedule / pause / unpause / cancel / datapoint from outside *)
  | XStartRun (d : Z)                (* the prologue of Environment.run *)
  | XWorld (w' : W).                 (* any outside mutation of the model objects *)

  Definition do_ext (s : state) (x : ext_op) : state :=
    match x with
    | XCmd c => (fst s, res_val (apply_cmd wsrc (snd s) c))
    | XStartRun d => (fst s, res_val (start_run wsrc (snd s) d))
    | XWorld w' => (w', snd s)
    end.

  Inductive reach : state -> Prop :=
  | reach_init w : reach (w, init_env)
  | reach_step s r : reach s -> step s = Some r -> reach (res_val r)
  | reach_ext s x : reach s -> reach (do_ext s x).

  Lemma start_run_inv (en : env) d : Inv en -> Inv (res_val (start_run wsrc en d)).
  Proof.
    intros I. unfold start_run.
    destruct (schedule wsrc (set_terminated en false) (now en + d) P_TERMINATE (-1) None) eqn:E; cbn.
    - eapply schedule_inv; [|exact E]. apply set_terminated_inv, I.
    - apply schedule_err in E. destruct E as [-> _]. apply set_terminated_inv, I.
  Qed.

  Theorem reach_inv s : reach s -> Inv (snd s).
  Proof.
    induction 1 as [w|s r R IH H|s x R IH].
    - apply Inv_init.
    - eapply step_inv; eauto.
    - destruct x; cbn.
      + eapply apply_cmd_inv; eauto.
      + apply start_run_inv, IH.
      + exact IH.
  Qed.

  (** * C01 consequences *)

  (** The dispatched event is minimal: smallest time, and among equal times the
      highest priority (then smallest weight, then smallest asset id). *)
  Theorem step_takes_minimum s r e q :
    reach s -> queue (snd s) = e :: q -> step s = Some r ->
    (forall e', In e' q -> le_ev e e') /\
    (forall e', In e' q -> e_time e <= e_time e') /\
    (forall e', In e' q -> e_time e' = e_time e -> e_prio e' <= e_prio e) /\
    now (snd s) <= e_time e.
  Proof.
    intros R Q _. apply reach_inv in R. destruct R as [S F _ _ _ _]. rewrite Q in *.
    inversion S as [|? ? S' FS]; subst. inversion F; subst. rewrite Forall_forall in FS.
    repeat split; auto.
    - intros e' H. apply le_ev_time, FS, H.
    - intros e' H E. apply le_ev_prio; [apply FS, H|congruence].
  Qed.

  Lemma apply_cmd_now (en : env) c : now (res_val (apply_cmd wsrc en c)) = now en.
  Proof.
    destruct c; cbn; try reflexivity.
    unfold schedule. destruct (t <? now en); reflexivity.
  Qed.

  Lemma apply_cmds_now cs : forall en : env, now (res_val (apply_cmds wsrc en cs)) = now en.
  Proof.
    induction cs as [|c cs IH]; intro en; cbn; [reflexivity|].
    pose proof (apply_cmd_now en c) as H.
    destruct (apply_cmd wsrc en c); cbn in *; [rewrite IH|]; exact H.
  Qed.

  (** The clock equals the time of the event being executed. *)
  Theorem step_clock s r e q :
    queue (snd s) = e :: q -> step s = Some r -> now (snd (res_val r)) = e_time e.
  Proof.
    destruct s as [w en]; cbn [snd]. intros Q H. unfold Env.step in H. rewrite Q in H.
    destruct (e_cancelled e); [injection H as <-; reflexivity|].
    destruct (e_act e) as [a|]; [|injection H as <-; reflexivity].
    destruct (exec a w (e_time e)) as [w' cs].
    match type of H with context[apply_cmds wsrc ?en1 cs] => pose proof (apply_cmds_now cs en1) as N end.
    destruct (apply_cmds wsrc _ cs); [destruct (wfail w')|]; injection H as <-; exact N.
  Qed.

  (** ... and never decreases. *)
  Theorem clock_monotone s r :
    reach s -> step s = Some r -> now (snd s) <= now (snd (res_val r)).
  Proof.
    intros R H. destruct (queue (snd s)) as [|e q] eqn:Q.
    - destruct s as [w en]. unfold Env.step in H. cbn in Q. rewrite Q in H. discriminate.
    - rewrite (step_clock s r e q Q H).
      destruct (step_takes_minimum s r e q R Q H) as [_ [_ [_ L]]]. exact L.
  Qed.

  Lemma do_ext_now s x : now (snd (do_ext s x)) = now (snd s).
  Proof.
    destruct x; cbn; [apply apply_cmd_now| |reflexivity].
    unfold start_run, schedule; cbn. destruct (_ <? _); reflexivity.
  Qed.

  (** Scheduling before the current time is rejected and changes nothing. *)
  Theorem schedule_past_rejected (en : env) t p a act :
    t < now en -> schedule wsrc en t p a act = Err en.
  Proof. intro H. unfold schedule. apply Z.ltb_lt in H. rewrite H. reflexivity. Qed.

  Lemma NoDup_app_r {X} (l l' : list X) : NoDup (l ++ l') -> NoDup l'.
  Proof. induction l as [|x l IH]; cbn; [auto|]. intro H. inversion H; auto. Qed.

  (** At most once: no event id is dispatched twice, and a dispatched event is
      never again pending or paused. *)
  Theorem at_most_once s :
    reach s -> NoDup (map e_id (dispatched (snd s))) /\
               (forall e e', In e (dispatched (snd s)) -> In e' (queue (snd s) ++ paused (snd s)) -> e_id e <> e_id e').
  Proof.
    intro R. apply reach_inv in R. destruct R as [_ _ _ N _ _]. unfold all_events in N.
    rewrite app_assoc, map_app in N. split.
    - apply NoDup_app_r in N. exact N.
    - intros e e' H1 H2 E.
      assert (In (e_id e') (map e_id (queue (snd s) ++ paused (snd s)))) as I1 by (apply in_map, H2).
      assert (In (e_id e) (map e_id (dispatched (snd s)))) as I2 by (apply in_map, H1).
      rewrite E in I2. clear - N I1 I2.
      induction (map e_id (queue (snd s) ++ paused (snd s))) as [|x l IH]; [destruct I1|].
      cbn in N. inversion N; subst. destruct I1 as [->|I1]; [|auto].
      apply H1. apply in_or_app. right. exact I2.
  Qed.

End EnvInv.
