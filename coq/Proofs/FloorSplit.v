(** C14 for the floor system: a run of the floor can be split.  The run-split theorem (EnvSplit.v) asks that every action only
    makes well-formed environment calls, for every world; the floor's actions do so from every GOOD world (no pending output, no
    device numbered -1 — the marker's id), and good worlds stay good.  [exec_flg] is [exec_fl] made total over bad worlds (it does
    nothing there); on good worlds the two run identically. *)
From Coq Require Import ZArith List Bool Lia Sorting.Sorted Sorting.Permutation.
From RecordUpdate Require Import RecordUpdate.
From SimVerif Require Import Model.Base Model.Env Model.FamEnv Model.RM Model.Maint Model.FloorTypes Model.Floor Model.FamFloor.
From SimVerif Require Import Proofs.RMInv Proofs.EnvInv Proofs.EnvRun Proofs.EnvRepro Proofs.EnvSplit Proofs.FloorSteps Proofs.FloorLink Proofs.FloorCmd.
Import ListNotations.
Open Scope Z_scope.

Definition wgood (w : fw) : bool := (match f_out w with [] => true | _ => false end) && negb (amem (-1) (f_devs w)).

Definition exec_flg (sc : fl_scn) (a : fact) (w : fw) (nw : Z) : fw * list (cmd fact) :=
  if wgood w then exec_fl sc a w nw else (w, []).

Lemma wgood_facts w : wgood w = true -> f_out w = [] /\ amem (-1) (f_devs w) = false.
Proof. unfold wgood. intro H. apply andb_true_iff in H. destruct H as [A B]. destruct (f_out w); [|discriminate]. apply negb_true_iff in B. auto. Qed.

Lemma cmdok_cmd_ok w c : amem (-1) (f_devs w) = false -> cmdok w c -> EnvSplit.cmd_ok fact (to_cmd_f c).
Proof. intros N H. destruct c; cbn in *; auto; intro E; subst; congruence. Qed.

Lemma exec_fl_good sc a w nw : wgood w = true ->
  wgood (fst (exec_fl sc a w nw)) = true /\ Forall (EnvSplit.cmd_ok fact) (snd (exec_fl sc a w nw)).
Proof.
  intro G. destruct (wgood_facts w G) as [O N]. unfold exec_fl, flush_f. cbn [fst snd].
  set (w1 := exec_fact (fl_fuel w) (fun k => nth k (fq_uops sc) []) a w nw).
  pose proof (RO_amem nw w w1 (RO_exec_fact nw _ _ a w) (-1)) as A1. rewrite N in A1.
  split.
  - unfold wgood. cbn. rewrite A1. reflexivity.
  - pose proof (exec_fact_cmds_ok nw (fl_fuel w) (fun k => nth k (fq_uops sc) []) a w O) as OK. fold w1 in OK.
    apply Forall_forall. intros c Hc. apply in_map_iff in Hc. destruct Hc as [fc [<- Hin]]. apply in_rev in Hin.
    rewrite Forall_forall in OK. apply (cmdok_cmd_ok w1); [exact A1|apply OK, Hin].
Qed.

Lemma exec_flg_ok sc : forall a w t, Forall (EnvSplit.cmd_ok fact) (snd (exec_flg sc a w t)).
Proof. intros a w t. unfold exec_flg. destruct (wgood w) eqn:G; [apply (exec_fl_good sc a w t G)|constructor]. Qed.

(** on good worlds the two systems make the same steps, and stay good *)
Lemma step_flg_eq sc ws w en : wgood w = true ->
  step ws (exec_flg sc) fl_wfail (w, en) = step ws (exec_fl sc) fl_wfail (w, en) /\
  (forall r, step ws (exec_fl sc) fl_wfail (w, en) = Some r -> wgood (fst (res_val r)) = true).
Proof.
  intro G. unfold step. destruct (queue en) as [|e q]; [split; [reflexivity|discriminate]|].
  destruct (e_cancelled e); [split; [reflexivity|intros r H; injection H as <-; exact G]|].
  destruct (e_act e) as [a|]; [|split; [reflexivity|intros r H; injection H as <-; exact G]].
  unfold exec_flg at 1. rewrite G. split; [reflexivity|].
  destruct (exec_fl_good sc a w (e_time e) G) as [G1 _]. destruct (exec_fl sc a w (e_time e)) as [w' cs]. cbn [fst] in G1.
  intros r H. destruct (apply_cmds ws _ cs); [destruct (fl_wfail w')|]; injection H as <-; exact G1.
Qed.

Lemma loop_flg_eq sc ws fuel : forall w en, wgood w = true ->
  loop ws (exec_flg sc) fl_wfail fuel (w, en) = loop ws (exec_fl sc) fl_wfail fuel (w, en) /\
  (forall r, loop ws (exec_fl sc) fl_wfail fuel (w, en) = Some r -> wgood (fst (res_val r)) = true).
Proof.
  induction fuel as [|f IH]; intros w en G; cbn [loop snd].
  - destruct (queue en); [split; [reflexivity|intros r H; injection H as <-; exact G]|].
    destruct (terminated en); split; try reflexivity; try discriminate. intros r H; injection H as <-; exact G.
  - destruct (queue en) eqn:Q; [split; [reflexivity|intros r H; injection H as <-; exact G]|].
    destruct (terminated en); [split; [reflexivity|intros r H; injection H as <-; exact G]|].
    destruct (step_flg_eq sc ws w en G) as [E SG]. rewrite E.
    destruct (step ws (exec_fl sc) fl_wfail (w, en)) as [[[w' en']|[w' en']]|] eqn:ST.
    + apply IH. apply (SG (Ok (w', en')) eq_refl).
    + split; [reflexivity|]. intros r H. injection H as <-. apply (SG (Err (w', en')) eq_refl).
    + split; [reflexivity|]. intros r H. injection H as <-. exact G.
Qed.

Lemma run_flg_eq sc ws fuel d w en : wgood w = true ->
  run ws (exec_flg sc) fl_wfail fuel d (w, en) = run ws (exec_fl sc) fl_wfail fuel d (w, en) /\
  (forall r, run ws (exec_fl sc) fl_wfail fuel d (w, en) = Some r -> wgood (fst (res_val r)) = true).
Proof.
  intro G. unfold run. cbn [fst snd]. destruct (start_run ws en d) as [en1|en1]; [apply loop_flg_eq, G|].
  split; [reflexivity|]. intros r H. injection H as <-. exact G.
Qed.

(** * a floor run can be split *)
Theorem floor_run_split sc ws ws2 fuel a b w (en : env fact) w2 en2 :
  wgood w = true -> 0 <= a -> 0 <= b -> clean fact en ->
  run ws (exec_fl sc) fl_wfail fuel (a + b) (w, en) = Some (Ok (w2, en2)) ->
  exists w1 en1,
    run ws (exec_fl sc) fl_wfail (S fuel) a (w, en) = Some (Ok (w1, en1)) /\ now en1 = now en + a /\
    ((forall i, ws2 (S (next_eid en1) + i)%nat = ws (next_eid en1 + i)%nat) ->
     exists en2', run ws2 (exec_fl sc) fl_wfail (S fuel) b (w1, en1) = Some (Ok (w2, en2')) /\
                  eqv fact (queue en2) (queue en2') /\ eqv fact (paused en2) (paused en2') /\ datalog en2' = datalog en2 /\
                  now en2' = now en2 /\ now en2 = now en + (a + b) /\ terminated en2' = true /\ terminated en2 = true).
Proof.
  intros G Ha Hb C H.
  rewrite <- (proj1 (run_flg_eq sc ws fuel (a + b) w en G)) in H.
  destruct (run_split fact fw (exec_flg sc) fl_wfail (exec_flg_ok sc) ws ws2 fuel a b w en w2 en2 Ha Hb C H) as [w1 [en1 [R1 [N1 K]]]].
  rewrite (proj1 (run_flg_eq sc ws (S fuel) a w en G)) in R1.
  assert (G1 : wgood w1 = true) by (apply (proj2 (run_flg_eq sc ws (S fuel) a w en G) (Ok (w1, en1)) R1)).
  exists w1, en1. split; [exact R1|]. split; [exact N1|]. intro WS.
  destruct (K WS) as [en2' [R2 REST]]. exists en2'. rewrite (proj1 (run_flg_eq sc ws2 (S fuel) b w1 en1 G1)) in R2. split; [exact R2|exact REST].
Qed.
