(** C06 / C07 over whole histories: AN EVENT FIRES AFTER EXACTLY ITS DELAY OF TIME SPENT PENDING.

    [EnvRem.v] says what one step and one call do to the remaining delay of a live event.  Here these are composed over an
    arbitrary history — executed events (whatever their actions do: schedule, pause, resume, cancel, any number of times),
    calls made between events, runs started — into one statement: if event number [i] has remaining delay [r] at some
    point and is dispatched (uncancelled) at a later point, then the clock advanced by exactly [r] over the stretches of the
    history during which the event was pending, i.e. not paused.  Pauses of any length, nested or repeated, at any instants,
    postpone it by exactly their length; nothing else moves it.  Without the dispatch: at every later point the event either
    has remaining delay [r] minus the pending time so far, or it is dead (cancelled or already dispatched), and a dead event
    stays dead. *)
From Coq Require Import ZArith List Bool Lia Arith Sorting.Permutation.
From SimVerif Require Import Model.Base Model.Env Proofs.EnvInv Proofs.EnvRem Proofs.EnvTrace.
Import ListNotations.
Open Scope Z_scope.

Section OpTime.
  Variables (A W : Type) (wsrc : nat -> Z) (exec : A -> W -> Z -> W * list (cmd A)) (wfail : W -> bool).
  Notation env := (env A).
  Notation event := (event A).
  Notation Rem := (Rem A).
  Notation Cancelled := (Cancelled A).
  Notation Inv := (Inv A).
  Notation step := (step wsrc exec wfail).

  (** event number [i] is pending (in the queue, not cancelled) *)
  Definition pendingb (en : env) (i : nat) : bool :=
    existsb (fun e => Nat.eqb (e_id e) i && negb (e_cancelled e)) (queue en).

  (** dead: flagged cancelled, or already taken from the queue *)
  Definition Dead (en : env) (i : nat) : Prop := Cancelled en i \/ In i (map (@e_id A) (dispatched en)).

  Lemma nodup_id_eq (l : list event) x y : NoDup (map (@e_id A) l) -> In x l -> In y l -> e_id x = e_id y -> x = y.
  Proof.
    induction l as [|z l IH]; cbn; [tauto|]. intros N Hx Hy E. inversion N as [|? ? Nin N']; subst.
    destruct Hx as [->|Hx], Hy as [->|Hy]; auto.
    - exfalso. apply Nin. rewrite E. apply in_map, Hy.
    - exfalso. apply Nin. rewrite <- E. apply in_map, Hx.
  Qed.

  Lemma in_all_q (en : env) e : In e (queue en) -> In e (all_events A en).
  Proof. intro H. unfold all_events. apply in_or_app. auto. Qed.
  Lemma in_all_p (en : env) e : In e (paused en) -> In e (all_events A en).
  Proof. intro H. unfold all_events. apply in_or_app. right. apply in_or_app. auto. Qed.
  Lemma in_all_qp (en : env) e : In e (queue en ++ paused en) -> In e (all_events A en).
  Proof. intro H. apply in_app_or in H. destruct H; [apply in_all_q|apply in_all_p]; assumption. Qed.

  (** a live event is not dead, and has one remaining delay *)
  Lemma rem_not_dead (en : env) i r : Inv en -> Rem en i r -> Dead en i -> False.
  Proof.
    intros I R D.
    assert (L : exists e, In e (queue en ++ paused en) /\ e_id e = i /\ e_cancelled e = false).
    { destruct R as [[e [He [Hi [C _]]]]|[e [p [He [Hi [C _]]]]]]; exists e; (split; [apply in_or_app; auto|auto]). }
    destruct L as [e [He [Hi C]]]. pose proof (inv_ids A en I) as N.
    destruct D as [[e' [He' [Hi' C']]]|D].
    - assert (e = e') by (apply (nodup_id_eq (all_events A en)); [exact N|apply in_all_qp, He|apply in_all_qp, He'|congruence]).
      subst e'. congruence.
    - unfold all_events in N. rewrite app_assoc, map_app in N.
      apply (NoDup_app_disj (map (@e_id A) (queue en ++ paused en)) (map (@e_id A) (dispatched en)) i N); [|exact D].
      rewrite <- Hi. apply in_map, He.
  Qed.

  Lemma rem_fun (en : env) i r1 r2 : Inv en -> Rem en i r1 -> Rem en i r2 -> r1 = r2.
  Proof.
    intros I R1 R2. pose proof (inv_ids A en I) as N.
    destruct R1 as [[e1 [H1 [I1 [C1 E1]]]]|[e1 [p1 [H1 [I1 [C1 [P1 E1]]]]]]], R2 as [[e2 [H2 [I2 [C2 E2]]]]|[e2 [p2 [H2 [I2 [C2 [P2 E2]]]]]]].
    - assert (e1 = e2) by (apply (nodup_id_eq (all_events A en)); [exact N|apply in_all_q, H1|apply in_all_q, H2|congruence]). subst. reflexivity.
    - exfalso. apply (inv_queue_paused_disj A en e1 e2 I H1 H2). congruence.
    - exfalso. apply (inv_queue_paused_disj A en e2 e1 I H2 H1). congruence.
    - assert (e1 = e2) by (apply (nodup_id_eq (all_events A en)); [exact N|apply in_all_p, H1|apply in_all_p, H2|congruence]). subst.
      rewrite P1 in P2. injection P2 as <-. reflexivity.
  Qed.

  Lemma pending_true (en : env) e : In e (queue en) -> e_cancelled e = false -> pendingb en (e_id e) = true.
  Proof. intros H C. unfold pendingb. apply existsb_exists. exists e. split; [exact H|]. rewrite Nat.eqb_refl, C. reflexivity. Qed.

  Lemma pending_false (en : env) e : Inv en -> In e (paused en) -> pendingb en (e_id e) = false.
  Proof.
    intros I H. unfold pendingb. destruct (existsb _ (queue en)) eqn:X; [|reflexivity]. exfalso.
    apply existsb_exists in X. destruct X as [e' [H' B]]. apply andb_true_iff in B. destruct B as [B _]. apply Nat.eqb_eq in B.
    apply (inv_queue_paused_disj A en e' e I H' H). exact B.
  Qed.

  (** * dead events stay dead *)
  Lemma dead_cmds cs (en en' : env) i : apply_cmds wsrc en cs = Ok en' -> Dead en i -> Dead en' i.
  Proof.
    intros H [C|D]; [left; apply (cmds_cancelled A wsrc cs en en' i H C)|right].
    pose proof (apply_cmds_dispatched A wsrc cs en) as X. rewrite H in X. cbn in X. rewrite X. exact D.
  Qed.

  Lemma dead_pop (en : env) e0 q i :
    queue en = e0 :: q -> Dead en i ->
    Dead (mkEnv (e_time e0) q (paused en) (next_eid en) (terminated en) (e0 :: dispatched en) (datalog en)) i.
  Proof.
    intros Q [[e [He [Hi C]]]|D].
    - rewrite Q in He. cbn in He. destruct He as [<-|He].
      + right. cbn. left. exact Hi.
      + left. exists e. cbn. auto.
    - right. cbn. right. exact D.
  Qed.

  Lemma dead_step w (en : env) w' en' i : step (w, en) = Some (Ok (w', en')) -> Dead en i -> Dead en' i.
  Proof.
    intros ST D. unfold Env.step in ST. destruct (queue en) as [|e0 q] eqn:Q; [discriminate|].
    pose proof (dead_pop en e0 q i Q D) as D1.
    set (en1 := mkEnv (e_time e0) q (paused en) (next_eid en) (terminated en) (e0 :: dispatched en) (datalog en)) in *.
    destruct (e_cancelled e0); [injection ST as <- <-; exact D1|].
    destruct (e_act e0) as [a|].
    - destruct (exec a w (e_time e0)) as [w1 cs]. destruct (apply_cmds wsrc en1 cs) as [en2|en2] eqn:AC; [|discriminate].
      destruct (wfail w1); [discriminate|]. injection ST as <- <-. apply (dead_cmds cs en1 en2 i AC D1).
    - injection ST as <- <-. destruct D1 as [[e [He X]]|D1]; [left; exists e; cbn; auto|right; exact D1].
  Qed.

  Lemma schedule_rem (en en' : env) t p a act i r : schedule wsrc en t p a act = Ok en' -> Rem en i r -> Rem en' i r.
  Proof.
    unfold schedule. destruct (t <? now en); [discriminate|]. intros H R. injection H as <-.
    destruct R as [[e [He X]]|[e [p0 [He X]]]].
    - left. exists e. cbn. split; [apply (insort_in A); right; exact He|exact X].
    - right. exists e, p0. cbn. auto.
  Qed.

  Lemma schedule_dead (en en' : env) t p a act i : schedule wsrc en t p a act = Ok en' -> Dead en i -> Dead en' i.
  Proof.
    unfold schedule. destruct (t <? now en); [discriminate|]. intros H D. injection H as <-.
    destruct D as [[e [He X]]|D]; [left|right; exact D].
    exists e. cbn. split; [|exact X]. apply in_app_or in He. apply in_or_app. destruct He as [He|He]; [left; apply (insort_in A); right; exact He|right; exact He].
  Qed.

  (** * one executed event *)
  Theorem rem_step w (en : env) w' en' i r :
    Inv en -> step (w, en) = Some (Ok (w', en')) -> Rem en i r ->
    Rem en' i (r - (if pendingb en i then now en' - now en else 0)) \/ Dead en' i.
  Proof.
    intros I ST R. destruct (queue en) as [|e0 q] eqn:Q; [unfold Env.step in ST; rewrite Q in ST; discriminate|].
    destruct R as [[e [He [Hi [C E]]]]|[e [p [He [Hi [C [P E]]]]]]].
    - rewrite <- Hi, (pending_true en e He C). rewrite Q in He. cbn in He. destruct He as [<-|He].
      + right. right. pose proof (step_dispatch_log A W wsrc exec wfail w en e0 q (Ok (w', en')) Q ST) as X. cbn in X. rewrite X. left. reflexivity.
      + subst r. destruct (step_pending A W wsrc exec wfail w en e0 q w' en' e Q ST He C) as [R'|C']; [left; exact R'|right; left; exact C'].
    - rewrite <- Hi, (pending_false en e I He). subst r. rewrite Z.sub_0_r.
      destruct (step_paused A W wsrc exec wfail w en w' en' e p ST He C P) as [R'|C']; [left; exact R'|right; left; exact C'].
  Qed.

  (** * histories *)
  (** [chain i s s' t]: a history from [s] to [s'] — executed events, batches of calls made between events (the world may change in
      any way), runs started — during which the clock advanced by [t] in all over the steps at whose start event [i] was pending *)
  Inductive chain (i : nat) : W * env -> W * env -> Z -> Prop :=
  | ch_nil s : chain i s s 0
  | ch_step w en s1 s2 t : step (w, en) = Some (Ok s1) -> chain i s1 s2 t ->
      chain i (w, en) s2 ((if pendingb en i then now (snd s1) - now en else 0) + t)
  | ch_calls w en w1 cs en1 s2 t : apply_cmds wsrc en cs = Ok en1 -> chain i (w1, en1) s2 t -> chain i (w, en) s2 t
  | ch_start w en d en1 s2 t : start_run wsrc en d = Ok en1 -> chain i (w, en1) s2 t -> chain i (w, en) s2 t.

  Lemma step_ok_inv w (en : env) s1 : Inv en -> step (w, en) = Some (Ok s1) -> Inv (snd s1).
  Proof. intros I ST. apply (step_inv A W wsrc exec wfail (w, en) (Ok s1) I ST). Qed.

  Lemma cmds_ok_inv cs (en en1 : env) : Inv en -> apply_cmds wsrc en cs = Ok en1 -> Inv en1.
  Proof. intros I H. pose proof (apply_cmds_inv A wsrc cs en I) as X. rewrite H in X. exact X. Qed.

  Lemma start_ok_inv (en en1 : env) d : Inv en -> start_run wsrc en d = Ok en1 -> Inv en1.
  Proof. intros I H. pose proof (start_run_inv A wsrc en d I) as X. rewrite H in X. exact X. Qed.

  Lemma chain_inv i s s' t : chain i s s' t -> Inv (snd s) -> Inv (snd s').
  Proof.
    induction 1 as [s|w en s1 s2 t ST _ IH|w en w1 cs en1 s2 t AC _ IH|w en d en1 s2 t SR _ IH]; intro I; [exact I|..]; apply IH.
    - apply (step_ok_inv w en s1 I ST).
    - apply (cmds_ok_inv cs en en1 I AC).
    - apply (start_ok_inv en en1 d I SR).
  Qed.

  Lemma chain_dead i s s' t : chain i s s' t -> Dead (snd s) i -> Dead (snd s') i.
  Proof.
    induction 1 as [s|w en s1 s2 t ST _ IH|w en w1 cs en1 s2 t AC _ IH|w en d en1 s2 t SR _ IH]; intro D; [exact D|..]; apply IH.
    - destruct s1 as [w1 en1]. apply (dead_step w en w1 en1 i ST D).
    - apply (dead_cmds cs en en1 i AC D).
    - unfold start_run in SR. apply (schedule_dead _ _ _ _ _ _ i SR).
      destruct D as [[e [He X]]|D]; [left; exists e; cbn; auto|right; exact D].
  Qed.

  (** along any history: remaining delay = initial remaining delay - time spent pending, or the event is dead *)
  Theorem chain_rem i s s' t : chain i s s' t -> forall r, Inv (snd s) -> Rem (snd s) i r -> Rem (snd s') i (r - t) \/ Dead (snd s') i.
  Proof.
    induction 1 as [s|w en s1 s2 t ST CH IH|w en w1 cs en1 s2 t AC CH IH|w en d en1 s2 t SR CH IH]; intros r I R; cbn [snd] in *.
    - left. rewrite Z.sub_0_r. exact R.
    - destruct s1 as [w1 en1]. cbn [snd] in *.
      destruct (rem_step w en w1 en1 i r I ST R) as [R1|D1].
      + destruct (IH _ (step_ok_inv w en (w1, en1) I ST) R1) as [R2|D2]; [left|right; exact D2].
        replace (r - ((if pendingb en i then now en1 - now en else 0) + t)) with (r - (if pendingb en i then now en1 - now en else 0) - t) by lia. exact R2.
      + right. apply (chain_dead i (w1, en1) s2 t CH D1).
    - destruct (cmds_rem A wsrc cs en en1 i r AC R) as [R1|C1].
      + apply (IH r (cmds_ok_inv cs en en1 I AC) R1).
      + right. apply (chain_dead i (w1, en1) s2 t CH). left. exact C1.
    - apply (IH r (start_ok_inv en en1 d I SR)). unfold start_run in SR. apply (schedule_rem _ _ _ _ _ _ i r SR).
      destruct R as [[e [He X]]|[e [p0 [He X]]]]; [left; exists e; cbn; auto|right; exists e, p0; cbn; auto].
  Qed.

  (** THE THEOREM.  Event [i] has remaining delay [r] in state [s]; after any history from [s] it is at the head of the queue,
      uncancelled, and the next step dispatches it: then the clock advanced by exactly [r] in all while the event was pending —
      over the history and that last step.  (Time that passed while it was paused does not count, and is not lost.) *)
  Theorem fires_after_exactly_its_delay i s w1 en1 t r e0 q s2 :
    Inv (snd s) -> Rem (snd s) i r -> chain i s (w1, en1) t ->
    queue en1 = e0 :: q -> e_id e0 = i -> e_cancelled e0 = false -> step (w1, en1) = Some (Ok s2) ->
    t + (now (snd s2) - now en1) = r /\ pendingb en1 i = true.
  Proof.
    intros I R CH Q Hi C ST.
    pose proof (chain_inv i s (w1, en1) t CH I) as I1. cbn [snd] in I1.
    assert (R0 : Rem en1 i (e_time e0 - now en1)) by (left; exists e0; rewrite Q; cbn; auto).
    destruct (chain_rem i s (w1, en1) t CH r I R) as [R1|D1]; cbn [snd] in *.
    - pose proof (rem_fun en1 i _ _ I1 R0 R1) as E. destruct s2 as [w2 en2].
      cbn [snd]. rewrite (step_dispatch_time A W wsrc exec wfail w1 en1 e0 q w2 en2 Q ST).
      split; [lia|]. rewrite <- Hi. apply pending_true; [rewrite Q; left; reflexivity|exact C].
    - exfalso. apply (rem_not_dead en1 i _ I1 R0 D1).
  Qed.

  (** a cancelled event never comes back: after any history it is still dead, so it has no remaining delay and is never "fired" as live *)
  Theorem dead_forever i s s' t r : Inv (snd s) -> chain i s s' t -> Dead (snd s) i -> ~ Rem (snd s') i r.
  Proof. intros I CH D R. apply (rem_not_dead (snd s') i r (chain_inv i s s' t CH I) R (chain_dead i s s' t CH D)). Qed.
End OpTime.
