(** C03, the queue-level half of "no lost wake-up": a device holding a part that is ready to leave is either flagged as
    waiting for downstream space (its last hand-over attempt was refused by every neighbour, FloorFlow.v), or has a hand-over
    attempt (PASS_PART event of its own) pending in the queue — unless it is a shut-down processor (restore re-schedules) or
    a source whose budget is used up (a budget raise re-schedules).
    This file: the step decomposition under which that link survives step by step.  Two levels: [sstep] (what an upstream
    notification does: safe device transformers, harmless environment calls, whole [sched_pass] calls) and [jstep] (adds the
    compound steps: each makes a part ready and ends in the [sched_pass] of that same device; the buffer one contains an
    upstream notification in between). *)
From Coq Require Import ZArith List Bool Lia.
From RecordUpdate Require Import RecordUpdate.
From SimVerif Require Import Model.Base Model.Env Model.RM Model.Maint Model.FloorTypes Model.Floor Model.FamFloor.
From SimVerif Require Import Proofs.RMInv Proofs.FloorSteps Proofs.FloorLink.
Import ListNotations.
Open Scope Z_scope.

Definition exhausted (x : dev) : bool :=
  negb (match d_budget x with None => true | Some b => 1 <=? Z.max (b - d_produced x) 0 end).

Definition ready (x : dev) : Prop :=
  match d_kind x with
  | KHandler | KProcessor | KSource | KBatcher => d_out x <> None
  | KBuffer => d_buf x <> []
  | _ => False
  end.
Definition exempt (x : dev) : Prop :=
  (d_kind x = KProcessor /\ d_shut x = true) \/ (d_kind x = KSource /\ exhausted x = true).
Definition need (x : dev) : Prop := ready x /\ ~ exempt x /\ d_waiting_ds x = false.

Definition psafe (g : dev -> Prop) (f : dev -> dev) : Prop := forall x, g x -> need (f x) -> need x.
Definition pemit_ok (w : fw) (c : fcmd) : Prop :=
  match c with FPause a | FCancel a => ~ need (getd w a) | _ => True end.

Inductive sstep (nw : Z) : fw -> fw -> Prop :=
| s_dev w d g f : psafe g f -> g (getd w d) -> sstep nw w (updd w d f)
| s_emit w c : pemit_ok w c -> sstep nw w (emitf w c)
| s_quiet w w' : f_devs w' = f_devs w -> (exists l, f_out w' = l ++ f_out w /\ Forall quiet_cmd l) -> (okf w' = true -> okf w = true) -> sstep nw w w'
| s_dead w w' : okf w' = false -> sstep nw w w'
| s_pass w off d : sstep nw w (sched_pass nw off w d).

Inductive SR (nw : Z) : fw -> fw -> Prop :=
| SR_refl w : SR nw w w
| SR_step w1 w2 w3 : sstep nw w1 w2 -> SR nw w2 w3 -> SR nw w1 w3.

Inductive jstep (nw : Z) : fw -> fw -> Prop :=
| j_s w w' : sstep nw w w' -> jstep nw w w'
| j_everywhere w pid f : jstep nw w (upd_part_everywhere pid f w)
| j_finish w d it : jstep nw w (sched_pass nw 0 (updd w d (t_finish it)) d)
| j_finish_proc w d it :
    jstep nw w (let w1 := sched_pass nw 0 (updd w d (t_finish_proc nw it)) d in
                match d_reserved (getd w1 d) with
                | Some _ => emitf w1 (FSched nw P_RELEASE d (AReleaseIfIdle d))
                | None => w1
                end)
| j_generate w d : jstep nw w (sched_pass nw 0 (updd (fst (generate w d)) d (t_generated (snd (generate w d)))) d)
| j_batcher w d : d_kind (getd w d) = KBatcher -> jstep nw w (batcher_try_move nw w d)
| j_buf_first w d itb dl w6 : SR nw (updd w d (t_buf_store nw itb)) w6 -> jstep nw w (sched_pass nw dl w6 d)
| j_restore_pass w d : jstep nw w (sched_pass nw 0 (emitf (updd w d (t_restore nw)) (FUnpause d)) d)
| j_budget_pass w d z : jstep nw w (sched_pass nw 0 (updd w d (t_budget z)) d).

Inductive RJ (nw : Z) : fw -> fw -> Prop :=
| RJ_refl w : RJ nw w w
| RJ_step w1 w2 w3 : jstep nw w1 w2 -> RJ nw w2 w3 -> RJ nw w1 w3.

(** * the safe transformers *)
Lemma psafe_conv (g : dev -> Prop) f : (forall x, need (f x) -> need x) -> psafe g f.
Proof. intros H x _. apply H. Qed.

Lemma psafe_waiting_true : psafe (fun _ => True) (t_waiting_ds true).
Proof. intros x _ [_ [_ W]]. discriminate. Qed.

Lemma psafe_map_slot slot f : psafe (fun _ => True) (t_map_slot slot f).
Proof.
  intros x _ [RD [NE W]]. unfold t_map_slot in *. destruct slot; (split; [|split; [exact NE|exact W]]).
  - exact RD.
  - unfold ready in *. cbn in *. destruct (d_kind x); auto; intro E; rewrite E in RD; apply RD; reflexivity.
Qed.

Lemma psafe_clear_out : psafe (fun _ => True) t_clear_out.
Proof.
  intros x _ [RD [NE W]]. unfold t_clear_out, ready in *. cbn in *.
  destruct (d_kind x) eqn:K; try contradiction; try (exfalso; apply RD; reflexivity).
  split; [unfold ready; rewrite K; exact RD|split; [exact NE|exact W]].
Qed.

Lemma psafe_finish_sink it : psafe (fun x => d_kind x = KSink) (t_finish it).
Proof. intros x K [RD _]. unfold ready, t_finish in RD. cbn in RD. rewrite K in RD. contradiction. Qed.

Lemma psafe_buf_pop nw : psafe (fun _ => True) (t_buf_pop nw).
Proof.
  intros x _ N. unfold t_buf_pop in N. destruct (d_buf x) as [|[t0 it] rest] eqn:B; [exact N|].
  destruct (0 <? d_min_delay x - (nw - t0)); [exact N|].
  destruct N as [RD [NE W]]. split; [|split; [exact NE|exact W]].
  unfold ready in *. cbn in *. destruct (d_kind x); auto. rewrite B. discriminate.
Qed.

Lemma psafe_supplied nw v : psafe (fun _ => True) (t_supplied nw v).
Proof.
  intros x _ [RD [NE W]]. unfold t_supplied, dev_add_value in *.
  assert (E : forall y : dev, d_kind y = d_kind x -> d_out y = d_out x -> d_buf y = d_buf x -> d_shut y = d_shut x -> d_waiting_ds y = d_waiting_ds x ->
              d_budget y = d_budget x -> d_produced y = 1 + d_produced x -> need y -> need x).
  { intros y K O B S Wt BU PR [RD' [NE' W']]. split; [|split].
    - unfold ready in *. rewrite K, O, B in RD'. exact RD'.
    - intros [[K1 S1]|[K1 X1]]; apply NE'; [left; split; congruence|right; split; [congruence|]].
      unfold exhausted in *. rewrite BU, PR. destruct (d_budget x) as [b|]; [|discriminate].
      apply negb_true_iff in X1. apply negb_true_iff. apply Z.leb_gt in X1. apply Z.leb_gt. lia.
    - congruence. }
  destruct (- v =? 0); (eapply E; [..|split; [exact RD|split; [exact NE|exact W]]]); reflexivity.
Qed.

Lemma psafe_shutdown nw : psafe (fun x => d_kind x = KProcessor) (t_shutdown nw).
Proof.
  intros x K [_ [NE _]]. exfalso. apply NE. left. unfold t_shutdown, dev_set_wait. cbn. split; [exact K|reflexivity].
Qed.

Lemma psafe_restore_idle nw : psafe (fun x => d_kind x = KProcessor /\ d_out x = None) (t_restore nw).
Proof. intros x [K O] [RD _]. unfold ready, t_restore in RD. cbn in RD. rewrite K in RD. contradiction. Qed.

Lemma psafe_budget z : psafe (fun x => exhausted x = false) (t_budget z).
Proof.
  intros x X [RD [NE W]]. split; [exact RD|split; [|exact W]].
  intros [[K S]|[K X1]]; [apply NE; left; split; assumption|congruence].
Qed.

Lemma psafe_buf_store nw it : psafe (fun x => d_buf x <> []) (t_buf_store nw it).
Proof.
  intros x B [RD [NE W]]. split; [|split; [exact NE|exact W]].
  unfold ready, t_buf_store in *. cbn in *. destruct (d_kind x); auto.
Qed.

Ltac kp :=
  first
    [ exact psafe_waiting_true | apply psafe_map_slot | exact psafe_clear_out | apply psafe_finish_sink | apply psafe_buf_pop
    | apply psafe_supplied | apply psafe_shutdown | apply psafe_restore_idle | apply psafe_budget | apply psafe_buf_store
    | (apply psafe_conv;
       let x := fresh "x" in let N := fresh "N" in
       intros x N;
       unfold t_accept_sink, t_accept_proc, t_accept_buffer, t_accept, t_fail_clear, t_stop_use, t_clear_part, t_batch_more, t_reserved,
              t_waiting_res, t_set_cycle, t_add_offset, t_reset_offset, t_block, dev_set_wait, dev_add_value in *;
       cbv zeta in *;
       repeat match goal with
              | H : context[if ?b then _ else _] |- _ => destruct b
              | H : context[match d_wait_since ?y with _ => _ end] |- _ => destruct (d_wait_since y)
              end;
       exact N) ].

Section Wake.
Variable nw : Z.
Notation SR := (SR nw).
Notation RJ := (RJ nw).

Lemma SR_trans a b c : SR a b -> SR b c -> SR a c.
Proof. induction 1 as [|w1 w2 w3 S _ IH]; intro Hbc; [exact Hbc|]. econstructor; [exact S|apply IH, Hbc]. Qed.
Lemma SR_one a b : sstep nw a b -> SR a b.
Proof. intro H. econstructor; [exact H|constructor]. Qed.
Lemma RJ_trans a b c : RJ a b -> RJ b c -> RJ a c.
Proof. induction 1 as [|w1 w2 w3 S _ IH]; intro Hbc; [exact Hbc|]. econstructor; [exact S|apply IH, Hbc]. Qed.
Lemma RJ_one a b : jstep nw a b -> RJ a b.
Proof. intro H. econstructor; [exact H|constructor]. Qed.
Lemma SR_RJ a b : SR a b -> RJ a b.
Proof. induction 1 as [|w1 w2 w3 S _ IH]; [constructor|]. econstructor; [apply j_s, S|exact IH]. Qed.

(** level 0 *)
Lemma SR_dev w d g f : psafe g f -> g (getd w d) -> SR w (updd w d f).
Proof. intros. apply SR_one. econstructor; eauto. Qed.
Lemma SR_quiet_emit w c : quiet_cmd c -> SR w (emitf w c).
Proof. intro Q. apply SR_one, s_emit. destruct c; try contradiction; exact I. Qed.
Lemma SR_fail w e : SR w (failf w e).
Proof.
  apply SR_one, s_quiet.
  - unfold failf. destruct (f_err w =? 0); reflexivity.
  - exists []. split; [|constructor]. unfold failf. destruct (f_err w =? 0); reflexivity.
  - unfold failf, okf. destruct (f_err w =? 0) eqn:E; [auto|rewrite E; auto].
Qed.
Lemma SR_fold {X} (F : fw -> X -> fw) (l : list X) : (forall w x, SR w (F w x)) -> forall w, SR w (fold_left F l w).
Proof. intros H. induction l as [|x l IH]; intro w; cbn; [constructor|]. eapply SR_trans; [apply H|apply IH]. Qed.

Lemma SR_sched_pass off w d : SR w (sched_pass nw off w d).
Proof. apply SR_one, s_pass. Qed.

Lemma SR_signal fuel : forall m w d, SR w (signal fuel nw m w d).
Proof.
  induction fuel as [|f IH]; intros m w d; cbn [signal]; [apply SR_fail|].
  set (x := getd w d).
  assert (NU : forall w0, SR w0 (fold_left (fun w1 u => signal f nw false w1 u) (d_up (getd w0 d)) w0)).
  { intro w0. apply SR_fold. intros; apply IH. }
  assert (SW : SR w (fold_left (fun w1 u => signal f nw false w1 u)
                               (d_up (getd (wait_if_empty nw w d) d)) (wait_if_empty nw w d))).
  { unfold wait_if_empty. destruct (d_part (getd w d)); [apply NU|]. destruct (d_out (getd w d)); [apply NU|].
    apply (SR_trans w (updd w d (dev_set_wait nw true false))); [apply (SR_dev w d (fun _ => True)); [kp|exact I]|apply NU]. }
  destruct m.
  - destruct (d_kind x); try apply NU; try exact SW.
    + destruct (inf_ltb (d_level x) (d_capacity x)); [exact SW|constructor].
    + destruct (aget (d_group x) (f_groups w)); [|constructor]. apply SR_fold. intros; apply IH.
  - destruct (d_kind x); try apply IH;
      try (destruct (operational x && d_waiting_ds x); [apply SR_sched_pass|constructor]).
    destruct (aget (d_group x) (f_groups w)); [apply IH|constructor].
Qed.

(** level 1 *)
Lemma RJ_dev w d g f : psafe g f -> g (getd w d) -> RJ w (updd w d f).
Proof. intros. apply SR_RJ. eapply SR_dev; eauto. Qed.
Lemma RJ_quiet_emit w c : quiet_cmd c -> RJ w (emitf w c).
Proof. intro. apply SR_RJ, SR_quiet_emit. assumption. Qed.
Lemma RJ_data w l s p : RJ w (data w l s p).
Proof. apply RJ_quiet_emit. exact I. Qed.
Lemma RJ_fail w e : RJ w (failf w e).
Proof. apply SR_RJ, SR_fail. Qed.
Lemma RJ_same w w' : f_devs w' = f_devs w -> f_out w' = f_out w -> f_err w' = f_err w -> RJ w w'.
Proof.
  intros D O E. apply RJ_one, j_s, s_quiet; [exact D|exists []; split; [exact O|constructor]|unfold okf; rewrite E; auto].
Qed.
Lemma RJ_fold {X} (F : fw -> X -> fw) (l : list X) : (forall w x, RJ w (F w x)) -> forall w, RJ w (fold_left F l w).
Proof. intros H. induction l as [|x l IH]; intro w; cbn; [constructor|]. eapply RJ_trans; [apply H|apply IH]. Qed.
Lemma RJ_sched_pass off w d : RJ w (sched_pass nw off w d).
Proof. apply SR_RJ, SR_sched_pass. Qed.
Lemma RJ_signal fuel m w d : RJ w (signal fuel nw m w d).
Proof. apply SR_RJ, SR_signal. Qed.

Ltac Jt := first [apply RJ_refl | apply RJ_fail | apply RJ_data | (apply RJ_quiet_emit; exact I)].
Ltac jdev w0 d0 f0 g0 := apply (RJ_trans w0 (updd w0 d0 f0)); [apply (RJ_dev w0 d0 g0 f0); [kp|]|].

Lemma RJ_rm_call w f : RJ w (rm_call w f).
Proof. destruct (rm_call_quiet_facts w f) as [A [B C]]. apply RJ_one, j_s, s_quiet; assumption. Qed.

Lemma RJ_maint_call w mid f : RJ w (maint_call w mid f).
Proof.
  apply RJ_one, j_s, s_quiet; [reflexivity| |cbn; auto].
  unfold maint_call. cbv zeta. match goal with |- context[map (conv_mcmd mid) ?l] => exists (map (conv_mcmd mid) l) end.
  split; [reflexivity|apply quiet_mcmds].
Qed.
Lemma RJ_create_wo mid t g w : RJ w (create_wo nw mid t g w).
Proof. apply RJ_maint_call. Qed.

Lemma RJ_run_cbop d slot isf lost w o : RJ w (run_cbop nw d slot isf lost w o).
Proof.
  unfold run_cbop. destruct (negb (okf w)); [Jt|].
  destruct o.
  - apply (RJ_dev w d (fun _ => True)); [kp|exact I].
  - apply (RJ_dev w d (fun _ => True)); [kp|exact I].
  - destruct (if slot then d_part (getd w d) else d_out (getd w d)) as [i|]; [|Jt].
    destruct (is_batch i); [Jt|]. apply (RJ_dev w d (fun _ => True)); [kp|exact I].
  - apply (RJ_dev w d (fun _ => True)); [kp|exact I].
  - apply RJ_create_wo.
  - destruct isf; [apply RJ_create_wo|Jt].
  - apply RJ_same; reflexivity.
Qed.

Lemma RJ_run_cbops d slot isf lost ops : forall w, RJ w (run_cbops nw d slot isf lost ops w).
Proof. unfold run_cbops. apply RJ_fold. intros. apply RJ_run_cbop. Qed.

Lemma RJ_finish_cycle fuel w d : RJ w (finish_cycle fuel nw w d).
Proof.
  unfold finish_cycle. set (x := getd w d). destruct (d_kind x) eqn:K; try Jt;
  try (destruct (negb (operational x)); [Jt|]; destruct (d_part x) as [it|] eqn:P; [|Jt]; destruct (d_out x) eqn:O; [Jt|]).
  3:{ (* source *)
      destruct (d_out x) eqn:O; [apply RJ_sched_pass|].
      pose proof (RJ_one _ _ (j_generate nw w d)) as X. destruct (generate w d) as [w' it]. exact X. }
  - (* handler *)
    apply RJ_one, j_finish.
  - (* processor *)
    eapply RJ_trans; [apply RJ_one, (j_finish_proc nw w d it)|]. cbv zeta.
    match goal with |- context[match d_reserved ?y with _ => _ end] => destruct (d_reserved y) end.
    + eapply RJ_trans; [apply RJ_run_cbops|].
      match goal with |- context[match d_out ?y with _ => _ end] => destruct (d_out y) end; Jt.
    + eapply RJ_trans; [apply RJ_run_cbops|].
      match goal with |- context[match d_out ?y with _ => _ end] => destruct (d_out y) end; Jt.
  - (* sink *)
    jdev w d (t_finish it) (fun y : dev => d_kind y = KSink); [exact K|].
    eapply RJ_trans; [apply RJ_sched_pass|].
    match goal with |- RJ ?w0 _ => jdev w0 d t_clear_out (fun _ : dev => True); [exact I|apply RJ_signal] end.
Qed.

Lemma RJ_sched_finish fuel w d : RJ w (sched_finish fuel nw w d).
Proof.
  unfold sched_finish. jdev w d t_reset_offset (fun _ : dev => True); [exact I|].
  destruct (_ <=? 0); [apply RJ_finish_cycle|Jt].
Qed.

Lemma signal_buf fuel : forall m w d d', d_buf (getd (signal fuel nw m w d) d') = d_buf (getd w d').
Proof.
  assert (SP : forall off w d d', d_buf (getd (sched_pass nw off w d) d') = d_buf (getd w d')).
  { intros off w d d'. unfold sched_pass. destruct (d_kind (getd w d)); try reflexivity;
      (change (getd (emitf ?a ?c) d') with (getd a d'); apply getd_updd_field; reflexivity). }
  assert (FL : forall (F : fw -> Z -> fw) l, (forall w u d', d_buf (getd (F w u) d') = d_buf (getd w d')) ->
               forall w d', d_buf (getd (fold_left F l w) d') = d_buf (getd w d')).
  { intros F l H. induction l as [|u l IHl]; intros w d'; cbn; [reflexivity|]. rewrite IHl. apply H. }
  induction fuel as [|f IH]; intros m w d d'; cbn [signal].
  - unfold failf. destruct (f_err w =? 0); reflexivity.
  - set (x := getd w d).
    assert (SW : forall w0, d_buf (getd (fold_left (fun w1 u => signal f nw false w1 u) (d_up (getd w0 d)) w0) d') = d_buf (getd w0 d')).
    { intro w0. apply FL. intros; apply IH. }
    assert (SW2 : d_buf (getd (fold_left (fun w1 u => signal f nw false w1 u) (d_up (getd (wait_if_empty nw w d) d))
                                          (wait_if_empty nw w d)) d') = d_buf (getd w d')).
    { rewrite SW. unfold wait_if_empty. destruct (d_part (getd w d)); [reflexivity|]. destruct (d_out (getd w d)); [reflexivity|].
      apply getd_updd_field. intro y. unfold dev_set_wait. cbn. destruct (d_wait_since y); reflexivity. }
    destruct m.
    + destruct (d_kind x); try apply SW; try exact SW2.
      * destruct (inf_ltb (d_level x) (d_capacity x)); [exact SW2|reflexivity].
      * destruct (aget (d_group x) (f_groups w)); [|reflexivity]. apply FL. intros; apply IH.
    + destruct (d_kind x); try apply IH;
        try (destruct (operational x && d_waiting_ds x); [apply SP|reflexivity]).
      destruct (aget (d_group x) (f_groups w)); [apply IH|reflexivity].
Qed.

(** everything after the part has been taken in *)
Lemma RJ_accept_rest fuel k w2 d it1 : d_kind (getd w2 d) = k -> RJ w2 (accept_rest fuel nw k w2 d it1).
Proof.
  intro K2. unfold accept_rest.
  set (w3 := rec_part w2 L_RECEIVED d nw it1). apply (RJ_trans w2 w3); [apply RJ_data|].
  set (w4 := run_cbops nw d true false (-1) (d_on_receive (getd w3 d)) w3).
  apply (RJ_trans w3 w4); [apply RJ_run_cbops|].
  assert (R4 : R MFull nw w2 w4).
  { eapply R_trans; [apply R_data|apply R_run_cbops]. }
  pose proof (R_kind nw MFull w2 w4 R4 d) as K4. rewrite K2 in K4.
  destruct (negb (okf w4)); [Jt|]. set (x := getd w4 d) in *. destruct (d_out x); [Jt|].
  destruct k eqn:K; cbv zeta;
    try (destruct (operational x && match d_part x with Some _ => true | None => false end); [apply RJ_sched_finish|Jt]).
  - (* buffer *)
    destruct (d_part x) as [itb|] eqn:PB; [|Jt].
    set (w5 := updd w4 d (t_buf_store nw itb)). set (w6 := signal fuel nw true w5 d).
    destruct (d_buf x) as [|e0 rest] eqn:B.
    + (* the first stored part: one compound step, ending in the hand-over attempt *)
      assert (L1 : (length (d_buf (getd w6 d)) =? 1)%nat = true).
      { unfold w6. rewrite signal_buf. unfold w5. rewrite getd_updd, Z.eqb_refl. cbn [andb].
        destruct (amem d (f_devs w4)) eqn:M.
        - unfold t_buf_store. cbn. fold x. rewrite B. reflexivity.
        - exfalso. unfold amem, x, getd in *. destruct (aget d (f_devs w4)); discriminate. }
      rewrite L1. apply RJ_one. apply (j_buf_first nw w4 d itb (d_min_delay x) w6). apply SR_signal.
    + eapply RJ_trans; [apply (RJ_dev w4 d (fun y => d_buf y <> [])); [kp|fold x; rewrite B; discriminate]|].
      eapply RJ_trans; [apply RJ_signal|].
      match goal with |- context[if ?c then _ else _] => destruct c end; [apply RJ_sched_pass|Jt].
  - apply RJ_one, j_batcher. exact K4.
Qed.

Lemma RJ_accept_first w d it1 : RJ w (accept_first nw (d_kind (getd w d)) w d it1).
Proof.
  unfold accept_first. destruct (d_kind (getd w d)) eqn:K.
  all: try (apply (RJ_dev w d (fun _ => True)); [kp|exact I]).
  jdev w d (t_accept_buffer nw it1) (fun _ : dev => True); [exact I|apply RJ_data].
Qed.

Lemma RJ_accept fuel w d it : RJ w (accept fuel nw w d it).
Proof.
  unfold accept. eapply RJ_trans; [apply RJ_accept_first|].
  apply RJ_accept_rest. apply accept_first_kind. reflexivity.
Qed.

Lemma RJ_proc_can_accept w d : RJ w (fst (proc_can_accept nw w d)).
Proof.
  unfold proc_can_accept. set (x := getd w d). destruct (negb (handler_can_accept x)); [Jt|].
  destruct (d_req x) as [rq|] eqn:RQ; [|Jt]. destruct (d_reserved x) eqn:RV; [Jt|].
  match goal with |- context[rm_call w ?f] => set (w1 := rm_call w f) end.
  assert (R1 : RJ w w1) by apply RJ_rm_call.
  match goal with |- context[match snd ?r with _ => _ end] => destruct (snd r) as [i|] end.
  - cbn [fst]. eapply RJ_trans; [exact R1|]. apply (RJ_dev w1 d (fun _ => True)); [kp|exact I].
  - destruct (negb (okf w1)); [exact R1|]. destruct (d_waiting_res x); [exact R1|]. cbn [fst].
    eapply RJ_trans; [exact R1|]. eapply RJ_trans; [apply RJ_rm_call|].
    match goal with |- RJ ?w0 _ => apply (RJ_dev w0 d (fun _ => True)); [kp|exact I] end.
Qed.

Lemma RJ_give fuel : forall w d it, RJ w (fst (give fuel nw w d it)).
Proof.
  induction fuel as [|f IH]; intros w d it; cbn [give]; [apply RJ_fail|].
  destruct (negb (okf w)); [Jt|]. set (x := getd w d).
  assert (TL : forall it0 l w0 b,
             RJ w0 (fst (fold_left (fun (acc : fw * bool) d' => if snd acc then acc else give f nw (fst acc) d' it0) l (w0, b)))).
  { intros it0 l. induction l as [|d' l IHl]; intros w0 b; cbn; [Jt|].
    destruct b; cbn [snd fst].
    - apply IHl.
    - pose proof (IH w0 d' it0) as X. destruct (give f nw w0 d' it0) as [w1 b1]. cbn [fst] in X.
      eapply RJ_trans; [exact X|apply IHl]. }
  destruct (d_kind x) eqn:K.
  - destruct (negb (operational x && negb (d_block x))); [Jt|apply TL].
  - destruct (negb (decide (d_decider x) it)); [Jt|]. destruct (negb (operational x && negb (d_block x))); [Jt|apply TL].
  - destruct (handler_can_accept x); [|Jt]. cbn [fst]. apply RJ_accept.
  - pose proof (RJ_proc_can_accept w d) as R1. destruct (proc_can_accept nw w d) as [w1 ok]. cbn [fst] in R1.
    destruct ok; [|exact R1]. cbn [fst]. eapply RJ_trans; [exact R1|apply RJ_accept].
  - destruct (inf_leb (d_level x + item_count it) (d_capacity x) && handler_can_accept x); [|Jt]. cbn [fst]. apply RJ_accept.
  - destruct (handler_can_accept x); [|Jt]. cbn [fst]. apply RJ_accept.
  - destruct (handler_can_accept x); [|Jt]. cbn [fst]. apply RJ_accept.
  - destruct (handler_can_accept x); [|Jt]. cbn [fst]. apply RJ_accept.
  - destruct (d_block x); [Jt|]. destruct (aget (d_group x) (f_groups w)); [apply IH|Jt].
  - destruct (negb (operational x && negb (d_block x))); [Jt|apply TL].
  - destruct (rev (item_gpath it)) as [|gp rest]; [apply RJ_fail|apply TL].
Qed.

Lemma RJ_try_downstream fuel w d it : RJ w (fst (try_downstream fuel nw w d it)).
Proof.
  unfold try_downstream. generalize (sorted_down fuel w d). intro l. generalize false. revert w.
  induction l as [|d' l IHl]; intros w0 b; cbn; [Jt|].
  destruct b; cbn [snd fst].
  - apply IHl.
  - pose proof (RJ_give fuel w0 d' it) as X. destruct (give fuel nw w0 d' it) as [w1 b1]. cbn [fst] in X.
    eapply RJ_trans; [exact X|apply IHl].
Qed.

Lemma RJ_handler_pass fuel w d : RJ w (fst (handler_pass fuel nw w d)).
Proof.
  unfold handler_pass. set (x := getd w d). destruct (d_out x) as [it|]; [|Jt]. destruct (negb (operational x)); [Jt|].
  pose proof (RJ_try_downstream fuel w d it) as X. destruct (try_downstream fuel nw w d it) as [w1 ok]. cbn [fst] in X.
  destruct ok; cbn [fst]; (eapply RJ_trans; [exact X|]).
  - jdev w1 d t_clear_out (fun _ : dev => True); [exact I|apply RJ_signal].
  - apply (RJ_dev w1 d (fun _ => True)); [kp|exact I].
Qed.

Lemma RJ_release_reserved w d : RJ w (release_reserved nw w d).
Proof.
  unfold release_reserved. destruct (d_reserved (getd w d)) eqn:RV; [|Jt].
  eapply RJ_trans; [apply RJ_rm_call|]. match goal with |- RJ ?w0 _ => apply (RJ_dev w0 d (fun _ => True)); [kp|exact I] end.
Qed.

Lemma RJ_release_if_idle w d : RJ w (release_if_idle nw w d).
Proof. unfold release_if_idle. destruct (_ || _); [apply RJ_release_reserved|Jt]. Qed.

Lemma shut_not_need x : d_kind x = KProcessor -> d_shut x = true -> ~ need x.
Proof. intros K S [_ [NE _]]. apply NE. left. auto. Qed.

Lemma RJ_shutdown isf lost w d : RJ w (shutdown nw isf lost w d).
Proof.
  unfold shutdown. set (x := getd w d). destruct (is_processor x) eqn:IP; cbn [negb]; [|Jt].
  assert (AM : amem d (f_devs w) = true).
  { apply not_blank_amem. intro E. fold x in E. rewrite E in IP. discriminate. }
  pose proof (is_processor_kind x IP) as K.
  destruct (d_shut x) eqn:S.
  - destruct isf; [|Jt]. eapply RJ_trans; [|apply RJ_run_cbops].
    apply RJ_one, j_s, (s_emit nw w (FCancel d)). cbn. apply shut_not_need; assumption.
  - jdev w d (t_shutdown nw) (fun y : dev => d_kind y = KProcessor); [exact K|].
    eapply RJ_trans; [|apply RJ_run_cbops].
    apply RJ_one, j_s, (s_emit nw (updd w d (t_shutdown nw)) (if isf then FCancel d else FPause d)).
    assert (NN : ~ need (getd (updd w d (t_shutdown nw)) d)).
    { rewrite getd_updd, Z.eqb_refl, AM. cbn [andb]. apply shut_not_need; [exact K|reflexivity]. }
    destruct isf; exact NN.
Qed.

Lemma RJ_fail_proc w d : RJ w (fail nw w d).
Proof.
  unfold fail. set (x := getd w d). destruct (is_processor x) eqn:IP; cbn [negb]; [|Jt].
  jdev w d (t_fail_clear nw) (fun _ : dev => True); [exact I|].
  eapply RJ_trans; [apply RJ_release_reserved|]. eapply RJ_trans; [apply RJ_data|apply RJ_shutdown].
Qed.

Lemma RJ_restore fuel w d : RJ w (restore fuel nw w d).
Proof.
  unfold restore. set (x := getd w d). destruct (is_processor x) eqn:IP; cbn [negb]; [|Jt].
  destruct (negb (d_shut x)) eqn:S; [Jt|].
  pose proof (is_processor_kind x IP) as K.
  destruct (d_out x) eqn:O.
  - eapply RJ_trans; [apply RJ_one, (j_restore_pass nw w d)|apply RJ_run_cbops].
  - eapply RJ_trans; [|apply RJ_run_cbops].
    jdev w d (t_restore nw) (fun y : dev => d_kind y = KProcessor /\ d_out y = None); [split; assumption|].
    eapply RJ_trans; [apply RJ_one, j_s, (s_emit nw _ (FUnpause d)); exact I|].
    destruct (d_part x); [Jt|apply RJ_signal].
Qed.

Lemma RJ_buffer_loop n fuel : forall w d, d_kind (getd w d) = KBuffer -> RJ w (buffer_loop n fuel nw w d).
Proof.
  induction n as [|n IH]; intros w d KB; cbn [buffer_loop]; [Jt|].
  set (x := getd w d) in *. destruct (d_buf x) as [|[t0 it] rest] eqn:B; [Jt|].
  destruct (0 <? d_min_delay x - (nw - t0)); [Jt|].
  pose proof (RJ_try_downstream fuel w d it) as X.
  pose proof (R_try_downstream nw MFull fuel w d it (full_not_neutral MFull eq_refl)) as XR.
  destruct (try_downstream fuel nw w d it) as [w1 ok] eqn:TD. cbn [fst] in X, XR.
  destruct ok; [|exact X]. eapply RJ_trans; [exact X|].
  assert (K1 : d_kind (getd w1 d) = KBuffer) by (rewrite (R_kind nw MFull w w1 XR d); exact KB).
  jdev w1 d (t_buf_pop nw) (fun _ : dev => True); [exact I|]. eapply RJ_trans; [apply RJ_data|]. apply IH.
  match goal with |- d_kind (getd ?ww d) = _ => rewrite (getd_other_fields (updd w1 d (t_buf_pop nw)) ww d eq_refl) end.
  rewrite (getd_updd_field d_kind w1 d (t_buf_pop nw) d); [exact K1|].
  intro y. unfold t_buf_pop. destruct (d_buf y) as [|[? ?] ?]; [reflexivity|]. destruct (0 <? _); reflexivity.
Qed.

Lemma RJ_pass_part fuel w d : RJ w (pass_part fuel nw w d).
Proof.
  unfold pass_part. set (x := getd w d). destruct (d_kind x) eqn:K; try (apply RJ_handler_pass).
  - (* buffer *)
    cbv zeta. set (w1' := buffer_loop (S (length (d_buf x))) fuel nw w d).
    apply (RJ_trans w w1'); [apply RJ_buffer_loop; exact K|].
    eapply RJ_trans; [|apply RJ_signal].
    destruct (d_buf (getd w1' d)) as [|[t0 it] rest]; [Jt|].
    match goal with |- context[if ?c then _ else _] => destruct c end; [apply RJ_sched_pass|].
    apply (RJ_dev w1' d (fun _ => True)); [kp|exact I].
  - (* source *)
    destruct (d_out x) as [it|]; [|Jt].
    match goal with |- context[if negb ?c then _ else _] => destruct (negb c) end; [Jt|].
    pose proof (RJ_handler_pass fuel w d) as X. destruct (handler_pass fuel nw w d) as [w1 ok]. cbn [fst] in X.
    destruct ok; [|exact X]. eapply RJ_trans; [exact X|].
    jdev w1 d (t_supplied nw (item_value it)) (fun _ : dev => True); [exact I|].
    eapply RJ_trans; [apply RJ_data|apply RJ_sched_finish].
  - (* batcher *)
    pose proof (RJ_handler_pass fuel w d) as X. pose proof (R_handler_pass nw MFull fuel w d eq_refl) as XR.
    destruct (handler_pass fuel nw w d) as [w1 ok]. cbn [fst] in X, XR.
    eapply RJ_trans; [exact X|]. destruct (d_out (getd w1 d)); [Jt|]. apply RJ_one, j_batcher.
    rewrite (R_kind nw MFull w w1 XR d). exact K.
Qed.

Lemma RJ_res_check n fuel : forall i w, RJ w (res_check n fuel nw i w).
Proof.
  induction n as [|n IH]; intros i w; cbn [res_check]; [apply RJ_fail|].
  destruct (nth_error (r_wait (f_rm w)) i) as [[r cb id]|]; [|Jt].
  destruct (can_fulfill (r_pools (f_rm w)) r); [|apply IH].
  match goal with |- context[signal fuel nw true (updd ?w1 ?dd _) _] => set (w1' := w1); set (d := dd) end.
  apply (RJ_trans w w1'); [apply RJ_same; reflexivity|].
  jdev w1' d (t_waiting_res false) (fun _ : dev => True); [exact I|].
  eapply RJ_trans; [apply RJ_signal|].
  match goal with |- context[if negb (okf ?w2) then _ else _] => destruct (negb (okf w2)) end; [Jt|].
  eapply RJ_trans; [|apply IH]. apply RJ_same; reflexivity.
Qed.

Lemma RJ_maint_start mid wo w : RJ w (maint_start nw mid wo w).
Proof.
  unfold maint_start. eapply RJ_trans; [apply RJ_maint_call|]. eapply RJ_trans; [apply RJ_shutdown|apply RJ_maint_call].
Qed.

Lemma RJ_maint_finish fuel mid wo w : RJ w (maint_finish fuel nw mid wo w).
Proof. unfold maint_finish. eapply RJ_trans; [apply RJ_restore|apply RJ_maint_call]. Qed.

Lemma was_empty_exhausted x b : d_budget x = Some b -> (b - d_produced x <? 1) = exhausted x.
Proof.
  intro B. unfold exhausted. rewrite B. destruct (Z.ltb_spec (b - d_produced x) 1); destruct (Z.leb_spec 1 (Z.max (b - d_produced x) 0)); cbn; try reflexivity; lia.
Qed.

Lemma RJ_rewire fuel w d ups : RJ w (rewire fuel nw w d ups).
Proof.
  unfold rewire. set (x := getd w d). destruct (existsb (bad_up d w) ups); [Jt|].
  match goal with |- RJ w (fold_left _ ups (updd (fold_left _ _ ?w0') d _)) => set (w0 := w0') end.
  assert (R0 : RJ w w0).
  { unfold w0. destruct (is_holder (d_kind x)); [|Jt]. destruct (d_wait_since x); [|Jt]. apply (RJ_dev w d (fun _ => True)); [kp|exact I]. }
  apply (RJ_trans w w0); [exact R0|].
  set (w1 := fold_left (fun w' u => updd w' u (t_down_del d)) (d_up x) w0).
  apply (RJ_trans w0 w1); [unfold w1; apply RJ_fold; intros w' u; apply (RJ_dev w' u (fun _ => True)); [apply psafe_conv; intros y N; exact N|exact I]|].
  apply (RJ_trans w1 (updd w1 d (t_up ups))); [apply (RJ_dev w1 d (fun _ => True)); [apply psafe_conv; intros y N; exact N|exact I]|].
  apply RJ_fold. intros w' u. destruct (existsb (Z.eqb d) (d_down (getd w' u))); [Jt|].
  apply (RJ_trans w' (updd w' u (t_down_add d))); [apply (RJ_dev w' u (fun _ => True)); [apply psafe_conv; intros y N; exact N|exact I]|apply RJ_signal].
Qed.

Lemma RJ_run_uop fuel w o : RJ w (run_uop fuel nw w o).
Proof.
  unfold run_uop. destruct (negb (okf w)); [Jt|]. destruct o.
  - apply RJ_shutdown.
  - apply RJ_restore.
  - Jt.
  - destruct (Bool.eqb _ _); [Jt|]. jdev w d (t_block b) (fun _ : dev => True); [exact I|]. destruct b; [Jt|apply RJ_signal].
  - destruct (d_budget (getd w d)) as [b|] eqn:B; [|Jt].
    rewrite (was_empty_exhausted _ b B). destruct (exhausted (getd w d)) eqn:X.
    + apply RJ_one, j_budget_pass.
    + apply (RJ_dev w d (fun y => exhausted y = false)); [kp|exact X].
  - apply (RJ_dev w d (fun _ => True)); [kp|exact I].
  - apply RJ_rewire.
  - apply RJ_rm_call.
  - apply RJ_create_wo.
Qed.

Theorem RJ_exec_fact fuel uops a w : RJ w (exec_fact fuel uops a w nw).
Proof.
  destruct a as [d|d|d|d| |m [wo|wo]|k]; cbn [exec_fact].
  - apply RJ_finish_cycle.
  - apply RJ_pass_part.
  - apply RJ_fail_proc.
  - apply RJ_release_if_idle.
  - apply RJ_res_check.
  - apply RJ_maint_start.
  - apply RJ_maint_finish.
  - apply RJ_fold. intros. apply RJ_run_uop.
Qed.

Lemma RJ_init_dev fuel w d : RJ w (init_dev fuel nw w d).
Proof.
  unfold init_dev. set (x := getd w d). destruct (is_holder (d_kind x)); [|Jt].
  set (w1 := updd w d (fun y => dev_set_wait nw true true y)).
  assert (R1 : RJ w w1) by (apply (RJ_dev w d (fun _ => True)); [kp|exact I]).
  destruct (d_kind x); try exact R1.
  - eapply RJ_trans; [exact R1|]. apply (RJ_dev w1 d (fun _ => True)); [|exact I]. apply psafe_conv. intros y N. exact N.
  - eapply RJ_trans; [exact R1|apply RJ_sched_finish].
Qed.

Lemma RJ_init_world fuel w : RJ w (init_world fuel nw w).
Proof.
  unfold init_world. eapply RJ_trans; [apply RJ_rm_call|]. apply RJ_fold. intros. apply RJ_init_dev.
Qed.

(** a device constructed between two events *)
Lemma RJ_late_create fuel w d ups : RJ w (late_create fuel nw w d ups).
Proof.
  unfold late_create. match goal with |- RJ _ (if ?c then _ else _) => destruct c end; [Jt|].
  set (w0 := w <| f_next_id := f_next_id w + 1 |>).
  apply (RJ_trans w w0); [apply RJ_same; reflexivity|].
  apply (RJ_trans w0 (updd w0 d t_live)); [apply (RJ_dev w0 d (fun _ => True)); [apply psafe_conv; intros y N; exact N|exact I]|].
  eapply RJ_trans; [apply RJ_init_dev|apply RJ_rewire].
Qed.

End Wake.
