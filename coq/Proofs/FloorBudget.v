(** C02, last clause: a source never supplies more parts than its part budget (initial amount plus adjustments).

    [BW w]: every device with a finite budget has supplied at most that many parts.  A sixth step decomposition, in two levels: the
    strict steps [SB] leave the supplied-parts counter and the budget of every device alone (everything a hand-over does, so the
    budget test made before a source's hand-over still holds when the counter is raised after it: [SB_keep]); on top of them the two
    steps that change them — a source counting a supplied part, allowed only below the budget, and a budget adjustment, never below
    what has been supplied. *)
From Coq Require Import ZArith List Bool Lia.
From RecordUpdate Require Import RecordUpdate.
From SimVerif Require Import Model.Base Model.Env Model.FamEnv Model.RM Model.Maint Model.FloorTypes Model.Floor Model.FamFloor.
From SimVerif Require Import Proofs.RMInv Proofs.FloorSteps Proofs.FloorInv Proofs.FloorRes Proofs.FloorReach.
Import ListNotations.
Open Scope Z_scope.

Definition bsafe (f : dev -> dev) : Prop := forall x, d_produced (f x) = d_produced x /\ d_budget (f x) = d_budget x.

Inductive sstep : fw -> fw -> Prop :=
| s_dev w d f : bsafe f -> sstep w (updd w d f)
| s_same w w' : f_devs w' = f_devs w -> sstep w w'.

Inductive SB : fw -> fw -> Prop :=
| SB_refl w : SB w w
| SB_step w1 w2 w3 : sstep w1 w2 -> SB w2 w3 -> SB w1 w3.

Inductive bstep (nw : Z) : fw -> fw -> Prop :=
| b_s w w' : SB w w' -> bstep nw w w'
| b_supply w d v : (forall b, d_budget (getd w d) = Some b -> d_produced (getd w d) < b) -> bstep nw w (updd w d (t_supplied nw v))
| b_budget w d z : d_produced (getd w d) <= z -> bstep nw w (updd w d (t_budget z)).

Inductive RB (nw : Z) : fw -> fw -> Prop :=
| RB_refl w : RB nw w w
| RB_step w1 w2 w3 : bstep nw w1 w2 -> RB nw w2 w3 -> RB nw w1 w3.

Lemma SB_keep w w' : SB w w' -> forall d, d_produced (getd w' d) = d_produced (getd w d) /\ d_budget (getd w' d) = d_budget (getd w d).
Proof.
  induction 1 as [|w1 w2 w3 S _ IH]; intro d; [auto|]. destruct (IH d) as [A B]. rewrite A, B.
  destruct S as [w d0 f HS|w w' D].
  - split; apply getd_updd_field; intro y; apply (HS y).
  - rewrite (getd_other_fields w w' d D). auto.
Qed.

Ltac kb :=
  let x := fresh "x" in
  intro x;
  unfold t_accept_sink, t_accept_proc, t_accept_buffer, t_accept, t_shutdown, t_restore, t_buf_store, t_buf_pop, t_map_slot, t_finish_proc, t_fail_clear, t_stop_use,
         t_finish, t_generated, t_clear_out, t_clear_part, t_batch_single, t_batch_full, t_batch_more, t_reserved, t_live,
         t_waiting_res, t_waiting_ds, t_set_cycle, t_add_offset, t_reset_offset, t_block, t_down_del, t_down_add, t_up, dev_set_wait, dev_add_value;
  cbv zeta;
  repeat match goal with
         | |- context[if ?b then _ else _] => match type of b with bool => destruct b end
         | |- context[match d_wait_since ?y with _ => _ end] => destruct (d_wait_since y)
         | |- context[match d_buf ?y with _ => _ end] => destruct (d_buf y) as [|[? ?] ?]
         end;
  split; reflexivity.

Section Budget.
Variable nw : Z.

Lemma SB_trans a b c : SB a b -> SB b c -> SB a c.
Proof. induction 1 as [|w1 w2 w3 S _ IH]; intro Hbc; [exact Hbc|]. econstructor; [exact S|apply IH, Hbc]. Qed.
Lemma SB_one a b : sstep a b -> SB a b.
Proof. intro H. econstructor; [exact H|constructor]. Qed.
Lemma SB_dev0 w d f : bsafe f -> SB w (updd w d f).
Proof. intro H. apply SB_one, s_dev, H. Qed.
Lemma SB_same w w' : f_devs w' = f_devs w -> SB w w'.
Proof. intro D. apply SB_one, s_same, D. Qed.
Lemma SB_emit w c : SB w (emitf w c).
Proof. apply SB_same. reflexivity. Qed.
Lemma SB_data w l s p : SB w (data w l s p).
Proof. apply SB_same. reflexivity. Qed.
Lemma SB_fail w e : SB w (failf w e).
Proof. apply SB_same. unfold failf. destruct (f_err w =? 0); reflexivity. Qed.
Lemma SB_fold {X} (F : fw -> X -> fw) (l : list X) : (forall w x, SB w (F w x)) -> forall w, SB w (fold_left F l w).
Proof. intros H. induction l as [|x l IH]; intro w; cbn; [constructor|]. eapply SB_trans; [apply H|apply IH]. Qed.
Lemma SB_rm_call w f : SB w (rm_call w f).
Proof. apply SB_same. apply rm_call_devs. Qed.
Lemma SB_maint_call w mid f : SB w (maint_call w mid f).
Proof. apply SB_same. reflexivity. Qed.
Lemma SB_create_wo mid t g w : SB w (create_wo nw mid t g w).
Proof. apply SB_maint_call. Qed.

Ltac St := first [apply SB_refl | apply SB_fail | apply SB_data | apply SB_emit].
Ltac sdev w0 d0 f0 := apply (SB_trans w0 (updd w0 d0 f0)); [apply (SB_dev0 w0 d0 f0); kb|].

Lemma SB_sched_pass off w d : SB w (sched_pass nw off w d).
Proof. unfold sched_pass. destruct (d_kind (getd w d)); try St; (sdev w d (t_waiting_ds false); St). Qed.

Lemma SB_signal fuel : forall m w d, SB w (signal fuel nw m w d).
Proof.
  induction fuel as [|f IH]; intros m w d; cbn [signal]; [apply SB_fail|].
  set (x := getd w d).
  assert (NU : forall w0, SB w0 (fold_left (fun w1 u => signal f nw false w1 u) (d_up (getd w0 d)) w0)).
  { intro w0. apply SB_fold. intros; apply IH. }
  assert (SW : SB w (fold_left (fun w1 u => signal f nw false w1 u)
                               (d_up (getd (wait_if_empty nw w d) d)) (wait_if_empty nw w d))).
  { unfold wait_if_empty. destruct (d_part (getd w d)); [apply NU|]. destruct (d_out (getd w d)); [apply NU|].
    sdev w d (dev_set_wait nw true false). apply NU. }
  destruct m.
  - destruct (d_kind x); try apply NU; try exact SW.
    + destruct (inf_ltb (d_level x) (d_capacity x)); [exact SW|St].
    + destruct (aget (d_group x) (f_groups w)); [|St]. apply SB_fold. intros; apply IH.
  - destruct (d_kind x); try apply IH;
      try (destruct (operational x && d_waiting_ds x); [apply SB_sched_pass|St]).
    destruct (aget (d_group x) (f_groups w)); [apply IH|St].
Qed.

Lemma SB_run_cbop d slot isf lost w o : SB w (run_cbop nw d slot isf lost w o).
Proof.
  unfold run_cbop. destruct (negb (okf w)); [St|].
  destruct o.
  - apply SB_dev0; kb.
  - apply SB_dev0; kb.
  - destruct (if slot then d_part (getd w d) else d_out (getd w d)) as [i|]; [|St].
    destruct (is_batch i); [St|]. apply SB_dev0; kb.
  - apply SB_dev0; kb.
  - apply SB_create_wo.
  - destruct isf; [apply SB_create_wo|St].
  - apply SB_same; reflexivity.
Qed.

Lemma SB_run_cbops d slot isf lost ops : forall w, SB w (run_cbops nw d slot isf lost ops w).
Proof. unfold run_cbops. apply SB_fold. intros. apply SB_run_cbop. Qed.

Lemma SB_finish_cycle fuel w d : SB w (finish_cycle fuel nw w d).
Proof.
  unfold finish_cycle. set (x := getd w d). destruct (d_kind x) eqn:K; try St;
  try (destruct (negb (operational x)); [St|]; destruct (d_part x) as [it|] eqn:P; [|St]; destruct (d_out x) eqn:O; [St|]).
  3:{ (* source *)
      destruct (d_out x) eqn:O; [apply SB_sched_pass|].
      destruct (generate w d) as [w' it] eqn:G.
      apply (SB_trans w w').
      { destruct (generate_nextid w d) as [z Hz]. rewrite G in Hz. cbn in Hz. subst w'. apply SB_same; reflexivity. }
      sdev w' d (t_generated it). apply SB_sched_pass. }
  - sdev w d (t_finish it). apply SB_sched_pass.
  - sdev w d (t_finish_proc nw it).
    eapply SB_trans; [apply SB_sched_pass|].
    match goal with |- context[match d_reserved ?y with _ => _ end] => destruct (d_reserved y) end.
    + eapply SB_trans; [apply SB_emit|]. eapply SB_trans; [apply SB_run_cbops|].
      match goal with |- context[match d_out ?y with _ => _ end] => destruct (d_out y) end; St.
    + eapply SB_trans; [apply SB_run_cbops|].
      match goal with |- context[match d_out ?y with _ => _ end] => destruct (d_out y) end; St.
  - sdev w d (t_finish it). eapply SB_trans; [apply SB_sched_pass|].
    match goal with |- SB ?w0 _ => sdev w0 d t_clear_out; apply SB_signal end.
Qed.

Lemma SB_sched_finish fuel w d : SB w (sched_finish fuel nw w d).
Proof.
  unfold sched_finish. sdev w d t_reset_offset.
  destruct (_ <=? 0); [apply SB_finish_cycle|St].
Qed.

Lemma SB_batcher_fill n : forall w d, SB w (batcher_fill n w d).
Proof.
  induction n as [|n IH]; intros w d; cbn [batcher_fill]; [St|].
  set (x := getd w d) in *. destruct (d_out x) eqn:O; [St|]. destruct (d_part x) as [it|] eqn:P; [|St].
  match goal with |- context[let '(p, rest) := ?e in _] => destruct e as [[p|] rest] eqn:SP end; [|St].
  destruct (d_batch_size x) as [size|] eqn:BS.
  - destruct (d_inprog x) as [[pp|b ps]|] eqn:IP.
    + apply IH.
    + destruct (size <=? Z.of_nat (length (ps ++ [p]))).
      * sdev w d (t_batch_full rest b (ps ++ [p])). apply IH.
      * sdev w d (t_batch_more rest b (ps ++ [p])). apply IH.
    + set (w1 := w <| f_next_id := f_next_id w + 1 |>).
      apply (SB_trans w w1); [apply SB_same; reflexivity|].
      destruct (size <=? Z.of_nat (length ([] ++ [p]))).
      * sdev w1 d (t_batch_full rest (mkPart (f_next_id w + 1) 0 0 [] []) ([] ++ [p])). apply IH.
      * sdev w1 d (t_batch_more rest (mkPart (f_next_id w + 1) 0 0 [] []) ([] ++ [p])). apply IH.
  - sdev w d (t_batch_single rest p). apply IH.
Qed.

Lemma SB_batcher_try_move w d : SB w (batcher_try_move nw w d).
Proof.
  unfold batcher_try_move. set (x := getd w d) in *. destruct (d_part x) as [it|] eqn:P; [|St]. destruct (d_out x); [St|].
  destruct (negb (operational x)); [St|].
  assert (G : SB w (let w1 := batcher_fill (S (Z.to_nat (item_count it))) w d in
                    match d_out (getd w1 d) with Some _ => sched_pass nw 0 w1 d | None => w1 end)).
  { cbv zeta. eapply SB_trans; [apply SB_batcher_fill|].
    match goal with |- context[match d_out ?y with _ => _ end] => destruct (d_out y) end; [apply SB_sched_pass|St]. }
  destruct it as [p|b [|p ps]]; try exact G.
  sdev w d t_clear_part. St.
Qed.

Lemma SB_accept_rest fuel k w2 d it1 : SB w2 (accept_rest fuel nw k w2 d it1).
Proof.
  unfold accept_rest.
  set (w3 := rec_part w2 L_RECEIVED d nw it1). apply (SB_trans w2 w3); [unfold w3, rec_part; apply SB_data|].
  set (w4 := run_cbops nw d true false (-1) (d_on_receive (getd w3 d)) w3).
  apply (SB_trans w3 w4); [apply SB_run_cbops|].
  destruct (negb (okf w4)); [St|]. set (x := getd w4 d) in *. destruct (d_out x); [St|].
  destruct k eqn:K; cbv zeta;
    try (destruct (operational x && match d_part x with Some _ => true | None => false end); [apply SB_sched_finish|St]).
  - destruct (d_part x) as [itb|] eqn:PB; [|St].
    sdev w4 d (t_buf_store nw itb).
    eapply SB_trans; [apply SB_signal|].
    match goal with |- context[if ?c then _ else _] => destruct c end; [apply SB_sched_pass|St].
  - apply SB_batcher_try_move.
Qed.

Lemma SB_accept_first w d it1 k : SB w (accept_first nw k w d it1).
Proof.
  unfold accept_first. destruct k; try (apply SB_dev0; kb).
  cbv zeta. sdev w d (t_accept_buffer nw it1). apply SB_data.
Qed.

Lemma SB_accept fuel w d it : SB w (accept fuel nw w d it).
Proof. unfold accept. eapply SB_trans; [apply SB_accept_first|apply SB_accept_rest]. Qed.

Lemma SB_proc_can_accept w d : SB w (fst (proc_can_accept nw w d)).
Proof.
  unfold proc_can_accept. set (x := getd w d). destruct (negb (handler_can_accept x)); [St|].
  destruct (d_req x) as [rq|] eqn:RQ; [|St]. destruct (d_reserved x) eqn:RV; [St|].
  change (mkRs (r_pools (f_rm w)) (r_wait (f_rm w)) (r_res (f_rm w)) (r_slots (f_rm w)) (r_cblog (f_rm w)) [] 0 (r_env (f_rm w)) (r_nreg (f_rm w)))
    with (clean_rs (f_rm w)).
  set (res := reserve nw rq (clean_rs (f_rm w))). set (w1 := rm_call w (fun _ => fst res)).
  assert (R1 : SB w w1) by (apply SB_rm_call).
  destruct (snd res) as [i|].
  - cbn [fst]. eapply SB_trans; [exact R1|]. apply SB_dev0; kb.
  - destruct (negb (okf w1)); [exact R1|]. destruct (d_waiting_res x); [exact R1|]. cbn [fst].
    eapply SB_trans; [exact R1|]. eapply SB_trans; [apply SB_rm_call|].
    apply SB_dev0; kb.
Qed.

Lemma SB_give fuel : forall w d it, SB w (fst (give fuel nw w d it)).
Proof.
  induction fuel as [|f IH]; intros w d it; cbn [give]; [apply SB_fail|].
  destruct (negb (okf w)); [St|]. set (x := getd w d).
  assert (TL : forall it0 l w0 b,
             SB w0 (fst (fold_left (fun (acc : fw * bool) d' => if snd acc then acc else give f nw (fst acc) d' it0) l (w0, b)))).
  { intros it0 l. induction l as [|d' l IHl]; intros w0 b; cbn; [St|].
    destruct b; cbn [snd fst].
    - apply IHl.
    - pose proof (IH w0 d' it0) as X. destruct (give f nw w0 d' it0) as [w1 b1]. cbn [fst] in X.
      eapply SB_trans; [exact X|apply IHl]. }
  destruct (d_kind x) eqn:K.
  - destruct (negb (operational x && negb (d_block x))); [St|apply TL].
  - destruct (negb (decide (d_decider x) it)); [St|]. destruct (negb (operational x && negb (d_block x))); [St|apply TL].
  - destruct (handler_can_accept x); [|St]. cbn [fst]. apply SB_accept.
  - pose proof (SB_proc_can_accept w d) as R1. destruct (proc_can_accept nw w d) as [w1 ok]. cbn [fst] in R1.
    destruct ok; [|exact R1]. cbn [fst]. eapply SB_trans; [exact R1|apply SB_accept].
  - destruct (inf_leb (d_level x + item_count it) (d_capacity x) && handler_can_accept x); [|St]. cbn [fst]. apply SB_accept.
  - destruct (handler_can_accept x); [|St]. cbn [fst]. apply SB_accept.
  - destruct (handler_can_accept x); [|St]. cbn [fst]. apply SB_accept.
  - destruct (handler_can_accept x); [|St]. cbn [fst]. apply SB_accept.
  - destruct (d_block x); [St|]. destruct (aget (d_group x) (f_groups w)); [apply IH|St].
  - destruct (negb (operational x && negb (d_block x))); [St|apply TL].
  - destruct (rev (item_gpath it)) as [|gp rest]; [apply SB_fail|apply TL].
Qed.

Lemma SB_try_downstream fuel w d it : SB w (fst (try_downstream fuel nw w d it)).
Proof.
  unfold try_downstream. generalize (sorted_down fuel w d). intro l. generalize false. revert w.
  induction l as [|d' l IHl]; intros w0 b; cbn; [St|].
  destruct b; cbn [snd fst].
  - apply IHl.
  - pose proof (SB_give fuel w0 d' it) as X. destruct (give fuel nw w0 d' it) as [w1 b1]. cbn [fst] in X.
    eapply SB_trans; [exact X|apply IHl].
Qed.

Lemma SB_handler_pass fuel w d : SB w (fst (handler_pass fuel nw w d)).
Proof.
  unfold handler_pass. set (x := getd w d). destruct (d_out x) as [it|]; [|St]. destruct (negb (operational x)); [St|].
  pose proof (SB_try_downstream fuel w d it) as X. destruct (try_downstream fuel nw w d it) as [w1 ok]. cbn [fst] in X.
  destruct ok; cbn [fst]; (eapply SB_trans; [exact X|]).
  - sdev w1 d t_clear_out. apply SB_signal.
  - apply SB_dev0; kb.
Qed.

Lemma SB_release_reserved w d : SB w (release_reserved nw w d).
Proof.
  unfold release_reserved. destruct (d_reserved (getd w d)) eqn:RV; [|St].
  eapply SB_trans; [apply SB_rm_call|]. apply SB_dev0; kb.
Qed.

Lemma SB_release_if_idle w d : SB w (release_if_idle nw w d).
Proof. unfold release_if_idle. destruct (_ || _); [apply SB_release_reserved|St]. Qed.

Lemma SB_shutdown isf lost w d : SB w (shutdown nw isf lost w d).
Proof.
  unfold shutdown. set (x := getd w d). destruct (is_processor x); cbn [negb]; [|St].
  destruct (d_shut x).
  - destruct isf; [|St]. eapply SB_trans; [apply SB_emit|apply SB_run_cbops].
  - sdev w d (t_shutdown nw). eapply SB_trans; [|apply SB_run_cbops]. destruct isf; St.
Qed.

Lemma SB_fail_proc w d : SB w (fail nw w d).
Proof.
  unfold fail. set (x := getd w d). destruct (is_processor x); cbn [negb]; [|St].
  sdev w d (t_fail_clear nw). eapply SB_trans; [apply SB_release_reserved|]. eapply SB_trans; [apply SB_data|apply SB_shutdown].
Qed.

Lemma SB_restore fuel w d : SB w (restore fuel nw w d).
Proof.
  unfold restore. set (x := getd w d). destruct (is_processor x); cbn [negb]; [|St].
  destruct (negb (d_shut x)); [St|].
  sdev w d (t_restore nw). eapply SB_trans; [apply SB_emit|]. eapply SB_trans; [|apply SB_run_cbops].
  destruct (d_out x); [apply SB_sched_pass|]. destruct (d_part x); [St|apply SB_signal].
Qed.

Lemma SB_buffer_loop n fuel : forall w d, SB w (buffer_loop n fuel nw w d).
Proof.
  induction n as [|n IH]; intros w d; cbn [buffer_loop]; [St|].
  set (x := getd w d) in *. destruct (d_buf x) as [|[t0 it] rest] eqn:B; [St|].
  destruct (0 <? d_min_delay x - (nw - t0)); [St|].
  pose proof (SB_try_downstream fuel w d it) as X.
  destruct (try_downstream fuel nw w d it) as [w1 ok] eqn:TD. cbn [fst] in X.
  destruct ok; [|exact X]. eapply SB_trans; [exact X|]. cbv zeta.
  sdev w1 d (t_buf_pop nw). eapply SB_trans; [apply SB_data|]. apply IH.
Qed.

Lemma SB_pass_part fuel w d : d_kind (getd w d) <> KSource -> SB w (pass_part fuel nw w d).
Proof.
  intro NS. unfold pass_part. set (x := getd w d) in *. destruct (d_kind x) eqn:K; try (apply SB_handler_pass); [| congruence |].
  - cbv zeta. set (w1' := buffer_loop (S (length (d_buf x))) fuel nw w d).
    apply (SB_trans w w1'); [apply SB_buffer_loop|].
    eapply SB_trans; [|apply SB_signal].
    destruct (d_buf (getd w1' d)) as [|[t0 it] rest]; [St|].
    match goal with |- context[if ?c then _ else _] => destruct c end; [apply SB_sched_pass|].
    apply SB_dev0; kb.
  - pose proof (SB_handler_pass fuel w d) as X.
    destruct (handler_pass fuel nw w d) as [w1 ok]. cbn [fst] in X.
    eapply SB_trans; [exact X|]. destruct (d_out (getd w1 d)); [St|]. apply SB_batcher_try_move.
Qed.

Lemma SB_res_check n fuel : forall i w, SB w (res_check n fuel nw i w).
Proof.
  induction n as [|n IH]; intros i w; cbn [res_check]; [apply SB_fail|].
  destruct (nth_error (r_wait (f_rm w)) i) as [[r cb id]|]; [|St].
  destruct (can_fulfill (r_pools (f_rm w)) r); [|apply IH].
  match goal with |- context[signal fuel nw true (updd ?w1 ?dd _) _] => set (w1' := w1); set (d := dd) end.
  apply (SB_trans w w1'); [apply SB_same; reflexivity|].
  sdev w1' d (t_waiting_res false).
  eapply SB_trans; [apply SB_signal|].
  match goal with |- context[if negb (okf ?w2) then _ else _] => destruct (negb (okf w2)) end; [St|].
  eapply SB_trans; [|apply IH]. apply SB_same; reflexivity.
Qed.

Lemma SB_maint_start mid wo w : SB w (maint_start nw mid wo w).
Proof.
  unfold maint_start. eapply SB_trans; [apply SB_maint_call|].
  eapply SB_trans; [apply SB_shutdown|apply SB_maint_call].
Qed.

Lemma SB_maint_finish fuel mid wo w : SB w (maint_finish fuel nw mid wo w).
Proof. unfold maint_finish. eapply SB_trans; [apply SB_restore|apply SB_maint_call]. Qed.

Lemma SB_rewire fuel w d ups : SB w (rewire fuel nw w d ups).
Proof.
  unfold rewire. set (x := getd w d). destruct (existsb (bad_up d w) ups); [St|].
  match goal with |- SB w (fold_left _ ups (updd (fold_left _ _ ?w0') d _)) => set (w0 := w0') end.
  assert (R0 : SB w w0).
  { unfold w0. destruct (is_holder (d_kind x)); [|St]. destruct (d_wait_since x); [|St]. apply SB_dev0; kb. }
  apply (SB_trans w w0); [exact R0|].
  set (w1 := fold_left (fun w' u => updd w' u (t_down_del d)) (d_up x) w0).
  apply (SB_trans w0 w1); [unfold w1; apply SB_fold; intros w' u; apply SB_dev0; kb|].
  apply (SB_trans w1 (updd w1 d (t_up ups))); [apply SB_dev0; kb|].
  apply SB_fold. intros w' u. destruct (existsb (Z.eqb d) (d_down (getd w' u))); [St|].
  apply (SB_trans w' (updd w' u (t_down_add d))); [apply SB_dev0; kb|apply SB_signal].
Qed.

Lemma SB_init_dev fuel w d : SB w (init_dev fuel nw w d).
Proof.
  unfold init_dev. set (x := getd w d). destruct (is_holder (d_kind x)); [|St].
  set (w1 := updd w d (fun y => dev_set_wait nw true true y)).
  assert (R1 : SB w w1) by (apply SB_dev0; kb).
  destruct (d_kind x); try exact R1.
  - eapply SB_trans; [exact R1|]. apply SB_dev0. intro y. auto.
  - eapply SB_trans; [exact R1|apply SB_sched_finish].
Qed.

Lemma SB_init_world fuel w : SB w (init_world fuel nw w).
Proof.
  unfold init_world. eapply SB_trans; [apply SB_rm_call|]. apply SB_fold. intros. apply SB_init_dev.
Qed.

Lemma SB_late_create fuel w d ups : SB w (late_create fuel nw w d ups).
Proof.
  unfold late_create. match goal with |- SB _ (if ?c then _ else _) => destruct c end; [St|].
  set (w0 := w <| f_next_id := f_next_id w + 1 |>).
  apply (SB_trans w w0); [apply SB_same; reflexivity|].
  apply (SB_trans w0 (updd w0 d t_live)); [apply SB_dev0; kb|].
  eapply SB_trans; [apply SB_init_dev|apply SB_rewire].
Qed.


(** the two steps that touch the counter or the budget *)
Notation RB := (RB nw).
Lemma RB_trans a b c : RB a b -> RB b c -> RB a c.
Proof. induction 1 as [|w1 w2 w3 S _ IH]; intro Hbc; [exact Hbc|]. econstructor; [exact S|apply IH, Hbc]. Qed.
Lemma RB_one a b : bstep nw a b -> RB a b.
Proof. intro H. econstructor; [exact H|constructor]. Qed.
Lemma RB_s a b : SB a b -> RB a b.
Proof. intro H. apply RB_one, b_s, H. Qed.
Lemma RB_fold {X} (F : fw -> X -> fw) (l : list X) : (forall w x, RB w (F w x)) -> forall w, RB w (fold_left F l w).
Proof. intros H. induction l as [|x l IH]; intro w; cbn; [constructor|]. eapply RB_trans; [apply H|apply IH]. Qed.

Lemma RB_pass_part fuel w d : RB w (pass_part fuel nw w d).
Proof.
  destruct (kind_eqb (d_kind (getd w d)) KSource) eqn:KS.
  2:{ apply RB_s, SB_pass_part. intro E. rewrite E in KS. discriminate. }
  assert (K : d_kind (getd w d) = KSource) by (destruct (d_kind (getd w d)); try discriminate; reflexivity).
  unfold pass_part. set (x := getd w d) in *. rewrite K.
  destruct (d_out x) as [it|]; [|constructor].
  match goal with |- context[if negb ?c then _ else _] => destruct c eqn:ROK end; cbn [negb]; [|constructor].
  pose proof (SB_handler_pass fuel w d) as X.
  destruct (handler_pass fuel nw w d) as [w1 ok]. cbn [fst] in X.
  destruct ok; [|apply RB_s, X]. eapply RB_trans; [apply RB_s, X|].
  eapply RB_trans; [apply RB_one, b_supply|].
  - intros b Hb. destruct (SB_keep w w1 X d) as [P B]. rewrite P. rewrite B in Hb. fold x in Hb. rewrite Hb in ROK. fold x. apply Z.leb_le in ROK. lia.
  - eapply RB_trans; [apply RB_s, SB_data|apply RB_s, SB_sched_finish].
Qed.

Lemma RB_run_uop fuel w o : RB w (run_uop fuel nw w o).
Proof.
  unfold run_uop. destruct (negb (okf w)); [constructor|]. destruct o.
  - apply RB_s, SB_shutdown.
  - apply RB_s, SB_restore.
  - apply RB_s. St.
  - apply RB_s. destruct (Bool.eqb _ _); [St|]. sdev w d (t_block b). destruct b; [St|apply SB_signal].
  - destruct (d_budget (getd w d)) as [b|]; [|constructor].
    match goal with |- context[t_budget ?zz] => apply (RB_trans w (updd w d (t_budget zz))); [apply RB_one, b_budget; lia|] end. apply RB_s.
    destruct (_ <? 1); [apply SB_sched_pass|St].
  - apply RB_s. apply SB_dev0; kb.
  - apply RB_s, SB_rewire.
  - apply RB_s, SB_rm_call.
  - apply RB_s, SB_create_wo.
Qed.

Theorem RB_exec_fact fuel uops a w : RB w (exec_fact fuel uops a w nw).
Proof.
  destruct a as [d|d|d|d| |m [wo|wo]|k]; cbn [exec_fact].
  - apply RB_s, SB_finish_cycle.
  - apply RB_pass_part.
  - apply RB_s, SB_fail_proc.
  - apply RB_s, SB_release_if_idle.
  - apply RB_s, SB_res_check.
  - apply RB_s, SB_maint_start.
  - apply RB_s, SB_maint_finish.
  - apply RB_fold. intros. apply RB_run_uop.
Qed.

End Budget.

(** * the invariant *)
Definition BW (w : fw) : Prop := forall d b, d_budget (getd w d) = Some b -> d_produced (getd w d) <= b.

Theorem bstep_BW nw w w' : bstep nw w w' -> BW w -> BW w'.
Proof.
  intros S H. destruct S as [w w' HS|w d v LT|w d z LE].
  - intros d b Hb. destruct (SB_keep w w' HS d) as [P B]. rewrite P. rewrite B in Hb. apply H, Hb.
  - intros d' b. rewrite getd_updd. destruct (Z.eqb_spec d' d) as [->|N]; cbn [andb]; [|apply H].
    destruct (amem d (f_devs w)); [|apply H].
    assert (E : d_produced (t_supplied nw v (getd w d)) = 1 + d_produced (getd w d) /\ d_budget (t_supplied nw v (getd w d)) = d_budget (getd w d)).
    { unfold t_supplied, dev_add_value. destruct (- v =? 0); split; reflexivity. }
    destruct E as [E1 E2]. rewrite E1, E2. intro Hb. specialize (LT b Hb). lia.
  - intros d' b. rewrite getd_updd. destruct (Z.eqb_spec d' d) as [->|N]; cbn [andb]; [|apply H].
    destruct (amem d (f_devs w)); [|apply H]. unfold t_budget. cbn. intro Hb. injection Hb as <-. exact LE.
Qed.

Theorem RB_BW nw w w' : RB nw w w' -> BW w -> BW w'.
Proof. induction 1 as [|w1 w2 w3 S _ IH]; intro H; [exact H|]. apply IH. eapply bstep_BW; eauto. Qed.

Lemma BW_same w w' : f_devs w' = f_devs w -> f_next_id w' = f_next_id w -> BW w -> BW w'.
Proof. intros D _ H d. rewrite (getd_other_fields w w' d D). apply H. Qed.

(** the initial condition: the decoder builds sources that have supplied nothing and budgets that are not negative *)
Definition budget_okb (w : fw) : bool :=
  forallb (fun e => match d_budget (snd e) with Some b => d_produced (snd e) <=? b | None => true end) (f_devs w).

Lemma budget_okb_BW w : budget_okb w = true -> BW w.
Proof.
  unfold budget_okb. rewrite forallb_forall. intros H d b. unfold getd. destruct (aget d (f_devs w)) as [x|] eqn:Hx; [|discriminate].
  apply aget_In in Hx. specialize (H _ Hx). cbn [snd] in H. intro Hb. rewrite Hb in H. apply Z.leb_le, H.
Qed.

Lemma wf_budget_okb w : wf_worldb w = true -> budget_okb w = true.
Proof.
  unfold wf_worldb. intro H. apply andb_true_iff in H. destruct H as [H _]. apply andb_true_iff in H. destruct H as [H _].
  apply andb_true_iff in H. destruct H as [PR _]. rewrite forallb_forall in PR. unfold budget_okb. apply forallb_forall. intros e He.
  specialize (PR e He). unfold pristine in PR. apply andb_true_iff in PR. destruct PR as [_ PR]. exact PR.
Qed.

Theorem reach_BW sc s : reach_fl sc s -> BW (fst s).
Proof.
  intros H. induction H as [WF|s x _ IH NX]; [pose proof (wf_budget_okb _ WF) as B0|].
  - unfold do_fxop. cbn [fst snd].
    assert (G : BW (init_world (fl_fuel (fq_world sc)) (now (init_env (A:=fact))) (fq_world sc))).
    { apply (RB_BW 0 (fq_world sc)); [apply RB_s, SB_init_world|apply budget_okb_BW, B0]. }
    set (w0 := init_world _ _ _) in *.
    assert (Gf : BW (fst (flush_f w0))) by (apply (BW_same w0); [reflexivity|reflexivity|exact G]).
    destruct (flush_f w0) as [w1 cs]. cbn [fst] in Gf.
    destruct (apply_cmds _ _ cs); cbn; (apply (BW_same w1); [reflexivity|reflexivity|exact Gf]).
  - apply (do_fxop_Inv BW BW_same); try assumption.
    + intros nw fuel uops a w I. apply (RB_BW nw w); [apply RB_exec_fact|exact I].
    + intros fuel nw w o I. apply (RB_BW nw w); [apply RB_run_uop|exact I].
    + intros fuel nw w d ups I. apply (RB_BW nw w); [apply RB_s, SB_late_create|exact I].
Qed.

(** C02: a source never supplies more parts than its budget *)
Theorem supplied_within_budget sc s d x b :
  reach_fl sc s -> aget d (f_devs (fst s)) = Some x -> d_budget x = Some b -> d_produced x <= b.
Proof. intros HR Hx Hb. pose proof (reach_BW sc s HR d b) as H. rewrite (getd_some _ d x Hx) in H. apply H, Hb. Qed.
