(** Every function of the floor model changes the world only through a fixed set of guarded
    device transformers (plus changes that leave all devices alone).  [R w w'] is the reflexive
    transitive closure of such steps; [R w (F args w)] is proved once per function, by induction
    on fuel where the function recurses over the device graph.  Per-device invariants then
    reduce to a finite case analysis over the transformers (Proofs/FloorInv.v). *)
From Coq Require Import ZArith List Bool Lia.
From RecordUpdate Require Import RecordUpdate.
From SimVerif Require Import Model.Base Model.Env Model.RM Model.Maint Model.FloorTypes Model.Floor Proofs.RMInv.
Import ListNotations.
Open Scope Z_scope.

(** part identities are never changed by callbacks or routing bookkeeping *)
Definition same_ids (f : item -> item) : Prop :=
  forall it, item_id (f it) = item_id it /\ map p_id (item_parts (f it)) = map p_id (item_parts it) /\
             item_count (f it) = item_count it /\ is_batch (f it) = is_batch it.

(** what the batcher does with the next part it takes from its input *)
Definition batch_take (it0 : item) : option (part * option item) :=
  match it0 with
  | ISingle p => Some (p, None)
  | IBatch b (p :: ps) => Some (p, match ps with [] => None | _ => Some (IBatch b ps) end)
  | IBatch b [] => None
  end.

Inductive dprim (nw : Z) : (dev -> Prop) -> (dev -> dev) -> Prop :=
| dp_set_wait a b : dprim nw (fun _ => True) (dev_set_wait nw a b)
| dp_waiting_ds b : dprim nw (fun _ => True) (t_waiting_ds b)
| dp_map_slot slot f : same_ids f -> dprim nw (fun _ => True) (t_map_slot slot f)
| dp_set_cycle z : dprim nw (fun _ => True) (t_set_cycle z)
| dp_add_offset z : dprim nw (fun _ => True) (t_add_offset z)
| dp_reset_offset : dprim nw (fun _ => True) t_reset_offset
| dp_generated it : dprim nw (fun x => d_out x = None /\ d_kind x = KSource) (t_generated it)
| dp_finish it : dprim nw (fun x => d_part x = Some it /\ d_out x = None /\ (d_kind x = KHandler \/ d_kind x = KSink)) (t_finish it)
| dp_finish_proc it : dprim nw (fun x => d_part x = Some it /\ d_out x = None /\ d_kind x = KProcessor) (t_finish_proc nw it)
| dp_fail_clear : dprim nw (fun x => d_kind x = KProcessor) (t_fail_clear nw)
| dp_clear_out : dprim nw (fun x => d_kind x <> KSink) t_clear_out
| dp_clear_out_sink : dprim nw (fun x => d_kind x = KSink) t_clear_out
| dp_clear_part :
    dprim nw (fun x => d_kind x = KBatcher /\ exists b, d_part x = Some (IBatch b [])) t_clear_part
| dp_batch_single rest p :
    dprim nw (fun x => d_kind x = KBatcher /\ d_out x = None /\ d_batch_size x = None /\
                       exists it0, d_part x = Some it0 /\ batch_take it0 = Some (p, rest))
          (t_batch_single rest p)
| dp_batch_full rest b ps p size :
    dprim nw (fun x => d_kind x = KBatcher /\ d_out x = None /\ d_batch_size x = Some size /\ size <= Z.of_nat (length (ps ++ [p])) /\
                    (exists it0, d_part x = Some it0 /\ batch_take it0 = Some (p, rest)) /\
                    (d_inprog x = Some (IBatch b ps) \/ (ps = [] /\ d_inprog x = None)))
          (t_batch_full rest b (ps ++ [p]))
| dp_batch_more rest b ps p size :
    dprim nw (fun x => d_kind x = KBatcher /\ d_out x = None /\ d_batch_size x = Some size /\ Z.of_nat (length (ps ++ [p])) < size /\
                    (exists it0, d_part x = Some it0 /\ batch_take it0 = Some (p, rest)) /\
                    (d_inprog x = Some (IBatch b ps) \/ (ps = [] /\ d_inprog x = None)))
          (t_batch_more rest b (ps ++ [p]))
| dp_reserved o : dprim nw (fun _ => True) (t_reserved o)
| dp_waiting_res b : dprim nw (fun _ => True) (t_waiting_res b)
| dp_accept it : dprim nw (fun x => d_part x = None /\ d_out x = None /\ d_kind x <> KBuffer /\ d_kind x <> KSink /\ d_kind x <> KProcessor) (t_accept nw it)
| dp_accept_proc it : dprim nw (fun x => d_part x = None /\ d_out x = None /\ d_kind x = KProcessor /\ d_shut x = false /\
                                      (d_req x = None \/ d_reserved x <> None)) (t_accept_proc nw it)
| dp_accept_buffer it :
    dprim nw (fun x => d_part x = None /\ d_out x = None /\ d_kind x = KBuffer /\ inf_leb (d_level x + item_count it) (d_capacity x) = true)
          (t_accept_buffer nw it)
| dp_accept_sink it : dprim nw (fun x => d_part x = None /\ d_out x = None /\ d_kind x = KSink) (t_accept_sink nw it)
| dp_buf_store it : dprim nw (fun x => d_part x = Some it /\ d_kind x = KBuffer) (t_buf_store nw it)
| dp_buf_pop : dprim nw (fun x => d_kind x = KBuffer) (t_buf_pop nw)
| dp_supplied v : dprim nw (fun x => d_kind x = KSource) (t_supplied nw v)
| dp_shutdown : dprim nw (fun x => d_shut x = false /\ d_kind x = KProcessor) (t_shutdown nw)
| dp_restore : dprim nw (fun x => d_shut x = true /\ d_kind x = KProcessor) (t_restore nw)
| dp_block b : dprim nw (fun _ => True) (t_block b)
| dp_budget z : dprim nw (fun _ => True) (t_budget z)
| dp_down_del z : dprim nw (fun _ => True) (t_down_del z)
| dp_down_add z : dprim nw (fun x => d_kind x <> KSink) (t_down_add z)
| dp_up l : dprim nw (fun _ => True) (t_up l).

(** * where the parts are: the counting function behind the census (C02) *)
Fixpoint cnt (z : Z) (l : list Z) : Z := match l with [] => 0 | y :: l' => (if z =? y then 1 else 0) + cnt z l' end.

Lemma cnt_app z a b : cnt z (a ++ b) = cnt z a + cnt z b.
Proof. induction a as [|y a IH]; cbn [app cnt]; [lia|]. rewrite IH. lia. Qed.

(** the parts inside a device (a sink keeps nothing: what it takes is delivered) *)
Definition buf_leaves (b : list (Z * item)) : list Z := flat_map (fun e => item_leaves (snd e)) b.
Definition dev_inside (x : dev) : list Z :=
  match d_kind x with
  | KSink => []
  | _ => opt_leaves (d_part x) ++ opt_leaves (d_out x) ++ opt_leaves (d_inprog x) ++ buf_leaves (d_buf x)
  end.
(** inside + delivered + lost - made, per part identity: 0 everywhere is the census equation *)
Definition psi (x : dev) (z : Z) : Z := cnt z (dev_inside x) + cnt z (d_delivered x) + cnt z (d_lost x) - cnt z (d_made x).
Definition neutral (g : dev -> Prop) (f : dev -> dev) : Prop := forall x z, g x -> psi (f x) z = psi x z.

Lemma neutral_same (g : dev -> Prop) (f : dev -> dev) :
  (forall x, d_kind (f x) = d_kind x /\ d_part (f x) = d_part x /\ d_out (f x) = d_out x /\ d_inprog (f x) = d_inprog x /\
             d_buf (f x) = d_buf x /\ d_made (f x) = d_made x /\ d_delivered (f x) = d_delivered x /\ d_lost (f x) = d_lost x) -> neutral g f.
Proof. intros H x z _. destruct (H x) as [A [B [C [D [E [F [G0 H0]]]]]]]. unfold psi, dev_inside. rewrite A, B, C, D, E, F, G0, H0. reflexivity. Qed.

(** the copy of the manager a floor call works on: no pending output, no error *)
Definition clean_rs (r0 : rs) : rs :=
  mkRs (r_pools r0) (r_wait r0) (r_res r0) (r_slots r0) (r_cblog r0) [] 0 (r_env r0) (r_nreg r0).

(** a manager call that neither creates nor changes a reservation and leaves every pool's usage alone
    (a refused or invalid request, a registration, a capacity change) *)
Definition rm_quiet (s s' : rs) : Prop :=
  RInv s -> RInv s' /\ r_res s' = r_res s /\ (forall m, usage (r_pools s') m = usage (r_pools s) m).

(** device transformers other than the paired ones below leave the reservation fields and the list of generated parts alone *)
Definition keeps_res (f : dev -> dev) : Prop := forall x, d_reserved (f x) = d_reserved x /\ d_req (f x) = d_req x /\ d_made (f x) = d_made x.

(** world-level steps: what one primitive action of the floor model does to the whole world *)
(** what a part waiting to be handed over looks like from outside, and what is kept while it is being offered downstream:
    the finished part of a device (not a sink) and the head of a buffer stay where they are, with the same identities *)
Definition out_kept (x x' : dev) : Prop :=
  d_kind x' = d_kind x /\
  (d_kind x <> KSink -> forall o, d_out x = Some o -> exists o', d_out x' = Some o' /\ item_leaves o' = item_leaves o) /\
  (forall t0 it rest, d_buf x = (t0, it) :: rest ->
     exists it' rest', d_buf x' = (t0, it') :: rest' /\ item_leaves it' = item_leaves it /\ d_min_delay x' = d_min_delay x).
Definition keeps_out (g : dev -> Prop) (f : dev -> dev) : Prop := forall x, g x -> out_kept x (f x).

(** the three kinds of step sequences: [MNeutral] leaves the census of every device alone; [MGive] may also take a part in
    (the offering phase of a hand-over); [MFull] may also let go of the part that was taken *)
Inductive smode := MNeutral | MGive | MFull.

Inductive wstep (n : smode) (nw : Z) : fw -> fw -> Prop :=
| ws_dev w d g f : dprim nw g f -> keeps_res f -> (n = MNeutral -> neutral g f) -> (n <> MFull -> keeps_out g f) -> g (getd w d) ->
                   wstep n nw w (updd w d f)
| ws_emit w c : wstep n nw w (emitf w c)
| ws_failf w e : wstep n nw w (failf w e)
| ws_log w l : wstep n nw w (w <| f_cblog ::= cons l |>)
| ws_nextid w z : f_next_id w <= z -> wstep n nw w (w <| f_next_id := z |>)
| ws_generate w d :
    d_out (getd w d) = None -> d_kind (getd w d) = KSource ->
    wstep n nw w (updd (fst (generate w d)) d (t_generated (snd (generate w d))))
| ws_maint w mid f : wstep n nw w (maint_call w mid f)
| ws_rm_quiet w f : rm_quiet (clean_rs (f_rm w)) (f (clean_rs (f_rm w))) -> wstep n nw w (rm_call w f)
| ws_rm_raw w g :
    r_pools (g (f_rm w)) = r_pools (f_rm w) -> r_res (g (f_rm w)) = r_res (f_rm w) -> r_slots (g (f_rm w)) = r_slots (f_rm w) ->
    wstep n nw w (w <| f_rm ::= g |>)
| ws_reserve w d rq i :
    d_req (getd w d) = Some rq -> d_reserved (getd w d) = None -> amem d (f_devs w) = true ->
    snd (reserve nw rq (clean_rs (f_rm w))) = Some i ->
    wstep n nw w (updd (rm_call w (fun _ => fst (reserve nw rq (clean_rs (f_rm w))))) d (t_reserved (Some i)))
| ws_release w d i :
    d_reserved (getd w d) = Some i -> amem d (f_devs w) = true ->
    wstep n nw w (updd (rm_call w (release_obj nw i None)) d (t_reserved None))
| ws_everywhere w pid f : (forall p, p_id (f p) = p_id p) -> wstep n nw w (upd_part_everywhere pid f w).

Inductive R (n : smode) (nw : Z) : fw -> fw -> Prop :=
| R_refl w : R n nw w w
| R_step w1 w2 w3 : wstep n nw w1 w2 -> R n nw w2 w3 -> R n nw w1 w3.

(** the device-level view of the same steps (all that per-device invariants need) *)
Inductive dstep (nw : Z) : fw -> fw -> Prop :=
| ds_dev w d g f : dprim nw g f -> g (getd w d) -> dstep nw w (updd w d f)
| ds_other w w' : f_devs w' = f_devs w -> f_groups w' = f_groups w -> dstep nw w w'
| ds_everywhere w pid f : (forall p, p_id (f p) = p_id p) -> dstep nw w (upd_part_everywhere pid f w).

Inductive RD (nw : Z) : fw -> fw -> Prop :=
| RD_refl w : RD nw w w
| RD_step w1 w2 w3 : dstep nw w1 w2 -> RD nw w2 w3 -> RD nw w1 w3.

Lemma rm_call_devs w f : f_devs (rm_call w f) = f_devs w /\ f_groups (rm_call w f) = f_groups w.
Proof. unfold rm_call. cbv zeta. destruct (_ =? 0); [auto|]. unfold failf. destruct (_ =? 0); auto. Qed.

Lemma generate_devs w d : f_devs (fst (generate w d)) = f_devs w /\ f_groups (fst (generate w d)) = f_groups w.
Proof. unfold generate. destruct (gen_size (getd w d) =? 0); cbn; auto. Qed.
Lemma getd_other_fields0 w w' d : f_devs w' = f_devs w -> getd w' d = getd w d.
Proof. unfold getd. intros ->. reflexivity. Qed.

Lemma RD_one nw a b : dstep nw a b -> RD nw a b.
Proof. intro H. econstructor; [exact H|constructor]. Qed.

Lemma wstep_RD n nw w w' : wstep n nw w w' -> RD nw w w'.
Proof.
  intro S. destruct S.
  - apply RD_one. eapply ds_dev; eauto.
  - apply RD_one. apply ds_other; reflexivity.
  - apply RD_one. apply ds_other; unfold failf; destruct (f_err w =? 0); reflexivity.
  - apply RD_one. apply ds_other; reflexivity.
  - apply RD_one. apply ds_other; reflexivity.
  - eapply RD_step; [apply ds_other; apply generate_devs|].
    apply RD_one. apply (ds_dev nw _ d _ _ (dp_generated nw (snd (generate w d)))).
    rewrite (getd_other_fields0 w _ d (proj1 (generate_devs w d))). split; assumption.
  - apply RD_one. apply ds_other; reflexivity.
  - apply RD_one. apply ds_other; apply rm_call_devs.
  - apply RD_one. apply ds_other; reflexivity.
  - eapply RD_step; [apply ds_other; apply rm_call_devs|].
    apply RD_one. apply (ds_dev nw _ d _ _ (dp_reserved nw (Some i))). exact I.
  - eapply RD_step; [apply ds_other; apply rm_call_devs|].
    apply RD_one. apply (ds_dev nw _ d _ _ (dp_reserved nw None)). exact I.
  - apply RD_one. apply ds_everywhere; assumption.
Qed.

Lemma RD_trans nw a b c : RD nw a b -> RD nw b c -> RD nw a c.
Proof. induction 1 as [|w1 w2 w3 S _ IH]; intro Hbc; [exact Hbc|]. econstructor; [exact S|apply IH, Hbc]. Qed.

Theorem R_RD n nw w w' : R n nw w w' -> RD nw w w'.
Proof. induction 1 as [|w1 w2 w3 S _ IH]; [constructor|]. eapply RD_trans; [eapply wstep_RD, S|exact IH]. Qed.


(** * the transformers that move parts around inside one device, or between a device and its ghost lists, are census-neutral *)
Lemma leaves_same_ids f it : same_ids f -> item_leaves (f it) = item_leaves it.
Proof. intro H. destruct (H it) as [_ [E _]]. exact E. Qed.

Lemma batch_take_leaves it0 p rest : batch_take it0 = Some (p, rest) -> item_leaves it0 = p_id p :: opt_leaves rest.
Proof.
  destruct it0 as [q|b [|q ps]]; cbn; intro H; try discriminate.
  - injection H as <- <-. reflexivity.
  - injection H as <- <-. destruct ps; reflexivity.
Qed.

Local Arguments Z.add : simpl never.
Local Arguments Z.sub : simpl never.
Ltac psi_simpl := unfold psi, dev_inside; cbn -[cnt buf_leaves item_leaves].

Lemma neutral_finish it :
  neutral (fun x => d_part x = Some it /\ d_out x = None /\ (d_kind x = KHandler \/ d_kind x = KSink)) (t_finish it).
Proof.
  intros x z [P [O K]]. unfold t_finish. psi_simpl. rewrite P, O. cbn [opt_leaves].
  destruct K as [K|K]; rewrite K; [|reflexivity]. rewrite !cnt_app. cbn [cnt]. lia.
Qed.

Lemma neutral_finish_proc nw it :
  neutral (fun x => d_part x = Some it /\ d_out x = None /\ d_kind x = KProcessor) (t_finish_proc nw it).
Proof.
  intros x z [P [O K]]. unfold t_finish_proc, t_stop_use, t_finish. psi_simpl. rewrite P, O, K. cbn [opt_leaves].
  rewrite !cnt_app. cbn [cnt]. lia.
Qed.

Lemma neutral_fail_clear nw : neutral (fun x => d_kind x = KProcessor) (t_fail_clear nw).
Proof.
  intros x z K. unfold t_fail_clear, t_stop_use. psi_simpl. rewrite K. cbn [opt_leaves]. rewrite !cnt_app. cbn [cnt]. lia.
Qed.

Lemma neutral_clear_out_sink : neutral (fun x => d_kind x = KSink) t_clear_out.
Proof. intros x z K. unfold t_clear_out. psi_simpl. rewrite K. reflexivity. Qed.

Lemma neutral_clear_part : neutral (fun x => d_kind x = KBatcher /\ exists b, d_part x = Some (IBatch b [])) t_clear_part.
Proof. intros x z [K [b P]]. unfold t_clear_part. psi_simpl. rewrite K, P. reflexivity. Qed.

Lemma neutral_generated it : neutral (fun x => d_out x = None /\ d_kind x = KSource) (t_generated it).
Proof.
  intros x z [O K]. unfold t_generated. psi_simpl. rewrite O, K. cbn [opt_leaves]. rewrite !cnt_app. cbn [cnt]. lia.
Qed.

Lemma neutral_map_slot slot f : same_ids f -> neutral (fun _ => True) (t_map_slot slot f).
Proof.
  intros H x z _. unfold t_map_slot. destruct slot; psi_simpl.
  - destruct (d_part x); cbn [option_map opt_leaves]; [rewrite (leaves_same_ids f _ H)|]; reflexivity.
  - destruct (d_out x); cbn [option_map opt_leaves]; [rewrite (leaves_same_ids f _ H)|]; reflexivity.
Qed.

Lemma buf_leaves_app a b : buf_leaves (a ++ b) = buf_leaves a ++ buf_leaves b.
Proof. unfold buf_leaves. apply flat_map_app. Qed.

Lemma neutral_buf_store nw it : neutral (fun x => d_part x = Some it /\ d_kind x = KBuffer) (t_buf_store nw it).
Proof.
  intros x z [P K]. unfold t_buf_store. psi_simpl. rewrite P, K. cbn [opt_leaves]. rewrite buf_leaves_app. unfold buf_leaves at 2. cbn [flat_map snd].
  rewrite !cnt_app. cbn [cnt]. lia.
Qed.

Lemma neutral_batch_single rest p :
  neutral (fun x => d_kind x = KBatcher /\ d_out x = None /\ d_batch_size x = None /\
                    exists it0, d_part x = Some it0 /\ batch_take it0 = Some (p, rest)) (t_batch_single rest p).
Proof.
  intros x z [K [O [_ [it0 [P BT]]]]]. unfold t_batch_single. psi_simpl. rewrite K, O, P. cbn [opt_leaves].
  rewrite (batch_take_leaves it0 p rest BT). change (item_leaves (ISingle p)) with [p_id p].
  change ((p_id p :: opt_leaves rest) ++ [] ++ opt_leaves (d_inprog x) ++ buf_leaves (d_buf x)) with (p_id p :: (opt_leaves rest ++ opt_leaves (d_inprog x) ++ buf_leaves (d_buf x))).
  rewrite !cnt_app. cbn [cnt]. rewrite !cnt_app. lia.
Qed.

Lemma neutral_batch_full rest b ps p size :
  neutral (fun x => d_kind x = KBatcher /\ d_out x = None /\ d_batch_size x = Some size /\ size <= Z.of_nat (length (ps ++ [p])) /\
                    (exists it0, d_part x = Some it0 /\ batch_take it0 = Some (p, rest)) /\
                    (d_inprog x = Some (IBatch b ps) \/ (ps = [] /\ d_inprog x = None)))
          (t_batch_full rest b (ps ++ [p])).
Proof.
  intros x z [K [O [_ [_ [[it0 [P BT]] IP]]]]]. unfold t_batch_full. psi_simpl. rewrite K, O, P. cbn [opt_leaves].
  rewrite (batch_take_leaves it0 p rest BT). unfold item_leaves. cbn [item_parts]. rewrite map_app. cbn [map].
  destruct IP as [E|[-> E]]; rewrite E; cbn [opt_leaves item_leaves item_parts map app]; unfold item_leaves; cbn [item_parts];
    rewrite ?cnt_app; cbn [cnt app]; rewrite ?cnt_app; cbn [cnt]; lia.
Qed.

Lemma neutral_batch_more rest b ps p size :
  neutral (fun x => d_kind x = KBatcher /\ d_out x = None /\ d_batch_size x = Some size /\ Z.of_nat (length (ps ++ [p])) < size /\
                    (exists it0, d_part x = Some it0 /\ batch_take it0 = Some (p, rest)) /\
                    (d_inprog x = Some (IBatch b ps) \/ (ps = [] /\ d_inprog x = None)))
          (t_batch_more rest b (ps ++ [p])).
Proof.
  intros x z [K [O [_ [_ [[it0 [P BT]] IP]]]]]. unfold t_batch_more. psi_simpl. rewrite K, O, P. cbn [opt_leaves].
  rewrite (batch_take_leaves it0 p rest BT). unfold item_leaves. cbn [item_parts]. rewrite map_app. cbn [map].
  destruct IP as [E|[-> E]]; rewrite E; cbn [opt_leaves item_leaves item_parts map app]; unfold item_leaves; cbn [item_parts];
    rewrite ?cnt_app; cbn [cnt app]; rewrite ?cnt_app; cbn [cnt]; lia.
Qed.

Lemma same_ids_add_value v : same_ids (item_add_value v).
Proof. intros [p|b ps]; cbn; [|repeat split]. destruct (v =? 0); repeat split. Qed.
Lemma same_ids_set_quality q : same_ids (part_set_quality q).
Proof. intros [p|b ps]; cbn; repeat split. Qed.


(** * ... and keep waiting parts where they are *)
Lemma keeps_out_same (g : dev -> Prop) (f : dev -> dev) :
  (forall x, d_kind (f x) = d_kind x /\ d_out (f x) = d_out x /\ d_buf (f x) = d_buf x /\ d_min_delay (f x) = d_min_delay x) -> keeps_out g f.
Proof.
  intros H x _. destruct (H x) as [A [B [C D]]]. split; [exact A|]. split.
  - intros _ o HO. exists o. rewrite B. auto.
  - intros t0 it rest HB. exists it, rest. rewrite C, D. auto.
Qed.

Lemma keeps_out_from_none (g : dev -> Prop) (f : dev -> dev) :
  (forall x, g x -> d_out x = None) ->
  (forall x, d_kind (f x) = d_kind x /\ d_buf (f x) = d_buf x /\ d_min_delay (f x) = d_min_delay x) -> keeps_out g f.
Proof.
  intros N H x G. destruct (H x) as [A [C D]]. split; [exact A|]. split.
  - intros _ o HO. rewrite (N x G) in HO. discriminate.
  - intros t0 it rest HB. exists it, rest. rewrite C, D. auto.
Qed.

Lemma keeps_out_map_slot slot f : same_ids f -> keeps_out (fun _ => True) (t_map_slot slot f).
Proof.
  intros H x _. unfold t_map_slot. destruct slot; (split; [reflexivity|split]).
  - intros _ o HO. exists o. auto.
  - intros t0 it rest HB. exists it, rest. auto.
  - intros _ o HO. cbn. rewrite HO. cbn. eexists. split; [reflexivity|apply leaves_same_ids, H].
  - intros t0 it rest HB. exists it, rest. auto.
Qed.

Lemma keeps_out_clear_out_sink : keeps_out (fun x => d_kind x = KSink) t_clear_out.
Proof.
  intros x K. split; [reflexivity|split].
  - intro NS. contradiction.
  - intros t0 it rest HB. exists it, rest. auto.
Qed.

Lemma keeps_out_buf_store nw it : keeps_out (fun x => d_part x = Some it /\ d_kind x = KBuffer) (t_buf_store nw it).
Proof.
  intros x _. split; [reflexivity|split].
  - intros _ o HO. exists o. auto.
  - intros t0 it0 rest HB. unfold t_buf_store. cbn. rewrite HB. exists it0, (rest ++ [(nw, it)]). auto.
Qed.

Ltac ko :=
  let Hk := fresh "Hk" in
  intro Hk;
  first
    [ congruence
    | (exfalso; apply Hk; assumption)
    | exact keeps_out_clear_out_sink | exact (keeps_out_buf_store _ _)
    | (apply keeps_out_map_slot; first [assumption | apply same_ids_add_value | apply same_ids_set_quality])
    | (apply keeps_out_same;
       let x := fresh "x" in
       intro x;
       unfold t_accept_sink, t_accept_proc, t_accept_buffer, t_accept, t_shutdown, t_restore, t_supplied, t_fail_clear, t_stop_use, t_clear_part,
              t_waiting_res, t_waiting_ds, t_set_cycle, t_add_offset, t_reset_offset, t_block, t_budget, t_down_del, t_down_add, t_up, t_reserved, t_batch_more, dev_set_wait, dev_add_value;
       cbv zeta;
       first [ solve [repeat split; reflexivity]
             | (repeat match goal with
                       | |- context[if ?b then _ else _] => destruct b
                       | |- context[match ?o with _ => _ end] => destruct o
                       end;
                repeat split; reflexivity) ])
    | (apply keeps_out_from_none;
       [ let x := fresh "x" in let G := fresh "G" in intros x G; decompose [and] G; assumption
       | let x := fresh "x" in intro x;
         unfold t_finish_proc, t_stop_use, t_finish, t_generated, t_batch_single, t_batch_full; cbv zeta; repeat split; reflexivity ]) ].

(** solves the side condition "this transformer is census-neutral" of a world step: either the context says steps need not be
    neutral here ([n = false]), or the transformer leaves the part-holding fields alone, or it is one of the lemmas above *)
Ltac kn :=
  let Hn := fresh "Hn" in
  intro Hn;
  first
    [ congruence
    | exact (neutral_finish _) | exact (neutral_finish_proc _ _) | exact (neutral_fail_clear _) | exact neutral_clear_out_sink
    | exact neutral_clear_part | exact (neutral_generated _) | exact (neutral_buf_store _ _) | exact (neutral_batch_single _ _)
    | exact (neutral_batch_full _ _ _ _ _) | exact (neutral_batch_more _ _ _ _ _)
    | (apply neutral_map_slot; first [assumption | apply same_ids_add_value | apply same_ids_set_quality])
    | (apply neutral_same;
       let x := fresh "x" in
       intro x;
       unfold t_shutdown, t_restore, t_supplied, t_waiting_res, t_waiting_ds, t_set_cycle, t_add_offset, t_reset_offset, t_block, t_budget,
              t_down_del, t_down_add, t_up, t_reserved, dev_set_wait, dev_add_value;
       cbv zeta;
       first [ solve [repeat split; reflexivity]
             | (repeat match goal with
                       | |- context[if ?b then _ else _] => destruct b
                       | |- context[match ?o with _ => _ end] => destruct o
                       end;
                repeat split; reflexivity) ]) ].

Ltac kr :=
  let x := fresh "x" in
  intro x;
  unfold t_accept_sink, t_accept_proc, t_accept_buffer, t_accept, t_shutdown, t_restore, t_supplied, t_buf_pop, t_buf_store, t_map_slot,
         t_finish_proc, t_fail_clear, t_stop_use, t_finish, t_generated, t_clear_out, t_clear_part, t_batch_single, t_batch_full, t_batch_more,
         t_waiting_res, t_waiting_ds, t_set_cycle, t_add_offset, t_reset_offset, t_block, t_budget, t_down_del, t_down_add, t_up, dev_set_wait, dev_add_value;
  cbv zeta;
  repeat match goal with
         | |- context[if ?b then _ else _] => destruct b
         | |- context[match ?o with _ => _ end] => destruct o
         end;
  repeat split; reflexivity.

Section Steps.
Variable nw : Z.
Variable mode : smode.
Notation R := (R mode nw).

Lemma full_not_neutral : mode = MFull -> mode <> MNeutral.
Proof. intros -> H. discriminate. Qed.

Lemma R_trans a b c : R a b -> R b c -> R a c.
Proof. induction 1 as [|w1 w2 w3 S _ IH]; intro Hbc; [exact Hbc|]. econstructor; [exact S|apply IH, Hbc]. Qed.

Lemma R_one a b : wstep mode nw a b -> R a b.
Proof. intro H. econstructor; [exact H|constructor]. Qed.

Lemma R_dev w d g f : dprim nw g f -> keeps_res f -> (mode = MNeutral -> neutral g f) -> (mode <> MFull -> keeps_out g f) -> g (getd w d) -> R w (updd w d f).
Proof. intros. apply R_one. econstructor; eauto. Qed.

Lemma R_emit w c : R w (emitf w c).
Proof. apply R_one, ws_emit. Qed.
Lemma R_fail w e : R w (failf w e).
Proof. apply R_one, ws_failf. Qed.
Lemma R_nextid w z : f_next_id w <= z -> R w (w <| f_next_id := z |>).
Proof. intro H. apply R_one, ws_nextid, H. Qed.
Lemma R_data w l s p : R w (data w l s p).
Proof. apply R_emit. Qed.

Lemma R_fold {X} (F : fw -> X -> fw) (l : list X) :
  (forall w x, R w (F w x)) -> forall w, R w (fold_left F l w).
Proof.
  intros H. induction l as [|x l IH]; intro w; cbn; [constructor|].
  eapply R_trans; [apply H|apply IH].
Qed.

(** * reading a device back after an update *)
Lemma aget_arepl {V} k k' (v : V) m :
  aget k' (arepl k v m) = if (k' =? k) && amem k m then Some v else aget k' m.
Proof.
  unfold amem. induction m as [|[k2 v2] m IH]; cbn; [rewrite andb_false_r; reflexivity|].
  destruct (Z.eqb_spec k k2) as [->|N]; cbn.
  - destruct (Z.eqb_spec k' k2) as [->|N']; cbn; [reflexivity|reflexivity].
  - destruct (Z.eqb_spec k' k2) as [->|N']; cbn.
    + destruct (Z.eqb_spec k2 k); [congruence|reflexivity].
    + exact IH.
Qed.

Lemma amem_arepl {V} k k' (v : V) m : amem k' (arepl k v m) = amem k' m.
Proof.
  unfold amem. rewrite aget_arepl. destruct (Z.eqb_spec k' k) as [->|N]; cbn; [|reflexivity].
  unfold amem. destruct (aget k m); reflexivity.
Qed.

Lemma amem_updd w d f d' : amem d' (f_devs (updd w d f)) = amem d' (f_devs w).
Proof. unfold updd, setd. cbn. apply amem_arepl. Qed.

Lemma getd_updd w d f d' :
  getd (updd w d f) d' = if (d' =? d) && amem d (f_devs w) then f (getd w d) else getd w d'.
Proof.
  unfold updd, setd, getd. cbn. rewrite aget_arepl. destruct ((d' =? d) && amem d (f_devs w)); reflexivity.
Qed.

Lemma getd_updd_field {X} (pr : dev -> X) w d f d' :
  (forall x, pr (f x) = pr x) -> pr (getd (updd w d f) d') = pr (getd w d').
Proof.
  intro H. rewrite getd_updd. destruct (Z.eqb_spec d' d) as [->|N]; cbn; [|reflexivity].
  destruct (amem d (f_devs w)); [apply H|reflexivity].
Qed.

Lemma getd_other_fields w w' d : f_devs w' = f_devs w -> getd w' d = getd w d.
Proof. unfold getd. intros ->. reflexivity. Qed.

(** no transformer ever changes the kind of a device *)
Lemma dprim_kind g f : dprim nw g f -> forall x, d_kind (f x) = d_kind x.
Proof.
  intros H x. destruct H; try reflexivity.
  - unfold dev_set_wait. destruct (negb a); [reflexivity|]. destruct (d_wait_since x); [destruct b|]; reflexivity.
  - unfold t_map_slot. destruct slot; reflexivity.
  - unfold t_accept_sink, t_accept, dev_set_wait. cbv zeta. unfold dev_add_value. destruct (item_value it =? 0); reflexivity.
  - unfold t_buf_pop. destruct (d_buf x) as [|[t it] r]; [reflexivity|]. destruct (0 <? _); reflexivity.
  - unfold t_supplied. unfold dev_add_value. destruct (- v =? 0); reflexivity.
Qed.

Lemma upd_everywhere_kind pid f w d : d_kind (getd (upd_part_everywhere pid f w) d) = d_kind (getd w d).
Proof.
  unfold upd_part_everywhere, getd. cbn.
  induction (f_devs w) as [|[k x] l IH]; cbn; [reflexivity|]. destruct (d =? k); [reflexivity|exact IH].
Qed.

Lemma RD_kind w w' : RD nw w w' -> forall d, d_kind (getd w' d) = d_kind (getd w d).
Proof.
  induction 1 as [|w1 w2 w3 S _ IH]; intro d; [reflexivity|]. rewrite IH. destruct S as [w0 d0 g f P G|w0 w0' E _|w0 pid f _].
  - apply getd_updd_field. apply (dprim_kind g f P).
  - rewrite (getd_other_fields _ _ d E). reflexivity.
  - apply upd_everywhere_kind.
Qed.

Lemma R_kind w w' : R w w' -> forall d, d_kind (getd w' d) = d_kind (getd w d).
Proof. intro H. eapply RD_kind, R_RD, H. Qed.

Lemma amem_everywhere pid f w d : amem d (f_devs (upd_part_everywhere pid f w)) = amem d (f_devs w).
Proof.
  unfold upd_part_everywhere, amem. cbn.
  induction (f_devs w) as [|[k x] l IH]; cbn; [reflexivity|]. destruct (d =? k); [reflexivity|exact IH].
Qed.

Lemma RD_amem w w' : RD nw w w' -> forall d, amem d (f_devs w') = amem d (f_devs w).
Proof.
  induction 1 as [|w1 w2 w3 S _ IH]; intro d; [reflexivity|]. rewrite IH. destruct S as [w0 d0 g f P G|w0 w0' E _|w0 pid f _].
  - apply amem_updd.
  - rewrite E. reflexivity.
  - apply amem_everywhere.
Qed.

Lemma R_amem w w' : R w w' -> forall d, amem d (f_devs w') = amem d (f_devs w).
Proof. intro H. eapply RD_amem, R_RD, H. Qed.


Ltac Rt := first [apply R_refl | apply R_emit | apply R_fail | apply R_data].
Ltac step_dev w0 d0 f0 prim := apply (R_trans w0 (updd w0 d0 f0)); [apply (R_dev w0 d0 _ f0 prim); [kr|kn|ko|]|].

(** * the functions, bottom up *)
Lemma R_sched_pass off w d : R w (sched_pass nw off w d).
Proof.
  unfold sched_pass. destruct (d_kind (getd w d)); try Rt;
    (step_dev w d (t_waiting_ds false) (dp_waiting_ds nw false); [exact I|apply R_emit]).
Qed.

Lemma R_signal fuel : forall m w d, R w (signal fuel nw m w d).
Proof.
  induction fuel as [|f IH]; intros m w d; cbn [signal]; [apply R_fail|].
  set (x := getd w d).
  assert (NU : forall w0, R w0 (fold_left (fun w1 u => signal f nw false w1 u) (d_up (getd w0 d)) w0)).
  { intro w0. apply R_fold. intros; apply IH. }
  assert (SW : R w (fold_left (fun w1 u => signal f nw false w1 u)
                              (d_up (getd (wait_if_empty nw w d) d)) (wait_if_empty nw w d))).
  { unfold wait_if_empty. destruct (d_part (getd w d)); [apply NU|]. destruct (d_out (getd w d)); [apply NU|].
    step_dev w d (dev_set_wait nw true false) (dp_set_wait nw true false); [exact I|apply NU]. }
  destruct m.
  - destruct (d_kind x); try apply NU; try exact SW.
    + destruct (inf_ltb (d_level x) (d_capacity x)); [exact SW|Rt].
    + destruct (aget (d_group x) (f_groups w)); [|Rt]. apply R_fold. intros; apply IH.
  - destruct (d_kind x); try apply IH;
      try (destruct (operational x && d_waiting_ds x); [apply R_sched_pass|Rt]).
    destruct (aget (d_group x) (f_groups w)); [apply IH|Rt].
Qed.

Lemma R_rm_quiet w f : rm_quiet (clean_rs (f_rm w)) (f (clean_rs (f_rm w))) -> R w (rm_call w f).
Proof. intro Q. apply R_one, ws_rm_quiet, Q. Qed.

Lemma R_maint_call w mid f : R w (maint_call w mid f).
Proof. apply R_one, ws_maint. Qed.

Lemma R_create_wo mid t g w : R w (create_wo nw mid t g w).
Proof. apply R_maint_call. Qed.


Lemma R_run_cbop d slot isf lost w o : R w (run_cbop nw d slot isf lost w o).
Proof.
  unfold run_cbop. destruct (negb (okf w)); [Rt|].
  destruct o.
  - apply (R_dev w d _ _ (dp_set_cycle nw z)); [kr|kn|ko|exact I].
  - apply (R_dev w d _ _ (dp_add_offset nw z)); [kr|kn|ko|exact I].
  - destruct (if slot then d_part (getd w d) else d_out (getd w d)) as [i|]; [|Rt].
    destruct (is_batch i); [Rt|]. apply (R_dev w d _ _ (dp_map_slot nw slot _ (same_ids_add_value z))); [kr|kn|ko|exact I].
  - apply (R_dev w d _ _ (dp_map_slot nw slot _ (same_ids_set_quality z))); [kr|kn|ko|exact I].
  - apply R_create_wo.
  - destruct isf; [apply R_create_wo|Rt].
  - apply R_one, ws_log.
Qed.

Lemma R_run_cbops d slot isf lost ops : forall w, R w (run_cbops nw d slot isf lost ops w).
Proof. unfold run_cbops. apply R_fold. intros. apply R_run_cbop. Qed.


Lemma generate_nextid w d : exists z, fst (generate w d) = w <| f_next_id := z |>.
Proof. unfold generate. destruct (gen_size (getd w d) =? 0); cbn; eexists; reflexivity. Qed.

Lemma R_finish_cycle fuel w d : R w (finish_cycle fuel nw w d).
Proof.
  unfold finish_cycle. set (x := getd w d). destruct (d_kind x) eqn:K; try Rt;
  try (destruct (negb (operational x)); [Rt|]; destruct (d_part x) as [it|] eqn:P; [|Rt]; destruct (d_out x) eqn:O; [Rt|]).
  3:{ (* source *)
      destruct (d_out x) eqn:O; [apply R_sched_pass|].
      apply (R_trans w (updd (fst (generate w d)) d (t_generated (snd (generate w d)))));
        [apply R_one, ws_generate; [exact O|exact K]|].
      destruct (generate w d) as [w' it]. cbn [fst snd]. apply R_sched_pass. }
  - (* handler *)
    step_dev w d (t_finish it) (dp_finish nw it); [cbn beta; fold x; rewrite K; repeat split; auto|apply R_sched_pass].
  - (* processor *)
    step_dev w d (t_finish_proc nw it) (dp_finish_proc nw it); [cbn beta; fold x; rewrite K; repeat split; auto|].
    eapply R_trans; [apply R_sched_pass|].
    match goal with |- context[match d_reserved ?y with _ => _ end] => destruct (d_reserved y) end.
    + eapply R_trans; [apply R_emit|]. eapply R_trans; [apply R_run_cbops|].
      match goal with |- context[match d_out ?y with _ => _ end] => destruct (d_out y) end; Rt.
    + eapply R_trans; [apply R_run_cbops|].
      match goal with |- context[match d_out ?y with _ => _ end] => destruct (d_out y) end; Rt.
  - (* sink *)
    step_dev w d (t_finish it) (dp_finish nw it); [cbn beta; fold x; rewrite K; repeat split; auto|].
    eapply R_trans; [apply R_sched_pass|].
    match goal with |- R ?w0 _ => step_dev w0 d t_clear_out (dp_clear_out_sink nw); [|apply R_signal] end.
    cbn beta. rewrite (R_kind _ _ (R_sched_pass 0 (updd w d (t_finish it)) d) d).
    rewrite (getd_updd_field d_kind w d (t_finish it) d) by reflexivity. exact K.
Qed.

Lemma R_sched_finish fuel w d : R w (sched_finish fuel nw w d).
Proof.
  unfold sched_finish. step_dev w d t_reset_offset (dp_reset_offset nw); [exact I|].
  destruct (_ <=? 0); [apply R_finish_cycle|apply R_emit].
Qed.

Lemma getd_next_id w z d : getd (w <| f_next_id := z |>) d = getd w d.
Proof. reflexivity. Qed.

Lemma R_batcher_fill n : forall w d, d_kind (getd w d) = KBatcher -> R w (batcher_fill n w d).
Proof.
  induction n as [|n IH]; intros w d KB; cbn [batcher_fill]; [Rt|].
  set (x := getd w d) in *. destruct (d_out x) eqn:O; [Rt|]. destruct (d_part x) as [it|] eqn:P; [|Rt].
  destruct (batch_take it) as [[p rest]|] eqn:BTE.
  2:{ destruct it as [p|b [|p ps]]; cbn in BTE; try discriminate. Rt. }
  assert (E : (match it with
               | ISingle p0 => (Some p0, None)
               | IBatch b (p0 :: ps) => (Some p0, match ps with [] => None | _ => Some (IBatch b ps) end)
               | IBatch b [] => (None, None)
               end) = (Some p, rest)).
  { destruct it as [p0|b [|p0 ps]]; cbn in BTE; try discriminate; injection BTE as <- <-; reflexivity. }
  rewrite E. clear E.
  assert (KP : forall w0 f0, (forall y, d_kind (f0 y) = d_kind y) -> f_devs w0 = f_devs w -> d_kind (getd (updd w0 d f0) d) = KBatcher).
  { intros w0 f0 Hk Hd. rewrite (getd_updd_field d_kind w0 d f0 d Hk). rewrite (getd_other_fields w w0 d Hd). exact KB. }
  destruct (d_batch_size x) as [size|] eqn:BS.
  - destruct (d_inprog x) as [[pp|b ps]|] eqn:IP.
    + apply IH. exact KB.
    + destruct (Z.leb_spec size (Z.of_nat (length (ps ++ [p])))).
      * step_dev w d (t_batch_full rest b (ps ++ [p])) (dp_batch_full nw rest b ps p size);
          [cbn beta; fold x; repeat split; auto; exists it; auto|apply IH; apply KP; reflexivity].
      * step_dev w d (t_batch_more rest b (ps ++ [p])) (dp_batch_more nw rest b ps p size);
          [cbn beta; fold x; repeat split; auto; exists it; auto|apply IH; apply KP; reflexivity].
    + set (w1 := w <| f_next_id := f_next_id w + 1 |>).
      apply (R_trans w w1); [apply R_nextid; cbn; lia|].
      destruct (Z.leb_spec size (Z.of_nat (length ([] ++ [p])))).
      * step_dev w1 d (t_batch_full rest (mkPart (f_next_id w + 1) 0 0 [] []) ([] ++ [p])) (dp_batch_full nw rest (mkPart (f_next_id w + 1) 0 0 [] []) [] p size);
          [cbn beta; change (getd w1 d) with x; repeat split; auto; try (exists it; auto); try (right; split; [reflexivity|exact IP])|].
        apply IH. apply KP; reflexivity.
      * step_dev w1 d (t_batch_more rest (mkPart (f_next_id w + 1) 0 0 [] []) ([] ++ [p])) (dp_batch_more nw rest (mkPart (f_next_id w + 1) 0 0 [] []) [] p size);
          [cbn beta; change (getd w1 d) with x; repeat split; auto; try (exists it; auto); try (right; split; [reflexivity|exact IP])|].
        apply IH. apply KP; reflexivity.
  - step_dev w d (t_batch_single rest p) (dp_batch_single nw rest p);
      [cbn beta; fold x; repeat split; auto; exists it; auto|apply IH; apply KP; reflexivity].
Qed.

Lemma R_batcher_try_move w d : d_kind (getd w d) = KBatcher -> R w (batcher_try_move nw w d).
Proof.
  intro KB. unfold batcher_try_move. set (x := getd w d) in *. destruct (d_part x) as [it|] eqn:P; [|Rt]. destruct (d_out x); [Rt|].
  destruct (negb (operational x)); [Rt|].
  assert (G : R w (let w1 := batcher_fill (S (Z.to_nat (item_count it))) w d in
                   match d_out (getd w1 d) with Some _ => sched_pass nw 0 w1 d | None => w1 end)).
  { cbv zeta. eapply R_trans; [apply R_batcher_fill, KB|].
    match goal with |- context[match d_out ?y with _ => _ end] => destruct (d_out y) end; [apply R_sched_pass|Rt]. }
  destruct it as [p|b [|p ps]]; try exact G.
  step_dev w d t_clear_part (dp_clear_part nw); [cbn beta; fold x; split; [exact KB|exists b; exact P]|Rt].
Qed.

Lemma not_blank_amem w d : getd w d <> blank_dev KPfc -> amem d (f_devs w) = true.
Proof. unfold getd, amem. destruct (aget d (f_devs w)); [reflexivity|]. intro H. exfalso. apply H. reflexivity. Qed.
Lemma req_amem w d rq : d_req (getd w d) = Some rq -> amem d (f_devs w) = true.
Proof. intro H. apply not_blank_amem. intro E. rewrite E in H. discriminate. Qed.
Lemma reserved_amem w d i : d_reserved (getd w d) = Some i -> amem d (f_devs w) = true.
Proof. intro H. apply not_blank_amem. intro E. rewrite E in H. discriminate. Qed.

Lemma rm_quiet_same_core s s' : same_core s s' -> rm_quiet s s'.
Proof.
  intros C I. split; [eapply same_core_RInv; eauto|]. destruct C as [P [_ [Rr _]]]. split; [exact Rr|]. intro m. rewrite P. reflexivity.
Qed.

Lemma rm_quiet_reserve_none rq s :
  r_err s = 0 -> snd (reserve nw rq s) = None -> rm_quiet s (fst (reserve nw rq s)).
Proof.
  intros E N I. destruct (reserve_spec nw rq s I E) as [I1 [Herr [Hnone _]]].
  destruct (Z.eq_dec (r_err (fst (reserve nw rq s))) 0) as [E1|E1].
  - destruct (Hnone E1 N) as [-> _]. auto.
  - destruct (Herr E1) as [C _]. apply rm_quiet_same_core; assumption.
Qed.

Lemma rm_quiet_register cb rq s : rm_quiet s (register nw cb rq s).
Proof. intro I. split; [|split; reflexivity]. destruct I as [U C F SL IJ]. split; cbn; assumption. Qed.

Lemma rm_quiet_add n a s : r_err s = 0 -> rm_quiet s (add_resources nw n a s).
Proof.
  intros E I. destruct (add_resources_spec nw n a s I E) as [I1 [Herr Hok]]. split; [exact I1|].
  destruct (Z.eq_dec (r_err (add_resources nw n a s)) 0) as [E1|E1].
  - destruct (Hok E1) as [U [_ [Rr _]]]. auto.
  - destruct (Herr E1) as [P [_ [Rr _]]]. split; [exact Rr|]. intro m. rewrite P. reflexivity.
Qed.

Lemma R_proc_can_accept w d : R w (fst (proc_can_accept nw w d)).
Proof.
  unfold proc_can_accept. set (x := getd w d). destruct (negb (handler_can_accept x)); [Rt|].
  destruct (d_req x) as [rq|] eqn:RQ; [|Rt]. destruct (d_reserved x) eqn:RV; [Rt|].
  change (mkRs (r_pools (f_rm w)) (r_wait (f_rm w)) (r_res (f_rm w)) (r_slots (f_rm w)) (r_cblog (f_rm w)) [] 0 (r_env (f_rm w)) (r_nreg (f_rm w)))
    with (clean_rs (f_rm w)).
  set (res := reserve nw rq (clean_rs (f_rm w))). set (w1 := rm_call w (fun _ => fst res)).
  destruct (snd res) as [i|] eqn:SR.
  - cbn [fst]. apply R_one. apply ws_reserve; auto. apply (req_amem w d rq RQ).
  - assert (R1 : R w w1) by (apply R_rm_quiet, rm_quiet_reserve_none; [reflexivity|exact SR]).
    destruct (negb (okf w1)); [exact R1|]. destruct (d_waiting_res x); [exact R1|]. cbn [fst].
    eapply R_trans; [exact R1|]. eapply R_trans; [apply R_rm_quiet, rm_quiet_register|].
    match goal with |- R ?w0 _ => step_dev w0 d (t_waiting_res true) (dp_waiting_res nw true); [exact I|Rt] end.
Qed.

Lemma item_count_add_hist d it : item_count (item_add_hist d it) = item_count it.
Proof. destruct it; cbn; [reflexivity|]. rewrite map_length. reflexivity. Qed.

(** the guards under which [give] calls [accept] *)
Definition can_take (x : dev) (it : item) : Prop :=
  d_part x = None /\ d_out x = None /\
  (d_kind x = KBuffer -> inf_leb (d_level x + item_count it) (d_capacity x) = true) /\
  (d_kind x = KProcessor -> d_shut x = false /\ (d_req x = None \/ d_reserved x <> None)).

Lemma handler_can_accept_slots x : handler_can_accept x = true -> d_part x = None /\ d_out x = None.
Proof.
  unfold handler_can_accept. intro H. apply andb_true_iff in H. destruct H as [H O]. apply andb_true_iff in H. destruct H as [_ P].
  destruct (d_part x); [discriminate|]. destruct (d_out x); [discriminate|]. auto.
Qed.

(** taking the part in: one (non-neutral) transformer, for a buffer followed by its level record *)
Lemma R_accept_first w d it1 :
  mode <> MNeutral -> can_take (getd w d) it1 -> R w (accept_first nw (d_kind (getd w d)) w d it1).
Proof.
  intros NF [P [O [B SH]]]. set (x0 := getd w d) in *. unfold accept_first. destruct (d_kind x0) eqn:K.
  all: try (step_dev w d (t_accept nw it1) (dp_accept nw it1); [cbn beta; fold x0; rewrite K; repeat split; auto; discriminate|Rt]).
  - step_dev w d (t_accept_proc nw it1) (dp_accept_proc nw it1); [cbn beta; fold x0; destruct (SH eq_refl); repeat split; auto|Rt].
  - step_dev w d (t_accept_buffer nw it1) (dp_accept_buffer nw it1);
      [cbn beta; fold x0; repeat split; auto; apply B; reflexivity|apply R_data].
  - step_dev w d (t_accept_sink nw it1) (dp_accept_sink nw it1); [cbn beta; fold x0; repeat split; auto|Rt].
Qed.

(** everything after that is census-neutral (holds in every mode) *)
Lemma R_accept_rest fuel k w2 d it1 : d_kind (getd w2 d) = k -> R w2 (accept_rest fuel nw k w2 d it1).
Proof.
  intro K2. unfold accept_rest.
  set (w3 := rec_part w2 L_RECEIVED d nw it1). apply (R_trans w2 w3); [apply R_data|].
  set (w4 := run_cbops nw d true false (-1) (d_on_receive (getd w3 d)) w3).
  apply (R_trans w3 w4); [apply R_run_cbops|].
  assert (R4 : R w2 w4).
  { eapply R_trans; [apply R_data|apply R_run_cbops]. }
  pose proof (R_kind w2 w4 R4 d) as K4. rewrite K2 in K4.
  destruct (negb (okf w4)); [Rt|]. set (x := getd w4 d) in *. destruct (d_out x); [Rt|].
  destruct k eqn:K; cbv zeta;
    try (destruct (operational x && match d_part x with Some _ => true | None => false end); [apply R_sched_finish|Rt]).
  - (* buffer *)
    destruct (d_part x) as [itb|] eqn:PB; [|Rt].
    step_dev w4 d (t_buf_store nw itb) (dp_buf_store nw itb); [cbn beta; fold x; split; [exact PB|exact K4]|].
    eapply R_trans; [apply R_signal|].
    match goal with |- context[if ?c then _ else _] => destruct c end; [apply R_sched_pass|Rt].
  - apply R_batcher_try_move. exact K4.
Qed.

Lemma accept_first_kind k w d it1 : d_kind (getd w d) = k -> d_kind (getd (accept_first nw k w d it1) d) = k.
Proof.
  intro K. unfold accept_first.
  assert (A : forall f, (forall y, d_kind (f y) = d_kind y) -> d_kind (getd (updd w d f) d) = k).
  { intros f Hf. rewrite (getd_updd_field d_kind w d f d Hf). exact K. }
  destruct k; cbv zeta; unfold data, emitf; cbn [getd f_devs]; apply A;
    first [apply (dprim_kind _ _ (dp_accept nw it1)) | apply (dprim_kind _ _ (dp_accept_proc nw it1))
          | apply (dprim_kind _ _ (dp_accept_buffer nw it1)) | apply (dprim_kind _ _ (dp_accept_sink nw it1))].
Qed.

Lemma can_take_hist x d it : can_take x it -> can_take x (item_add_hist d it).
Proof.
  intros [P [O [B SH]]]. split; [exact P|]. split; [exact O|]. split; [|exact SH].
  intro K. rewrite item_count_add_hist. apply B, K.
Qed.

Lemma R_accept fuel w d it : mode <> MNeutral -> can_take (getd w d) it -> R w (accept fuel nw w d it).
Proof.
  intros NF CT. unfold accept.
  eapply R_trans; [apply R_accept_first; [exact NF|apply can_take_hist, CT]|].
  apply R_accept_rest. apply accept_first_kind. reflexivity.
Qed.

Lemma proc_can_accept_ok w d w1 :
  proc_can_accept nw w d = (w1, true) ->
  handler_can_accept (getd w d) = true /\ d_part (getd w1 d) = None /\ d_out (getd w1 d) = None /\
  d_kind (getd w1 d) = d_kind (getd w d) /\ d_shut (getd w1 d) = d_shut (getd w d) /\
  (d_req (getd w1 d) = None \/ d_reserved (getd w1 d) <> None).
Proof.
  unfold proc_can_accept. set (x := getd w d). destruct (handler_can_accept x) eqn:H; cbn [negb]; [|intro E; discriminate].
  destruct (handler_can_accept_slots x H) as [P O].
  destruct (d_req x) as [rq|] eqn:RQ; [|intro E; injection E as <-; repeat split; auto].
  destruct (d_reserved x) eqn:RV; [intro E; injection E as <-; repeat split; auto; right; fold x; rewrite RV; discriminate|].
  match goal with |- context[rm_call w ?f] => set (w0 := rm_call w f) end.
  assert (G0 : getd w0 d = x) by (apply getd_other_fields, rm_call_devs).
  match goal with |- context[match snd ?r with _ => _ end] => destruct (snd r) as [i|] end.
  - intro E. injection E as <- _. split; [reflexivity|].
    rewrite !(getd_updd_field _ w0 d _ d) by reflexivity. rewrite G0. repeat split; auto.
    right. rewrite getd_updd, Z.eqb_refl. unfold w0. rewrite (proj1 (rm_call_devs w _)). rewrite (req_amem w d rq RQ). cbn. discriminate.
  - destruct (negb (okf w0)); [intro E; discriminate|]. destruct (d_waiting_res x); intro E; discriminate.
Qed.

Lemma R_give fuel : mode <> MNeutral -> forall w d it, R w (fst (give fuel nw w d it)).
Proof.
  intro NF. induction fuel as [|f IH]; intros w d it; cbn [give]; [apply R_fail|].
  destruct (negb (okf w)); [Rt|]. set (x := getd w d).
  assert (TL : forall it0 l w0 b,
             R w0 (fst (fold_left (fun (acc : fw * bool) d' => if snd acc then acc else give f nw (fst acc) d' it0) l (w0, b)))).
  { intros it0 l. induction l as [|d' l IHl]; intros w0 b; cbn; [Rt|].
    destruct b; cbn [snd fst].
    - apply IHl.
    - pose proof (IH w0 d' it0) as X. destruct (give f nw w0 d' it0) as [w1 b1]. cbn [fst] in X.
      eapply R_trans; [exact X|apply IHl]. }
  assert (ACC : handler_can_accept x = true -> d_kind x <> KBuffer -> d_kind x <> KProcessor -> R w (accept f nw w d it)).
  { intros H NB NP. apply R_accept; [exact NF|]. destruct (handler_can_accept_slots x H). split; [assumption|split; [assumption|split]].
    - intro KK. exfalso. apply NB. exact KK.
    - intro KK. exfalso. apply NP. exact KK. }
  destruct (d_kind x) eqn:K.
  - destruct (negb (operational x && negb (d_block x))); [Rt|apply TL].
  - destruct (negb (decide (d_decider x) it)); [Rt|]. destruct (negb (operational x && negb (d_block x))); [Rt|apply TL].
  - destruct (handler_can_accept x) eqn:H; [|Rt]. cbn [fst]. apply ACC; [reflexivity|discriminate|discriminate].
  - destruct (proc_can_accept nw w d) as [w1 ok] eqn:PC.
    assert (R1 : R w w1) by (pose proof (R_proc_can_accept w d) as X; rewrite PC in X; exact X).
    destruct ok; [|exact R1]. cbn [fst]. eapply R_trans; [exact R1|]. apply R_accept; [exact NF|].
    destruct (proc_can_accept_ok w d w1 PC) as [HC [P [O [KK [SS HR]]]]]. split; [assumption|split; [assumption|split]].
    + rewrite KK. fold x. rewrite K. discriminate.
    + intros _. split; [|exact HR]. rewrite SS. fold x. unfold handler_can_accept, operational in HC. fold x in HC. rewrite K in HC.
      destruct (d_shut x); [discriminate|reflexivity].
  - destruct (inf_leb (d_level x + item_count it) (d_capacity x) && handler_can_accept x) eqn:H; [|Rt]. cbn [fst].
    apply andb_true_iff in H. destruct H as [HL HC]. apply R_accept; [exact NF|].
    destruct (handler_can_accept_slots x HC). split; [assumption|split; [assumption|split; [intros _; exact HL|]]].
    fold x. rewrite K. discriminate.
  - destruct (handler_can_accept x) eqn:H; [|Rt]. cbn [fst]. apply ACC; [reflexivity|discriminate|discriminate].
  - destruct (handler_can_accept x) eqn:H; [|Rt]. cbn [fst]. apply ACC; [reflexivity|discriminate|discriminate].
  - destruct (handler_can_accept x) eqn:H; [|Rt]. cbn [fst]. apply ACC; [reflexivity|discriminate|discriminate].
  - destruct (d_block x); [Rt|]. destruct (aget (d_group x) (f_groups w)); [apply IH|Rt].
  - destruct (negb (operational x && negb (d_block x))); [Rt|apply TL].
  - destruct (rev (item_gpath it)) as [|gp rest]; [apply R_fail|apply TL].
Qed.

Lemma R_try_list fuel it l : mode <> MNeutral -> forall w0 b,
  R w0 (fst (fold_left (fun (acc : fw * bool) d' => if snd acc then acc else give fuel nw (fst acc) d' it) l (w0, b))).
Proof.
  intro NF. induction l as [|d' l IHl]; intros w0 b; cbn; [Rt|].
  destruct b; cbn [snd fst].
  - apply IHl.
  - pose proof (R_give fuel NF w0 d' it) as X. destruct (give fuel nw w0 d' it) as [w1 b1]. cbn [fst] in X.
    eapply R_trans; [exact X|apply IHl].
Qed.

Lemma R_try_downstream fuel w d it : mode <> MNeutral -> R w (fst (try_downstream fuel nw w d it)).
Proof. intro NF. unfold try_downstream. apply R_try_list, NF. Qed.

Lemma R_handler_pass fuel w d : mode = MFull -> R w (fst (handler_pass fuel nw w d)).
Proof.
  intro NF. unfold handler_pass. set (x := getd w d). destruct (d_out x) as [it|]; [|Rt]. destruct (negb (operational x)); [Rt|].
  pose proof (R_try_downstream fuel w d it (full_not_neutral NF)) as X. destruct (try_downstream fuel nw w d it) as [w1 ok]. cbn [fst] in X.
  destruct ok; cbn [fst]; (eapply R_trans; [exact X|]).
  - destruct (kind_eqb (d_kind (getd w1 d)) KSink) eqn:KS.
    + step_dev w1 d t_clear_out (dp_clear_out_sink nw); [cbn beta; destruct (d_kind (getd w1 d)); try discriminate; reflexivity|apply R_signal].
    + step_dev w1 d t_clear_out (dp_clear_out nw); [cbn beta; intro E; rewrite E in KS; discriminate|apply R_signal].
  - step_dev w1 d (t_waiting_ds true) (dp_waiting_ds nw true); [exact I|Rt].
Qed.

Lemma R_release_reserved w d : R w (release_reserved nw w d).
Proof.
  unfold release_reserved. destruct (d_reserved (getd w d)) eqn:RV; [|Rt].
  apply R_one, ws_release; [exact RV|apply (reserved_amem w d n RV)].
Qed.

Lemma R_release_if_idle w d : R w (release_if_idle nw w d).
Proof. unfold release_if_idle. destruct (_ || _); [apply R_release_reserved|Rt]. Qed.

Lemma is_processor_kind x : is_processor x = true -> d_kind x = KProcessor.
Proof. unfold is_processor. destruct (d_kind x); try discriminate. reflexivity. Qed.

Lemma R_shutdown isf lost w d : R w (shutdown nw isf lost w d).
Proof.
  unfold shutdown. set (x := getd w d). destruct (is_processor x) eqn:IP; cbn [negb]; [|Rt].
  destruct (d_shut x) eqn:S.
  - destruct isf; [|Rt]. eapply R_trans; [apply R_emit|apply R_run_cbops].
  - step_dev w d (t_shutdown nw) (dp_shutdown nw); [split; [exact S|apply is_processor_kind, IP]|].
    eapply R_trans; [apply R_emit|apply R_run_cbops].
Qed.

Lemma R_fail_proc w d : R w (fail nw w d).
Proof.
  unfold fail. set (x := getd w d). destruct (is_processor x) eqn:IP; cbn [negb]; [|Rt].
  step_dev w d (t_fail_clear nw) (dp_fail_clear nw); [apply is_processor_kind, IP|].
  eapply R_trans; [apply R_release_reserved|]. eapply R_trans; [apply R_data|apply R_shutdown].
Qed.

Lemma R_restore fuel w d : R w (restore fuel nw w d).
Proof.
  unfold restore. set (x := getd w d). destruct (is_processor x) eqn:IP; cbn [negb]; [|Rt].
  destruct (negb (d_shut x)) eqn:S; [Rt|]. apply negb_false_iff in S.
  set (w1' := emitf (updd w d (t_restore nw)) (FUnpause d)).
  assert (R1 : R w w1').
  { step_dev w d (t_restore nw) (dp_restore nw); [split; [exact S|apply is_processor_kind, IP]|apply R_emit]. }
  eapply R_trans; [exact R1|].
  assert (R2 : R w1' (match d_out x, d_part x with
                      | Some _, _ => sched_pass nw 0 w1' d
                      | None, None => signal fuel nw true w1' d
                      | None, Some _ => w1' end)).
  { destruct (d_out x); [apply R_sched_pass|]. destruct (d_part x); [Rt|apply R_signal]. }
  eapply R_trans; [exact R2|]. apply R_run_cbops.
Qed.

Lemma R_buffer_loop n fuel : mode = MFull -> forall w d, d_kind (getd w d) = KBuffer -> R w (buffer_loop n fuel nw w d).
Proof.
  intro NF. induction n as [|n IH]; intros w d KB; cbn [buffer_loop]; [Rt|].
  set (x := getd w d) in *. destruct (d_buf x) as [|[t0 it] rest] eqn:B; [Rt|].
  destruct (0 <? d_min_delay x - (nw - t0)); [Rt|].
  pose proof (R_try_downstream fuel w d it (full_not_neutral NF)) as X. destruct (try_downstream fuel nw w d it) as [w1 ok] eqn:TD. cbn [fst] in X.
  destruct ok; [|exact X]. eapply R_trans; [exact X|].
  assert (K1 : d_kind (getd w1 d) = KBuffer) by (rewrite (R_kind w w1 X d); exact KB).
  step_dev w1 d (t_buf_pop nw) (dp_buf_pop nw); [exact K1|]. eapply R_trans; [apply R_data|]. apply IH.
  match goal with |- d_kind (getd ?ww d) = _ => rewrite (getd_other_fields (updd w1 d (t_buf_pop nw)) ww d eq_refl) end.
  rewrite (getd_updd_field d_kind w1 d (t_buf_pop nw) d); [exact K1|].
  intro y. unfold t_buf_pop. destruct (d_buf y) as [|[? ?] ?]; [reflexivity|]. destruct (0 <? _); reflexivity.
Qed.

Lemma R_pass_part fuel w d : mode = MFull -> R w (pass_part fuel nw w d).
Proof.
  intro NF. unfold pass_part. set (x := getd w d). destruct (d_kind x) eqn:K; try (apply R_handler_pass; exact NF).
  - (* buffer *)
    cbv zeta. set (w1' := buffer_loop (S (length (d_buf x))) fuel nw w d).
    apply (R_trans w w1'); [apply R_buffer_loop; [exact NF|exact K]|].
    eapply R_trans; [|apply R_signal].
    destruct (d_buf (getd w1' d)) as [|[t0 it] rest]; [Rt|].
    match goal with |- context[if ?c then _ else _] => destruct c end; [apply R_sched_pass|].
    step_dev w1' d (t_waiting_ds true) (dp_waiting_ds nw true); [exact I|Rt].
  - (* source *)
    destruct (d_out x) as [it|]; [|Rt].
    match goal with |- context[if negb ?c then _ else _] => destruct (negb c) end; [Rt|].
    pose proof (R_handler_pass fuel w d NF) as X. destruct (handler_pass fuel nw w d) as [w1 ok]. cbn [fst] in X.
    destruct ok; [|exact X]. eapply R_trans; [exact X|].
    step_dev w1 d (t_supplied nw (item_value it)) (dp_supplied nw (item_value it)); [cbn beta; rewrite (R_kind w w1 X d); exact K|].
    eapply R_trans; [apply R_data|apply R_sched_finish].
  - (* batcher *)
    pose proof (R_handler_pass fuel w d NF) as X. destruct (handler_pass fuel nw w d) as [w1 ok]. cbn [fst] in X.
    eapply R_trans; [exact X|]. destruct (d_out (getd w1 d)); [Rt|]. apply R_batcher_try_move.
    rewrite (R_kind w w1 X d). exact K.
Qed.

Lemma R_res_check n fuel : forall i w, R w (res_check n fuel nw i w).
Proof.
  induction n as [|n IH]; intros i w; cbn [res_check]; [apply R_fail|].
  destruct (nth_error (r_wait (f_rm w)) i) as [[r cb id]|]; [|Rt].
  destruct (can_fulfill (r_pools (f_rm w)) r); [|apply IH].
  match goal with |- context[signal fuel nw true (updd ?w1 ?dd _) _] => set (w1' := w1); set (d := dd) end.
  apply (R_trans w w1'); [apply R_one, (ws_rm_raw mode nw w); reflexivity|].
  step_dev w1' d (t_waiting_res false) (dp_waiting_res nw false); [exact I|].
  eapply R_trans; [apply R_signal|].
  match goal with |- context[if negb (okf ?w2) then _ else _] => destruct (negb (okf w2)) end; [Rt|].
  eapply R_trans; [|apply IH]. match goal with |- R ?w2 _ => apply R_one, (ws_rm_raw mode nw w2); reflexivity end.
Qed.

Lemma R_maint_start mid wo w : R w (maint_start nw mid wo w).
Proof.
  unfold maint_start. eapply R_trans; [apply R_maint_call|]. eapply R_trans; [apply R_shutdown|apply R_maint_call].
Qed.

Lemma R_maint_finish fuel mid wo w : R w (maint_finish fuel nw mid wo w).
Proof. unfold maint_finish. eapply R_trans; [apply R_restore|apply R_maint_call]. Qed.

Lemma R_rewire fuel w d ups : R w (rewire fuel nw w d ups).
Proof.
  unfold rewire. set (x := getd w d). destruct (existsb (bad_up d w) ups) eqn:BAD; [Rt|].
  set (w0 := if is_holder (d_kind x) then match d_wait_since x with Some _ => updd w d (dev_set_wait nw true true) | None => w end else w).
  assert (R0 : R w w0).
  { unfold w0. destruct (is_holder (d_kind x)); [|Rt]. destruct (d_wait_since x); [|Rt].
    apply (R_dev w d _ _ (dp_set_wait nw true true)); [kr|kn|ko|exact I]. }
  eapply R_trans; [exact R0|].
  assert (AM0 : forall a, amem a (f_devs w0) = amem a (f_devs w)) by (intro a; apply (R_amem w w0 R0)).
  assert (K0 : forall a, d_kind (getd w0 a) = d_kind (getd w a)) by (intro a; apply (R_kind w w0 R0)).
  set (w1 := fold_left (fun w' u => updd w' u (t_down_del d)) (d_up x) w0).
  assert (R1 : R w0 w1).
  { unfold w1. apply R_fold. intros w' u. apply (R_dev w' u _ _ (dp_down_del nw d)); [kr|kn|ko|exact I]. }
  eapply R_trans; [exact R1|].
  set (w2 := updd w1 d (t_up ups)).
  assert (R2 : R w1 w2) by (apply (R_dev w1 d _ _ (dp_up nw ups)); [kr|kn|ko|exact I]).
  eapply R_trans; [exact R2|].
  assert (R02 : R w w2) by (eapply R_trans; [exact R0|eapply R_trans; [exact R1|exact R2]]).
  (* the new upstreams: none of them is a sink (validated above) *)
  assert (NS : forall u, In u ups -> d_kind (getd w u) <> KSink).
  { intros u Hu E. assert (X : existsb (bad_up d w) ups = true) by (apply existsb_exists; exists u; split; [exact Hu|unfold bad_up; rewrite E; apply orb_true_r]). congruence. }
  assert (G : forall l wb, R w wb -> (forall u, In u l -> d_kind (getd w u) <> KSink) ->
              R wb (fold_left (fun w' u => if existsb (Z.eqb d) (d_down (getd w' u)) then w' else signal fuel nw false (updd w' u (t_down_add d)) u) l wb)).
  { induction l as [|u l IH]; intros wb Rb NS'; cbn [fold_left]; [Rt|].
    assert (NSl : forall u0, In u0 l -> d_kind (getd w u0) <> KSink) by (intros u0 H0; apply NS'; right; exact H0).
    destruct (existsb (Z.eqb d) (d_down (getd wb u))); [apply IH; assumption|].
    assert (S1 : R wb (signal fuel nw false (updd wb u (t_down_add d)) u)).
    { eapply R_trans; [|apply R_signal]. apply (R_dev wb u _ _ (dp_down_add nw d)); [kr|kn|ko|].
      cbn beta. rewrite (R_kind w wb Rb u). apply NS'. left. reflexivity. }
    eapply R_trans; [exact S1|]. apply IH; [eapply R_trans; [exact Rb|exact S1]|exact NSl]. }
  apply G; assumption.
Qed.

Lemma R_run_uop fuel w o : R w (run_uop fuel nw w o).
Proof.
  unfold run_uop. destruct (negb (okf w)); [Rt|]. destruct o.
  - apply R_shutdown.
  - apply R_restore.
  - apply R_emit.
  - destruct (Bool.eqb _ _); [Rt|]. step_dev w d (t_block b) (dp_block nw b); [exact I|]. destruct b; [Rt|apply R_signal].
  - destruct (d_budget (getd w d)) as [b|]; [|Rt].
    match goal with |- context[t_budget ?z] => step_dev w d (t_budget z) (dp_budget nw z); [exact I|] end.
    destruct (_ <? 1); [apply R_sched_pass|Rt].
  - apply (R_dev w d _ _ (dp_add_offset nw z)); [kr|kn|ko|exact I].
  - apply R_rewire.
  - apply R_rm_quiet, rm_quiet_add. reflexivity.
  - apply R_create_wo.
Qed.

(** every event action of the floor is a sequence of world steps ... *)
Theorem R_exec_fact fuel uops a w : mode = MFull -> R w (exec_fact fuel uops a w nw).
Proof.
  intro NF. destruct a as [d|d|d|d| |m [wo|wo]|k]; cbn [exec_fact].
  - apply R_finish_cycle.
  - apply R_pass_part, NF.
  - apply R_fail_proc.
  - apply R_release_if_idle.
  - apply R_res_check.
  - apply R_maint_start.
  - apply R_maint_finish.
  - apply R_fold. intros. apply R_run_uop.
Qed.

(** ... and every action other than a hand-over attempt consists of census-neutral steps only *)
Theorem R_exec_fact_neutral fuel uops a w : (forall d, a <> APassPart d) -> R w (exec_fact fuel uops a w nw).
Proof.
  intro NP. destruct a as [d|d|d|d| |m [wo|wo]|k]; cbn [exec_fact].
  - apply R_finish_cycle.
  - exfalso. apply (NP d). reflexivity.
  - apply R_fail_proc.
  - apply R_release_if_idle.
  - apply R_res_check.
  - apply R_maint_start.
  - apply R_maint_finish.
  - apply R_fold. intros. apply R_run_uop.
Qed.

End Steps.
