(** C20: the registry of systems and assets — invariant and operation theorems for every sequence
    of system creations, asset creations, simulate calls, explicit add_asset calls and look-ups. *)
From Coq Require Import ZArith List Bool Lia.
From SimVerif Require Import Model.Base Model.Sys Proofs.ListAux.
Import ListNotations.
Open Scope Z_scope.

(** * set_nth *)
Lemma set_nth_length {X} (x : X) l : forall i, length (set_nth i x l) = length l.
Proof.
  unfold set_nth. induction l as [|y l IH]; intro i; destruct i; cbn; auto.
Qed.

Lemma nth_error_set_nth {X} (x : X) l : forall i j,
  nth_error (set_nth i x l) j = if Nat.eqb j i then (match nth_error l i with Some _ => Some x | None => None end) else nth_error l j.
Proof.
  unfold set_nth. induction l as [|y l IH]; intros i j.
  - destruct i, j; cbn; try reflexivity. destruct (Nat.eqb j i); reflexivity.
  - destruct i, j; cbn; try reflexivity. apply IH.
Qed.

Lemma active_same_len {X Y} (l : list X) (l' : list Y) : length l' = length l ->
  (match l' with [] => None | _ => Some (length l' - 1)%nat end) = (match l with [] => None | _ => Some (length l - 1)%nat end).
Proof. destruct l, l'; cbn; intro H; try discriminate; try reflexivity. injection H as H. rewrite H. reflexivity. Qed.

(** * the invariant *)
Definition inits_ok (a : asset) : Prop := a_inits a = (match a_env a with Some _ => 1%nat | None => 0%nat end).

Record RegInv (g : reg) : Prop := {
  ri_bound : forall i s o, nth_error (g_systems g) i = Some s -> In o (s_assets s) -> (o < length (g_assets g))%nat;
  (** initialised at most once: the count is 1 exactly when the asset has an environment *)
  ri_inits : forall o a, nth_error (g_assets g) o = Some a -> inits_ok a;
  (** the active system is the most recently created one *)
  ri_active : g_active g = match g_systems g with [] => None | _ => Some (length (g_systems g) - 1)%nat end;
  ri_nodup : forall i s, nth_error (g_systems g) i = Some s -> NoDup (s_assets s) }.

Lemma RegInv_init : RegInv init_reg.
Proof.
  split; cbn; intros; try reflexivity;
    repeat match goal with H : nth_error [] ?i = Some _ |- _ => destruct i; discriminate H end.
Qed.

Lemma RegInv_same g g' :
  g_systems g' = g_systems g -> g_active g' = g_active g -> g_assets g' = g_assets g -> RegInv g -> RegInv g'.
Proof. intros S A B [H1 H2 H3 H4]. split; rewrite ?S, ?A, ?B; assumption. Qed.

Lemma RegInv_fail g e : RegInv g -> RegInv (fail_r g e).
Proof. apply RegInv_same; reflexivity. Qed.

Lemma init_asset_inv i o g : RegInv g -> RegInv (init_asset i o g).
Proof.
  intros I. unfold init_asset. destruct (nth_error (g_assets g) o) as [a|] eqn:Ha; [|exact I].
  destruct (a_env a) eqn:E; [apply RegInv_fail, I|].
  destruct I as [H1 H2 H3 H4]. split; cbn; auto.
  - intros i0 s0 o0 Hs0 Hi0. rewrite set_nth_length. eapply H1; eauto.
  - intros o0 a0 Ha0. rewrite nth_error_set_nth in Ha0. destruct (Nat.eqb_spec o0 o) as [->|N].
    + rewrite Ha in Ha0. injection Ha0 as <-. unfold inits_ok. cbn. specialize (H2 o a Ha). unfold inits_ok in H2. rewrite E in H2. lia.
    + eapply H2; eauto.
Qed.

(** what initialisation does to the assets: exactly asset o, exactly once, or an AssertionError and nothing *)
Lemma init_asset_spec i o g a :
  nth_error (g_assets g) o = Some a ->
  g_systems (init_asset i o g) = g_systems g /\ g_active (init_asset i o g) = g_active g /\
  (forall o', o' <> o -> nth_error (g_assets (init_asset i o g)) o' = nth_error (g_assets g) o') /\
  match a_env a with
  | None => nth_error (g_assets (init_asset i o g)) o = Some (mkAsset (a_kind a) (a_name a) (S (a_inits a)) (Some i)) /\
            g_err (init_asset i o g) = g_err g
  | Some _ => g_assets (init_asset i o g) = g_assets g /\ g_err (init_asset i o g) = S_ASSERT
  end.
Proof.
  intros Ha. unfold init_asset. rewrite Ha. destruct (a_env a) eqn:E; cbn; repeat split; auto.
  - intros o' N. rewrite nth_error_set_nth. destruct (Nat.eqb_spec o' o); [contradiction|reflexivity].
  - rewrite nth_error_set_nth, Nat.eqb_refl, Ha. reflexivity.
Qed.

(** * registering *)
Lemma append_inv i s o g :
  RegInv g -> nth_error (g_systems g) i = Some s -> (o < length (g_assets g))%nat -> ~ In o (s_assets s) ->
  RegInv (mkReg (set_nth i (mkSys (s_assets s ++ [o]) (s_inited s)) (g_systems g)) (g_active g) (g_assets g) (g_err g) (g_found g)).
Proof.
  intros [H1 H2 H3 H4] Hs L NI. split; cbn; auto.
  - intros i0 s0 o0 Hs0 Hi0. rewrite nth_error_set_nth in Hs0. destruct (Nat.eqb_spec i0 i) as [->|N].
    + rewrite Hs in Hs0. injection Hs0 as <-. cbn in Hi0. apply in_app_iff in Hi0. destruct Hi0 as [Hi0|[<-|[]]]; [eapply H1; eauto|exact L].
    + eapply H1; eauto.
  - rewrite H3. symmetry. apply active_same_len, set_nth_length.
  - intros i0 s0 Hs0. rewrite nth_error_set_nth in Hs0. destruct (Nat.eqb_spec i0 i) as [->|N].
    + rewrite Hs in Hs0. injection Hs0 as <-. cbn. apply NoDup_snoc; [eapply H4; eauto|exact NI].
    + eapply H4; eauto.
Qed.

Lemma existsb_eqb_In o l : existsb (Nat.eqb o) l = true <-> In o l.
Proof.
  rewrite existsb_exists. split.
  - intros [x [Hx E]]. apply Nat.eqb_eq in E. subst. exact Hx.
  - intro H. exists o. split; [exact H|apply Nat.eqb_refl].
Qed.

Lemma add_asset_inv o g : RegInv g -> (o < length (g_assets g))%nat -> RegInv (add_asset o g).
Proof.
  intros I L. unfold add_asset. destruct (g_active g) as [i|] eqn:A; [|apply RegInv_fail, I].
  destruct (nth_error (g_systems g) i) as [s|] eqn:Hs; [|exact I].
  destruct (existsb (Nat.eqb o) (s_assets s)) eqn:EX; [exact I|].
  assert (NI : ~ In o (s_assets s)) by (intro Hin; apply existsb_eqb_In in Hin; congruence).
  pose proof (append_inv i s o g I Hs L NI) as I1. rewrite A in I1.
  destruct (s_inited s); [apply init_asset_inv, I1|exact I1].
Qed.

Lemma new_asset_inv k n t g : RegInv g -> RegInv (new_asset k n t g).
Proof.
  intro I. unfold new_asset.
  assert (I1 : RegInv (mkReg (g_systems g) (g_active g) (g_assets g ++ [mkAsset k n 0 None]) (g_err g) (g_found g))).
  { destruct I as [H1 H2 H3 H4]. split; cbn; auto.
    - intros i s o Hs Hin. rewrite app_length. cbn. specialize (H1 i s o Hs Hin). lia.
    - intros o a Ha. destruct (Nat.lt_ge_cases o (length (g_assets g))) as [Lt|Ge].
      + rewrite nth_error_app1 in Ha by exact Lt. eapply H2; eauto.
      + rewrite nth_error_app2 in Ha by exact Ge. destruct (o - length (g_assets g))%nat as [|k0]; cbn in Ha; [injection Ha as <-; reflexivity|].
        destruct k0; discriminate. }
  destruct t; [exact I1|]. destruct (g_active g) eqn:A; [|apply RegInv_fail, I].
  apply add_asset_inv; [exact I1|]. cbn. rewrite app_length. cbn. lia.
Qed.

Lemma init_all_inv i os : forall g, RegInv g -> RegInv (init_all i os g).
Proof.
  induction os as [|o os IH]; intros g I; cbn; [exact I|].
  pose proof (init_asset_inv i o g I) as I1. destruct (g_err (init_asset i o g) =? 0); [apply IH, I1|exact I1].
Qed.

Lemma init_all_frame i os : forall g,
  g_systems (init_all i os g) = g_systems g /\ g_active (init_all i os g) = g_active g /\ length (g_assets (init_all i os g)) = length (g_assets g).
Proof.
  induction os as [|o os IH]; intro g; cbn; [auto|].
  assert (F : g_systems (init_asset i o g) = g_systems g /\ g_active (init_asset i o g) = g_active g /\ length (g_assets (init_asset i o g)) = length (g_assets g)).
  { unfold init_asset. destruct (nth_error (g_assets g) o) as [a|]; [|auto]. destruct (a_env a); cbn; [auto|]. rewrite set_nth_length. auto. }
  destruct F as [F1 [F2 F3]].
  destruct (g_err (init_asset i o g) =? 0); [|auto]. destruct (IH (init_asset i o g)) as [A [B C]]. rewrite A, B, C. auto.
Qed.

Lemma simulate_inv i g : RegInv g -> RegInv (simulate i g).
Proof.
  intro I. unfold simulate. destruct (negb _); [apply RegInv_fail, I|].
  destruct (nth_error (g_systems g) i) as [s|] eqn:Hs; [|apply RegInv_fail, I].
  destruct (s_inited s); [exact I|].
  pose proof (init_all_inv i (s_assets s) g I) as I1. destruct (init_all_frame i (s_assets s) g) as [F1 [F2 F3]].
  destruct (g_err (init_all i (s_assets s) g) =? 0); [|exact I1].
  destruct I1 as [H1 H2 H3 H4]. split; cbn; auto.
  - intros i0 s0 o0 Hs0 Hi0. rewrite nth_error_set_nth in Hs0. destruct (Nat.eqb_spec i0 i) as [->|N].
    + rewrite F1, Hs in Hs0. injection Hs0 as <-. cbn in Hi0. eapply H1; [rewrite F1; exact Hs|exact Hi0].
    + eapply H1; eauto.
  - rewrite H3. symmetry. apply active_same_len, set_nth_length.
  - intros i0 s0 Hs0. rewrite nth_error_set_nth in Hs0. destruct (Nat.eqb_spec i0 i) as [->|N].
    + rewrite F1, Hs in Hs0. injection Hs0 as <-. cbn. eapply H4. rewrite F1. exact Hs.
    + eapply H4; eauto.
Qed.

(** the invariant holds after every operation sequence *)
Theorem run_sop_inv g o : RegInv g -> RegInv (run_sop g o).
Proof.
  intro I0. assert (I : RegInv (mkReg (g_systems g) (g_active g) (g_assets g) 0 [])) by (eapply RegInv_same; [| | |exact I0]; reflexivity).
  unfold run_sop. destruct o.
  - destruct I as [H1 H2 H3 H4]. split; cbn; auto.
    + intros i s o Hs Hin. destruct (Nat.lt_ge_cases i (length (g_systems g))) as [Lt|Ge].
      * rewrite nth_error_app1 in Hs by exact Lt. eapply H1; eauto.
      * rewrite nth_error_app2 in Hs by exact Ge. destruct (i - length (g_systems g))%nat as [|k]; cbn in Hs; [injection Hs as <-; destruct Hin|destruct k; discriminate].
    + rewrite app_length. cbn. destruct (g_systems g ++ [mkSys [] false]) eqn:E; [destruct (g_systems g); discriminate|]. f_equal. lia.
    + intros i s Hs. destruct (Nat.lt_ge_cases i (length (g_systems g))) as [Lt|Ge].
      * rewrite nth_error_app1 in Hs by exact Lt. eapply H4; eauto.
      * rewrite nth_error_app2 in Hs by exact Ge. destruct (i - length (g_systems g))%nat as [|k]; cbn in Hs; [injection Hs as <-; constructor|destruct k; discriminate].
  - apply new_asset_inv, I.
  - apply simulate_inv, I.
  - pose proof (simulate_inv i _ I) as I1. destruct (g_err _ =? 0); [apply new_asset_inv, I1|exact I1].
  - cbn [g_assets]. destruct (Nat.ltb_spec o (length (g_assets g))) as [Lt|Ge]; [apply add_asset_inv; [exact I|exact Lt]|exact I].
  - eapply RegInv_same; [| | |exact I]; reflexivity.
Qed.

Lemma last_index_sys {X} (l : list X) x : nth_error (l ++ [x]) (length l) = Some x.
Proof. rewrite nth_error_app2 by lia. rewrite Nat.sub_diag. reflexivity. Qed.

(** * operation theorems *)
(** only the most recently created system can simulate *)
Theorem simulate_inactive i g : g_active g <> Some i -> simulate i g = fail_r g S_RUNTIME.
Proof.
  intro N. unfold simulate. destruct (g_active g) as [j|]; [|reflexivity].
  destruct (Nat.eqb_spec i j) as [->|]; [congruence|reflexivity].
Qed.

(** continuing a simulation never re-initialises anything *)
Theorem simulate_again i g s :
  g_active g = Some i -> nth_error (g_systems g) i = Some s -> s_inited s = true -> simulate i g = g.
Proof. intros A Hs R. unfold simulate. rewrite A, Nat.eqb_refl, Hs, R. reflexivity. Qed.

Lemma init_all_spec i : forall os g,
  NoDup os -> g_err g = 0 -> g_err (init_all i os g) = 0 ->
  (forall o, In o os -> (o < length (g_assets g))%nat) ->
  (forall o a, In o os -> nth_error (g_assets g) o = Some a ->
     a_env a = None /\ nth_error (g_assets (init_all i os g)) o = Some (mkAsset (a_kind a) (a_name a) (S (a_inits a)) (Some i))) /\
  (forall o, ~ In o os -> nth_error (g_assets (init_all i os g)) o = nth_error (g_assets g) o).
Proof.
  induction os as [|o os IH]; intros g ND E0 E1 B; cbn in *; [split; [intros ? ? []|auto]|].
  inversion ND as [|? ? NI ND']; subst.
  destruct (nth_error (g_assets g) o) as [a|] eqn:Ha; [|apply nth_error_None in Ha; specialize (B o (or_introl eq_refl)); lia].
  destruct (init_asset_spec i o g a Ha) as [S1 [S2 [S3 S4]]].
  destruct (a_env a) eqn:EA.
  - destruct S4 as [_ S4]. rewrite S4 in E1. cbn in E1. rewrite S4 in E1. discriminate.
  - destruct S4 as [S4 S5]. assert (E5 : g_err (init_asset i o g) = 0) by (rewrite S5; exact E0). rewrite E5 in E1 |- *. cbn [Z.eqb] in E1 |- *.
    assert (B' : forall o0, In o0 os -> (o0 < length (g_assets (init_asset i o g)))%nat).
    { intros o0 H0. unfold init_asset. rewrite Ha, EA. cbn. rewrite set_nth_length. apply B. right. exact H0. }
    destruct (IH (init_asset i o g) ND' E5 E1 B') as [J1 J2]. split.
    + intros o0 a0 [<-|Hin] Ha0.
      * rewrite Ha in Ha0. injection Ha0 as <-. split; [exact EA|]. rewrite (J2 o NI). exact S4.
      * assert (N : o0 <> o) by (intros ->; contradiction).
        rewrite <- (S3 o0 N) in Ha0. exact (J1 o0 a0 Hin Ha0).
    + intros o0 N0. rewrite J2 by (intro; apply N0; right; assumption). apply S3. intros ->. apply N0. left. reflexivity.
Qed.

(** the first simulate initialises every registered asset exactly once, in its own environment *)
Theorem simulate_initialises i g s :
  RegInv g -> g_err g = 0 -> g_active g = Some i -> nth_error (g_systems g) i = Some s -> s_inited s = false ->
  g_err (simulate i g) = 0 ->
  (exists s', nth_error (g_systems (simulate i g)) i = Some s' /\ s_inited s' = true /\ s_assets s' = s_assets s) /\
  (forall o a, In o (s_assets s) -> nth_error (g_assets g) o = Some a ->
     a_inits a = 0%nat /\ nth_error (g_assets (simulate i g)) o = Some (mkAsset (a_kind a) (a_name a) 1 (Some i))) /\
  (forall o, ~ In o (s_assets s) -> nth_error (g_assets (simulate i g)) o = nth_error (g_assets g) o).
Proof.
  intros I E0 A Hs NR E1. unfold simulate in *. rewrite A, Nat.eqb_refl, Hs, NR in *. cbn [negb] in *.
  destruct (g_err (init_all i (s_assets s) g) =? 0) eqn:EE.
  2:{ apply Z.eqb_neq in EE. contradiction. }
  apply Z.eqb_eq in EE. cbn in E1.
  destruct (init_all_spec i (s_assets s) g (ri_nodup g I i s Hs) E0 EE (fun o H => ri_bound g I i s o Hs H)) as [J1 J2].
  destruct (init_all_frame i (s_assets s) g) as [F1 _].
  split; [|split].
  - cbn. eexists. split; [rewrite nth_error_set_nth, Nat.eqb_refl, F1, Hs; reflexivity|]. auto.
  - intros o a Hin Ha. cbn. destruct (J1 o a Hin Ha) as [EA K]. pose proof (ri_inits g I o a Ha) as IO. unfold inits_ok in IO. rewrite EA in IO.
    split; [exact IO|]. rewrite K, IO. reflexivity.
  - intros o N. cbn. apply J2, N.
Qed.

(** every non-transitory asset registers with the most recently created system, and with no other;
    created while that system is already running it is initialised on the spot, exactly once *)
Theorem new_asset_registers k n g i s :
  RegInv g -> g_err g = 0 -> g_active g = Some i -> nth_error (g_systems g) i = Some s ->
  let g' := new_asset k n false g in let o := length (g_assets g) in
  g_err g' = 0 /\
  nth_error (g_systems g') i = Some (mkSys (s_assets s ++ [o]) (s_inited s)) /\
  (forall j, j <> i -> nth_error (g_systems g') j = nth_error (g_systems g) j) /\
  nth_error (g_assets g') o = Some (if s_inited s then mkAsset k n 1 (Some i) else mkAsset k n 0 None) /\
  (forall o', o' <> o -> nth_error (g_assets g') o' = nth_error (g_assets g) o').
Proof.
  intros I E0 A Hs. cbv zeta. unfold new_asset. rewrite A. unfold add_asset. cbn [g_active g_systems g_assets]. rewrite Hs.
  assert (NI : existsb (Nat.eqb (length (g_assets g))) (s_assets s) = false).
  { destruct (existsb _ _) eqn:EX; [|reflexivity]. apply existsb_eqb_In in EX. pose proof (ri_bound g I i s _ Hs EX). lia. }
  rewrite NI.
  assert (OTH : forall o', o' <> length (g_assets g) -> nth_error (g_assets g ++ [mkAsset k n 0 None]) o' = nth_error (g_assets g) o').
  { intros o' N. destruct (Nat.lt_ge_cases o' (length (g_assets g))) as [Lt|Ge]; [apply nth_error_app1, Lt|].
    rewrite nth_error_app2 by exact Ge. destruct (o' - length (g_assets g))%nat as [|q] eqn:Q; [lia|]. cbn.
    symmetry. destruct q; [apply nth_error_None; lia|apply nth_error_None; lia]. }
  destruct (s_inited s) eqn:R.
  - unfold init_asset. cbn [g_assets]. rewrite last_index_sys. cbn [a_env]. cbn.
    split; [exact E0|]. split; [rewrite nth_error_set_nth, Nat.eqb_refl, Hs; reflexivity|].
    split; [intros j N; rewrite nth_error_set_nth; destruct (Nat.eqb_spec j i); [contradiction|reflexivity]|].
    split; [rewrite nth_error_set_nth, Nat.eqb_refl, last_index_sys; reflexivity|].
    intros o' N. rewrite nth_error_set_nth. destruct (Nat.eqb_spec o' (length (g_assets g))); [contradiction|apply OTH, N].
  - cbn. split; [exact E0|]. split; [rewrite nth_error_set_nth, Nat.eqb_refl, Hs; reflexivity|].
    split; [intros j N; rewrite nth_error_set_nth; destruct (Nat.eqb_spec j i); [contradiction|reflexivity]|].
    split; [apply last_index_sys|exact OTH].
Qed.

(** a transitory asset (a Part) is never registered *)
Theorem transitory_not_registered k n g : g_systems (new_asset k n true g) = g_systems g.
Proof. reflexivity. Qed.

(** without a system there is nothing to register with *)
Theorem new_asset_no_system k n g : g_active g = None -> new_asset k n false g = fail_r g S_RUNTIME.
Proof. intro A. unfold new_asset. rewrite A. reflexivity. Qed.

(** look-up returns exactly the registered assets matching all the given filters, in registration order *)
Theorem find_assets_spec i n d t sb g s :
  nth_error (g_systems g) i = Some s ->
  find_assets i n d t sb g = filter (matches g n d t sb) (s_assets s) /\
  forall o, In o (find_assets i n d t sb g) <-> In o (s_assets s) /\ matches g n d t sb o = true.
Proof. intro Hs. unfold find_assets. rewrite Hs. split; [reflexivity|]. intro o. apply filter_In. Qed.
