(** C06, queue level: one live cycle timer per part in process.  The link: for a handler, processor or sink ("tracked"
    kinds) the number of uncancelled FINISH_PROCESSING events of its own, pending or paused, is 1 while a part is in process
    and 0 otherwise.  This file: the step decomposition under which the link survives step by step.
    - [tsafe] device transformers: leave "a part is in process" alone (on tracked kinds);
    - environment calls: everything except FINISH events of tracked devices and cancels of busy ones ([temit_ok]);
    - [tj_block]: a LOCAL BLOCK on one device d — any changes of d's own record, schedule/data calls that are not FINISH events,
      and n FINISH events of d — whose net effect on "in process" is n (taking a part in ends, after the receive callbacks,
      in the timer, or for a zero cycle in the finished part; in between nothing but d is touched);
    - [tj_cancel_block]: such a block with no FINISH event, ending in the cancel of d's events, after which nothing is in process
      (a failure). *)
From Coq Require Import ZArith List Bool Lia.
From RecordUpdate Require Import RecordUpdate.
From SimVerif Require Import Model.Base Model.Env Model.RM Model.Maint Model.FloorTypes Model.Floor Model.FamFloor.
From SimVerif Require Import Proofs.RMInv Proofs.FloorSteps Proofs.FloorLink.
Import ListNotations.
Open Scope Z_scope.

Definition tracked (k : kind) : bool := match k with KHandler | KProcessor | KSink => true | _ => false end.
Definition busy (x : dev) : bool := match d_part x with Some _ => true | None => false end.
Definition bexp (x : dev) : Z := if busy x then 1 else 0.

(** a second, purely local invariant carried by the same steps (C08, after the repair of D9): a handler, processor or sink that
    reports a waiting-for-part time has both slots empty *)
Definition WaitInv (x : dev) : Prop := tracked (d_kind x) = true -> d_wait_since x <> None -> d_part x = None /\ d_out x = None.

(** [st] (strict): whether the steps also carry WaitInv — everything does except System initialisation, which stamps devices
    without looking at their slots *)
Definition tsafe (st : bool) (g : dev -> Prop) (f : dev -> dev) : Prop :=
  forall x, g x -> d_kind (f x) = d_kind x /\ (tracked (d_kind x) = true -> busy (f x) = busy x) /\ (st = true -> WaitInv x -> WaitInv (f x)).

Definition tquiet (c : fcmd) : Prop :=
  match c with FSched _ _ _ (AFinishCycle _) => False | FSched _ _ _ _ | FData _ _ _ => True | _ => False end.

Definition temit_ok (w : fw) (c : fcmd) : Prop :=
  match c with
  | FSched _ _ a (AFinishCycle d) => a = d /\ tracked (d_kind (getd w d)) = false
  | FCancel a => tracked (d_kind (getd w a)) = true -> busy (getd w a) = false
  | _ => True
  end.

(** local steps on device [d]; the index counts the FINISH events of [d] *)
Inductive lstep0 (d : Z) : nat -> fw -> fw -> Prop :=
| lo_dev w f : (forall x, d_kind (f x) = d_kind x) -> lstep0 d 0 w (updd w d f)
| lo_quiet w w' : f_devs w' = f_devs w -> (exists l, f_out w' = l ++ f_out w /\ Forall tquiet l) -> (okf w' = true -> okf w = true) -> lstep0 d 0 w w'
| lo_fin w t p : lstep0 d 1 w (emitf w (FSched t p d (AFinishCycle d))).

Inductive LOC (d : Z) : nat -> fw -> fw -> Prop :=
| LOC_refl w : LOC d 0 w w
| LOC_step n m w1 w2 w3 : lstep0 d n w1 w2 -> LOC d m w2 w3 -> LOC d (n + m) w1 w3.

Inductive jstep (st : bool) (nw : Z) : fw -> fw -> Prop :=
| tj_dev w d g f : tsafe st g f -> g (getd w d) -> jstep st nw w (updd w d f)
| tj_emit w c : temit_ok w c -> jstep st nw w (emitf w c)
| tj_quiet w w' : f_devs w' = f_devs w -> (exists l, f_out w' = l ++ f_out w /\ Forall tquiet l) -> (okf w' = true -> okf w = true) -> jstep st nw w w'
| tj_dead w w' : okf w' = false -> jstep st nw w w'
| tj_everywhere w pid f : jstep st nw w (upd_part_everywhere pid f w)
| tj_block w w' d n : LOC d n w w' -> (tracked (d_kind (getd w d)) = true -> Z.of_nat n = bexp (getd w' d) - bexp (getd w d)) ->
                      (st = true -> WaitInv (getd w d) -> WaitInv (getd w' d)) -> jstep st nw w w'
| tj_cancel_block w w1 d : LOC d 0 w w1 -> (tracked (d_kind (getd w d)) = true -> busy (getd w1 d) = false) ->
                           (st = true -> WaitInv (getd w d) -> WaitInv (getd w1 d)) -> jstep st nw w (emitf w1 (FCancel d)).

Inductive RJ (st : bool) (nw : Z) : fw -> fw -> Prop :=
| RJ_refl w : RJ st nw w w
| RJ_step w1 w2 w3 : jstep st nw w1 w2 -> RJ st nw w2 w3 -> RJ st nw w1 w3.

Ltac wi x G :=
  let H := fresh "H" in let T := fresh "T" in let W := fresh "W" in
  unfold WaitInv; cbn; intro H;
  first [ exact H
        | (intros T W; exfalso; apply W; reflexivity)
        | (intros T W; rewrite G in T; discriminate)
        | (intros T W; destruct (H T W) as [? ?]; split; first [assumption | reflexivity])
        | (intros T W; exact G)
        | (intros T W; apply H; [exact T|exact G])
        | (intros T W; apply H; [exact T|congruence])
        | (intros T W; exfalso; apply G; assumption) ].

Ltac kt :=
  let x := fresh "x" in let G := fresh "G" in
  intros x G;
  unfold t_accept_sink, t_accept_proc, t_accept_buffer, t_accept, t_shutdown, t_restore, t_supplied, t_buf_pop, t_buf_store, t_map_slot,
         t_generated, t_clear_out, t_clear_part, t_batch_single, t_batch_full, t_batch_more, t_reserved,
         t_waiting_res, t_waiting_ds, t_set_cycle, t_add_offset, t_reset_offset, t_block, t_budget, t_down_del, t_down_add, t_up, dev_set_wait, dev_add_value;
  cbv zeta; cbn [negb];
  repeat match goal with
         | |- context[if true then _ else _] => progress cbn [negb]
         | |- context[if false then _ else _] => progress cbn [negb]
         | |- context[if ?b then _ else _] => match type of b with bool => destruct b end
         | |- context[match d_wait_since ?y with _ => _ end] => destruct (d_wait_since y) eqn:?
         | |- context[match d_buf ?y with _ => _ end] => destruct (d_buf y) as [|[? ?] ?]
         end;
  unfold busy; cbn;
  (split; [reflexivity|split;
     [first [ solve [intros _; reflexivity] | solve [let TK := fresh "TK" in intro TK; rewrite G in TK; discriminate] ]
     |intros _; wi x G]]).

(** * LOC *)
Lemma LOC_one d n a b : lstep0 d n a b -> LOC d n a b.
Proof. intro H. replace n with (n + 0)%nat by lia. econstructor; [exact H|constructor]. Qed.
Lemma LOC_trans d n m a b c : LOC d n a b -> LOC d m b c -> LOC d (n + m) a c.
Proof.
  induction 1 as [|n1 n2 w1 w2 w3 S _ IH]; intro Hbc; [exact Hbc|].
  replace (n1 + n2 + m)%nat with (n1 + (n2 + m))%nat by lia. econstructor; [exact S|apply IH, Hbc].
Qed.
Lemma LOC_trans0 d m a b c : LOC d 0 a b -> LOC d m b c -> LOC d m a c.
Proof. intros H1 H2. exact (LOC_trans d 0 m a b c H1 H2). Qed.

Lemma LOC_dev d w f : (forall x, d_kind (f x) = d_kind x) -> LOC d 0 w (updd w d f).
Proof. intro K. apply LOC_one, lo_dev, K. Qed.
Lemma LOC_same d w w' : f_devs w' = f_devs w -> f_out w' = f_out w -> f_err w' = f_err w -> LOC d 0 w w'.
Proof. intros D O E. apply LOC_one, lo_quiet; [exact D|exists []; split; [exact O|constructor]|unfold okf; rewrite E; auto]. Qed.
Lemma LOC_data d w l s p : LOC d 0 w (data w l s p).
Proof. apply LOC_one, lo_quiet; [reflexivity|exists [FData l s p]; split; [reflexivity|repeat constructor]|auto]. Qed.
Lemma LOC_fail d w e : LOC d 0 w (failf w e).
Proof.
  apply LOC_one, lo_quiet.
  - unfold failf. destruct (f_err w =? 0); reflexivity.
  - exists []. split; [|constructor]. unfold failf. destruct (f_err w =? 0); reflexivity.
  - unfold failf, okf. destruct (f_err w =? 0) eqn:E; [auto|rewrite E; auto].
Qed.

Lemma tquiet_rcmds l : Forall tquiet (map conv_rcmd l).
Proof. induction l as [|c l IH]; cbn; constructor; [|exact IH]. destruct c as [t p a [|k]|]; exact I. Qed.
Lemma tquiet_mcmds mid l : Forall tquiet (map (conv_mcmd mid) l).
Proof. induction l as [|c l IH]; cbn; constructor; [|exact IH]. destruct c; exact I. Qed.

Lemma rm_call_tquiet w f :
  f_devs (rm_call w f) = f_devs w /\ (exists l, f_out (rm_call w f) = l ++ f_out w /\ Forall tquiet l) /\ (okf (rm_call w f) = true -> okf w = true).
Proof.
  destruct (rm_call_quiet_facts w f) as [A [_ C]]. split; [exact A|]. split; [|exact C].
  unfold rm_call. cbv zeta. match goal with |- context[map conv_rcmd ?l] => exists (map conv_rcmd l) end.
  split; [|apply tquiet_rcmds]. destruct (_ =? 0); [reflexivity|]. unfold failf. destruct (_ =? 0); reflexivity.
Qed.
Lemma maint_call_tquiet w mid f :
  f_devs (maint_call w mid f) = f_devs w /\ (exists l, f_out (maint_call w mid f) = l ++ f_out w /\ Forall tquiet l) /\ (okf (maint_call w mid f) = true -> okf w = true).
Proof.
  split; [reflexivity|]. split; [|cbn; auto].
  unfold maint_call. cbv zeta. match goal with |- context[map (conv_mcmd mid) ?l] => exists (map (conv_mcmd mid) l) end.
  split; [reflexivity|apply tquiet_mcmds].
Qed.

Lemma LOC_rm_call d w f : LOC d 0 w (rm_call w f).
Proof. destruct (rm_call_tquiet w f) as [A [B C]]. apply LOC_one, lo_quiet; assumption. Qed.
Lemma LOC_maint_call d w mid f : LOC d 0 w (maint_call w mid f).
Proof. destruct (maint_call_tquiet w mid f) as [A [B C]]. apply LOC_one, lo_quiet; assumption. Qed.

Lemma LOC_run_cbop nw d slot isf lost w o : LOC d 0 w (run_cbop nw d slot isf lost w o).
Proof.
  unfold run_cbop. destruct (negb (okf w)); [constructor|].
  destruct o.
  - apply LOC_dev. reflexivity.
  - apply LOC_dev. reflexivity.
  - destruct (if slot then d_part (getd w d) else d_out (getd w d)) as [i|]; [|constructor].
    destruct (is_batch i); [apply LOC_fail|]. apply LOC_dev. intro x. unfold t_map_slot. destruct slot; reflexivity.
  - apply LOC_dev. intro x. unfold t_map_slot. destruct slot; reflexivity.
  - apply LOC_maint_call.
  - destruct isf; [apply LOC_maint_call|constructor].
  - apply LOC_same; reflexivity.
Qed.

Lemma LOC_run_cbops nw d slot isf lost ops : forall w, LOC d 0 w (run_cbops nw d slot isf lost ops w).
Proof.
  unfold run_cbops. induction ops as [|o ops IH]; intro w; cbn; [constructor|].
  eapply LOC_trans0; [apply LOC_run_cbop|apply IH].
Qed.

(** the receive callbacks leave kind, output slot, shut flag and "in process" of every device alone *)
Lemma run_cbop_keep nw d isf lost w o d' :
  d_kind (getd (run_cbop nw d true isf lost w o) d') = d_kind (getd w d') /\ d_out (getd (run_cbop nw d true isf lost w o) d') = d_out (getd w d') /\
  d_shut (getd (run_cbop nw d true isf lost w o) d') = d_shut (getd w d') /\ busy (getd (run_cbop nw d true isf lost w o) d') = busy (getd w d').
Proof.
  unfold run_cbop. destruct (negb (okf w)); [auto|].
  assert (U : forall f, (forall x, d_kind (f x) = d_kind x /\ d_out (f x) = d_out x /\ d_shut (f x) = d_shut x /\ busy (f x) = busy x) ->
              d_kind (getd (updd w d f) d') = d_kind (getd w d') /\ d_out (getd (updd w d f) d') = d_out (getd w d') /\
              d_shut (getd (updd w d f) d') = d_shut (getd w d') /\ busy (getd (updd w d f) d') = busy (getd w d')).
  { intros f H. rewrite getd_updd. destruct ((d' =? d) && amem d (f_devs w)) eqn:C; [|auto].
    apply andb_true_iff in C. destruct C as [C _]. apply Z.eqb_eq in C. subst d'. apply H. }
  assert (MS : forall f x, d_kind (t_map_slot true f x) = d_kind x /\ d_out (t_map_slot true f x) = d_out x /\
                           d_shut (t_map_slot true f x) = d_shut x /\ busy (t_map_slot true f x) = busy x).
  { intros f x. unfold t_map_slot, busy. cbn. repeat split. destruct (d_part x); reflexivity. }
  destruct o; try (apply U; intro x; repeat split; reflexivity).
  - destruct (d_part (getd w d)) as [i|]; [|auto]. destruct (is_batch i); [unfold failf; destruct (f_err w =? 0); auto|]. apply U, MS.
  - apply U, MS.
  - auto.
  - destruct isf; auto.
  - auto.
Qed.

Lemma run_cbops_keep nw d isf lost ops d' : forall w,
  d_kind (getd (run_cbops nw d true isf lost ops w) d') = d_kind (getd w d') /\ d_out (getd (run_cbops nw d true isf lost ops w) d') = d_out (getd w d') /\
  d_shut (getd (run_cbops nw d true isf lost ops w) d') = d_shut (getd w d') /\ busy (getd (run_cbops nw d true isf lost ops w) d') = busy (getd w d').
Proof.
  unfold run_cbops. induction ops as [|o ops IH]; intro w; cbn; [auto|].
  destruct (IH (run_cbop nw d true isf lost w o)) as [A [B [C E]]]. destruct (run_cbop_keep nw d isf lost w o d') as [A1 [B1 [C1 E1]]].
  rewrite A, B, C, E. auto.
Qed.

Lemma run_cbop_wait nw d isf lost w o d' : d_wait_since (getd (run_cbop nw d true isf lost w o) d') = d_wait_since (getd w d').
Proof.
  unfold run_cbop. destruct (negb (okf w)); [auto|].
  assert (U : forall f, (forall x, d_wait_since (f x) = d_wait_since x) -> d_wait_since (getd (updd w d f) d') = d_wait_since (getd w d')).
  { intros f H. apply getd_updd_field, H. }
  destruct o; try (apply U; intro x; reflexivity); try reflexivity.
  - destruct (d_part (getd w d)) as [i|]; [|auto]. destruct (is_batch i); [unfold failf; destruct (f_err w =? 0); auto|]. apply U. intro x. reflexivity.
  - destruct isf; reflexivity.
Qed.
Lemma run_cbops_wait nw d isf lost ops d' : forall w, d_wait_since (getd (run_cbops nw d true isf lost ops w) d') = d_wait_since (getd w d').
Proof.
  unfold run_cbops. induction ops as [|o ops IH]; intro w; cbn; [auto|]. rewrite IH. apply run_cbop_wait.
Qed.

Section Timer.
Variable st : bool.
Variable nw : Z.
Notation RJ := (RJ st nw).

Lemma RJ_trans a b c : RJ a b -> RJ b c -> RJ a c.
Proof. induction 1 as [|w1 w2 w3 S _ IH]; intro Hbc; [exact Hbc|]. econstructor; [exact S|apply IH, Hbc]. Qed.
Lemma RJ_one a b : jstep st nw a b -> RJ a b.
Proof. intro H. econstructor; [exact H|constructor]. Qed.
Lemma RJ_dev w d g f : tsafe st g f -> g (getd w d) -> RJ w (updd w d f).
Proof. intros. apply RJ_one. econstructor; eauto. Qed.
Lemma RJ_tquiet_emit w c : tquiet c -> RJ w (emitf w c).
Proof. intro Q. apply RJ_one, tj_quiet; [reflexivity|exists [c]; split; [reflexivity|constructor; [exact Q|constructor]]|auto]. Qed.
Lemma RJ_data w l s p : RJ w (data w l s p).
Proof. apply RJ_tquiet_emit. exact I. Qed.
Lemma RJ_release_ev w t p a d0 : RJ w (emitf w (FSched t p a (AReleaseIfIdle d0))).
Proof. apply RJ_tquiet_emit. exact I. Qed.
Lemma RJ_pause w a : RJ w (emitf w (FPause a)).
Proof. apply RJ_one, tj_emit. exact I. Qed.
Lemma RJ_unpause w a : RJ w (emitf w (FUnpause a)).
Proof. apply RJ_one, tj_emit. exact I. Qed.
Lemma RJ_fail w e : RJ w (failf w e).
Proof.
  apply RJ_one, tj_quiet.
  - unfold failf. destruct (f_err w =? 0); reflexivity.
  - exists []. split; [|constructor]. unfold failf. destruct (f_err w =? 0); reflexivity.
  - unfold failf, okf. destruct (f_err w =? 0) eqn:E; [auto|rewrite E; auto].
Qed.
Lemma RJ_same w w' : f_devs w' = f_devs w -> f_out w' = f_out w -> f_err w' = f_err w -> RJ w w'.
Proof.
  intros D O E. apply RJ_one, tj_quiet; [exact D|exists []; split; [exact O|constructor]|unfold okf; rewrite E; auto].
Qed.
Lemma RJ_fold {X} (F : fw -> X -> fw) (l : list X) : (forall w x, RJ w (F w x)) -> forall w, RJ w (fold_left F l w).
Proof. intros H. induction l as [|x l IH]; intro w; cbn; [constructor|]. eapply RJ_trans; [apply H|apply IH]. Qed.

Ltac Jt := first [apply RJ_refl | apply RJ_fail | apply RJ_data | (apply RJ_tquiet_emit; exact I) | apply RJ_pause | apply RJ_unpause].
Ltac jdev w0 d0 f0 g0 := apply (RJ_trans w0 (updd w0 d0 f0)); [apply (RJ_dev w0 d0 g0 f0); [kt|]|].

Lemma RJ_rm_call w f : RJ w (rm_call w f).
Proof. destruct (rm_call_tquiet w f) as [A [B C]]. apply RJ_one, tj_quiet; assumption. Qed.
Lemma RJ_maint_call w mid f : RJ w (maint_call w mid f).
Proof. destruct (maint_call_tquiet w mid f) as [A [B C]]. apply RJ_one, tj_quiet; assumption. Qed.
Lemma RJ_create_wo mid t g w : RJ w (create_wo nw mid t g w).
Proof. apply RJ_maint_call. Qed.

Lemma RJ_sched_pass off w d : RJ w (sched_pass nw off w d).
Proof.
  unfold sched_pass. destruct (d_kind (getd w d)); try Jt;
    (jdev w d (t_waiting_ds false) (fun _ : dev => True); [exact I|Jt]).
Qed.

Lemma RJ_signal fuel : forall m w d, RJ w (signal fuel nw m w d).
Proof.
  induction fuel as [|f IH]; intros m w d; cbn [signal]; [apply RJ_fail|].
  set (x := getd w d).
  assert (NU : forall w0, RJ w0 (fold_left (fun w1 u => signal f nw false w1 u) (d_up (getd w0 d)) w0)).
  { intro w0. apply RJ_fold. intros; apply IH. }
  assert (SW : RJ w (fold_left (fun w1 u => signal f nw false w1 u)
                               (d_up (getd (wait_if_empty nw w d) d)) (wait_if_empty nw w d))).
  { unfold wait_if_empty. destruct (d_part (getd w d)) eqn:PP; [apply NU|]. destruct (d_out (getd w d)) eqn:OO; [apply NU|].
    jdev w d (dev_set_wait nw true false) (fun y : dev => d_part y = None /\ d_out y = None); [split; assumption|apply NU]. }
  destruct m.
  - destruct (d_kind x); try apply NU; try exact SW.
    + destruct (inf_ltb (d_level x) (d_capacity x)); [exact SW|Jt].
    + destruct (aget (d_group x) (f_groups w)); [|Jt]. apply RJ_fold. intros; apply IH.
  - destruct (d_kind x); try apply IH;
      try (destruct (operational x && d_waiting_ds x); [apply RJ_sched_pass|Jt]).
    destruct (aget (d_group x) (f_groups w)); [apply IH|Jt].
Qed.

Lemma tsafe_map_slot slot f : tsafe st (fun _ => True) (t_map_slot slot f).
Proof.
  intros x _. unfold t_map_slot, busy, WaitInv. destruct slot; cbn; (split; [reflexivity|split]).
  - intros _. destruct (d_part x); reflexivity.
  - intros _ H T W. destruct (H T W) as [P O]. rewrite P. auto.
  - intros _. reflexivity.
  - intros _ H T W. destruct (H T W) as [P O]. rewrite O. auto.
Qed.

Lemma RJ_run_cbop d slot isf lost w o : RJ w (run_cbop nw d slot isf lost w o).
Proof.
  unfold run_cbop. destruct (negb (okf w)); [Jt|].
  destruct o.
  - apply (RJ_dev w d (fun _ => True)); [kt|exact I].
  - apply (RJ_dev w d (fun _ => True)); [kt|exact I].
  - destruct (if slot then d_part (getd w d) else d_out (getd w d)) as [i|]; [|Jt].
    destruct (is_batch i); [Jt|]. apply (RJ_dev w d (fun _ => True)); [apply tsafe_map_slot|exact I].
  - apply (RJ_dev w d (fun _ => True)); [apply tsafe_map_slot|exact I].
  - apply RJ_create_wo.
  - destruct isf; [apply RJ_create_wo|Jt].
  - apply RJ_same; reflexivity.
Qed.

Lemma RJ_run_cbops d slot isf lost ops : forall w, RJ w (run_cbops nw d slot isf lost ops w).
Proof. unfold run_cbops. apply RJ_fold. intros. apply RJ_run_cbop. Qed.

(** * finishing a cycle *)
Definition tfin (k : kind) (it : item) : dev -> dev := match k with KProcessor => t_finish_proc nw it | _ => t_finish it end.

(** everything after the part has moved to the output slot *)
Lemma RJ_finish_tail fuel w d it :
  tracked (d_kind (getd w d)) = true -> operational (getd w d) = true -> d_part (getd w d) = Some it -> d_out (getd w d) = None ->
  RJ (updd w d (tfin (d_kind (getd w d)) it)) (finish_cycle fuel nw w d).
Proof.
  intros TK OP P O. unfold finish_cycle, tfin. set (x := getd w d) in *. rewrite OP, P, O. cbn [negb].
  destruct (d_kind x) eqn:K; try discriminate.
  - apply RJ_sched_pass.
  - eapply RJ_trans; [apply RJ_sched_pass|].
    match goal with |- context[match d_reserved ?y with _ => _ end] => destruct (d_reserved y) end.
    + eapply RJ_trans; [apply RJ_release_ev|]. eapply RJ_trans; [apply RJ_run_cbops|].
      match goal with |- context[match d_out ?y with _ => _ end] => destruct (d_out y) end; Jt.
    + eapply RJ_trans; [apply RJ_run_cbops|].
      match goal with |- context[match d_out ?y with _ => _ end] => destruct (d_out y) end; Jt.
  - eapply RJ_trans; [apply RJ_sched_pass|].
    match goal with |- RJ ?w0 _ => jdev w0 d t_clear_out (fun _ : dev => True); [exact I|apply RJ_signal] end.
Qed.

(** a source's cycle end (no tracked kind ever reaches [finish_cycle] this way) *)
Lemma RJ_finish_cycle_untracked fuel w d : tracked (d_kind (getd w d)) = false -> RJ w (finish_cycle fuel nw w d).
Proof.
  intro TK. unfold finish_cycle. set (x := getd w d) in *. destruct (d_kind x) eqn:K; try discriminate; try Jt.
  destruct (d_out x) eqn:O; [apply RJ_sched_pass|].
  destruct (generate w d) as [w' it] eqn:G.
  assert (D : f_devs w' = f_devs w) by (pose proof (proj1 (generate_devs w d)) as X; rewrite G in X; exact X).
  apply (RJ_trans w w').
  { destruct (generate_nextid w d) as [z Hz]. rewrite G in Hz. cbn in Hz. subst w'. apply RJ_same; reflexivity. }
  jdev w' d (t_generated it) (fun y : dev => d_kind y = KSource); [rewrite (getd_other_fields w w' d D); exact K|apply RJ_sched_pass].
Qed.

Lemma RJ_sched_finish_untracked fuel w d : tracked (d_kind (getd w d)) = false -> RJ w (sched_finish fuel nw w d).
Proof.
  intro TK. unfold sched_finish.
  assert (K1 : d_kind (getd (updd w d t_reset_offset) d) = d_kind (getd w d)) by (apply getd_updd_field; reflexivity).
  jdev w d t_reset_offset (fun _ : dev => True); [exact I|].
  destruct (_ <=? 0); [apply RJ_finish_cycle_untracked; rewrite K1; exact TK|].
  apply RJ_one, tj_emit. cbn. split; [reflexivity|rewrite K1; exact TK].
Qed.

Lemma RJ_batcher_fill n : forall w d, d_kind (getd w d) = KBatcher -> RJ w (batcher_fill n w d).
Proof.
  induction n as [|n IH]; intros w d KB; cbn [batcher_fill]; [Jt|].
  set (x := getd w d) in *. destruct (d_out x) eqn:O; [Jt|]. destruct (d_part x) as [it|] eqn:P; [|Jt].
  match goal with |- context[let '(p, rest) := ?e in _] => destruct e as [[p|] rest] end; [|Jt].
  assert (KP : forall w0 f0, (forall y, d_kind (f0 y) = d_kind y) -> f_devs w0 = f_devs w -> d_kind (getd (updd w0 d f0) d) = KBatcher).
  { intros w0 f0 Hk Hd. rewrite (getd_updd_field d_kind w0 d f0 d Hk). rewrite (getd_other_fields w w0 d Hd). exact KB. }
  destruct (d_batch_size x) as [size|] eqn:BS.
  - destruct (d_inprog x) as [[pp|b ps]|] eqn:IP.
    + apply IH. exact KB.
    + destruct (size <=? Z.of_nat (length (ps ++ [p]))).
      * jdev w d (t_batch_full rest b (ps ++ [p])) (fun y : dev => d_kind y = KBatcher); [exact KB|apply IH; apply KP; reflexivity].
      * jdev w d (t_batch_more rest b (ps ++ [p])) (fun y : dev => d_kind y = KBatcher); [exact KB|apply IH; apply KP; reflexivity].
    + set (w1 := w <| f_next_id := f_next_id w + 1 |>).
      apply (RJ_trans w w1); [apply RJ_same; reflexivity|].
      destruct (size <=? Z.of_nat (length ([] ++ [p]))).
      * jdev w1 d (t_batch_full rest (mkPart (f_next_id w + 1) 0 0 [] []) ([] ++ [p])) (fun y : dev => d_kind y = KBatcher); [exact KB|apply IH; apply KP; reflexivity].
      * jdev w1 d (t_batch_more rest (mkPart (f_next_id w + 1) 0 0 [] []) ([] ++ [p])) (fun y : dev => d_kind y = KBatcher); [exact KB|apply IH; apply KP; reflexivity].
  - jdev w d (t_batch_single rest p) (fun y : dev => d_kind y = KBatcher); [exact KB|apply IH; apply KP; reflexivity].
Qed.

Lemma RJ_batcher_try_move w d : d_kind (getd w d) = KBatcher -> RJ w (batcher_try_move nw w d).
Proof.
  intro KB. unfold batcher_try_move. set (x := getd w d) in *. destruct (d_part x) as [it|] eqn:P; [|Jt]. destruct (d_out x); [Jt|].
  destruct (negb (operational x)); [Jt|].
  assert (G : RJ w (let w1 := batcher_fill (S (Z.to_nat (item_count it))) w d in
                    match d_out (getd w1 d) with Some _ => sched_pass nw 0 w1 d | None => w1 end)).
  { cbv zeta. eapply RJ_trans; [apply RJ_batcher_fill, KB|].
    match goal with |- context[match d_out ?y with _ => _ end] => destruct (d_out y) end; [apply RJ_sched_pass|Jt]. }
  destruct it as [p|b [|p ps]]; try exact G.
  jdev w d t_clear_part (fun y : dev => d_kind y = KBatcher); [exact KB|Jt].
Qed.

Lemma tsafe_untracked f : (forall y, d_kind (f y) = d_kind y) -> tsafe st (fun y => tracked (d_kind y) = false) f.
Proof.
  intros K x G. split; [apply K|]. split; [intro T; rewrite G in T; discriminate|].
  intros _ _ T. rewrite K, G in T. discriminate.
Qed.

(** * taking a part in *)
(** untracked kinds (buffer, batcher, source): step by step *)
Lemma RJ_accept_untracked fuel w d it : tracked (d_kind (getd w d)) = false -> RJ w (accept fuel nw w d it).
Proof.
  intro TK. unfold accept. set (k := d_kind (getd w d)) in *. set (it1 := item_add_hist d it).
  set (w2 := accept_first nw k w d it1).
  assert (K2 : d_kind (getd w2 d) = k) by (apply accept_first_kind; reflexivity).
  assert (R2 : RJ w w2).
  { unfold w2, accept_first. destruct k eqn:K; try discriminate.
    all: try (apply (RJ_dev w d (fun y => tracked (d_kind y) = false)); [|fold k; rewrite K; reflexivity];
              apply tsafe_untracked; intro y; unfold t_accept, dev_set_wait; reflexivity).
    apply (RJ_trans w (updd w d (t_accept_buffer nw it1))); [|apply RJ_data].
    apply (RJ_dev w d (fun y => tracked (d_kind y) = false)); [|fold k; rewrite K; reflexivity].
    apply tsafe_untracked. intro y. unfold t_accept_buffer, t_accept, dev_set_wait. reflexivity. }
  eapply RJ_trans; [exact R2|]. unfold accept_rest.
  set (w3 := rec_part w2 L_RECEIVED d nw it1). apply (RJ_trans w2 w3); [apply RJ_data|].
  set (w4 := run_cbops nw d true false (-1) (d_on_receive (getd w3 d)) w3).
  apply (RJ_trans w3 w4); [apply RJ_run_cbops|].
  assert (K4 : d_kind (getd w4 d) = k).
  { unfold w4. rewrite (proj1 (run_cbops_keep nw d false (-1) _ d w3)). exact K2. }
  destruct (negb (okf w4)); [Jt|]. set (x := getd w4 d) in *. destruct (d_out x); [Jt|].
  destruct k eqn:K; try discriminate; cbv zeta;
    try (destruct (operational x && match d_part x with Some _ => true | None => false end); [apply RJ_sched_finish_untracked; fold x; rewrite K4; reflexivity|Jt]).
  - destruct (d_part x) as [itb|] eqn:PB; [|Jt].
    jdev w4 d (t_buf_store nw itb) (fun y : dev => d_kind y = KBuffer); [exact K4|].
    eapply RJ_trans; [apply RJ_signal|].
    match goal with |- context[if ?c then _ else _] => destruct c end; [apply RJ_sched_pass|Jt].
  - apply RJ_batcher_try_move. exact K4.
Qed.

Lemma getd_updd_same w d f : getd (updd w d f) d = if amem d (f_devs w) then f (getd w d) else getd w d.
Proof. rewrite getd_updd, Z.eqb_refl. reflexivity. Qed.

Lemma tracked_amem w d : tracked (d_kind (getd w d)) = true -> amem d (f_devs w) = true.
Proof. intro T. apply not_blank_amem. intro E. rewrite E in T. discriminate. Qed.

(** tracked kinds: one local block, ending in the timer (or, for a zero cycle, in the finished part) *)
Lemma RJ_accept_tracked fuel w d it :
  tracked (d_kind (getd w d)) = true -> d_part (getd w d) = None -> d_out (getd w d) = None -> operational (getd w d) = true ->
  RJ w (accept fuel nw w d it).
Proof.
  intros TK P0 O0 OP0. pose proof (tracked_amem w d TK) as AM.
  unfold accept. set (k := d_kind (getd w d)) in *. set (it1 := item_add_hist d it).
  set (w2 := accept_first nw k w d it1).
  (* the fields of d after the part was taken in *)
  assert (F2 : d_kind (getd w2 d) = k /\ d_out (getd w2 d) = None /\ d_shut (getd w2 d) = d_shut (getd w d) /\ busy (getd w2 d) = true /\
               d_wait_since (getd w2 d) = None /\ LOC d 0 w w2).
  { unfold w2, accept_first. destruct k eqn:K; try discriminate.
    - rewrite getd_updd_same, AM. unfold t_accept, dev_set_wait, busy. cbn. fold k. repeat split; auto. apply LOC_dev. reflexivity.
    - rewrite getd_updd_same, AM. unfold t_accept_proc, t_accept, dev_set_wait, busy. cbn. fold k. repeat split; auto. apply LOC_dev. reflexivity.
    - rewrite getd_updd_same, AM. unfold t_accept_sink, t_accept, dev_set_wait, dev_add_value, busy. cbv zeta.
      destruct (item_value it1 =? 0); cbn; fold k; (repeat split; auto; apply LOC_dev; intro y; destruct (item_value it1 =? 0); reflexivity). }
  destruct F2 as [K2 [O2 [S2 [B2 [W2 L2]]]]].
  unfold accept_rest.
  set (w3 := rec_part w2 L_RECEIVED d nw it1).
  set (w4 := run_cbops nw d true false (-1) (d_on_receive (getd w3 d)) w3).
  destruct (run_cbops_keep nw d false (-1) (d_on_receive (getd w3 d)) d w3) as [K4 [O4 [S4 B4]]]. fold w4 in K4, O4, S4, B4.
  change (getd w3 d) with (getd w2 d) in K4, O4, S4, B4. rewrite K2 in K4. rewrite O2 in O4. rewrite S2 in S4. rewrite B2 in B4.
  assert (W4 : d_wait_since (getd w4 d) = None).
  { unfold w4. rewrite run_cbops_wait. change (getd w3 d) with (getd w2 d). exact W2. }
  assert (L4 : LOC d 0 w w4).
  { eapply LOC_trans0; [exact L2|]. eapply LOC_trans0; [apply LOC_data|apply LOC_run_cbops]. }
  destruct (okf w4) eqn:OK4; cbn [negb]; [|apply RJ_one, tj_dead; exact OK4].
  set (x := getd w4 d) in *. rewrite O4.
  assert (OP4 : operational x = true).
  { unfold operational in *. rewrite K4. fold k in OP0. destruct k; auto. rewrite S4. exact OP0. }
  assert (PX : exists it', d_part x = Some it') by (unfold busy in B4; destruct (d_part x) as [i|]; [exists i; reflexivity|discriminate]).
  destruct PX as [it' PX].
  assert (G : RJ w (sched_finish fuel nw w4 d)).
  { unfold sched_finish. set (w5 := updd w4 d t_reset_offset).
    assert (L5 : LOC d 0 w w5) by (eapply LOC_trans0; [exact L4|apply LOC_dev; reflexivity]).
    assert (AM4 : amem d (f_devs w4) = true) by (apply tracked_amem; fold x; rewrite K4; exact TK).
    assert (X5 : getd w5 d = t_reset_offset x) by (unfold w5; rewrite getd_updd_same, AM4; reflexivity).
    match goal with |- context[if ?c then _ else _] => destruct c end.
    - (* zero cycle: the part goes straight to the output slot *)
      assert (E5 : d_kind (getd w5 d) = k /\ operational (getd w5 d) = true /\ d_part (getd w5 d) = Some it' /\ d_out (getd w5 d) = None).
      { rewrite X5. change (d_kind (t_reset_offset x)) with (d_kind x). change (operational (t_reset_offset x)) with (operational x).
        change (d_part (t_reset_offset x)) with (d_part x). change (d_out (t_reset_offset x)) with (d_out x). auto. }
      destruct E5 as [K5 [OP5 [P5 O5]]].
      set (wm := updd w5 d (tfin (d_kind (getd w5 d)) it')).
      apply (RJ_trans w wm).
      + apply RJ_one, (tj_block st nw w wm d 0).
        * replace 0%nat with (0 + 0)%nat by reflexivity. eapply LOC_trans; [exact L5|]. apply LOC_dev.
          intro y. unfold tfin. destruct (d_kind (getd w5 d)); reflexivity.
        * intros _. unfold wm. rewrite getd_updd_same. unfold w5 at 1. rewrite amem_updd, AM4. rewrite K5.
          assert (B0 : bexp (getd w d) = 0) by (unfold bexp, busy; rewrite P0; reflexivity). rewrite B0.
          unfold tfin. destruct k; try discriminate; reflexivity.
        * intros _ _ _ WS. exfalso. apply WS. unfold wm. rewrite getd_updd_same. unfold w5 at 1. rewrite amem_updd, AM4, X5.
          unfold tfin. fold x in W4. destruct (d_kind (t_reset_offset x)); cbn; exact W4.
      + apply RJ_finish_tail; [rewrite K5; exact TK|exact OP5|exact P5|exact O5].
    - (* the timer *)
      apply RJ_one, (tj_block st nw w _ d 1).
      + replace 1%nat with (0 + 1)%nat by reflexivity. eapply LOC_trans; [exact L5|]. apply LOC_one, lo_fin.
      + intros _. change (getd (emitf w5 ?c) d) with (getd w5 d). rewrite X5. unfold bexp, busy. cbn. fold x. rewrite PX, P0. reflexivity.
      + intros _ _ _ WS. exfalso. apply WS. change (getd (emitf w5 ?c) d) with (getd w5 d). rewrite X5. cbn. fold x in W4. exact W4. }
  destruct k eqn:K; try discriminate; cbv zeta; rewrite OP4, PX; cbn [andb]; exact G.
Qed.

Lemma RJ_proc_can_accept w d : RJ w (fst (proc_can_accept nw w d)).
Proof.
  unfold proc_can_accept. set (x := getd w d). destruct (negb (handler_can_accept x)); [Jt|].
  destruct (d_req x) as [rq|] eqn:RQ; [|Jt]. destruct (d_reserved x) eqn:RV; [Jt|].
  match goal with |- context[rm_call w ?f] => set (w1 := rm_call w f) end.
  assert (R1 : RJ w w1) by apply RJ_rm_call.
  match goal with |- context[match snd ?r with _ => _ end] => destruct (snd r) as [i|] end.
  - cbn [fst]. eapply RJ_trans; [exact R1|]. apply (RJ_dev w1 d (fun _ => True)); [kt|exact I].
  - destruct (negb (okf w1)); [exact R1|]. destruct (d_waiting_res x); [exact R1|]. cbn [fst].
    eapply RJ_trans; [exact R1|]. eapply RJ_trans; [apply RJ_rm_call|].
    match goal with |- RJ ?w0 _ => apply (RJ_dev w0 d (fun _ => True)); [kt|exact I] end.
Qed.

Lemma handler_can_accept_facts x : handler_can_accept x = true -> d_part x = None /\ d_out x = None /\ operational x = true.
Proof.
  unfold handler_can_accept. intro H. apply andb_true_iff in H. destruct H as [H O]. apply andb_true_iff in H. destruct H as [H P].
  apply andb_true_iff in H. destruct H as [OP _].
  destruct (d_part x); [discriminate|]. destruct (d_out x); [discriminate|]. auto.
Qed.

Lemma RJ_give fuel : forall w d it, RJ w (fst (give fuel nw w d it)).
Proof.
  induction fuel as [|f IH]; intros w d it; cbn [give]; [apply RJ_fail|].
  destruct (negb (okf w)); [Jt|]. set (x := getd w d).
  assert (TL : forall it0 l w0 b,
             RJ w0 (fst (fold_left (fun (acc : fw * bool) d' => if snd acc then acc else give f nw (fst acc) d' it0) l (w0, b)))).
  { intros it0 l. induction l as [|d' l IHl]; intros w0 b; cbn; [Jt|].
    destruct b; cbn [snd fst].
    - apply IHl.
    - pose proof (IH w0 d' it0) as X. destruct (give f nw w0 d' it0) as [w1 b1]. cbn [fst] in X.
      eapply RJ_trans; [exact X|apply IHl]. }
  assert (ACC : handler_can_accept x = true -> RJ w (accept f nw w d it)).
  { intro H. destruct (handler_can_accept_facts x H) as [P [O OP]].
    destruct (tracked (d_kind x)) eqn:TK; [apply RJ_accept_tracked; assumption|apply RJ_accept_untracked; exact TK]. }
  destruct (d_kind x) eqn:K.
  - destruct (negb (operational x && negb (d_block x))); [Jt|apply TL].
  - destruct (negb (decide (d_decider x) it)); [Jt|]. destruct (negb (operational x && negb (d_block x))); [Jt|apply TL].
  - destruct (handler_can_accept x) eqn:H; [|Jt]. cbn [fst]. apply ACC. reflexivity.
  - pose proof (RJ_proc_can_accept w d) as R1. destruct (proc_can_accept nw w d) as [w1 ok] eqn:PC. cbn [fst] in R1.
    destruct ok; [|exact R1]. cbn [fst]. eapply RJ_trans; [exact R1|].
    destruct (proc_can_accept_ok nw w d w1 PC) as [HC [P [O [KK [SS _]]]]].
    destruct (handler_can_accept_facts _ HC) as [_ [_ OP]].
    apply RJ_accept_tracked; [rewrite KK; fold x; rewrite K; reflexivity|exact P|exact O|].
    unfold operational in *. rewrite KK, SS. exact OP.
  - destruct (inf_leb (d_level x + item_count it) (d_capacity x) && handler_can_accept x) eqn:H; [|Jt]. cbn [fst].
    apply RJ_accept_untracked. fold x. rewrite K. reflexivity.
  - destruct (handler_can_accept x) eqn:H; [|Jt]. cbn [fst]. apply ACC. reflexivity.
  - destruct (handler_can_accept x) eqn:H; [|Jt]. cbn [fst]. apply ACC. reflexivity.
  - destruct (handler_can_accept x) eqn:H; [|Jt]. cbn [fst]. apply ACC. reflexivity.
  - destruct (d_block x); [Jt|]. destruct (aget (d_group x) (f_groups w)); [apply IH|Jt].
  - destruct (negb (operational x && negb (d_block x))); [Jt|apply TL].
  - destruct (rev (item_gpath it)) as [|gp rest]; [apply RJ_fail|apply TL].
Qed.

Lemma RJ_try_downstream fuel w d it : RJ w (fst (try_downstream fuel nw w d it)).
Proof.
  unfold try_downstream. generalize (sorted_down fuel w d). intro l. generalize false. revert w.
  induction l as [|d' l IHl]; intros w0 b; cbn; [Jt|].
  destruct b; cbn [snd fst].
  - apply IHl.
  - pose proof (RJ_give fuel w0 d' it) as X. destruct (give fuel nw w0 d' it) as [w1 b1]. cbn [fst] in X.
    eapply RJ_trans; [exact X|apply IHl].
Qed.

Lemma RJ_handler_pass fuel w d : RJ w (fst (handler_pass fuel nw w d)).
Proof.
  unfold handler_pass. set (x := getd w d). destruct (d_out x) as [it|]; [|Jt]. destruct (negb (operational x)); [Jt|].
  pose proof (RJ_try_downstream fuel w d it) as X. destruct (try_downstream fuel nw w d it) as [w1 ok]. cbn [fst] in X.
  destruct ok; cbn [fst]; (eapply RJ_trans; [exact X|]).
  - jdev w1 d t_clear_out (fun _ : dev => True); [exact I|apply RJ_signal].
  - apply (RJ_dev w1 d (fun _ => True)); [kt|exact I].
Qed.

Lemma RJ_release_reserved w d : RJ w (release_reserved nw w d).
Proof.
  unfold release_reserved. destruct (d_reserved (getd w d)) eqn:RV; [|Jt].
  eapply RJ_trans; [apply RJ_rm_call|]. match goal with |- RJ ?w0 _ => apply (RJ_dev w0 d (fun _ => True)); [kt|exact I] end.
Qed.
Lemma LOC_release_reserved w d : LOC d 0 w (release_reserved nw w d).
Proof.
  unfold release_reserved. destruct (d_reserved (getd w d)) eqn:RV; [|constructor].
  eapply LOC_trans0; [apply LOC_rm_call|apply LOC_dev; reflexivity].
Qed.

Lemma RJ_release_if_idle w d : RJ w (release_if_idle nw w d).
Proof. unfold release_if_idle. destruct (_ || _); [apply RJ_release_reserved|Jt]. Qed.

(** shutdown for maintenance *)
Lemma RJ_shutdown_maint lost w d : RJ w (shutdown nw false lost w d).
Proof.
  unfold shutdown. set (x := getd w d). destruct (is_processor x); cbn [negb]; [|Jt].
  destruct (d_shut x); [Jt|].
  jdev w d (t_shutdown nw) (fun _ : dev => True); [exact I|]. eapply RJ_trans; [apply RJ_pause|apply RJ_run_cbops].
Qed.

(** a failure: the part is lost, the reservation released, the device shut down, its events cancelled — one block *)
Lemma RJ_fail_proc w d : RJ w (fail nw w d).
Proof.
  unfold fail. set (x := getd w d). destruct (is_processor x) eqn:IP; cbn [negb]; [|Jt].
  pose proof (is_processor_kind x IP) as K.
  assert (AM : amem d (f_devs w) = true) by (apply tracked_amem; fold x; rewrite K; reflexivity).
  set (lost := match d_part x with Some it => item_id it | None => -1 end).
  set (w1 := updd w d (t_fail_clear nw)). set (w2 := release_reserved nw w1 d). set (w3 := data w2 L_FAILURE d [nw; lost]).
  assert (L3 : LOC d 0 w w3).
  { apply (LOC_trans0 d 0 w w1 w3); [apply LOC_dev; reflexivity|]. apply (LOC_trans0 d 0 w1 w2 w3); [apply LOC_release_reserved|apply LOC_data]. }
  (* the fields of d that [shutdown] reads *)
  assert (X1 : getd w1 d = t_fail_clear nw x) by (unfold w1; rewrite getd_updd_same, AM; reflexivity).
  assert (AM1 : amem d (f_devs w1) = true) by (unfold w1; rewrite amem_updd; exact AM).
  assert (WI1 : forall o, WaitInv x -> WaitInv (t_reserved o (t_fail_clear nw x))).
  { intros o H T W. unfold t_reserved, t_fail_clear, t_stop_use in *. cbn in *. destruct (H T W) as [_ OO]. auto. }
  assert (F3 : d_kind (getd w3 d) = KProcessor /\ d_shut (getd w3 d) = d_shut x /\ busy (getd w3 d) = false /\ amem d (f_devs w3) = true /\
               (WaitInv x -> WaitInv (getd w3 d))).
  { change (getd w3 d) with (getd w2 d). change (f_devs w3) with (f_devs w2). unfold w2, release_reserved.
    destruct (d_reserved (getd w1 d)) as [i|] eqn:RV.
    - set (wr := rm_call w1 (release_obj nw i None)).
      assert (AMr : amem d (f_devs wr) = true) by (unfold wr; rewrite (proj1 (rm_call_devs w1 _)); exact AM1).
      rewrite getd_updd_same, amem_updd, AMr.
      rewrite (getd_other_fields w1 wr d (proj1 (rm_call_devs w1 _))). rewrite X1.
      split; [|split; [|split; [|split]]]; try (unfold t_reserved, t_fail_clear, t_stop_use, busy; cbn; auto; fail). apply WI1.
    - rewrite X1, AM1. split; [|split; [|split; [|split]]]; try (unfold t_fail_clear, t_stop_use, busy; cbn; auto; fail).
      intro H. replace (t_fail_clear nw x) with (t_reserved (d_reserved (t_fail_clear nw x)) (t_fail_clear nw x)); [apply WI1, H|].
      unfold t_reserved. cbn. destruct x; reflexivity. }
  destruct F3 as [K3 [S3 [B3 [AM3 WI3]]]].
  unfold shutdown. fold w1 w2 lost w3. set (x3 := getd w3 d) in *.
  assert (IP3 : is_processor x3 = true) by (unfold is_processor; rewrite K3; reflexivity).
  rewrite IP3. cbn [negb]. rewrite S3.
  destruct (d_shut x) eqn:S.
  - eapply RJ_trans; [|apply RJ_run_cbops]. apply RJ_one, (tj_cancel_block st nw w w3 d); [exact L3|intros _; exact B3|intros _; exact WI3].
  - eapply RJ_trans; [|apply RJ_run_cbops]. apply RJ_one, (tj_cancel_block st nw w (updd w3 d (t_shutdown nw)) d).
    + eapply LOC_trans0; [exact L3|apply LOC_dev]. intro y. unfold t_shutdown, dev_set_wait. reflexivity.
    + intros _. rewrite getd_updd_same, AM3. fold x3. unfold t_shutdown, dev_set_wait, busy in *. cbn. exact B3.
    + intros _ _ _ WS. exfalso. apply WS. rewrite getd_updd_same, AM3. reflexivity.
Qed.

Lemma RJ_restore fuel w d : RJ w (restore fuel nw w d).
Proof.
  unfold restore. set (x := getd w d). destruct (is_processor x); cbn [negb]; [|Jt].
  destruct (negb (d_shut x)); [Jt|].
  jdev w d (t_restore nw) (fun _ : dev => True); [exact I|]. eapply RJ_trans; [apply RJ_unpause|]. eapply RJ_trans; [|apply RJ_run_cbops].
  destruct (d_out x); [apply RJ_sched_pass|]. destruct (d_part x); [Jt|apply RJ_signal].
Qed.

Lemma RJ_buffer_loop n fuel : forall w d, d_kind (getd w d) = KBuffer -> RJ w (buffer_loop n fuel nw w d).
Proof.
  induction n as [|n IH]; intros w d KB; cbn [buffer_loop]; [Jt|].
  set (x := getd w d) in *. destruct (d_buf x) as [|[t0 it] rest] eqn:B; [Jt|].
  destruct (0 <? d_min_delay x - (nw - t0)); [Jt|].
  pose proof (RJ_try_downstream fuel w d it) as X.
  pose proof (R_try_downstream nw MFull fuel w d it (full_not_neutral MFull eq_refl)) as XR.
  destruct (try_downstream fuel nw w d it) as [w1 ok] eqn:TD. cbn [fst] in X, XR.
  destruct ok; [|exact X]. eapply RJ_trans; [exact X|].
  assert (K1 : d_kind (getd w1 d) = KBuffer) by (rewrite (R_kind nw MFull w w1 XR d); exact KB).
  jdev w1 d (t_buf_pop nw) (fun y : dev => d_kind y = KBuffer); [exact K1|]. eapply RJ_trans; [apply RJ_data|]. apply IH.
  match goal with |- d_kind (getd ?ww d) = _ => rewrite (getd_other_fields (updd w1 d (t_buf_pop nw)) ww d eq_refl) end.
  rewrite (getd_updd_field d_kind w1 d (t_buf_pop nw) d); [exact K1|].
  intro y. unfold t_buf_pop. destruct (d_buf y) as [|[? ?] ?]; [reflexivity|]. destruct (0 <? _); reflexivity.
Qed.

Lemma RJ_pass_part fuel w d : RJ w (pass_part fuel nw w d).
Proof.
  unfold pass_part. set (x := getd w d). destruct (d_kind x) eqn:K; try (apply RJ_handler_pass).
  - cbv zeta. set (w1' := buffer_loop (S (length (d_buf x))) fuel nw w d).
    apply (RJ_trans w w1'); [apply RJ_buffer_loop; exact K|].
    eapply RJ_trans; [|apply RJ_signal].
    destruct (d_buf (getd w1' d)) as [|[t0 it] rest]; [Jt|].
    match goal with |- context[if ?c then _ else _] => destruct c end; [apply RJ_sched_pass|].
    apply (RJ_dev w1' d (fun _ => True)); [kt|exact I].
  - destruct (d_out x) as [it|]; [|Jt].
    match goal with |- context[if negb ?c then _ else _] => destruct (negb c) end; [Jt|].
    pose proof (RJ_handler_pass fuel w d) as X. pose proof (R_handler_pass nw MFull fuel w d eq_refl) as XR.
    destruct (handler_pass fuel nw w d) as [w1 ok]. cbn [fst] in X, XR.
    destruct ok; [|exact X]. eapply RJ_trans; [exact X|].
    jdev w1 d (t_supplied nw (item_value it)) (fun _ : dev => True); [exact I|].
    eapply RJ_trans; [apply RJ_data|]. apply RJ_sched_finish_untracked.
    match goal with |- tracked (d_kind (getd ?ww d)) = false => change (getd ww d) with (getd (updd w1 d (t_supplied nw (item_value it))) d) end.
    rewrite (getd_updd_field d_kind w1 d _ d); [rewrite (R_kind nw MFull w w1 XR d); fold x; rewrite K; reflexivity|].
    intro y. unfold t_supplied, dev_add_value. destruct (_ =? 0); reflexivity.
  - pose proof (RJ_handler_pass fuel w d) as X. pose proof (R_handler_pass nw MFull fuel w d eq_refl) as XR.
    destruct (handler_pass fuel nw w d) as [w1 ok]. cbn [fst] in X, XR.
    eapply RJ_trans; [exact X|]. destruct (d_out (getd w1 d)); [Jt|]. apply RJ_batcher_try_move.
    rewrite (R_kind nw MFull w w1 XR d). exact K.
Qed.

Lemma RJ_res_check n fuel : forall i w, RJ w (res_check n fuel nw i w).
Proof.
  induction n as [|n IH]; intros i w; cbn [res_check]; [apply RJ_fail|].
  destruct (nth_error (r_wait (f_rm w)) i) as [[r cb id]|]; [|Jt].
  destruct (can_fulfill (r_pools (f_rm w)) r); [|apply IH].
  match goal with |- context[signal fuel nw true (updd ?w1 ?dd _) _] => set (w1' := w1); set (d := dd) end.
  apply (RJ_trans w w1'); [apply RJ_same; reflexivity|].
  jdev w1' d (t_waiting_res false) (fun _ : dev => True); [exact I|].
  eapply RJ_trans; [apply RJ_signal|].
  match goal with |- context[if negb (okf ?w2) then _ else _] => destruct (negb (okf w2)) end; [Jt|].
  eapply RJ_trans; [|apply IH]. apply RJ_same; reflexivity.
Qed.

Lemma RJ_maint_start mid wo w : RJ w (maint_start nw mid wo w).
Proof.
  unfold maint_start. eapply RJ_trans; [apply RJ_maint_call|]. eapply RJ_trans; [apply RJ_shutdown_maint|apply RJ_maint_call].
Qed.
Lemma RJ_maint_finish fuel mid wo w : RJ w (maint_finish fuel nw mid wo w).
Proof. unfold maint_finish. eapply RJ_trans; [apply RJ_restore|apply RJ_maint_call]. Qed.

Lemma RJ_rewire fuel w d ups : RJ w (rewire fuel nw w d ups).
Proof.
  unfold rewire. set (x := getd w d). destruct (existsb (bad_up d w) ups); [Jt|].
  match goal with |- RJ w (fold_left _ ups (updd (fold_left _ _ ?w0') d _)) => set (w0 := w0') end.
  assert (R0 : RJ w w0).
  { unfold w0. destruct (is_holder (d_kind x)); [|Jt]. destruct (d_wait_since x) eqn:WS; [|Jt].
    apply (RJ_dev w d (fun y => d_wait_since y <> None)); [kt|fold x; rewrite WS; discriminate]. }
  apply (RJ_trans w w0); [exact R0|].
  set (w1 := fold_left (fun w' u => updd w' u (t_down_del d)) (d_up x) w0).
  apply (RJ_trans w0 w1); [unfold w1; apply RJ_fold; intros w' u; apply (RJ_dev w' u (fun _ => True)); [kt|exact I]|].
  apply (RJ_trans w1 (updd w1 d (t_up ups))); [apply (RJ_dev w1 d (fun _ => True)); [kt|exact I]|].
  apply RJ_fold. intros w' u. destruct (existsb (Z.eqb d) (d_down (getd w' u))); [Jt|].
  apply (RJ_trans w' (updd w' u (t_down_add d))); [apply (RJ_dev w' u (fun _ => True)); [kt|exact I]|apply RJ_signal].
Qed.

Lemma RJ_run_uop fuel w o : RJ w (run_uop fuel nw w o).
Proof.
  unfold run_uop. destruct (negb (okf w)); [Jt|]. destruct o.
  - apply RJ_shutdown_maint.
  - apply RJ_restore.
  - Jt.
  - destruct (Bool.eqb _ _); [Jt|]. jdev w d (t_block b) (fun _ : dev => True); [exact I|]. destruct b; [Jt|apply RJ_signal].
  - destruct (d_budget (getd w d)) as [b|]; [|Jt].
    match goal with |- context[t_budget ?z] => jdev w d (t_budget z) (fun _ : dev => True); [exact I|] end.
    destruct (_ <? 1); [apply RJ_sched_pass|Jt].
  - apply (RJ_dev w d (fun _ => True)); [kt|exact I].
  - apply RJ_rewire.
  - apply RJ_rm_call.
  - apply RJ_create_wo.
Qed.

(** every action other than the end of a cycle of a tracked device *)
Theorem RJ_exec_fact fuel uops a w :
  (forall d, a = AFinishCycle d -> tracked (d_kind (getd w d)) = false) -> RJ w (exec_fact fuel uops a w nw).
Proof.
  intro NF. destruct a as [d|d|d|d| |m [wo|wo]|k]; cbn [exec_fact].
  - apply RJ_finish_cycle_untracked, NF. reflexivity.
  - apply RJ_pass_part.
  - apply RJ_fail_proc.
  - apply RJ_release_if_idle.
  - apply RJ_res_check.
  - apply RJ_maint_start.
  - apply RJ_maint_finish.
  - apply RJ_fold. intros. apply RJ_run_uop.
Qed.

(** System initialisation stamps every holder as waiting without looking at its slots: not a strict step *)
Lemma RJ_init_dev fuel w d : st = false -> RJ w (init_dev fuel nw w d).
Proof.
  intro NS. unfold init_dev. set (x := getd w d). destruct (is_holder (d_kind x)); [|Jt].
  set (w1 := updd w d (fun y => dev_set_wait nw true true y)).
  assert (K1 : d_kind (getd w1 d) = d_kind x).
  { unfold w1. apply getd_updd_field. intro y. unfold dev_set_wait. cbn. destruct (d_wait_since y); reflexivity. }
  assert (R1 : RJ w w1).
  { apply (RJ_dev w d (fun _ => True)); [|exact I]. intros y _. unfold dev_set_wait, busy. cbn.
    destruct (d_wait_since y); cbn; (split; [reflexivity|split; [intros _; reflexivity|rewrite NS; discriminate]]). }
  destruct (d_kind x) eqn:K; try exact R1.
  - eapply RJ_trans; [exact R1|]. apply (RJ_dev w1 d (fun _ => True)); [|exact I]. intros y _. split; [reflexivity|split; [intros _; reflexivity|]].
    intros _ H. exact H.
  - eapply RJ_trans; [exact R1|]. apply RJ_sched_finish_untracked. rewrite K1. reflexivity.
Qed.

Lemma RJ_init_world fuel w : st = false -> RJ w (init_world fuel nw w).
Proof.
  intro NS. unfold init_world. eapply RJ_trans; [apply RJ_rm_call|]. apply RJ_fold. intros. apply RJ_init_dev, NS.
Qed.

(** a device constructed between two events: it is empty when its registration initialises it, so this initialisation is a strict step *)
Lemma RJ_init_dev_empty fuel w d :
  d_kind (getd w d) <> KSource -> d_part (getd w d) = None -> d_out (getd w d) = None -> RJ w (init_dev fuel nw w d).
Proof.
  intros NSRC P O. unfold init_dev. set (x := getd w d) in *. destruct (is_holder (d_kind x)); [|Jt].
  set (w1 := updd w d (fun y => dev_set_wait nw true true y)).
  assert (R1 : RJ w w1).
  { apply (RJ_dev w d (fun y => d_part y = None /\ d_out y = None)); [|split; assumption]. intros y [PY OY]. unfold dev_set_wait, busy. cbn.
    destruct (d_wait_since y); cbn; (split; [reflexivity|split; [intros _; reflexivity|intros _ _ _ _; cbn; auto]]). }
  destruct (d_kind x) eqn:K; try exact R1; [|congruence].
  eapply RJ_trans; [exact R1|]. apply (RJ_dev w1 d (fun _ => True)); [|exact I]. intros y _. split; [reflexivity|split; [intros _; reflexivity|]].
  intros _ H. exact H.
Qed.

Lemma RJ_late_create fuel w d ups : RJ w (late_create fuel nw w d ups).
Proof.
  unfold late_create. set (x := getd w d).
  match goal with |- RJ _ (if ?c then _ else _) => destruct c eqn:GD end; [Jt|].
  apply orb_false_iff in GD. destruct GD as [GD _]. apply orb_false_iff in GD. destruct GD as [GD AM].
  apply orb_false_iff in GD. destruct GD as [GD LK]. apply orb_false_iff in GD. destruct GD as [_ PR].
  apply negb_false_iff in PR. apply negb_false_iff in AM. apply negb_false_iff in LK.
  assert (PF : d_part x = None /\ d_out x = None).
  { unfold pristine in PR. repeat (apply andb_true_iff in PR; destruct PR as [PR ?]).
    destruct (d_part x); [discriminate|]. destruct (d_out x); [discriminate|]. auto. }
  set (w0 := w <| f_next_id := f_next_id w + 1 |>).
  apply (RJ_trans w w0); [apply RJ_same; reflexivity|].
  set (w1 := updd w0 d t_live).
  apply (RJ_trans w0 w1); [apply (RJ_dev w0 d (fun _ => True)); [|exact I]|].
  { intros y _. split; [reflexivity|split; [intros _; reflexivity|intros _ H; exact H]]. }
  assert (X1 : getd w1 d = t_live x) by (unfold w1; rewrite getd_updd_same; change (amem d (f_devs w0)) with (amem d (f_devs w)); rewrite AM; reflexivity).
  eapply RJ_trans; [apply RJ_init_dev_empty|apply RJ_rewire].
  - rewrite X1. cbn. intro E. rewrite E in LK. discriminate.
  - rewrite X1. cbn. apply PF.
  - rewrite X1. cbn. apply PF.
Qed.

End Timer.
