(** C11: the resource manager's pools and the processors' reservations agree, in every state the
    floor can reach: a world-level invariant preserved by every world step (Proofs/FloorSteps.v). *)
From Coq Require Import ZArith List Bool Lia.
From RecordUpdate Require Import RecordUpdate.
From SimVerif Require Import Model.Base Model.Env Model.FamEnv Model.RM Model.Maint Model.FloorTypes Model.Floor Model.FamFloor.
From SimVerif Require Import Proofs.RMInv Proofs.FloorSteps Proofs.FloorInv.
Import ListNotations.
Open Scope Z_scope.

(** what a device holds of pool [m]: its declared requirement while it holds a reservation object *)
Definition dev_hold (x : dev) (m : Z) : Z :=
  match d_reserved x, d_req x with Some _, Some rq => sumreq rq m | _, _ => 0 end.
Fixpoint hold_sum (l : list (Z * dev)) (m : Z) : Z := match l with [] => 0 | e :: l' => dev_hold (snd e) m + hold_sum l' m end.
Definition hold_total (w : fw) (m : Z) : Z := hold_sum (f_devs w) m.

Record HoldW (w : fw) : Prop := {
  hw_rinv : RInv (f_rm w);
  hw_keys : NoDup (map fst (f_devs w));
  (** a device that holds a reservation object holds exactly the positive entries of its declaration *)
  hw_obj : forall d x i, aget d (f_devs w) = Some x -> d_reserved x = Some i ->
             (i < length (r_res (f_rm w)))%nat /\
             exists rq, d_req x = Some rq /\ nonneg rq /\ nth i (r_res (f_rm w)) [] = positive_part rq;
  (** no reservation object is shared *)
  hw_inj : forall d d' x x' i, aget d (f_devs w) = Some x -> aget d' (f_devs w) = Some x' ->
             d_reserved x = Some i -> d_reserved x' = Some i -> d = d';
  (** every pool's usage is the sum of what the holding devices declared *)
  hw_usage : forall m, usage (r_pools (f_rm w)) m = hold_total w m }.

(** * sums over the device list *)
Lemma hold_sum_arepl d v l m :
  hold_sum (arepl d v l) m = hold_sum l m - (match aget d l with Some old => dev_hold old m | None => 0 end)
                             + (match aget d l with Some _ => dev_hold v m | None => 0 end).
Proof.
  induction l as [|[k y] l IH]; cbn [arepl aget hold_sum snd]; [lia|].
  destruct (Z.eqb_spec d k) as [->|N]; cbn [hold_sum snd]; [lia|]. rewrite IH. lia.
Qed.

Lemma hold_sum_map (g : dev -> dev) l m :
  (forall x, dev_hold (g x) m = dev_hold x m) -> hold_sum (map (fun e => (fst e, g (snd e))) l) m = hold_sum l m.
Proof. intro H. induction l as [|[k y] l IH]; cbn [map hold_sum snd fst]; [reflexivity|]. rewrite H, IH. reflexivity. Qed.

Lemma keys_arepl {V} d (v : V) l : map fst (arepl d v l) = map fst l.
Proof. induction l as [|[k y] l IH]; cbn; [reflexivity|]. destruct (d =? k); cbn; [reflexivity|]. rewrite IH. reflexivity. Qed.

Lemma aget_map {V} (g : V -> V) d (l : list (Z * V)) :
  aget d (map (fun e => (fst e, g (snd e))) l) = option_map g (aget d l).
Proof. induction l as [|[k y] l IH]; cbn; [reflexivity|]. destruct (d =? k); [reflexivity|exact IH]. Qed.

(** * the manager seen through a floor call *)
Lemma rm_call_rm w f : f_rm (rm_call w f) = clean_rs (f (clean_rs (f_rm w))).
Proof. unfold rm_call. cbv zeta. destruct (_ =? 0); [reflexivity|]. unfold failf. destruct (_ =? 0); reflexivity. Qed.

Lemma same_core_clean s : same_core s (clean_rs s).
Proof. repeat split. Qed.
Lemma RInv_clean s : RInv s -> RInv (clean_rs s).
Proof. apply same_core_RInv, same_core_clean. Qed.
Lemma RInv_unclean s : RInv (clean_rs s) -> RInv s.
Proof. apply same_core_RInv. repeat split. Qed.

(** an invariant that only reads pools, reservation objects and device holdings *)
Lemma HoldW_same w w' :
  f_devs w' = f_devs w -> r_pools (f_rm w') = r_pools (f_rm w) -> r_res (f_rm w') = r_res (f_rm w) ->
  RInv (f_rm w') -> HoldW w -> HoldW w'.
Proof.
  intros D P Rr I [H1 H2 H3 H4 H5]. split.
  - exact I.
  - rewrite D. exact H2.
  - intros d x i Hx Hr. rewrite D in Hx. rewrite Rr. eapply H3; eauto.
  - intros d d' x x' i. rewrite D. apply H4.
  - intro m. unfold hold_total. rewrite P, D. apply H5.
Qed.

(** releasing everything a valid reservation object holds cannot fail *)
Lemma release_all_ok nw i s :
  RInv s -> r_err s = 0 -> r_err (release_obj nw i None s) = 0.
Proof.
  intros I E. unfold release_obj. destruct (RInv_nth s i I) as [_ IP].
  destruct (release_resources_spec nw (nth i (r_res s) []) s E (in_pools_known _ _ IP)) as [H1 _].
  rewrite H1. cbn [Z.eqb negb]. cbn. exact H1.
Qed.

Definition keeps_hold (f : dev -> dev) : Prop := forall x, d_reserved (f x) = d_reserved x /\ d_req (f x) = d_req x.
Lemma keeps_res_hold f : keeps_res f -> keeps_hold f.
Proof. intros K x. destruct (K x) as [A [B _]]. auto. Qed.

Lemma dev_hold_keeps f x m : keeps_hold f -> dev_hold (f x) m = dev_hold x m.
Proof. intro K. unfold dev_hold. destruct (K x) as [-> ->]. reflexivity. Qed.

Lemma getd_aget w d x : aget d (f_devs w) = Some x -> getd w d = x.
Proof. unfold getd. intros ->. reflexivity. Qed.

Lemma amem_aget {V} d (l : list (Z * V)) : amem d l = true -> exists x, aget d l = Some x.
Proof. unfold amem. destruct (aget d l); [eauto|discriminate]. Qed.

(** any device update that leaves the reservation fields alone preserves the invariant *)
Lemma HoldW_updd w d f : keeps_hold f -> HoldW w -> HoldW (updd w d f).
Proof.
  intros KR HW. pose proof HW as [H1 H2 H3 H4 H5]. split.
    + exact H1.
    + unfold updd, setd. cbn. rewrite keys_arepl. exact H2.
    + intros d0 x i Hx Hr. unfold updd, setd in Hx. cbn in Hx. apply aget_arepl_some in Hx.
      destruct Hx as [[-> [-> M]]|Hx]; [|apply (H3 d0 x i Hx Hr)].
      destruct (amem_aget _ _ M) as [y Hy]. rewrite (getd_aget w d y Hy) in *. destruct (KR y) as [K1 K2]. rewrite K1 in Hr. rewrite K2.
      apply (H3 d y i Hy Hr).
    + intros d1 d2 x1 x2 i Hx1 Hx2 Hr1 Hr2. unfold updd, setd in Hx1, Hx2. cbn in Hx1, Hx2.
      apply aget_arepl_some in Hx1, Hx2.
      assert (A : forall dd xx, (dd = d /\ xx = f (getd w d) /\ amem d (f_devs w) = true) \/ aget dd (f_devs w) = Some xx ->
                  d_reserved xx = Some i -> exists yy, aget dd (f_devs w) = Some yy /\ d_reserved yy = Some i).
      { intros dd xx [[-> [-> M]]|Hxx] Hr; [|eauto]. destruct (amem_aget _ _ M) as [y Hy]. rewrite (getd_aget w d y Hy) in Hr.
        destruct (KR y) as [K1 _]. rewrite K1 in Hr. eauto. }
      destruct (A d1 x1 Hx1 Hr1) as [y1 [Y1 R1]]. destruct (A d2 x2 Hx2 Hr2) as [y2 [Y2 R2]]. eapply H4; eauto.
    + intro m. unfold hold_total, updd, setd. cbn. rewrite hold_sum_arepl.
      destruct (aget d (f_devs w)) as [y|] eqn:Hy; [|rewrite H5; unfold hold_total; lia].
      rewrite (getd_aget w d y Hy). rewrite dev_hold_keeps by exact KR. rewrite H5. unfold hold_total. lia.
Qed.

(** * every world step preserves the invariant *)
Theorem wstep_HoldW n nw w w' : wstep n nw w w' -> HoldW w -> HoldW w'.
Proof.
  intros S HW. pose proof HW as [H1 H2 H3 H4 H5]. destruct S.
  - apply HoldW_updd; [apply keeps_res_hold; assumption|assumption].
  - apply (HoldW_same w); auto.
  - apply (HoldW_same w); unfold failf; destruct (f_err w =? 0); auto.
  - apply (HoldW_same w); auto.
  - apply (HoldW_same w); auto.
  - (* a source generates its next part *)
    apply HoldW_updd; [intro y; split; reflexivity|].
    assert (GE : f_devs (fst (generate w d)) = f_devs w /\ f_rm (fst (generate w d)) = f_rm w) by (unfold generate; destruct (_ =? 0); split; reflexivity).
    destruct GE as [GD GR]. apply (HoldW_same w); auto; rewrite GR; auto.
  - apply (HoldW_same w); auto.
  - (* a quiet manager call *)
    rename H into Q. destruct (Q (RInv_clean _ H1)) as [I' [Rr U]].
    destruct (rm_call_devs w f) as [D _]. split.
    + rewrite rm_call_rm. apply RInv_clean, I'.
    + rewrite D. exact H2.
    + intros d x i Hx Hr. rewrite D in Hx. rewrite rm_call_rm. cbn. rewrite Rr. cbn. eapply H3; eauto.
    + intros d d' x x' i. rewrite D. apply H4.
    + intro m. unfold hold_total. rewrite D, rm_call_rm. cbn. rewrite U. cbn. apply H5.
  - (* direct edits of the waiting list / callback log *)
    apply (HoldW_same w); auto. cbn. destruct H1 as [U C F SL IJ]. split; cbn; rewrite ?H, ?H0, ?H6; assumption.
  - (* a successful reservation *)
    rename H into RQ, H0 into RV, H6 into M, H7 into SR.
    set (s := clean_rs (f_rm w)) in *. assert (Is : RInv s) by apply RInv_clean, H1.
    destruct (reserve_spec nw rq s Is eq_refl) as [I1 [Herr [_ Hsome]]].
    destruct (Z.eq_dec (r_err (fst (reserve nw rq s))) 0) as [E1|E1]; [|destruct (Herr E1) as [_ X]; congruence].
    destruct (Hsome E1 ltac:(congruence)) as [Hi [_ [NN [Rr [U _]]]]].
    rewrite SR in Hi. injection Hi as ->.
    set (w1 := rm_call w (fun _ => fst (reserve nw rq s))).
    assert (D1 : f_devs w1 = f_devs w) by apply rm_call_devs.
    assert (RM1 : f_rm w1 = clean_rs (fst (reserve nw rq s))) by (unfold w1; rewrite rm_call_rm; reflexivity).
    destruct (amem_aget _ _ M) as [y Hy]. pose proof (getd_aget w d y Hy) as Gy. rewrite Gy in RQ, RV.
    assert (Gy1 : getd w1 d = y) by (unfold getd; rewrite D1, Hy; reflexivity).
    assert (FR : forall f0, f_rm (updd w1 d f0) = f_rm w1) by reflexivity.
    split.
    + rewrite FR, RM1. apply RInv_clean, I1.
    + unfold updd, setd. cbn. rewrite keys_arepl, D1. exact H2.
    + intros d0 x i Hx Hr. unfold updd, setd in Hx. cbn in Hx. rewrite FR, RM1. cbn [clean_rs r_res]. rewrite Rr. apply aget_arepl_some in Hx.
      destruct Hx as [[-> [-> _]]|Hx].
      * rewrite Gy1 in *. cbn in Hr. injection Hr as <-. change (r_res s) with (r_res (f_rm w)). split; [rewrite app_length; cbn; lia|].
        exists rq. split; [exact RQ|]. split; [exact NN|]. rewrite app_nth2 by lia. rewrite Nat.sub_diag. reflexivity.
      * rewrite D1 in Hx. destruct (H3 d0 x i Hx Hr) as [L [rq0 [Q1 [Q2 Q3]]]]. change (r_res s) with (r_res (f_rm w)).
        split; [rewrite app_length; cbn; lia|]. exists rq0. split; [exact Q1|]. split; [exact Q2|]. rewrite app_nth1 by exact L. exact Q3.
    + intros d1 d2 x1 x2 i Hx1 Hx2 Hr1 Hr2. unfold updd, setd in Hx1, Hx2. cbn in Hx1, Hx2. apply aget_arepl_some in Hx1, Hx2. rewrite D1 in Hx1, Hx2.
      assert (OLD : forall dd xx, aget dd (f_devs w) = Some xx -> d_reserved xx = Some i -> (i < length (r_res (f_rm w)))%nat).
      { intros dd xx Hxx Hr. destruct (H3 dd xx i Hxx Hr) as [L _]. exact L. }
      destruct Hx1 as [[-> [-> _]]|Hx1]; destruct Hx2 as [[-> [-> _]]|Hx2]; auto.
      * rewrite Gy1 in Hr1. cbn in Hr1. injection Hr1 as <-. pose proof (OLD d2 x2 Hx2 Hr2). change (r_res s) with (r_res (f_rm w)) in *. lia.
      * rewrite Gy1 in Hr2. cbn in Hr2. injection Hr2 as <-. pose proof (OLD d1 x1 Hx1 Hr1). change (r_res s) with (r_res (f_rm w)) in *. lia.
      * eapply H4; eauto.
    + intro m. rewrite FR, RM1. cbn [clean_rs r_pools].
      rewrite U. unfold hold_total, updd, setd. cbn [f_devs]. cbn. rewrite hold_sum_arepl, D1, Hy, Gy1.
      change (usage (r_pools s) m) with (usage (r_pools (f_rm w)) m). rewrite H5. unfold hold_total.
      assert (A : dev_hold y m = 0) by (unfold dev_hold; rewrite RV; reflexivity).
      assert (B : dev_hold (t_reserved (Some (length (r_res (f_rm w)))) y) m = sumreq rq m) by (unfold dev_hold; cbn; rewrite RQ; reflexivity).
      rewrite A, B. rewrite sumreq_positive_part by exact NN. lia.
  - (* releasing the whole reservation *)
    rename H into RV, H0 into M.
    set (s := clean_rs (f_rm w)) in *. assert (Is : RInv s) by apply RInv_clean, H1.
    destruct (amem_aget _ _ M) as [y Hy]. pose proof (getd_aget w d y Hy) as Gy. rewrite Gy in RV.
    destruct (H3 d y i Hy RV) as [L [rq [RQ [NN OBJ]]]].
    assert (Ls : (i < length (r_res s))%nat) by exact L.
    destruct (release_obj_spec nw i None s Is eq_refl Ls ltac:(discriminate)) as [I1 [_ Hok]].
    specialize (Hok (release_all_ok nw i s Is eq_refl)). cbv zeta in Hok. destruct Hok as [U [Z0 [OTH [LEN _]]]].
    set (w1 := rm_call w (release_obj nw i None)).
    assert (D1 : f_devs w1 = f_devs w) by apply rm_call_devs.
    assert (RM1 : f_rm w1 = clean_rs (release_obj nw i None s)) by (unfold w1; rewrite rm_call_rm; reflexivity).
    assert (Gy1 : getd w1 d = y) by (unfold getd; rewrite D1, Hy; reflexivity).
    assert (FR : forall f0, f_rm (updd w1 d f0) = f_rm w1) by reflexivity.
    split.
    + rewrite FR, RM1. apply RInv_clean, I1.
    + unfold updd, setd. cbn. rewrite keys_arepl, D1. exact H2.
    + intros d0 x j Hx Hr. rewrite FR, RM1. cbn [clean_rs r_res].
      unfold updd, setd in Hx. cbn in Hx. rewrite aget_arepl, D1, M in Hx.
      destruct (Z.eqb_spec d0 d) as [->|ND]; cbn [andb] in Hx; [injection Hx as <-; rewrite Gy1 in Hr; discriminate|].
      destruct (H3 d0 x j Hx Hr) as [Lj [rq0 [Q1 [Q2 Q3]]]].
      assert (NE : j <> i).
      { intros ->. apply ND. eapply H4; eauto. }
      unfold req in *. split; [rewrite LEN; exact Lj|]. exists rq0. split; [exact Q1|]. split; [exact Q2|]. rewrite (OTH j NE). exact Q3.
    + intros d1 d2 x1 x2 j Hx1 Hx2 Hr1 Hr2. unfold updd, setd in Hx1, Hx2. cbn in Hx1, Hx2. apply aget_arepl_some in Hx1, Hx2. rewrite D1 in Hx1, Hx2.
      destruct Hx1 as [[-> [-> _]]|Hx1]; [rewrite Gy1 in Hr1; discriminate|].
      destruct Hx2 as [[-> [-> _]]|Hx2]; [rewrite Gy1 in Hr2; discriminate|]. eapply H4; eauto.
    + intro m. rewrite FR, RM1. cbn [clean_rs r_pools].
      rewrite U. unfold hold_total, updd, setd. cbn [f_devs]. cbn. rewrite hold_sum_arepl, D1, Hy, Gy1.
      change (usage (r_pools s) m) with (usage (r_pools (f_rm w)) m). rewrite H5. unfold hold_total.
      change (nth i (r_res s) []) with (nth i (r_res (f_rm w)) []). rewrite OBJ.
      assert (A : dev_hold y m = sumreq rq m) by (unfold dev_hold; rewrite RV, RQ; reflexivity).
      assert (B : dev_hold (t_reserved None y) m = 0) by reflexivity.
      rewrite A, B. rewrite sumreq_positive_part by exact NN. lia.
  - (* a rewrite of part attributes everywhere *)
    rename H into Hid. unfold upd_part_everywhere. split; cbn.
    + exact H1.
    + rewrite map_map. cbn. exact H2.
    + intros d x i Hx Hr. rewrite (aget_map (upd_part_in_dev pid f)) in Hx. destruct (aget d (f_devs w)) as [y|] eqn:Hy; [|discriminate].
      cbn in Hx. injection Hx as <-. cbn in Hr |- *. apply (H3 d y i Hy Hr).
    + intros d d' x x' i Hx Hx' Hr Hr'. rewrite (aget_map (upd_part_in_dev pid f)) in Hx, Hx'.
      destruct (aget d (f_devs w)) as [y|] eqn:Hy; [|discriminate]. destruct (aget d' (f_devs w)) as [y'|] eqn:Hy'; [|discriminate].
      cbn in Hx, Hx'. injection Hx as <-. injection Hx' as <-. cbn in Hr, Hr'. eapply H4; eauto.
    + intro m. unfold hold_total. cbn. rewrite (hold_sum_map (upd_part_in_dev pid f)) by reflexivity. apply H5.
Qed.

Theorem R_HoldW n nw w w' : R n nw w w' -> HoldW w -> HoldW w'.
Proof. induction 1 as [|w1 w2 w3 S _ IH]; intro H; [exact H|]. apply IH. eapply wstep_HoldW; eauto. Qed.

Corollary exec_HoldW nw fuel uops a w : HoldW w -> HoldW (exec_fact fuel uops a w nw).
Proof. apply (R_HoldW MFull nw), R_exec_fact. reflexivity. Qed.

Corollary uop_HoldW fuel nw w o : HoldW w -> HoldW (run_uop fuel nw w o).
Proof. apply (R_HoldW MNeutral nw), R_run_uop. Qed.

(** one executed event of the whole system (any tie-break weights) *)
Theorem step_HoldW sc ws s r :
  HoldW (fst s) -> step ws (exec_fl sc) fl_wfail s = Some r -> HoldW (fst (res_val r)).
Proof.
  destruct s as [w en]. cbn [fst]. intros I H. unfold step in H.
  destruct (queue en) as [|e q]; [discriminate|].
  destruct (e_cancelled e); [injection H as <-; exact I|].
  destruct (e_act e) as [a|]; [|injection H as <-; exact I].
  unfold exec_fl in H.
  set (w1 := exec_fact (fl_fuel w) (fun k => nth k (fq_uops sc) []) a w (e_time e)) in *.
  assert (I1 : HoldW w1) by (apply exec_HoldW; exact I).
  assert (I2 : HoldW (fst (flush_f w1))) by (apply (HoldW_same w1); auto; apply I1).
  destruct (flush_f w1) as [w2 cs] eqn:FL. cbn [fst] in I2.
  destruct (apply_cmds ws _ cs); [destruct (fl_wfail w2)|]; injection H as <-; cbn; exact I2.
Qed.

(** * the invariant holds before anything was reserved *)
Lemma hold_sum_none l m : (forall e, In e l -> d_reserved (snd e) = None) -> hold_sum l m = 0.
Proof.
  induction l as [|e l IH]; intro H; cbn [hold_sum]; [reflexivity|].
  rewrite IH by (intros e' He'; apply H; right; exact He'). unfold dev_hold. rewrite (H e) by (left; reflexivity). reflexivity.
Qed.

Lemma aget_In {V} d (x : V) l : aget d l = Some x -> In (d, x) l.
Proof.
  induction l as [|[k y] l IH]; cbn; [discriminate|]. destruct (Z.eqb_spec d k) as [->|N]; [intro H; injection H as ->; left; reflexivity|].
  intro H. right. apply IH, H.
Qed.

Theorem HoldW_initial w :
  RInv (f_rm w) -> (forall m, usage (r_pools (f_rm w)) m = 0) -> NoDup (map fst (f_devs w)) ->
  (forall e, In e (f_devs w) -> d_reserved (snd e) = None) -> HoldW w.
Proof.
  intros I U N Z0. split; auto.
  - intros d x i Hx Hr. apply aget_In in Hx. specialize (Z0 _ Hx). cbn in Z0. congruence.
  - intros d d' x x' i Hx _ Hr. apply aget_In in Hx. specialize (Z0 _ Hx). cbn in Z0. congruence.
  - intro m. unfold hold_total. rewrite hold_sum_none by exact Z0. apply U.
Qed.

(** * what the invariant says *)
(** a device that holds a reservation holds, of every pool, exactly the amount it declared *)
Theorem holding_exact w d x i m :
  HoldW w -> aget d (f_devs w) = Some x -> d_reserved x = Some i ->
  exists rq, d_req x = Some rq /\ sumreq (nth i (r_res (f_rm w)) []) m = sumreq rq m.
Proof.
  intros H Hx Hr. destruct (hw_obj w H d x i Hx Hr) as [_ [rq [Q1 [Q2 Q3]]]]. exists rq. split; [exact Q1|].
  rewrite Q3. apply sumreq_positive_part, Q2.
Qed.

(** capacity is never exceeded by the declared holdings unless capacity was explicitly reduced:
    at least, usage is the holdings and is never negative *)
Theorem holdings_nonneg w m : HoldW w -> 0 <= hold_total w m.
Proof. intro H. rewrite <- (hw_usage w H). apply RInv_usage_nonneg, H. Qed.

(** * when a processor acquires and gives back *)
(** user callbacks never touch a device's reservation *)
Lemma run_cbop_reserved nw d slot isf lost w o d' :
  d_reserved (getd (run_cbop nw d slot isf lost w o) d') = d_reserved (getd w d').
Proof.
  unfold run_cbop. destruct (negb (okf w)); [reflexivity|].
  destruct o; try reflexivity.
  - apply getd_updd_field. reflexivity.
  - apply getd_updd_field. reflexivity.
  - destruct (if slot then _ else _); [|reflexivity]. destruct (is_batch i); [unfold failf; destruct (_ =? 0); reflexivity|].
    apply getd_updd_field. intro y. unfold t_map_slot. destruct slot; reflexivity.
  - apply getd_updd_field. intro y. unfold t_map_slot. destruct slot; reflexivity.
  - destruct isf; reflexivity.
Qed.

Lemma run_cbops_reserved nw d slot isf lost ops : forall w d',
  d_reserved (getd (run_cbops nw d slot isf lost ops w) d') = d_reserved (getd w d').
Proof.
  unfold run_cbops. induction ops as [|o ops IH]; intros w d'; cbn; [reflexivity|]. rewrite IH. apply run_cbop_reserved.
Qed.

(** a maintenance shutdown (and any repeated or failing shutdown call) keeps the reservation *)
Theorem shutdown_keeps_reserved nw isf lost w d d' :
  d_reserved (getd (shutdown nw isf lost w d) d') = d_reserved (getd w d').
Proof.
  unfold shutdown. destruct (negb (is_processor (getd w d))); [reflexivity|].
  destruct (d_shut (getd w d)).
  - destruct isf; [|reflexivity]. rewrite run_cbops_reserved. reflexivity.
  - rewrite run_cbops_reserved. change (getd (emitf ?a ?c) d') with (getd a d').
    apply getd_updd_field. intro y. unfold t_shutdown, dev_set_wait. reflexivity.
Qed.

(** a failure gives the reservation back *)
Theorem fail_releases nw w d :
  d_kind (getd w d) = KProcessor -> d_reserved (getd (fail nw w d) d) = None.
Proof.
  intro K. unfold fail, is_processor. rewrite K. cbn [negb]. rewrite shutdown_keeps_reserved.
  change (getd (data ?a ?l ?s ?p) d) with (getd a d).
  assert (M : amem d (f_devs w) = true) by (apply not_blank_amem; intro E; rewrite E in K; discriminate).
  unfold release_reserved.
  destruct (d_reserved (getd (updd w d (t_fail_clear nw)) d)) eqn:RV; [|exact RV].
  rewrite getd_updd, Z.eqb_refl. rewrite (proj1 (rm_call_devs _ _)), amem_updd, M. reflexivity.
Qed.

(** the release-if-idle event releases exactly when the processor is idle (or not operational) *)
Theorem release_if_idle_spec nw w d :
  release_if_idle nw w d =
  if negb (operational (getd w d)) || (match d_part (getd w d) with None => true | Some _ => false end)
  then release_reserved nw w d else w.
Proof. reflexivity. Qed.

Theorem release_reserved_clears nw w d :
  amem d (f_devs w) = true -> d_reserved (getd (release_reserved nw w d) d) = None.
Proof.
  intro M. unfold release_reserved. destruct (d_reserved (getd w d)) eqn:RV; [|exact RV].
  rewrite getd_updd, Z.eqb_refl. rewrite (proj1 (rm_call_devs _ _)), M. reflexivity.
Qed.

(** acceptance by a processor with declared resources happens only while it holds its reservation:
    whenever a world step puts a part into an empty processor, the reservation is there *)
Theorem accept_needs_reservation nw g f :
  dprim nw g f -> forall x, g x -> d_kind x = KProcessor -> d_part x = None -> d_part (f x) <> None ->
  d_req x = None \/ d_reserved x <> None.
Proof.
  intros Pr x G K P NP. destruct Pr; cbn in *; try congruence;
    try (destruct G as [G1 G2]; congruence); try (exfalso; apply NP; exact P).
  all: try (unfold dev_set_wait in NP; repeat match goal with H : context[if ?b then _ else _] |- _ => destruct b end;
            repeat match goal with H : context[match ?o with _ => _ end] |- _ => destruct o end; cbn in NP; try congruence).
  all: try (decompose [and] G; congruence).
  all: try (decompose [and] G; assumption).
  exfalso. apply NP. unfold t_map_slot. destruct slot; cbn; [rewrite P; reflexivity|exact P].
Qed.
