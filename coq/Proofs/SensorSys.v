(** PeriodicSensor + event queue (C19): exactly one pending measurement event, due
    (count+1) intervals after the start; so the k-th measurement is taken exactly k intervals
    after the start (k-fold repeated addition of the interval). *)
From Coq Require Import ZArith List Bool Lia Sorting.Permutation.
From SimVerif Require Import Model.Base Model.Env Model.FamEnv Model.Sensor Model.FamSensor.
From SimVerif Require Import Proofs.ListAux Proofs.EnvInv Proofs.SensorInv.
Import ListNotations.
Open Scope Z_scope.

Definition sense_time (e : event nfact) : list Z :=
  match e_act e with Some ASense => [e_time e] | _ => [] end.

Section SensorSys.
  Variable sc : sn_scn.
  Variable ws : nat -> Z.
  Variable t0 : Z.

  Lemma apply_ncmds (l : list Z) : forall (en en' : env nfact),
    apply_cmds ws en (map (fun t => CSched t P_SENSOR periodic_asset ASense) l) = Ok en' ->
    (Forall (fun e => e_cancelled e = false) (queue en) -> Forall (fun e => e_cancelled e = false) (queue en')) /\
    Permutation (flat_map sense_time (queue en')) (flat_map sense_time (queue en) ++ l).
  Proof.
    induction l as [|t l IH]; intros en en' H; cbn in H.
    - injection H as <-. rewrite app_nil_r. auto.
    - unfold schedule in H. destruct (t <? now en); [discriminate|].
      match type of H with apply_cmds _ ?e1 _ = _ => set (en1 := e1) in * end.
      destruct (IH en1 en' H) as [HC H3]. split.
      { intro F. apply HC. cbn -[insort]. eapply Permutation_Forall; [symmetry; apply insort_perm|]. constructor; [reflexivity|exact F]. }
      rewrite H3. cbn -[insort].
      match goal with |- context[insort ?e (queue en)] => set (ev := e) end.
      assert (P : Permutation (flat_map sense_time (insort ev (queue en))) (sense_time ev ++ flat_map sense_time (queue en))).
      { change (sense_time ev ++ flat_map sense_time (queue en)) with (flat_map sense_time (ev :: queue en)).
        apply perm_flat_map. apply insort_perm. }
      rewrite P. cbn. apply Permutation_middle.
  Qed.

  (** the time at which measurement number k is due: k-fold addition of the interval *)
  Fixpoint due (k : nat) : Z := match k with O => t0 | S k' => due k' + nq_interval sc end.

  Record SysN (s : nw_ * env nfact) : Prop := {
    sn_out_empty : n_out (fst s) = [];
    sn_einv : Inv nfact (snd s);
    sn_nocancel : Forall (fun e => e_cancelled e = false) (queue (snd s));
    sn_pending : flat_map sense_time (queue (snd s)) = [due (S (sn_count (n_p (fst s))))] }.

  Theorem step_SysN s s' : SysN s -> step ws (exec_sn sc) (fun _ => false) s = Some (Ok s') -> SysN s'.
  Proof.
    destruct s as [w en]. intros [OUT IE NC PD] H. cbn [fst snd] in *.
    unfold step in H. destruct (queue en) as [|e q] eqn:Q; [discriminate|].
    pose proof (pop_inv nfact en e q IE Q) as IP. unfold popped in IP.
    set (en1 := mkEnv (e_time e) q (paused en) (next_eid en) (terminated en) (e :: dispatched en) (datalog en)) in *.
    inversion NC as [|? ? NCe NCq]; subst. rewrite NCe in H. cbn [flat_map] in PD.
    assert (UE : sense_time e = match e_act e with Some ASense => [e_time e] | _ => [] end) by reflexivity.
    rewrite UE in PD. clear UE.
    destruct (e_act e) as [[|i v]|] eqn:EA; cbn [exec_sn] in H.
    - (* the measurement event *)
      cbn in PD. injection PD as Et Eq.
      unfold nw_sense in H. destruct (periodic_sense (e_time e) (firstn (nq_nprobes sc) (n_vars w)) (n_p w)) as [p1 calls] eqn:PS.
      cbn [flush_n n_out n_vars n_p n_o n_cms n_calls] in H. rewrite OUT in H. cbn [rev app map] in H.
      match type of H with context[apply_cmds ws en1 ?cs] => destruct (apply_cmds ws en1 cs) as [en2|en2] eqn:AP; [|discriminate] end.
      injection H as <-.
      destruct (apply_ncmds [e_time e + nq_interval sc] en1 en2 AP) as [HC HP]. cbn [queue en1] in HP.
      assert (CNT : sn_count p1 = S (sn_count (n_p w))).
      { unfold periodic_sense in PS. injection PS as <- _. unfold sn_collect. cbn [sn_count]. f_equal. destruct (trim_time_fields (sn_add_time (e_time e) (n_p w))) as [_ [_ [_ X]]]. exact X. }
      split; cbn [fst snd n_out n_p]; auto.
      + pose proof (apply_cmds_inv nfact ws [CSched (e_time e + nq_interval sc) P_SENSOR periodic_asset ASense] en1 IP) as X.
        cbn [map] in AP. rewrite AP in X. exact X.
      + apply Permutation_length_1_inv. rewrite HP, Eq. cbn. rewrite CNT. cbn [due]. rewrite <- Et. cbn [due]. reflexivity.
    - (* a deferred change of a probed attribute *)
      cbn [flush_n nw_set n_out] in H. rewrite OUT in H. cbn in H. injection H as <-.
      split; cbn; auto.
    - injection H as <-. split; cbn; auto. apply set_terminated_inv, IP.
  Qed.

  (** the k-th measurement is k intervals after the start *)
  Theorem due_closed_form k : due k = t0 + Z.of_nat k * nq_interval sc.
  Proof. induction k as [|k IH]; [cbn; lia|]. cbn [due]. rewrite IH. lia. Qed.
End SensorSys.
