(** C14: running for a and then for b evolves like running once for a+b, when the tie-break choices are held fixed.

    Three ingredients.  (A) The evolution does not depend on how events are numbered: two environments that agree up to
    event numbers, driven by weight sources that agree on the numbers still to be handed out, stay in agreement.
    (B) The marker event of run() is transparent: as long as an ordinary event is due no later than the marker, a step of
    the environment with the marker is the step of the environment without it, with the marker put back.  (C) Hence a run
    is "advance the marker-free environment up to the horizon", and advancing to t+a and then to t+a+b is advancing to t+a+b. *)
From Coq Require Import ZArith List Bool Lia Sorting.Sorted Sorting.Permutation.
From SimVerif Require Import Model.Base Model.Env Proofs.Lex Proofs.EnvInv.
Import ListNotations.
Open Scope Z_scope.

Section Split.
  Variables (A W : Type).
  Variable exec : A -> W -> Z -> W * list (cmd A).
  Variable wfail : W -> bool.
  Notation event := (event A).
  Notation env := (env A).

  (** * (A) agreement up to event numbers *)
  Definition same_ev (e e' : event) : Prop :=
    e_time e' = e_time e /\ e_prio e' = e_prio e /\ e_w e' = e_w e /\ e_asset e' = e_asset e /\ e_act e' = e_act e /\
    e_paused_at e' = e_paused_at e /\ e_cancelled e' = e_cancelled e.
  Definition eqv (l l' : list event) : Prop := Forall2 same_ev l l'.

  Lemma same_ev_refl e : same_ev e e.
  Proof. repeat split. Qed.
  Lemma eqv_refl l : eqv l l.
  Proof. induction l; constructor; [apply same_ev_refl|assumption]. Qed.

  Lemma same_key e e' : same_ev e e' -> key e' = key e.
  Proof. intros [T [P [Wt [As _]]]]. rewrite !(key_eq A). congruence. Qed.

  Lemma ev_ltb_same a a' b b' : same_ev a a' -> same_ev b b' -> ev_ltb a' b' = ev_ltb a b.
  Proof. intros Ha Hb. unfold ev_ltb. rewrite (same_key _ _ Ha), (same_key _ _ Hb). reflexivity. Qed.

  Lemma insort_eqv e e' l l' : same_ev e e' -> eqv l l' -> eqv (insort e l) (insort e' l').
  Proof.
    intros He H. induction H as [|x x' l l' Hx H IH]; cbn; [constructor; [exact He|constructor]|].
    rewrite (ev_ltb_same e e' x x' He Hx). destruct (ev_ltb e x); [constructor; [exact He|constructor; assumption]|constructor; assumption].
  Qed.

  Lemma filter_eqv (f f' : event -> bool) l l' :
    (forall e e', same_ev e e' -> f' e' = f e) -> eqv l l' -> eqv (filter f l) (filter f' l').
  Proof.
    intros Hf H. induction H as [|x x' l l' Hx H IH]; cbn; [constructor|].
    rewrite (Hf x x' Hx). destruct (f x); [constructor; assumption|assumption].
  Qed.

  Lemma map_eqv (g g' : event -> event) l l' :
    (forall e e', same_ev e e' -> same_ev (g e) (g' e')) -> eqv l l' -> eqv (map g l) (map g' l').
  Proof. intros Hg H. induction H; cbn; constructor; auto. Qed.

  Lemma app_eqv a a' b b' : eqv a a' -> eqv b b' -> eqv (a ++ b) (a' ++ b').
  Proof. intros Ha Hb. induction Ha; cbn; [exact Hb|constructor; assumption]. Qed.

  Lemma matches_same a e e' : same_ev e e' -> matches a e' = matches a e.
  Proof. intros [_ [_ [_ [As _]]]]. unfold matches. rewrite As. reflexivity. Qed.

  Lemma stamp_same t e e' : same_ev e e' -> same_ev (stamp t e) (stamp t e').
  Proof. intros [T [P [Wt [As [Ac [Pa Ca]]]]]]. repeat split; cbn; assumption. Qed.
  Lemma resumed_same t e e' : same_ev e e' -> same_ev (resumed t e) (resumed t e').
  Proof.
    intros [T [P [Wt [As [Ac [Pa Ca]]]]]]. unfold resumed, resume_time. repeat split; cbn; try assumption. rewrite Pa, T. reflexivity.
  Qed.
  Lemma cancel_same a e e' : same_ev e e' ->
    same_ev (if matches a e then cancel_ev e else e) (if matches a e' then cancel_ev e' else e').
  Proof.
    intro H. rewrite (matches_same a e e' H). destruct (matches a e); [|exact H].
    destruct H as [T [P [Wt [As [Ac [Pa Ca]]]]]]. repeat split; cbn; assumption.
  Qed.

  (** environments that agree up to event numbers (the trace of dispatched events is not compared) *)
  Record env_eqv (en en' : env) : Prop := {
    ee_queue : eqv (queue en) (queue en');
    ee_paused : eqv (paused en) (paused en');
    ee_now : now en' = now en;
    ee_term : terminated en' = terminated en;
    ee_data : datalog en' = datalog en }.

  Variables ws ws' : nat -> Z.
  (** the weights still to be handed out agree *)
  Definition wsync (en en' : env) : Prop := forall i, ws' (next_eid en' + i)%nat = ws (next_eid en + i)%nat.

  Lemma schedule_eqv (en en' : env) t p a act :
    env_eqv en en' -> wsync en en' ->
    match schedule ws en t p a act, schedule ws' en' t p a act with
    | Ok e1, Ok e1' => env_eqv e1 e1' /\ wsync e1 e1'
    | Err e1, Err e1' => env_eqv e1 e1' /\ wsync e1 e1'
    | _, _ => False
    end.
  Proof.
    intros [Q P N T D] S. unfold schedule. rewrite N. destruct (t <? now en); [split; [split; assumption|exact S]|].
    split.
    - pose proof (S 0%nat) as S0. rewrite !Nat.add_0_r in S0.
      split; cbn; try assumption; try reflexivity. apply insort_eqv; [|exact Q].
      unfold same_ev. cbn. repeat split. exact S0.
    - intro i. cbn. specialize (S (Datatypes.S i)). rewrite <- !plus_n_Sm in S. exact S.
  Qed.

  Lemma pause_eqv (en en' : env) a : env_eqv en en' -> env_eqv (pause en a) (pause en' a).
  Proof.
    intros [Q P N T D]. split; cbn; try assumption.
    - apply filter_eqv; [|exact Q]. intros e e' H. rewrite (matches_same a e e' H). reflexivity.
    - apply app_eqv; [exact P|]. rewrite N. apply map_eqv; [intros; apply stamp_same; assumption|].
      apply filter_eqv; [|exact Q]. intros e e' H. apply matches_same, H.
  Qed.

  Lemma fold_insort_eqv (g g' : event -> event) hit hit' : forall q q',
    (forall e e', same_ev e e' -> same_ev (g e) (g' e')) -> eqv hit hit' -> eqv q q' ->
    eqv (fold_left (fun q e => insort (g e) q) hit q) (fold_left (fun q e => insort (g' e) q) hit' q').
  Proof.
    intros q q' Hg H. revert q q'. induction H as [|x x' l l' Hx H IH]; intros q q' Hq; cbn; [exact Hq|].
    apply IH. apply insort_eqv; [apply Hg, Hx|exact Hq].
  Qed.

  Lemma unpause_eqv (en en' : env) a : env_eqv en en' -> env_eqv (unpause en a) (unpause en' a).
  Proof.
    intros [Q P N T D]. split; cbn; try assumption.
    - rewrite N. apply fold_insort_eqv; [intros; apply resumed_same; assumption| |exact Q].
      apply filter_eqv; [|exact P]. intros e e' H. apply matches_same, H.
    - apply filter_eqv; [|exact P]. intros e e' H. rewrite (matches_same a e e' H). reflexivity.
  Qed.

  Lemma cancel_eqv (en en' : env) a : env_eqv en en' -> env_eqv (cancel en a) (cancel en' a).
  Proof.
    intros [Q P N T D]. split; cbn; try assumption; (apply map_eqv; [intros; apply cancel_same; assumption|assumption]).
  Qed.

  Lemma apply_cmds_eqv cs : forall en en' : env,
    env_eqv en en' -> wsync en en' ->
    match apply_cmds ws en cs, apply_cmds ws' en' cs with
    | Ok e1, Ok e1' => env_eqv e1 e1' /\ wsync e1 e1'
    | Err e1, Err e1' => env_eqv e1 e1' /\ wsync e1 e1'
    | _, _ => False
    end.
  Proof.
    induction cs as [|c cs IH]; intros en en' E S; cbn [apply_cmds]; [auto|].
    assert (NS : forall e1 e1' : env, next_eid e1 = next_eid en -> next_eid e1' = next_eid en' -> wsync e1 e1').
    { intros e1 e1' H1 H2 i. rewrite H1, H2. apply S. }
    destruct c; cbn [apply_cmd].
    - pose proof (schedule_eqv en en' t prio asset (Some a) E S) as H.
      destruct (schedule ws en t prio asset (Some a)), (schedule ws' en' t prio asset (Some a)); try contradiction; [apply IH; apply H|exact H].
    - apply IH; [apply pause_eqv, E|apply NS; reflexivity].
    - apply IH; [apply unpause_eqv, E|apply NS; reflexivity].
    - apply IH; [apply cancel_eqv, E|apply NS; reflexivity].
    - apply IH; [|apply NS; reflexivity]. destruct E as [Q P N T D]. split; cbn; try assumption. rewrite D. reflexivity.
  Qed.

  (** one step, from environments that agree on everything but (possibly) the clock *)
  Theorem step_eqv w (en en' : env) :
    eqv (queue en) (queue en') -> eqv (paused en) (paused en') -> terminated en' = terminated en -> datalog en' = datalog en ->
    wsync en en' ->
    match step ws exec wfail (w, en), step ws' exec wfail (w, en') with
    | None, None => True
    | Some (Ok (w1, e1)), Some (Ok (w1', e1')) => w1' = w1 /\ env_eqv e1 e1' /\ wsync e1 e1'
    | Some (Err (w1, e1)), Some (Err (w1', e1')) => w1' = w1 /\ env_eqv e1 e1' /\ wsync e1 e1'
    | _, _ => False
    end.
  Proof.
    intros Q P T D S. unfold step. destruct Q as [|e e' q q' He Hq]; [exact I|].
    destruct He as [Ti [Pr [Wt [As [Ac [Pa Ca]]]]]]. rewrite Ca, Ac, Ti.
    assert (E1 : env_eqv (mkEnv (e_time e) q (paused en) (next_eid en) (terminated en) (e :: dispatched en) (datalog en))
                         (mkEnv (e_time e) q' (paused en') (next_eid en') (terminated en') (e' :: dispatched en') (datalog en')))
      by (split; cbn; auto).
    assert (S1 : wsync (mkEnv (e_time e) q (paused en) (next_eid en) (terminated en) (e :: dispatched en) (datalog en))
                       (mkEnv (e_time e) q' (paused en') (next_eid en') (terminated en') (e' :: dispatched en') (datalog en')))
      by (intro i; apply S).
    destruct (e_cancelled e); [auto|]. destruct (e_act e) as [a|].
    - destruct (exec a w (e_time e)) as [w1 cs].
      pose proof (apply_cmds_eqv cs _ _ E1 S1) as H.
      destruct (apply_cmds ws _ cs), (apply_cmds ws' _ cs); try contradiction; [destruct (wfail w1)|]; auto.
    - split; [reflexivity|]. split; [|intro i; apply S]. destruct E1 as [Q1 P1 N1 T1 D1]. split; cbn in *; auto.
  Qed.
End Split.

(** * (B) the marker of run() is transparent *)
Section Marker.
  Variables (A W : Type).
  Variable exec : A -> W -> Z -> W * list (cmd A).
  Variable wfail : W -> bool.
  Variable ws : nat -> Z.
  Notation event := (event A).
  Notation env := (env A).

  Definition is_marker (m : event) : Prop :=
    e_act m = None /\ e_prio m = P_TERMINATE /\ e_asset m = -1 /\ e_cancelled m = false.
  (** every other event: a priority above the terminate priority, and an action *)
  Definition ordinary (e : event) : Prop := P_TERMINATE < e_prio e /\ e_act e <> None.

  Lemma marker_lt m e : is_marker m -> ordinary e -> ev_ltb m e = (e_time m <? e_time e).
  Proof.
    intros [_ [Pm _]] [Pe _]. unfold ev_ltb. rewrite !(key_eq A). cbn [lex_ltb]. rewrite Pm.
    destruct (Z.ltb_spec (e_time m) (e_time e)); [reflexivity|].
    destruct (Z.ltb_spec (e_time e) (e_time m)); [reflexivity|].
    destruct (Z.ltb_spec (- P_TERMINATE) (- e_prio e)); [lia|].
    destruct (Z.ltb_spec (- e_prio e) (- P_TERMINATE)); [reflexivity|lia].
  Qed.

  Lemma lt_marker m e : is_marker m -> ordinary e -> ev_ltb e m = (e_time e <=? e_time m).
  Proof.
    intros [_ [Pm _]] [Pe _]. unfold ev_ltb. rewrite !(key_eq A). cbn [lex_ltb]. rewrite Pm.
    destruct (Z.ltb_spec (e_time e) (e_time m)); [symmetry; apply Z.leb_le; lia|].
    destruct (Z.ltb_spec (e_time m) (e_time e)); [symmetry; apply Z.leb_gt; lia|].
    destruct (Z.ltb_spec (- e_prio e) (- P_TERMINATE)); [symmetry; apply Z.leb_le; lia|lia].
  Qed.

  Lemma ev_lt_trans (a b c : event) : ev_ltb a b = true -> ev_ltb b c = true -> ev_ltb a c = true.
  Proof.
    unfold ev_ltb. intros H1 H2. apply (lex_lt_le_trans (key a) (key b) (key c)); try reflexivity; [exact H1|].
    apply lex_ltb_asym, H2.
  Qed.

  (** a marker and an ordinary event are never tied, so the order in which they are inserted does not matter *)
  Lemma insort_comm m e : is_marker m -> ordinary e -> forall Q, insort e (insort m Q) = insort m (insort e Q).
  Proof.
    intros Hm He. pose proof (marker_lt m e Hm He) as ME. pose proof (lt_marker m e Hm He) as EM.
    assert (X : ev_ltb e m = negb (ev_ltb m e)).
    { rewrite ME, EM. destruct (Z.ltb_spec (e_time m) (e_time e)); cbn; [apply Z.leb_gt; lia|apply Z.leb_le; lia]. }
    induction Q as [|x Q IH]; cbn [insort].
    - rewrite X. destruct (ev_ltb m e); reflexivity.
    - destruct (ev_ltb m x) eqn:MX; destruct (ev_ltb e x) eqn:EX; cbn [insort]; rewrite ?MX, ?EX.
      + rewrite X. destruct (ev_ltb m e); cbn [negb insort]; rewrite ?MX, ?EX; reflexivity.
      + destruct (ev_ltb e m) eqn:E1; [rewrite (ev_lt_trans e m x E1 MX) in EX; discriminate|]. cbn [insort]. rewrite ?EX, ?MX. reflexivity.
      + destruct (ev_ltb m e) eqn:E1; [rewrite (ev_lt_trans m e x E1 EX) in MX; discriminate|]. cbn [insort]. rewrite ?MX, ?EX. reflexivity.
      + rewrite IH. reflexivity.
  Qed.

  Lemma insort_head_gt (m : event) Q : (forall x, In x Q -> ev_ltb m x = true) -> insort m Q = m :: Q.
  Proof. destruct Q as [|x Q]; intro H; cbn; [reflexivity|]. rewrite (H x (or_introl eq_refl)). reflexivity. Qed.

  Lemma filter_insort (f : event -> bool) (m : event) Q :
    f m = true -> StronglySorted (le_ev A) Q -> filter f (insort m Q) = insort m (filter f Q).
  Proof.
    intros Fm S. induction S as [|x Q S IH F]; cbn [insort filter]; [rewrite Fm; reflexivity|].
    destruct (ev_ltb m x) eqn:MX.
    - cbn [filter]. rewrite Fm. symmetry. apply insort_head_gt. intros y Hy.
      assert (Hy' : In y (x :: Q)).
      { change (if f x then x :: filter f Q else filter f Q) with (filter f (x :: Q)) in Hy. apply filter_In in Hy. exact (proj1 Hy). }
      destruct Hy' as [<-|Hy']; [exact MX|].
      rewrite Forall_forall in F. specialize (F y Hy'). unfold le_ev in F.
      unfold ev_ltb in *. apply (lex_lt_le_trans (key m) (key x) (key y)); try reflexivity; assumption.
    - cbn [filter]. destruct (f x); cbn [insort]; [rewrite MX; f_equal; exact IH|exact IH].
  Qed.

  Lemma filter_insort_drop (f : event -> bool) (m : event) Q : f m = false -> filter f (insort m Q) = filter f Q.
  Proof.
    intro Fm. induction Q as [|x Q IH]; cbn [insort filter]; [rewrite Fm; reflexivity|].
    destruct (ev_ltb m x); cbn [filter]; [rewrite Fm; reflexivity|]. rewrite IH. reflexivity.
  Qed.

  Lemma map_insort (g : event -> event) (m : event) Q :
    (forall e, key (g e) = key e) -> map g (insort m Q) = insort (g m) (map g Q).
  Proof.
    intro K. induction Q as [|x Q IH]; cbn [insort map]; [reflexivity|].
    unfold ev_ltb at 2. rewrite !K. fold (ev_ltb m x). destruct (ev_ltb m x); cbn [map]; [reflexivity|]. rewrite IH. reflexivity.
  Qed.

  (** the environment with the marker put in *)
  Definition wm (m : event) (en : env) : env := set_queue en (insort m (queue en)).

  Definition cmd_ok (c : cmd A) : Prop :=
    match c with
    | CSched _ p _ _ => P_TERMINATE < p
    | CPause a | CUnpause a | CCancel a => a <> -1
    | CData _ _ _ => True
    end.

  (** an environment without markers, sorted *)
  Record clean (en : env) : Prop := {
    cl_sorted : StronglySorted (le_ev A) (queue en);
    cl_queue : forall e, In e (queue en) -> ordinary e;
    cl_paused : forall e, In e (paused en) -> ordinary e }.

  Definition res_map {X Y} (f : X -> Y) (r : res X) : res Y := match r with Ok x => Ok (f x) | Err x => Err (f x) end.

  Lemma resumed_ordinary t (e : event) : ordinary e -> ordinary (resumed t e).
  Proof. intros [P Ac]. split; assumption. Qed.

  Lemma apply_cmd_wm m (en : env) c :
    is_marker m -> clean en -> cmd_ok c ->
    apply_cmd ws (wm m en) c = res_map (wm m) (apply_cmd ws en c) /\ clean (res_val (apply_cmd ws en c)).
  Proof.
    intros Hm [S CQ CP] OK. destruct c as [t p a act|a|a|a|l s d]; cbn [apply_cmd cmd_ok] in *.
    - unfold schedule, wm. cbn. destruct (t <? now en); cbn; [split; [reflexivity|split; assumption]|].
      set (e := mkEvent (next_eid en) t p (ws (next_eid en)) a (Some act) None false).
      assert (Oe : ordinary e) by (split; [exact OK|discriminate]).
      split.
      + unfold set_queue. cbn. rewrite (insort_comm m e Hm Oe). reflexivity.
      + split; cbn.
        * apply insort_sorted, S.
        * intros x Hx. apply (insort_in A) in Hx. destruct Hx as [->|Hx]; [exact Oe|apply CQ, Hx].
        * exact CP.
    - assert (MM : matches a m = false) by (unfold matches; destruct Hm as [_ [_ [As _]]]; rewrite As; apply Z.eqb_neq; congruence).
      split.
      + unfold pause, wm, set_queue. cbn. rewrite filter_insort by (try exact S; rewrite MM; reflexivity).
        rewrite (filter_insort_drop (matches a) m _ MM). reflexivity.
      + split; cbn.
        * apply filter_sorted, S.
        * intros x Hx. apply filter_In in Hx. apply CQ, Hx.
        * intros x Hx. apply in_app_or in Hx. destruct Hx as [Hx|Hx]; [apply CP, Hx|].
          apply in_map_iff in Hx. destruct Hx as [y [<- Hy]]. apply filter_In in Hy. destruct (CQ y (proj1 Hy)) as [P1 P2]. split; assumption.
    - split.
      + unfold unpause, wm, set_queue. cbn. f_equal.
        assert (G : forall hits Q, (forall x, In x hits -> ordinary x) ->
                      fold_left (fun q e => insort (resumed (now en) e) q) hits (insort m Q) =
                      insort m (fold_left (fun q e => insort (resumed (now en) e) q) hits Q)).
        { induction hits as [|h hits IH]; intros Q Hh; cbn; [reflexivity|].
          rewrite (insort_comm m (resumed (now en) h) Hm (resumed_ordinary _ h (Hh h (or_introl eq_refl)))).
          apply IH. intros x Hx. apply Hh. right. exact Hx. }
        rewrite G; [reflexivity|]. intros x Hx. apply filter_In in Hx. apply CP, Hx.
      + split; cbn.
        * apply fold_insort_sorted, S.
        * intros x Hx. apply (Permutation_in _ (fold_insort_perm A _ _ _)) in Hx. apply in_app_or in Hx.
          destruct Hx as [Hx|Hx]; [apply CQ, Hx|]. apply in_map_iff in Hx. destruct Hx as [y [<- Hy]].
          apply filter_In in Hy. apply resumed_ordinary, CP, Hy.
        * intros x Hx. apply filter_In in Hx. apply CP, Hx.
    - assert (MM : matches a m = false) by (unfold matches; destruct Hm as [_ [_ [As _]]]; rewrite As; apply Z.eqb_neq; congruence).
      split.
      + unfold cancel, wm, set_queue. cbn. rewrite map_insort by (intro e; apply (cancel_key A)). rewrite MM. reflexivity.
      + split; cbn.
        * apply map_sorted; [intro e; apply (cancel_key A)|exact S].
        * intros x Hx. apply in_map_iff in Hx. destruct Hx as [y [<- Hy]]. destruct (CQ y Hy) as [P1 P2]. destruct (matches a y); split; assumption.
        * intros x Hx. apply in_map_iff in Hx. destruct Hx as [y [<- Hy]]. destruct (CP y Hy) as [P1 P2]. destruct (matches a y); split; assumption.
    - split; [reflexivity|split; assumption].
  Qed.

  Lemma apply_cmds_wm m cs : forall en : env,
    is_marker m -> clean en -> Forall cmd_ok cs ->
    apply_cmds ws (wm m en) cs = res_map (wm m) (apply_cmds ws en cs) /\ clean (res_val (apply_cmds ws en cs)).
  Proof.
    induction cs as [|c cs IH]; intros en Hm C OK; cbn [apply_cmds]; [split; [reflexivity|exact C]|].
    inversion OK as [|? ? O1 O2]; subst.
    destruct (apply_cmd_wm m en c Hm C O1) as [E C1]. rewrite E.
    destruct (apply_cmd ws en c) as [en1|en1]; cbn [res_map res_val] in *; [apply IH; assumption|split; [reflexivity|exact C1]].
  Qed.

  Hypothesis exec_ok : forall a w t, Forall cmd_ok (snd (exec a w t)).

  Definition lift_state (m : event) (s : W * env) : W * env := (fst s, wm m (snd s)).

  Lemma apply_cmd_term (en : env) c : terminated (res_val (apply_cmd ws en c)) = terminated en.
  Proof. destruct c; cbn; try reflexivity. unfold schedule. destruct (_ <? _); reflexivity. Qed.
  Lemma apply_cmds_term cs : forall en : env, terminated (res_val (apply_cmds ws en cs)) = terminated en.
  Proof.
    induction cs as [|c cs IH]; intro en; cbn [apply_cmds]; [reflexivity|].
    pose proof (apply_cmd_term en c) as H. destruct (apply_cmd ws en c) as [e1|e1]; cbn [res_val] in *; [rewrite IH; exact H|exact H].
  Qed.

  (** an ordinary event is due no later than the marker: the step is the marker-free step, with the marker put back *)
  Theorem step_wm m w (en : env) e q :
    is_marker m -> clean en -> queue en = e :: q -> e_time e <= e_time m ->
    step ws exec wfail (w, wm m en) = option_map (res_map (lift_state m)) (step ws exec wfail (w, en)) /\
    (forall r, step ws exec wfail (w, en) = Some r -> clean (snd (res_val r)) /\ terminated (snd (res_val r)) = terminated en).
  Proof.
    intros Hm C Q T. pose proof C as [S CQ CP].
    assert (Oe : ordinary e) by (apply CQ; rewrite Q; left; reflexivity).
    assert (HQ : queue (wm m en) = e :: insort m q).
    { unfold wm. cbn. rewrite Q. cbn [insort]. rewrite (marker_lt m e Hm Oe). destruct (Z.ltb_spec (e_time m) (e_time e)); [lia|reflexivity]. }
    set (en1 := mkEnv (e_time e) q (paused en) (next_eid en) (terminated en) (e :: dispatched en) (datalog en)).
    assert (Cq : clean en1).
    { split; cbn; [rewrite Q in S; inversion S; assumption|intros x Hx; apply CQ; rewrite Q; right; exact Hx|exact CP]. }
    assert (EW : mkEnv (e_time e) (insort m q) (paused (wm m en)) (next_eid (wm m en)) (terminated (wm m en)) (e :: dispatched (wm m en)) (datalog (wm m en)) = wm m en1)
      by reflexivity.
    unfold step. cbn [fst snd]. rewrite HQ, Q, EW. fold en1.
    destruct (e_cancelled e).
    { split; [reflexivity|]. intros r H. injection H as <-. split; [exact Cq|reflexivity]. }
    destruct Oe as [_ Ac]. destruct (e_act e) as [a|]; [|contradiction].
    pose proof (exec_ok a w (e_time e)) as OKc. destruct (exec a w (e_time e)) as [w1 cs]. cbn [snd] in OKc.
    destruct (apply_cmds_wm m cs en1 Hm Cq OKc) as [E C1]. rewrite E.
    pose proof (apply_cmds_term cs en1) as TT.
    destruct (apply_cmds ws en1 cs) as [e2|e2]; cbn [res_map res_val] in *.
    - destruct (wfail w1); (split; [reflexivity|]); intros r H; injection H as <-; (split; [exact C1|exact TT]).
    - split; [reflexivity|]. intros r H. injection H as <-. split; [exact C1|exact TT].
  Qed.

  (** nothing ordinary is due by the marker's time: the marker is dispatched; it only stops the loop *)
  Theorem step_marker m w (en : env) :
    is_marker m -> clean en -> (forall e, In e (queue en) -> e_time m < e_time e) ->
    step ws exec wfail (w, wm m en) =
    Some (Ok (w, mkEnv (e_time m) (queue en) (paused en) (next_eid en) true (m :: dispatched en) (datalog en))).
  Proof.
    intros Hm C L. pose proof C as [S CQ CP].
    assert (HQ : queue (wm m en) = m :: queue en).
    { unfold wm. cbn. apply insort_head_gt. intros x Hx. rewrite (marker_lt m x Hm (CQ x Hx)). apply Z.ltb_lt, L, Hx. }
    unfold step. cbn [fst snd]. rewrite HQ. destruct Hm as [Ac [_ [_ Ca]]]. rewrite Ca, Ac. reflexivity.
  Qed.
End Marker.

(** * (C) a run is "advance the marker-free environment to the horizon" *)
Section Compose.
  Variables (A W : Type).
  Variable exec : A -> W -> Z -> W * list (cmd A).
  Variable wfail : W -> bool.
  Notation event := (event A).
  Notation env := (env A).
  Notation state := (W * env)%type.
  Hypothesis exec_ok : forall a w t, Forall (cmd_ok A) (snd (exec a w t)).

  (** execute the events due no later than T (no marker involved) *)
  Fixpoint adv (ws : nat -> Z) (fuel : nat) (T : Z) (s : state) : option (res state) :=
    match queue (snd s) with
    | [] => Some (Ok s)
    | e :: _ =>
      if T <? e_time e then Some (Ok s)
      else match fuel with
           | O => None
           | S f => match step ws exec wfail s with
                    | Some (Ok s') => adv ws f T s'
                    | Some (Err s') => Some (Err s')
                    | None => Some (Ok s)
                    end
           end
    end.

  Definition fin (m : event) (en : env) : env :=
    mkEnv (e_time m) (queue en) (paused en) (next_eid en) true (m :: dispatched en) (datalog en).

  Lemma head_due (en : env) e q T : clean A en -> queue en = e :: q -> T <? e_time e = true -> forall x, In x (queue en) -> T < e_time x.
  Proof.
    intros [S _ _] Q L x Hx. apply Z.ltb_lt in L. rewrite Q in S, Hx. destruct Hx as [<-|Hx]; [exact L|].
    inversion S as [|? ? S' F]; subst. rewrite Forall_forall in F. pose proof (le_ev_time A e x (F x Hx)). lia.
  Qed.

  Lemma loop_terminated ws f w (en : env) : terminated en = true -> loop ws exec wfail f (w, en) = Some (Ok (w, en)).
  Proof. intro T. destruct f; cbn [loop snd]; destruct (queue en); try reflexivity; rewrite T; reflexivity. Qed.

  (** the loop of run(), with the marker in the queue, is the marker-free advance followed by the marker *)
  Theorem loop_adv ws m fuel : forall w (en : env) s',
    is_marker A m -> clean A en -> terminated en = false ->
    loop ws exec wfail fuel (w, wm A m en) = Some (Ok s') ->
    exists en', adv ws fuel (e_time m) (w, en) = Some (Ok (fst s', en')) /\ snd s' = fin m en' /\ clean A en' /\ terminated en' = false.
  Proof.
    induction fuel as [|f IH]; intros w en s' Hm C T H.
    - cbn [loop snd] in H. assert (NE : queue (wm A m en) <> []).
      { unfold wm. cbn. intro E. pose proof (insort_in A m (queue en) m) as X. rewrite E in X. destruct (proj2 X (or_introl eq_refl)). }
      destruct (queue (wm A m en)) as [|e0 q0] eqn:Q0; [contradiction|]. change (terminated (wm A m en)) with (terminated en) in H. rewrite T in H. discriminate.
    - cbn [loop snd] in H. assert (NE : queue (wm A m en) <> []).
      { unfold wm. cbn. intro E. pose proof (insort_in A m (queue en) m) as X. rewrite E in X. destruct (proj2 X (or_introl eq_refl)). }
      destruct (queue (wm A m en)) as [|e0 q0] eqn:Q0; [contradiction|]. clear Q0 NE. change (terminated (wm A m en)) with (terminated en) in H. rewrite T in H.
      cbn [adv snd]. destruct (queue en) as [|e q] eqn:QE.
      + rewrite (step_marker A W exec wfail ws m w en Hm C) in H by (intros x Hx; rewrite QE in Hx; destruct Hx).
        assert (HH : Some (Ok (w, fin m en)) = Some (Ok s')).
        { rewrite <- H. symmetry. apply (loop_terminated ws f w (fin m en)). reflexivity. }
        injection HH as <-. exists en. cbn. auto.
      + destruct (e_time m <? e_time e) eqn:L.
        * rewrite (step_marker A W exec wfail ws m w en Hm C) in H by (apply (head_due en e q); [exact C|exact QE|exact L]).
          assert (HH : Some (Ok (w, fin m en)) = Some (Ok s')).
          { rewrite <- H. symmetry. apply (loop_terminated ws f w (fin m en)). reflexivity. }
          injection HH as <-. exists en. cbn. auto.
        * apply Z.ltb_ge in L.
          destruct (step_wm A W exec wfail ws exec_ok m w en e q Hm C QE L) as [E K]. rewrite E in H.
          destruct (step ws exec wfail (w, en)) as [[[w1 en1]|[w1 en1]]|] eqn:ST; cbn [option_map res_map lift_state fst snd] in H.
          -- destruct (K _ eq_refl) as [C1 T1]. cbn in C1, T1. apply (IH w1 en1 s' Hm C1); [congruence|exact H].
          -- discriminate.
          -- apply (step_none A W ws exec wfail) in ST. cbn in ST. congruence.
  Qed.

  Theorem adv_loop ws m fuel : forall w (en : env) w' en',
    is_marker A m -> clean A en -> terminated en = false ->
    adv ws fuel (e_time m) (w, en) = Some (Ok (w', en')) ->
    loop ws exec wfail (S fuel) (w, wm A m en) = Some (Ok (w', fin m en')).
  Proof.
    induction fuel as [|f IH]; intros w en w' en' Hm C T H.
    - cbn [adv snd] in H. cbn [loop snd].
      assert (NE : queue (wm A m en) <> []).
      { unfold wm. cbn. intro E. pose proof (insort_in A m (queue en) m) as X. rewrite E in X. destruct (proj2 X (or_introl eq_refl)). }
      destruct (queue (wm A m en)) as [|e0 q0] eqn:Q0; [contradiction|]. clear Q0 NE. change (terminated (wm A m en)) with (terminated en). rewrite T.
      destruct (queue en) as [|e q] eqn:QE.
      + injection H as <- <-. rewrite (step_marker A W exec wfail ws m w en Hm C) by (intros x Hx; rewrite QE in Hx; destruct Hx).
        unfold fin. cbn [snd queue terminated]. rewrite ?QE. reflexivity.
      + destruct (e_time m <? e_time e) eqn:L; [|discriminate]. injection H as <- <-.
        rewrite (step_marker A W exec wfail ws m w en Hm C) by (apply (head_due en e q); [exact C|exact QE|exact L]).
        unfold fin. cbn [snd queue terminated]. rewrite ?QE. reflexivity.
    - cbn [adv snd] in H. cbn [loop snd].
      assert (NE : queue (wm A m en) <> []).
      { unfold wm. cbn. intro E. pose proof (insort_in A m (queue en) m) as X. rewrite E in X. destruct (proj2 X (or_introl eq_refl)). }
      destruct (queue (wm A m en)) as [|e0 q0] eqn:Q0; [contradiction|]. clear Q0 NE. change (terminated (wm A m en)) with (terminated en). rewrite T.
      destruct (queue en) as [|e q] eqn:QE.
      + injection H as <- <-. rewrite (step_marker A W exec wfail ws m w en Hm C) by (intros x Hx; rewrite QE in Hx; destruct Hx).
        unfold fin. cbn [snd queue terminated]. rewrite ?QE. reflexivity.
      + destruct (e_time m <? e_time e) eqn:L.
        * injection H as <- <-. rewrite (step_marker A W exec wfail ws m w en Hm C) by (apply (head_due en e q); [exact C|exact QE|exact L]).
          unfold fin. cbn [snd queue terminated]. rewrite ?QE. reflexivity.
        * apply Z.ltb_ge in L.
          destruct (step_wm A W exec wfail ws exec_ok m w en e q Hm C QE L) as [E K]. rewrite E.
          destruct (step ws exec wfail (w, en)) as [[[w1 en1]|[w1 en1]]|] eqn:ST; cbn [option_map res_map lift_state fst snd].
          -- destruct (K _ eq_refl) as [C1 T1]. cbn in C1, T1. apply (IH w1 en1 w' en' Hm C1); [congruence|exact H].
          -- discriminate.
          -- apply (step_none A W ws exec wfail) in ST. cbn in ST. congruence.
  Qed.

  (** advancing to T1 and then to T2 is advancing to T2 *)
  Theorem adv_split ws fuel T1 T2 : T1 <= T2 -> forall s s2,
    adv ws fuel T2 s = Some (Ok s2) ->
    exists s1, adv ws fuel T1 s = Some (Ok s1) /\ adv ws fuel T2 s1 = Some (Ok s2).
  Proof.
    intro LE. induction fuel as [|f IH]; intros s s2 H; cbn [adv] in *.
    - destruct (queue (snd s)) as [|e q] eqn:Q; [exists s; rewrite Q; auto|].
      destruct (T2 <? e_time e) eqn:L2; [|discriminate].
      assert (L1 : T1 <? e_time e = true) by (apply Z.ltb_lt; apply Z.ltb_lt in L2; lia).
      exists s. rewrite Q, L1, L2. auto.
    - destruct (queue (snd s)) as [|e q] eqn:Q; [exists s; rewrite Q; auto|].
      destruct (T2 <? e_time e) eqn:L2.
      + assert (L1 : T1 <? e_time e = true) by (apply Z.ltb_lt; apply Z.ltb_lt in L2; lia).
        exists s. rewrite Q, L1, L2. auto.
      + destruct (T1 <? e_time e) eqn:L1.
        * exists s. split; [reflexivity|]. rewrite Q, L2. exact H.
        * destruct (step ws exec wfail s) as [[s'|s']|] eqn:ST; try discriminate.
          -- destruct (IH s' s2 H) as [s1 [A1 A2]]. exists s1. split; [exact A1|].
             (* the second advance starts from s1 with one unit of fuel more than needed *)
             clear - A2. revert A2. generalize s1. clear. intros s1 A2.
             assert (M : forall g T s r, adv ws g T s = Some r -> adv ws (S g) T s = Some r).
             { induction g as [|g IHg]; intros T s r H; cbn [adv] in *.
               - destruct (queue (snd s)); [exact H|]. destruct (T <? e_time e); [exact H|discriminate].
               - destruct (queue (snd s)); [exact H|]. destruct (T <? e_time e); [exact H|].
                 destruct (step ws exec wfail s) as [[s'|s']|]; try exact H. apply IHg, H. }
             apply M, A2.
          -- exfalso. apply (step_none A W ws exec wfail) in ST. rewrite Q in ST. discriminate.
  Qed.

  (** advancing does not depend on the numbering of events (ingredient A lifted to [adv]) *)
  Theorem adv_eqv ws ws' fuel T : forall w (en en' : env) w2 en2,
    eqv A (queue en) (queue en') -> eqv A (paused en) (paused en') -> terminated en' = terminated en -> datalog en' = datalog en ->
    wsync A ws ws' en en' ->
    adv ws fuel T (w, en) = Some (Ok (w2, en2)) ->
    exists en2', adv ws' fuel T (w, en') = Some (Ok (w2, en2')) /\
                 eqv A (queue en2) (queue en2') /\ eqv A (paused en2) (paused en2') /\ terminated en2' = terminated en2 /\
                 datalog en2' = datalog en2 /\ wsync A ws ws' en2 en2'.
  Proof.
    assert (NIL : forall l' : list event, eqv A [] l' -> l' = []) by (intros l' X; inversion X; reflexivity).
    assert (CONS : forall (e : event) q l', eqv A (e :: q) l' -> exists e' q', l' = e' :: q' /\ same_ev A e e' /\ eqv A q q').
    { intros e q l' X. inversion X; subst. eauto. }
    induction fuel as [|f IH]; intros w en en' w2 en2 Q P Tm D S H; cbn [adv snd] in *.
    - destruct (queue en) as [|e q] eqn:QE.
      + injection H as <- <-. exists en'. rewrite (NIL _ Q). rewrite QE. repeat split; auto. constructor.
      + destruct (CONS e q _ Q) as [e' [q' [E2 [He Hq]]]]. rewrite E2. pose proof He as [Ti _]. rewrite Ti.
        destruct (T <? e_time e); [|discriminate].
        injection H as <- <-. exists en'. rewrite QE, E2. repeat split; auto. constructor; assumption.
    - destruct (queue en) as [|e q] eqn:QE.
      + injection H as <- <-. exists en'. rewrite (NIL _ Q). rewrite QE. repeat split; auto. constructor.
      + destruct (CONS e q _ Q) as [e' [q' [E2 [He Hq]]]]. rewrite E2. pose proof He as [Ti _]. rewrite Ti.
        destruct (T <? e_time e).
        * injection H as <- <-. exists en'. rewrite QE, E2. repeat split; auto. constructor; assumption.
        * assert (Q0 : eqv A (queue en) (queue en')) by (rewrite QE; exact Q).
          pose proof (step_eqv A W exec wfail ws ws' w en en' Q0 P Tm D S) as SE.
          destruct (step ws exec wfail (w, en)) as [[[w1 e1]|[w1 e1]]|] eqn:ST; try discriminate.
          -- destruct (step ws' exec wfail (w, en')) as [[[w1' e1']|[w1' e1']]|]; try contradiction.
             destruct SE as [-> [[Q1 P1 N1 T1 D1] S1]]. apply (IH w1 e1 e1' w2 en2 Q1 P1 T1 D1 S1 H).
          -- exfalso. apply (step_none A W ws exec wfail) in ST. cbn in ST. rewrite QE in ST. discriminate.
  Qed.

  (** ordinary events keep the environment clean and never touch the terminated flag *)
  Lemma step_clean ws w (en : env) r :
    clean A en -> step ws exec wfail (w, en) = Some r -> clean A (snd (res_val r)) /\ terminated (snd (res_val r)) = terminated en.
  Proof.
    intros C H. destruct (queue en) as [|e q] eqn:Q; [unfold step in H; cbn in H; rewrite Q in H; discriminate|].
    set (m := mkEvent 0%nat (e_time e) P_TERMINATE 0 (-1) (@None A) None false).
    assert (Hm : is_marker A m) by (repeat split).
    destruct (step_wm A W exec wfail ws exec_ok m w en e q Hm C Q ltac:(cbn; lia)) as [_ K]. apply K, H.
  Qed.

  Lemma adv_clean ws fuel T : forall w (en : env) w' en',
    clean A en -> adv ws fuel T (w, en) = Some (Ok (w', en')) -> clean A en' /\ terminated en' = terminated en.
  Proof.
    induction fuel as [|f IH]; intros w en w' en' C H; cbn [adv snd] in H.
    - destruct (queue en) as [|e q]; [injection H as <- <-; auto|]. destruct (T <? e_time e); [injection H as <- <-; auto|discriminate].
    - destruct (queue en) as [|e q] eqn:Q; [injection H as <- <-; auto|]. destruct (T <? e_time e); [injection H as <- <-; auto|].
      destruct (step ws exec wfail (w, en)) as [[[w1 e1]|[w1 e1]]|] eqn:ST; try discriminate.
      + destruct (step_clean ws w en _ C ST) as [C1 T1]. cbn in C1, T1. destruct (IH w1 e1 w' en' C1 H) as [C2 T2]. split; [exact C2|congruence].
      + injection H as <- <-. auto.
  Qed.

  (** the environment right after run() has put its marker in, without the marker *)
  Definition bump (en : env) : env := mkEnv (now en) (queue en) (paused en) (S (next_eid en)) false (dispatched en) (datalog en).
  Definition marker (ws : nat -> Z) (en : env) (d : Z) : event :=
    mkEvent (next_eid en) (now en + d) P_TERMINATE (ws (next_eid en)) (-1) None None false.

  Lemma marker_is ws (en : env) d : is_marker A (marker ws en d).
  Proof. repeat split. Qed.

  Lemma start_run_wm ws (en : env) d : 0 <= d -> start_run ws en d = Ok (wm A (marker ws en d) (bump en)).
  Proof. intro H. unfold start_run, schedule. cbn. destruct (Z.ltb_spec (now en + d) (now en)); [lia|reflexivity]. Qed.

  Lemma clean_bump (en : env) : clean A en -> clean A (bump en).
  Proof. intros [S CQ CP]. split; assumption. Qed.

  (** THE THEOREM.  If running once for a+b succeeds, then running for a succeeds, and running for b from there — with any
      weight source that hands the remaining events the weights the single run gives them — succeeds too and ends in the same
      world, the same clock, the same recorded data and the same pending and paused events up to their creation numbers. *)
  Theorem run_split ws ws2 fuel a b w (en : env) w2 en2 :
    0 <= a -> 0 <= b -> clean A en ->
    run ws exec wfail fuel (a + b) (w, en) = Some (Ok (w2, en2)) ->
    exists w1 en1,
      run ws exec wfail (S fuel) a (w, en) = Some (Ok (w1, en1)) /\ now en1 = now en + a /\
      ((forall i, ws2 (S (next_eid en1) + i)%nat = ws (next_eid en1 + i)%nat) ->
       exists en2', run ws2 exec wfail (S fuel) b (w1, en1) = Some (Ok (w2, en2')) /\
                    eqv A (queue en2) (queue en2') /\ eqv A (paused en2) (paused en2') /\ datalog en2' = datalog en2 /\
                    now en2' = now en2 /\ now en2 = now en + (a + b) /\ terminated en2' = true /\ terminated en2 = true).
  Proof.
    intros Ha Hb C H. unfold run in H. cbn [fst snd] in H. rewrite (start_run_wm ws en (a + b)) in H by lia.
    set (M := marker ws en (a + b)) in *.
    destruct (loop_adv ws M fuel w (bump en) (w2, en2) (marker_is ws en (a + b)) (clean_bump en C) eq_refl H) as [e2 [A2 [E2 [C2 T2]]]].
    cbn [fst snd] in A2, E2. change (e_time M) with (now en + (a + b)) in A2.
    destruct (adv_split ws fuel (now en + a) (now en + (a + b)) ltac:(lia) _ _ A2) as [[w1 e1] [A1 A12]].
    destruct (adv_clean ws fuel _ w (bump en) w1 e1 (clean_bump en C) A1) as [C1 T1]. cbn in T1.
    set (M1 := marker ws en a).
    exists w1, (fin M1 e1). split; [|split; [reflexivity|]].
    - unfold run. cbn [fst snd]. rewrite (start_run_wm ws en a) by lia.
      apply (adv_loop ws M1 fuel w (bump en) w1 e1 (marker_is ws en a) (clean_bump en C) eq_refl). exact A1.
    - intro WS. set (en1 := fin M1 e1) in *. set (M2 := marker ws2 en1 b).
      assert (TM2 : e_time M2 = now en + (a + b)) by (cbn; lia).
      assert (X1 : eqv A (queue e1) (queue (bump en1))) by apply eqv_refl.
      assert (X2 : eqv A (paused e1) (paused (bump en1))) by apply eqv_refl.
      assert (X3 : terminated (bump en1) = terminated e1) by (cbn; congruence).
      assert (X4 : datalog (bump en1) = datalog e1) by reflexivity.
      assert (X5 : wsync A ws ws2 e1 (bump en1)) by (intro i; cbn; apply WS).
      destruct (adv_eqv ws ws2 fuel (now en + (a + b)) w1 e1 (bump en1) w2 e2 X1 X2 X3 X4 X5 A12) as [e2' [A2' [Q2 [P2 [Tm2 [D2 S2]]]]]].
      exists (fin M2 e2'). split.
      + unfold run. cbn [fst snd]. rewrite (start_run_wm ws2 en1 b) by lia. fold M2.
        apply (adv_loop ws2 M2 fuel w1 (bump en1) w2 e2' (marker_is ws2 en1 b)); [apply clean_bump; split; apply C1|reflexivity|].
        rewrite TM2. exact A2'.
      + rewrite E2. cbn. repeat split; auto; try lia.
  Qed.
End Compose.
