(** Per-device invariants of the factory floor, preserved by every event action.
    Each reduces, through [R_exec_fact], to a finite case analysis over the guarded device
    transformers of Proofs/FloorSteps.v. *)
From Coq Require Import ZArith List Bool Lia.
From RecordUpdate Require Import RecordUpdate.
From SimVerif Require Import Model.Base Model.Env Model.RM Model.Maint Model.FloorTypes Model.Floor Proofs.FloorSteps.
Import ListNotations.
Open Scope Z_scope.

Definition DevInv (P : dev -> Prop) (w : fw) : Prop := forall d x, aget d (f_devs w) = Some x -> P x.

(** [P] survives every guarded transformer, and every id-preserving rewrite of the parts a device holds *)
Definition stable (nw : Z) (P : dev -> Prop) : Prop :=
  (forall g f, dprim nw g f -> forall x, g x -> P x -> P (f x)) /\
  (forall pid f, (forall p, p_id (f p) = p_id p) -> forall x, P x -> P (upd_part_in_dev pid f x)).

Lemma aget_arepl_some {V} k k' (v x : V) m :
  aget k' (arepl k v m) = Some x -> (k' = k /\ x = v /\ amem k m = true) \/ aget k' m = Some x.
Proof.
  rewrite aget_arepl. destruct (Z.eqb_spec k' k) as [->|N]; cbn; [|auto].
  destruct (amem k m) eqn:M; [|auto]. intro H. injection H as <-. auto.
Qed.

Lemma getd_some w d x : aget d (f_devs w) = Some x -> getd w d = x.
Proof. unfold getd. intros ->. reflexivity. Qed.

Lemma amem_some {V} k (m : list (Z * V)) : amem k m = true -> exists x, aget k m = Some x.
Proof. unfold amem. destruct (aget k m); [eauto|discriminate]. Qed.

Theorem RD_DevInv nw P : stable nw P -> forall w w', RD nw w w' -> DevInv P w -> DevInv P w'.
Proof.
  intros [SP SE] w w' HR. induction HR as [|w1 w2 w3 S _ IH]; intro HI; [exact HI|]. apply IH. clear IH.
  destruct S as [w0 d0 g f Pr G|w0 w0' E _|w0 pid f Hid].
  - intros d x Hx. unfold updd, setd in Hx. cbn in Hx. apply aget_arepl_some in Hx.
    destruct Hx as [[-> [-> M]]|Hx]; [|apply (HI d x Hx)].
    apply amem_some in M. destruct M as [y Hy]. rewrite (getd_some w0 d0 y Hy) in *.
    apply (SP g f Pr y G). apply (HI d0 y Hy).
  - intros d x Hx. rewrite E in Hx. apply (HI d x Hx).
  - intros d x Hx. unfold upd_part_everywhere in Hx. cbn in Hx.
    assert (G : exists y, aget d (f_devs w0) = Some y /\ x = upd_part_in_dev pid f y).
    { clear - Hx. induction (f_devs w0) as [|[k y] l IHl]; cbn in *; [discriminate|].
      destruct (d =? k); [injection Hx as <-; eauto|auto]. }
    destruct G as [y [Hy ->]]. apply SE; [exact Hid|apply (HI d y Hy)].
Qed.

Theorem R_DevInv n nw P : stable nw P -> forall w w', R n nw w w' -> DevInv P w -> DevInv P w'.
Proof. intros S w w' HR. apply (RD_DevInv nw P S w w'). eapply R_RD, HR. Qed.

(** the invariant after any event action *)
Corollary exec_DevInv nw P fuel uops a w :
  stable nw P -> DevInv P w -> DevInv P (exec_fact fuel uops a w nw).
Proof. intros S HI. eapply (R_DevInv MFull); [exact S|apply R_exec_fact; reflexivity|exact HI]. Qed.

(** * helper facts about the part-rewriting map *)
Lemma upd_item_same_shape pid f it :
  (forall p, p_id (f p) = p_id p) ->
  item_count (upd_part_in_item pid f it) = item_count it /\
  is_batch (upd_part_in_item pid f it) = is_batch it /\
  length (item_parts (upd_part_in_item pid f it)) = length (item_parts it).
Proof.
  intro H. destruct it as [p|b ps]; cbn; [auto|]. rewrite !map_length. auto.
Qed.

Definition opt_count (o : option item) : Z := match o with Some it => item_count it | None => 0 end.
Definition buf_count (b : list (Z * item)) : Z := fold_right (fun e acc => item_count (snd e) + acc) 0 b.

Arguments buf_count : simpl never.

(** unfold every transformer applied to [x] and split its internal conditionals *)
Ltac norm_prim x :=
  unfold t_waiting_ds, t_map_slot, t_set_cycle, t_add_offset, t_reset_offset, t_generated, t_finish_proc, t_fail_clear,
         t_finish, t_stop_use, t_accept_proc, t_clear_out, t_clear_part, t_batch_single, t_batch_full, t_batch_more,
         t_reserved, t_waiting_res, t_accept_buffer, t_accept_sink, t_accept, t_buf_store, t_buf_pop, t_supplied,
         t_shutdown, t_restore, t_block, t_budget, dev_set_wait, dev_add_value in *;
  cbv zeta;
  repeat match goal with
         | |- context[if ?c then _ else _] => destruct c eqn:?
         | |- context[match d_wait_since x with _ => _ end] => destruct (d_wait_since x) eqn:?
         | |- context[match d_buf x with _ => _ end] => destruct (d_buf x) as [|[? ?] ?] eqn:?
         | |- context[match d_last_use x with _ => _ end] => destruct (d_last_use x) eqn:?
         | |- context[match d_last_restore x with _ => _ end] => destruct (d_last_restore x) eqn:?
         end.

(** * C02: a single-slot device never holds an input part and a finished part at once *)
Definition SlotInv (x : dev) : Prop :=
  match d_kind x with
  | KHandler | KProcessor | KSink => d_part x = None \/ d_out x = None
  | _ => True
  end.

Lemma option_map_none {X Y} (f : X -> Y) o : o = None -> option_map f o = None.
Proof. intros ->. reflexivity. Qed.

Lemma stable_SlotInv nw : stable nw SlotInv.
Proof.
  split.
  - intros g f Pr x G HI. unfold SlotInv in *. rewrite (dprim_kind nw g f Pr x).
    destruct Pr; cbn beta in G; norm_prim x; cbn;
      destruct (d_kind x) eqn:K; try exact Logic.I;
      try (destruct HI as [HI|HI]; [left|right]; solve [exact HI | apply option_map_none, HI]);
      try (left; reflexivity); try (right; reflexivity);
      try (intuition congruence).
  - intros pid f Hid x HI. unfold SlotInv in *. cbn. destruct (d_kind x); auto;
      (destruct HI as [HI|HI]; [left|right]); apply option_map_none, HI.
Qed.

(** * C05: a buffer's level is the number of parts it stores and never exceeds its capacity *)
Definition BufInv (x : dev) : Prop :=
  d_kind x = KBuffer ->
  d_level x = buf_count (d_buf x) + opt_count (d_part x) /\ inf_leb (d_level x) (d_capacity x) = true.

Lemma buf_count_app a b : buf_count (a ++ b) = buf_count a + buf_count b.
Proof. unfold buf_count. induction a as [|e a IH]; cbn; [lia|]. rewrite IH. lia. Qed.
Lemma buf_count_cons e b : buf_count (e :: b) = item_count (snd e) + buf_count b.
Proof. reflexivity. Qed.

Lemma inf_leb_mono a b c : a <= b -> inf_leb b c = true -> inf_leb a c = true.
Proof. unfold inf_leb. destruct c; [|auto]. rewrite !Z.leb_le. lia. Qed.

Lemma item_count_nonneg it : 0 <= item_count it.
Proof. destruct it; cbn; lia. Qed.

Lemma buf_count_upd pid f b : (forall p, p_id (f p) = p_id p) ->
  buf_count (map (fun e : Z * item => (fst e, upd_part_in_item pid f (snd e))) b) = buf_count b.
Proof.
  intro Hid. induction b as [|[t it] b IHb]; cbn; [reflexivity|]. rewrite !buf_count_cons. cbn.
  destruct (upd_item_same_shape pid f it Hid) as [C _]. rewrite C, IHb. reflexivity.
Qed.

Lemma stable_BufInv nw : stable nw BufInv.
Proof.
  split.
  - intros g f Pr x G HI. unfold BufInv in *. rewrite (dprim_kind nw g f Pr x). intro K. specialize (HI K). destruct HI as [IL IC].
    destruct Pr; cbn beta in G; norm_prim x; cbn;
      try (split; [exact IL|exact IC]);
      try solve [exfalso; intuition congruence].
    (* map_slot on the input slot: the count of a rewritten item is unchanged *)
    all: try (match goal with Hs : same_ids _ |- _ =>
                split; [|exact IC]; rewrite IL; f_equal; match goal with |- context[d_part ?y] => destruct (d_part y) as [it0|] end; cbn; [|reflexivity];
                destruct (Hs it0) as [_ [_ [C _]]]; rewrite C; reflexivity end).
    (* accept into the buffer: the level grows by the count of the accepted item, within the capacity *)
    all: try (destruct G as [P [_ [_ CAP]]]; rewrite P in IL; cbn in IL; split; [cbn; lia|rewrite Z.add_comm; exact CAP]).
    (* store: the part moves from the input slot to the back of the list *)
    all: try (destruct G as [P _]; rewrite P in IL; cbn in IL; rewrite buf_count_app, buf_count_cons; cbn;
              change (buf_count []) with 0; split; [lia|exact IC]).
    (* pop: nothing popped (empty, or delay not served) *)
    all: try (match goal with B : d_buf _ = _ |- _ => rewrite B end; split; [exact IL|exact IC]).
    (* pop the head *)
    all: rewrite buf_count_cons in IL; cbn in IL; split; [lia|];
         eapply inf_leb_mono; [|exact IC]; match goal with |- _ - item_count ?it <= _ => pose proof (item_count_nonneg it) end; lia.
  - intros pid f Hid x HI. unfold BufInv in *. cbn. intro K. specialize (HI K). destruct HI as [IL IC]. split; [|exact IC].
    rewrite IL. f_equal.
    + symmetry. apply buf_count_upd, Hid.
    + destruct (d_part x) as [it|]; cbn; [|reflexivity]. destruct (upd_item_same_shape pid f it Hid) as [C _]. symmetry. exact C.
Qed.

(** * C16: a device's value is the sum of the changes in its value history; every entry carries the
      running total; zero changes are not recorded *)
Fixpoint hist_ok (start : Z) (h : list (Z * Z * Z * Z)) : Prop :=
  match h with
  | [] => True
  | (_, _, dl, total) :: h' => dl <> 0 /\ total = start + dl /\ hist_ok total h'
  end.
Fixpoint hist_end (start : Z) (h : list (Z * Z * Z * Z)) : Z :=
  match h with [] => start | (_, _, _, total) :: h' => hist_end total h' end.

Definition ValInv (x : dev) : Prop := hist_ok 0 (d_vhist x) /\ d_value x = hist_end 0 (d_vhist x).

Lemma hist_snoc start h l t dl :
  hist_ok start h -> dl <> 0 ->
  hist_ok start (h ++ [(l, t, dl, hist_end start h + dl)]) /\
  hist_end start (h ++ [(l, t, dl, hist_end start h + dl)]) = hist_end start h + dl.
Proof.
  revert start. induction h as [|[[[l0 t0] d0] tot0] h IH]; intros start H N; cbn in *; [auto|].
  destruct H as [H1 [H2 H3]]. destruct (IH tot0 H3 N) as [A B]. auto.
Qed.

Lemma dev_add_value_ValInv nw l v x : ValInv x -> ValInv (dev_add_value nw l v x).
Proof.
  intros [H E]. unfold dev_add_value. destruct (Z.eqb_spec v 0) as [->|N]; [split; assumption|].
  unfold ValInv. cbn. rewrite E. destruct (hist_snoc 0 (d_vhist x) l nw v H N) as [A B].
  rewrite (Z.add_comm v). split; [exact A|]. rewrite B. lia.
Qed.

Lemma stable_ValInv nw : stable nw ValInv.
Proof.
  split.
  - intros g f Pr x G HI. destruct Pr; try exact HI.
    + unfold dev_set_wait. destruct (negb a); [exact HI|]. destruct (d_wait_since x); [destruct b|]; exact HI.
    + unfold t_map_slot. destruct slot; exact HI.
    + (* sink receives a part *)
      unfold t_accept_sink. cbv zeta.
      match goal with |- ValInv (?y <| d_collected ::= _ |> <| d_delivered ::= _ |>) => assert (V : ValInv y) end.
      { apply dev_add_value_ValInv. exact HI. }
      exact V.
    + unfold t_buf_pop. destruct (d_buf x) as [|[t it] r]; [exact HI|]. destruct (0 <? _); exact HI.
    + (* source supplies a part *)
      unfold t_supplied.
      match goal with |- ValInv (?y <| d_cost_produced ::= _ |>) => assert (V : ValInv y) end.
      { apply dev_add_value_ValInv. exact HI. }
      exact V.
  - intros pid f Hid x HI. exact HI.
Qed.

(** * relational lifting: how a device can change during one event action *)
Section Rel.
  Variable nw : Z.
  Variable Inv : dev -> Prop.
  Variable Q : dev -> dev -> Prop.
  Hypothesis Q_refl : forall x, Q x x.
  Hypothesis Q_trans : forall x y z, Q x y -> Q y z -> Q x z.
  Hypothesis Inv_stable : stable nw Inv.
  Hypothesis Q_prim : forall g f, dprim nw g f -> forall x, g x -> Inv x -> Q x (f x).
  Hypothesis Q_parts : forall pid f, (forall p, p_id (f p) = p_id p) -> forall x, Inv x -> Q x (upd_part_in_dev pid f x).

  Theorem RD_rel w w' : RD nw w w' -> DevInv Inv w ->
    forall d x, aget d (f_devs w) = Some x -> exists x', aget d (f_devs w') = Some x' /\ Q x x'.
  Proof.
    intro HR. induction HR as [|w1 w2 w3 S HR IH]; intros HI d x Hx; [exists x; auto|].
    assert (I2 : DevInv Inv w2).
    { eapply RD_DevInv; [exact Inv_stable| |exact HI]. econstructor; [exact S|constructor]. }
    assert (G : exists x2, aget d (f_devs w2) = Some x2 /\ Q x x2).
    { destruct S as [w0 d0 g f Pr G|w0 w0' E _|w0 pid f Hid].
      - unfold updd, setd. cbn. rewrite aget_arepl. destruct (Z.eqb_spec d d0) as [->|N]; cbn.
        + unfold amem. rewrite Hx. rewrite (getd_some w0 d0 x Hx) in *. eexists. split; [reflexivity|].
          apply (Q_prim g f Pr x G). apply (HI d0 x Hx).
        + exists x. auto.
      - rewrite E. exists x. auto.
      - unfold upd_part_everywhere. cbn. exists (upd_part_in_dev pid f x). split.
        + clear - Hx. induction (f_devs w0) as [|[k y] l IHl]; cbn in *; [discriminate|].
          destruct (d =? k); [injection Hx as ->; reflexivity|auto].
        + apply Q_parts; [exact Hid|apply (HI d x Hx)]. }
    destruct G as [x2 [H2 Q2]]. destruct (IH I2 d x2 H2) as [x' [H' Q']]. exists x'. split; [exact H'|eapply Q_trans; eauto].
  Qed.

  Theorem R_rel n w w' : R n nw w w' -> DevInv Inv w ->
    forall d x, aget d (f_devs w) = Some x -> exists x', aget d (f_devs w') = Some x' /\ Q x x'.
  Proof. intro HR. apply RD_rel. eapply R_RD, HR. Qed.
End Rel.

(** * C05: parts leave a buffer in arrival order and never before their minimum delay *)
Definition buf_keys (x : dev) : list (Z * Z) := map (fun e => (fst e, item_id (snd e))) (d_buf x).

(** how the stored entries (arrival time, item id) of a buffer can change during one event action at
    time [nw]: nothing, an arrival stamped [nw] joins at the back, or the head — and only the head —
    leaves, and only if its minimum delay has elapsed *)
Inductive fifo (nw : Z) : dev -> dev -> Prop :=
| ff_same x x' : buf_keys x' = buf_keys x -> d_min_delay x' = d_min_delay x -> fifo nw x x'
| ff_push x x' id : buf_keys x' = buf_keys x ++ [(nw, id)] -> d_min_delay x' = d_min_delay x -> fifo nw x x'
| ff_pop x x' t id : buf_keys x = (t, id) :: buf_keys x' -> d_min_delay x <= nw - t -> d_min_delay x' = d_min_delay x -> fifo nw x x'
| ff_trans x y z : fifo nw x y -> fifo nw y z -> fifo nw x z.

Lemma buf_keys_upd pid f x : (forall p, p_id (f p) = p_id p) -> buf_keys (upd_part_in_dev pid f x) = buf_keys x.
Proof.
  intro Hid. unfold buf_keys. cbn. rewrite map_map. apply map_ext. intros [t it]. cbn. f_equal.
  destruct it as [p|b ps]; cbn; [destruct (p_id p =? pid)|destruct (p_id b =? pid)]; cbn; auto; apply Hid.
Qed.

Lemma fifo_prim nw g f : dprim nw g f -> forall x, g x -> fifo nw x (f x).
Proof.
  intros Pr x G. destruct Pr; try (apply ff_same; reflexivity).
  - unfold dev_set_wait; destruct (negb a); [|destruct (d_wait_since x); [destruct b|]]; apply ff_same; reflexivity.
  - unfold t_map_slot; destruct slot; apply ff_same; reflexivity.
  - unfold t_accept_sink, t_accept; cbv zeta; unfold dev_add_value; destruct (item_value it =? 0); apply ff_same; reflexivity.
  - (* store *) apply (ff_push nw x _ (item_id it)); [|reflexivity]. unfold buf_keys. cbn. rewrite map_app. reflexivity.
  - (* pop *) unfold t_buf_pop. destruct (d_buf x) as [|[t0 it] rest] eqn:B; [apply ff_same; reflexivity|].
    destruct (Z.ltb_spec 0 (d_min_delay x - (nw - t0))); [apply ff_same; reflexivity|].
    apply (ff_pop nw x _ t0 (item_id it)); [unfold buf_keys; rewrite B; reflexivity|lia|reflexivity].
  - unfold t_supplied, dev_add_value; destruct (- v =? 0); apply ff_same; reflexivity.
Qed.

(** during any event action, every device's stored entries evolve by FIFO steps only *)
Theorem exec_fifo nw fuel uops a w d x :
  aget d (f_devs w) = Some x ->
  exists x', aget d (f_devs (exec_fact fuel uops a w nw)) = Some x' /\ fifo nw x x'.
Proof.
  intro Hx.
  apply (R_rel nw (fun _ => True) (fifo nw)) with (n := MFull) (w := w).
  - intro y. apply ff_same; reflexivity.
  - intros y1 y2 y3. apply ff_trans.
  - split; auto.
  - intros g f Pr y G _. apply (fifo_prim nw g f Pr y G).
  - intros pid f Hid y _. apply ff_same; [apply buf_keys_upd, Hid|reflexivity].
  - apply R_exec_fact. reflexivity.
  - intros d0 y _. exact Logic.I.
  - exact Hx.
Qed.

(** * C17: a batcher offers single parts (no size configured) or batches of exactly n parts, and its
      unfinished batch always has fewer than n parts *)
Definition BatchInv (x : dev) : Prop :=
  d_kind x = KBatcher ->
  match d_batch_size x with
  | None => (forall it, d_out x = Some it -> is_batch it = false)
  | Some n =>
    1 <= n /\
    (forall it, d_out x = Some it -> is_batch it = true /\ item_count it = n) /\
    (forall it, d_inprog x = Some it -> is_batch it = true /\ item_count it < n)
  end.

Lemma app_length_Z {X} (l : list X) (p : X) : Z.of_nat (length (l ++ [p])) = Z.of_nat (length l) + 1.
Proof. rewrite app_length. cbn. lia. Qed.

Lemma stable_BatchInv nw : stable nw BatchInv.
Proof.
  split.
  - intros g f Pr x G HI. unfold BatchInv in *. rewrite (dprim_kind nw g f Pr x). intro K. specialize (HI K).
    destruct Pr; cbn beta in G; norm_prim x; cbn; try exact HI; try solve [exfalso; intuition congruence].
    (* map_slot on the output slot keeps the shape of the item *)
    all: try (match goal with Hs : same_ids _ |- _ =>
                destruct (d_batch_size x) as [n|];
                [destruct HI as [HN [HO HP]]; split; [exact HN|]; split; [|exact HP]; intros it E;
                 destruct (d_out x) as [it0|]; cbn in E; [|discriminate]; injection E as <-;
                 destruct (Hs it0) as [_ [_ [C B]]]; rewrite C, B; apply HO; reflexivity
                |intros it E; destruct (d_out x) as [it0|]; cbn in E; [|discriminate]; injection E as <-;
                 destruct (Hs it0) as [_ [_ [_ B]]]; rewrite B; apply HI; reflexivity] end).
    (* clear_out *)
    all: try (destruct (d_batch_size x); [destruct HI as [HN [_ HP]]; split; [exact HN|split; [intros it E; discriminate|exact HP]]|intros it E; discriminate]).
    (* single *)
    all: try (destruct G as [_ [_ [BS _]]]; rewrite BS; intros it E; injection E as <-; reflexivity).
    (* full batch *)
    all: try (destruct G as [_ [_ [BS [LE [_ IP]]]]]; rewrite BS in *; destruct HI as [HN [HO HP]]; split; [exact HN|]; split; [|intros it E; discriminate];
              intros it E; injection E as <-; split; [reflexivity|]; cbn; rewrite app_length_Z in *;
              destruct IP as [IP|[-> _]]; [destruct (HP _ IP) as [_ LT]; cbn in LT; lia|cbn in *; lia]).
    (* still filling *)
    all: destruct G as [_ [_ [BS [LT _]]]]; rewrite BS in *; destruct HI as [HN [HO HP]]; split; [exact HN|]; split; [exact HO|];
         intros it E; injection E as <-; split; [reflexivity|exact LT].
  - intros pid f Hid x HI. unfold BatchInv in *. cbn. intro K. specialize (HI K).
    destruct (d_batch_size x) as [n|].
    + destruct HI as [HN [HO HP]]. split; [exact HN|]. split; intros it E.
      * destruct (d_out x) as [it0|]; cbn in E; [|discriminate]. injection E as <-.
        destruct (upd_item_same_shape pid f it0 Hid) as [C [B _]]. rewrite C, B. apply HO. reflexivity.
      * destruct (d_inprog x) as [it0|]; cbn in E; [|discriminate]. injection E as <-.
        destruct (upd_item_same_shape pid f it0 Hid) as [C [B _]]. rewrite C, B. apply HP. reflexivity.
    + intros it E. destruct (d_out x) as [it0|]; cbn in E; [|discriminate]. injection E as <-.
      destruct (upd_item_same_shape pid f it0 Hid) as [_ [B _]]. rewrite B. apply HI. reflexivity.
Qed.


(** * C13: processor state and the accounting clocks *)
Definition AcctInv (x : dev) : Prop :=
  d_kind x = KProcessor ->
  (d_shut x = true <-> d_last_restore x = None) /\
  (d_last_use x <> None <-> (d_shut x = false /\ d_part x <> None)).

Lemma stable_AcctInv nw : stable nw AcctInv.
Proof.
  split.
  - intros g f Pr x G HI. unfold AcctInv in *. rewrite (dprim_kind nw g f Pr x). intro K. specialize (HI K). destruct HI as [HS HU].
    destruct Pr; cbn beta in G; norm_prim x; cbn; try (split; [exact HS|exact HU]); try solve [exfalso; intuition congruence].
    all: try solve [split; [exact HS|]; destruct (d_part x); cbn; intuition congruence].
    all: try solve [split; [intuition congruence|]; destruct (d_part x); intuition congruence].
    all: try solve [split; [intuition congruence|]; intuition congruence].
  - intros pid f Hid x HI. unfold AcctInv in *. cbn. intro K. specialize (HI K). destruct HI as [HS HU]. split; [exact HS|].
    destruct (d_part x); cbn; intuition congruence.
Qed.

(** the totals the getters report: accumulated time plus the running stretch *)
Definition up_total (nw : Z) (x : dev) : Z := d_uptime x + match d_last_restore x with Some t => nw - t | None => 0 end.
Definition use_total (nw : Z) (x : dev) : Z := d_inuse x + match d_last_use x with Some t => nw - t | None => 0 end.

Definition acct_rel (nw : Z) (x x' : dev) : Prop :=
  d_kind x' = d_kind x /\
  (d_kind x = KProcessor -> up_total nw x' = up_total nw x /\ use_total nw x' = use_total nw x).

Lemma acct_prim nw g f : dprim nw g f -> forall x, g x -> AcctInv x -> acct_rel nw x (f x).
Proof.
  intros Pr x G HI. split; [apply (dprim_kind nw g f Pr)|]. intro K. specialize (HI K). destruct HI as [HS HU]. unfold up_total, use_total.
  destruct Pr; cbn beta in G; norm_prim x; cbn;
    repeat match goal with H : ?t = _ |- context[match ?t with _ => _ end] => rewrite H end;
    try (split; reflexivity); try solve [exfalso; intuition congruence]; try (split; lia).
  all: try solve [exfalso; destruct (d_part x); intuition congruence].
  all: try solve [destruct (d_part x); split; lia].
Qed.

(** uptime and utilisation, as the getters report them, are unchanged by any event action at the
    instant it runs: shutdown / restore / accept / finish / fail only move time between the accumulated
    part and the running stretch *)
Theorem exec_acct nw fuel uops a w d x :
  DevInv AcctInv w -> aget d (f_devs w) = Some x ->
  exists x', aget d (f_devs (exec_fact fuel uops a w nw)) = Some x' /\ acct_rel nw x x'.
Proof.
  intros HI Hx.
  apply (R_rel nw AcctInv (acct_rel nw)) with (n := MFull) (w := w); auto.
  - intro y. split; [reflexivity|auto].
  - intros y1 y2 y3 [K1 A1] [K2 A2]. split; [congruence|]. intro K. destruct (A1 K) as [U1 S1].
    rewrite <- K1 in K. destruct (A2 K) as [U2 S2]. split; congruence.
  - apply stable_AcctInv.
  - intros g f Pr y G I. apply (acct_prim nw g f Pr y G I).
  - intros pid f Hid y _. split; [reflexivity|]. intros _. split; reflexivity.
  - apply R_exec_fact. reflexivity.
Qed.

(** between two events the clock advances by [dt]: uptime grows by dt exactly while the processor is
    operational, utilisation exactly while it is operational and has a part in process *)
Theorem time_advance_acct nw dt x :
  AcctInv x -> d_kind x = KProcessor ->
  up_total (nw + dt) x = up_total nw x + (if d_shut x then 0 else dt) /\
  use_total (nw + dt) x = use_total nw x +
    (if negb (d_shut x) && (match d_part x with Some _ => true | None => false end) then dt else 0).
Proof.
  intros HI K. destruct (HI K) as [HS HU]. unfold up_total, use_total. split.
  - destruct (d_last_restore x) eqn:LR; destruct (d_shut x) eqn:SH; try lia.
    + exfalso. destruct HS as [HS _]. specialize (HS eq_refl). discriminate.
    + exfalso. destruct HS as [_ HS]. specialize (HS eq_refl). discriminate.
  - destruct (d_last_use x) eqn:LU; destruct (d_shut x) eqn:SH; destruct (d_part x) eqn:P; cbn; try lia;
      exfalso; intuition congruence.
Qed.

(** * C16: a source is worth minus the value of the parts it supplied, a sink the value of the parts it received *)
Definition EndValInv (x : dev) : Prop :=
  (d_kind x = KSource -> d_value x = - d_cost_produced x) /\
  (d_kind x = KSink -> d_value x = d_value_received x).

Lemma stable_EndValInv nw : stable nw EndValInv.
Proof.
  split.
  - intros g f Pr x G [HS HK]. unfold EndValInv. rewrite (dprim_kind nw g f Pr x).
    destruct Pr; cbn beta in G; norm_prim x; cbn; try (split; assumption).
    all: try solve [split; intro K; [specialize (HS K)|specialize (HK K)]; try lia; exfalso; intuition congruence].
  - intros pid f Hid x HI. exact HI.
Qed.

Local Arguments Z.add : simpl never.
Local Arguments Z.sub : simpl never.

(** what the two value-changing transformers do *)
Lemma supplied_value nw v x :
  d_value (t_supplied nw v x) = d_value x - v /\ d_cost_produced (t_supplied nw v x) = d_cost_produced x + v /\
  d_produced (t_supplied nw v x) = d_produced x + 1.
Proof. unfold t_supplied, dev_add_value. destruct (Z.eqb_spec (- v) 0); cbn; repeat split; lia. Qed.

Lemma sink_accept_value nw it x :
  d_value (t_accept_sink nw it x) = d_value x + item_value it /\
  d_received (t_accept_sink nw it x) = d_received x + item_count it /\
  d_collected (t_accept_sink nw it x) = (if d_collect x then d_collected x ++ [it] else d_collected x).
Proof. unfold t_accept_sink, t_accept, dev_add_value. cbv zeta. destruct (Z.eqb_spec (item_value it) 0); cbn; repeat split; lia. Qed.
