(** The dispatch log of the event-system model (the event trace of Environment): every step puts exactly the event it takes
    off the queue at the front of the log; scheduling, pausing, resuming, cancelling and recording data never touch it. *)
From Coq Require Import ZArith List Bool Lia.
From SimVerif Require Import Model.Base Model.Env.
Import ListNotations.
Open Scope Z_scope.

Section EnvTrace.
  Variables (A W : Type) (ws : nat -> Z) (exec : A -> W -> Z -> W * list (cmd A)) (wfail : W -> bool).

  Lemma apply_cmd_dispatched (en : env A) c : dispatched (res_val (apply_cmd ws en c)) = dispatched en.
  Proof. destruct c; cbn; try reflexivity. unfold schedule. destruct (t <? now en); reflexivity. Qed.

  Lemma apply_cmds_dispatched cs : forall en : env A, dispatched (res_val (apply_cmds ws en cs)) = dispatched en.
  Proof.
    induction cs as [|c cs IH]; intro en; cbn; [reflexivity|].
    pose proof (apply_cmd_dispatched en c) as X. destruct (apply_cmd ws en c) as [en1|en1]; cbn in *; [rewrite IH; exact X|exact X].
  Qed.

  Theorem step_dispatch_log w (en : env A) e q r :
    queue en = e :: q -> step ws exec wfail (w, en) = Some r -> dispatched (snd (res_val r)) = e :: dispatched en.
  Proof.
    intros Q H. unfold step in H. rewrite Q in H.
    destruct (e_cancelled e); [injection H as <-; reflexivity|].
    destruct (e_act e) as [a|]; [|injection H as <-; reflexivity].
    destruct (exec a w (e_time e)) as [w' cs].
    match type of H with context[apply_cmds ws ?en1 cs] => pose proof (apply_cmds_dispatched cs en1) as X; destruct (apply_cmds ws en1 cs) as [en2|en2] end;
      [destruct (wfail w')|]; injection H as <-; exact X.
  Qed.

  Theorem loop_dispatch_log fuel : forall s r, loop ws exec wfail fuel s = Some r ->
    exists l, dispatched (snd (res_val r)) = l ++ dispatched (snd s).
  Proof.
    induction fuel as [|f IH]; intros [w en] r H; cbn [loop snd] in H.
    - destruct (queue en); [injection H as <-; exists []; reflexivity|]. destruct (terminated en); [injection H as <-; exists []; reflexivity|discriminate].
    - destruct (queue en) as [|e q] eqn:Q; [injection H as <-; exists []; reflexivity|]. destruct (terminated en); [injection H as <-; exists []; reflexivity|].
      destruct (step ws exec wfail (w, en)) as [[s1|s1]|] eqn:ST.
      + destruct (IH s1 r H) as [l Hl]. pose proof (step_dispatch_log w en e q (Ok s1) Q ST) as X. cbn in X. exists (l ++ [e]). rewrite Hl, X, <- app_assoc. reflexivity.
      + injection H as <-. pose proof (step_dispatch_log w en e q (Err s1) Q ST) as X. exists [e]. exact X.
      + injection H as <-. exists []. reflexivity.
  Qed.
End EnvTrace.
