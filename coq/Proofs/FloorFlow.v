(** Direct consequences of the floor model's definitions: cycle timers, routing guards,
    wake-up signals and record emission.  No recursion over the device graph is needed here. *)
From Coq Require Import ZArith List Bool Lia Sorting.Permutation Sorting.Sorted.
From RecordUpdate Require Import RecordUpdate.
From SimVerif Require Import Model.Base Model.Env Model.RM Model.Maint Model.FloorTypes Model.Floor.
From SimVerif Require Import Proofs.FloorSteps Proofs.FloorInv Proofs.FloorProc.
Import ListNotations.
Open Scope Z_scope.

(** * cycle timers (C06) *)
Definition next_cycle (x : dev) : Z := Z.max 0 (d_cycle x + d_offset x).

Lemma sched_finish_timer fuel nw w d :
  0 < next_cycle (getd w d) ->
  sched_finish fuel nw w d =
  emitf (updd w d t_reset_offset) (FSched (nw + next_cycle (getd w d)) P_FINISH_PROCESSING d (AFinishCycle d)).
Proof.
  intro H. unfold sched_finish. fold (next_cycle (getd w d)).
  destruct (Z.leb_spec (next_cycle (getd w d)) 0); [lia|reflexivity].
Qed.

Lemma sched_finish_now fuel nw w d :
  next_cycle (getd w d) = 0 -> sched_finish fuel nw w d = finish_cycle fuel nw (updd w d t_reset_offset) d.
Proof. intro H. unfold sched_finish. fold (next_cycle (getd w d)). rewrite H. reflexivity. Qed.

Lemma next_cycle_nonneg x : 0 <= next_cycle x.
Proof. unfold next_cycle. lia. Qed.

(** the offset is one-shot: consumed by the cycle it was set for *)
Lemma offset_consumed fuel nw w d :
  amem d (f_devs w) = true -> 0 < next_cycle (getd w d) ->
  d_offset (getd (sched_finish fuel nw w d) d) = 0 /\ d_cycle (getd (sched_finish fuel nw w d) d) = d_cycle (getd w d).
Proof.
  intros M H. rewrite sched_finish_timer by exact H.
  change (getd (emitf ?a ?c) d) with (getd a d). rewrite getd_updd, Z.eqb_refl, M. cbn. auto.
Qed.

Definition single_slot (k : kind) : bool := match k with KHandler | KProcessor | KSink => true | _ => false end.

(** a FINISH event finds exactly one part in process, an empty output slot and an operational device;
    anything else is the AssertionError of the code: no part is finished twice, none while shut down *)
Lemma finish_cycle_needs fuel nw w d :
  single_slot (d_kind (getd w d)) = true ->
  (d_part (getd w d) = None \/ d_out (getd w d) <> None \/ operational (getd w d) = false) ->
  finish_cycle fuel nw w d = failf w E_ASSERT.
Proof.
  intros K H. unfold finish_cycle.
  destruct (d_kind (getd w d)) eqn:KK; try discriminate;
  (destruct (operational (getd w d)) eqn:OP; cbn [negb]; [|reflexivity];
   destruct (d_part (getd w d)) eqn:P; [|reflexivity];
   destruct (d_out (getd w d)) eqn:O; [reflexivity|];
   destruct H as [H|[H|H]]; congruence).
Qed.

(** * what an action appends to the environment-call list *)
Definition out_ext (w w' : fw) : Prop := exists l, f_out w' = l ++ f_out w.

Lemma out_ext_refl w : out_ext w w. Proof. exists []. reflexivity. Qed.
Lemma out_ext_trans a b c : out_ext a b -> out_ext b c -> out_ext a c.
Proof. intros [l1 H1] [l2 H2]. exists (l2 ++ l1). rewrite H2, H1, app_assoc. reflexivity. Qed.

Lemma out_ext_maint_call w mid f : out_ext w (maint_call w mid f).
Proof. unfold maint_call. eexists. cbn. reflexivity. Qed.

Lemma out_ext_run_cbop nw d slot isf lost w o : out_ext w (run_cbop nw d slot isf lost w o).
Proof.
  unfold run_cbop. destruct (negb (okf w)); [apply out_ext_refl|].
  destruct o; try (exists []; reflexivity); try apply out_ext_maint_call.
  - destruct (if slot then _ else _); [|apply out_ext_refl]. destruct (is_batch i); [|exists []; reflexivity].
    unfold failf. destruct (_ =? 0); exists []; reflexivity.
  - destruct isf; [apply out_ext_maint_call|apply out_ext_refl].
Qed.

Lemma out_ext_run_cbops nw d slot isf lost ops : forall w, out_ext w (run_cbops nw d slot isf lost ops w).
Proof.
  unfold run_cbops. induction ops as [|o ops IH]; intro w; cbn; [apply out_ext_refl|].
  eapply out_ext_trans; [apply out_ext_run_cbop|apply IH].
Qed.

(** shutting an operational processor down pauses its events (maintenance) or cancels them (failure) *)
Lemma shutdown_cmd nw isf lost w d :
  d_kind (getd w d) = KProcessor -> d_shut (getd w d) = false ->
  exists l, f_out (shutdown nw isf lost w d) = l ++ (if isf then FCancel d else FPause d) :: f_out w.
Proof.
  intros K S. unfold shutdown, is_processor. rewrite K, S. cbn [negb].
  destruct (out_ext_run_cbops nw d true isf lost (d_on_shutdown (getd w d))
              (emitf (updd w d (t_shutdown nw)) (if isf then FCancel d else FPause d))) as [l H].
  exists l. rewrite H. reflexivity.
Qed.

(** a failure while already shut down cancels the paused cycle too (the repaired behaviour, D4) *)
Lemma shutdown_failure_while_shut nw lost w d :
  d_kind (getd w d) = KProcessor -> d_shut (getd w d) = true ->
  exists l, f_out (shutdown nw true lost w d) = l ++ FCancel d :: f_out w.
Proof.
  intros K S. unfold shutdown, is_processor. rewrite K, S. cbn [negb].
  destruct (out_ext_run_cbops nw d true true lost (d_on_shutdown (getd w d)) (emitf w (FCancel d))) as [l H].
  exists l. rewrite H. reflexivity.
Qed.

(** * routing guards (C08) *)
Lemma gate_refuses f nw w d it :
  f_err w = 0 -> d_kind (getd w d) = KGate -> decide (d_decider (getd w d)) it = false -> give (S f) nw w d it = (w, false).
Proof. intros E K D. cbn [give]. unfold okf. rewrite E, K, D. reflexivity. Qed.

Lemma blocked_refuses f nw w d it :
  f_err w = 0 -> d_block (getd w d) = true -> d_kind (getd w d) <> KGroupOut -> give (S f) nw w d it = (w, false).
Proof.
  intros E B K. cbn [give]. unfold okf. rewrite E. cbn [Z.eqb negb].
  destruct (d_kind (getd w d)) eqn:KK; try congruence;
    unfold proc_can_accept, handler_can_accept; rewrite ?B; cbn [negb andb];
    rewrite ?andb_false_r; cbn [negb andb]; rewrite ?andb_false_r; cbn [negb andb]; try reflexivity.
  destruct (negb (decide _ _)); reflexivity.
Qed.

(** the routing history of what a device stores is the offered item's history followed by the device itself *)
Lemma add_hist_parts d it : map p_hist (item_parts (item_add_hist d it)) = map (fun p => p_hist p ++ [d]) (item_parts it).
Proof. destruct it as [p|b ps]; cbn; [reflexivity|]. rewrite map_map. reflexivity. Qed.
Lemma add_hist_head d it : p_hist (item_head (item_add_hist d it)) = p_hist (item_head it) ++ [d].
Proof. destruct it; reflexivity. Qed.
Lemma add_hist_ids d it : item_id (item_add_hist d it) = item_id it /\ map p_id (item_parts (item_add_hist d it)) = map p_id (item_parts it).
Proof. destruct it as [p|b ps]; cbn; [auto|]. split; [reflexivity|]. rewrite map_map. reflexivity. Qed.

(** hand-overs go only to configured downstream neighbours, each exactly once, the longest idle first *)
Lemma ins_sorted_perm k d l : Permutation (ins_sorted k d l) ((k, d) :: l).
Proof.
  induction l as [|[k' d'] l IH]; cbn; [reflexivity|].
  destruct (key_le k' k); [|reflexivity].
  rewrite IH. apply perm_swap.
Qed.

Lemma sorted_down_perm fuel w d : Permutation (sorted_down fuel w d) (d_down (getd w d)).
Proof.
  unfold sorted_down.
  assert (G : forall l acc, Permutation (map snd (fold_left (fun acc d' => ins_sorted (wait_time fuel w [] d') d' acc) l acc)) (map snd acc ++ l)).
  { induction l as [|a l IH]; intro acc; cbn; [rewrite app_nil_r; reflexivity|].
    rewrite IH. rewrite (Permutation_map snd (ins_sorted_perm _ a acc)). cbn.
    change (a :: map snd acc ++ l) with ((a :: map snd acc) ++ l). rewrite (Permutation_middle (map snd acc) l a). reflexivity. }
  rewrite G. reflexivity.
Qed.

Lemma key_le_total a b : key_le a b = true \/ key_le b a = true.
Proof. destruct a, b; cbn; auto. destruct (Z.leb_spec z z0); [auto|right; apply Z.leb_le; lia]. Qed.
Lemma key_le_trans a b c : key_le a b = true -> key_le b c = true -> key_le a c = true.
Proof. destruct a, b, c; cbn; auto; try discriminate. intros H1 H2. apply Z.leb_le in H1, H2. apply Z.leb_le. lia. Qed.

Definition keys_sorted (l : list (option Z * Z)) : Prop := StronglySorted (fun a b => key_le (fst a) (fst b) = true) l.

Lemma ins_sorted_sorted k d l : keys_sorted l -> keys_sorted (ins_sorted k d l).
Proof.
  unfold keys_sorted. induction 1 as [|[k' d'] l S IH F]; cbn; [repeat constructor|].
  destruct (key_le k' k) eqn:E.
  - constructor; [exact IH|]. rewrite Forall_forall in *. intros x Hx.
    apply (Permutation_in _ (ins_sorted_perm k d l)) in Hx. destruct Hx as [<-|Hx]; [exact E|apply F, Hx].
  - constructor; [constructor; assumption|].
    assert (E' : key_le k k' = true) by (destruct (key_le_total k k'); congruence).
    constructor; [exact E'|]. rewrite Forall_forall in *. intros x Hx. eapply key_le_trans; [exact E'|apply F, Hx].
Qed.

(** [sorted_down] offers to downstream devices in non-decreasing order of their idle-since time
    (never idle = last): the one that has been idle longest is tried first *)
Lemma sorted_down_order fuel w d :
  exists keyed, sorted_down fuel w d = map snd keyed /\ keys_sorted keyed /\
                forall k d', In (k, d') keyed -> k = wait_time fuel w [] d'.
Proof.
  unfold sorted_down.
  set (F := fun acc d' => ins_sorted (wait_time fuel w [] d') d' acc).
  assert (G : forall l acc, keys_sorted acc -> (forall k d', In (k, d') acc -> k = wait_time fuel w [] d') ->
               keys_sorted (fold_left F l acc) /\ forall k d', In (k, d') (fold_left F l acc) -> k = wait_time fuel w [] d').
  { induction l as [|a l IH]; intros acc S K; cbn; [auto|]. apply IH.
    - apply ins_sorted_sorted, S.
    - intros k d' Hin. apply (Permutation_in _ (ins_sorted_perm _ a acc)) in Hin. destruct Hin as [Hin|Hin]; [congruence|apply K, Hin]. }
  destruct (G (d_down (getd w d)) [] ltac:(constructor) ltac:(intros ? ? [])) as [S K].
  eexists. split; [reflexivity|]. split; assumption.
Qed.

(** * wake-ups (C03) *)
(** a refused hand-over leaves the waiting flag set ... *)
Lemma handler_pass_refused fuel nw w d w' :
  handler_pass fuel nw w d = (w', false) -> d_out (getd w d) <> None -> operational (getd w d) = true ->
  amem d (f_devs w) = true -> d_waiting_ds (getd w' d) = true.
Proof.
  unfold handler_pass. intros H O OP M. destruct (d_out (getd w d)) as [it|]; [|congruence]. rewrite OP in H. cbn [negb] in H.
  pose proof (R_try_downstream nw MFull fuel w d it ltac:(discriminate)) as RT.
  destruct (try_downstream fuel nw w d it) as [w1 ok]. cbn [fst] in RT. destruct ok; [discriminate|].
  injection H as <-. rewrite getd_updd, Z.eqb_refl. rewrite (R_amem nw MFull w w1 RT d), M. reflexivity.
Qed.

(** ... and a waiting operational device that is told about space downstream schedules a new attempt at this very instant *)
Lemma wakeup_schedules f nw w d :
  is_holder (d_kind (getd w d)) = true -> d_kind (getd w d) <> KSink ->
  operational (getd w d) = true -> d_waiting_ds (getd w d) = true ->
  signal (S f) nw false w d = emitf (updd w d (t_waiting_ds false)) (FSched (Z.max 0 (nw + 0)) P_PASS_PART d (APassPart d)).
Proof.
  intros H NS OP WD. cbn [signal]. destruct (d_kind (getd w d)) eqn:K; try discriminate; try congruence;
  rewrite OP, WD; cbn [andb]; unfold sched_pass; rewrite K; reflexivity.
Qed.

(** the unblocking actions all end in such a signal or attempt *)
Lemma restore_wakes fuel nw w d :
  d_kind (getd w d) = KProcessor -> d_shut (getd w d) = true ->
  exists w1, w1 = emitf (updd w d (t_restore nw)) (FUnpause d) /\
  restore fuel nw w d =
  run_cbops nw d true false (-1) (d_on_restore (getd w d))
    (match d_out (getd w d), d_part (getd w d) with
     | Some _, _ => sched_pass nw 0 w1 d          (* a finished part: new hand-over attempt now *)
     | None, None => signal fuel nw true w1 d     (* empty: tell upstream there is space *)
     | None, Some _ => w1                         (* part in process: its paused cycle resumes *)
     end).
Proof. intros K S. eexists. split; [reflexivity|]. unfold restore, is_processor. rewrite K, S. reflexivity. Qed.

Lemma unblock_wakes fuel nw w d :
  f_err w = 0 -> d_block (getd w d) = true ->
  run_uop fuel nw w (UBlock d false) = signal fuel nw true (updd w d (t_block false)) d.
Proof. intros E B. unfold run_uop, okf. rewrite E, B. reflexivity. Qed.

Lemma budget_raise_wakes fuel nw w d b z :
  f_err w = 0 -> d_budget (getd w d) = Some b -> b - d_produced (getd w d) < 1 ->
  run_uop fuel nw w (UAdjust d z) = sched_pass nw 0 (updd w d (t_budget (Z.max (b + z) (d_produced (getd w d))))) d.
Proof.
  intros E B L. unfold run_uop, okf. rewrite E, B. cbn [Z.eqb negb].
  destruct (Z.ltb_spec (b - d_produced (getd w d)) 1); [reflexivity|lia].
Qed.

(** * the environment-call list only grows during an action (records are never removed or rewritten) *)
Lemma out_ext_rm_call w f : out_ext w (rm_call w f).
Proof.
  unfold rm_call. cbv zeta. destruct (_ =? 0); [eexists; cbn; reflexivity|].
  unfold failf. destruct (_ =? 0); eexists; cbn; reflexivity.
Qed.

Lemma wstep_out_ext n nw w w' : wstep n nw w w' -> out_ext w w'.
Proof.
  intro S. destruct S; try (exists []; reflexivity).
  - exists [c]. reflexivity.
  - unfold failf. destruct (_ =? 0); exists []; reflexivity.
  - unfold generate. destruct (gen_size (getd w d) =? 0); exists []; reflexivity.
  - apply out_ext_maint_call.
  - apply out_ext_rm_call.
  - destruct (out_ext_rm_call w (fun _ => fst (reserve nw rq (clean_rs (f_rm w))))) as [l Hl]. exists l. exact Hl.
  - destruct (out_ext_rm_call w (release_obj nw i None)) as [l Hl]. exists l. exact Hl.
Qed.

Theorem R_out_ext n nw w w' : R n nw w w' -> out_ext w w'.
Proof.
  induction 1 as [|w1 w2 w3 S _ IH]; [apply out_ext_refl|]. eapply out_ext_trans; [eapply wstep_out_ext; eauto|exact IH].
Qed.

(** * records carry the state at the moment they are written (C15) *)
(** the receive record of an acceptance: time, identity, quality and value of the part as stored *)
Lemma rec_part_payload w l d nw it :
  f_out (rec_part w l d nw it) = FData l d [nw; item_id it; item_quality it; item_value it] :: f_out w.
Proof. reflexivity. Qed.

(** a buffer's level record is written right after the level changed and carries the new level *)
Lemma buffer_accept_level_record nw w d it1 :
  let w' := updd w d (t_accept_buffer nw it1) in
  f_out (data w' L_LEVEL d [nw; d_level (getd w' d)]) = FData L_LEVEL d [nw; d_level (getd w' d)] :: f_out w.
Proof. reflexivity. Qed.

(** a failure record names the part that was lost (or -1) at the time of the failure *)
Lemma fail_record nw w d :
  d_kind (getd w d) = KProcessor ->
  exists l, f_out (fail nw w d) =
            l ++ FData L_FAILURE d [nw; match d_part (getd w d) with Some it => item_id it | None => -1 end]
              :: f_out (release_reserved nw (updd w d (t_fail_clear nw)) d).
Proof.
  intro K. unfold fail, is_processor. rewrite K. cbn [negb].
  match goal with |- context[shutdown nw true ?lost ?w3 d] =>
    destruct (R_out_ext MNeutral nw w3 (shutdown nw true lost w3 d) (R_shutdown nw MNeutral true lost w3 d)) as [l H] end.
  exists l. rewrite H. reflexivity.
Qed.

(** * more emission facts *)
(** a processor that finishes a part while holding a reservation schedules the release-if-idle event at this very instant,
    after the hand-over attempt (lower priority): the resources go back unless the next part arrives in between (C11) *)
Lemma finish_schedules_release fuel nw w d it i :
  d_kind (getd w d) = KProcessor -> d_shut (getd w d) = false -> d_part (getd w d) = Some it -> d_out (getd w d) = None ->
  d_reserved (getd w d) = Some i -> amem d (f_devs w) = true ->
  exists l l', f_out (finish_cycle fuel nw w d) =
               l ++ FSched nw P_RELEASE d (AReleaseIfIdle d) :: l' /\
               In (FSched (Z.max 0 (nw + 0)) P_PASS_PART d (APassPart d)) l'.
Proof.
  intros K S P O RV M. unfold finish_cycle. rewrite K. unfold operational. rewrite K, S, P, O. cbn [negb].
  set (w0 := updd w d (t_finish_proc nw it)).
  assert (K0 : d_kind (getd w0 d) = KProcessor).
  { unfold w0. rewrite (getd_updd_field d_kind w d (t_finish_proc nw it) d); [exact K|reflexivity]. }
  assert (SP : sched_pass nw 0 w0 d = emitf (updd w0 d (t_waiting_ds false)) (FSched (Z.max 0 (nw + 0)) P_PASS_PART d (APassPart d))).
  { unfold sched_pass. rewrite K0. reflexivity. }
  rewrite SP. set (w1 := emitf (updd w0 d (t_waiting_ds false)) (FSched (Z.max 0 (nw + 0)) P_PASS_PART d (APassPart d))).
  assert (RV1 : d_reserved (getd w1 d) = Some i).
  { unfold w1. change (getd (emitf ?a ?c) d) with (getd a d). rewrite (getd_updd_field d_reserved w0 d _ d) by reflexivity.
    unfold w0. rewrite (getd_updd_field d_reserved w d (t_finish_proc nw it) d) by reflexivity. exact RV. }
  rewrite RV1.
  set (w3 := emitf w1 (FSched nw P_RELEASE d (AReleaseIfIdle d))).
  match goal with |- context[run_cbops nw d false false (-1) ?ops w3] =>
    destruct (out_ext_run_cbops nw d false false (-1) ops w3) as [l H]; set (w4 := run_cbops nw d false false (-1) ops w3) in * end.
  assert (E : exists l2, f_out (match d_out (getd w4 d) with Some it' => rec_part w4 L_PRODUCED d nw it' | None => w4 end) = l2 ++ f_out w4).
  { destruct (d_out (getd w4 d)); [eexists [_]; reflexivity|exists []; reflexivity]. }
  destruct E as [l2 E]. exists (l2 ++ l). eexists. split.
  - rewrite E, H. unfold w3, emitf. cbn [f_out]. rewrite <- app_assoc. reflexivity.
  - unfold w1, emitf. cbn. left. reflexivity.
Qed.

(** a sink's collected list only grows at the end, in arrival order (C08) *)
Definition collected_ids (x : dev) : list Z := map item_id (d_collected x).
Definition coll_ext (x x' : dev) : Prop := exists l, collected_ids x' = collected_ids x ++ l.

Lemma coll_ext_refl x : coll_ext x x. Proof. exists []. rewrite app_nil_r. reflexivity. Qed.
Lemma coll_ext_trans x y z : coll_ext x y -> coll_ext y z -> coll_ext x z.
Proof. intros [a A] [b B]. exists (a ++ b). rewrite B, A, app_assoc. reflexivity. Qed.

Lemma coll_same x x' : d_collected x' = d_collected x -> coll_ext x x'.
Proof. intro E. exists []. unfold collected_ids. rewrite E, app_nil_r. reflexivity. Qed.

Lemma coll_prim nw g f : dprim nw g f -> forall x, g x -> coll_ext x (f x).
Proof.
  intros Pr x G. destruct Pr; try (apply coll_same; reflexivity).
  - apply coll_same. unfold dev_set_wait. destruct (negb a); [reflexivity|]. destruct (d_wait_since x); [destruct b|]; reflexivity.
  - apply coll_same. unfold t_map_slot. destruct slot; reflexivity.
  - unfold t_accept_sink. cbv zeta. unfold coll_ext, collected_ids, dev_add_value, t_accept, dev_set_wait.
    destruct (item_value it =? 0); cbn; destruct (d_collect x); try (exists []; rewrite app_nil_r; reflexivity);
      (exists [item_id it]; rewrite map_app; reflexivity).
  - apply coll_same. unfold t_buf_pop. destruct (d_buf x) as [|[t it] r]; [reflexivity|]. destruct (0 <? _); reflexivity.
  - apply coll_same. unfold t_supplied, dev_add_value. destruct (- v =? 0); reflexivity.
Qed.

Lemma upd_item_id pid f it : (forall p, p_id (f p) = p_id p) -> item_id (upd_part_in_item pid f it) = item_id it.
Proof. intro H. destruct it as [p|b ps]; unfold item_id; cbn; [destruct (p_id p =? pid)|destruct (p_id b =? pid)]; try reflexivity; apply H. Qed.

Theorem exec_collected nw fuel uops a w d x :
  aget d (f_devs w) = Some x ->
  exists x', aget d (f_devs (exec_fact fuel uops a w nw)) = Some x' /\ coll_ext x x'.
Proof.
  intro Hx. apply (R_rel nw (fun _ => True) coll_ext) with (n := MFull) (w := w).
  - apply coll_ext_refl.
  - apply coll_ext_trans.
  - split; intros; exact I.
  - intros g f Pr y G _. apply (coll_prim nw g f Pr y G).
  - intros pid f Hid y _. unfold coll_ext, collected_ids, upd_part_in_dev. cbn. exists []. rewrite app_nil_r, map_map.
    apply map_ext. intro it. apply upd_item_id, Hid.
  - apply R_exec_fact. reflexivity.
  - intros d0 y _. exact I.
  - exact Hx.
Qed.

(** * a part that stays was offered to every downstream neighbour, and every one of them refused (C03) *)
Inductive refused_all (nw : Z) (fuel : nat) (it : item) : fw -> list Z -> fw -> Prop :=
| ra_nil w : refused_all nw fuel it w [] w
| ra_cons w d' w' l w'' : give fuel nw w d' it = (w', false) -> refused_all nw fuel it w' l w'' -> refused_all nw fuel it w (d' :: l) w''.

Lemma try_list_all_refused nw fuel it : forall l w0 w1,
  fold_left (fun (acc : fw * bool) d' => if snd acc then acc else give fuel nw (fst acc) d' it) l (w0, false) = (w1, false) ->
  refused_all nw fuel it w0 l w1.
Proof.
  induction l as [|d' l IH]; intros w0 w1 H; cbn in H.
  - injection H as <-. constructor.
  - destruct (give fuel nw w0 d' it) as [w2 b2] eqn:G. destruct b2.
    + exfalso. assert (K : forall l0 (w : fw), fold_left (fun (acc : fw * bool) d0 => if snd acc then acc else give fuel nw (fst acc) d0 it) l0 (w, true) = (w, true)).
      { induction l0; intro w; cbn; auto. }
      rewrite K in H. discriminate.
    + econstructor; [exact G|apply IH, H].
Qed.

(** the hand-over attempt of a device ended with the part still there: it was offered, in the longest-idle-first order, to every
    configured downstream neighbour and each refused; the waiting flag is set (so the next signal re-attempts at once) *)
Theorem handler_pass_genuinely_blocked fuel nw w d w' it :
  handler_pass fuel nw w d = (w', false) -> d_out (getd w d) = Some it -> operational (getd w d) = true -> amem d (f_devs w) = true ->
  exists w1, refused_all nw fuel it w (sorted_down fuel w d) w1 /\ w' = updd w1 d (t_waiting_ds true) /\
             Permutation (sorted_down fuel w d) (d_down (getd w d)).
Proof.
  unfold handler_pass. intros H O OP M. rewrite O, OP in H. cbn [negb] in H.
  destruct (try_downstream fuel nw w d it) as [w1 ok] eqn:TD. destruct ok; [discriminate|]. injection H as <-.
  exists w1. split; [|split; [reflexivity|apply sorted_down_perm]].
  unfold try_downstream in TD. apply try_list_all_refused, TD.
Qed.
