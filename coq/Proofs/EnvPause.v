(** Pause / unpause / cancel: exact characterisations on an arbitrary
    environment state, idempotence, and "a cancelled action never runs in any
    continuation".  For every action behaviour and weight source. *)
From Coq Require Import ZArith List Bool Lia Sorting.Sorted Sorting.Permutation.
From SimVerif Require Import Model.Base Model.Env Proofs.Lex Proofs.EnvInv.
Import ListNotations.
Open Scope Z_scope.

Section EnvPause.
  Variable A : Type.
  Variable W : Type.
  Variable wsrc : nat -> Z.
  Variable exec : A -> W -> Z -> W * list (cmd A).
  Variable wfail : W -> bool.

  Notation event := (event A).
  Notation env := (env A).
  Notation Inv := (Inv A).
  Notation le_ev := (le_ev A).

  (** * pause *)
  Theorem pause_spec (en : env) a :
    queue (pause en a) = filter (fun e => negb (matches a e)) (queue en) /\
    paused (pause en a) = paused en ++ map (stamp (now en)) (filter (matches a) (queue en)) /\
    now (pause en a) = now en /\ next_eid (pause en a) = next_eid en /\
    dispatched (pause en a) = dispatched en /\ terminated (pause en a) = terminated en.
  Proof. repeat split. Qed.

  Lemma matches_spec a (e : event) : matches a e = true <-> e_asset e = a.
  Proof. unfold matches. apply Z.eqb_eq. Qed.

  (** exactly that asset's pending events are withheld; all others stay, untouched and in order *)
  Theorem pause_withholds (en : env) a :
    (forall e, In e (queue (pause en a)) <-> In e (queue en) /\ e_asset e <> a) /\
    (forall e, In e (queue en) -> e_asset e = a -> In (stamp (now en) e) (paused (pause en a))) /\
    (forall e, In e (paused en) -> In e (paused (pause en a))).
  Proof.
    split; [|split].
    - intro e. split.
      + intro H. cbn in H. apply filter_In in H. destruct H as [H M]. split; [exact H|].
        intro E. apply matches_spec in E. rewrite E in M. discriminate.
      + intros [H N]. cbn. apply filter_In. split; [exact H|]. destruct (matches a e) eqn:M; [|reflexivity].
        apply matches_spec in M. contradiction.
    - intros e H E. cbn. apply in_or_app. right. apply in_map. apply filter_In. split; [exact H|]. apply matches_spec, E.
    - intros e H. cbn. apply in_or_app. left. exact H.
  Qed.

  (** stamping changes nothing but the pause time *)
  Lemma stamp_fields t (e : event) :
    e_id (stamp t e) = e_id e /\ e_time (stamp t e) = e_time e /\ e_prio (stamp t e) = e_prio e /\
    e_w (stamp t e) = e_w e /\ e_asset (stamp t e) = e_asset e /\ e_act (stamp t e) = e_act e /\
    e_cancelled (stamp t e) = e_cancelled e /\ e_paused_at (stamp t e) = Some t.
  Proof. repeat split. Qed.

  Lemma filter_filter_neg (f : event -> bool) l :
    filter f (filter (fun e => negb (f e)) l) = [].
  Proof.
    induction l as [|x l IH]; cbn; [reflexivity|].
    destruct (f x) eqn:E; cbn; [exact IH|]. rewrite E. exact IH.
  Qed.

  Lemma filter_idem (f : event -> bool) l : filter f (filter f l) = filter f l.
  Proof.
    induction l as [|x l IH]; cbn; [reflexivity|].
    destruct (f x) eqn:E; cbn; [rewrite E; f_equal|]; exact IH.
  Qed.

  Theorem pause_idempotent (en : env) a : pause (pause en a) a = pause en a.
  Proof.
    unfold pause; cbn. rewrite filter_idem, filter_filter_neg. cbn. rewrite app_nil_r. reflexivity.
  Qed.

  (** * unpause *)
  Theorem unpause_spec (en : env) a :
    Permutation (queue (unpause en a)) (queue en ++ map (resumed (now en)) (filter (matches a) (paused en))) /\
    (StronglySorted le_ev (queue en) -> StronglySorted le_ev (queue (unpause en a))) /\
    paused (unpause en a) = filter (fun e => negb (matches a e)) (paused en) /\
    now (unpause en a) = now en /\ next_eid (unpause en a) = next_eid en /\
    dispatched (unpause en a) = dispatched en.
  Proof.
    split; [apply fold_insort_perm|]. split; [apply fold_insort_sorted|]. repeat split.
  Qed.

  (** the remaining delay is preserved: new time - now = old time - time of the pause *)
  Theorem resumed_delay t (e : event) p :
    e_paused_at e = Some p ->
    e_time (resumed t e) - t = e_time e - p /\ e_time (resumed t e) = e_time e + (t - p).
  Proof. intro H. cbn. unfold resume_time. rewrite H. lia. Qed.

  Lemma resumed_fields t (e : event) :
    e_id (resumed t e) = e_id e /\ e_prio (resumed t e) = e_prio e /\
    e_w (resumed t e) = e_w e /\ e_asset (resumed t e) = e_asset e /\ e_act (resumed t e) = e_act e /\
    e_cancelled (resumed t e) = e_cancelled e.
  Proof. repeat split. Qed.

  (** pause then unpause at a later time t1: every withheld event comes back at its
      original time plus the length of the pause *)
  Theorem pause_unpause_shift (e : event) t0 t1 :
    e_time (resumed t1 (stamp t0 e)) = e_time e + (t1 - t0).
  Proof. reflexivity. Qed.

  Lemma filter_none (f : event -> bool) l : filter f l = [] -> filter (fun e => negb (f e)) l = l.
  Proof.
    induction l as [|x l IH]; cbn; [reflexivity|].
    destruct (f x); [discriminate|]. intro H. cbn. f_equal. auto.
  Qed.

  Theorem unpause_nothing_paused (en : env) a :
    filter (matches a) (paused en) = [] -> unpause en a = en.
  Proof.
    intro H. unfold unpause. rewrite H. cbn. rewrite (filter_none _ _ H). destruct en; reflexivity.
  Qed.

  Theorem unpause_idempotent (en : env) a : unpause (unpause en a) a = unpause en a.
  Proof. apply unpause_nothing_paused. cbn. apply filter_filter_neg. Qed.

  (** * cancel *)
  Theorem cancel_spec (en : env) a :
    let f := fun e : event => if matches a e then cancel_ev e else e in
    queue (cancel en a) = map f (queue en) /\ paused (cancel en a) = map f (paused en) /\
    now (cancel en a) = now en /\ next_eid (cancel en a) = next_eid en /\ dispatched (cancel en a) = dispatched en /\
    (forall e, e_asset e = a -> e_cancelled (f e) = true) /\
    (forall e, e_asset e <> a -> f e = e) /\
    (forall e, e_id (f e) = e_id e /\ e_time (f e) = e_time e /\ e_prio (f e) = e_prio e /\ e_w (f e) = e_w e /\
               e_asset (f e) = e_asset e /\ e_act (f e) = e_act e /\ e_paused_at (f e) = e_paused_at e).
  Proof.
    cbn. repeat split; try (destruct (matches a e); reflexivity).
    - intros e E. apply matches_spec in E. rewrite E. reflexivity.
    - intros e N. destruct (matches a e) eqn:M; [apply matches_spec in M; contradiction|reflexivity].
  Qed.

  (** * a cancelled action never runs, in any continuation *)
  Notation state := (W * env)%type.
  Notation step := (step wsrc exec wfail).

  (** dispatching a cancelled event changes neither the world nor anything but clock/queue/trace *)
  Theorem step_cancelled_noop w (en : env) e q :
    queue en = e :: q -> e_cancelled e = true ->
    step (w, en) = Some (Ok (w, popped A en e q)).
  Proof. intros Q C. unfold Env.step. rewrite Q, C. reflexivity. Qed.

  (** [Canc i en]: every record of event id i anywhere in the environment carries the cancelled flag *)
  Definition Canc (i : nat) (en : env) : Prop :=
    forall e, In e (all_events A en) -> e_id e = i -> e_cancelled e = true.

  Definition known (i : nat) (en : env) : Prop := (i < next_eid en)%nat.

  Lemma apply_cmd_canc i (en : env) c :
    Canc i en -> known i en ->
    Canc i (res_val (apply_cmd wsrc en c)) /\ known i (res_val (apply_cmd wsrc en c)).
  Proof.
    intros C K. unfold Canc, known, all_events in *. destruct c as [t p a act|a|a|a|l s d]; cbn.
    - unfold schedule. destruct (t <? now en); cbn -[insort]; [auto|]. split; [|lia].
      intros e He Hi. apply in_app_or in He. destruct He as [He|He].
      + apply insort_in in He. destruct He as [->|He]; [cbn in Hi; lia|]. apply C; auto. apply in_or_app; auto.
      + apply C; auto. apply in_or_app; auto.
    - split; [|exact K]. intros e He Hi.
      apply in_app_or in He. destruct He as [He|He].
      + apply filter_In in He. apply C; auto. apply in_or_app; left; apply He.
      + apply in_app_or in He. destruct He as [He|He].
        * apply in_app_or in He. destruct He as [He|He].
          -- apply C; auto. apply in_or_app; right; apply in_or_app; auto.
          -- apply in_map_iff in He. destruct He as [y [<- Hy]]. apply filter_In in Hy. cbn in *.
             apply C; auto. apply in_or_app; left; apply Hy.
        * apply C; auto. apply in_or_app; right; apply in_or_app; auto.
    - split; [|exact K]. intros e He Hi.
      apply in_app_or in He. destruct He as [He|He].
      + eapply Permutation_in in He; [|apply fold_insort_perm]. apply in_app_or in He. destruct He as [He|He].
        * apply C; auto. apply in_or_app; auto.
        * apply in_map_iff in He. destruct He as [y [<- Hy]]. apply filter_In in Hy. cbn in *.
          apply C; auto. apply in_or_app; right; apply in_or_app; left; apply Hy.
      + apply in_app_or in He. destruct He as [He|He].
        * apply filter_In in He. apply C; auto. apply in_or_app; right; apply in_or_app; left; apply He.
        * apply C; auto. apply in_or_app; right; apply in_or_app; auto.
    - split; [|exact K]. intros e He Hi.
      apply in_app_or in He. destruct He as [He|He]; [|apply in_app_or in He; destruct He as [He|He]].
      + apply in_map_iff in He. destruct He as [y [<- Hy]]. destruct (matches a y); [reflexivity|].
        apply C; auto. apply in_or_app; auto.
      + apply in_map_iff in He. destruct He as [y [<- Hy]]. destruct (matches a y); [reflexivity|].
        apply C; auto. apply in_or_app; right; apply in_or_app; auto.
      + apply C; auto. apply in_or_app; right; apply in_or_app; auto.
    - split; [exact C|exact K].
  Qed.

  Lemma apply_cmds_canc i cs : forall en : env,
    Canc i en -> known i en ->
    Canc i (res_val (apply_cmds wsrc en cs)) /\ known i (res_val (apply_cmds wsrc en cs)).
  Proof.
    induction cs as [|c cs IH]; intros en C K; cbn; [auto|].
    pose proof (apply_cmd_canc i en c C K) as [C1 K1].
    destruct (apply_cmd wsrc en c); cbn in *; auto.
  Qed.

  Lemma pop_canc i (en : env) e q :
    queue en = e :: q -> Canc i en -> known i en -> Canc i (popped A en e q) /\ known i (popped A en e q).
  Proof.
    intros Q C K. split; [|exact K]. unfold Canc, all_events in *. cbn. rewrite Q in C.
    intros x Hx Hi. apply C; auto.
    apply in_app_or in Hx. destruct Hx as [Hx|Hx]; [apply in_or_app; left; right; exact Hx|].
    apply in_app_or in Hx. destruct Hx as [Hx|Hx]; [apply in_or_app; right; apply in_or_app; auto|].
    destruct Hx as [<-|Hx]; [apply in_or_app; left; left; reflexivity|].
    apply in_or_app; right; apply in_or_app; auto.
  Qed.

  Lemma step_canc i s r :
    step s = Some r -> Canc i (snd s) -> known i (snd s) ->
    Canc i (snd (res_val r)) /\ known i (snd (res_val r)).
  Proof.
    destruct s as [w en]; cbn [snd]. intros H C K. unfold Env.step in H.
    destruct (queue en) as [|e q] eqn:Q; [discriminate|].
    pose proof (pop_canc i en e q Q C K) as [C1 K1]. unfold popped in *.
    destruct (e_cancelled e); [injection H as <-; auto|].
    destruct (e_act e) as [a|]; [|injection H as <-; auto].
    destruct (exec a w (e_time e)) as [w' cs].
    pose proof (apply_cmds_canc i cs _ C1 K1) as [C2 K2].
    destruct (apply_cmds wsrc _ cs); [destruct (wfail w')|]; injection H as <-; auto.
  Qed.

  Inductive reach_from : state -> state -> Prop :=
  | rf_refl s : reach_from s s
  | rf_step s s1 r : reach_from s s1 -> step s1 = Some r -> reach_from s (res_val r)
  | rf_ext s s1 x : reach_from s s1 -> reach_from s (do_ext A W wsrc s1 x).

  Theorem cancelled_never_runs s s' e :
    In e (queue (snd s) ++ paused (snd s)) -> e_cancelled e = true ->
    Inv (snd s) -> reach_from s s' ->
    forall e', In e' (all_events A (snd s')) -> e_id e' = e_id e -> e_cancelled e' = true.
  Proof.
    intros Hin Hc I R.
    assert (C0 : Canc (e_id e) (snd s) /\ known (e_id e) (snd s)).
    { pose proof I as [_ _ _ N F _]. split.
      - intros x Hx Hi.
        assert (Hine : In e (all_events A (snd s))).
        { unfold all_events. apply in_app_or in Hin. destruct Hin; apply in_or_app; [left|right; apply in_or_app; left]; assumption. }
        (* unique ids: x = e *)
        clear - N Hx Hi Hine Hc. induction (all_events A (snd s)) as [|y l IH]; [destruct Hx|].
        cbn in N. inversion N as [|? ? Nin N']; subst.
        destruct Hx as [->|Hx], Hine as [->|He]; auto.
        + exfalso. apply Nin. rewrite Hi. apply in_map, He.
        + exfalso. apply Nin. rewrite <- Hi. apply in_map, Hx.
      - rewrite Forall_forall in F. unfold known. apply F.
        unfold all_events. apply in_app_or in Hin. destruct Hin; apply in_or_app; [left|right; apply in_or_app; left]; assumption. }
    assert (G : Canc (e_id e) (snd s') /\ known (e_id e) (snd s')).
    { induction R as [s|s s1 r R IH H|s s1 x R IH].
      - exact C0.
      - destruct (IH Hin I C0) as [C K]. eapply step_canc; eauto.
      - destruct (IH Hin I C0) as [C K]. destruct x as [c|d|w']; cbn.
        + apply apply_cmd_canc; auto.
        + unfold start_run. unfold schedule. cbn. destruct (_ <? _); cbn -[insort].
          * split; [exact C|exact K].
          * unfold Canc, known, all_events in *. cbn -[insort]. split; [|lia].
            intros y Hy Hi. apply in_app_or in Hy. destruct Hy as [Hy|Hy].
            -- apply insort_in in Hy. destruct Hy as [->|Hy]; [cbn in Hi; lia|]. apply C; auto. apply in_or_app; auto.
            -- apply C; auto. apply in_or_app; auto.
        + split; [exact C|exact K]. }
    intros e' He' Hi. destruct G as [C _]. apply C; auto.
  Qed.

  (** Events scheduled after a pause or cancel call are unaffected. *)
  Theorem schedule_after_pause (en : env) a t p a' act en' :
    schedule wsrc (pause en a) t p a' act = Ok en' ->
    paused en' = paused (pause en a) /\
    exists e, In e (queue en') /\ e_time e = t /\ e_asset e = a' /\ e_cancelled e = false /\ e_paused_at e = None /\ e_act e = act.
  Proof.
    unfold schedule. destruct (t <? now (pause en a)); [discriminate|]. intro H. injection H as <-.
    split; [reflexivity|]. eexists. split; [cbn -[insort]; apply insort_in; left; reflexivity|]. repeat split.
  Qed.

  Theorem schedule_after_cancel (en : env) a t p a' act en' :
    schedule wsrc (cancel en a) t p a' act = Ok en' ->
    exists e, In e (queue en') /\ e_time e = t /\ e_asset e = a' /\ e_cancelled e = false /\ e_act e = act.
  Proof.
    unfold schedule. destruct (t <? now (cancel en a)); [discriminate|]. intro H. injection H as <-.
    eexists. split; [cbn -[insort]; apply insort_in; left; reflexivity|]. repeat split.
  Qed.

End EnvPause.
