(** C08 (the waiting-for-part time that orders the offers, after the repair of D9): in every state reached without a Python
    exception — also inside a run — a handler, processor or sink that reports a waiting-for-part time has BOTH slots empty: a
    device that holds a part (in process, or finished and waiting for room downstream) never competes as "idle since t".

    Carried by the strict steps of FloorTimer.v ([st = true]).  System initialisation is the one non-strict action (it stamps
    every holder without looking at its slots, and a Source whose first cycle has length zero can have pushed a part into a
    device that is initialised after it): the theorem therefore asks that the initialised world satisfies the invariant, a
    boolean condition on the scenario ([wait_okb]). *)
From Coq Require Import ZArith List Bool Lia.
From RecordUpdate Require Import RecordUpdate.
From SimVerif Require Import Model.Base Model.Env Model.FamEnv Model.RM Model.Maint Model.FloorTypes Model.Floor Model.FamFloor.
From SimVerif Require Import Proofs.FloorSteps Proofs.FloorRes Proofs.FloorLink Proofs.FloorIdle Proofs.FloorTimer.
Import ListNotations.
Open Scope Z_scope.

Definition LW (w : fw) : Prop := okf w = true -> forall d, WaitInv (getd w d).

Lemma WaitInv_blank : WaitInv (blank_dev KPfc).
Proof. intros T _. discriminate. Qed.

Lemma LOC_plain d n w w' : LOC d n w w' -> (okf w' = true -> okf w = true) /\ (forall d', d' <> d -> getd w' d' = getd w d').
Proof.
  induction 1 as [w|n m w1 w2 w3 S _ [IH1 IH2]]; [auto|].
  destruct S as [w f KF|w w' DV _ OK|w t p].
  - split; [intro H; rewrite <- (okf_updd w d f); auto|]. intros d' N. rewrite (IH2 d' N), getd_updd. apply Z.eqb_neq in N. rewrite N. reflexivity.
  - split; [auto|]. intros d' N. rewrite (IH2 d' N). apply getd_other_fields, DV.
  - split; [intro H; rewrite <- (okf_emitf w (FSched t p d (AFinishCycle d))); auto|]. intros d' N. rewrite (IH2 d' N). reflexivity.
Qed.

Lemma WaitInv_everywhere pid f w d : WaitInv (getd w d) -> WaitInv (getd (upd_part_everywhere pid f w) d).
Proof.
  unfold upd_part_everywhere, getd. cbn. induction (f_devs w) as [|[k y] l IH]; cbn; [auto|].
  destruct (d =? k); [|exact IH]. cbn. intros H T W. unfold WaitInv in H. cbn in *. destruct (H T W) as [P O]. rewrite P, O. auto.
Qed.

Theorem jstep_LW nw w w' : jstep true nw w w' -> LW w -> LW w'.
Proof.
  intros S L. destruct S as [w d g f TS G|w c EO|w w' D O OK|w w' DEAD|w pid f|w w' d n HL _ WI|w w1 d HL _ WI].
  - intros OKF d'. rewrite okf_updd in OKF. specialize (L OKF). rewrite getd_updd.
    destruct ((d' =? d) && amem d (f_devs w)); [|apply L]. apply (proj2 (proj2 (TS (getd w d) G)) eq_refl), L.
  - intros OKF d'. rewrite okf_emitf in OKF. apply (L OKF d').
  - intros OKF d'. rewrite (getd_other_fields w w' d' D). apply (L (OK OKF) d').
  - intros OKF. congruence.
  - intros OKF d'. apply WaitInv_everywhere, (L OKF d').
  - intros OKF d'. destruct (LOC_plain d n w w' HL) as [OK0 G]. specialize (L (OK0 OKF)).
    destruct (Z.eq_dec d' d) as [->|N]; [apply (WI eq_refl), L|rewrite (G d' N); apply L].
  - intros OKF d'. rewrite okf_emitf in OKF. change (getd (emitf w1 (FCancel d)) d') with (getd w1 d').
    destruct (LOC_plain d 0%nat w w1 HL) as [OK0 G]. specialize (L (OK0 OKF)).
    destruct (Z.eq_dec d' d) as [->|N]; [apply (WI eq_refl), L|rewrite (G d' N); apply L].
Qed.

Theorem RJ_LW nw w w' : RJ true nw w w' -> LW w -> LW w'.
Proof. intro H. induction H as [|w1 w2 w3 S _ IH]; intro L; [exact L|]. apply IH. eapply jstep_LW; eauto. Qed.

(** the end of a tracked device's cycle: the part moves to the output slot; the device did not report a waiting time *)
Lemma finish_LW nw fuel w d : tracked (d_kind (getd w d)) = true -> LW w -> LW (finish_cycle fuel nw w d).
Proof.
  intros TK L.
  assert (DEAD : forall w', okf w' = false -> LW w') by (intros w' D OKF; congruence).
  destruct (operational (getd w d)) eqn:OP; [|apply DEAD; unfold finish_cycle; rewrite OP; destruct (d_kind (getd w d)); try discriminate; unfold failf, okf; destruct (f_err w =? 0) eqn:E; cbn; auto].
  destruct (d_part (getd w d)) as [it|] eqn:P; [|apply DEAD; unfold finish_cycle; rewrite OP, P; destruct (d_kind (getd w d)); try discriminate; unfold failf, okf; destruct (f_err w =? 0) eqn:E; cbn; auto].
  destruct (d_out (getd w d)) eqn:O; [apply DEAD; unfold finish_cycle; rewrite OP, P, O; destruct (d_kind (getd w d)); try discriminate; unfold failf, okf; destruct (f_err w =? 0) eqn:E; cbn; auto|].
  eapply RJ_LW; [apply (RJ_finish_tail true nw fuel w d it TK OP P O)|].
  intros OKF d'. rewrite okf_updd in OKF. specialize (L OKF). rewrite getd_updd.
  destruct (Z.eqb_spec d' d) as [->|N]; cbn [andb]; [|apply L]. destruct (amem d (f_devs w)); [|apply L].
  intros _ W. exfalso. assert (X : d_wait_since (getd w d) <> None).
  { intro E. apply W. unfold tfin, t_finish_proc, t_stop_use, t_finish. destruct (d_kind (getd w d)); cbn; exact E. }
  destruct (L d TK X) as [PP _]. congruence.
Qed.

Definition WS (s : fw * fenv) : Prop := forall d, WaitInv (getd (fst s) d).

Section WaitReach.
Variable sc : fl_scn.
Notation wsd := (wgen (fq_seed sc) (fq_mod sc)).

Lemma WS_LW w en : WS (w, en) -> LW w.
Proof. intros H _. exact H. Qed.

Lemma fact_finish_dec (a : fact) : {d | a = AFinishCycle d} + {forall d, a <> AFinishCycle d}.
Proof. destruct a as [x|x|x|x| |m ma|k]; try (right; intros d; discriminate). left. exists x. reflexivity. Qed.

Theorem step_WS s s' : WS s -> step wsd (exec_fl sc) fl_wfail s = Some (Ok s') -> WS s'.
Proof.
  destruct s as [w en]. intros H ST. unfold step in ST.
  destruct (queue en) as [|e q] eqn:Q; [discriminate|].
  destruct (e_cancelled e); [injection ST as <-; exact H|].
  destruct (e_act e) as [a|]; [|injection ST as <-; exact H].
  unfold exec_fl in ST.
  set (w1 := exec_fact (fl_fuel w) (fun k => nth k (fq_uops sc) []) a w (e_time e)) in *.
  destruct (flush_f w1) as [w2 cs] eqn:FL.
  destruct (apply_cmds wsd _ cs) as [en2|en2]; [|discriminate].
  destruct (fl_wfail w2) eqn:WF; [discriminate|]. injection ST as <-.
  assert (E2 : w2 = fst (flush_f w1)) by (rewrite FL; auto). subst w2.
  assert (OKF : okf w1 = true) by (unfold fl_wfail in WF; apply negb_false_iff in WF; exact WF).
  assert (L1 : LW w1).
  { destruct (fact_finish_dec a) as [[d0 ->]|NF].
    - destruct (tracked (d_kind (getd w d0))) eqn:TK0.
      + unfold w1. cbn [exec_fact]. apply finish_LW; [exact TK0|eapply WS_LW, H].
      + apply (RJ_LW (e_time e) w w1); [apply RJ_exec_fact; intros d X; injection X as <-; exact TK0|eapply WS_LW, H].
    - apply (RJ_LW (e_time e) w w1); [apply RJ_exec_fact; intros d X; exfalso; exact (NF d X)|eapply WS_LW, H]. }
  intro d. cbn [fst]. change (getd (fst (flush_f w1)) d) with (getd w1 d). apply (L1 OKF).
Qed.

Lemma WS_fin (s : fw * fenv) (w : fw) s' :
  WS s -> RJ true (now (snd s)) (fst s) w ->
  (let '(w1, cs) := flush_f w in
   match apply_cmds wsd (snd s) cs with
   | Ok en' => ((clear_ferr w1, en'), f_err w1)
   | Err en' => ((clear_ferr w1, en'), if f_err w1 =? 0 then 1 else f_err w1)
   end) = (s', 0) -> WS s'.
Proof.
  intros H HR. assert (L0 : LW (fst s)) by (intros _; exact H). destruct (flush_f w) as [w1 cs] eqn:FL.
  assert (E2 : w1 = fst (flush_f w)) by (rewrite FL; auto). subst w1.
  destruct (apply_cmds wsd (snd s) cs) as [en'|en'].
  - intro E. injection E as <- E0. intro d. cbn [fst]. change (getd (clear_ferr (fst (flush_f w))) d) with (getd w d).
    apply (RJ_LW _ _ _ HR L0). unfold okf. cbn in E0. rewrite E0. reflexivity.
  - intro E. injection E as _ E0. st0 E0.
Qed.

(** * C08: a device that reports a waiting-for-part time holds nothing *)
Theorem reach_in_WS s :
  (forall s0, do_fxop sc (fq_world sc, init_env) FXInit = (s0, 0) -> WS s0) -> reach_in sc s -> WS s.
Proof.
  intro I0. induction 1 as [s WF E|s o s' _ IH E|s t k p s' _ IH E|s s' _ IH E|s d en' _ IH E|s d ups s' _ IH E].
  - apply I0, E.
  - unfold do_fxop in E. apply (WS_fin s (run_uop (fl_fuel (fst s)) (now (snd s)) (fst s) o) s' IH); [apply RJ_run_uop|exact E].
  - unfold do_fxop in E. destruct (apply_cmd wsd (snd s) (CSched t p (-5) (AUser k))) as [en'|en']; [|discriminate].
    injection E as <-. exact IH.
  - eapply step_WS; eauto.
  - exact IH.
  - unfold do_fxop in E. apply (WS_fin s (late_create (fl_fuel (fst s)) (now (snd s)) (fst s) d ups) s' IH); [apply RJ_late_create|exact E].
Qed.

(** * a sufficient condition on the scenario itself: no source fires during initialisation (first cycle of positive length).
    Then initialisation moves no part, every device is still empty when it is stamped, and initialisation is a strict step too. *)
Definition src_pos (x : dev) : Prop := d_kind x = KSource -> 0 < d_cycle x /\ 0 < d_cycle x + d_offset x.
Definition Quiet0 (w : fw) : Prop := forall d, d_part (getd w d) = None /\ d_out (getd w d) = None /\ src_pos (getd w d).

Lemma Quiet0_updd w d f :
  (forall y, d_part (f y) = d_part y) -> (forall y, d_out (f y) = d_out y) -> (forall y, src_pos y -> src_pos (f y)) ->
  Quiet0 w -> Quiet0 (updd w d f).
Proof.
  intros HP HO HS Q d'. rewrite getd_updd. destruct ((d' =? d) && amem d (f_devs w)); [|apply Q].
  destruct (Q d) as [A [B C]]. rewrite HP, HO. auto.
Qed.

Lemma init_dev_quiet fuel nw w d : Quiet0 w -> Quiet0 (init_dev fuel nw w d) /\ RJ true nw w (init_dev fuel nw w d).
Proof.
  intro Q. unfold init_dev. set (x := getd w d). destruct (is_holder (d_kind x)); [|split; [exact Q|constructor]].
  set (w1 := updd w d (fun y => dev_set_wait nw true true y)).
  assert (SW : forall {X} (pr : dev -> X), (forall y v, pr (y <| d_wait_since := v |>) = pr y) -> forall y, pr (dev_set_wait nw true true y) = pr y).
  { intros X pr H y. unfold dev_set_wait. cbn. destruct (d_wait_since y); [apply H|apply H]. }
  assert (Q1 : Quiet0 w1).
  { apply Quiet0_updd; [apply (SW _ d_part); reflexivity|apply (SW _ d_out); reflexivity| |exact Q].
    intros y H K. unfold src_pos in H. rewrite (SW _ d_kind) in K by reflexivity. rewrite (SW _ d_cycle), (SW _ d_offset) by reflexivity. auto. }
  assert (R1 : RJ true nw w w1).
  { apply (RJ_dev true nw w d (fun y => d_part y = None /\ d_out y = None)); [|destruct (Q d) as [A [B _]]; auto].
    intros y [PY OY]. unfold dev_set_wait, busy. cbn.
    destruct (d_wait_since y); cbn; (split; [reflexivity|split; [intros _; reflexivity|intros _ _ _ _; cbn; auto]]). }
  assert (K1 : d_kind (getd w1 d) = d_kind x) by (unfold w1; apply getd_updd_field; apply (SW _ d_kind); reflexivity).
  destruct (d_kind x) eqn:K; try (split; [exact Q1|exact R1]).
  - split.
    + apply Quiet0_updd; [reflexivity|reflexivity| |exact Q1]. intros y H. exact H.
    + eapply RJ_trans; [exact R1|]. apply (RJ_dev true nw w1 d (fun _ => True)); [|exact I]. intros y _.
      split; [reflexivity|split; [intros _; reflexivity|intros _ H; exact H]].
  - (* a source: its first cycle has positive length, only the timer is set *)
    split; [|eapply RJ_trans; [exact R1|apply RJ_sched_finish_untracked; rewrite K1; reflexivity]].
    unfold sched_finish. destruct (Q1 d) as [_ [_ SP]]. destruct (SP K1) as [C1 C2].
    assert (NX : (Z.max 0 (d_cycle (getd w1 d) + d_offset (getd w1 d)) <=? 0) = false) by (apply Z.leb_gt; lia).
    rewrite NX. intro d'. change (getd (emitf ?a ?c) d') with (getd a d').
    apply Quiet0_updd; [reflexivity|reflexivity| |exact Q1]. intros y H KK. destruct (H KK) as [A B]. unfold t_reset_offset. cbn. lia.
Qed.

Lemma init_fold_strict fuel nw l : forall w, Quiet0 w -> RJ true nw w (fold_left (init_dev fuel nw) l w).
Proof.
  induction l as [|d l IH]; intros w Q; cbn [fold_left]; [apply RJ_refl|].
  destruct (init_dev_quiet fuel nw w d Q) as [Q3 R3]. exact (RJ_trans true nw _ _ _ R3 (IH _ Q3)).
Qed.

Lemma init_world_strict fuel nw w : Quiet0 w -> RJ true nw w (init_world fuel nw w).
Proof.
  intro Q. unfold init_world. set (w1 := rm_call w (rm_initialize nw)).
  assert (Q1 : Quiet0 w1) by (intro d; unfold w1; rewrite (getd_other_fields w _ d (proj1 (rm_call_devs w _))); apply Q).
  apply (RJ_trans true nw w w1); [apply RJ_rm_call|]. apply init_fold_strict, Q1.
Qed.

Lemma pristine_Quiet0 w : wf_worldb w = true ->
  (forall d x, aget d (f_devs w) = Some x -> src_pos x) -> Quiet0 w.
Proof.
  unfold wf_worldb. intros H SP. apply andb_true_iff in H. destruct H as [H _]. apply andb_true_iff in H. destruct H as [H _].
  apply andb_true_iff in H. destruct H as [PR _]. rewrite forallb_forall in PR. intro d. unfold getd.
  destruct (aget d (f_devs w)) as [x|] eqn:Hx; [|split; [reflexivity|split; [reflexivity|intro K; discriminate]]].
  pose proof (SP d x Hx) as S. apply aget_In in Hx. specialize (PR _ Hx). cbn [snd] in PR.
  unfold pristine in PR. repeat (apply andb_true_iff in PR; destruct PR as [PR ?]).
  destruct (d_part x); [discriminate|]. destruct (d_out x); [discriminate|]. auto.
Qed.

Theorem reach_in_WS_src s :
  (forall d x, aget d (f_devs (fq_world sc)) = Some x -> src_pos x) -> reach_in sc s -> WS s.
Proof.
  intros SP HR. apply reach_in_WS; [|exact HR]. intros s0 E.
  assert (WF : wf_worldb (fq_world sc) = true).
  { clear E s0. induction HR; auto. }
  pose proof (pristine_Quiet0 _ WF SP) as Q.
  unfold do_fxop in E.
  apply (WS_fin (fq_world sc, init_env) (init_world (fl_fuel (fq_world sc)) (now (init_env (A:=fact))) (fq_world sc)) s0); [| |exact E].
  - intros d T W. cbn [fst]. destruct (Q d) as [A [B _]]. auto.
  - apply init_world_strict, Q.
Qed.

(** the condition on the initialised world, as a computation *)
Definition waitb (x : dev) : bool :=
  negb (tracked (d_kind x)) || is_none (d_wait_since x) || (is_none (d_part x) && is_none (d_out x)).
Definition wait_okb (w : fw) : bool := forallb (fun e => waitb (snd e)) (f_devs w).

Lemma wait_okb_WS w en : wait_okb w = true -> WS (w, en).
Proof.
  unfold wait_okb. rewrite forallb_forall. intros H d. cbn [fst]. unfold getd.
  destruct (aget d (f_devs w)) as [x|] eqn:Hx; [|apply WaitInv_blank].
  apply aget_In in Hx. specialize (H _ Hx). cbn [snd] in H. unfold waitb in H. intros T W. rewrite T in H. cbn in H.
  destruct (d_wait_since x); [|congruence]. cbn in H. apply andb_true_iff in H. destruct H as [A B].
  destruct (d_part x); [discriminate|]. destruct (d_out x); [discriminate|]. auto.
Qed.

Theorem waiting_device_holds_nothing s d z :
  wait_okb (fst (fst (do_fxop sc (fq_world sc, init_env) FXInit))) = true ->
  reach_in sc s -> tracked (d_kind (getd (fst s) d)) = true -> d_wait_since (getd (fst s) d) = Some z ->
  d_part (getd (fst s) d) = None /\ d_out (getd (fst s) d) = None.
Proof.
  intros I0 HR TK W. apply (reach_in_WS s); [|exact HR|exact TK|congruence].
  intros s0 E. rewrite E in I0. cbn [fst] in I0. destruct s0 as [w0 en0]. apply wait_okb_WS, I0.
Qed.

Theorem waiting_device_holds_nothing_src s d z :
  (forall d x, aget d (f_devs (fq_world sc)) = Some x -> src_pos x) ->
  reach_in sc s -> tracked (d_kind (getd (fst s) d)) = true -> d_wait_since (getd (fst s) d) = Some z ->
  d_part (getd (fst s) d) = None /\ d_out (getd (fst s) d) = None.
Proof. intros SP HR TK W. apply (reach_in_WS_src s SP HR); [exact TK|congruence]. Qed.

End WaitReach.
