(** C14 for the floor: every environment call a floor action makes is well-formed in the sense the run-split theorem needs
    ([cmd_ok], Proofs/EnvRun.v): events are scheduled with a priority above the priority of the end-of-run marker, and only
    events of existing devices are paused or cancelled (never the marker's own id -1).  A fifth, very plain decomposition:
    any device update, calls that satisfy [cmdok], batches of such calls. *)
From Coq Require Import ZArith List Bool Lia.
From RecordUpdate Require Import RecordUpdate.
From SimVerif Require Import Model.Base Model.Env Model.RM Model.Maint Model.FloorTypes Model.Floor Model.FamFloor.
From SimVerif Require Import Proofs.RMInv Proofs.FloorSteps Proofs.FloorLink.
Import ListNotations.
Open Scope Z_scope.

Definition cmdok (w : fw) (c : fcmd) : Prop :=
  match c with
  | FSched _ p _ _ => P_TERMINATE < p
  | FPause a | FUnpause a | FCancel a => amem a (f_devs w) = true
  | _ => True
  end.

Inductive ostep (nw : Z) : fw -> fw -> Prop :=
| o_dev w d f : ostep nw w (updd w d f)
| o_emit w c : cmdok w c -> ostep nw w (emitf w c)
| o_quiet w w' : (forall a, amem a (f_devs w') = amem a (f_devs w)) -> (exists l, f_out w' = l ++ f_out w /\ Forall (cmdok w) l) -> ostep nw w w'
| o_everywhere w pid f : ostep nw w (upd_part_everywhere pid f w).

Inductive RO (nw : Z) : fw -> fw -> Prop :=
| RO_refl w : RO nw w w
| RO_step w1 w2 w3 : ostep nw w1 w2 -> RO nw w2 w3 -> RO nw w1 w3.

(** * priorities used by the resource manager and the maintainers *)
Definition rprio (s : rs) : Prop := Forall (fun c => match c with RSched _ p _ _ => p = P_OTHER_HIGH | _ => True end) (r_out s).
Lemma rprio_emit s c : (match c with RSched _ p _ _ => p = P_OTHER_HIGH | _ => True end) -> rprio s -> rprio (emit s c).
Proof. intros H L. unfold rprio, emit. cbn. constructor; assumption. Qed.
Lemma rprio_record nw n s : rprio s -> rprio (record nw n s).
Proof. apply rprio_emit. exact I. Qed.
Lemma rprio_check nw s : rprio s -> rprio (sched_check nw s).
Proof. apply rprio_emit. reflexivity. Qed.
Lemma rprio_same s s' : r_out s' = r_out s -> rprio s -> rprio s'.
Proof. unfold rprio. intros ->. auto. Qed.
Lemma rprio_clean s : rprio (clean_rs s).
Proof. constructor. Qed.
Lemma rprio_add nw n a s : rprio s -> rprio (add_resources nw n a s).
Proof.
  intro L. unfold add_resources. destruct (a =? 0); [exact L|]. cbv zeta.
  match goal with |- context[if negb (r_err ?s1 =? 0) then _ else _] => assert (L1 : rprio s1) end.
  { destruct (aget n (r_pools s)) as [[u c]|]; [destruct (_ && _)|destruct (a <? 0)]; apply (rprio_same s); auto. }
  match goal with |- context[if negb (r_err ?s1 =? 0) then _ else _] => destruct (negb (r_err s1 =? 0)); [exact L1|]; destruct (r_env s1); [|exact L1] end.
  apply rprio_check, rprio_record, L1.
Qed.
Lemma rprio_take nw r : forall s, rprio s -> rprio (take nw r s).
Proof.
  induction r as [|[n a] r IH]; intros s L; cbn [take]; [exact L|]. destruct (a =? 0); [apply IH, L|].
  destruct (aget n (r_pools s)) as [[u c]|]; [|apply (rprio_same s); auto]. apply IH, rprio_record. apply (rprio_same s); auto.
Qed.
Lemma rprio_give_back nw r : forall s, rprio s -> rprio (give_back nw r s).
Proof.
  induction r as [|[n a] r IH]; intros s L; cbn [give_back]; [exact L|]. destruct (a =? 0); [apply IH, L|].
  destruct (aget n (r_pools s)) as [[u c]|]; [|apply (rprio_same s); auto]. apply IH, rprio_record. apply (rprio_same s); auto.
Qed.
Lemma rprio_reserve nw r s : rprio s -> rprio (fst (reserve nw r s)).
Proof.
  intro L. unfold reserve. destruct (can_fulfill _ _); [|exact L]. destruct (has_negative r); [apply (rprio_same s); auto|].
  cbv zeta. destruct (negb _); cbn [fst]; [apply rprio_take, L|]. eapply rprio_same; [|apply (rprio_take nw r s L)]. reflexivity.
Qed.
Lemma rprio_register nw cb r s : rprio s -> rprio (register nw cb r s).
Proof. intro L. unfold register. apply rprio_check. apply (rprio_same s); auto. Qed.
Lemma rprio_release_resources nw r s : rprio s -> rprio (release_resources nw r s).
Proof. intro L. unfold release_resources. cbv zeta. destruct (negb _); [apply rprio_give_back, L|apply rprio_check, rprio_give_back, L]. Qed.
Lemma rprio_release_obj nw i s : rprio s -> rprio (release_obj nw i None s).
Proof.
  intro L. unfold release_obj. cbv zeta. destruct (negb _); [apply rprio_release_resources, L|].
  eapply rprio_same; [|apply (rprio_release_resources nw (nth i (r_res s) []) s L)]. reflexivity.
Qed.
Lemma rprio_initialize nw s : rprio s -> rprio (rm_initialize nw s).
Proof.
  intro L. unfold rm_initialize. assert (L0 : rprio (set_env s true)) by (apply (rprio_same s); auto).
  revert L0. generalize (set_env s true). induction (map fst (r_pools s)) as [|n l IH]; intros s0 L0; cbn; [exact L0|]. apply IH, rprio_record, L0.
Qed.
Lemma rprio_cmdok w l : Forall (fun c => match c with RSched _ p _ _ => p = P_OTHER_HIGH | _ => True end) l -> Forall (cmdok w) (map conv_rcmd l).
Proof.
  induction 1 as [|c l H _ IH]; cbn; constructor; [|exact IH]. destruct c as [t p a [|k]|lb sb pl]; cbn; try exact I; rewrite H; unfold P_TERMINATE, P_OTHER_HIGH; lia.
Qed.

Definition mprio (m : mst) : Prop :=
  Forall (fun c => match c with MSched _ p _ => p = P_START_WORK \/ p = P_FINISH_WORK | _ => True end) (m_out m).
Lemma mprio_same m m' : m_out m' = m_out m -> mprio m -> mprio m'.
Proof. unfold mprio. intros ->. auto. Qed.
Lemma mprio_record nw l wo m : mprio m -> mprio (m_record nw l wo m).
Proof. intros L. unfold mprio, m_record, m_emit. cbn. constructor; [exact I|exact L]. Qed.
Lemma try_pass_prio nw cap q : forall util active out,
  Forall (fun c => match c with MSched _ p _ => p = P_START_WORK \/ p = P_FINISH_WORK | _ => True end) out ->
  Forall (fun c => match c with MSched _ p _ => p = P_START_WORK \/ p = P_FINISH_WORK | _ => True end) (snd (try_pass nw cap q util active out)).
Proof.
  induction q as [|wo q IH]; intros util active out L; cbn [try_pass]; [exact L|].
  destruct (_ && _).
  - apply IH. constructor; [left; reflexivity|exact L].
  - specialize (IH util active out L). destruct (try_pass nw cap q util active out) as [[[kept u] a] o]. exact IH.
Qed.
Lemma mprio_try nw m : mprio m -> mprio (m_try nw m).
Proof.
  intro L. unfold m_try. pose proof (try_pass_prio nw (m_capacity m) (m_queue m) (m_util m) (m_active m) (m_out m) L) as X.
  destruct (try_pass _ _ _ _ _ _) as [[[kept u] a] o]. exact X.
Qed.
Lemma mprio_create nw t g capv info m : mprio m -> mprio (fst (m_create nw t g capv info m)).
Proof.
  intro L. unfold m_create. destruct (is_requested m t g); [exact L|]. cbn [fst]. apply mprio_try.
  eapply mprio_same; [|apply (mprio_record nw L_ENTER_QUEUE (mkWO (m_next m) t g capv info) m L)]. reflexivity.
Qed.
Lemma mprio_start_pre nw wo c m : mprio m -> mprio (m_start_pre nw wo c m).
Proof.
  intro L. unfold m_start_pre, m_add_cost. destruct (c =? 0); [apply mprio_record; auto|].
  eapply mprio_same; [|apply (mprio_record nw L_START_WORK wo m L)]. reflexivity.
Qed.
Lemma mprio_start_post nw wo dv m : mprio m -> mprio (m_start_post nw wo dv m).
Proof. intro L. unfold m_start_post, mprio, m_emit. cbn. constructor; [right; reflexivity|exact L]. Qed.
Lemma mprio_finish_post nw wo m : mprio m -> mprio (m_finish_post nw wo m).
Proof. intro L. unfold m_finish_post. apply mprio_try, mprio_record. apply (mprio_same m); auto. Qed.
Lemma mprio_cmdok w mid l :
  Forall (fun c => match c with MSched _ p _ => p = P_START_WORK \/ p = P_FINISH_WORK | _ => True end) l -> Forall (cmdok w) (map (conv_mcmd mid) l).
Proof.
  induction 1 as [|c l H _ IH]; cbn; constructor; [|exact IH]. destruct c as [t p a|lb pl]; cbn; [|exact I].
  destruct H as [-> | ->]; unfold P_TERMINATE, P_START_WORK, P_FINISH_WORK; lia.
Qed.

Section Cmd.
Variable nw : Z.
Notation RO := (RO nw).

Lemma RO_trans a b c : RO a b -> RO b c -> RO a c.
Proof. induction 1 as [|w1 w2 w3 S _ IH]; intro Hbc; [exact Hbc|]. econstructor; [exact S|apply IH, Hbc]. Qed.
Lemma RO_one a b : ostep nw a b -> RO a b.
Proof. intro H. econstructor; [exact H|constructor]. Qed.
Lemma RO_dev w d f : RO w (updd w d f).
Proof. apply RO_one, o_dev. Qed.
Lemma RO_emit w c : cmdok w c -> RO w (emitf w c).
Proof. intro Q. apply RO_one, o_emit, Q. Qed.
Lemma RO_sched w t p a act : P_TERMINATE < p -> RO w (emitf w (FSched t p a act)).
Proof. intro H. apply RO_emit. exact H. Qed.
Lemma RO_data w l s p : RO w (data w l s p).
Proof. apply RO_emit. exact I. Qed.
Lemma RO_same w w' : f_devs w' = f_devs w -> f_out w' = f_out w -> RO w w'.
Proof. intros D O. apply RO_one, o_quiet; [intro a; rewrite D; reflexivity|exists []; split; [exact O|constructor]]. Qed.
Lemma RO_fail w e : RO w (failf w e).
Proof. apply RO_same; unfold failf; destruct (f_err w =? 0); reflexivity. Qed.
Lemma RO_fold {X} (F : fw -> X -> fw) (l : list X) : (forall w x, RO w (F w x)) -> forall w, RO w (fold_left F l w).
Proof. intros H. induction l as [|x l IH]; intro w; cbn; [constructor|]. eapply RO_trans; [apply H|apply IH]. Qed.

Ltac prio := unfold P_TERMINATE, P_PASS_PART, P_FINISH_PROCESSING, P_RELEASE, P_FAIL; lia.
Ltac Ot := first [apply RO_refl | apply RO_fail | apply RO_data | (apply RO_sched; prio)].
Ltac odev w0 d0 f0 := apply (RO_trans w0 (updd w0 d0 f0)); [apply (RO_dev w0 d0 f0)|].

Lemma RO_rm_call w f : rprio (f (clean_rs (f_rm w))) -> RO w (rm_call w f).
Proof.
  intro LB. apply RO_one, o_quiet; [intro a; rewrite (proj1 (rm_call_devs w f)); reflexivity|].
  unfold rm_call. cbv zeta. match goal with |- context[map conv_rcmd ?l] => exists (map conv_rcmd l) end.
  split; [destruct (_ =? 0); [reflexivity|]; unfold failf; destruct (_ =? 0); reflexivity|]. apply rprio_cmdok, LB.
Qed.

Lemma RO_maint_call w mid f :
  mprio (f (mkM (m_capacity (getm w mid)) (m_util (getm w mid)) (m_queue (getm w mid)) (m_active (getm w mid)) (m_next (getm w mid))
                (m_value (getm w mid)) (m_vhist (getm w mid)) [])) -> RO w (maint_call w mid f).
Proof.
  intro LB. apply RO_one, o_quiet; [intro a; reflexivity|].
  unfold maint_call. cbv zeta. match goal with |- context[map (conv_mcmd mid) ?l] => exists (map (conv_mcmd mid) l) end.
  split; [reflexivity|apply mprio_cmdok, LB].
Qed.
Lemma RO_create_wo mid t g w : RO w (create_wo nw mid t g w).
Proof. apply RO_maint_call. apply mprio_create. constructor. Qed.

Lemma RO_sched_pass off w d : RO w (sched_pass nw off w d).
Proof. unfold sched_pass. destruct (d_kind (getd w d)); try Ot; (odev w d (t_waiting_ds false); Ot). Qed.

Lemma RO_signal fuel : forall m w d, RO w (signal fuel nw m w d).
Proof.
  induction fuel as [|f IH]; intros m w d; cbn [signal]; [apply RO_fail|].
  set (x := getd w d).
  assert (NU : forall w0, RO w0 (fold_left (fun w1 u => signal f nw false w1 u) (d_up (getd w0 d)) w0)).
  { intro w0. apply RO_fold. intros; apply IH. }
  assert (SW : RO w (fold_left (fun w1 u => signal f nw false w1 u)
                               (d_up (getd (wait_if_empty nw w d) d)) (wait_if_empty nw w d))).
  { unfold wait_if_empty. destruct (d_part (getd w d)); [apply NU|]. destruct (d_out (getd w d)); [apply NU|].
    odev w d (dev_set_wait nw true false). apply NU. }
  destruct m.
  - destruct (d_kind x); try apply NU; try exact SW.
    + destruct (inf_ltb (d_level x) (d_capacity x)); [exact SW|Ot].
    + destruct (aget (d_group x) (f_groups w)); [|Ot]. apply RO_fold. intros; apply IH.
  - destruct (d_kind x); try apply IH;
      try (destruct (operational x && d_waiting_ds x); [apply RO_sched_pass|Ot]).
    destruct (aget (d_group x) (f_groups w)); [apply IH|Ot].
Qed.

Lemma RO_run_cbop d slot isf lost w o : RO w (run_cbop nw d slot isf lost w o).
Proof.
  unfold run_cbop. destruct (negb (okf w)); [Ot|].
  destruct o; try apply RO_dev.
  - destruct (if slot then d_part (getd w d) else d_out (getd w d)) as [i|]; [|Ot].
    destruct (is_batch i); [Ot|]. apply RO_dev.
  - apply RO_create_wo.
  - destruct isf; [apply RO_create_wo|Ot].
  - apply RO_same; reflexivity.
Qed.
Lemma RO_run_cbops d slot isf lost ops : forall w, RO w (run_cbops nw d slot isf lost ops w).
Proof. unfold run_cbops. apply RO_fold. intros. apply RO_run_cbop. Qed.

Lemma RO_finish_cycle fuel w d : RO w (finish_cycle fuel nw w d).
Proof.
  unfold finish_cycle. set (x := getd w d). destruct (d_kind x) eqn:K; try Ot;
  try (destruct (negb (operational x)); [Ot|]; destruct (d_part x) as [it|] eqn:P; [|Ot]; destruct (d_out x) eqn:O; [Ot|]).
  3:{ destruct (d_out x) eqn:O; [apply RO_sched_pass|].
      destruct (generate w d) as [w' it] eqn:G.
      apply (RO_trans w w').
      { destruct (generate_nextid w d) as [z Hz]. rewrite G in Hz. cbn in Hz. subst w'. apply RO_same; reflexivity. }
      odev w' d (t_generated it). apply RO_sched_pass. }
  - odev w d (t_finish it). apply RO_sched_pass.
  - odev w d (t_finish_proc nw it). eapply RO_trans; [apply RO_sched_pass|].
    match goal with |- context[match d_reserved ?y with _ => _ end] => destruct (d_reserved y) end.
    + eapply RO_trans; [apply (RO_sched _ nw P_RELEASE d (AReleaseIfIdle d)); prio|]. eapply RO_trans; [apply RO_run_cbops|].
      match goal with |- context[match d_out ?y with _ => _ end] => destruct (d_out y) end; Ot.
    + eapply RO_trans; [apply RO_run_cbops|].
      match goal with |- context[match d_out ?y with _ => _ end] => destruct (d_out y) end; Ot.
  - odev w d (t_finish it). eapply RO_trans; [apply RO_sched_pass|].
    match goal with |- RO ?w0 _ => odev w0 d t_clear_out; apply RO_signal end.
Qed.

Lemma RO_sched_finish fuel w d : RO w (sched_finish fuel nw w d).
Proof. unfold sched_finish. odev w d t_reset_offset. destruct (_ <=? 0); [apply RO_finish_cycle|Ot]. Qed.

Lemma RO_batcher_fill n : forall w d, RO w (batcher_fill n w d).
Proof.
  induction n as [|n IH]; intros w d; cbn [batcher_fill]; [Ot|].
  set (x := getd w d) in *. destruct (d_out x) eqn:O; [Ot|]. destruct (d_part x) as [it|] eqn:P; [|Ot].
  match goal with |- context[let '(p, rest) := ?e in _] => destruct e as [[p|] rest] end; [|Ot].
  destruct (d_batch_size x) as [size|] eqn:BS.
  - destruct (d_inprog x) as [[pp|b ps]|] eqn:IP.
    + apply IH.
    + destruct (size <=? Z.of_nat (length (ps ++ [p]))); (eapply RO_trans; [apply RO_dev|apply IH]).
    + set (w1 := w <| f_next_id := f_next_id w + 1 |>).
      apply (RO_trans w w1); [apply RO_same; reflexivity|].
      destruct (size <=? Z.of_nat (length ([] ++ [p]))); (eapply RO_trans; [apply RO_dev|apply IH]).
  - eapply RO_trans; [apply RO_dev|apply IH].
Qed.

Lemma RO_batcher_try_move w d : RO w (batcher_try_move nw w d).
Proof.
  unfold batcher_try_move. set (x := getd w d) in *. destruct (d_part x) as [it|] eqn:P; [|Ot]. destruct (d_out x); [Ot|].
  destruct (negb (operational x)); [Ot|].
  assert (G : RO w (let w1 := batcher_fill (S (Z.to_nat (item_count it))) w d in
                    match d_out (getd w1 d) with Some _ => sched_pass nw 0 w1 d | None => w1 end)).
  { cbv zeta. eapply RO_trans; [apply RO_batcher_fill|].
    match goal with |- context[match d_out ?y with _ => _ end] => destruct (d_out y) end; [apply RO_sched_pass|Ot]. }
  destruct it as [p|b [|p ps]]; try exact G.
  apply RO_dev.
Qed.

Lemma RO_accept_rest fuel k w2 d it1 : RO w2 (accept_rest fuel nw k w2 d it1).
Proof.
  unfold accept_rest.
  set (w3 := rec_part w2 L_RECEIVED d nw it1). apply (RO_trans w2 w3); [apply RO_data|].
  set (w4 := run_cbops nw d true false (-1) (d_on_receive (getd w3 d)) w3).
  apply (RO_trans w3 w4); [apply RO_run_cbops|].
  destruct (negb (okf w4)); [Ot|]. set (x := getd w4 d) in *. destruct (d_out x); [Ot|].
  destruct k eqn:K; cbv zeta;
    try (destruct (operational x && match d_part x with Some _ => true | None => false end); [apply RO_sched_finish|Ot]).
  - destruct (d_part x) as [itb|] eqn:PB; [|Ot].
    odev w4 d (t_buf_store nw itb).
    eapply RO_trans; [apply RO_signal|].
    match goal with |- context[if ?c then _ else _] => destruct c end; [apply RO_sched_pass|Ot].
  - apply RO_batcher_try_move.
Qed.

Lemma RO_accept_first w d it1 k : RO w (accept_first nw k w d it1).
Proof.
  unfold accept_first. destruct k; try apply RO_dev.
  eapply RO_trans; [apply RO_dev|apply RO_data].
Qed.

Lemma RO_accept fuel w d it : RO w (accept fuel nw w d it).
Proof. unfold accept. eapply RO_trans; [apply RO_accept_first|apply RO_accept_rest]. Qed.

Lemma RO_proc_can_accept w d : RO w (fst (proc_can_accept nw w d)).
Proof.
  unfold proc_can_accept. set (x := getd w d). destruct (negb (handler_can_accept x)); [Ot|].
  destruct (d_req x) as [rq|] eqn:RQ; [|Ot]. destruct (d_reserved x) eqn:RV; [Ot|].
  change (mkRs (r_pools (f_rm w)) (r_wait (f_rm w)) (r_res (f_rm w)) (r_slots (f_rm w)) (r_cblog (f_rm w)) [] 0 (r_env (f_rm w)) (r_nreg (f_rm w)))
    with (clean_rs (f_rm w)).
  set (res := reserve nw rq (clean_rs (f_rm w))). set (w1 := rm_call w (fun _ => fst res)).
  assert (R1 : RO w w1) by (apply RO_rm_call; apply rprio_reserve, rprio_clean).
  destruct (snd res) as [i|].
  - cbn [fst]. eapply RO_trans; [exact R1|apply RO_dev].
  - destruct (negb (okf w1)); [exact R1|]. destruct (d_waiting_res x); [exact R1|]. cbn [fst].
    eapply RO_trans; [exact R1|]. eapply RO_trans; [apply RO_rm_call, rprio_register, rprio_clean|apply RO_dev].
Qed.

Lemma RO_give fuel : forall w d it, RO w (fst (give fuel nw w d it)).
Proof.
  induction fuel as [|f IH]; intros w d it; cbn [give]; [apply RO_fail|].
  destruct (negb (okf w)); [Ot|]. set (x := getd w d).
  assert (TL : forall it0 l w0 b,
             RO w0 (fst (fold_left (fun (acc : fw * bool) d' => if snd acc then acc else give f nw (fst acc) d' it0) l (w0, b)))).
  { intros it0 l. induction l as [|d' l IHl]; intros w0 b; cbn; [Ot|].
    destruct b; cbn [snd fst].
    - apply IHl.
    - pose proof (IH w0 d' it0) as X. destruct (give f nw w0 d' it0) as [w1 b1]. cbn [fst] in X.
      eapply RO_trans; [exact X|apply IHl]. }
  destruct (d_kind x) eqn:K.
  - destruct (negb (operational x && negb (d_block x))); [Ot|apply TL].
  - destruct (negb (decide (d_decider x) it)); [Ot|]. destruct (negb (operational x && negb (d_block x))); [Ot|apply TL].
  - destruct (handler_can_accept x); [|Ot]. cbn [fst]. apply RO_accept.
  - pose proof (RO_proc_can_accept w d) as R1. destruct (proc_can_accept nw w d) as [w1 ok]. cbn [fst] in R1.
    destruct ok; [|exact R1]. cbn [fst]. eapply RO_trans; [exact R1|apply RO_accept].
  - destruct (inf_leb (d_level x + item_count it) (d_capacity x) && handler_can_accept x); [|Ot]. cbn [fst]. apply RO_accept.
  - destruct (handler_can_accept x); [|Ot]. cbn [fst]. apply RO_accept.
  - destruct (handler_can_accept x); [|Ot]. cbn [fst]. apply RO_accept.
  - destruct (handler_can_accept x); [|Ot]. cbn [fst]. apply RO_accept.
  - destruct (d_block x); [Ot|]. destruct (aget (d_group x) (f_groups w)); [apply IH|Ot].
  - destruct (negb (operational x && negb (d_block x))); [Ot|apply TL].
  - destruct (rev (item_gpath it)) as [|gp rest]; [apply RO_fail|apply TL].
Qed.

Lemma RO_try_downstream fuel w d it : RO w (fst (try_downstream fuel nw w d it)).
Proof.
  unfold try_downstream. generalize (sorted_down fuel w d). intro l. generalize false. revert w.
  induction l as [|d' l IHl]; intros w0 b; cbn; [Ot|].
  destruct b; cbn [snd fst].
  - apply IHl.
  - pose proof (RO_give fuel w0 d' it) as X. destruct (give fuel nw w0 d' it) as [w1 b1]. cbn [fst] in X.
    eapply RO_trans; [exact X|apply IHl].
Qed.

Lemma RO_handler_pass fuel w d : RO w (fst (handler_pass fuel nw w d)).
Proof.
  unfold handler_pass. set (x := getd w d). destruct (d_out x) as [it|]; [|Ot]. destruct (negb (operational x)); [Ot|].
  pose proof (RO_try_downstream fuel w d it) as X. destruct (try_downstream fuel nw w d it) as [w1 ok]. cbn [fst] in X.
  destruct ok; cbn [fst]; (eapply RO_trans; [exact X|]).
  - odev w1 d t_clear_out. apply RO_signal.
  - apply RO_dev.
Qed.

Lemma RO_release_reserved w d : RO w (release_reserved nw w d).
Proof.
  unfold release_reserved. destruct (d_reserved (getd w d)) eqn:RV; [|Ot].
  eapply RO_trans; [apply RO_rm_call, rprio_release_obj, rprio_clean|apply RO_dev].
Qed.
Lemma RO_release_if_idle w d : RO w (release_if_idle nw w d).
Proof. unfold release_if_idle. destruct (_ || _); [apply RO_release_reserved|Ot]. Qed.

Lemma RO_shutdown isf lost w d : RO w (shutdown nw isf lost w d).
Proof.
  unfold shutdown. set (x := getd w d). destruct (is_processor x) eqn:IP; cbn [negb]; [|Ot].
  assert (AM : amem d (f_devs w) = true) by (apply not_blank_amem; intro E; fold x in E; rewrite E in IP; discriminate).
  destruct (d_shut x).
  - destruct isf; [|Ot]. eapply RO_trans; [apply (RO_emit w (FCancel d)); exact AM|apply RO_run_cbops].
  - odev w d (t_shutdown nw). eapply RO_trans; [|apply RO_run_cbops].
    apply (RO_emit (updd w d (t_shutdown nw)) (if isf then FCancel d else FPause d)). destruct isf; unfold cmdok; rewrite amem_updd; exact AM.
Qed.

Lemma RO_fail_proc w d : RO w (fail nw w d).
Proof.
  unfold fail. set (x := getd w d). destruct (is_processor x); cbn [negb]; [|Ot].
  odev w d (t_fail_clear nw). eapply RO_trans; [apply RO_release_reserved|]. eapply RO_trans; [apply RO_data|apply RO_shutdown].
Qed.

Lemma RO_restore fuel w d : RO w (restore fuel nw w d).
Proof.
  unfold restore. set (x := getd w d). destruct (is_processor x) eqn:IP; cbn [negb]; [|Ot].
  assert (AM : amem d (f_devs w) = true) by (apply not_blank_amem; intro E; fold x in E; rewrite E in IP; discriminate).
  destruct (negb (d_shut x)); [Ot|].
  odev w d (t_restore nw). eapply RO_trans; [apply (RO_emit (updd w d (t_restore nw)) (FUnpause d)); unfold cmdok; rewrite amem_updd; exact AM|]. eapply RO_trans; [|apply RO_run_cbops].
  destruct (d_out x); [apply RO_sched_pass|]. destruct (d_part x); [Ot|apply RO_signal].
Qed.

Lemma RO_buffer_loop n fuel : forall w d, RO w (buffer_loop n fuel nw w d).
Proof.
  induction n as [|n IH]; intros w d; cbn [buffer_loop]; [Ot|].
  set (x := getd w d) in *. destruct (d_buf x) as [|[t0 it] rest] eqn:B; [Ot|].
  destruct (0 <? d_min_delay x - (nw - t0)); [Ot|].
  pose proof (RO_try_downstream fuel w d it) as X.
  destruct (try_downstream fuel nw w d it) as [w1 ok] eqn:TD. cbn [fst] in X.
  destruct ok; [|exact X]. eapply RO_trans; [exact X|].
  odev w1 d (t_buf_pop nw). eapply RO_trans; [apply RO_data|apply IH].
Qed.

Lemma RO_pass_part fuel w d : RO w (pass_part fuel nw w d).
Proof.
  unfold pass_part. set (x := getd w d). destruct (d_kind x) eqn:K; try (apply RO_handler_pass).
  - cbv zeta. set (w1' := buffer_loop (S (length (d_buf x))) fuel nw w d).
    apply (RO_trans w w1'); [apply RO_buffer_loop|].
    eapply RO_trans; [|apply RO_signal].
    destruct (d_buf (getd w1' d)) as [|[t0 it] rest]; [Ot|].
    match goal with |- context[if ?c then _ else _] => destruct c end; [apply RO_sched_pass|apply RO_dev].
  - destruct (d_out x) as [it|]; [|Ot].
    match goal with |- context[if negb ?c then _ else _] => destruct (negb c) end; [Ot|].
    pose proof (RO_handler_pass fuel w d) as X.
    destruct (handler_pass fuel nw w d) as [w1 ok]. cbn [fst] in X.
    destruct ok; [|exact X]. eapply RO_trans; [exact X|].
    odev w1 d (t_supplied nw (item_value it)). eapply RO_trans; [apply RO_data|apply RO_sched_finish].
  - pose proof (RO_handler_pass fuel w d) as X.
    destruct (handler_pass fuel nw w d) as [w1 ok]. cbn [fst] in X.
    eapply RO_trans; [exact X|]. destruct (d_out (getd w1 d)); [Ot|]. apply RO_batcher_try_move.
Qed.

Lemma RO_res_check n fuel : forall i w, RO w (res_check n fuel nw i w).
Proof.
  induction n as [|n IH]; intros i w; cbn [res_check]; [apply RO_fail|].
  destruct (nth_error (r_wait (f_rm w)) i) as [[r cb id]|]; [|Ot].
  destruct (can_fulfill (r_pools (f_rm w)) r); [|apply IH].
  match goal with |- context[signal fuel nw true (updd ?w1 ?dd _) _] => set (w1' := w1); set (d := dd) end.
  apply (RO_trans w w1'); [apply RO_same; reflexivity|].
  odev w1' d (t_waiting_res false).
  eapply RO_trans; [apply RO_signal|].
  match goal with |- context[if negb (okf ?w2) then _ else _] => destruct (negb (okf w2)) end; [Ot|].
  eapply RO_trans; [|apply IH]. apply RO_same; reflexivity.
Qed.

Lemma RO_maint_start mid wo w : RO w (maint_start nw mid wo w).
Proof.
  unfold maint_start. eapply RO_trans; [apply RO_maint_call, mprio_start_pre; constructor|].
  eapply RO_trans; [apply RO_shutdown|apply RO_maint_call, mprio_start_post; constructor].
Qed.
Lemma RO_maint_finish fuel mid wo w : RO w (maint_finish fuel nw mid wo w).
Proof. unfold maint_finish. eapply RO_trans; [apply RO_restore|apply RO_maint_call, mprio_finish_post; constructor]. Qed.

Lemma RO_rewire fuel w d ups : RO w (rewire fuel nw w d ups).
Proof.
  unfold rewire. set (x := getd w d). destruct (existsb (bad_up d w) ups); [Ot|].
  match goal with |- RO w (fold_left _ ups (updd (fold_left _ _ ?w0') d _)) => set (w0 := w0') end.
  assert (R0 : RO w w0).
  { unfold w0. destruct (is_holder (d_kind x)); [|Ot]. destruct (d_wait_since x); [|Ot]. apply RO_dev. }
  apply (RO_trans w w0); [exact R0|].
  set (w1 := fold_left (fun w' u => updd w' u (t_down_del d)) (d_up x) w0).
  apply (RO_trans w0 w1); [unfold w1; apply RO_fold; intros w' u; apply RO_dev|].
  apply (RO_trans w1 (updd w1 d (t_up ups))); [apply RO_dev|].
  apply RO_fold. intros w' u. destruct (existsb (Z.eqb d) (d_down (getd w' u))); [Ot|].
  apply (RO_trans w' (updd w' u (t_down_add d))); [apply RO_dev|apply RO_signal].
Qed.

Lemma RO_run_uop fuel w o : RO w (run_uop fuel nw w o).
Proof.
  unfold run_uop. destruct (negb (okf w)); [Ot|]. destruct o.
  - apply RO_shutdown.
  - apply RO_restore.
  - Ot.
  - destruct (Bool.eqb _ _); [Ot|]. odev w d (t_block b). destruct b; [Ot|apply RO_signal].
  - destruct (d_budget (getd w d)) as [b|]; [|Ot].
    match goal with |- context[t_budget ?z] => odev w d (t_budget z) end.
    destruct (_ <? 1); [apply RO_sched_pass|Ot].
  - apply RO_dev.
  - apply RO_rewire.
  - apply RO_rm_call, rprio_add, rprio_clean.
  - apply RO_create_wo.
Qed.

Theorem RO_exec_fact fuel uops a w : RO w (exec_fact fuel uops a w nw).
Proof.
  destruct a as [d|d|d|d| |m [wo|wo]|k]; cbn [exec_fact].
  - apply RO_finish_cycle.
  - apply RO_pass_part.
  - apply RO_fail_proc.
  - apply RO_release_if_idle.
  - apply RO_res_check.
  - apply RO_maint_start.
  - apply RO_maint_finish.
  - apply RO_fold. intros. apply RO_run_uop.
Qed.

(** * what the decomposition gives *)
Lemma ostep_amem w w' : ostep nw w w' -> forall a, amem a (f_devs w') = amem a (f_devs w).
Proof.
  intros S a. destruct S as [w d f|w c _|w w' A _|w pid f]; [apply amem_updd|reflexivity|apply A|apply amem_everywhere].
Qed.
Lemma RO_amem w w' : RO w w' -> forall a, amem a (f_devs w') = amem a (f_devs w).
Proof. induction 1 as [|w1 w2 w3 S _ IH]; intro a; [reflexivity|]. rewrite IH. apply (ostep_amem _ _ S). Qed.

Lemma cmdok_amem w w' c : (forall a, amem a (f_devs w') = amem a (f_devs w)) -> cmdok w c -> cmdok w' c.
Proof. intros A H. destruct c; cbn in *; auto; rewrite A; exact H. Qed.

Theorem RO_out w w' : RO w w' -> Forall (cmdok w) (f_out w) -> Forall (cmdok w') (f_out w').
Proof.
  induction 1 as [|w1 w2 w3 S _ IH]; intro H; [exact H|]. apply IH.
  pose proof (ostep_amem _ _ S) as A.
  assert (MONO : forall l, Forall (cmdok w1) l -> Forall (cmdok w2) l).
  { intros l Hl. eapply Forall_impl; [|exact Hl]. intros c. apply cmdok_amem, A. }
  destruct S as [w d f|w c OK|w w' _ [l [O Q]]|w pid f].
  - apply MONO. exact H.
  - apply MONO. cbn. constructor; assumption.
  - rewrite O. apply Forall_app. split; apply MONO; assumption.
  - apply MONO. exact H.
Qed.

End Cmd.

(** every environment call of an action that starts with no pending output is well-formed *)
Theorem exec_fact_cmds_ok nw fuel uops a w :
  f_out w = [] -> Forall (cmdok (exec_fact fuel uops a w nw)) (f_out (exec_fact fuel uops a w nw)).
Proof. intro O. apply (RO_out nw w); [apply RO_exec_fact|rewrite O; constructor]. Qed.
