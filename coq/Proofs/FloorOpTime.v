(** C06: the timer theorem of [EnvOpTime.v] for the factory floor.  Every transition of the floor driver other than initialisation —
    an executed event, a call made between two events (shutdown, restore, failure, block, budget, rewiring, a device constructed late),
    a user event scheduled, a run started — is a transition of the histories that theorem quantifies over. *)
From Coq Require Import ZArith List Bool Lia.
From RecordUpdate Require Import RecordUpdate.
From SimVerif Require Import Model.Base Model.Env Model.FamEnv Model.RM Model.Maint Model.FloorTypes Model.Floor Model.FamFloor.
From SimVerif Require Import Proofs.EnvInv Proofs.EnvRem Proofs.EnvOpTime Proofs.FloorIdle.
Import ListNotations.
Open Scope Z_scope.

Section FloorOpTime.
Variable sc : fl_scn.
Notation wsd := (wgen (fq_seed sc) (fq_mod sc)).
Notation fchain := (chain fact fw wsd (exec_fl sc) fl_wfail).

Lemma fin_chain (s : fw * fenv) (w : fw) s' i s2 t :
  (let '(w1, cs) := flush_f w in
   match apply_cmds wsd (snd s) cs with
   | Ok en => ((clear_ferr w1, en), f_err w1)
   | Err en => ((clear_ferr w1, en), if f_err w1 =? 0 then 1 else f_err w1)
   end) = (s', 0) -> fchain i s' s2 t -> fchain i s s2 t.
Proof.
  destruct s as [w0 en]. cbn [snd]. destruct (flush_f w) as [w1 cs]. destruct (apply_cmds wsd en cs) as [en1|en1] eqn:AC.
  - intros E CH. injection E as <- _. apply (ch_calls fact fw wsd (exec_fl sc) fl_wfail i w0 en (clear_ferr w1) cs en1 s2 t AC CH).
  - intros E. injection E as _ E. destruct (f_err w1 =? 0) eqn:Z0; [discriminate|]. apply Z.eqb_neq in Z0. contradiction.
Qed.

(** every driver operation except initialisation and whole runs (a run is its start followed by steps) *)
Theorem fxop_chain s x s' i s2 t :
  x <> FXInit -> (forall d, x <> FXRun d) -> do_fxop sc s x = (s', 0) -> fchain i s' s2 t ->
  fchain i s s2 ((match x with FXStep => if pendingb fact (snd s) i then now (snd s') - now (snd s) else 0 | _ => 0 end) + t).
Proof.
  intros NI NR E CH. destruct x as [| |d|tm k p|o|d ups]; [contradiction| |exfalso; apply (NR d); reflexivity| | |]; unfold do_fxop in E.
  - destruct s as [w en]. destruct (step wsd (exec_fl sc) fl_wfail (w, en)) as [[s1|s1]|] eqn:ST; [| |discriminate].
    2:{ exfalso. injection E as _ E. destruct (f_err (fst s1) =? 0) eqn:Z0; [discriminate|]. apply Z.eqb_neq in Z0. contradiction. }
    injection E as <-. cbn [snd]. apply (ch_step fact fw wsd (exec_fl sc) fl_wfail i w en s1 s2 t ST CH).
  - rewrite Z.add_0_l. destruct s as [w en]. cbn [fst snd] in *.
    destruct (apply_cmd wsd en (CSched tm p (-5) (AUser k))) as [en1|en1] eqn:AC; [|discriminate]. injection E as <-.
    apply (ch_calls fact fw wsd (exec_fl sc) fl_wfail i w en w [CSched tm p (-5) (AUser k)] en1 s2 t); [cbn [apply_cmds]; rewrite AC; reflexivity|exact CH].
  - rewrite Z.add_0_l. apply (fin_chain s _ s' i s2 t E CH).
  - rewrite Z.add_0_l. apply (fin_chain s _ s' i s2 t E CH).
Qed.

(** a history computed from a list of driver operations, with the time event [i] spent pending *)
Fixpoint fx_hist (i : nat) (ops : list fxop) (s : fw * fenv) : option ((fw * fenv) * Z) :=
  match ops with
  | [] => Some (s, 0)
  | x :: r =>
    match x with
    | FXInit | FXRun _ => None
    | _ =>
      let '(s1, st) := do_fxop sc s x in
      if st =? 0 then
        match fx_hist i r s1 with
        | Some (s2, t) => Some (s2, (match x with FXStep => if pendingb fact (snd s) i then now (snd s1) - now (snd s) else 0 | _ => 0 end) + t)
        | None => None
        end
      else None
    end
  end.

Lemma fx_hist_chain i ops : forall s s' t, fx_hist i ops s = Some (s', t) -> fchain i s s' t.
Proof.
  induction ops as [|x r IH]; intros s s' t H; cbn [fx_hist] in H.
  - injection H as <- <-. constructor.
  - assert (G : x <> FXInit -> (forall d, x <> FXRun d) ->
                (let '(s1, st) := do_fxop sc s x in
                 if st =? 0 then match fx_hist i r s1 with
                                 | Some (s2, t0) => Some (s2, (match x with FXStep => if pendingb fact (snd s) i then now (snd s1) - now (snd s) else 0 | _ => 0 end) + t0)
                                 | None => None end else None) = Some (s', t) -> fchain i s s' t).
    { intros NI NR H0. destruct (do_fxop sc s x) as [s1 st] eqn:E. destruct (st =? 0) eqn:Z0; [|discriminate]. apply Z.eqb_eq in Z0. subst st.
      destruct (fx_hist i r s1) as [[s2 t0]|] eqn:FH; [|discriminate]. injection H0 as <- <-.
      apply (fxop_chain s x s1 i s2 t0 NI NR E). apply IH, FH. }
    destruct x; try discriminate; apply G; try discriminate; exact H.
Qed.
End FloorOpTime.
