(** Waiting requests (C10): the availability check invokes a callback only when
    the whole request fits at that moment, each registration at most once, in
    registration order; after a check, either nothing feasible is left waiting
    or a further check has been scheduled at the same instant. *)
From Coq Require Import ZArith List Bool Lia Sorting.Sorted.
From SimVerif Require Import Model.Base Model.Env Model.RM Proofs.RMInv.
Import ListNotations.
Open Scope Z_scope.

(** * frames: what operations other than [register] leave alone *)
Definition frame (s s' : rs) : Prop :=
  r_wait s' = r_wait s /\ r_cblog s' = r_cblog s /\ r_nreg s' = r_nreg s /\ r_env s' = r_env s.

Lemma frame_refl s : frame s s. Proof. repeat split. Qed.
Lemma frame_trans a b c : frame a b -> frame b c -> frame a c.
Proof. unfold frame. intuition congruence. Qed.

Definition out_grows (s s' : rs) : Prop := forall c, In c (r_out s) -> In c (r_out s').
Lemma out_grows_refl s : out_grows s s. Proof. intros c H; exact H. Qed.
Lemma out_grows_trans a b c : out_grows a b -> out_grows b c -> out_grows a c.
Proof. unfold out_grows. auto. Qed.

Ltac og := let x := fresh "x" in let Hx := fresh "Hx" in intros x Hx; cbn; first [exact Hx | right; exact Hx | right; right; exact Hx].
Ltac fr := first [apply frame_refl | repeat split].

Lemma take_frame nw r : forall s, frame s (take nw r s) /\ out_grows s (take nw r s).
Proof.
  induction r as [|[n a] r IH]; intro s; cbn; [split; [fr|og]|].
  destruct (a =? 0); [apply IH|].
  destruct (aget n (r_pools s)) as [[u c]|]; [|split; [repeat split|og]].
  destruct (IH (record nw n (set_pools s (aset n (u + a, c) (r_pools s))))) as [F O].
  split; [eapply frame_trans; [|exact F]; repeat split|].
  eapply out_grows_trans; [|exact O]. intros x Hx. cbn. right. exact Hx.
Qed.

Lemma give_back_frame nw r : forall s, frame s (give_back nw r s) /\ out_grows s (give_back nw r s).
Proof.
  induction r as [|[n a] r IH]; intro s; cbn; [split; [fr|og]|].
  destruct (a =? 0); [apply IH|].
  destruct (aget n (r_pools s)) as [[u c]|]; [|split; [repeat split|og]].
  destruct (IH (record nw n (set_pools s (aset n (u - a, c) (r_pools s))))) as [F O].
  split; [eapply frame_trans; [|exact F]; repeat split|].
  eapply out_grows_trans; [|exact O]. intros x Hx. cbn. right. exact Hx.
Qed.

Lemma release_resources_frame nw r s : frame s (release_resources nw r s) /\ out_grows s (release_resources nw r s).
Proof.
  unfold release_resources. destruct (give_back_frame nw r s) as [F O].
  destruct (negb (r_err (give_back nw r s) =? 0)); [split; assumption|].
  split; [eapply frame_trans; [exact F|repeat split]|].
  eapply out_grows_trans; [exact O|]. intros x Hx. cbn. right. exact Hx.
Qed.

Lemma reserve_frame nw r s : frame s (fst (reserve nw r s)) /\ out_grows s (fst (reserve nw r s)).
Proof.
  unfold reserve. destruct (can_fulfill (r_pools s) (positive_part r)); [|split; [fr|og]].
  destruct (has_negative r); [split; [repeat split|og]|].
  destruct (take_frame nw r s) as [F O].
  destruct (negb (r_err (take nw r s) =? 0)); cbn; [split; assumption|].
  split; [eapply frame_trans; [exact F|repeat split]|exact O].
Qed.

Lemma reserve_into_frame nw slot r s : frame s (reserve_into nw slot r s) /\ out_grows s (reserve_into nw slot r s).
Proof.
  unfold reserve_into. destruct (reserve_frame nw r s) as [F O].
  destruct (reserve nw r s) as [s1 o]. cbn in *.
  destruct (negb (r_err s1 =? 0)); [split; assumption|].
  split; [eapply frame_trans; [exact F|repeat split]|exact O].
Qed.

Lemma release_obj_frame nw i ro s : frame s (release_obj nw i ro s) /\ out_grows s (release_obj nw i ro s).
Proof.
  unfold release_obj. destruct ro as [r|].
  - destruct (negb (validate_release (nth i (r_res s) []) r =? 0)); [split; [repeat split|og]|].
    destruct (release_resources_frame nw r s) as [F O].
    destruct (negb (r_err (release_resources nw r s) =? 0)); [split; assumption|].
    destruct (reduce_held (nth i (r_res s) []) r []) as [[h1 td] e1].
    destruct (negb (e1 =? 0)); (split; [eapply frame_trans; [exact F|repeat split]|exact O]).
  - destruct (release_resources_frame nw (nth i (r_res s) []) s) as [F O].
    destruct (negb (r_err (release_resources nw (nth i (r_res s) []) s) =? 0)); [split; assumption|].
    split; [eapply frame_trans; [exact F|repeat split]|exact O].
Qed.

Lemma add_resources_frame nw n a s : frame s (add_resources nw n a s) /\ out_grows s (add_resources nw n a s).
Proof.
  unfold add_resources. destruct (a =? 0); [split; [fr|og]|].
  set (s1 := match aget n (r_pools s) with
             | Some (u, c) => if (a <? 0) && (c + a <? 0) then fail s E_VALUE else set_pools s (aset n (u, c + a) (r_pools s))
             | None => if a <? 0 then fail s E_VALUE else set_pools s (aset n (0, a) (r_pools s)) end).
  assert (F1 : frame s s1 /\ r_out s1 = r_out s).
  { unfold s1. destruct (aget n (r_pools s)) as [[u c]|].
    - destruct ((a <? 0) && (c + a <? 0)); split; repeat split.
    - destruct (a <? 0); split; repeat split. }
  destruct F1 as [F1 O1].
  destruct (negb (r_err s1 =? 0)); [split; [exact F1|intros x Hx; rewrite O1; exact Hx]|].
  destruct (r_env s1).
  - split; [eapply frame_trans; [exact F1|repeat split]|]. intros x Hx. cbn. right. right. rewrite O1. exact Hx.
  - split; [exact F1|intros x Hx; rewrite O1; exact Hx].
Qed.

(** [register] appends one entry with the next registration number *)
Definition appended (s s' : rs) : Prop :=
  exists app, r_wait s' = r_wait s ++ app /\ map we_id app = seq (r_nreg s) (length app) /\
              r_nreg s' = (r_nreg s + length app)%nat /\ r_cblog s' = r_cblog s /\ r_env s' = r_env s.

Lemma appended_refl s : appended s s.
Proof. exists []. rewrite app_nil_r. cbn. repeat split; lia. Qed.

Lemma frame_appended s s' : frame s s' -> appended s s'.
Proof. intros [A [B [C D]]]. exists []. rewrite app_nil_r, A, B, C, D. cbn. repeat split; lia. Qed.

Lemma appended_trans a b c : appended a b -> appended b c -> appended a c.
Proof.
  intros [p1 [A1 [B1 [C1 [D1 E1]]]]] [p2 [A2 [B2 [C2 [D2 E2]]]]].
  exists (p1 ++ p2). rewrite A2, A1, app_assoc. split; [reflexivity|].
  rewrite map_app, app_length, seq_app, B1, B2, C1. repeat split; try congruence. lia.
Qed.

Lemma run_rop_appended nw arg o s : appended s (run_rop nw arg o s) /\ out_grows s (run_rop nw arg o s).
Proof.
  unfold run_rop. destruct (negb (r_err s =? 0)); [split; [apply appended_refl|og]|].
  destruct o as [n a|slot r|slot|slot|slot r|a b|cb r].
  - destruct (add_resources_frame nw n a s). split; [apply frame_appended|]; assumption.
  - destruct (reserve_into_frame nw slot r s). split; [apply frame_appended|]; assumption.
  - destruct (reserve_into_frame nw slot arg s). split; [apply frame_appended|]; assumption.
  - unfold release_slot. destruct (aget slot (r_slots s)) as [[i|]|]; try (split; [apply appended_refl|og]).
    destruct (release_obj_frame nw i None s). split; [apply frame_appended|]; assumption.
  - unfold release_slot. destruct (aget slot (r_slots s)) as [[i|]|]; try (split; [apply appended_refl|og]).
    destruct (release_obj_frame nw i (Some r) s). split; [apply frame_appended|]; assumption.
  - unfold merge_slots. destruct (aget a (r_slots s)) as [[i|]|]; try (split; [apply appended_refl|og]).
    destruct (aget b (r_slots s)) as [[j|]|]; try (split; [apply appended_refl|og]).
    unfold merge_obj. destruct (Nat.eqb i j); (split; [apply frame_appended; repeat split|og]).
  - unfold register. split.
    + exists [mkW r cb (r_nreg s)]. cbn. repeat split; lia.
    + intros x Hx. cbn. right. exact Hx.
Qed.

Lemma run_rops_appended nw arg os : forall s, appended s (run_rops nw arg os s) /\ out_grows s (run_rops nw arg os s).
Proof.
  unfold run_rops. induction os as [|o os IH]; intro s; cbn; [split; [apply appended_refl|og]|].
  destruct (run_rop_appended nw arg o s) as [A O]. destruct (IH (run_rop nw arg o s)) as [A' O'].
  split; [eapply appended_trans; eauto|eapply out_grows_trans; eauto].
Qed.

(** * C10 (a): a callback is invoked only for a request that fits at that moment,
      with the stored copy of the request *)
Definition cb_ok (c : cbentry) : Prop := can_fulfill (ce_pools c) (ce_req c) = true.

Theorem check_only_feasible cbs nw fuel : forall i s,
  Forall cb_ok (r_cblog s) -> Forall cb_ok (r_cblog (check_pending fuel cbs nw i s)).
Proof.
  induction fuel as [|f IH]; intros i s H; cbn; [exact H|].
  destruct (nth_error (r_wait s) i) as [[r cb id]|] eqn:N; [|exact H].
  destruct (can_fulfill (r_pools s) r) eqn:CF; [|apply IH, H].
  set (s0 := set_cblog s (mkCb cb r nw id (r_pools s) :: r_cblog s)).
  destruct (run_rops_appended nw r (cbs cb) s0) as [[app [_ [_ [_ [Hc _]]]]] _].
  assert (H1 : Forall cb_ok (r_cblog (run_rops nw r (cbs cb) s0))).
  { rewrite Hc. cbn. constructor; [exact CF|exact H]. }
  destruct (negb (r_err (run_rops nw r (cbs cb) s0) =? 0)); [exact H1|].
  apply IH. exact H1.
Qed.

(** * C10 (b): exactly once, in registration order.  Registration numbers are ghosts. *)
Record WInv (s : rs) : Prop := {
  wi_sorted : StronglySorted lt (map we_id (r_wait s));
  wi_fresh : Forall (fun e => (we_id e < r_nreg s)%nat) (r_wait s);
  wi_cfresh : Forall (fun c => (ce_id c < r_nreg s)%nat) (r_cblog s);
  wi_once : NoDup (map ce_id (r_cblog s));
  wi_disj : forall e c, In e (r_wait s) -> In c (r_cblog s) -> we_id e <> ce_id c }.

Lemma WInv_init : WInv init_rs.
Proof. split; cbn; try constructor. intros e c []. Qed.

Lemma sorted_app_seq l n k :
  StronglySorted lt l -> Forall (fun x => (x < n)%nat) l -> StronglySorted lt (l ++ seq n k).
Proof.
  induction 1 as [|x l S IH F]; intro B; cbn.
  - clear. revert n. induction k as [|k IHk]; intro n; cbn; constructor; [apply IHk|].
    apply Forall_forall. intros y Hy. apply in_seq in Hy. lia.
  - inversion B; subst. constructor; [apply IH; assumption|].
    apply Forall_app. split; [exact F|]. apply Forall_forall. intros y Hy. apply in_seq in Hy. lia.
Qed.

Lemma appended_WInv s s' : appended s s' -> WInv s -> WInv s'.
Proof.
  intros [app [A [B [C [D E]]]]] [Hs F CF O DJ]. split; rewrite ?A, ?C, ?D.
  - rewrite map_app, B. apply sorted_app_seq; [exact Hs|].
    rewrite Forall_forall in *. intros x Hx. apply in_map_iff in Hx. destruct Hx as [e [<- He]]. apply F, He.
  - apply Forall_app. split.
    + eapply Forall_impl; [|exact F]. cbn. intros; lia.
    + rewrite Forall_forall. intros e He. assert (In (we_id e) (map we_id app)) by (apply in_map, He).
      rewrite B in H. apply in_seq in H. lia.
  - eapply Forall_impl; [|exact CF]. cbn. intros; lia.
  - exact O.
  - intros e c He Hc. apply in_app_or in He. destruct He as [He|He]; [apply DJ; assumption|].
    assert (In (we_id e) (map we_id app)) by (apply in_map, He). rewrite B in H. apply in_seq in H.
    rewrite Forall_forall in CF. apply CF in Hc. lia.
Qed.

Lemma remove_nth_app {X} i (l app : list X) : (i < length l)%nat ->
  firstn i (l ++ app) ++ skipn (S i) (l ++ app) = (firstn i l ++ skipn (S i) l) ++ app.
Proof.
  intro L. rewrite firstn_app, skipn_app.
  replace (i - length l)%nat with O by lia. replace (S i - length l)%nat with O by lia.
  cbn. rewrite app_nil_r, app_assoc. reflexivity.
Qed.

Lemma my_in_firstn {X} i (l : list X) x : In x (firstn i l) -> In x l.
Proof. intro H. rewrite <- (firstn_skipn i l). apply in_or_app. left. exact H. Qed.
Lemma my_in_skipn {X} i (l : list X) x : In x (skipn i l) -> In x l.
Proof. intro H. rewrite <- (firstn_skipn i l). apply in_or_app. right. exact H. Qed.

Lemma sorted_remove l i : StronglySorted lt l -> StronglySorted lt (firstn i l ++ skipn (S i) l).
Proof.
  revert i. induction l as [|x l IH]; intros i Hs; [destruct i; cbn; constructor|].
  inversion Hs as [|? ? Hs' F]; subst. destruct i as [|i].
  - cbn. exact Hs'.
  - change (firstn (S i) (x :: l) ++ skipn (S (S i)) (x :: l)) with (x :: (firstn i l ++ skipn (S i) l)).
    constructor; [apply IH, Hs'|]. rewrite Forall_forall in *. intros y Hy. apply F.
    apply in_app_or in Hy. destruct Hy as [Hy|Hy]; [eapply my_in_firstn, Hy|eapply my_in_skipn, Hy].
Qed.

Lemma In_remove {X} (l : list X) i y : In y (firstn i l ++ skipn (S i) l) -> In y l.
Proof.
  intro H. apply in_app_or in H. destruct H as [H|H]; [eapply my_in_firstn, H|eapply my_in_skipn, H].
Qed.

Lemma sorted_nth_not_in_rest (l : list wentry) i e :
  StronglySorted lt (map we_id l) -> nth_error l i = Some e ->
  ~ In (we_id e) (map we_id (firstn i l ++ skipn (S i) l)).
Proof.
  revert i. induction l as [|x l IH]; intros i Hs N; [destruct i; discriminate|].
  cbn in Hs. inversion Hs as [|? ? Hs' F]; subst. rewrite Forall_forall in F. destruct i as [|i].
  - cbn in N. injection N as ->. cbn. intro H. apply F in H. lia.
  - cbn in N. change (firstn (S i) (x :: l) ++ skipn (S (S i)) (x :: l)) with (x :: (firstn i l ++ skipn (S i) l)).
    cbn [map]. intros [H|H].
    + assert (In (we_id e) (map we_id l)) as H0 by (apply in_map; eapply nth_error_In; eauto).
      apply F in H0. lia.
    + eapply IH; eauto.
Qed.

(** one iteration that invokes the entry at index i: bookkeeping stays consistent *)
Definition after_call cbs nw i (s : rs) (r : req) (cb id : nat) : rs :=
  let s1 := run_rops nw r (cbs cb) (set_cblog s (mkCb cb r nw id (r_pools s) :: r_cblog s)) in
  set_wait s1 (firstn i (r_wait s1) ++ skipn (S i) (r_wait s1)).

Lemma scan_step_WInv cbs nw i s r cb id :
  WInv s -> nth_error (r_wait s) i = Some (mkW r cb id) -> WInv (after_call cbs nw i s r cb id).
Proof.
  intros I N. unfold after_call.
  set (e := mkW r cb id) in *.
  set (s0 := set_cblog s (mkCb cb r nw id (r_pools s) :: r_cblog s)).
  destruct (run_rops_appended nw r (cbs cb) s0) as [[app [A [B [C [D E]]]]] _].
  set (s1 := run_rops nw r (cbs cb) s0) in *.
  assert (L : (i < length (r_wait s))%nat) by (apply nth_error_Some; congruence).
  pose proof I as [Hs F CF O DJ].
  assert (Hid : (id < r_nreg s)%nat).
  { rewrite Forall_forall in F. apply (F e). eapply nth_error_In; eauto. }
  assert (Hnew : ~ In id (map ce_id (r_cblog s))).
  { intro H. apply in_map_iff in H. destruct H as [c [Ec Hc]]. apply (DJ e c); [eapply nth_error_In; eauto|exact Hc|]. cbn. congruence. }
  cbn in A, C, D. split; cbn [r_wait r_cblog r_nreg r_pools set_wait].
  - rewrite A, remove_nth_app by exact L. rewrite map_app, B. apply sorted_app_seq.
    + rewrite map_app, <- firstn_map, <- skipn_map. apply sorted_remove, Hs.
    + rewrite Forall_forall in *. intros x Hx. apply in_map_iff in Hx. destruct Hx as [y [<- Hy]].
      cbn. apply F. eapply In_remove, Hy.
  - rewrite A, remove_nth_app by exact L. apply Forall_app. split.
    + rewrite Forall_forall in *. intros y Hy. rewrite C. apply In_remove in Hy. apply F in Hy. cbn. lia.
    + rewrite Forall_forall. intros y Hy. assert (In (we_id y) (map we_id app)) by (apply in_map, Hy).
      rewrite B in H. apply in_seq in H. rewrite C. cbn in *. lia.
  - rewrite D, C. cbn. constructor; [cbn; lia|]. eapply Forall_impl; [|exact CF]. cbn. intros; lia.
  - rewrite D. cbn. constructor; assumption.
  - rewrite A, D, remove_nth_app by exact L. cbn. intros y c Hy [<-|Hc].
    + cbn. apply in_app_or in Hy. destruct Hy as [Hy|Hy].
      * intro Eq. eapply (sorted_nth_not_in_rest (r_wait s) i e); eauto. cbn. rewrite <- Eq. apply in_map, Hy.
      * assert (In (we_id y) (map we_id app)) by (apply in_map, Hy). rewrite B in H. apply in_seq in H. cbn in H. lia.
    + apply in_app_or in Hy. destruct Hy as [Hy|Hy].
      * apply DJ; [eapply In_remove, Hy|exact Hc].
      * assert (In (we_id y) (map we_id app)) by (apply in_map, Hy). rewrite B in H. apply in_seq in H.
        rewrite Forall_forall in CF. apply CF in Hc. cbn in H. lia.
Qed.

(** one whole scan keeps the registration bookkeeping consistent: no registration is ever
    invoked twice (NoDup of the invocation log) and invoked ones are gone from the list *)
Theorem check_pending_WInv cbs nw fuel : forall i s,
  WInv s -> r_err (check_pending fuel cbs nw i s) = 0 -> WInv (check_pending fuel cbs nw i s).
Proof.
  induction fuel as [|f IH]; intros i s I; cbn.
  - unfold E_FUEL. discriminate.
  - destruct (nth_error (r_wait s) i) as [[r cb id]|] eqn:N; [|intros _; exact I].
    destruct (can_fulfill (r_pools s) r); [|apply IH, I].
    pose proof (scan_step_WInv cbs nw i s r cb id I N) as I1. unfold after_call in I1.
    destruct (negb (r_err (run_rops nw r (cbs cb) (set_cblog s (mkCb cb r nw id (r_pools s) :: r_cblog s))) =? 0)) eqn:Er.
    + intro H. rewrite H in Er. discriminate.
    + apply IH. exact I1.
Qed.

(** within one scan callbacks are invoked in registration order *)
Definition scan_ord (log0 : list cbentry) (i : nat) (s : rs) : Prop :=
  exists new, r_cblog s = new ++ log0 /\ StronglySorted gt (map ce_id new) /\
              forall c e, In c new -> In e (skipn i (r_wait s)) -> (ce_id c < we_id e)%nat.

Lemma skipn_remove_app {X} i (l app : list X) : (i < length l)%nat ->
  skipn i ((firstn i l ++ skipn (S i) l) ++ app) = skipn (S i) l ++ app.
Proof.
  intro L. rewrite <- app_assoc. rewrite skipn_app.
  assert (E : length (firstn i l) = i) by (apply firstn_length_le; lia).
  rewrite E. rewrite skipn_all2 by lia. replace (i - i)%nat with O by lia. reflexivity.
Qed.

Lemma in_skipn_S {X} i : forall (l : list X) x, In x (skipn (S i) l) -> In x (skipn i l).
Proof.
  induction i as [|i IH]; intros [|y l] x H; cbn in *; auto.
Qed.

Lemma sorted_skipn_gt (l : list wentry) i e y :
  StronglySorted lt (map we_id l) -> nth_error l i = Some e -> In y (skipn (S i) l) -> (we_id e < we_id y)%nat.
Proof.
  revert i. induction l as [|x l IH]; intros i Hs N Hy; [destruct i; discriminate|].
  cbn in Hs. inversion Hs as [|? ? Hs' F]; subst. rewrite Forall_forall in F. destruct i as [|i].
  - cbn in N. injection N as ->. cbn in Hy. apply F. apply in_map, Hy.
  - cbn in N. change (skipn (S (S i)) (x :: l)) with (skipn (S i) l) in Hy. eapply IH; eauto.
Qed.

Theorem check_pending_order cbs nw fuel log0 : forall i s,
  WInv s -> scan_ord log0 i s -> r_err (check_pending fuel cbs nw i s) = 0 ->
  exists new, r_cblog (check_pending fuel cbs nw i s) = new ++ log0 /\ StronglySorted gt (map ce_id new).
Proof.
  induction fuel as [|f IH]; intros i s I SO; cbn [check_pending].
  - unfold E_FUEL. discriminate.
  - destruct (nth_error (r_wait s) i) as [[r cb id]|] eqn:N.
    2:{ intros _. destruct SO as [new [A [B _]]]. exists new. auto. }
    destruct (can_fulfill (r_pools s) r).
    2:{ apply IH; [exact I|]. destruct SO as [new [A [B C]]]. exists new. split; [exact A|]. split; [exact B|].
        intros c e Hc He. apply C; [exact Hc|]. apply in_skipn_S, He. }
    pose proof (scan_step_WInv cbs nw i s r cb id I N) as I1. unfold after_call in I1.
    set (s0 := set_cblog s (mkCb cb r nw id (r_pools s) :: r_cblog s)) in *.
    destruct (run_rops_appended nw r (cbs cb) s0) as [[app [A [B [C [D E]]]]] _].
    set (s1 := run_rops nw r (cbs cb) s0) in *.
    destruct (negb (r_err s1 =? 0)) eqn:Er; [intro H; rewrite H in Er; discriminate|].
    apply IH; [exact I1|].
    destruct SO as [new [A0 [B0 C0]]]. pose proof I as [Hs F CF O DJ].
    assert (L : (i < length (r_wait s))%nat) by (apply nth_error_Some; congruence).
    assert (Hin : In (mkW r cb id) (skipn i (r_wait s))).
    { clear - N. revert i N. induction (r_wait s) as [|x l IHl]; intros i N; [destruct i; discriminate|].
      destruct i; cbn in *; [left; congruence|auto]. }
    exists (mkCb cb r nw id (r_pools s) :: new). cbn [r_cblog r_wait set_wait]. split; [|split].
    + rewrite D. cbn. rewrite A0. reflexivity.
    + cbn. constructor; [exact B0|]. rewrite Forall_forall. intros x Hx. apply in_map_iff in Hx.
      destruct Hx as [c [<- Hc]]. specialize (C0 c _ Hc Hin). cbn in C0. lia.
    + intros c e Hc He. cbn in A. rewrite A, remove_nth_app in He by exact L.
      rewrite skipn_remove_app in He by exact L.
      apply in_app_or in He.
      assert (Hidb : (id < r_nreg s)%nat).
      { rewrite Forall_forall in F. apply (F (mkW r cb id)). eapply nth_error_In; eauto. }
      destruct Hc as [<-|Hc]; cbn.
      * destruct He as [He|He].
        -- apply (sorted_skipn_gt (r_wait s) i (mkW r cb id) e Hs N He).
        -- assert (In (we_id e) (map we_id app)) as H by (apply in_map, He). rewrite B in H. apply in_seq in H. cbn in H. lia.
      * destruct He as [He|He].
        -- apply C0; [exact Hc|]. apply in_skipn_S, He.
        -- assert (In (we_id e) (map we_id app)) as H by (apply in_map, He). rewrite B in H. apply in_seq in H. cbn in H.
           rewrite Forall_forall in CF. assert (In c (r_cblog s)) as Hcl by (rewrite A0; apply in_or_app; left; exact Hc).
           apply CF in Hcl. lia.
Qed.

(** * C10 (c): after a check, nothing feasible is left waiting unless a further check was scheduled *)
Definition Chk (nw : Z) (s : rs) : Prop := In (RSched nw P_OTHER_HIGH (-1) ACheck) (r_out s).
Definition Tight (p p' : pools) : Prop := forall r, can_fulfill p r = false -> can_fulfill p' r = false.

Lemma Tight_refl p : Tight p p. Proof. intros r H; exact H. Qed.
Lemma Tight_trans a b c : Tight a b -> Tight b c -> Tight a c.
Proof. unfold Tight. auto. Qed.

Lemma tight_aset_up p n u c a : aget n p = Some (u, c) -> 0 <= a -> Tight p (aset n (u + a, c) p).
Proof.
  intros G Ha r. induction r as [|[k b] r IH]; cbn; [auto|].
  destruct (b =? 0); [exact IH|].
  destruct (Z.eq_dec k n) as [->|N].
  - rewrite G, aget_aset_same.
    destruct (Z.ltb_spec (c - u) b) as [H1|H1]; destruct (Z.ltb_spec (c - (u + a)) b) as [H2|H2]; auto; try lia.
  - rewrite aget_aset_other by assumption. destruct (aget k p) as [[u' c']|]; [|auto].
    destruct (c' - u' <? b); auto.
Qed.

Lemma take_tight nw r : forall s, nonneg r -> Tight (r_pools s) (r_pools (take nw r s)).
Proof.
  induction r as [|[n a] r IH]; intros s NN; cbn; [apply Tight_refl|].
  inversion NN as [|? ? Ha NN']; subst. cbn in Ha.
  destruct (a =? 0); [apply IH, NN'|].
  destruct (aget n (r_pools s)) as [[u c]|] eqn:G; [|apply Tight_refl].
  eapply Tight_trans; [|apply IH, NN']. cbn. apply tight_aset_up; assumption.
Qed.

Lemma release_resources_chk nw r s : r_err (release_resources nw r s) = 0 -> Chk nw (release_resources nw r s).
Proof.
  unfold release_resources, Chk. destruct (Z.eqb_spec (r_err (give_back nw r s)) 0) as [E|E]; cbn [negb].
  - intros _. cbn. left. reflexivity.
  - intro H. contradiction.
Qed.

Lemma reserve_pools nw r s :
  r_pools (fst (reserve nw r s)) = r_pools s \/
  (nonneg r /\ r_pools (fst (reserve nw r s)) = r_pools (take nw r s)).
Proof.
  unfold reserve. destruct (can_fulfill (r_pools s) (positive_part r)); [|left; reflexivity].
  destruct (has_negative r) eqn:HN; [left; reflexivity|]. right. split; [apply has_negative_false, HN|].
  destruct (negb (r_err (take nw r s) =? 0)); reflexivity.
Qed.

Lemma reserve_into_pools nw slot r s : r_pools (reserve_into nw slot r s) = r_pools (fst (reserve nw r s)).
Proof. unfold reserve_into. destruct (reserve nw r s) as [s1 o]. cbn. destruct (negb (r_err s1 =? 0)); reflexivity. Qed.

Definition quiet (s s' : rs) : Prop := Tight (r_pools s) (r_pools s') /\ r_wait s' = r_wait s.
Lemma quiet_refl s : quiet s s. Proof. split; [apply Tight_refl|reflexivity]. Qed.
Lemma quiet_trans a b c : quiet a b -> quiet b c -> quiet a c.
Proof. intros [T1 W1] [T2 W2]. split; [eapply Tight_trans; eauto|congruence]. Qed.

(** every operation either schedules an availability check at the current instant, or can only
    make waiting requests less feasible and registers nothing *)
Lemma run_rop_chk_or_quiet nw arg o s :
  RInv s -> rop_wf o -> r_env s = true ->
  Chk nw (run_rop nw arg o s) \/ quiet s (run_rop nw arg o s).
Proof.
  intros I WF EN. unfold run_rop. destruct (Z.eqb_spec (r_err s) 0) as [E|E]; cbn [negb]; [|right; apply quiet_refl].
  pose proof I as [U C F SL IJ].
  assert (RES : forall slot r, Chk nw (reserve_into nw slot r s) \/ quiet s (reserve_into nw slot r s)).
  { intros slot r. right. split; [|apply reserve_into_frame]. rewrite reserve_into_pools.
    destruct (reserve_pools nw r s) as [P|[NN P]]; rewrite P; [apply Tight_refl|apply take_tight, NN]. }
  destruct o as [n a|slot r|slot|slot|slot r|a b|cb r]; cbn in WF.
  - unfold add_resources. destruct (a =? 0); [right; apply quiet_refl|].
    destruct (aget n (r_pools s)) as [[u c]|].
    + destruct ((a <? 0) && (c + a <? 0)); cbn; [right; split; [apply Tight_refl|reflexivity]|].
      rewrite E, EN. cbn. left. left. reflexivity.
    + destruct (a <? 0); cbn; [right; split; [apply Tight_refl|reflexivity]|]. rewrite E, EN. cbn. left. left. reflexivity.
  - apply RES.
  - apply RES.
  - unfold release_slot. destruct (aget slot (r_slots s)) as [[i|]|] eqn:G; try (right; apply quiet_refl).
    assert (L : (i < length (r_res s))%nat) by (eapply SL; exact G).
    destruct (release_obj_spec nw i None s I E L ltac:(intros; discriminate)) as [_ [Herr _]].
    destruct (Z.eq_dec (r_err (release_obj nw i None s)) 0) as [E1|E1].
    + left. unfold release_obj in *.
      destruct (Z.eqb_spec (r_err (release_resources nw (nth i (r_res s) []) s)) 0) as [E2|E2]; cbn [negb] in *.
      * apply release_resources_chk in E2. exact E2.
      * contradiction.
    + right. destruct (Herr E1) as [P [Wt _]]. split; [unfold req in *; rewrite P; apply Tight_refl|exact Wt].
  - unfold release_slot. destruct (aget slot (r_slots s)) as [[i|]|] eqn:G; try (right; apply quiet_refl).
    assert (L : (i < length (r_res s))%nat) by (eapply SL; exact G).
    destruct (release_obj_spec nw i (Some r) s I E L ltac:(intros r' H; injection H as <-; exact WF)) as [_ [Herr _]].
    destruct (Z.eq_dec (r_err (release_obj nw i (Some r) s)) 0) as [E1|E1].
    + left. unfold release_obj in *.
      destruct (Z.eqb_spec (validate_release (nth i (r_res s) []) r) 0) as [V|V]; cbn [negb] in *; [|cbn in E1; contradiction].
      destruct (Z.eqb_spec (r_err (release_resources nw r s)) 0) as [E2|E2]; cbn [negb] in *; [|contradiction].
      apply release_resources_chk in E2.
      destruct (reduce_held (nth i (r_res s) []) r []) as [[h1 td] e1].
      destruct (negb (e1 =? 0)); exact E2.
    + right. destruct (Herr E1) as [P [Wt _]]. split; [unfold req in *; rewrite P; apply Tight_refl|exact Wt].
  - right. unfold merge_slots. destruct (aget a (r_slots s)) as [[i|]|]; try apply quiet_refl.
    destruct (aget b (r_slots s)) as [[j|]|]; try apply quiet_refl.
    unfold merge_obj. destruct (Nat.eqb i j); (split; [apply Tight_refl|reflexivity]).
  - left. unfold register, Chk. cbn. left. reflexivity.
Qed.

Lemma run_rops_chk_or_quiet nw arg os : forall s,
  RInv s -> Forall rop_wf os -> r_env s = true ->
  Chk nw (run_rops nw arg os s) \/ quiet s (run_rops nw arg os s).
Proof.
  unfold run_rops. induction os as [|o os IH]; intros s I WF EN; cbn; [right; apply quiet_refl|].
  inversion WF as [|? ? W1 W2]; subst.
  destruct (run_rop_appended nw arg o s) as [[app [_ [_ [_ [_ En1]]]]] O1].
  assert (I1 : RInv (run_rop nw arg o s)) by (apply run_rop_inv; assumption).
  assert (EN1 : r_env (run_rop nw arg o s) = true) by congruence.
  destruct (IH (run_rop nw arg o s) I1 W2 EN1) as [H|H]; [left; exact H|].
  destruct (run_rop_chk_or_quiet nw arg o s I W1 EN) as [H1|H1].
  - left. destruct (run_rops_appended nw arg os (run_rop nw arg o s)) as [_ O2]. apply O2, H1.
  - right. eapply quiet_trans; eauto.
Qed.

Lemma firstn_remove_app {X} i (l app : list X) : (i < length l)%nat ->
  firstn i ((firstn i l ++ skipn (S i) l) ++ app) = firstn i l.
Proof.
  intro L. rewrite <- app_assoc, firstn_app.
  assert (E : length (firstn i l) = i) by (apply firstn_length_le; lia).
  rewrite E. replace (i - i)%nat with O by lia. cbn. rewrite app_nil_r.
  rewrite firstn_all2 by lia. reflexivity.
Qed.

Lemma firstn_S_nth {X} i (l : list X) e : nth_error l i = Some e -> firstn (S i) l = firstn i l ++ [e].
Proof.
  revert l. induction i as [|i IH]; intros [|x l] N; cbn in *; try discriminate.
  - injection N as ->. reflexivity.
  - f_equal. apply IH, N.
Qed.

Definition infeasible_all (p : pools) (l : list wentry) : Prop :=
  Forall (fun e => can_fulfill p (we_req e) = false) l.

Theorem check_pending_complete cbs nw fuel : forall i s,
  (forall k, Forall rop_wf (cbs k)) -> RInv s -> r_env s = true ->
  (Chk nw s \/ infeasible_all (r_pools s) (firstn i (r_wait s))) ->
  r_err (check_pending fuel cbs nw i s) = 0 ->
  Chk nw (check_pending fuel cbs nw i s) \/
  infeasible_all (r_pools (check_pending fuel cbs nw i s)) (r_wait (check_pending fuel cbs nw i s)).
Proof.
  induction fuel as [|f IH]; intros i s WF I EN H; cbn [check_pending].
  - cbn. unfold E_FUEL. discriminate.
  - destruct (nth_error (r_wait s) i) as [[r cb id]|] eqn:N.
    2:{ intros _. destruct H as [H|H]; [left; exact H|right].
        apply nth_error_None in N. rewrite firstn_all2 in H by exact N. exact H. }
    destruct (can_fulfill (r_pools s) r) eqn:CF.
    2:{ apply IH; auto. destruct H as [H|H]; [left; exact H|right].
        rewrite (firstn_S_nth i _ _ N). apply Forall_app. split; [exact H|]. constructor; [exact CF|constructor]. }
    set (s0 := set_cblog s (mkCb cb r nw id (r_pools s) :: r_cblog s)).
    assert (I0 : RInv s0) by (destruct I as [U C F SL IJ]; split; assumption).
    assert (EN0 : r_env s0 = true) by exact EN.
    destruct (run_rops_appended nw r (cbs cb) s0) as [[app [A [_ [_ [_ En1]]]]] O1].
    pose proof (run_rops_inv nw r (cbs cb) s0 I0 (WF cb)) as I1.
    pose proof (run_rops_chk_or_quiet nw r (cbs cb) s0 I0 (WF cb) EN0) as CT.
    set (s1 := run_rops nw r (cbs cb) s0) in *.
    destruct (negb (r_err s1 =? 0)) eqn:Er; [intro Hx; rewrite Hx in Er; discriminate|].
    assert (L : (i < length (r_wait s))%nat) by (apply nth_error_Some; congruence).
    apply IH; auto.
    + destruct I1 as [U C F SL IJ]. split; assumption.
    + cbn. congruence.
    + cbn [r_out r_pools r_wait set_wait]. destruct H as [H|H]; [left; apply O1; exact H|].
      destruct CT as [CT|CT]; [left; exact CT|right].
      cbn in A. rewrite A, remove_nth_app, firstn_remove_app by exact L.
      unfold infeasible_all in *. eapply Forall_impl; [|exact H]. cbn. intros e He. apply (proj1 CT), He.
Qed.

Lemma check_pending_env cbs nw fuel : forall i s, r_env (check_pending fuel cbs nw i s) = r_env s.
Proof.
  induction fuel as [|f IH]; intros i s; cbn [check_pending]; [reflexivity|].
  destruct (nth_error (r_wait s) i) as [[r cb id]|]; [|reflexivity].
  destruct (can_fulfill (r_pools s) r); [|apply IH].
  set (s0 := set_cblog s (mkCb cb r nw id (r_pools s) :: r_cblog s)).
  destruct (run_rops_appended nw r (cbs cb) s0) as [[app [_ [_ [_ [_ En1]]]]] _].
  destruct (negb (r_err (run_rops nw r (cbs cb) s0) =? 0)); [exact En1|].
  rewrite IH. cbn. exact En1.
Qed.

Lemma run_rops_env nw arg os s : r_env (run_rops nw arg os s) = r_env s.
Proof. destruct (run_rops_appended nw arg os s) as [[app [_ [_ [_ [_ E]]]]] _]. exact E. Qed.
