(** C08: the routing history of every part ends with the device that holds it.

    [HistD d x]: every part inside an item that device [d] holds — in its input slot, output slot, store, or (a batcher) in the
    batch it is filling — has a routing history ending with [d] (a batch is its parts; the batch object is only a carrier).
    Together with the transition lemma "the stored item is the offered item with the accepting device appended" (FloorFlow.v,
    and flow controllers, gates and group paths append themselves when they pass an offer on) this says that a history is
    extended one traversed device at a time and its last entry is always where the part is: no gaps, no leftovers.

    A fifth step decomposition, the simplest one: a device transformer that keeps [HistD] (under a guard on the device's state),
    or anything that leaves the devices alone.  The environment plays no role. *)
From Coq Require Import ZArith List Bool Lia.
From RecordUpdate Require Import RecordUpdate.
From SimVerif Require Import Model.Base Model.Env Model.FamEnv Model.RM Model.Maint Model.FloorTypes Model.Floor Model.FamFloor.
From SimVerif Require Import Proofs.RMInv Proofs.FloorSteps Proofs.FloorInv Proofs.FloorRes Proofs.FloorReach.
Import ListNotations.
Open Scope Z_scope.

Definition pend (d : Z) (p : part) : Prop := exists h, p_hist p = h ++ [d].
Definition iend (d : Z) (it : item) : Prop := forall p, In p (item_parts it) -> pend d p.
Definition oend (d : Z) (o : option item) : Prop := match o with Some it => iend d it | None => True end.
Definition HistD (d : Z) (x : dev) : Prop :=
  oend d (d_part x) /\ oend d (d_out x) /\ oend d (d_inprog x) /\ (forall e, In e (d_buf x) -> iend d (snd e)).

Definition hsafe (d : Z) (g : dev -> Prop) (f : dev -> dev) : Prop := forall x, g x -> HistD d x -> HistD d (f x).

Inductive hstep : fw -> fw -> Prop :=
| h_dev w d g f : hsafe d g f -> g (getd w d) -> hstep w (updd w d f)
| h_same w w' : f_devs w' = f_devs w -> hstep w w'.

Inductive RH : fw -> fw -> Prop :=
| RH_refl w : RH w w
| RH_step w1 w2 w3 : hstep w1 w2 -> RH w2 w3 -> RH w1 w3.

(** * the accepting device appends itself, to the batch object and to every part *)
Lemma iend_add_hist d it : iend d (item_add_hist d it).
Proof.
  intros p Hp. destruct it as [q|b ps]; cbn in Hp.
  - destruct Hp as [<-|[]]. exists (p_hist q). reflexivity.
  - apply in_map_iff in Hp. destruct Hp as [q [<- _]]. exists (p_hist q). reflexivity.
Qed.

Lemma iend_add_value d v it : iend d it -> iend d (item_add_value v it).
Proof.
  intros H p Hp. destruct it as [q|b ps]; cbn in Hp; [|apply H, Hp].
  destruct Hp as [<-|[]]. destruct (H q (or_introl eq_refl)) as [h E]. exists h. destruct (v =? 0); [exact E|exact E].
Qed.
Lemma iend_set_quality d q it : iend d it -> iend d (part_set_quality q it).
Proof.
  intros H p Hp. destruct it as [r|b ps]; cbn in Hp; [|apply H, Hp].
  destruct Hp as [<-|[]]. destruct (H r (or_introl eq_refl)) as [h E]. exists h. exact E.
Qed.

Lemma iend_generate w d : iend d (snd (generate w d)).
Proof. unfold generate. destruct (gen_size (getd w d) =? 0); cbn [snd]; apply iend_add_hist. Qed.

(** * transformers *)
Ltac kh :=
  let x := fresh "x" in let A := fresh "A" in let B := fresh "B" in let C := fresh "C" in let D := fresh "D" in
  intros x _ [A [B [C D]]];
  unfold t_shutdown, t_restore, t_fail_clear, t_stop_use, t_clear_out, t_clear_part, t_reserved, t_supplied, t_live,
         t_waiting_res, t_waiting_ds, t_set_cycle, t_add_offset, t_reset_offset, t_block, t_budget, t_down_del, t_down_add, t_up, dev_set_wait, dev_add_value, HistD;
  cbv zeta;
  repeat match goal with
         | |- context[if ?b then _ else _] => match type of b with bool => destruct b end
         | |- context[match d_wait_since ?y with _ => _ end] => destruct (d_wait_since y)
         end;
  cbn; (repeat split; first [assumption | exact I]).

Lemma hsafe_accept d nw it1 : iend d it1 -> hsafe d (fun _ => True) (t_accept nw it1).
Proof. intros H x _ [A [B [C D]]]. unfold t_accept, dev_set_wait, HistD. cbn. repeat split; assumption. Qed.
Lemma hsafe_accept_proc d nw it1 : iend d it1 -> hsafe d (fun _ => True) (t_accept_proc nw it1).
Proof. intros H x _ [A [B [C D]]]. unfold t_accept_proc, t_accept, dev_set_wait, HistD. cbn. repeat split; assumption. Qed.
Lemma hsafe_accept_buffer d nw it1 : iend d it1 -> hsafe d (fun _ => True) (t_accept_buffer nw it1).
Proof. intros H x _ [A [B [C D]]]. unfold t_accept_buffer, t_accept, dev_set_wait, HistD. cbn. repeat split; assumption. Qed.
Lemma hsafe_accept_sink d nw it1 : iend d it1 -> hsafe d (fun _ => True) (t_accept_sink nw it1).
Proof.
  intros H x _ [A [B [C D]]]. unfold t_accept_sink, t_accept, dev_set_wait, dev_add_value, HistD. cbv zeta.
  destruct (item_value it1 =? 0); cbn; repeat split; assumption.
Qed.
Lemma hsafe_finish d it : hsafe d (fun y => d_part y = Some it) (t_finish it).
Proof. intros x G [A [B [C D]]]. rewrite G in A. unfold t_finish, HistD. cbn. repeat split; first [assumption | exact I]. Qed.
Lemma hsafe_finish_proc d nw it : hsafe d (fun y => d_part y = Some it) (t_finish_proc nw it).
Proof. intros x G [A [B [C D]]]. rewrite G in A. unfold t_finish_proc, t_stop_use, t_finish, HistD. cbn. repeat split; first [assumption | exact I]. Qed.
Lemma hsafe_buf_store d nw itb : hsafe d (fun y => d_part y = Some itb) (t_buf_store nw itb).
Proof.
  intros x G [A [B [C D]]]. rewrite G in A. unfold t_buf_store, HistD. cbn. repeat split; try assumption; try exact I.
  intros e He. apply in_app_or in He. destruct He as [He|[<-|[]]]; [apply D, He|exact A].
Qed.
Lemma hsafe_buf_pop d nw : hsafe d (fun _ => True) (t_buf_pop nw).
Proof.
  intros x _ [A [B [C D]]]. unfold t_buf_pop. destruct (d_buf x) as [|[t0 it] rest] eqn:E; [repeat split; try assumption; rewrite E; exact D|].
  destruct (0 <? _); [repeat split; try assumption; rewrite E; exact D|].
  unfold HistD. cbn. repeat split; try assumption. intros e He. apply D. right. exact He.
Qed.
Lemma hsafe_generated d it : iend d it -> hsafe d (fun _ => True) (t_generated it).
Proof. intros H x _ [A [B [C D]]]. unfold t_generated, HistD. cbn. repeat split; assumption. Qed.
Lemma hsafe_map_slot d slot f : (forall it, iend d it -> iend d (f it)) -> hsafe d (fun _ => True) (t_map_slot slot f).
Proof.
  intros H x _ [A [B [C D]]]. unfold t_map_slot, HistD. destruct slot; cbn; repeat split; try assumption.
  - destruct (d_part x); cbn in *; [apply H, A|exact I].
  - destruct (d_out x); cbn in *; [apply H, B|exact I].
Qed.
(** a batcher takes the next part out of its input item; [Q]: what follows for that part and the rest from the input item's parts *)
Lemma hsafe_batch_single d it rest p :
  (iend d it -> oend d rest /\ pend d p) -> hsafe d (fun y => d_part y = Some it) (t_batch_single rest p).
Proof.
  intros Q x G [A [B [C D]]]. rewrite G in A. destruct (Q A) as [R P]. unfold t_batch_single, HistD. cbn.
  repeat split; try assumption. intros q [<-|[]]. exact P.
Qed.
Lemma hsafe_batch_full d it inp rest b ps p :
  (iend d it -> oend d rest /\ pend d p) -> (oend d inp -> forall q, In q ps -> pend d q) ->
  hsafe d (fun y => d_part y = Some it /\ d_inprog y = inp) (t_batch_full rest b (ps ++ [p])).
Proof.
  intros Q QI x [G GI] [A [B [C D]]]. rewrite G in A. rewrite GI in C. destruct (Q A) as [R P]. unfold t_batch_full, HistD. cbn.
  repeat split; try assumption; try exact I. intros q Hq. apply in_app_or in Hq. destruct Hq as [Hq|[<-|[]]]; [apply (QI C q Hq)|exact P].
Qed.
Lemma hsafe_batch_more d it inp rest b ps p :
  (iend d it -> oend d rest /\ pend d p) -> (oend d inp -> forall q, In q ps -> pend d q) ->
  hsafe d (fun y => d_part y = Some it /\ d_inprog y = inp) (t_batch_more rest b (ps ++ [p])).
Proof.
  intros Q QI x [G GI] [A [B [C D]]]. rewrite G in A. rewrite GI in C. destruct (Q A) as [R P]. unfold t_batch_more, HistD. cbn.
  repeat split; try assumption. intros q Hq. apply in_app_or in Hq. destruct Hq as [Hq|[<-|[]]]; [apply (QI C q Hq)|exact P].
Qed.

Section Hist.
Variable nw : Z.

Lemma RH_trans a b c : RH a b -> RH b c -> RH a c.
Proof. induction 1 as [|w1 w2 w3 S _ IH]; intro Hbc; [exact Hbc|]. econstructor; [exact S|apply IH, Hbc]. Qed.
Lemma RH_one a b : hstep a b -> RH a b.
Proof. intro H. econstructor; [exact H|constructor]. Qed.
Lemma RH_dev w d g f : hsafe d g f -> g (getd w d) -> RH w (updd w d f).
Proof. intros. apply RH_one. econstructor; eauto. Qed.
Lemma RH_dev0 w d f : hsafe d (fun _ => True) f -> RH w (updd w d f).
Proof. intro H. apply (RH_dev w d (fun _ => True) f H I). Qed.
Lemma RH_same w w' : f_devs w' = f_devs w -> RH w w'.
Proof. intro D. apply RH_one, h_same, D. Qed.
Lemma RH_emit w c : RH w (emitf w c).
Proof. apply RH_same. reflexivity. Qed.
Lemma RH_data w l s p : RH w (data w l s p).
Proof. apply RH_same. reflexivity. Qed.
Lemma RH_fail w e : RH w (failf w e).
Proof. apply RH_same. unfold failf. destruct (f_err w =? 0); reflexivity. Qed.
Lemma RH_fold {X} (F : fw -> X -> fw) (l : list X) : (forall w x, RH w (F w x)) -> forall w, RH w (fold_left F l w).
Proof. intros H. induction l as [|x l IH]; intro w; cbn; [constructor|]. eapply RH_trans; [apply H|apply IH]. Qed.
Lemma RH_rm_call w f : RH w (rm_call w f).
Proof. apply RH_same. apply rm_call_devs. Qed.
Lemma RH_maint_call w mid f : RH w (maint_call w mid f).
Proof. apply RH_same. reflexivity. Qed.
Lemma RH_create_wo mid t g w : RH w (create_wo nw mid t g w).
Proof. apply RH_maint_call. Qed.

Ltac Ht := first [apply RH_refl | apply RH_fail | apply RH_data | apply RH_emit].
Ltac hdev w0 d0 f0 := apply (RH_trans w0 (updd w0 d0 f0)); [apply (RH_dev0 w0 d0 f0); kh|].

Lemma RH_sched_pass off w d : RH w (sched_pass nw off w d).
Proof. unfold sched_pass. destruct (d_kind (getd w d)); try Ht; (hdev w d (t_waiting_ds false); Ht). Qed.

Lemma RH_signal fuel : forall m w d, RH w (signal fuel nw m w d).
Proof.
  induction fuel as [|f IH]; intros m w d; cbn [signal]; [apply RH_fail|].
  set (x := getd w d).
  assert (NU : forall w0, RH w0 (fold_left (fun w1 u => signal f nw false w1 u) (d_up (getd w0 d)) w0)).
  { intro w0. apply RH_fold. intros; apply IH. }
  assert (SW : RH w (fold_left (fun w1 u => signal f nw false w1 u)
                               (d_up (getd (wait_if_empty nw w d) d)) (wait_if_empty nw w d))).
  { unfold wait_if_empty. destruct (d_part (getd w d)); [apply NU|]. destruct (d_out (getd w d)); [apply NU|].
    hdev w d (dev_set_wait nw true false). apply NU. }
  destruct m.
  - destruct (d_kind x); try apply NU; try exact SW.
    + destruct (inf_ltb (d_level x) (d_capacity x)); [exact SW|Ht].
    + destruct (aget (d_group x) (f_groups w)); [|Ht]. apply RH_fold. intros; apply IH.
  - destruct (d_kind x); try apply IH;
      try (destruct (operational x && d_waiting_ds x); [apply RH_sched_pass|Ht]).
    destruct (aget (d_group x) (f_groups w)); [apply IH|Ht].
Qed.

Lemma RH_run_cbop d slot isf lost w o : RH w (run_cbop nw d slot isf lost w o).
Proof.
  unfold run_cbop. destruct (negb (okf w)); [Ht|].
  destruct o.
  - apply RH_dev0; kh.
  - apply RH_dev0; kh.
  - destruct (if slot then d_part (getd w d) else d_out (getd w d)) as [i|]; [|Ht].
    destruct (is_batch i); [Ht|]. apply RH_dev0, hsafe_map_slot. intros it. apply iend_add_value.
  - apply RH_dev0, hsafe_map_slot. intros it. apply iend_set_quality.
  - apply RH_create_wo.
  - destruct isf; [apply RH_create_wo|Ht].
  - apply RH_same; reflexivity.
Qed.

Lemma RH_run_cbops d slot isf lost ops : forall w, RH w (run_cbops nw d slot isf lost ops w).
Proof. unfold run_cbops. apply RH_fold. intros. apply RH_run_cbop. Qed.

Lemma RH_finish_cycle fuel w d : RH w (finish_cycle fuel nw w d).
Proof.
  unfold finish_cycle. set (x := getd w d). destruct (d_kind x) eqn:K; try Ht;
  try (destruct (negb (operational x)); [Ht|]; destruct (d_part x) as [it|] eqn:P; [|Ht]; destruct (d_out x) eqn:O; [Ht|]).
  3:{ (* source *)
      destruct (d_out x) eqn:O; [apply RH_sched_pass|].
      pose proof (iend_generate w d) as IG.
      destruct (generate w d) as [w' it] eqn:G. cbn [snd] in IG.
      apply (RH_trans w w').
      { destruct (generate_nextid w d) as [z Hz]. rewrite G in Hz. cbn in Hz. subst w'. apply RH_same; reflexivity. }
      apply (RH_trans w' (updd w' d (t_generated it))); [apply RH_dev0, hsafe_generated, IG|]. apply RH_sched_pass. }
  - apply (RH_trans w (updd w d (t_finish it))); [apply (RH_dev w d _ _ (hsafe_finish d it) P)|]. apply RH_sched_pass.
  - apply (RH_trans w (updd w d (t_finish_proc nw it))); [apply (RH_dev w d _ _ (hsafe_finish_proc d nw it) P)|].
    eapply RH_trans; [apply RH_sched_pass|].
    match goal with |- context[match d_reserved ?y with _ => _ end] => destruct (d_reserved y) end.
    + eapply RH_trans; [apply RH_emit|]. eapply RH_trans; [apply RH_run_cbops|].
      match goal with |- context[match d_out ?y with _ => _ end] => destruct (d_out y) end; Ht.
    + eapply RH_trans; [apply RH_run_cbops|].
      match goal with |- context[match d_out ?y with _ => _ end] => destruct (d_out y) end; Ht.
  - apply (RH_trans w (updd w d (t_finish it))); [apply (RH_dev w d _ _ (hsafe_finish d it) P)|]. eapply RH_trans; [apply RH_sched_pass|].
    match goal with |- RH ?w0 _ => hdev w0 d t_clear_out; apply RH_signal end.
Qed.

Lemma RH_sched_finish fuel w d : RH w (sched_finish fuel nw w d).
Proof.
  unfold sched_finish. hdev w d t_reset_offset.
  destruct (_ <=? 0); [apply RH_finish_cycle|Ht].
Qed.

Lemma RH_batcher_fill n : forall w d, RH w (batcher_fill n w d).
Proof.
  induction n as [|n IH]; intros w d; cbn [batcher_fill]; [Ht|].
  set (x := getd w d) in *. destruct (d_out x) eqn:O; [Ht|]. destruct (d_part x) as [it|] eqn:P; [|Ht].
  assert (Q : forall p rest,
             (match it with
              | ISingle p0 => (Some p0, None)
              | IBatch b (p0 :: ps) => (Some p0, match ps with [] => None | _ => Some (IBatch b ps) end)
              | IBatch b [] => (None, None)
              end) = (Some p, rest) -> iend d it -> oend d rest /\ pend d p).
  { intros p rest E H. destruct it as [p0|b [|p0 ps]]; [| discriminate|]; injection E as <- <-.
    - split; [exact I|apply H; left; reflexivity].
    - split; [|apply H; left; reflexivity]. destruct ps as [|p1 ps]; [exact I|]. intros q Hq. apply H. right. exact Hq. }
  match goal with |- context[let '(p, rest) := ?e in _] => destruct e as [[p|] rest] eqn:SP end; [|Ht].
  specialize (Q p rest eq_refl).
  destruct (d_batch_size x) as [size|] eqn:BS.
  - destruct (d_inprog x) as [[pp|b ps]|] eqn:IP.
    + apply IH.
    + assert (QI : oend d (Some (IBatch b ps)) -> forall q, In q ps -> pend d q) by (intros H q Hq; apply H; exact Hq).
      destruct (size <=? Z.of_nat (length (ps ++ [p]))).
      * eapply RH_trans; [apply (RH_dev w d _ _ (hsafe_batch_full d it _ rest b ps p Q QI)); split; [exact P|exact IP]|]. apply IH.
      * eapply RH_trans; [apply (RH_dev w d _ _ (hsafe_batch_more d it _ rest b ps p Q QI)); split; [exact P|exact IP]|]. apply IH.
    + set (w1 := w <| f_next_id := f_next_id w + 1 |>).
      apply (RH_trans w w1); [apply RH_same; reflexivity|].
      assert (QI : oend d None -> forall q, In q (@nil part) -> pend d q) by (intros _ q []).
      destruct (size <=? Z.of_nat (length ([] ++ [p]))).
      * eapply RH_trans; [apply (RH_dev w1 d _ _ (hsafe_batch_full d it _ rest (mkPart (f_next_id w + 1) 0 0 [] []) [] p Q QI)); split; [exact P|exact IP]|]. apply IH.
      * eapply RH_trans; [apply (RH_dev w1 d _ _ (hsafe_batch_more d it _ rest (mkPart (f_next_id w + 1) 0 0 [] []) [] p Q QI)); split; [exact P|exact IP]|]. apply IH.
  - eapply RH_trans; [apply (RH_dev w d _ _ (hsafe_batch_single d it rest p Q) P)|]. apply IH.
Qed.

Lemma RH_batcher_try_move w d : RH w (batcher_try_move nw w d).
Proof.
  unfold batcher_try_move. set (x := getd w d) in *. destruct (d_part x) as [it|] eqn:P; [|Ht]. destruct (d_out x); [Ht|].
  destruct (negb (operational x)); [Ht|].
  assert (G : RH w (let w1 := batcher_fill (S (Z.to_nat (item_count it))) w d in
                    match d_out (getd w1 d) with Some _ => sched_pass nw 0 w1 d | None => w1 end)).
  { cbv zeta. eapply RH_trans; [apply RH_batcher_fill|].
    match goal with |- context[match d_out ?y with _ => _ end] => destruct (d_out y) end; [apply RH_sched_pass|Ht]. }
  destruct it as [p|b [|p ps]]; try exact G.
  hdev w d t_clear_part. Ht.
Qed.

Lemma RH_accept_rest fuel k w2 d it1 : RH w2 (accept_rest fuel nw k w2 d it1).
Proof.
  unfold accept_rest.
  set (w3 := rec_part w2 L_RECEIVED d nw it1). apply (RH_trans w2 w3); [unfold w3, rec_part; apply RH_data|].
  set (w4 := run_cbops nw d true false (-1) (d_on_receive (getd w3 d)) w3).
  apply (RH_trans w3 w4); [apply RH_run_cbops|].
  destruct (negb (okf w4)); [Ht|]. set (x := getd w4 d) in *. destruct (d_out x); [Ht|].
  destruct k eqn:K; cbv zeta;
    try (destruct (operational x && match d_part x with Some _ => true | None => false end); [apply RH_sched_finish|Ht]).
  - destruct (d_part x) as [itb|] eqn:PB; [|Ht].
    apply (RH_trans w4 (updd w4 d (t_buf_store nw itb))); [apply (RH_dev w4 d _ _ (hsafe_buf_store d nw itb) PB)|].
    eapply RH_trans; [apply RH_signal|].
    match goal with |- context[if ?c then _ else _] => destruct c end; [apply RH_sched_pass|Ht].
  - apply RH_batcher_try_move.
Qed.

Lemma RH_accept_first w d it1 k : iend d it1 -> RH w (accept_first nw k w d it1).
Proof.
  intro H. unfold accept_first. destruct k;
    try (apply RH_dev0, hsafe_accept, H); try (apply RH_dev0, hsafe_accept_proc, H); try (apply RH_dev0, hsafe_accept_sink, H).
  cbv zeta. eapply RH_trans; [apply RH_dev0, hsafe_accept_buffer, H|apply RH_data].
Qed.

Lemma RH_accept fuel w d it : RH w (accept fuel nw w d it).
Proof. unfold accept. eapply RH_trans; [apply RH_accept_first, iend_add_hist|apply RH_accept_rest]. Qed.

Lemma RH_proc_can_accept w d : RH w (fst (proc_can_accept nw w d)).
Proof.
  unfold proc_can_accept. set (x := getd w d). destruct (negb (handler_can_accept x)); [Ht|].
  destruct (d_req x) as [rq|] eqn:RQ; [|Ht]. destruct (d_reserved x) eqn:RV; [Ht|].
  change (mkRs (r_pools (f_rm w)) (r_wait (f_rm w)) (r_res (f_rm w)) (r_slots (f_rm w)) (r_cblog (f_rm w)) [] 0 (r_env (f_rm w)) (r_nreg (f_rm w)))
    with (clean_rs (f_rm w)).
  set (res := reserve nw rq (clean_rs (f_rm w))). set (w1 := rm_call w (fun _ => fst res)).
  assert (R1 : RH w w1) by (apply RH_rm_call).
  destruct (snd res) as [i|].
  - cbn [fst]. eapply RH_trans; [exact R1|]. apply RH_dev0; kh.
  - destruct (negb (okf w1)); [exact R1|]. destruct (d_waiting_res x); [exact R1|]. cbn [fst].
    eapply RH_trans; [exact R1|]. eapply RH_trans; [apply RH_rm_call|].
    apply RH_dev0; kh.
Qed.

Lemma RH_give fuel : forall w d it, RH w (fst (give fuel nw w d it)).
Proof.
  induction fuel as [|f IH]; intros w d it; cbn [give]; [apply RH_fail|].
  destruct (negb (okf w)); [Ht|]. set (x := getd w d).
  assert (TL : forall it0 l w0 b,
             RH w0 (fst (fold_left (fun (acc : fw * bool) d' => if snd acc then acc else give f nw (fst acc) d' it0) l (w0, b)))).
  { intros it0 l. induction l as [|d' l IHl]; intros w0 b; cbn; [Ht|].
    destruct b; cbn [snd fst].
    - apply IHl.
    - pose proof (IH w0 d' it0) as X. destruct (give f nw w0 d' it0) as [w1 b1]. cbn [fst] in X.
      eapply RH_trans; [exact X|apply IHl]. }
  destruct (d_kind x) eqn:K.
  - destruct (negb (operational x && negb (d_block x))); [Ht|apply TL].
  - destruct (negb (decide (d_decider x) it)); [Ht|]. destruct (negb (operational x && negb (d_block x))); [Ht|apply TL].
  - destruct (handler_can_accept x); [|Ht]. cbn [fst]. apply RH_accept.
  - pose proof (RH_proc_can_accept w d) as R1. destruct (proc_can_accept nw w d) as [w1 ok]. cbn [fst] in R1.
    destruct ok; [|exact R1]. cbn [fst]. eapply RH_trans; [exact R1|apply RH_accept].
  - destruct (inf_leb (d_level x + item_count it) (d_capacity x) && handler_can_accept x); [|Ht]. cbn [fst]. apply RH_accept.
  - destruct (handler_can_accept x); [|Ht]. cbn [fst]. apply RH_accept.
  - destruct (handler_can_accept x); [|Ht]. cbn [fst]. apply RH_accept.
  - destruct (handler_can_accept x); [|Ht]. cbn [fst]. apply RH_accept.
  - destruct (d_block x); [Ht|]. destruct (aget (d_group x) (f_groups w)); [apply IH|Ht].
  - destruct (negb (operational x && negb (d_block x))); [Ht|apply TL].
  - destruct (rev (item_gpath it)) as [|gp rest]; [apply RH_fail|apply TL].
Qed.

Lemma RH_try_downstream fuel w d it : RH w (fst (try_downstream fuel nw w d it)).
Proof.
  unfold try_downstream. generalize (sorted_down fuel w d). intro l. generalize false. revert w.
  induction l as [|d' l IHl]; intros w0 b; cbn; [Ht|].
  destruct b; cbn [snd fst].
  - apply IHl.
  - pose proof (RH_give fuel w0 d' it) as X. destruct (give fuel nw w0 d' it) as [w1 b1]. cbn [fst] in X.
    eapply RH_trans; [exact X|apply IHl].
Qed.

Lemma RH_handler_pass fuel w d : RH w (fst (handler_pass fuel nw w d)).
Proof.
  unfold handler_pass. set (x := getd w d). destruct (d_out x) as [it|]; [|Ht]. destruct (negb (operational x)); [Ht|].
  pose proof (RH_try_downstream fuel w d it) as X. destruct (try_downstream fuel nw w d it) as [w1 ok]. cbn [fst] in X.
  destruct ok; cbn [fst]; (eapply RH_trans; [exact X|]).
  - hdev w1 d t_clear_out. apply RH_signal.
  - apply RH_dev0; kh.
Qed.

Lemma RH_release_reserved w d : RH w (release_reserved nw w d).
Proof.
  unfold release_reserved. destruct (d_reserved (getd w d)) eqn:RV; [|Ht].
  eapply RH_trans; [apply RH_rm_call|]. apply RH_dev0; kh.
Qed.

Lemma RH_release_if_idle w d : RH w (release_if_idle nw w d).
Proof. unfold release_if_idle. destruct (_ || _); [apply RH_release_reserved|Ht]. Qed.

Lemma RH_shutdown isf lost w d : RH w (shutdown nw isf lost w d).
Proof.
  unfold shutdown. set (x := getd w d). destruct (is_processor x); cbn [negb]; [|Ht].
  destruct (d_shut x).
  - destruct isf; [|Ht]. eapply RH_trans; [apply RH_emit|apply RH_run_cbops].
  - hdev w d (t_shutdown nw). eapply RH_trans; [|apply RH_run_cbops]. destruct isf; Ht.
Qed.

Lemma RH_fail_proc w d : RH w (fail nw w d).
Proof.
  unfold fail. set (x := getd w d). destruct (is_processor x); cbn [negb]; [|Ht].
  hdev w d (t_fail_clear nw). eapply RH_trans; [apply RH_release_reserved|]. eapply RH_trans; [apply RH_data|apply RH_shutdown].
Qed.

Lemma RH_restore fuel w d : RH w (restore fuel nw w d).
Proof.
  unfold restore. set (x := getd w d). destruct (is_processor x); cbn [negb]; [|Ht].
  destruct (negb (d_shut x)); [Ht|].
  hdev w d (t_restore nw). eapply RH_trans; [apply RH_emit|]. eapply RH_trans; [|apply RH_run_cbops].
  destruct (d_out x); [apply RH_sched_pass|]. destruct (d_part x); [Ht|apply RH_signal].
Qed.

Lemma RH_buffer_loop n fuel : forall w d, RH w (buffer_loop n fuel nw w d).
Proof.
  induction n as [|n IH]; intros w d; cbn [buffer_loop]; [Ht|].
  set (x := getd w d) in *. destruct (d_buf x) as [|[t0 it] rest] eqn:B; [Ht|].
  destruct (0 <? d_min_delay x - (nw - t0)); [Ht|].
  pose proof (RH_try_downstream fuel w d it) as X.
  destruct (try_downstream fuel nw w d it) as [w1 ok] eqn:TD. cbn [fst] in X.
  destruct ok; [|exact X]. eapply RH_trans; [exact X|]. cbv zeta.
  eapply RH_trans; [apply RH_dev0, hsafe_buf_pop|]. eapply RH_trans; [apply RH_data|]. apply IH.
Qed.

Lemma RH_pass_part fuel w d : RH w (pass_part fuel nw w d).
Proof.
  unfold pass_part. set (x := getd w d). destruct (d_kind x) eqn:K; try (apply RH_handler_pass).
  - cbv zeta. set (w1' := buffer_loop (S (length (d_buf x))) fuel nw w d).
    apply (RH_trans w w1'); [apply RH_buffer_loop|].
    eapply RH_trans; [|apply RH_signal].
    destruct (d_buf (getd w1' d)) as [|[t0 it] rest]; [Ht|].
    match goal with |- context[if ?c then _ else _] => destruct c end; [apply RH_sched_pass|].
    apply RH_dev0; kh.
  - destruct (d_out x) as [it|]; [|Ht].
    match goal with |- context[if negb ?c then _ else _] => destruct (negb c) end; [Ht|].
    pose proof (RH_handler_pass fuel w d) as X.
    destruct (handler_pass fuel nw w d) as [w1 ok]. cbn [fst] in X.
    destruct ok; [|exact X]. eapply RH_trans; [exact X|].
    hdev w1 d (t_supplied nw (item_value it)). eapply RH_trans; [apply RH_data|apply RH_sched_finish].
  - pose proof (RH_handler_pass fuel w d) as X.
    destruct (handler_pass fuel nw w d) as [w1 ok]. cbn [fst] in X.
    eapply RH_trans; [exact X|]. destruct (d_out (getd w1 d)); [Ht|]. apply RH_batcher_try_move.
Qed.

Lemma RH_res_check n fuel : forall i w, RH w (res_check n fuel nw i w).
Proof.
  induction n as [|n IH]; intros i w; cbn [res_check]; [apply RH_fail|].
  destruct (nth_error (r_wait (f_rm w)) i) as [[r cb id]|]; [|Ht].
  destruct (can_fulfill (r_pools (f_rm w)) r); [|apply IH].
  match goal with |- context[signal fuel nw true (updd ?w1 ?dd _) _] => set (w1' := w1); set (d := dd) end.
  apply (RH_trans w w1'); [apply RH_same; reflexivity|].
  hdev w1' d (t_waiting_res false).
  eapply RH_trans; [apply RH_signal|].
  match goal with |- context[if negb (okf ?w2) then _ else _] => destruct (negb (okf w2)) end; [Ht|].
  eapply RH_trans; [|apply IH]. apply RH_same; reflexivity.
Qed.

Lemma RH_maint_start mid wo w : RH w (maint_start nw mid wo w).
Proof.
  unfold maint_start. eapply RH_trans; [apply RH_maint_call|].
  eapply RH_trans; [apply RH_shutdown|apply RH_maint_call].
Qed.

Lemma RH_maint_finish fuel mid wo w : RH w (maint_finish fuel nw mid wo w).
Proof. unfold maint_finish. eapply RH_trans; [apply RH_restore|apply RH_maint_call]. Qed.

Lemma RH_rewire fuel w d ups : RH w (rewire fuel nw w d ups).
Proof.
  unfold rewire. set (x := getd w d). destruct (existsb (bad_up d w) ups); [Ht|].
  match goal with |- RH w (fold_left _ ups (updd (fold_left _ _ ?w0') d _)) => set (w0 := w0') end.
  assert (R0 : RH w w0).
  { unfold w0. destruct (is_holder (d_kind x)); [|Ht]. destruct (d_wait_since x); [|Ht]. apply RH_dev0; kh. }
  apply (RH_trans w w0); [exact R0|].
  set (w1 := fold_left (fun w' u => updd w' u (t_down_del d)) (d_up x) w0).
  apply (RH_trans w0 w1); [unfold w1; apply RH_fold; intros w' u; apply RH_dev0; kh|].
  apply (RH_trans w1 (updd w1 d (t_up ups))); [apply RH_dev0; kh|].
  apply RH_fold. intros w' u. destruct (existsb (Z.eqb d) (d_down (getd w' u))); [Ht|].
  apply (RH_trans w' (updd w' u (t_down_add d))); [apply RH_dev0; kh|apply RH_signal].
Qed.

Lemma RH_run_uop fuel w o : RH w (run_uop fuel nw w o).
Proof.
  unfold run_uop. destruct (negb (okf w)); [Ht|]. destruct o.
  - apply RH_shutdown.
  - apply RH_restore.
  - Ht.
  - destruct (Bool.eqb _ _); [Ht|]. hdev w d (t_block b). destruct b; [Ht|apply RH_signal].
  - destruct (d_budget (getd w d)) as [b|]; [|Ht].
    match goal with |- context[t_budget ?z] => hdev w d (t_budget z) end.
    destruct (_ <? 1); [apply RH_sched_pass|Ht].
  - apply RH_dev0; kh.
  - apply RH_rewire.
  - apply RH_rm_call.
  - apply RH_create_wo.
Qed.

Theorem RH_exec_fact fuel uops a w : RH w (exec_fact fuel uops a w nw).
Proof.
  destruct a as [d|d|d|d| |m [wo|wo]|k]; cbn [exec_fact].
  - apply RH_finish_cycle.
  - apply RH_pass_part.
  - apply RH_fail_proc.
  - apply RH_release_if_idle.
  - apply RH_res_check.
  - apply RH_maint_start.
  - apply RH_maint_finish.
  - apply RH_fold. intros. apply RH_run_uop.
Qed.

Lemma RH_init_dev fuel w d : RH w (init_dev fuel nw w d).
Proof.
  unfold init_dev. set (x := getd w d). destruct (is_holder (d_kind x)); [|Ht].
  set (w1 := updd w d (fun y => dev_set_wait nw true true y)).
  assert (R1 : RH w w1) by (apply RH_dev0; kh).
  destruct (d_kind x); try exact R1.
  - eapply RH_trans; [exact R1|]. apply RH_dev0. intros y _ H. exact H.
  - eapply RH_trans; [exact R1|apply RH_sched_finish].
Qed.

Lemma RH_init_world fuel w : RH w (init_world fuel nw w).
Proof.
  unfold init_world. eapply RH_trans; [apply RH_rm_call|]. apply RH_fold. intros. apply RH_init_dev.
Qed.

Lemma RH_late_create fuel w d ups : RH w (late_create fuel nw w d ups).
Proof.
  unfold late_create. match goal with |- RH _ (if ?c then _ else _) => destruct c end; [Ht|].
  set (w0 := w <| f_next_id := f_next_id w + 1 |>).
  apply (RH_trans w w0); [apply RH_same; reflexivity|].
  apply (RH_trans w0 (updd w0 d t_live)); [apply RH_dev0; kh|].
  eapply RH_trans; [apply RH_init_dev|apply RH_rewire].
Qed.

End Hist.

(** * the world invariant and its preservation *)
Definition HW (w : fw) : Prop := forall d, HistD d (getd w d).

Lemma HistD_blank d : HistD d (blank_dev KPfc).
Proof. repeat split; try exact I. intros e []. Qed.

Theorem hstep_HW w w' : hstep w w' -> HW w -> HW w'.
Proof.
  intros S H. destruct S as [w d g f HS G|w w' D].
  - intro d'. rewrite getd_updd. destruct (Z.eqb_spec d' d) as [->|N]; cbn [andb]; [|apply H].
    destruct (amem d (f_devs w)); [apply (HS _ G), H|apply H].
  - intro d'. rewrite (getd_other_fields w w' d' D). apply H.
Qed.

Theorem RH_HW w w' : RH w w' -> HW w -> HW w'.
Proof. induction 1 as [|w1 w2 w3 S _ IH]; intro H; [exact H|]. apply IH. eapply hstep_HW; eauto. Qed.

Lemma HW_same w w' : f_devs w' = f_devs w -> f_next_id w' = f_next_id w -> HW w -> HW w'.
Proof. intros D _ H d. rewrite (getd_other_fields w w' d D). apply H. Qed.

Lemma HW_pristine w : wf_worldb w = true -> HW w.
Proof.
  unfold wf_worldb. intro H. apply andb_true_iff in H. destruct H as [H _]. apply andb_true_iff in H. destruct H as [H _].
  apply andb_true_iff in H. destruct H as [PR _]. rewrite forallb_forall in PR. intro d. unfold getd.
  destruct (aget d (f_devs w)) as [x|] eqn:Hx; [|apply HistD_blank].
  apply aget_In in Hx. specialize (PR _ Hx). cbn [snd] in PR.
  destruct (pristine_facts x PR) as [P [O [IP [_ [_ [_ [_ [BF _]]]]]]]].
  unfold HistD. rewrite P, O, IP, BF. repeat split; try exact I. intros e [].
Qed.

(** * every reachable state of every well-formed scenario *)
Theorem reach_HW sc s : reach_fl sc s -> HW (fst s).
Proof.
  intro H. apply (reach_Inv HW HW_same) with (sc := sc); try assumption.
  - intros nw fuel uops a w I. apply (RH_HW w); [apply RH_exec_fact|exact I].
  - intros fuel nw w o I. apply (RH_HW w); [apply RH_run_uop|exact I].
  - intros fuel nw w WF. apply (RH_HW w); [apply RH_init_world|apply HW_pristine, WF].
  - intros fuel nw w d ups I. apply (RH_HW w); [apply RH_late_create|exact I].
Qed.

(** the statement on parts: a part inside an item held by device [d] — waiting in its input or output slot, stored in a buffer,
    or collected into the batch a batcher is filling — has a routing history whose last entry is [d] *)
Theorem held_part_history_ends_here sc s d x it p :
  reach_fl sc s -> aget d (f_devs (fst s)) = Some x ->
  d_part x = Some it \/ d_out x = Some it \/ d_inprog x = Some it \/ (exists t, In (t, it) (d_buf x)) ->
  In p (item_parts it) -> exists h, p_hist p = h ++ [d].
Proof.
  intros HR Hx HS Hp. pose proof (reach_HW sc s HR d) as H. rewrite (getd_some _ d x Hx) in H. destruct H as [A [B [C D]]].
  destruct HS as [E|[E|[E|[t E]]]].
  - rewrite E in A. apply A, Hp.
  - rewrite E in B. apply B, Hp.
  - rewrite E in C. apply C, Hp.
  - apply (D (t, it) E), Hp.
Qed.
