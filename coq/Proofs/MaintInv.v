(** Maintainer (C12): capacity, one order per target, request order, and
    "nothing startable is left waiting", for every request stream and every
    behaviour of the targets' hooks (hooks can only reach the maintainer
    through create_work_order). *)
From Coq Require Import ZArith List Bool Lia Sorting.Permutation.
From SimVerif Require Import Model.Base Model.Env Model.Maint Proofs.ListAux.
Import ListNotations.
Open Scope Z_scope.

Definition cap_sum (l : list worder) : Z := fold_right (fun wo acc => wo_cap wo + acc) 0 l.
Arguments cap_sum : simpl never.
Definition caps_nonneg (l : list worder) : Prop := Forall (fun wo => 0 <= wo_cap wo) l.

(** an order that may not start now: does not fit the remaining capacity, or its target is being worked on *)
Definition blocked (capacity : inf) (util : Z) (active : list worder) (wo : worder) : Prop :=
  cap_fits capacity util (wo_cap wo) = false \/ target_busy active (wo_target wo) = true.

Record MCore (m : mst) : Prop := {
  mi_util : m_util m = cap_sum (m_active m);
  mi_target : NoDup (map wo_target (m_active m));
  mi_ids : NoDup (map wo_id (m_queue m ++ m_active m));
  mi_fresh : Forall (fun wo => (wo_id wo < m_next m)%nat) (m_queue m ++ m_active m);
  mi_caps : caps_nonneg (m_queue m ++ m_active m);
  mi_cap : match m_capacity m with Some c => m_util m <= c | None => True end }.

(** no queued order that fits and whose target is free is left waiting *)
Definition Settled (m : mst) : Prop := Forall (blocked (m_capacity m) (m_util m) (m_active m)) (m_queue m).

Definition MInv (m : mst) : Prop := MCore m /\ Settled m.

Lemma MInv_init capacity value :
  match capacity with Some c => 0 <= c | None => True end -> MInv (init_mst capacity value).
Proof. intro H. split; [split; cbn; try constructor; destruct capacity; auto|constructor]. Qed.

Lemma cap_sum_app a b : cap_sum (a ++ b) = cap_sum a + cap_sum b.
Proof. unfold cap_sum. induction a as [|x a IH]; cbn; [reflexivity|]. unfold cap_sum in IH. rewrite IH. lia. Qed.

Lemma target_busy_spec active t : target_busy active t = true <-> In t (map wo_target active).
Proof.
  unfold target_busy. rewrite existsb_exists. split.
  - intros [wo [H E]]. apply Z.eqb_eq in E. subst. apply in_map, H.
  - intro H. apply in_map_iff in H. destruct H as [wo [E H]]. exists wo. split; [exact H|]. apply Z.eqb_eq, E.
Qed.

Lemma target_busy_mono active wo t : target_busy active t = true -> target_busy (active ++ [wo]) t = true.
Proof. unfold target_busy. rewrite !existsb_app. intro H. rewrite H. reflexivity. Qed.

Lemma cap_fits_mono capacity u u' need : u <= u' -> cap_fits capacity u need = false -> cap_fits capacity u' need = false.
Proof.
  unfold cap_fits. destruct capacity as [c|]; [|discriminate]. intros L H.
  apply Z.leb_gt in H. apply Z.leb_gt. lia.
Qed.

Lemma blocked_mono capacity u u' active wo0 wo :
  u <= u' -> blocked capacity u active wo -> blocked capacity u' (active ++ [wo0]) wo.
Proof.
  intros L [H|H]; [left; eapply cap_fits_mono; eauto|right; apply target_busy_mono, H].
Qed.

(** the pass: what is kept, what is selected, in which order, and why *)
Inductive split_in_order : list worder -> list worder -> list worder -> Prop :=
| sio_nil : split_in_order [] [] []
| sio_keep wo q k s : split_in_order q k s -> split_in_order (wo :: q) (wo :: k) s
| sio_sel wo q k s : split_in_order q k s -> split_in_order (wo :: q) k (wo :: s).

Lemma try_pass_spec nw capacity q : forall util active out,
  caps_nonneg q ->
  let '(kept, u, a, o) := try_pass nw capacity q util active out in
  exists sel,
    split_in_order q kept sel /\ a = active ++ sel /\ u = util + cap_sum sel /\ util <= u /\
    (* every selected order fitted and its target was free when its turn came; selection made the target busy *)
    (NoDup (map wo_target active) -> NoDup (map wo_target a)) /\
    (match capacity with Some c => util <= c -> u <= c | None => True end) /\
    (* every kept order is blocked in the final state *)
    Forall (blocked capacity u a) kept /\
    (* one START_WORK event per selected order, at the current instant, nothing else *)
    o = rev (map (fun wo => MSched nw P_START_WORK (MStart wo)) sel) ++ out.
Proof.
  induction q as [|wo q IH]; intros util active out CN; cbn.
  - exists []. change (cap_sum []) with 0. cbn. rewrite app_nil_r. repeat split; auto; try lia; try constructor. destruct capacity; auto.
  - inversion CN as [|? ? Hc CN']; subst.
    destruct (cap_fits capacity util (wo_cap wo) && negb (target_busy active (wo_target wo))) eqn:B.
    + apply andb_true_iff in B. destruct B as [B1 B2]. apply negb_true_iff in B2.
      specialize (IH (util + wo_cap wo) (active ++ [wo]) (MSched nw P_START_WORK (MStart wo) :: out) CN').
      destruct (try_pass nw capacity q (util + wo_cap wo) (active ++ [wo]) (MSched nw P_START_WORK (MStart wo) :: out))
        as [[[kept u] a] o].
      destruct IH as [sel [S [A [U [L [T [C [K O]]]]]]]].
      exists (wo :: sel). split; [constructor; exact S|]. split; [rewrite A, <- app_assoc; reflexivity|].
      split; [change (cap_sum (wo :: sel)) with (wo_cap wo + cap_sum sel); lia|]. split; [lia|]. split; [|split; [|split; [exact K|]]].
      * intro ND. apply T. rewrite map_app. cbn.
        apply NoDup_snoc; [exact ND|]. intro H. apply target_busy_spec in H. congruence.
      * destruct capacity as [c|]; [|exact I]. intro Hu. apply C. unfold cap_fits in B1. apply Z.leb_le in B1. lia.
      * rewrite O. cbn. rewrite <- app_assoc. reflexivity.
    + specialize (IH util active out CN').
      destruct (try_pass nw capacity q util active out) as [[[kept u] a] o].
      destruct IH as [sel [S [A [U [L [T [C [K O]]]]]]]].
      exists sel. split; [constructor; exact S|]. repeat split; auto.
      constructor; [|exact K].
      (* blocked when examined, hence blocked at the end: usage only grew, the active list only grew *)
      assert (B0 : blocked capacity util active wo).
      { apply andb_false_iff in B. destruct B as [B|B]; [left; exact B|right]. apply negb_false_iff in B. exact B. }
      destruct B0 as [B0|B0]; [left; eapply cap_fits_mono; eauto|right].
      rewrite A. unfold target_busy in *. rewrite existsb_app, B0. reflexivity.
Qed.

Lemma split_in_order_perm q k s : split_in_order q k s -> Permutation q (k ++ s).
Proof.
  induction 1; cbn; [constructor|constructor; assumption|].
  rewrite IHsplit_in_order. apply Permutation_middle.
Qed.

Lemma split_in_order_kept_sub q k s wo : split_in_order q k s -> In wo k -> In wo q.
Proof. induction 1; cbn; [tauto| |]; intros H0; [destruct H0; auto|auto]. Qed.

(** try_working_requests preserves the invariant and settles the queue *)
Theorem m_try_inv nw m : MCore m -> MInv (m_try nw m).
Proof.
  intros [U T IDS FR CN CP]. unfold m_try.
  assert (CNq : caps_nonneg (m_queue m)) by (unfold caps_nonneg in *; apply Forall_app in CN; tauto).
  pose proof (try_pass_spec nw (m_capacity m) (m_queue m) (m_util m) (m_active m) (m_out m) CNq) as SP.
  destruct (try_pass nw (m_capacity m) (m_queue m) (m_util m) (m_active m) (m_out m)) as [[[kept u] a] o].
  destruct SP as [sel [S [A [Ue [L [Tn [C [K O]]]]]]]].
  pose proof (split_in_order_perm _ _ _ S) as P.
  assert (PA : Permutation (kept ++ a) (m_queue m ++ m_active m)).
  { rewrite A, P. rewrite <- !app_assoc. apply Permutation_app_head. apply Permutation_app_comm. }
  split; [split; cbn|exact K].
  - rewrite Ue, A, cap_sum_app, U. lia.
  - apply Tn, T.
  - eapply Permutation_NoDup; [|exact IDS]. apply Permutation_map. symmetry. exact PA.
  - eapply Permutation_Forall; [symmetry; exact PA|exact FR].
  - unfold caps_nonneg in *. eapply Permutation_Forall; [symmetry; exact PA|exact CN].
  - destruct (m_capacity m); auto.
Qed.

Lemma try_pass_struct nw capacity q : forall util active out,
  let '(kept, u, a, o) := try_pass nw capacity q util active out in
  exists sel, split_in_order q kept sel /\ a = active ++ sel /\
              o = rev (map (fun wo => MSched nw P_START_WORK (MStart wo)) sel) ++ out.
Proof.
  induction q as [|wo q IH]; intros util active out; cbn.
  - exists []. cbn. rewrite app_nil_r. repeat split. constructor.
  - destruct (cap_fits capacity util (wo_cap wo) && negb (target_busy active (wo_target wo))).
    + specialize (IH (util + wo_cap wo) (active ++ [wo]) (MSched nw P_START_WORK (MStart wo) :: out)).
      destruct (try_pass nw capacity q (util + wo_cap wo) (active ++ [wo]) (MSched nw P_START_WORK (MStart wo) :: out))
        as [[[kept u] a] o].
      destruct IH as [sel [S [A O]]]. exists (wo :: sel). split; [constructor; exact S|].
      split; [rewrite A, <- app_assoc; reflexivity|]. rewrite O. cbn. rewrite <- app_assoc. reflexivity.
    + specialize (IH util active out). destruct (try_pass nw capacity q util active out) as [[[kept u] a] o].
      destruct IH as [sel [S [A O]]]. exists sel. split; [constructor; exact S|auto].
Qed.

Theorem m_try_events nw m :
  exists sel, m_active (m_try nw m) = m_active m ++ sel /\ split_in_order (m_queue m) (m_queue (m_try nw m)) sel /\
              m_out (m_try nw m) = rev (map (fun wo => MSched nw P_START_WORK (MStart wo)) sel) ++ m_out m.
Proof.
  unfold m_try.
  pose proof (try_pass_struct nw (m_capacity m) (m_queue m) (m_util m) (m_active m) (m_out m)) as SP.
  destruct (try_pass nw (m_capacity m) (m_queue m) (m_util m) (m_active m) (m_out m)) as [[[kept u] a] o].
  destruct SP as [sel [S [A O]]]. exists sel. cbn. auto.
Qed.

(** create_work_order: returns exactly "no identical (target, tag) order is queued or in progress" *)
Theorem m_create_result nw t g capv info m :
  snd (m_create nw t g capv info m) = negb (is_requested m t g) /\
  (is_requested m t g = true -> fst (m_create nw t g capv info m) = m).
Proof. unfold m_create. destruct (is_requested m t g); cbn; (split; [reflexivity|intro H; try discriminate; reflexivity]). Qed.

Lemma is_requested_spec m t g :
  is_requested m t g = true <-> exists wo, In wo (m_queue m ++ m_active m) /\ wo_target wo = t /\ wo_tag wo = g.
Proof.
  unfold is_requested. rewrite orb_true_iff, !existsb_exists. unfold same_order. split.
  - intros [[wo [H E]]|[wo [H E]]]; apply andb_true_iff in E; destruct E as [E1 E2]; apply Z.eqb_eq in E1, E2;
      exists wo; (split; [apply in_or_app; auto|auto]).
  - intros [wo [H [E1 E2]]]. apply in_app_or in H.
    destruct H as [H|H]; [left|right]; exists wo; (split; [exact H|]); apply andb_true_iff; split; apply Z.eqb_eq; assumption.
Qed.

Theorem m_create_inv nw t g capv info m : MInv m -> 0 <= capv -> MInv (fst (m_create nw t g capv info m)).
Proof.
  intros I Hc. unfold m_create. destruct (is_requested m t g); cbn [fst]; [exact I|].
  apply m_try_inv. destruct I as [[U T IDS FR CN CP] _].
  set (w := mkWO (m_next m) t g capv info).
  assert (PP : Permutation ((m_queue m ++ [w]) ++ m_active m) (w :: m_queue m ++ m_active m)).
  { rewrite <- app_assoc. cbn. symmetry. apply Permutation_middle. }
  split; cbn; auto; fold w.
  - eapply Permutation_NoDup; [apply Permutation_map; symmetry; exact PP|]. cbn. constructor; [|exact IDS].
    intro H. apply in_map_iff in H. destruct H as [wo [E H]].
    rewrite Forall_forall in FR. apply FR in H. lia.
  - eapply Permutation_Forall; [symmetry; exact PP|]. constructor; [cbn; lia|].
    eapply Forall_impl; [|exact FR]. cbn. intros; lia.
  - unfold caps_nonneg in *. eapply Permutation_Forall; [symmetry; exact PP|]. constructor; [exact Hc|exact CN].
Qed.

(** the accepted order goes to the back of the queue (before the scan that follows) *)
Theorem m_create_appends nw t g capv info m :
  is_requested m t g = false ->
  exists m2, m_queue m2 = m_queue m ++ [mkWO (m_next m) t g capv info] /\ m_active m2 = m_active m /\
             m_util m2 = m_util m /\ fst (m_create nw t g capv info m) = m_try nw m2.
Proof.
  intro H. unfold m_create. rewrite H.
  exists (mkM (m_capacity m) (m_util m) (m_queue m ++ [mkWO (m_next m) t g capv info]) (m_active m) (S (m_next m))
              (m_value m) (m_vhist m) (MData L_ENTER_QUEUE [nw; t; g; info] :: m_out m)).
  cbn. repeat split.
Qed.

(** starting an order: the bookkeeping before/after the target's hook touches neither queue, active list nor usage;
    the cost is charged once; exactly one FINISH_WORK event at start + duration *)
Theorem m_start_frame nw wo costv durv m :
  let m1 := m_start_pre nw wo costv m in
  let m2 := m_start_post nw wo durv m1 in
  m_queue m2 = m_queue m /\ m_active m2 = m_active m /\ m_util m2 = m_util m /\ m_capacity m2 = m_capacity m /\
  m_next m2 = m_next m /\ m_value m2 = m_value m - costv /\
  m_out m2 = MSched (nw + durv) P_FINISH_WORK (MFinish wo) :: MData L_START_WORK [nw; wo_target wo; wo_tag wo; wo_info wo] :: m_out m.
Proof.
  unfold m_start_pre, m_start_post, m_add_cost, m_record, m_emit. cbn.
  destruct (Z.eqb_spec costv 0) as [->|N]; cbn; repeat split; lia.
Qed.

Lemma MCore_frame m m' :
  m_queue m' = m_queue m -> m_active m' = m_active m -> m_util m' = m_util m -> m_capacity m' = m_capacity m ->
  m_next m' = m_next m -> MInv m -> MInv m'.
Proof.
  intros Q A U C N [[U0 T IDS FR CN CP] ST]. split; [split|unfold Settled]; rewrite ?Q, ?A, ?U, ?C, ?N; auto.
Qed.

Theorem m_start_inv nw wo costv durv m : MInv m -> MInv (m_start_post nw wo durv (m_start_pre nw wo costv m)).
Proof.
  intro I. destruct (m_start_frame nw wo costv durv m) as [Q [A [U [C [N _]]]]].
  eapply MCore_frame; eauto.
Qed.

Lemma remove_wo_spec i l :
  NoDup (map wo_id l) -> forall wo, In wo l -> wo_id wo = i ->
  Permutation l (wo :: remove_wo i l) /\ cap_sum (remove_wo i l) = cap_sum l - wo_cap wo.
Proof.
  induction l as [|x l IH]; intros ND wo Hin E; [destruct Hin|].
  cbn in ND. inversion ND as [|? ? Nin ND']; subst. cbn.
  destruct (Nat.eqb_spec (wo_id x) (wo_id wo)) as [Eq|Ne].
  - destruct Hin as [->|Hin].
    + split; [reflexivity|]. unfold cap_sum. cbn. lia.
    + exfalso. apply Nin. rewrite Eq. apply in_map, Hin.
  - destruct Hin as [->|Hin]; [congruence|].
    destruct (IH ND' wo Hin eq_refl) as [P C]. split.
    + rewrite P at 1. apply perm_swap.
    + unfold cap_sum in *. cbn. rewrite C. lia.
Qed.

(** finishing an order: usage goes down by exactly the order's capacity, the order leaves the
    active list, the queue is re-scanned *)
Theorem m_finish_inv nw wo m : MInv m -> In wo (m_active m) -> MInv (m_finish_post nw wo m).
Proof.
  intros [[U T IDS FR CN CP] _] Hin. unfold m_finish_post. apply m_try_inv.
  assert (NDa : NoDup (map wo_id (m_active m))).
  { rewrite map_app in IDS. apply NoDup_app_swap in IDS. clear - IDS.
    induction (map wo_id (m_active m)) as [|x l IH]; [constructor|]. cbn in IDS. inversion IDS; subst.
    constructor; [intro H; apply H1; apply in_or_app; auto|auto]. }
  destruct (remove_wo_spec (wo_id wo) (m_active m) NDa wo Hin eq_refl) as [P C].
  assert (Pq : Permutation (m_queue m ++ m_active m) (wo :: m_queue m ++ remove_wo (wo_id wo) (m_active m))).
  { rewrite P at 1. symmetry. apply Permutation_middle. }
  split; cbn.
  - rewrite C, U. lia.
  - assert (X : NoDup (map wo_target (wo :: remove_wo (wo_id wo) (m_active m)))).
    { eapply Permutation_NoDup; [|exact T]. apply Permutation_map, P. }
    cbn in X. inversion X; assumption.
  - assert (X : NoDup (map wo_id (wo :: m_queue m ++ remove_wo (wo_id wo) (m_active m)))).
    { eapply Permutation_NoDup; [|exact IDS]. apply Permutation_map, Pq. }
    cbn in X. inversion X; assumption.
  - assert (X : Forall (fun w => (wo_id w < m_next m)%nat) (wo :: m_queue m ++ remove_wo (wo_id wo) (m_active m))).
    { eapply Permutation_Forall; [exact Pq|exact FR]. }
    inversion X; assumption.
  - unfold caps_nonneg in *.
    assert (X : Forall (fun w => 0 <= wo_cap w) (wo :: m_queue m ++ remove_wo (wo_id wo) (m_active m))).
    { eapply Permutation_Forall; [exact Pq|exact CN]. }
    inversion X; assumption.
  - destruct (m_capacity m) as [c|]; [|exact I].
    unfold caps_nonneg in CN. rewrite Forall_forall in CN. assert (0 <= wo_cap wo) by (apply CN, in_or_app; auto). lia.
Qed.
