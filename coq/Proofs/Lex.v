(** Lexicographic order lemmas (one place for all order reasoning). *)
From Coq Require Import ZArith List Bool Lia.
From SimVerif Require Import Model.Base.
Import ListNotations.
Open Scope Z_scope.

Lemma lex_ltb_irrefl a : lex_ltb a a = false.
Proof.
  induction a as [|x a IH]; cbn; [reflexivity|].
  rewrite Z.ltb_irrefl. exact IH.
Qed.

Lemma lex_ltb_asym a : forall b, lex_ltb a b = true -> lex_ltb b a = false.
Proof.
  induction a as [|x a IH]; intros [|y b] H; cbn in *; try discriminate; try reflexivity.
  destruct (x <? y) eqn:Hxy.
  - apply Z.ltb_lt in Hxy. destruct (y <? x) eqn:Hyx; [apply Z.ltb_lt in Hyx; lia|].
    reflexivity.
  - destruct (y <? x) eqn:Hyx; [discriminate|]. apply IH. exact H.
Qed.

Ltac zcases :=
  repeat match goal with
  | H : context[?a <? ?b] |- _ => destruct (Z.ltb_spec a b)
  | |- context[?a <? ?b] => destruct (Z.ltb_spec a b)
  end; try discriminate; try lia; try reflexivity.

(** "a <= b" is [lex_ltb b a = false]; transitive on keys of equal length. *)
Lemma lex_le_trans a : forall b c,
  length a = length b -> length b = length c ->
  lex_ltb b a = false -> lex_ltb c b = false -> lex_ltb c a = false.
Proof.
  induction a as [|x a IH]; intros [|y b] [|z c] L1 L2 H1 H2; cbn in *; try discriminate; try reflexivity.
  zcases. injection L1 as L1; injection L2 as L2. eapply (IH b c); eauto.
Qed.

Lemma lex_lt_le_trans a : forall b c,
  length a = length b -> length b = length c ->
  lex_ltb a b = true -> lex_ltb c b = false -> lex_ltb a c = true.
Proof.
  induction a as [|x a IH]; intros [|y b] [|z c] L1 L2 H1 H2; cbn in *; try discriminate.
  zcases. injection L1 as L1; injection L2 as L2. eapply (IH b c); eauto.
Qed.

Lemma lex_le_hd x a y b : lex_ltb (y :: b) (x :: a) = false -> x <= y.
Proof.
  cbn. destruct (y <? x) eqn:H; [discriminate|]. apply Z.ltb_ge in H. lia.
Qed.

Lemma lex_le_hd2 x x2 a y y2 b :
  lex_ltb (y :: y2 :: b) (x :: x2 :: a) = false -> x = y -> x2 <= y2.
Proof.
  intros H ->. cbn in H. rewrite Z.ltb_irrefl in H.
  destruct (y2 <? x2) eqn:H2; [discriminate|]. apply Z.ltb_ge in H2. lia.
Qed.

Lemma lex_total a : forall b, length a = length b ->
  lex_ltb a b = false -> lex_ltb b a = false -> a = b.
Proof.
  induction a as [|x a IH]; intros [|y b] L H1 H2; cbn in *; try discriminate; try reflexivity.
  destruct (x <? y) eqn:Hxy; [discriminate|].
  destruct (y <? x) eqn:Hyx; [discriminate|].
  apply Z.ltb_ge in Hxy, Hyx. assert (x = y) by lia. subst. f_equal. apply IH; auto.
Qed.
