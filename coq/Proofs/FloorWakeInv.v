(** C03, queue level: in every state reached without a Python exception (also inside a run), every device that holds a part
    ready to leave is flagged as waiting for downstream space, or has a PASS_PART event of its own pending in the queue —
    unless it is a shut-down processor or a source whose budget is used up.  No ready part is ever forgotten. *)
From Coq Require Import ZArith List Bool Lia Sorting.Sorted Sorting.Permutation.
From RecordUpdate Require Import RecordUpdate.
From SimVerif Require Import Model.Base Model.Env Model.FamEnv Model.RM Model.Maint Model.FloorTypes Model.Floor Model.FamFloor.
From SimVerif Require Import Proofs.RMInv Proofs.EnvInv Proofs.EnvPause Proofs.FloorSteps Proofs.FloorInv Proofs.FloorRes Proofs.FloorLink Proofs.FloorReach Proofs.FloorIdle Proofs.FloorWake.
Import ListNotations.
Open Scope Z_scope.

Definition pending (d : Z) (en : fenv) : Prop :=
  exists e : fevent, e_asset e = d /\ e_act e = Some (APassPart d) /\ e_cancelled e = false /\ In e (queue en).

Definition P (skip : Z -> Prop) (w : fw) (en : fenv) : Prop :=
  forall d, ~ skip d -> need (getd w d) -> pending d en.

Section WakeInv.
Variable ws : nat -> Z.
Notation venv := (venv ws).

(** * the environment calls *)
Lemma pending_quiet d en c en' : quiet_cmd c -> apply_cmd ws en (to_cmd_f c) = Ok en' -> pending d en -> pending d en'.
Proof.
  intros Q H [e [A [B [C D]]]]. destruct c; try contradiction; cbn in H.
  - unfold schedule in H. destruct (t <? now en); [discriminate|]. injection H as <-. exists e. cbn. repeat split; auto.
    apply (insort_in fact). right. exact D.
  - injection H as <-. exists e. cbn. repeat split; auto.
Qed.

Lemma pending_quiets d l : Forall quiet_cmd l -> forall en en', apply_cmds ws en (map to_cmd_f l) = Ok en' -> pending d en -> pending d en'.
Proof.
  induction 1 as [|c l Q _ IH]; intros en en' H Wt; cbn in H; [injection H as <-; exact Wt|].
  destruct (apply_cmd ws en (to_cmd_f c)) as [en1|en1] eqn:E; [|discriminate].
  apply (IH en1 en' H). eapply pending_quiet; eauto.
Qed.

Lemma pending_new d en t p en' : apply_cmd ws en (CSched t p d (APassPart d)) = Ok en' -> pending d en'.
Proof.
  cbn. unfold schedule. destruct (t <? now en); [discriminate|]. intro H. injection H as <-.
  eexists. cbn. split; [|split; [|split; [|apply (insort_in fact); left; reflexivity]]]; reflexivity.
Qed.

Lemma pending_pause_other d en a : a <> d -> pending d en -> pending d (pause en a).
Proof.
  intros N [e [A [B [C D]]]]. exists e. repeat split; auto. cbn.
  apply filter_In. split; [exact D|]. rewrite (matches_false a e); [reflexivity|congruence].
Qed.

Lemma pending_unpause d en a : pending d en -> pending d (unpause en a).
Proof. intros [e [A [B [C D]]]]. exists e. repeat split; auto. cbn. apply In_fold_insort. exact D. Qed.

Lemma pending_cancel_other d en a : a <> d -> pending d en -> pending d (cancel en a).
Proof.
  intros N [e [A [B [C D]]]]. exists e. repeat split; auto. cbn.
  set (f := fun e0 : fevent => if matches a e0 then cancel_ev e0 else e0).
  assert (E : f e = e) by (unfold f; rewrite (matches_false a e); [reflexivity|congruence]).
  rewrite <- E. apply in_map. exact D.
Qed.

Definition LP (skip : Z -> Prop) (en0 : fenv) (w : fw) : Prop :=
  okf w = true -> forall en, venv en0 w = Ok en -> P skip w en.

Lemma P_same_devs skip w w' en : f_devs w' = f_devs w -> P skip w en -> P skip w' en.
Proof. intros D H d NS IH. rewrite (getd_other_fields w w' d D) in *. apply H; assumption. Qed.
Lemma P_env skip w en en' : (forall d, pending d en -> pending d en') -> P skip w en -> P skip w en'.
Proof. intros M H d NS IH. apply M, H; assumption. Qed.

Lemma P_updd skip w d f en :
  (amem d (f_devs w) = true -> ~ skip d -> need (f (getd w d)) -> pending d en) -> P skip w en -> P skip (updd w d f) en.
Proof.
  intros Hd H d' NS IH. rewrite getd_updd in *. destruct (Z.eqb_spec d' d) as [->|N]; cbn [andb] in *; [|apply H; assumption].
  destruct (amem d (f_devs w)) eqn:M; [apply Hd; auto|apply H; assumption].
Qed.

Lemma LP_weaken (skip skip' : Z -> Prop) en0 w : (forall d, skip d -> skip' d) -> LP skip en0 w -> LP skip' en0 w.
Proof. intros M L OKF en V d NS IH. apply (L OKF en V d); [intro X; apply NS, M, X|exact IH]. Qed.

Lemma LP_split (skip : Z -> Prop) d0 en0 w :
  LP (fun d => skip d \/ d = d0) en0 w ->
  (okf w = true -> forall en, venv en0 w = Ok en -> ~ skip d0 -> need (getd w d0) -> pending d0 en) ->
  LP skip en0 w.
Proof.
  intros L1 L2 OKF en V d NS IH. destruct (Z.eq_dec d d0) as [->|N].
  - apply (L2 OKF en V); assumption.
  - apply (L1 OKF en V d); [intros [X|X]; [exact (NS X)|exact (N X)]|exact IH].
Qed.

Lemma LP_updd_skip (skip : Z -> Prop) en0 w d f : skip d -> LP skip en0 w -> LP skip en0 (updd w d f).
Proof.
  intros SK L OKF en V. rewrite okf_updd in OKF. rewrite (venv_same ws en0 w (updd w d f) eq_refl) in V.
  apply P_updd; [|apply (L OKF en V)]. intros _ NS. contradiction.
Qed.

Lemma LP_updd_safe (skip : Z -> Prop) en0 w d g f : psafe g f -> g (getd w d) -> LP skip en0 w -> LP skip en0 (updd w d f).
Proof.
  intros JS G L OKF en V. rewrite okf_updd in OKF. rewrite (venv_same ws en0 w (updd w d f) eq_refl) in V.
  specialize (L OKF en V). apply P_updd; [|exact L]. intros M NS IH. apply (L d NS). apply (JS _ G IH).
Qed.

Definition pemit_ok' (skip : Z -> Prop) (w : fw) (c : fcmd) : Prop :=
  match c with FPause a | FCancel a => skip a \/ ~ need (getd w a) | _ => True end.

Lemma LP_emit (skip : Z -> Prop) en0 w c : pemit_ok' skip w c -> LP skip en0 w -> LP skip en0 (emitf w c).
Proof.
  intros EO L OKF en' V. rewrite okf_emitf in OKF. destruct (venv_emit ws en0 w c en' V) as [en [V0 AC]].
  specialize (L OKF en V0). apply (P_same_devs skip w); [reflexivity|].
  destruct c as [t p a act|lb sb pl|a|a|a]; cbn in AC.
  - eapply P_env; [|exact L]. intros d. apply (pending_quiet d en (FSched t p a act)); [exact I|exact AC].
  - eapply P_env; [|exact L]. intros d. apply (pending_quiet d en (FData lb sb pl)); [exact I|exact AC].
  - injection AC as <-. cbn in EO. intros d NS IH. destruct (Z.eq_dec a d) as [->|N].
    + destruct EO as [EO|EO]; contradiction.
    + apply pending_pause_other; [exact N|apply (L d NS IH)].
  - injection AC as <-. intros d NS IH. apply pending_unpause, (L d NS IH).
  - injection AC as <-. cbn in EO. intros d NS IH. destruct (Z.eq_dec a d) as [->|N].
    + destruct EO as [EO|EO]; contradiction.
    + apply pending_cancel_other; [exact N|apply (L d NS IH)].
Qed.

Lemma LP_quiet (skip : Z -> Prop) en0 w w' :
  f_devs w' = f_devs w -> (exists l, f_out w' = l ++ f_out w /\ Forall quiet_cmd l) -> (okf w' = true -> okf w = true) ->
  LP skip en0 w -> LP skip en0 w'.
Proof.
  intros D [l [O Q]] OK L OKF en' V. rewrite (venv_app ws en0 w w' l O) in V. destruct (venv en0 w) as [en|en] eqn:V0; [|discriminate].
  specialize (L (OK OKF) en V0). apply (P_same_devs skip w); [exact D|].
  eapply P_env; [|exact L]. intros d. apply (pending_quiets d (rev l)); [apply Forall_rev, Q|exact V].
Qed.

(** a [sched_pass] call puts its device right, whatever its state was *)
Lemma sink_not_need x : d_kind x = KSink -> ~ need x.
Proof. intros K [RD _]. unfold ready in RD. rewrite K in RD. exact RD. Qed.

Lemma LP_sched_pass_fix (skip : Z -> Prop) en0 nw off w d :
  LP (fun d' => skip d' \/ d' = d) en0 w -> LP skip en0 (sched_pass nw off w d).
Proof.
  intro L. unfold sched_pass. destruct (d_kind (getd w d)) eqn:K;
    try (apply (LP_split skip d);
         [apply LP_emit; [exact I|apply LP_updd_skip; [right; reflexivity|exact L]]
         |intros OKF en' V NS IH; destruct (venv_emit ws en0 _ _ en' V) as [en1 [V1 AC]]; cbn in AC; eapply pending_new; exact AC]).
  apply (LP_split skip d); [exact L|]. intros _ en _ _ IH. exfalso. exact (sink_not_need _ K IH).
Qed.

(** * level 0 *)
Theorem sstep_LP nw skip en0 w w' : sstep nw w w' -> LP skip en0 w -> LP skip en0 w'.
Proof.
  intros S L. destruct S as [w d g f JS G|w c EO|w w' D O OK|w w' DEAD|w off d].
  - eapply LP_updd_safe; eauto.
  - apply LP_emit; [|exact L]. destruct c; cbn in *; auto.
  - eapply LP_quiet; eauto.
  - intros OKF. congruence.
  - apply LP_sched_pass_fix. eapply LP_weaken; [|exact L]. auto.
Qed.

Theorem SR_LP nw skip en0 w w' : SR nw w w' -> LP skip en0 w -> LP skip en0 w'.
Proof. intro H. induction H as [|w1 w2 w3 S _ IH]; intro L; [exact L|]. apply IH. eapply sstep_LP; eauto. Qed.

(** * the batcher *)
Lemma LP_nextid (skip : Z -> Prop) en0 w z : LP skip en0 w -> LP skip en0 (w <| f_next_id := z |>).
Proof. apply LP_quiet; [reflexivity|exists []; split; [reflexivity|constructor]|auto]. Qed.

Lemma LP_batcher_fill (skip : Z -> Prop) en0 n : forall w d, skip d -> LP skip en0 w -> LP skip en0 (batcher_fill n w d).
Proof.
  induction n as [|n IH]; intros w d SK L; cbn [batcher_fill]; [exact L|].
  set (x := getd w d). destruct (d_out x); [exact L|]. destruct (d_part x) as [it|]; [|exact L].
  match goal with |- context[let '(p, rest) := ?e in _] => destruct e as [[p|] rest] end; [|exact L].
  destruct (d_batch_size x) as [size|].
  - destruct (d_inprog x) as [[pp|b ps]|].
    + apply IH; assumption.
    + destruct (size <=? _); (apply IH; [exact SK|apply LP_updd_skip; assumption]).
    + destruct (size <=? _); (apply IH; [exact SK|apply LP_updd_skip; [exact SK|apply LP_nextid, L]]).
  - apply IH; [exact SK|apply LP_updd_skip; assumption].
Qed.

Lemma LP_batcher (skip : Z -> Prop) en0 nw w d :
  d_kind (getd w d) = KBatcher -> LP (fun d' => skip d' \/ d' = d) en0 w ->
  (LP skip en0 w \/ d_out (getd w d) = None) -> LP skip en0 (batcher_try_move nw w d).
Proof.
  intros KB L ALT.
  assert (UNCH : d_out (getd w d) = None \/ LP skip en0 w -> LP skip en0 w).
  { intros [O|X]; [|exact X]. apply (LP_split skip d); [exact L|]. intros _ en _ _ [RD _]. unfold ready in RD. rewrite KB in RD. contradiction. }
  unfold batcher_try_move. set (x := getd w d) in *.
  destruct (d_part x) as [it|] eqn:PP; [|apply UNCH; destruct ALT; auto].
  destruct (d_out x) eqn:O; [destruct ALT as [X|X]; [exact X|discriminate]|].
  destruct (negb (operational x)); [apply UNCH; left; reflexivity|].
  assert (G : LP skip en0 (let w1 := batcher_fill (S (Z.to_nat (item_count it))) w d in
                           match d_out (getd w1 d) with Some _ => sched_pass nw 0 w1 d | None => w1 end)).
  { cbv zeta. set (w1 := batcher_fill _ w d).
    assert (L1 : LP (fun d' => skip d' \/ d' = d) en0 w1) by (apply LP_batcher_fill; [right; reflexivity|exact L]).
    destruct (d_out (getd w1 d)) eqn:O1; [apply LP_sched_pass_fix, L1|].
    apply (LP_split skip d); [exact L1|]. intros _ en _ _ [RD _]. unfold ready in RD.
    rewrite (R_kind nw MFull w w1 (R_batcher_fill nw MFull _ w d KB) d) in RD. fold x in RD. rewrite KB in RD. contradiction. }
  destruct it as [p|b [|p ps]]; try exact G.
  apply (LP_split skip d); [apply LP_updd_skip; [right; reflexivity|exact L]|].
  intros _ en _ _ [RD _]. unfold ready in RD. rewrite getd_updd, Z.eqb_refl in RD. cbn [andb] in RD.
  destruct (amem d (f_devs w)); fold x in RD; [unfold t_clear_part in RD; cbn in RD|]; rewrite KB, ?O in RD; contradiction.
Qed.

Lemma need_everywhere pid f w d : need (getd (upd_part_everywhere pid f w) d) -> need (getd w d).
Proof.
  unfold upd_part_everywhere, getd. cbn. induction (f_devs w) as [|[k y] l IH]; cbn; [auto|].
  destruct (d =? k); [|exact IH]. cbn. intros [RD [NE W]]. split; [|split; [exact NE|exact W]].
  unfold ready in *. cbn in *. destruct (d_kind y); auto; intro E; rewrite E in RD; apply RD; reflexivity.
Qed.

(** * level 1: every [jstep] preserves the link *)
Theorem jstep_LP nw skip en0 w w' : jstep nw w w' -> LP skip en0 w -> LP skip en0 w'.
Proof.
  intros S L.
  assert (L' : forall d, LP (fun d' => skip d' \/ d' = d) en0 w) by (intro d; eapply LP_weaken; [|exact L]; auto).
  destruct S as [w w' S|w pid f|w d it|w d it|w d|w d KB|w d itb dl w6 HS|w d|w d z].
  - eapply sstep_LP; eauto.
  - intros OKF en V. specialize (L OKF en V). intros d NS IH. apply (L d NS). eapply need_everywhere, IH.
  - apply LP_sched_pass_fix, LP_updd_skip; [right; reflexivity|apply L'].
  - cbv zeta. set (w1 := sched_pass nw 0 (updd w d (t_finish_proc nw it)) d).
    assert (L1 : LP skip en0 w1) by (apply LP_sched_pass_fix, LP_updd_skip; [right; reflexivity|apply L']).
    destruct (d_reserved (getd w1 d)); [apply LP_emit; [exact I|exact L1]|exact L1].
  - apply LP_sched_pass_fix, LP_updd_skip; [right; reflexivity|].
    destruct (generate_nextid w d) as [z Hz]. rewrite Hz. apply LP_nextid, L'.
  - apply LP_batcher; [exact KB|apply L'|left; exact L].
  - apply LP_sched_pass_fix. eapply SR_LP; [exact HS|]. apply LP_updd_skip; [right; reflexivity|apply L'].
  - apply LP_sched_pass_fix. apply LP_emit; [exact I|]. apply LP_updd_skip; [right; reflexivity|apply L'].
  - apply LP_sched_pass_fix, LP_updd_skip; [right; reflexivity|apply L'].
Qed.

Theorem RJ_LP nw skip en0 w w' : RJ nw w w' -> LP skip en0 w -> LP skip en0 w'.
Proof. intro H. induction H as [|w1 w2 w3 S _ IH]; intro L; [exact L|]. apply IH. eapply jstep_LP; eauto. Qed.

(** * a hand-over attempt puts its own device right *)
Lemma not_operational x : operational x = false -> d_kind x = KProcessor /\ d_shut x = true.
Proof. unfold operational. destruct (d_kind x); try discriminate. intro H. apply negb_false_iff in H. auto. Qed.

Lemma getd_updd_same w d f : getd (updd w d f) d = if amem d (f_devs w) then f (getd w d) else getd w d.
Proof. rewrite getd_updd, Z.eqb_refl. reflexivity. Qed.

Lemma blank_not_need w d : amem d (f_devs w) = false -> ~ need (getd w d).
Proof. intros M [RD _]. unfold getd, amem in *. destruct (aget d (f_devs w)); [discriminate|]. exact RD. Qed.

Lemma handler_pass_fix nw (skip : Z -> Prop) en0 fuel w d :
  d_kind (getd w d) <> KBuffer -> LP (fun d' => skip d' \/ d' = d) en0 w ->
  (d_out (getd w d) <> None /\ operational (getd w d) = true /\ LP skip en0 (fst (handler_pass fuel nw w d))) \/
  ((d_out (getd w d) = None \/ operational (getd w d) = false) /\ fst (handler_pass fuel nw w d) = w).
Proof.
  intros NB L. unfold handler_pass. set (x := getd w d) in *. destruct (d_out x) as [it|] eqn:O; [|right; split; [left|]; reflexivity].
  destruct (operational x) eqn:OP; cbn [negb]; [|right; split; [right|]; reflexivity].
  left. split; [discriminate|]. split; [reflexivity|].
  pose proof (RJ_LP nw _ en0 w _ (RJ_try_downstream nw fuel w d it) L) as L1.
  pose proof (R_try_downstream nw MFull fuel w d it (full_not_neutral MFull eq_refl)) as XR.
  destruct (try_downstream fuel nw w d it) as [w1 ok]. cbn [fst] in L1, XR.
  assert (K1 : d_kind (getd w1 d) = d_kind x) by apply (R_kind nw MFull w w1 XR d).
  destruct ok; cbn [fst].
  - eapply RJ_LP; [apply RJ_signal|]. apply (LP_split skip d); [apply LP_updd_skip; [right; reflexivity|exact L1]|].
    intros _ en _ _ IH. exfalso. rewrite getd_updd_same in IH. destruct (amem d (f_devs w1)) eqn:M; [|exact (blank_not_need w1 d M IH)].
    destruct IH as [RD _]. unfold ready, t_clear_out in RD. cbn in RD. rewrite K1 in RD.
    destruct (d_kind x); try contradiction; try (apply RD; reflexivity).
  - apply (LP_split skip d); [apply LP_updd_skip; [right; reflexivity|exact L1]|].
    intros _ en _ _ IH. exfalso. rewrite getd_updd_same in IH. destruct (amem d (f_devs w1)) eqn:M; [|exact (blank_not_need w1 d M IH)].
    destruct IH as [_ [_ W]]. discriminate.
Qed.

Lemma LP_close_not_need (skip : Z -> Prop) en0 w d : LP (fun d' => skip d' \/ d' = d) en0 w -> ~ need (getd w d) -> LP skip en0 w.
Proof. intros L N. apply (LP_split skip d); [exact L|]. intros _ en _ _ IH. contradiction. Qed.

Theorem pass_part_fix nw (skip : Z -> Prop) en0 fuel w d :
  LP (fun d' => skip d' \/ d' = d) en0 w -> LP skip en0 (pass_part fuel nw w d).
Proof.
  intro L. unfold pass_part. set (x := getd w d).
  assert (DEFAULT : d_kind x <> KBuffer -> d_kind x <> KSource -> d_kind x <> KBatcher -> LP skip en0 (fst (handler_pass fuel nw w d))).
  { intros NB NS NBa. destruct (handler_pass_fix nw skip en0 fuel w d NB L) as [[_ [_ X]]|[[C|C] E]]; [exact X| |]; rewrite E.
    - apply (LP_close_not_need skip en0 w d L). intros [RD _]. unfold ready in RD. fold x in RD, C. rewrite C in RD.
      destruct (d_kind x); try contradiction; try (apply RD; reflexivity).
    - apply (LP_close_not_need skip en0 w d L). intros [_ [NE _]]. apply NE. left. apply not_operational, C. }
  destruct (d_kind x) eqn:K; try (apply DEFAULT; discriminate).
  - (* buffer *)
    cbv zeta. set (w1 := buffer_loop (S (length (d_buf x))) fuel nw w d).
    assert (L1 : LP (fun d' => skip d' \/ d' = d) en0 w1) by (eapply RJ_LP; [apply RJ_buffer_loop; exact K|exact L]).
    assert (K1 : d_kind (getd w1 d) = KBuffer) by (rewrite (R_kind nw MFull w w1 (R_buffer_loop nw MFull _ fuel eq_refl w d K) d); exact K).
    eapply RJ_LP; [apply RJ_signal|].
    destruct (d_buf (getd w1 d)) as [|[t0 it] rest] eqn:B.
    + apply (LP_close_not_need skip en0 w1 d L1). intros [RD _]. unfold ready in RD. rewrite K1 in RD. contradiction.
    + match goal with |- context[if ?c then _ else _] => destruct c end; [apply LP_sched_pass_fix, L1|].
      apply (LP_split skip d); [apply LP_updd_skip; [right; reflexivity|exact L1]|].
      intros _ en _ _ IH. exfalso. rewrite getd_updd_same in IH. destruct (amem d (f_devs w1)) eqn:M; [|exact (blank_not_need w1 d M IH)].
      destruct IH as [_ [_ W]]. discriminate.
  - (* source *)
    destruct (d_out x) as [it|] eqn:O.
    2:{ apply (LP_close_not_need skip en0 w d L). intros [RD _]. unfold ready in RD. fold x in RD. rewrite K in RD. contradiction. }
    match goal with |- context[if negb ?c then _ else _] => destruct (negb c) eqn:X end.
    { apply (LP_close_not_need skip en0 w d L). intros [_ [NE _]]. apply NE. right. split; [exact K|exact X]. }
    destruct (handler_pass_fix nw skip en0 fuel w d ltac:(fold x; rewrite K; discriminate) L) as [[_ [_ L1]]|[[C|C] E]].
    + destruct (handler_pass fuel nw w d) as [w1 ok]. cbn [fst] in L1. destruct ok; [|exact L1].
      eapply RJ_LP; [apply RJ_sched_finish|]. apply LP_emit; [exact I|]. eapply LP_updd_safe; [apply psafe_supplied|exact I|exact L1].
    + fold x in C. congruence.
    + fold x in C. unfold operational in C. rewrite K in C. discriminate.
  - (* batcher *)
    pose proof (R_handler_pass nw MFull fuel w d eq_refl) as XR.
    destruct (handler_pass_fix nw skip en0 fuel w d ltac:(fold x; rewrite K; discriminate) L) as [[_ [_ L1]]|[[C|C] E]].
    + destruct (handler_pass fuel nw w d) as [w1 ok]. cbn [fst] in L1, XR.
      destruct (d_out (getd w1 d)) eqn:O1; [exact L1|].
      apply LP_batcher; [rewrite (R_kind nw MFull w w1 XR d); exact K|eapply LP_weaken; [|exact L1]; auto|left; exact L1].
    + destruct (handler_pass fuel nw w d) as [w1 ok]. cbn [fst] in E. subst w1. fold x in C |- *. rewrite C.
      apply LP_batcher; [exact K|exact L|right; exact C].
    + fold x in C. unfold operational in C. rewrite K in C. discriminate.
Qed.


(** * one action; taking the head of the queue; the driver *)
Lemma LP_start skip en w : f_out w = [] -> P skip w en -> LP skip en w.
Proof. intros O H _ en' V. unfold FloorIdle.venv in V. rewrite O in V. cbn in V. injection V as <-. exact H. Qed.

Lemma fact_pass_dec (a : fact) d : {a = APassPart d} + {a <> APassPart d}.
Proof. destruct a as [x|x|x|x| |m ma|k]; try (right; discriminate). destruct (Z.eq_dec x d) as [->|N]; [left; reflexivity|right; congruence]. Qed.

Lemma pop_pending d (en : fenv) e q :
  queue en = e :: q -> pending d en ->
  (e_asset e = d /\ e_act e = Some (APassPart d) /\ e_cancelled e = false) \/ pending d (popped fact en e q).
Proof.
  intros Q [e' [A [B [C D]]]]. rewrite Q in D. destruct D as [<-|D]; [left; auto|]. right. exists e'. repeat split; auto.
Qed.

Definition PS (s : fw * fenv) : Prop :=
  f_out (fst s) = [] /\ EnvInv.Inv fact (snd s) /\ P (fun _ => False) (fst s) (snd s).

Theorem step_PS sc s s' : PS s -> step ws (exec_fl sc) fl_wfail s = Some (Ok s') -> PS s'.
Proof.
  destruct s as [w en]. intros [O [I H]] ST. cbn [fst snd] in *. unfold step in ST.
  destruct (queue en) as [|e q] eqn:Q; [discriminate|].
  pose proof (pop_inv fact en e q I Q) as I1. unfold popped in I1.
  set (en1 := mkEnv (e_time e) q (paused en) (next_eid en) (terminated en) (e :: dispatched en) (datalog en)) in *.
  assert (POP : forall d, pending d en -> (e_asset e = d /\ e_act e = Some (APassPart d) /\ e_cancelled e = false) \/ pending d en1)
    by (intros d; apply (pop_pending d en e q Q)).
  destruct (e_cancelled e) eqn:CE.
  - injection ST as <-. split; [exact O|]. split; [exact I1|]. intros d NS IH. destruct (POP d (H d NS IH)) as [[_ [_ X]]|X]; [discriminate|exact X].
  - destruct (e_act e) as [a|] eqn:AE.
    + unfold exec_fl in ST.
      set (w1 := exec_fact (fl_fuel w) (fun k => nth k (fq_uops sc) []) a w (e_time e)) in *.
      destruct (flush_f w1) as [w2 cs] eqn:FL.
      destruct (apply_cmds ws en1 cs) as [en2|en2] eqn:AC; [|discriminate].
      destruct (fl_wfail w2) eqn:WF; [discriminate|]. injection ST as <-. cbn [fst snd].
      assert (E2 : w2 = fst (flush_f w1) /\ cs = snd (flush_f w1)) by (rewrite FL; auto). destruct E2 as [-> ->].
      split; [reflexivity|]. split; [pose proof (apply_cmds_inv fact ws (snd (flush_f w1)) en1 I1) as X; rewrite AC in X; exact X|].
      assert (OKF : okf w1 = true) by (unfold fl_wfail in WF; apply negb_false_iff in WF; exact WF).
      apply (P_same_devs _ w1); [reflexivity|].
      assert (LPF : LP (fun _ => False) en1 w1); [|apply (LPF OKF en2 AC)].
      destruct a as [d0|d0|d0|d0| |m ma|k];
        try (apply (RJ_LP (e_time e) _ en1 w _ (RJ_exec_fact (e_time e) _ _ _ w)); apply LP_start; [exact O|];
             intros d NS IH; destruct (POP d (H d NS IH)) as [[_ [X _]]|X]; [discriminate|exact X]).
      (* the action is a hand-over attempt of d0 *)
      unfold w1. cbn [exec_fact]. apply pass_part_fix. apply LP_start; [exact O|].
      intros d NS IH. destruct (POP d (H d (fun X => X) IH)) as [[_ [X _]]|X]; [|exact X].
      exfalso. apply NS. right. congruence.
    + injection ST as <-. split; [exact O|]. split; [apply set_terminated_inv, I1|].
      intros d NS IH. destruct (POP d (H d NS IH)) as [[_ [X _]]|X]; [discriminate|].
      destruct X as [e' X]. exists e'. exact X.
Qed.

Lemma PS_fin (w0 : fw) (en : fenv) (w : fw) s' :
  f_out w0 = [] -> EnvInv.Inv fact en -> P (fun _ => False) w0 en -> RJ (now en) w0 w ->
  (let '(w1, cs) := flush_f w in
   match apply_cmds ws en cs with
   | Ok en' => ((clear_ferr w1, en'), f_err w1)
   | Err en' => ((clear_ferr w1, en'), if f_err w1 =? 0 then 1 else f_err w1)
   end) = (s', 0) -> PS s'.
Proof.
  intros O I H HR. destruct (flush_f w) as [w1 cs] eqn:FL.
  assert (E2 : w1 = fst (flush_f w) /\ cs = snd (flush_f w)) by (rewrite FL; auto). destruct E2 as [-> ->].
  destruct (apply_cmds ws en (snd (flush_f w))) as [en'|en'] eqn:AC.
  - intro E. injection E as <- E0. cbn [fst snd]. split; [reflexivity|].
    split; [pose proof (apply_cmds_inv fact ws (snd (flush_f w)) en I) as X; rewrite AC in X; exact X|].
    apply (P_same_devs _ w); [reflexivity|].
    apply (RJ_LP (now en) _ en w0 w HR (LP_start _ en w0 O H)); [|exact AC].
    unfold okf. cbn in E0. rewrite E0. reflexivity.
  - intro E. injection E as _ E0. st0 E0.
Qed.

End WakeInv.

Section WakeReach.
Variable sc : fl_scn.
Notation wsd := (wgen (fq_seed sc) (fq_mod sc)).

Lemma pristine_not_ready w : wf_worldb w = true -> forall d, ~ need (getd w d).
Proof.
  unfold wf_worldb. intro H. apply andb_true_iff in H. destruct H as [H _]. apply andb_true_iff in H. destruct H as [H _]. apply andb_true_iff in H. destruct H as [PR _].
  rewrite forallb_forall in PR. intros d [RD _]. unfold getd in RD. destruct (aget d (f_devs w)) as [x|] eqn:Hx; [|exact RD].
  apply aget_In in Hx. specialize (PR _ Hx). destruct (pristine_facts _ PR) as [_ [O [_ [_ [_ [_ [_ [B _]]]]]]]].
  unfold ready in RD. cbn [snd] in *. rewrite O, B in RD. destruct (d_kind x); try contradiction; apply RD; reflexivity.
Qed.

Theorem reach_in_PS s : reach_in sc s -> PS s.
Proof.
  induction 1 as [s WF E|s o s' _ IH E|s t k p s' _ IH E|s s' _ IH E|s d en' _ IH E|s d ups s' _ IH E].
  - unfold do_fxop in E. cbn [fst snd] in E.
    set (w0 := fq_world sc) in *. set (w := init_world (fl_fuel w0) (now (init_env (A:=fact))) w0) in *.
    destruct (flush_f w) as [w1 cs] eqn:FL.
    assert (E2 : w1 = fst (flush_f w) /\ cs = snd (flush_f w)) by (rewrite FL; auto). destruct E2 as [-> ->].
    destruct (apply_cmds wsd init_env (snd (flush_f w))) as [en'|en'] eqn:AC.
    + injection E as <- E0. split; [reflexivity|].
      split; [pose proof (apply_cmds_inv fact wsd (snd (flush_f w)) init_env (Inv_init fact)) as X; rewrite AC in X; exact X|].
      cbn [fst snd]. apply (P_same_devs _ w); [reflexivity|].
      assert (L0 : LP wsd (fun _ => False) init_env w0).
      { intros _ en _ d _ IH. exfalso. exact (pristine_not_ready w0 WF d IH). }
      apply (RJ_LP wsd 0 _ init_env w0 w (RJ_init_world 0 (fl_fuel w0) w0) L0); [|exact AC].
      unfold okf. cbn in E0. rewrite E0. reflexivity.
    + injection E as _ E0. st0 E0.
  - destruct IH as [O [I H]]. unfold do_fxop in E.
    apply (PS_fin wsd (fst s) (snd s) (run_uop (fl_fuel (fst s)) (now (snd s)) (fst s) o) s' O I H); [apply RJ_run_uop|exact E].
  - destruct IH as [O [I H]]. unfold do_fxop in E.
    destruct (apply_cmd wsd (snd s) (CSched t p (-5) (AUser k))) as [en'|en'] eqn:AC; [|discriminate].
    injection E as <-. cbn [fst snd]. split; [exact O|].
    split; [pose proof (apply_cmd_inv fact wsd (snd s) _ _ I AC) as X; exact X|].
    eapply P_env; [|exact H]. intros d. apply (pending_quiet wsd d (snd s) (FSched t p (-5) (AUser k))); [exact Logic.I|exact AC].
  - eapply step_PS; eauto.
  - destruct IH as [O [I H]]. cbn [fst snd]. split; [exact O|].
    split; [pose proof (start_run_inv fact wsd (snd s) d I) as X; rewrite E in X; exact X|].
    unfold start_run, schedule in E. cbn in E. destruct (now (snd s) + d <? now (snd s)); [discriminate|]. injection E as <-.
    intros d' NS IH'. destruct (H d' NS IH') as [e' [A [B [C D]]]]. exists e'. repeat split; auto. cbn.
    apply (insort_in fact). right. exact D.
  - destruct IH as [O [I H]]. unfold do_fxop in E.
    apply (PS_fin wsd (fst s) (snd s) (late_create (fl_fuel (fst s)) (now (snd s)) (fst s) d ups) s' O I H); [apply RJ_late_create|exact E].
Qed.

(** * C03: no ready part is forgotten *)
Theorem ready_part_flagged_or_pending s d :
  reach_in sc s -> ready (getd (fst s) d) ->
  exempt (getd (fst s) d) \/ d_waiting_ds (getd (fst s) d) = true \/ pending d (snd s).
Proof.
  intros HR RD. destruct (reach_in_PS s HR) as [_ [_ H]].
  destruct (d_waiting_ds (getd (fst s) d)) eqn:W; [right; left; reflexivity|].
  assert (DEC : exempt (getd (fst s) d) \/ ~ exempt (getd (fst s) d)).
  { unfold exempt. destruct (d_kind (getd (fst s) d)) eqn:K; try (right; intros [[X _]|[X _]]; discriminate).
    - destruct (d_shut (getd (fst s) d)); [left; left; auto|right; intros [[_ X]|[X _]]; discriminate].
    - destruct (exhausted (getd (fst s) d)); [left; right; auto|right; intros [[X _]|[_ X]]; discriminate]. }
  destruct DEC as [X|NX]; [left; exact X|]. right. right. apply H; [intro Y; exact Y|]. split; [exact RD|split; [exact NX|exact W]].
Qed.

End WakeReach.
