(** Maintainer + event queue (C12, life cycle): every order in progress has exactly
    one live START_WORK or FINISH_WORK event; hooks run once per event; the
    maintainer invariant holds after every event, whatever the targets' hooks
    request. *)
From Coq Require Import ZArith List Bool Lia Sorting.Permutation.
From SimVerif Require Import Model.Base Model.Env Model.FamEnv Model.Maint Model.FamMaint.
From SimVerif Require Import Proofs.ListAux Proofs.EnvInv Proofs.MaintInv.
Import ListNotations.
Open Scope Z_scope.

Definition tb_ok (tb : list tentry) : Prop := Forall (fun e => 0 <= t_cap e /\ 0 <= t_dur e) tb.

Lemma find_entry_ok tb t g : tb_ok tb -> 0 <= t_cap (find_entry tb t g) /\ 0 <= t_dur (find_entry tb t g).
Proof.
  intro H. unfold find_entry. destruct (find _ tb) as [e|] eqn:F; [|cbn; lia].
  apply find_some in F. unfold tb_ok in H. rewrite Forall_forall in H. apply H, F.
Qed.

(** the order carried by an event *)
Definition ev_wo (e : event mfact) : list worder :=
  match e_act e with
  | Some (AM (MStart wo)) => [wo]
  | Some (AM (MFinish wo)) => [wo]
  | _ => []
  end.
Definition cmd_wo (c : mcmd) : list worder :=
  match c with MSched _ _ (MStart wo) => [wo] | MSched _ _ (MFinish wo) => [wo] | MData _ _ => [] end.

Definition tocmd (c : mcmd) : cmd mfact :=
  match c with MSched t p a => CSched t p maint_asset (AM a) | MData l d => CData l maint_asset d end.

Section MaintSys.
  Variable tb : list tentry.
  Variable ws : nat -> Z.
  Hypothesis TB : tb_ok tb.

  Lemma apply_mcmds (l : list mcmd) : forall (en en' : env mfact),
    apply_cmds ws en (map tocmd l) = Ok en' ->
    now en' = now en /\ paused en' = paused en /\
    (Forall (fun e => e_cancelled e = false) (queue en) -> Forall (fun e => e_cancelled e = false) (queue en')) /\
    Permutation (flat_map ev_wo (queue en')) (flat_map ev_wo (queue en) ++ flat_map cmd_wo l).
  Proof.
    induction l as [|c l IH]; intros en en' H; cbn in H.
    - injection H as <-. rewrite app_nil_r. auto.
    - destruct c as [t p a|lb d]; cbn in H.
      + unfold schedule in H. destruct (t <? now en); [discriminate|].
        match type of H with apply_cmds _ ?e1 _ = _ => set (en1 := e1) in * end.
        destruct (IH en1 en' H) as [H1 [H2 [HC H3]]]. split; [exact H1|]. split; [exact H2|].
        split.
        { intro F. apply HC. cbn -[insort]. eapply Permutation_Forall; [symmetry; apply insort_perm|]. constructor; [reflexivity|exact F]. }
        rewrite H3. cbn -[insort].
        match goal with |- context[insort ?e (queue en)] => set (ev := e) end.
        assert (P : Permutation (flat_map ev_wo (insort ev (queue en))) (ev_wo ev ++ flat_map ev_wo (queue en))).
        { change (ev_wo ev ++ flat_map ev_wo (queue en)) with (flat_map ev_wo (ev :: queue en)).
          apply perm_flat_map. apply insort_perm. }
        rewrite P. unfold ev_wo at 1. cbn. destruct a as [wo|wo]; cbn; apply Permutation_middle.
      + destruct (IH (add_data en lb maint_asset d) en' H) as [H1 [H2 [HC H3]]]. cbn in *. auto.
  Qed.

  Record SysM (s : mw * env mfact) : Prop := {
    sm_inv : MInv (w_m (fst s));
    sm_out : m_out (w_m (fst s)) = [];
    sm_einv : Inv mfact (snd s);
    sm_nocancel : Forall (fun e => e_cancelled e = false) (queue (snd s));
    sm_live : Permutation (m_active (w_m (fst s))) (flat_map ev_wo (queue (snd s))) }.

  Definition out_wo (m : mst) : list worder := flat_map cmd_wo (m_out m).

  Lemma sel_events nw sel : flat_map cmd_wo (rev (map (fun wo => MSched nw P_START_WORK (MStart wo)) sel)) = rev sel.
  Proof.
    induction sel as [|wo sel IH]; cbn; [reflexivity|]. rewrite flat_map_app, IH. cbn. reflexivity.
  Qed.

  Lemma m_try_live nw m :
    exists sel, m_active (m_try nw m) = m_active m ++ sel /\ Permutation (out_wo (m_try nw m)) (sel ++ out_wo m).
  Proof.
    destruct (m_try_events nw m) as [sel [A [_ O]]]. exists sel. split; [exact A|].
    unfold out_wo. rewrite O, flat_map_app, sel_events. apply Permutation_app_tail. symmetry. apply Permutation_rev.
  Qed.

  Lemma m_create_live nw t g capv info m :
    exists sel, m_active (fst (m_create nw t g capv info m)) = m_active m ++ sel /\
                Permutation (out_wo (fst (m_create nw t g capv info m))) (sel ++ out_wo m).
  Proof.
    unfold m_create. destruct (is_requested m t g); cbn [fst].
    - exists []. rewrite app_nil_r. split; reflexivity.
    - match goal with |- context[m_try nw ?x] => destruct (m_try_live nw x) as [sel [A P]] end.
      exists sel. split; [exact A|exact P].
  Qed.

  Lemma mw_create_live nw t g info w :
    exists sel, m_active (w_m (mw_create tb nw t g info w)) = m_active (w_m w) ++ sel /\
                Permutation (out_wo (w_m (mw_create tb nw t g info w))) (sel ++ out_wo (w_m w)).
  Proof.
    unfold mw_create. destruct (m_create_live nw t g (t_cap (find_entry tb t g)) info (w_m w)) as [sel [A P]].
    destruct (m_create nw t g (t_cap (find_entry tb t g)) info (w_m w)). exists sel. auto.
  Qed.

  Lemma mw_create_inv nw t g info w : MInv (w_m w) -> MInv (w_m (mw_create tb nw t g info w)).
  Proof.
    intro I. unfold mw_create.
    pose proof (m_create_inv nw t g (t_cap (find_entry tb t g)) info (w_m w) I (proj1 (find_entry_ok tb t g TB))) as H.
    destruct (m_create nw t g (t_cap (find_entry tb t g)) info (w_m w)). exact H.
  Qed.

  Lemma fold_create_spec nw reqs : forall w0,
    MInv (w_m w0) ->
    let w' := fold_left (fun w r => mw_create tb nw (fst r) (snd r) 0 w) reqs w0 in
    MInv (w_m w') /\
    exists sel, m_active (w_m w') = m_active (w_m w0) ++ sel /\ Permutation (out_wo (w_m w')) (sel ++ out_wo (w_m w0)).
  Proof.
    induction reqs as [|r reqs IH]; intros w0 I; cbn.
    - split; [exact I|]. exists []. rewrite app_nil_r. split; reflexivity.
    - destruct (IH (mw_create tb nw (fst r) (snd r) 0 w0) (mw_create_inv _ _ _ _ _ I)) as [I2 [sel2 [A2 P2]]].
      split; [exact I2|].
      destruct (mw_create_live nw (fst r) (snd r) 0 w0) as [sel1 [A1 P1]].
      exists (sel1 ++ sel2). split; [rewrite A2, A1, app_assoc; reflexivity|].
      rewrite P2, P1. rewrite !app_assoc. apply Permutation_app_tail. apply Permutation_app_comm.
  Qed.

  Lemma run_hook_spec nw kind t g reqs w :
    MInv (w_m w) ->
    let w' := run_hook tb nw kind t g reqs w in
    MInv (w_m w') /\
    exists sel, m_active (w_m w') = m_active (w_m w) ++ sel /\ Permutation (out_wo (w_m w')) (sel ++ out_wo (w_m w)).
  Proof.
    intro I. unfold run_hook.
    apply (fold_create_spec nw reqs (mkMW (w_m w) ((kind, t, g, nw) :: w_hooks w) (w_results w)) I).
  Qed.

  (** hooks run exactly once per executed event: one log entry, of the right kind *)
  Lemma run_hook_log nw kind t g reqs w :
    w_hooks (run_hook tb nw kind t g reqs w) = (kind, t, g, nw) :: w_hooks w.
  Proof.
    unfold run_hook.
    assert (G : forall w0, w_hooks (fold_left (fun w r => mw_create tb nw (fst r) (snd r) 0 w) reqs w0) = w_hooks w0).
    { induction reqs as [|r reqs IH]; intro w0; cbn; [reflexivity|]. rewrite IH. unfold mw_create.
      destruct (m_create nw (fst r) (snd r) (t_cap (find_entry tb (fst r) (snd r))) 0 (w_m w0)). reflexivity. }
    rewrite G. reflexivity.
  Qed.

  Lemma flush_cmds w : snd (flush_m w) = map tocmd (rev (m_out (w_m w))).
  Proof. reflexivity. Qed.

  Lemma after_flush (w1 : mw) (en1 en2 : env mfact) (base : list worder) :
    MInv (w_m w1) -> Inv mfact en2 ->
    apply_cmds ws en1 (snd (flush_m w1)) = Ok en2 ->
    Forall (fun e => e_cancelled e = false) (queue en1) ->
    Permutation (m_active (w_m w1)) (flat_map ev_wo (queue en1) ++ out_wo (w_m w1)) ->
    SysM (fst (flush_m w1), en2).
  Proof.
    intros I IE AP NC P. rewrite flush_cmds in AP. destruct (apply_mcmds _ _ _ AP) as [_ [_ [HC HP]]].
    split; cbn; auto.
    - destruct I as [[U T IDS FR CN CP] ST]. split; [split|]; assumption.
    - rewrite HP, P. apply Permutation_app_head. unfold out_wo.
      apply perm_flat_map. apply Permutation_rev.
  Qed.

  Theorem step_SysM s s' : SysM s -> step ws (exec_mt tb) (fun _ => false) s = Some (Ok s') -> SysM s'.
  Proof.
    destruct s as [w en]. intros [I OUT IE NC LV] H. cbn [fst snd] in *.
    unfold step in H. destruct (queue en) as [|e q] eqn:Q; [discriminate|].
    pose proof (pop_inv mfact en e q IE Q) as IP. unfold popped in IP.
    set (en1 := mkEnv (e_time e) q (paused en) (next_eid en) (terminated en) (e :: dispatched en) (datalog en)) in *.
    inversion NC as [|? ? NCe NCq]; subst. rewrite NCe in H. cbn [flat_map] in LV.
    assert (OW : out_wo (w_m w) = []) by (unfold out_wo; rewrite OUT; reflexivity).
    destruct (e_act e) as [[[wo|wo]|t g info]|] eqn:EA; unfold ev_wo in LV; rewrite EA in LV; cbn [exec_mt] in H.
    - (* START_WORK *)
      set (ent := find_entry tb (wo_target wo) (wo_tag wo)) in *.
      set (w1 := with_m w (m_start_pre (e_time e) wo (t_cost ent) (w_m w))) in *.
      set (w2 := run_hook tb (e_time e) 0 (wo_target wo) (wo_tag wo) (t_start ent) w1) in *.
      set (w3 := with_m w2 (m_start_post (e_time e) wo (t_dur ent) (w_m w2))) in *.
      destruct (apply_cmds ws en1 (snd (flush_m w3))) as [en2|en2] eqn:AP; [|destruct (flush_m w3); cbn in *; rewrite AP in H; discriminate].
      assert (H' : s' = (fst (flush_m w3), en2)).
      { destruct (flush_m w3) as [wf cs] eqn:FL. cbn in AP. rewrite AP in H. injection H as <-. reflexivity. }
      subst s'.
      assert (I1 : MInv (w_m w1)).
      { cbn. eapply (MCore_frame (w_m w)); try reflexivity; [| | | | |exact I]; unfold m_start_pre, m_add_cost, m_record, m_emit;
          destruct (t_cost ent =? 0); reflexivity. }
      destruct (run_hook_spec (e_time e) 0 (wo_target wo) (wo_tag wo) (t_start ent) w1 I1) as [I2 [sel [A2 P2]]]. fold w2 in I2, A2, P2.
      assert (I3 : MInv (w_m w3)).
      { cbn. eapply (MCore_frame (w_m w2)); try reflexivity. exact I2. }
      assert (IE2 : Inv mfact en2).
      { pose proof (apply_cmds_inv mfact ws (snd (flush_m w3)) en1 IP) as X. rewrite AP in X. exact X. }
      apply (after_flush w3 en1 en2 (m_active (w_m w))); auto.
      cbn [w_m w3 with_m m_start_post m_emit m_active]. unfold out_wo, m_start_post, m_emit. cbn [m_out flat_map cmd_wo app].
      change (flat_map cmd_wo (m_out (w_m w2))) with (out_wo (w_m w2)).
      rewrite A2, P2.
      assert (OW1 : out_wo (w_m w1) = []).
      { unfold out_wo, w1. cbn. unfold m_start_pre, m_add_cost, m_record, m_emit. destruct (t_cost ent =? 0); cbn; rewrite OUT; reflexivity. }
      rewrite OW1, app_nil_r.
      assert (A1 : m_active (w_m w1) = m_active (w_m w)).
      { unfold w1. cbn. unfold m_start_pre, m_add_cost, m_record, m_emit. destruct (t_cost ent =? 0); reflexivity. }
      rewrite A1, LV. cbn. apply Permutation_middle.
    - (* FINISH_WORK *)
      set (ent := find_entry tb (wo_target wo) (wo_tag wo)) in *.
      set (w1 := run_hook tb (e_time e) 1 (wo_target wo) (wo_tag wo) (t_end ent) w) in *.
      set (w3 := with_m w1 (m_finish_post (e_time e) wo (w_m w1))) in *.
      destruct (apply_cmds ws en1 (snd (flush_m w3))) as [en2|en2] eqn:AP; [|destruct (flush_m w3); cbn in *; rewrite AP in H; discriminate].
      assert (H' : s' = (fst (flush_m w3), en2)).
      { destruct (flush_m w3) as [wf cs] eqn:FL. cbn in AP. rewrite AP in H. injection H as <-. reflexivity. }
      subst s'.
      destruct (run_hook_spec (e_time e) 1 (wo_target wo) (wo_tag wo) (t_end ent) w I) as [I1 [sel1 [A1 P1]]]. fold w1 in I1, A1, P1.
      assert (Hin : In wo (m_active (w_m w1))).
      { rewrite A1. apply in_or_app. left. eapply Permutation_in; [symmetry; exact LV|]. left. reflexivity. }
      assert (I3 : MInv (w_m w3)) by (cbn; apply m_finish_inv; assumption).
      assert (IE2 : Inv mfact en2).
      { pose proof (apply_cmds_inv mfact ws (snd (flush_m w3)) en1 IP) as X. rewrite AP in X. exact X. }
      apply (after_flush w3 en1 en2 (m_active (w_m w))); auto.
      (* the order leaves the active list; the re-scan adds sel2 with their START events *)
      cbn [w_m w3 with_m]. unfold m_finish_post.
      match goal with |- context[m_try (e_time e) ?x] => set (mx := x); destruct (m_try_live (e_time e) mx) as [sel2 [A3 P3]] end.
      rewrite A3, P3.
      assert (NDa : NoDup (map wo_id (m_active (w_m w1)))).
      { destruct I1 as [[_ _ IDS _ _ _] _]. rewrite map_app in IDS. apply NoDup_app_swap in IDS. clear - IDS.
        induction (map wo_id (m_active (w_m w1))) as [|x l IHl]; [constructor|]. cbn in IDS. inversion IDS; subst.
        constructor; [intro Hx; apply H1; apply in_or_app; auto|auto]. }
      destruct (remove_wo_spec (wo_id wo) (m_active (w_m w1)) NDa wo Hin eq_refl) as [PR _].
      assert (AX : m_active mx = remove_wo (wo_id wo) (m_active (w_m w1))) by reflexivity.
      assert (OX : out_wo mx = out_wo (w_m w1)) by reflexivity.
      rewrite AX, OX, P1, OW, app_nil_r.
      (* active(w1) = wo :: removed ; active(w1) = active(w) ++ sel1 ; active(w) ~ wo :: rest *)
      assert (PX : Permutation (wo :: remove_wo (wo_id wo) (m_active (w_m w1))) (wo :: (flat_map ev_wo q ++ sel1))).
      { rewrite <- PR, A1, LV. reflexivity. }
      apply Permutation_cons_inv in PX. rewrite PX. rewrite <- !app_assoc. apply Permutation_app_head. apply Permutation_app_comm.
    - (* a deferred create_work_order *)
      set (w3 := mw_create tb (e_time e) t g info w) in *.
      destruct (apply_cmds ws en1 (snd (flush_m w3))) as [en2|en2] eqn:AP; [|destruct (flush_m w3); cbn in *; rewrite AP in H; discriminate].
      assert (H' : s' = (fst (flush_m w3), en2)).
      { destruct (flush_m w3) as [wf cs] eqn:FL. cbn in AP. rewrite AP in H. injection H as <-. reflexivity. }
      subst s'.
      assert (I3 : MInv (w_m w3)) by (apply mw_create_inv, I).
      assert (IE2 : Inv mfact en2).
      { pose proof (apply_cmds_inv mfact ws (snd (flush_m w3)) en1 IP) as X. rewrite AP in X. exact X. }
      apply (after_flush w3 en1 en2 (m_active (w_m w))); auto.
      destruct (mw_create_live (e_time e) t g info w) as [sel [A P]]. fold w3 in A, P.
      rewrite A, P, OW, app_nil_r, LV. cbn. reflexivity.
    - (* terminate *)
      injection H as <-. split; cbn; auto. apply set_terminated_inv, IP.
  Qed.
End MaintSys.
