(** The factory floor inside the event system: per-device invariants hold in every state reached
    by initialisation, executed events (whatever the tie-break weights), and calls made between
    events. *)
From Coq Require Import ZArith List Bool Lia.
From RecordUpdate Require Import RecordUpdate.
From SimVerif Require Import Model.Base Model.Env Model.FamEnv Model.RM Model.Maint Model.FloorTypes Model.Floor Model.FamFloor.
From SimVerif Require Import Proofs.EnvInv Proofs.FloorSteps Proofs.FloorInv.
Import ListNotations.
Open Scope Z_scope.

Section FloorSys.
  Variable sc : fl_scn.
  Variable ws : nat -> Z.
  Variable P : dev -> Prop.
  Hypothesis P_stable : forall nw, stable nw P.

  Lemma flush_devs w : f_devs (fst (flush_f w)) = f_devs w.
  Proof. reflexivity. Qed.

  Lemma DevInv_same_devs w w' : f_devs w' = f_devs w -> DevInv P w -> DevInv P w'.
  Proof. intros E I d x H. rewrite E in H. apply (I d x H). Qed.

  (** one executed event (or a cancelled one, or the end-of-run marker) *)
  Theorem step_DevInv s r :
    DevInv P (fst s) -> step ws (exec_fl sc) fl_wfail s = Some r -> DevInv P (fst (res_val r)).
  Proof.
    destruct s as [w en]. cbn [fst]. intros I H. unfold step in H.
    destruct (queue en) as [|e q]; [discriminate|].
    destruct (e_cancelled e); [injection H as <-; exact I|].
    destruct (e_act e) as [a|]; [|injection H as <-; exact I].
    unfold exec_fl in H.
    set (w1 := exec_fact (fl_fuel w) (fun k => nth k (fq_uops sc) []) a w (e_time e)) in *.
    assert (I1 : DevInv P w1) by (apply exec_DevInv; [apply P_stable|exact I]).
    destruct (flush_f w1) as [w2 cs] eqn:FL.
    assert (E2 : f_devs w2 = f_devs w1) by (pose proof (flush_devs w1) as X; rewrite FL in X; exact X).
    destruct (apply_cmds ws _ cs); [destruct (fl_wfail w2)|]; injection H as <-; cbn; eapply DevInv_same_devs; eauto.
  Qed.

  (** a call made between events *)
  Theorem uop_DevInv fuel nw w o : DevInv P w -> DevInv P (run_uop fuel nw w o).
  Proof. intro I. eapply (R_DevInv MNeutral); [apply (P_stable nw)|apply R_run_uop|exact I]. Qed.

  (** System initialisation (resource manager first, then every asset in creation order) *)
  Hypothesis P_init_restore : forall nw x, P x -> d_shut x = false -> P (x <| d_last_restore := Some nw |>).
  Hypothesis P_not_shut : forall x, P x -> d_kind x = KProcessor -> d_last_restore x <> None -> d_shut x = false.

  Lemma init_dev_DevInv fuel nw w d :
    DevInv P w -> (forall x, aget d (f_devs w) = Some x -> d_kind x = KProcessor -> d_last_restore x <> None) ->
    DevInv P (init_dev fuel nw w d).
  Proof.
    intros I LR. unfold init_dev. set (x := getd w d). destruct (is_holder (d_kind x)) eqn:HK; [|exact I].
    set (w1 := updd w d (fun y => dev_set_wait nw true true y)).
    assert (I1 : DevInv P w1).
    { eapply (R_DevInv MNeutral); [apply (P_stable nw)| |exact I]. apply (R_dev nw MNeutral w d _ _ (dp_set_wait nw true true)); [kr|kn|ko|exact Logic.I]. }
    destruct (d_kind x) eqn:K; try exact I1.
    - (* processor: the uptime clock starts *)
      intros d' y Hy. unfold updd, setd in Hy. cbn in Hy. apply aget_arepl_some in Hy.
      destruct Hy as [[-> [-> M]]|Hy]; [|apply (I1 d' y Hy)].
      apply amem_some in M. destruct M as [z Hz]. rewrite (getd_some w1 d z Hz).
      assert (Pz : P z) by apply (I1 d z Hz).
      apply P_init_restore; [exact Pz|].
      (* z is x with the idle clock started: same kind, same last_restore *)
      unfold w1, updd, setd in Hz. cbn in Hz. rewrite aget_arepl in Hz. rewrite Z.eqb_refl in Hz. cbn in Hz.
      destruct (amem d (f_devs w)) eqn:M; [|unfold getd in *; unfold amem in M; destruct (aget d (f_devs w)); [discriminate|discriminate]].
      injection Hz as <-. apply amem_some in M. destruct M as [x0 Hx0]. fold x.
      assert (x = x0) by (unfold x; apply getd_some, Hx0). subst x0.
      apply P_not_shut.
      + apply (I1 d). unfold w1, updd, setd. cbn. rewrite aget_arepl, Z.eqb_refl. cbn. unfold amem. rewrite Hx0. reflexivity.
      + unfold dev_set_wait. cbn. destruct (d_wait_since x); exact K.
      + unfold dev_set_wait. cbn. destruct (d_wait_since x); apply (LR x Hx0 K).
    - (* source: the first cycle starts *)
      eapply (R_DevInv MNeutral); [apply (P_stable nw)|apply R_sched_finish|exact I1].
  Qed.
End FloorSys.
