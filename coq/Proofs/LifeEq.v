(** Late creation = early creation, operation for operation, whenever the registration call is the
    last thing with an effect that the creation of an object does. *)
From Coq Require Import String List Bool Arith.
From SimVerif Require Import Model.Life.
Import ListNotations.
Open Scope string_scope.
Open Scope list_scope.

Lemma effects_app a b : effects (a ++ b) = effects a ++ effects b.
Proof. unfold effects. apply filter_app. Qed.

Lemma split_reg_spec l a b : split_reg l = Some (a, b) -> l = a ++ "REG" :: b /\ mem "REG" a = false.
Proof.
  revert a b. induction l as [|x l IH]; intros a b H; cbn in H; [discriminate|].
  destruct (x =? "REG") eqn:E.
  - injection H as <- <-. apply String.eqb_eq in E. subst x. split; reflexivity.
  - destruct (split_reg l) as [[a' b']|]; [|discriminate]. injection H as <- <-.
    destruct (IH a' b' eq_refl) as [-> M]. split; [reflexivity|]. cbn [mem]. rewrite String.eqb_sym, E. exact M.
Qed.

Lemma subst_reg_none onreg l : mem "REG" l = false -> subst_reg onreg l = l.
Proof.
  induction l as [|x l IH]; intro M; cbn [mem subst_reg flat_map] in *; [reflexivity|].
  apply orb_false_iff in M. destruct M as [M1 M2]. rewrite String.eqb_sym in M1. rewrite M1. cbn [app]. fold (subst_reg onreg l). rewrite IH by exact M2. reflexivity.
Qed.

Lemma subst_reg_app onreg a b : subst_reg onreg (a ++ b) = subst_reg onreg a ++ subst_reg onreg b.
Proof. unfold subst_reg. apply flat_map_app. Qed.

Lemma effectful_reg : effectful "REG" = false.
Proof. vm_compute. reflexivity. Qed.

Lemma effects_cons_reg l : effects ("REG" :: l) = effects l.
Proof. unfold effects. cbn [filter]. rewrite effectful_reg. reflexivity. Qed.

Lemma subst_reg_single onreg : subst_reg onreg ["REG"] = onreg.
Proof. unfold subst_reg. cbn [flat_map]. rewrite String.eqb_refl. apply app_nil_r. Qed.

Theorem late_eq_early tbl meta c :
  late_safe tbl meta c = true -> effects (late tbl meta c) = effects (early tbl meta c).
Proof.
  unfold late_safe, late, early. destruct (split_reg (raw_create tbl meta c)) as [[pre suf]|] eqn:S; [|discriminate].
  intro H. apply andb_true_iff in H. destruct H as [NR ES]. apply negb_true_iff in NR.
  destruct (effects suf) eqn:EF; [|discriminate].
  destruct (split_reg_spec _ _ _ S) as [E NP]. rewrite E. clear E S ES.
  change (pre ++ "REG" :: suf) with (pre ++ (["REG"] ++ suf)).
  rewrite !subst_reg_app. rewrite !(subst_reg_none _ pre NP). rewrite !(subst_reg_none _ suf NR).
  rewrite !subst_reg_single.
  rewrite !effects_app. rewrite EF.
  rewrite (effects_cons_reg (init_ops tbl c)). rewrite (effects_cons_reg []).
  unfold effects at 3. cbn [filter]. rewrite !app_nil_r. reflexivity.
Qed.

Theorem all_late_safe_spec tbl meta :
  all_late_safe tbl meta = true ->
  forall r, In r tbl -> is_asset tbl r = true -> effects (late tbl meta (c_name r)) = effects (early tbl meta (c_name r)).
Proof.
  unfold all_late_safe. intros H r Hin A. rewrite forallb_forall in H. specialize (H r Hin). apply orb_true_iff in H. destruct H as [H|H]; [rewrite A in H; discriminate|].
  apply late_eq_early, H.
Qed.
