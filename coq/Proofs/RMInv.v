(** Resource manager: the pool invariant and the per-operation specifications
    (C09), for every sequence of operations, including those performed by
    callbacks during an availability check. *)
From Coq Require Import ZArith List Bool Lia.
From SimVerif Require Import Model.Base Model.Env Model.RM.
Import ListNotations.
Open Scope Z_scope.

(** amount of resource [m] in a request / reservation dictionary *)
Fixpoint sumreq (r : req) (m : Z) : Z :=
  match r with
  | [] => 0
  | (n, a) :: r' => (if n =? m then a else 0) + sumreq r' m
  end.

Definition held_sum (res : list req) (m : Z) : Z := fold_right (fun r acc => sumreq r m + acc) 0 res.

Definition nonneg (r : req) : Prop := Forall (fun na => 0 <= snd na) r.
Definition in_pools (p : pools) (r : req) : Prop := Forall (fun na => amem (fst na) p = true) r.

(** * association-list lemmas *)
Lemma aget_aset_same {V} k (v : V) m : aget k (aset k v m) = Some v.
Proof.
  induction m as [|[k' v'] m IH]; cbn; [rewrite Z.eqb_refl; reflexivity|].
  destruct (k =? k') eqn:E; cbn; rewrite E; auto.
Qed.

Lemma aget_aset_other {V} k k' (v : V) m : k' <> k -> aget k' (aset k v m) = aget k' m.
Proof.
  intro N. induction m as [|[k2 v2] m IH]; cbn.
  - destruct (Z.eqb_spec k' k); [contradiction|reflexivity].
  - destruct (k =? k2) eqn:E; cbn.
    + apply Z.eqb_eq in E. subst k2. destruct (Z.eqb_spec k' k); [contradiction|reflexivity].
    + destruct (k' =? k2); auto.
Qed.

Lemma amem_aset {V} k k' (v : V) m : amem k' m = true -> amem k' (aset k v m) = true.
Proof.
  unfold amem. destruct (Z.eq_dec k' k) as [->|N].
  - rewrite aget_aset_same. reflexivity.
  - rewrite aget_aset_other by assumption. auto.
Qed.

Lemma amem_aset_same {V} k (v : V) m : amem k (aset k v m) = true.
Proof. unfold amem. rewrite aget_aset_same. reflexivity. Qed.

Lemma usage_aset p n u c m : usage (aset n (u, c) p) m = if m =? n then u else usage p m.
Proof.
  unfold usage. destruct (Z.eqb_spec m n) as [E0|N]; [subst m|].
  - rewrite aget_aset_same. reflexivity.
  - rewrite aget_aset_other by assumption. reflexivity.
Qed.

Lemma capacity_aset p n u c m : capacity (aset n (u, c) p) m = if m =? n then c else capacity p m.
Proof.
  unfold capacity. destruct (Z.eqb_spec m n) as [E0|N]; [subst m|].
  - rewrite aget_aset_same. reflexivity.
  - rewrite aget_aset_other by assumption. reflexivity.
Qed.

Lemma sumreq_aset r n v m :
  sumreq (aset n v r) m =
  if m =? n then sumreq r n - (match aget n r with Some h => h | None => 0 end) + v else sumreq r m.
Proof.
  induction r as [|[k a] r IH]; cbn.
  - destruct (Z.eqb_spec m n) as [E0|N]; [subst m; rewrite Z.eqb_refl; lia|].
    destruct (Z.eqb_spec n m); [congruence|lia].
  - destruct (n =? k) eqn:E; cbn.
    + apply Z.eqb_eq in E. subst k. destruct (Z.eqb_spec m n) as [E0|N]; [subst m|].
      * rewrite Z.eqb_refl. lia.
      * destruct (Z.eqb_spec n m); [congruence|lia].
    + rewrite IH. destruct (Z.eqb_spec m n) as [E0|N]; [subst m|].
      * apply Z.eqb_neq in E. destruct (Z.eqb_spec k n); [congruence|]. lia.
      * reflexivity.
Qed.

Lemma sumreq_adel_zero r n m : aget n r = Some 0 -> sumreq (adel n r) m = sumreq r m.
Proof.
  induction r as [|[k a] r IH]; cbn; [discriminate|].
  destruct (n =? k) eqn:E.
  - intro H. injection H as ->. apply Z.eqb_eq in E. subst k. destruct (n =? m); lia.
  - intro H. cbn. rewrite IH by assumption. reflexivity.
Qed.

Lemma aget_adel_other {V} n k (r : list (Z * V)) : k <> n -> aget k (adel n r) = aget k r.
Proof.
  intro N. induction r as [|[k2 a] r IH]; cbn; [reflexivity|].
  destruct (n =? k2) eqn:E; cbn.
  - apply Z.eqb_eq in E. subst k2. destruct (Z.eqb_spec k n); [contradiction|reflexivity].
  - destruct (k =? k2); auto.
Qed.

Lemma sumreq_app r1 r2 m : sumreq (r1 ++ r2) m = sumreq r1 m + sumreq r2 m.
Proof. induction r1 as [|[k a] r1 IH]; cbn; [reflexivity|]. rewrite IH. lia. Qed.

Lemma sumreq_nonneg r m : nonneg r -> 0 <= sumreq r m.
Proof.
  induction 1 as [|[k a] r H F IH]; cbn in *; [lia|]. destruct (k =? m); lia.
Qed.

Lemma sumreq_positive_part r m : nonneg r -> sumreq (positive_part r) m = sumreq r m.
Proof.
  unfold positive_part. induction 1 as [|[k a] r H F IH]; cbn in *; [reflexivity|].
  destruct (0 <? a) eqn:E; cbn; rewrite IH; [reflexivity|].
  apply Z.ltb_ge in E. assert (a = 0) by lia. subst. destruct (k =? m); reflexivity.
Qed.

Lemma held_sum_app res x m : held_sum (res ++ [x]) m = held_sum res m + sumreq x m.
Proof. unfold held_sum. induction res as [|r res IH]; cbn; [lia|]. rewrite IH. lia. Qed.

Lemma set_nth_length {X} i (x : X) l : (i < length l)%nat -> length (set_nth i x l) = length l.
Proof.
  unfold set_nth. revert l. induction i as [|i IH]; intros [|y l] H; cbn in *; try lia.
  specialize (IH l). rewrite IH by lia. reflexivity.
Qed.

Lemma set_nth_out {X} i (x : X) l : (length l <= i)%nat -> set_nth i x l = l.
Proof.
  unfold set_nth. intro H. rewrite skipn_all2 by assumption. rewrite firstn_all2 by assumption. apply app_nil_r.
Qed.

Lemma held_sum_set_nth res i x m :
  (i < length res)%nat ->
  held_sum (set_nth i x res) m = held_sum res m - sumreq (nth i res []) m + sumreq x m.
Proof.
  unfold set_nth, held_sum. revert res. induction i as [|i IH]; intros [|r res] H; cbn in *; try lia.
  rewrite IH by lia. lia.
Qed.

Lemma nth_set_nth_same {X} i (x d : X) l : (i < length l)%nat -> nth i (set_nth i x l) d = x.
Proof.
  unfold set_nth. revert l. induction i as [|i IH]; intros [|y l] H; cbn in *; try lia; [reflexivity|].
  apply IH. lia.
Qed.

Lemma nth_set_nth_other {X} i j (x d : X) l : i <> j -> nth j (set_nth i x l) d = nth j l d.
Proof.
  unfold set_nth. revert j l. induction i as [|i IH]; intros j [|y l] N; cbn.
  - destruct j; reflexivity.
  - destruct j; [congruence|reflexivity].
  - destruct j; reflexivity.
  - destruct j; [reflexivity|]. apply IH. congruence.
Qed.

Lemma Forall_set_nth {X} (P : X -> Prop) i x l : Forall P l -> P x -> Forall P (set_nth i x l).
Proof.
  unfold set_nth. intros F Hx. apply Forall_app. split.
  - apply Forall_forall. intros y Hy. rewrite Forall_forall in F. apply F.
    rewrite <- (firstn_skipn i l). apply in_or_app. left. exact Hy.
  - destruct (skipn i l) eqn:E; [constructor|]. constructor; [exact Hx|].
    apply Forall_forall. intros y Hy. rewrite Forall_forall in F. apply F.
    rewrite <- (firstn_skipn i l). apply in_or_app. right. rewrite E. right. exact Hy.
Qed.

(** * The invariant *)
Arguments held_sum : simpl never.
Arguments usage : simpl never.
Arguments capacity : simpl never.

Record RInv (s : rs) : Prop := {
  ri_usage : forall m, usage (r_pools s) m = held_sum (r_res s) m;
  ri_cap : forall m, 0 <= capacity (r_pools s) m;
  ri_res : Forall (fun r => nonneg r /\ in_pools (r_pools s) r) (r_res s);
  ri_slots : forall k i, aget k (r_slots s) = Some (Some i) -> (i < length (r_res s))%nat;
  ri_inj : forall k k' i, aget k (r_slots s) = Some (Some i) -> aget k' (r_slots s) = Some (Some i) -> k = k' }.

Lemma RInv_init : RInv init_rs.
Proof. split; cbn; try constructor; try discriminate; intros; try lia; discriminate. Qed.

(** usage is never negative *)
Lemma held_sum_nonneg res m : Forall nonneg res -> 0 <= held_sum res m.
Proof.
  unfold held_sum. induction 1 as [|r res H F IH]; cbn; [lia|].
  pose proof (sumreq_nonneg r m H). lia.
Qed.

Theorem RInv_usage_nonneg s m : RInv s -> 0 <= usage (r_pools s) m.
Proof.
  intros [U _ R _ _]. rewrite U. apply held_sum_nonneg.
  eapply Forall_impl; [|exact R]. cbn. tauto.
Qed.

(** "frame": fields other than r_out / r_err *)
Definition same_core (s s' : rs) : Prop :=
  r_pools s' = r_pools s /\ r_wait s' = r_wait s /\ r_res s' = r_res s /\ r_slots s' = r_slots s /\
  r_cblog s' = r_cblog s /\ r_env s' = r_env s.

Lemma same_core_refl s : same_core s s. Proof. repeat split. Qed.
Lemma same_core_trans a b c : same_core a b -> same_core b c -> same_core a c.
Proof. unfold same_core. intuition congruence. Qed.
Lemma same_core_RInv s s' : same_core s s' -> RInv s -> RInv s'.
Proof.
  intros [P [_ [R [S _]]]] [U C F SL IJ]. split; rewrite ?P, ?R, ?S; auto.
Qed.
Lemma same_core_emit s c : same_core s (emit s c). Proof. repeat split. Qed.
Lemma same_core_fail s e : same_core s (fail s e). Proof. repeat split. Qed.
Lemma same_core_record nw n s : same_core s (record nw n s). Proof. repeat split. Qed.
Lemma same_core_sched nw s : same_core s (sched_check nw s). Proof. repeat split. Qed.

Lemma in_pools_aset p n v r : in_pools p r -> in_pools (aset n v p) r.
Proof. unfold in_pools. intro F. eapply Forall_impl; [|exact F]. cbn. intros a H. apply amem_aset, H. Qed.

(** * add_resources *)
Lemma add_resources_spec nw n a s :
  RInv s -> r_err s = 0 ->
  let s' := add_resources nw n a s in
  RInv s' /\
  (r_err s' <> 0 -> same_core s s') /\
  (r_err s' = 0 -> (forall m, usage (r_pools s') m = usage (r_pools s) m) /\
                   (forall m, capacity (r_pools s') m = if m =? n then capacity (r_pools s) n + a else capacity (r_pools s) m) /\
                   r_res s' = r_res s /\ r_slots s' = r_slots s /\ r_wait s' = r_wait s).
Proof.
  intros I E0. pose proof I as [U C F SL IJ]. unfold add_resources.
  destruct (Z.eqb_spec a 0) as [->|Na].
  { cbn. split; [exact I|]. split; [intros; apply same_core_refl|]. intros _. repeat split.
    intro m. destruct (m =? n) eqn:E; [apply Z.eqb_eq in E; subst; lia|reflexivity]. }
  destruct (aget n (r_pools s)) as [[u c]|] eqn:G.
  - destruct ((a <? 0) && (c + a <? 0)) eqn:B.
    + cbn. split; [eapply same_core_RInv; [apply same_core_fail|exact I]|].
      split; [intros _; apply same_core_fail|]. cbn. unfold E_VALUE. lia.
    + assert (Hc : 0 <= c + a).
      { specialize (C n). unfold capacity in C. rewrite G in C.
        destruct (Z.ltb_spec a 0); destruct (Z.ltb_spec (c + a) 0); cbn in B; try discriminate; lia. }
      set (s1 := set_pools s (aset n (u, c + a) (r_pools s))).
      assert (E1 : r_err s1 = 0) by exact E0.
      assert (U1 : forall m, usage (r_pools s1) m = usage (r_pools s) m).
      { intro m. cbn. rewrite usage_aset. destruct (Z.eqb_spec m n) as [->|]; [|reflexivity].
        unfold usage. rewrite G. reflexivity. }
      assert (C1 : forall m, capacity (r_pools s1) m = if m =? n then capacity (r_pools s) n + a else capacity (r_pools s) m).
      { intro m. cbn. rewrite capacity_aset. destruct (Z.eqb_spec m n) as [->|]; [|reflexivity].
        unfold capacity. rewrite G. reflexivity. }
      assert (I1 : RInv s1).
      { split; cbn.
        - intro m. rewrite <- U. apply U1.
        - intro m. specialize (C1 m). cbn in C1. rewrite C1. destruct (m =? n); [|apply C].
          unfold capacity. rewrite G. exact Hc.
        - eapply Forall_impl; [|exact F]. cbn. intros r [H1 H2]. split; [exact H1|apply in_pools_aset, H2].
        - exact SL.
        - exact IJ. }
      rewrite E1. cbn [negb Z.eqb].
      destruct (r_env s1).
      * split; [eapply same_core_RInv; [|exact I1]; eapply same_core_trans; [apply same_core_record|apply same_core_sched]|].
        split; [cbn; intro H; exfalso; apply H; exact E0|]. intros _. cbn. repeat split; auto.
      * split; [exact I1|]. split; [intro H; exfalso; apply H; exact E0|]. intros _. repeat split; auto.
  - destruct (Z.ltb_spec a 0) as [Hn|Hp].
    + cbn. split; [eapply same_core_RInv; [apply same_core_fail|exact I]|].
      split; [intros _; apply same_core_fail|]. cbn. unfold E_VALUE. lia.
    + set (s1 := set_pools s (aset n (0, a) (r_pools s))).
      assert (E1 : r_err s1 = 0) by exact E0.
      assert (U1 : forall m, usage (r_pools s1) m = usage (r_pools s) m).
      { intro m. cbn. rewrite usage_aset. destruct (Z.eqb_spec m n) as [->|]; [|reflexivity].
        unfold usage. rewrite G. reflexivity. }
      assert (C1 : forall m, capacity (r_pools s1) m = if m =? n then capacity (r_pools s) n + a else capacity (r_pools s) m).
      { intro m. cbn. rewrite capacity_aset. destruct (Z.eqb_spec m n) as [->|]; [|reflexivity].
        unfold capacity. rewrite G. lia. }
      assert (I1 : RInv s1).
      { split; cbn.
        - intro m. rewrite <- U. apply U1.
        - intro m. specialize (C1 m). cbn in C1. rewrite C1. destruct (m =? n); [|apply C].
          unfold capacity. rewrite G. lia.
        - eapply Forall_impl; [|exact F]. cbn. intros r [H1 H2]. split; [exact H1|apply in_pools_aset, H2].
        - exact SL.
        - exact IJ. }
      rewrite E1. cbn [negb Z.eqb].
      destruct (r_env s1).
      * split; [eapply same_core_RInv; [|exact I1]; eapply same_core_trans; [apply same_core_record|apply same_core_sched]|].
        split; [cbn; intro H; exfalso; apply H; exact E0|]. intros _. cbn. repeat split; auto.
      * split; [exact I1|]. split; [intro H; exfalso; apply H; exact E0|]. intros _. repeat split; auto.
Qed.

(** * reserve_resources *)
Definition known_nz (p : pools) (r : req) : Prop :=
  Forall (fun na => snd na <> 0 -> amem (fst na) p = true) r.

Lemma known_nz_aset p n v r : known_nz p r -> known_nz (aset n v p) r.
Proof. unfold known_nz. intro F. eapply Forall_impl; [|exact F]. cbn. intros a H N. apply amem_aset, H, N. Qed.

(** what "the whole request fits" means *)
Definition fits (p : pools) (r : req) : Prop :=
  Forall (fun na => snd na = 0 \/ (amem (fst na) p = true /\ snd na <= capacity p (fst na) - usage p (fst na))) r.

Lemma can_fulfill_iff p r : can_fulfill p r = true <-> fits p r.
Proof.
  unfold fits. induction r as [|[n a] r IH]; cbn; [split; auto|].
  destruct (Z.eqb_spec a 0) as [->|Na].
  - rewrite IH. split; [intro H; constructor; auto|intro H; inversion H; auto].
  - unfold amem, capacity, usage. destruct (aget n p) as [[u c]|] eqn:G.
    + destruct (Z.ltb_spec (c - u) a) as [Hlt|Hge].
      * split; [discriminate|]. intro Hf. inversion Hf as [|? ? [H1|[_ H1]] _]; subst; cbn in H1; [lia|rewrite G in H1; lia].
      * rewrite IH. split; [intro H'; constructor; [right; cbn; rewrite G; split; [reflexivity|lia]|auto]|intro H'; inversion H'; auto].
    + split; [discriminate|]. intro Hf. inversion Hf as [|? ? [H1|[H1 _]] _]; subst; cbn in H1; [lia|rewrite G in H1; discriminate].
Qed.

Lemma fits_known p r : fits p r -> known_nz p r.
Proof. unfold fits, known_nz. intro F. eapply Forall_impl; [|exact F]. cbn. intros a [H|[H _]] N; [contradiction|exact H]. Qed.

Lemma has_negative_false r : has_negative r = false -> nonneg r.
Proof.
  unfold has_negative, nonneg. induction r as [|[n a] r IH]; cbn; [constructor|].
  destruct (Z.ltb_spec a 0) as [Hn|Hp]; cbn; [discriminate|]. intro Hx. constructor; [cbn; lia|auto].
Qed.

Lemma has_negative_true r : has_negative r = true -> ~ nonneg r.
Proof.
  unfold has_negative, nonneg. induction r as [|[n a] r IH]; cbn; [discriminate|].
  destruct (Z.ltb_spec a 0) as [Hn|Hp]; cbn.
  - intros _ H'. inversion H'; subst; cbn in *; lia.
  - intros H' F. inversion F as [|? ? _ F']; subst. exact (IH H' F').
Qed.

Lemma known_positive_part p r : nonneg r -> known_nz p (positive_part r) -> known_nz p r.
Proof.
  unfold known_nz, positive_part, nonneg. induction 1 as [|[n a] r H F IH]; cbn in *; [constructor|].
  destruct (Z.ltb_spec 0 a) as [Hp|Hn].
  - intro K. inversion K; subst. constructor; auto.
  - intro K. constructor; [cbn; lia|auto].
Qed.

Lemma positive_part_nonneg r : nonneg (positive_part r).
Proof.
  unfold positive_part, nonneg. induction r as [|[n a] r IH]; cbn; [constructor|].
  destruct (Z.ltb_spec 0 a) as [Hp|Hn]; [constructor; [cbn; lia|exact IH]|exact IH].
Qed.

Lemma known_in_pools p r : Forall (fun na => 0 < snd na) r -> known_nz p r -> in_pools p r.
Proof.
  unfold known_nz, in_pools. induction 1 as [|[n a] r H F IH]; intro K; [constructor|].
  inversion K; subst. constructor; [cbn in *; apply H2; lia|auto].
Qed.

Lemma positive_part_pos r : Forall (fun na => 0 < snd na) (positive_part r).
Proof.
  unfold positive_part. induction r as [|[n a] r IH]; cbn; [constructor|].
  destruct (Z.ltb_spec 0 a) as [Hp|Hn]; [constructor; [cbn; lia|exact IH]|exact IH].
Qed.

Definition pools_grow (p p' : pools) : Prop := forall k, amem k p = true -> amem k p' = true.

Lemma take_spec nw r : forall s,
  r_err s = 0 -> known_nz (r_pools s) r ->
  let s' := take nw r s in
  r_err s' = 0 /\
  (forall m, usage (r_pools s') m = usage (r_pools s) m + sumreq r m) /\
  (forall m, capacity (r_pools s') m = capacity (r_pools s) m) /\
  pools_grow (r_pools s) (r_pools s') /\
  r_wait s' = r_wait s /\ r_res s' = r_res s /\ r_slots s' = r_slots s /\ r_cblog s' = r_cblog s /\ r_env s' = r_env s.
Proof.
  induction r as [|[n a] r IH]; intros s E K; cbn.
  - repeat split; auto; try (intro; lia). intros k H; exact H.
  - inversion K as [|? ? Kn K']; subst. cbn in Kn.
    destruct (Z.eqb_spec a 0) as [->|Na].
    + destruct (IH s E K') as [H1 [H2 H3]]. split; [exact H1|]. split; [|exact H3].
      intro m. rewrite H2. destruct (n =? m); lia.
    + specialize (Kn Na). unfold amem in Kn. destruct (aget n (r_pools s)) as [[u c]|] eqn:G; [|discriminate].
      set (s1 := record nw n (set_pools s (aset n (u + a, c) (r_pools s)))).
      assert (E1 : r_err s1 = 0) by exact E.
      assert (K1 : known_nz (r_pools s1) r) by (apply known_nz_aset, K').
      destruct (IH s1 E1 K1) as [H1 [H2 [H3 [H4 [H5 [H6 [H7 [H8 H9]]]]]]]].
      split; [exact H1|]. split; [|split; [|split]].
      * intro m. rewrite H2. cbn. rewrite usage_aset.
        destruct (Z.eqb_spec m n) as [->|N].
        -- rewrite Z.eqb_refl. unfold usage. rewrite G. lia.
        -- destruct (Z.eqb_spec n m); [congruence|lia].
      * intro m. rewrite H3. cbn. rewrite capacity_aset. destruct (Z.eqb_spec m n) as [->|]; [|reflexivity].
        unfold capacity. rewrite G. reflexivity.
      * intros k Hk. apply H4. cbn. apply amem_aset, Hk.
      * repeat split; assumption.
Qed.

Lemma reserve_spec nw r s :
  RInv s -> r_err s = 0 ->
  let s' := fst (reserve nw r s) in let o := snd (reserve nw r s) in
  RInv s' /\
  (r_err s' <> 0 -> same_core s s' /\ o = None) /\
  (r_err s' = 0 -> o = None -> s' = s /\ ~ fits (r_pools s) (positive_part r)) /\
  (r_err s' = 0 -> o <> None ->
     o = Some (length (r_res s)) /\ fits (r_pools s) (positive_part r) /\ nonneg r /\
     r_res s' = r_res s ++ [positive_part r] /\
     (forall m, usage (r_pools s') m = usage (r_pools s) m + sumreq (positive_part r) m) /\
     (forall m, capacity (r_pools s') m = capacity (r_pools s) m) /\
     r_slots s' = r_slots s /\ r_wait s' = r_wait s).
Proof.
  intros I E. pose proof I as [U C F SL IJ]. unfold reserve.
  destruct (can_fulfill (r_pools s) (positive_part r)) eqn:CF.
  - pose proof (proj1 (can_fulfill_iff _ _) CF) as Fit.
    destruct (has_negative r) eqn:HN.
    + cbn. split; [eapply same_core_RInv; [apply same_core_fail|exact I]|].
      split; [intros _; split; [apply same_core_fail|reflexivity]|].
      split; intro H; exfalso; cbn in H; unfold E_VALUE in H; lia.
    + pose proof (has_negative_false r HN) as NN.
      assert (K : known_nz (r_pools s) r) by (apply known_positive_part; [exact NN|apply fits_known, Fit]).
      destruct (take_spec nw r s E K) as [H1 [H2 [H3 [H4 [H5 [H6 [H7 [H8 H9]]]]]]]].
      rewrite H1. cbn [negb Z.eqb fst snd].
      assert (U' : forall m, usage (r_pools (take nw r s)) m = usage (r_pools s) m + sumreq (positive_part r) m).
      { intro m. rewrite H2, sumreq_positive_part by exact NN. reflexivity. }
      split; [|split; [|split]].
      * split; cbn.
        -- intro m. rewrite U', held_sum_app, H6, U. reflexivity.
        -- intro m. rewrite H3. apply C.
        -- rewrite H6. apply Forall_app. split.
           ++ eapply Forall_impl; [|exact F]. cbn. intros x [X1 X2]. split; [exact X1|].
              unfold in_pools in *. eapply Forall_impl; [|exact X2]. cbn. intros y Hy. apply H4, Hy.
           ++ constructor; [|constructor]. split; [apply positive_part_nonneg|].
              apply known_in_pools; [apply positive_part_pos|].
              pose proof (fits_known _ _ Fit) as K2. unfold known_nz in *.
              eapply Forall_impl; [|exact K2]. cbn. intros y Hy N. apply H4, Hy, N.
        -- intros k i Hk. rewrite H7 in Hk. rewrite app_length, H6. apply SL in Hk. cbn. lia.
        -- rewrite H7. exact IJ.
      * cbn. intro H. exfalso. apply H. exact H1.
      * cbn. intros _ H. discriminate.
      * cbn. intros _ _. rewrite H6. repeat split; auto.
  - cbn. split; [exact I|]. split; [intro H; contradiction|]. split.
    + intros _ _. split; [reflexivity|]. intro Fit. apply can_fulfill_iff in Fit. congruence.
    + intros _ H. contradiction.
Qed.

Lemma reserve_into_inv nw slot r s : RInv s -> r_err s = 0 -> RInv (reserve_into nw slot r s).
Proof.
  intros I E. unfold reserve_into.
  pose proof (reserve_spec nw r s I E) as [I1 [Herr [Hnone Hsome]]].
  destruct (reserve nw r s) as [s1 o] eqn:R. cbn [fst snd] in *.
  destruct (Z.eqb_spec (r_err s1) 0) as [E1|E1]; cbn [negb]; [|exact I1].
  pose proof I1 as [U C F SL IJ].
  destruct o as [i|].
  - destruct (Hsome E1 ltac:(discriminate)) as [Hi [_ [_ [Hres [_ [_ [Hsl _]]]]]]]. injection Hi as ->.
    pose proof I as [_ _ _ SL0 _].
    split; cbn; auto.
    + intros k j Hk. destruct (Z.eq_dec k slot) as [->|N].
      * rewrite aget_aset_same in Hk. injection Hk as <-. rewrite Hres, app_length. cbn. lia.
      * rewrite aget_aset_other in Hk by assumption. eapply SL; exact Hk.
    + intros k k' j Hk Hk'.
      destruct (Z.eq_dec k slot) as [->|N]; destruct (Z.eq_dec k' slot) as [->|N']; auto.
      * rewrite aget_aset_same in Hk. injection Hk as <-.
        rewrite aget_aset_other in Hk' by assumption. rewrite Hsl in Hk'. apply SL0 in Hk'. lia.
      * rewrite aget_aset_same in Hk'. injection Hk' as <-.
        rewrite aget_aset_other in Hk by assumption. rewrite Hsl in Hk. apply SL0 in Hk. lia.
      * rewrite aget_aset_other in Hk, Hk' by assumption. eapply IJ; eauto.
  - split; cbn; auto.
    + intros k j Hk. destruct (Z.eq_dec k slot) as [->|N].
      * rewrite aget_aset_same in Hk. discriminate.
      * rewrite aget_aset_other in Hk by assumption. eapply SL; exact Hk.
    + intros k k' j Hk Hk'.
      destruct (Z.eq_dec k slot) as [->|N]; [rewrite aget_aset_same in Hk; discriminate|].
      destruct (Z.eq_dec k' slot) as [->|N']; [rewrite aget_aset_same in Hk'; discriminate|].
      rewrite aget_aset_other in Hk, Hk' by assumption. eapply IJ; eauto.
Qed.

Lemma reserve_into_err nw slot r s : RInv s -> r_err s = 0 ->
  r_err (reserve_into nw slot r s) <> 0 -> same_core s (reserve_into nw slot r s).
Proof.
  intros I E. unfold reserve_into.
  pose proof (reserve_spec nw r s I E) as [I1 [Herr _]].
  destruct (reserve nw r s) as [s1 o]. cbn [fst snd] in *.
  destruct (Z.eqb_spec (r_err s1) 0) as [E1|E1]; cbn [negb].
  - cbn. intro H. contradiction.
  - intros _. apply Herr, E1.
Qed.

(** * release *)
Lemma give_back_spec nw r : forall s,
  r_err s = 0 -> known_nz (r_pools s) r ->
  let s' := give_back nw r s in
  r_err s' = 0 /\
  (forall m, usage (r_pools s') m = usage (r_pools s) m - sumreq r m) /\
  (forall m, capacity (r_pools s') m = capacity (r_pools s) m) /\
  pools_grow (r_pools s) (r_pools s') /\
  r_wait s' = r_wait s /\ r_res s' = r_res s /\ r_slots s' = r_slots s /\ r_cblog s' = r_cblog s /\ r_env s' = r_env s.
Proof.
  induction r as [|[n a] r IH]; intros s E K; cbn.
  - repeat split; auto; try (intro; lia). intros k H; exact H.
  - inversion K as [|? ? Kn K']; subst. cbn in Kn.
    destruct (Z.eqb_spec a 0) as [->|Na].
    + destruct (IH s E K') as [H1 [H2 H3]]. split; [exact H1|]. split; [|exact H3].
      intro m. rewrite H2. destruct (n =? m); lia.
    + specialize (Kn Na). unfold amem in Kn. destruct (aget n (r_pools s)) as [[u c]|] eqn:G; [|discriminate].
      set (s1 := record nw n (set_pools s (aset n (u - a, c) (r_pools s)))).
      assert (E1 : r_err s1 = 0) by exact E.
      assert (K1 : known_nz (r_pools s1) r) by (apply known_nz_aset, K').
      destruct (IH s1 E1 K1) as [H1 [H2 [H3 [H4 [H5 [H6 [H7 [H8 H9]]]]]]]].
      split; [exact H1|]. split; [|split; [|split]].
      * intro m. rewrite H2. cbn. rewrite usage_aset.
        destruct (Z.eqb_spec m n) as [->|N].
        -- rewrite Z.eqb_refl. unfold usage. rewrite G. lia.
        -- destruct (Z.eqb_spec n m); [congruence|lia].
      * intro m. rewrite H3. cbn. rewrite capacity_aset. destruct (Z.eqb_spec m n) as [->|]; [|reflexivity].
        unfold capacity. rewrite G. reflexivity.
      * intros k Hk. apply H4. cbn. apply amem_aset, Hk.
      * repeat split; assumption.
Qed.

Lemma release_resources_spec nw r s :
  r_err s = 0 -> known_nz (r_pools s) r ->
  let s' := release_resources nw r s in
  r_err s' = 0 /\
  (forall m, usage (r_pools s') m = usage (r_pools s) m - sumreq r m) /\
  (forall m, capacity (r_pools s') m = capacity (r_pools s) m) /\
  pools_grow (r_pools s) (r_pools s') /\
  r_wait s' = r_wait s /\ r_res s' = r_res s /\ r_slots s' = r_slots s /\ r_cblog s' = r_cblog s /\ r_env s' = r_env s.
Proof.
  intros E K. unfold release_resources.
  destruct (give_back_spec nw r s E K) as [H1 H2]. rewrite H1. cbn [negb Z.eqb]. split; [exact H1|exact H2].
Qed.

Lemma in_pools_known p r : in_pools p r -> known_nz p r.
Proof. unfold in_pools, known_nz. intro F. eapply Forall_impl; [|exact F]. cbn. auto. Qed.

(** what a successful validation of release(resources) established *)
Definition releasable (held r : req) : Prop :=
  Forall (fun na => 0 <= snd na /\ (snd na <> 0 -> exists h, aget (fst na) held = Some h /\ snd na <= h)) r.

Lemma validate_release_ok held r : validate_release held r = 0 -> releasable held r.
Proof.
  unfold releasable. induction r as [|[n a] r IH]; cbn; [constructor|].
  destruct (Z.ltb_spec a 0) as [Hn|Hp]; [unfold E_VALUE; discriminate|].
  destruct (Z.eqb_spec a 0) as [->|Na].
  - intro H. constructor; [cbn; split; [lia|congruence]|auto].
  - destruct (aget n held) as [h|] eqn:G; [|unfold E_KEY; discriminate].
    destruct (Z.ltb_spec h a) as [Hlt|Hge]; [unfold E_VALUE; discriminate|].
    intro H. constructor; [cbn; split; [lia|]; intros _; exists h; split; [exact G|lia]|auto].
Qed.

Lemma aget_in_key {V} k (v : V) m : aget k m = Some v -> In k (map fst m).
Proof.
  induction m as [|[k' v'] m IH]; cbn; [discriminate|].
  destruct (Z.eqb_spec k k') as [->|N]; [auto|]. intro H. right. auto.
Qed.

Lemma aset_keys {V} k (v v0 : V) m : aget k m = Some v0 -> map fst (aset k v m) = map fst m.
Proof.
  induction m as [|[k' v'] m IH]; cbn; [discriminate|].
  destruct (k =? k') eqn:E; cbn; [reflexivity|]. intro H. f_equal. auto.
Qed.

Lemma in_pools_keys p r r' : map fst r' = map fst r -> in_pools p r -> in_pools p r'.
Proof.
  unfold in_pools. intros M F. rewrite Forall_forall in *. intros [k v] H.
  assert (In k (map fst r')) by (apply in_map_iff; exists (k, v); auto).
  rewrite M in H0. apply in_map_iff in H0. destruct H0 as [[k2 v2] [E H2]]. cbn in E. subst k2.
  apply (F _ H2).
Qed.

Lemma nonneg_aset r n v : nonneg r -> 0 <= v -> nonneg (aset n v r).
Proof.
  unfold nonneg. induction 1 as [|[k a] r H F IH]; intro Hv; cbn; [constructor; [cbn; lia|constructor]|].
  destruct (n =? k); constructor; cbn in *; auto.
Qed.

Lemma NoDup_snoc {X} (l : list X) x : NoDup l -> ~ In x l -> NoDup (l ++ [x]).
Proof.
  induction 1 as [|y l Hy ND IH]; intro N; cbn; [constructor; [intros []|constructor]|].
  constructor.
  - intro H. apply in_app_or in H. destruct H as [H|[<-|[]]]; [contradiction|]. apply N. left. reflexivity.
  - apply IH. intro H. apply N. right. exact H.
Qed.

(** the bookkeeping loop on a validated request with distinct names *)
Lemma reduce_held_spec p r : forall held todel,
  NoDup (map fst r) -> releasable held r -> nonneg held -> in_pools p held ->
  (forall k, In k todel -> aget k held = Some 0 /\ ~ In k (map fst r)) -> NoDup todel ->
  let '(h1, td, e) := reduce_held held r todel in
  e = 0 /\ (forall m, sumreq h1 m = sumreq held m - sumreq r m) /\ nonneg h1 /\ in_pools p h1 /\
  (forall k, In k td -> aget k h1 = Some 0) /\ NoDup td.
Proof.
  induction r as [|[n a] r IH]; intros held todel ND RL NN IP TD NDt; cbn.
  - repeat split; auto; try (intro; lia). intros k Hk. apply TD, Hk.
  - inversion ND as [|? ? Nin ND']; subst. inversion RL as [|? ? [Ha Hh] RL']; subst. cbn in Ha, Hh.
    destruct (Z.eqb_spec a 0) as [->|Na].
    + specialize (IH held todel ND' RL' NN IP).
      destruct (reduce_held held r todel) as [[h1 td] e].
      destruct IH as [H1 [H2 H3]]; auto.
      { intros k Hk. destruct (TD k Hk) as [T1 T2]. split; [exact T1|]. intro; apply T2. right. assumption. }
      split; [exact H1|]. split; [|exact H3]. intro m. rewrite H2. destruct (n =? m); lia.
    + destruct (Hh Na) as [h [G Hle]].
      assert (Hpos : 0 <? a = true) by (apply Z.ltb_lt; lia).
      rewrite Hpos, G. cbn [andb]. unfold amem. rewrite G. cbn [negb].
      rewrite aget_aset_same.
      set (held1 := aset n (h - a) held).
      set (td1 := if h - a =? 0 then todel ++ [n] else todel).
      assert (RL1 : releasable held1 r).
      { unfold releasable in *. rewrite Forall_forall in *. intros [k b] Hk. destruct (RL' _ Hk) as [Q1 Q2]. split; [exact Q1|].
        intro Nb. destruct (Q2 Nb) as [h' [G' L']]. exists h'. split; [|exact L']. cbn in *.
        unfold held1. rewrite aget_aset_other; [exact G'|]. intro; subst k. apply Nin. apply in_map_iff. exists (n, b). auto. }
      assert (NN1 : nonneg held1) by (apply nonneg_aset; [exact NN|lia]).
      assert (IP1 : in_pools p held1).
      { eapply in_pools_keys; [|exact IP]. unfold held1. eapply aset_keys; eauto. }
      assert (TD1 : forall k, In k td1 -> aget k held1 = Some 0 /\ ~ In k (map fst r)).
      { intros k Hk. unfold td1 in Hk. destruct (Z.eqb_spec (h - a) 0) as [Ez|Nz].
        - apply in_app_or in Hk. destruct Hk as [Hk|[<-|[]]].
          + destruct (TD k Hk) as [T1 T2]. split; [|intro; apply T2; right; assumption].
            unfold held1. rewrite aget_aset_other; [exact T1|]. intro; subst k. apply T2. left. reflexivity.
          + split; [unfold held1; rewrite aget_aset_same; f_equal; exact Ez|exact Nin].
        - destruct (TD k Hk) as [T1 T2]. split; [|intro; apply T2; right; assumption].
          unfold held1. rewrite aget_aset_other; [exact T1|]. intro; subst k. apply T2. left. reflexivity. }
      assert (NDt1 : NoDup td1).
      { unfold td1. destruct (h - a =? 0); [|exact NDt]. apply NoDup_snoc; [exact NDt|].
        intro Hk. destruct (TD n Hk) as [_ T2]. apply T2. left. reflexivity. }
      specialize (IH held1 td1 ND' RL1 NN1 IP1 TD1 NDt1).
      fold held1. fold td1.
      destruct (reduce_held held1 r td1) as [[h1 td] e].
      destruct IH as [H1 [H2 H3]]. split; [exact H1|]. split; [|exact H3].
      intro m. rewrite H2. unfold held1. rewrite sumreq_aset, G.
      destruct (Z.eqb_spec m n) as [->|N].
      * rewrite Z.eqb_refl. lia.
      * destruct (Z.eqb_spec n m); [congruence|lia].
Qed.

Lemma adel_sub {V} n (r : list (Z * V)) x : In x (adel n r) -> In x r.
Proof.
  induction r as [|[k a] r IH]; cbn; [auto|]. destruct (n =? k); [auto|]. intros [H|H]; auto.
Qed.

Lemma delete_zeros_spec p td : forall h,
  NoDup td -> (forall k, In k td -> aget k h = Some 0) -> nonneg h -> in_pools p h ->
  let h' := fold_left (fun h n => adel n h) td h in
  (forall m, sumreq h' m = sumreq h m) /\ nonneg h' /\ in_pools p h'.
Proof.
  induction td as [|n td IH]; intros h ND Z0 NN IP; cbn; [repeat split; auto|].
  inversion ND as [|? ? Nin ND']; subst.
  assert (Z1 : forall k, In k td -> aget k (adel n h) = Some 0).
  { intros k Hk. rewrite aget_adel_other; [apply Z0; right; exact Hk|]. intro; subst. contradiction. }
  assert (NN1 : nonneg (adel n h)).
  { unfold nonneg in *. rewrite Forall_forall in *. intros x Hx. apply NN. eapply adel_sub; eauto. }
  assert (IP1 : in_pools p (adel n h)).
  { unfold in_pools in *. rewrite Forall_forall in *. intros x Hx. apply IP. eapply adel_sub; eauto. }
  destruct (IH (adel n h) ND' Z1 NN1 IP1) as [H1 H2]. split; [|exact H2].
  intro m. rewrite H1. apply sumreq_adel_zero. apply Z0. left. reflexivity.
Qed.

Definition obj_wf (s : rs) (i : nat) : Prop := (i < length (r_res s))%nat.

Lemma RInv_nth s i : RInv s -> nonneg (nth i (r_res s) []) /\ in_pools (r_pools s) (nth i (r_res s) []).
Proof.
  intros [_ _ F _ _]. destruct (Nat.lt_ge_cases i (length (r_res s))) as [L|G].
  - rewrite Forall_forall in F. apply F. apply nth_In. exact L.
  - rewrite nth_overflow by assumption. split; constructor.
Qed.

Lemma in_pools_grow p p' r : pools_grow p p' -> in_pools p r -> in_pools p' r.
Proof. unfold in_pools. intros G F. eapply Forall_impl; [|exact F]. cbn. intros a H. apply G, H. Qed.

(** release() of everything, and release(resources) *)
Lemma release_obj_spec nw i ro s :
  RInv s -> r_err s = 0 -> (i < length (r_res s))%nat ->
  (forall r, ro = Some r -> NoDup (map fst r)) ->
  let s' := release_obj nw i ro s in
  let held := nth i (r_res s) [] in
  RInv s' /\
  (r_err s' <> 0 -> same_core s s') /\
  (r_err s' = 0 ->
     let rel := match ro with None => held | Some r => r end in
     (forall m, usage (r_pools s') m = usage (r_pools s) m - sumreq rel m) /\
     (forall m, sumreq (nth i (r_res s') []) m = sumreq held m - sumreq rel m) /\
     (forall j, j <> i -> nth j (r_res s') [] = nth j (r_res s) []) /\
     length (r_res s') = length (r_res s) /\
     (forall m, capacity (r_pools s') m = capacity (r_pools s) m) /\
     r_slots s' = r_slots s /\ r_wait s' = r_wait s).
Proof.
  intros I E L ND. pose proof I as [U C F SL IJ]. destruct (RInv_nth s i I) as [NNh IPh].
  unfold release_obj. destruct ro as [r|].
  - destruct (Z.eqb_spec (validate_release (nth i (r_res s) []) r) 0) as [V|V]; cbn [negb].
    2:{ split; [eapply same_core_RInv; [apply same_core_fail|exact I]|]. split; [intros _; apply same_core_fail|].
        cbn. intro H. contradiction. }
    pose proof (validate_release_ok _ _ V) as RL.
    assert (K : known_nz (r_pools s) r).
    { unfold known_nz, releasable in *. rewrite Forall_forall in *. intros [n a] Hx Na. cbn in *.
      destruct (RL _ Hx) as [_ Q]. destruct (Q Na) as [h [G _]]. cbn in G.
      unfold in_pools in IPh. rewrite Forall_forall in IPh.
      assert (In n (map fst (nth i (r_res s) []))) as Hin by (eapply aget_in_key; eauto).
      apply in_map_iff in Hin. destruct Hin as [[n2 a2] [E2 H2]]. cbn in E2. subst n2. apply (IPh _ H2). }
    destruct (release_resources_spec nw r s E K) as [H1 [H2 [H3 [H4 [H5 [H6 [H7 [H8 H9]]]]]]]].
    rewrite H1. cbn [negb Z.eqb].
    pose proof (reduce_held_spec (r_pools s) r (nth i (r_res s) []) [] (ND r eq_refl) RL NNh IPh) as RH.
    destruct (reduce_held (nth i (r_res s) []) r []) as [[h1 td] e1].
    destruct RH as [R1 [R2 [R3 [R4 [R5 R6]]]]]; [intros k []|constructor|].
    subst e1. cbn [negb Z.eqb].
    destruct (delete_zeros_spec (r_pools s) td h1 R6 R5 R3 R4) as [D1 [D2 D3]].
    set (hf := fold_left (fun h n => adel n h) td h1) in *.
    assert (Lr : (i < length (r_res (release_resources nw r s)))%nat) by (rewrite H6; exact L).
    split; [|split].
    + split; cbn.
      * intro m. rewrite H2, held_sum_set_nth by exact Lr. rewrite H6, D1, R2, U. lia.
      * intro m. rewrite H3. apply C.
      * apply Forall_set_nth.
        -- rewrite H6. eapply Forall_impl; [|exact F]. cbn. intros x [X1 X2]. split; [exact X1|]. eapply in_pools_grow; eauto.
        -- split; [exact D2|]. eapply in_pools_grow; eauto.
      * intros k j Hk. rewrite set_nth_length by exact Lr. rewrite H6. rewrite H7 in Hk. eapply SL; exact Hk.
      * rewrite H7. exact IJ.
    + cbn. intro H. exfalso. apply H, H1.
    + cbn. intros _. split; [exact H2|]. split; [|split; [|split; [|split; [|split]]]]; auto.
      * intro m. rewrite nth_set_nth_same by exact Lr. rewrite D1, R2. reflexivity.
      * intros j Nj. rewrite nth_set_nth_other by congruence. rewrite H6. reflexivity.
      * rewrite set_nth_length by exact Lr. rewrite H6. reflexivity.
  - assert (K : known_nz (r_pools s) (nth i (r_res s) [])) by (apply in_pools_known, IPh).
    destruct (release_resources_spec nw _ s E K) as [H1 [H2 [H3 [H4 [H5 [H6 [H7 [H8 H9]]]]]]]].
    rewrite H1. cbn [negb Z.eqb].
    assert (Lr : (i < length (r_res (release_resources nw (nth i (r_res s) []) s)))%nat) by (rewrite H6; exact L).
    split; [|split].
    + split; cbn.
      * intro m. rewrite H2, held_sum_set_nth by exact Lr. rewrite H6, U. cbn. lia.
      * intro m. rewrite H3. apply C.
      * apply Forall_set_nth.
        -- rewrite H6. eapply Forall_impl; [|exact F]. cbn. intros x [X1 X2]. split; [exact X1|]. eapply in_pools_grow; eauto.
        -- split; constructor.
      * intros k j Hk. rewrite set_nth_length by exact Lr. rewrite H6. rewrite H7 in Hk. eapply SL; exact Hk.
      * rewrite H7. exact IJ.
    + cbn. intro H. exfalso. apply H, H1.
    + cbn. intros _. split; [exact H2|]. split; [|split; [|split; [|split; [|split]]]]; auto.
      * intro m. rewrite nth_set_nth_same by exact Lr. cbn. lia.
      * intros j Nj. rewrite nth_set_nth_other by congruence. rewrite H6. reflexivity.
      * rewrite set_nth_length by exact Lr. rewrite H6. reflexivity.
Qed.

(** * merge *)
Lemma merge_into_spec p o : forall h,
  nonneg h -> nonneg o -> in_pools p h -> in_pools p o ->
  (forall m, sumreq (merge_into h o) m = sumreq h m + sumreq o m) /\ nonneg (merge_into h o) /\ in_pools p (merge_into h o).
Proof.
  induction o as [|[n a] o IH]; intros h NH NO IH1 IO; cbn.
  - repeat split; auto. intro; lia.
  - inversion NO as [|? ? Ha NO']; subst. inversion IO as [|? ? Hn IO']; subst. cbn in Ha, Hn.
    destruct (aget n h) as [hv|] eqn:G.
    + assert (Hv : 0 <= hv).
      { unfold nonneg in NH. rewrite Forall_forall in NH. clear - G NH.
        induction h as [|[k v] h IHh]; cbn in G; [discriminate|].
        destruct (n =? k); [injection G as <-; apply (NH (k, v)); left; reflexivity|].
        apply IHh; auto. intros x Hx. apply NH. right. exact Hx. }
      destruct (IH (aset n (hv + a) h)) as [H1 [H2 H3]]; auto.
      * apply nonneg_aset; [exact NH|lia].
      * eapply in_pools_keys; [|exact IH1]. eapply aset_keys; eauto.
      * split; [|split; assumption]. intro m. rewrite H1, sumreq_aset, G.
        destruct (Z.eqb_spec m n) as [->|N]; [rewrite Z.eqb_refl; lia|]. destruct (Z.eqb_spec n m); [congruence|lia].
    + destruct (IH (aset n a h)) as [H1 [H2 H3]]; auto.
      * apply nonneg_aset; assumption.
      * unfold in_pools in *. clear - IH1 Hn G. induction h as [|[k v] h IHh]; cbn in *.
        -- constructor; [exact Hn|constructor].
        -- destruct (n =? k); [discriminate|]. inversion IH1; subst. constructor; auto.
      * split; [|split; assumption]. intro m. rewrite H1, sumreq_aset, G.
        destruct (Z.eqb_spec m n) as [->|N]; [rewrite Z.eqb_refl; lia|]. destruct (Z.eqb_spec n m); [congruence|lia].
Qed.

Lemma merge_obj_spec i j s :
  RInv s -> i <> j -> (i < length (r_res s))%nat -> (j < length (r_res s))%nat ->
  let s' := merge_obj i j s in
  RInv s' /\ r_pools s' = r_pools s /\
  (forall m, held_sum (r_res s') m = held_sum (r_res s) m) /\
  (forall m, sumreq (nth i (r_res s') []) m = sumreq (nth i (r_res s) []) m + sumreq (nth j (r_res s) []) m) /\
  nth j (r_res s') [] = [] /\ r_err s' = r_err s /\ r_slots s' = r_slots s /\ r_wait s' = r_wait s.
Proof.
  intros I Nij Li Lj. pose proof I as [U C F SL IJ].
  destruct (RInv_nth s i I) as [NNi IPi]. destruct (RInv_nth s j I) as [NNj IPj].
  unfold merge_obj. destruct (Nat.eqb_spec i j) as [|_]; [contradiction|].
  destruct (merge_into_spec (r_pools s) (nth j (r_res s) []) (nth i (r_res s) []) NNi NNj IPi IPj) as [M1 [M2 M3]].
  set (mi := merge_into (nth i (r_res s) []) (nth j (r_res s) [])) in *.
  assert (L1 : (j < length (set_nth i mi (r_res s)))%nat) by (rewrite set_nth_length; assumption).
  assert (HS : forall m, held_sum (set_nth j [] (set_nth i mi (r_res s))) m = held_sum (r_res s) m).
  { intro m. rewrite held_sum_set_nth by exact L1. rewrite held_sum_set_nth by exact Li.
    rewrite nth_set_nth_other by exact Nij. rewrite M1. cbn. lia. }
  split; [|repeat split; auto].
  - split; cbn; auto.
    + intro m. rewrite HS. apply U.
    + apply Forall_set_nth; [apply Forall_set_nth; [exact F|split; assumption]|split; constructor].
    + intros k x Hk. rewrite set_nth_length by exact L1. rewrite set_nth_length by exact Li. eapply SL; exact Hk.
  - intro m. cbn. rewrite nth_set_nth_other by congruence. rewrite nth_set_nth_same by exact Li. apply M1.
  - cbn. apply nth_set_nth_same. exact L1.
Qed.

(** * every scripted operation *)
Definition rop_wf (o : rop) : Prop :=
  match o with
  | RRelease _ r => NoDup (map fst r)
  | RMerge a b => a <> b
  | _ => True
  end.

Theorem run_rop_inv nw arg o s : RInv s -> rop_wf o -> RInv (run_rop nw arg o s).
Proof.
  intros I WF. unfold run_rop. destruct (Z.eqb_spec (r_err s) 0) as [E|E]; cbn [negb]; [|exact I].
  pose proof I as [U C F SL IJ].
  destruct o as [n a|slot r|slot|slot|slot r|a b|cb r]; cbn in WF.
  - apply add_resources_spec; assumption.
  - apply reserve_into_inv; assumption.
  - apply reserve_into_inv; assumption.
  - unfold release_slot. destruct (aget slot (r_slots s)) as [[i|]|] eqn:G; try exact I.
    apply release_obj_spec; auto. eapply SL; exact G. intros r H; discriminate.
  - unfold release_slot. destruct (aget slot (r_slots s)) as [[i|]|] eqn:G; try exact I.
    apply release_obj_spec; auto. eapply SL; exact G. intros r' H; injection H as <-; exact WF.
  - unfold merge_slots. destruct (aget a (r_slots s)) as [[i|]|] eqn:Ga; try exact I.
    destruct (aget b (r_slots s)) as [[j|]|] eqn:Gb; try exact I.
    apply merge_obj_spec; auto.
    + intro; subst j. apply WF. eapply IJ; eauto.
    + eapply SL; exact Ga.
    + eapply SL; exact Gb.
  - unfold register. split; cbn; assumption.
Qed.

Theorem run_rops_inv nw arg os : forall s, RInv s -> Forall rop_wf os -> RInv (run_rops nw arg os s).
Proof.
  unfold run_rops. induction os as [|o os IH]; intros s I WF; cbn; [exact I|].
  inversion WF; subst. apply IH; [apply run_rop_inv; assumption|assumption].
Qed.

(** every reachable state of the manager, whatever the callbacks do *)
Theorem check_pending_inv cbs nw fuel : forall i s,
  (forall k, Forall rop_wf (cbs k)) -> RInv s -> RInv (check_pending fuel cbs nw i s).
Proof.
  induction fuel as [|f IH]; intros i s WF I; cbn.
  - eapply same_core_RInv; [apply same_core_fail|exact I].
  - destruct (nth_error (r_wait s) i) as [[r cb id]|]; [|exact I].
    destruct (can_fulfill (r_pools s) r); [|apply IH; assumption].
    set (s1 := run_rops nw r (cbs cb) (set_cblog s (mkCb cb r nw id (r_pools s) :: r_cblog s))).
    assert (I1 : RInv s1).
    { apply run_rops_inv; [|apply WF]. destruct I as [U C F SL IJ]. split; assumption. }
    destruct (negb (r_err s1 =? 0)); [exact I1|].
    apply IH; [assumption|]. destruct I1 as [U C F SL IJ]. split; assumption.
Qed.

Theorem rm_initialize_inv nw s : RInv s -> RInv (rm_initialize nw s).
Proof.
  intro I. unfold rm_initialize.
  assert (G : forall l s0, RInv s0 -> RInv (fold_left (fun s n => record nw n s) l s0)).
  { induction l as [|n l IH]; intros s0 I0; cbn; [exact I0|]. apply IH.
    eapply same_core_RInv; [apply same_core_record|exact I0]. }
  apply G. destruct I as [U C F SL IJ]. split; assumption.
Qed.

(** * an operation that raises changes nothing *)
Theorem run_rop_error_changes_nothing nw arg o s :
  RInv s -> rop_wf o -> r_err s = 0 -> r_err (run_rop nw arg o s) <> 0 -> same_core s (run_rop nw arg o s).
Proof.
  intros I WF E. unfold run_rop. rewrite E. cbn [negb Z.eqb]. pose proof I as [U C F SL IJ].
  destruct o as [n a|slot r|slot|slot|slot r|a b|cb r]; cbn in WF.
  - apply add_resources_spec; assumption.
  - apply reserve_into_err; assumption.
  - apply reserve_into_err; assumption.
  - unfold release_slot. destruct (aget slot (r_slots s)) as [[i|]|] eqn:G; try (intro H; contradiction).
    apply release_obj_spec; auto. eapply SL; exact G. intros r H; discriminate.
  - unfold release_slot. destruct (aget slot (r_slots s)) as [[i|]|] eqn:G; try (intro H; contradiction).
    apply release_obj_spec; auto. eapply SL; exact G. intros r' H; injection H as <-; exact WF.
  - unfold merge_slots. destruct (aget a (r_slots s)) as [[i|]|] eqn:Ga; try (intro H; contradiction).
    destruct (aget b (r_slots s)) as [[j|]|] eqn:Gb; try (intro H; contradiction).
    intro H. exfalso. apply H.
    assert (i <> j) by (intro; subst j; apply WF; eapply IJ; eauto).
    destruct (merge_obj_spec i j s I) as [_ [_ [_ [_ [_ [He _]]]]]]; auto; try (eapply SL; eauto). congruence.
  - cbn. intro H. contradiction.
Qed.

(** * usage exceeds capacity only after an explicit capacity reduction *)
Definition no_overcommit (s : rs) : Prop := forall m, usage (r_pools s) m <= capacity (r_pools s) m.

Lemma sumreq_nodup_le (B : Z -> Z) r m :
  NoDup (map fst r) -> (forall k, 0 <= B k) ->
  Forall (fun na => snd na = 0 \/ snd na <= B (fst na)) r -> sumreq r m <= B m.
Proof.
  intros ND HB. induction r as [|[n a] r IH]; intro F; cbn; [apply HB|].
  inversion ND as [|? ? Nin ND']; subst. inversion F as [|? ? Ha F']; subst. cbn in Ha.
  destruct (Z.eqb_spec n m) as [->|N].
  - assert (sumreq r m = 0).
    { clear - Nin. induction r as [|[k b] r IHr]; cbn; [reflexivity|]. cbn in Nin.
      destruct (Z.eqb_spec k m) as [->|]; [exfalso; apply Nin; left; reflexivity|]. apply IHr. intro; apply Nin; right; assumption. }
    specialize (HB m). lia.
  - specialize (IH ND' F'). lia.
Qed.

Lemma positive_part_keys_nodup r : NoDup (map fst r) -> NoDup (map fst (positive_part r)).
Proof.
  unfold positive_part. induction r as [|[n a] r IH]; cbn; intro ND; [constructor|].
  inversion ND as [|? ? Nin ND']; subst. destruct (0 <? a); cbn; [|auto].
  constructor; [|auto]. intro H. apply Nin. apply in_map_iff in H. destruct H as [x [E Hx]].
  apply filter_In in Hx. apply in_map_iff. exists x. tauto.
Qed.

Definition reduces_capacity (o : rop) : Prop := match o with RAdd _ a => a < 0 | _ => False end.

Definition rop_wf2 (arg : req) (o : rop) : Prop :=
  rop_wf o /\ match o with RReserve _ r => NoDup (map fst r) | RReserveArg _ => NoDup (map fst arg) | _ => True end.

Theorem run_rop_no_overcommit nw arg o s :
  RInv s -> rop_wf2 arg o -> ~ reduces_capacity o -> no_overcommit s -> no_overcommit (run_rop nw arg o s).
Proof.
  intros I [WF WF2] NR NO. unfold run_rop. destruct (Z.eqb_spec (r_err s) 0) as [E|E]; cbn [negb]; [|exact NO].
  pose proof I as [U C F SL IJ].
  assert (RES : forall slot r, NoDup (map fst r) -> no_overcommit (reserve_into nw slot r s)).
  { intros slot r ND. unfold reserve_into.
    pose proof (reserve_spec nw r s I E) as [I1 [Herr [Hnone Hsome]]].
    destruct (reserve nw r s) as [s1 o1]. cbn [fst snd] in *.
    destruct (Z.eqb_spec (r_err s1) 0) as [E1|E1]; cbn [negb].
    - destruct o1 as [i|].
      + destruct (Hsome E1 ltac:(discriminate)) as [_ [Fit [NN [_ [Hu [Hc _]]]]]].
        intro m. cbn. rewrite Hu, Hc.
        assert (sumreq (positive_part r) m <= capacity (r_pools s) m - usage (r_pools s) m).
        { apply (sumreq_nodup_le (fun k => capacity (r_pools s) k - usage (r_pools s) k) (positive_part r) m);
            [apply positive_part_keys_nodup, ND|intro k; specialize (NO k); lia|].
          unfold fits in Fit. eapply Forall_impl; [|exact Fit]. cbn. tauto. }
        lia.
      + destruct (Hnone E1 eq_refl) as [-> _]. exact NO.
    - destruct (Herr E1) as [[P _] _]. intro m. rewrite P. apply NO. }
  destruct o as [n a|slot r|slot|slot|slot r|a b|cb r]; cbn in WF, WF2, NR.
  - destruct (add_resources_spec nw n a s I E) as [_ [Herr Hok]].
    destruct (Z.eq_dec (r_err (add_resources nw n a s)) 0) as [E1|E1].
    + destruct (Hok E1) as [Hu [Hc _]]. intro m. rewrite Hu, Hc. specialize (NO m).
      destruct (Z.eqb_spec m n) as [->|]; lia.
    + destruct (Herr E1) as [P _]. intro m. unfold req in *. rewrite P. apply NO.
  - apply RES, WF2.
  - apply RES, WF2.
  - unfold release_slot. destruct (aget slot (r_slots s)) as [[i|]|] eqn:G; try exact NO. cbv beta iota.
    assert (L : (i < length (r_res s))%nat) by (eapply SL; exact G).
    destruct (release_obj_spec nw i None s I E L ltac:(intros; discriminate)) as [_ [Herr Hok]].
    destruct (Z.eq_dec (r_err (release_obj nw i None s)) 0) as [E1|E1].
    + destruct (Hok E1) as [Hu [_ [_ [_ [Hc _]]]]]. intro m. rewrite Hu, Hc.
      destruct (RInv_nth s i I) as [NNh _]. pose proof (sumreq_nonneg _ m NNh). specialize (NO m). lia.
    + destruct (Herr E1) as [P _]. intro m. unfold req in *. rewrite P. apply NO.
  - unfold release_slot. destruct (aget slot (r_slots s)) as [[i|]|] eqn:G; try exact NO. cbv beta iota.
    assert (L : (i < length (r_res s))%nat) by (eapply SL; exact G).
    destruct (release_obj_spec nw i (Some r) s I E L ltac:(intros r' H; injection H as <-; exact WF)) as [I1 [Herr Hok]].
    destruct (Z.eq_dec (r_err (release_obj nw i (Some r) s)) 0) as [E1|E1].
    + destruct (Hok E1) as [Hu [Hh [_ [_ [Hc _]]]]]. intro m. rewrite Hu, Hc.
      (* released amounts are non-negative: held' = held - rel and both are sums of non-negative entries *)
      assert (0 <= sumreq r m).
      { unfold release_obj in E1.
        destruct (Z.eqb_spec (validate_release (nth i (r_res s) []) r) 0) as [V|V]; cbn [negb] in E1; [|cbn in E1; contradiction].
        pose proof (validate_release_ok _ _ V) as RL. apply sumreq_nonneg. unfold nonneg, releasable in *.
        eapply Forall_impl; [|exact RL]. cbn. tauto. }
      specialize (NO m). lia.
    + destruct (Herr E1) as [P _]. intro m. unfold req in *. rewrite P. apply NO.
  - unfold merge_slots. destruct (aget a (r_slots s)) as [[i|]|] eqn:Ga; try exact NO.
    destruct (aget b (r_slots s)) as [[j|]|] eqn:Gb; try exact NO. cbv beta iota.
    assert (i <> j) by (intro; subst j; apply WF; eapply IJ; eauto).
    destruct (merge_obj_spec i j s I) as [_ [P _]]; auto; try (eapply SL; eauto).
    intro m. rewrite P. apply NO.
  - exact NO.
Qed.
