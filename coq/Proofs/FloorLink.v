(** A second, finer decomposition of the floor functions, for invariants that LINK the devices to the event queue.
    The question here (C11, last clause) is: a processor that holds a reservation and has no part in process always has an
    uncancelled RELEASE event of its own pending at the current instant (or paused with it, while the processor is shut down).
    [jstep] lists the world steps under which that link survives step by step:
    - a device transformer that neither creates an idle holder nor reopens a shut device ([jsafe]);
    - an environment call that is harmless at this point ([emit_ok]: a pause needs the device shut, a cancel needs it without
      reservation);
    - changes that leave devices alone and only add schedule/data calls ([js_quiet]);
    - four compound steps, each the exact text of a piece of the model in which the link is broken in between:
      finish-a-cycle + schedule-the-release, fail + release, restore + unpause, reserve + take-the-part.
    [RJ w (F args w)] is proved once per model function, like [R] in FloorSteps.v. *)
From Coq Require Import ZArith List Bool Lia.
From RecordUpdate Require Import RecordUpdate.
From SimVerif Require Import Model.Base Model.Env Model.RM Model.Maint Model.FloorTypes Model.Floor Model.FamFloor.
From SimVerif Require Import Proofs.RMInv Proofs.FloorSteps.
Import ListNotations.
Open Scope Z_scope.

Definition idle_holder (x : dev) : Prop := d_kind x = KProcessor /\ d_reserved x <> None /\ d_part x = None.

Definition jsafe (g : dev -> Prop) (f : dev -> dev) : Prop :=
  forall x, g x ->
    d_kind (f x) = d_kind x /\
    (d_reserved (f x) <> None -> d_reserved x <> None) /\
    (d_kind x = KProcessor -> d_part (f x) = None -> d_part x = None) /\
    (d_shut x = true -> d_shut (f x) = true).

Definition quiet_cmd (c : fcmd) : Prop := match c with FSched _ _ _ _ | FData _ _ _ => True | _ => False end.

Definition emit_ok (w : fw) (c : fcmd) : Prop :=
  match c with
  | FPause a => d_shut (getd w a) = true
  | FCancel a => d_reserved (getd w a) = None
  | _ => True
  end.

Inductive jstep (nw : Z) : fw -> fw -> Prop :=
| js_dev w d g f : jsafe g f -> g (getd w d) -> jstep nw w (updd w d f)
| js_emit w c : emit_ok w c -> jstep nw w (emitf w c)
| js_quiet w w' : f_devs w' = f_devs w -> (exists l, f_out w' = l ++ f_out w /\ Forall quiet_cmd l) -> (okf w' = true -> okf w = true) -> jstep nw w w'
| js_dead w w' : okf w' = false -> jstep nw w w'
| js_everywhere w pid f : jstep nw w (upd_part_everywhere pid f w)
| js_finish_proc w d it :
    jstep nw w (let w1 := sched_pass nw 0 (updd w d (t_finish_proc nw it)) d in
                match d_reserved (getd w1 d) with
                | Some _ => emitf w1 (FSched nw P_RELEASE d (AReleaseIfIdle d))
                | None => w1
                end)
| js_fail_release w d : jstep nw w (release_reserved nw (updd w d (t_fail_clear nw)) d)
| js_restore w d : jstep nw w (emitf (updd w d (t_restore nw)) (FUnpause d))
| js_reserve_accept w d rq i it1 :
    d_req (getd w d) = Some rq -> d_reserved (getd w d) = None -> amem d (f_devs w) = true ->
    snd (reserve nw rq (clean_rs (f_rm w))) = Some i ->
    jstep nw w (updd (updd (rm_call w (fun _ => fst (reserve nw rq (clean_rs (f_rm w))))) d (t_reserved (Some i))) d (t_accept_proc nw it1)).

Inductive RJ (nw : Z) : fw -> fw -> Prop :=
| RJ_refl w : RJ nw w w
| RJ_step w1 w2 w3 : jstep nw w1 w2 -> RJ nw w2 w3 -> RJ nw w1 w3.

Ltac kj :=
  let x := fresh "x" in let G := fresh "G" in
  intros x G;
  unfold t_accept_sink, t_accept_proc, t_accept_buffer, t_accept, t_shutdown, t_supplied, t_buf_pop, t_buf_store, t_map_slot,
         t_finish, t_generated, t_clear_out, t_clear_part, t_batch_single, t_batch_full, t_batch_more, t_reserved,
         t_waiting_res, t_waiting_ds, t_set_cycle, t_add_offset, t_reset_offset, t_block, t_budget, t_down_del, t_down_add, t_up, dev_set_wait, dev_add_value;
  cbv zeta;
  repeat match goal with
         | |- context[if ?b then _ else _] => destruct b
         | |- context[match d_wait_since ?y with _ => _ end] => destruct (d_wait_since y)
         | |- context[match d_buf ?y with _ => _ end] => destruct (d_buf y) as [|[? ?] ?]
         end;
  cbn;
  repeat split; try reflexivity; try tauto; try congruence; try discriminate;
  try (intros; destruct (d_part x); cbn in *; congruence);
  intuition congruence.

Section Link.
Variable nw : Z.
Notation RJ := (RJ nw).

Lemma RJ_trans a b c : RJ a b -> RJ b c -> RJ a c.
Proof. induction 1 as [|w1 w2 w3 S _ IH]; intro Hbc; [exact Hbc|]. econstructor; [exact S|apply IH, Hbc]. Qed.
Lemma RJ_one a b : jstep nw a b -> RJ a b.
Proof. intro H. econstructor; [exact H|constructor]. Qed.

Lemma RJ_dev w d g f : jsafe g f -> g (getd w d) -> RJ w (updd w d f).
Proof. intros. apply RJ_one. econstructor; eauto. Qed.

Lemma RJ_quiet_emit w c : quiet_cmd c -> RJ w (emitf w c).
Proof. intro Q. apply RJ_one, js_emit. destruct c; try contradiction; exact I. Qed.
Lemma RJ_data w l s p : RJ w (data w l s p).
Proof. apply RJ_quiet_emit. exact I. Qed.
Lemma RJ_fail w e : RJ w (failf w e).
Proof.
  apply RJ_one, js_quiet.
  - unfold failf. destruct (f_err w =? 0); reflexivity.
  - exists []. split; [|constructor]. unfold failf. destruct (f_err w =? 0); reflexivity.
  - unfold failf, okf. destruct (f_err w =? 0) eqn:E; [auto|rewrite E; auto].
Qed.
Lemma RJ_same w w' : f_devs w' = f_devs w -> f_out w' = f_out w -> f_err w' = f_err w -> RJ w w'.
Proof.
  intros D O E. apply RJ_one, js_quiet; [exact D|exists []; split; [exact O|constructor]|unfold okf; rewrite E; auto].
Qed.

Lemma RJ_fold {X} (F : fw -> X -> fw) (l : list X) : (forall w x, RJ w (F w x)) -> forall w, RJ w (fold_left F l w).
Proof. intros H. induction l as [|x l IH]; intro w; cbn; [constructor|]. eapply RJ_trans; [apply H|apply IH]. Qed.

Ltac Jt := first [apply RJ_refl | apply RJ_fail | apply RJ_data | (apply RJ_quiet_emit; exact I)].
Ltac jdev w0 d0 f0 g0 := apply (RJ_trans w0 (updd w0 d0 f0)); [apply (RJ_dev w0 d0 g0 f0); [kj|]|].

Lemma quiet_rcmds l : Forall quiet_cmd (map conv_rcmd l).
Proof. induction l as [|c l IH]; cbn; constructor; [|exact IH]. destruct c as [t p a [|k]|]; exact I. Qed.
Lemma quiet_mcmds mid l : Forall quiet_cmd (map (conv_mcmd mid) l).
Proof. induction l as [|c l IH]; cbn; constructor; [|exact IH]. destruct c; exact I. Qed.

Lemma rm_call_quiet_facts w f :
  f_devs (rm_call w f) = f_devs w /\ (exists l, f_out (rm_call w f) = l ++ f_out w /\ Forall quiet_cmd l) /\
  (okf (rm_call w f) = true -> okf w = true).
Proof.
  split; [apply rm_call_devs|]. split.
  - unfold rm_call. cbv zeta. match goal with |- context[map conv_rcmd ?l] => exists (map conv_rcmd l) end.
    split; [|apply quiet_rcmds]. destruct (_ =? 0); [reflexivity|]. unfold failf. destruct (_ =? 0); reflexivity.
  - unfold rm_call. cbv zeta.
    match goal with |- context[if ?e =? 0 then _ else _] => destruct (e =? 0) eqn:EE end; [cbn; auto|].
    unfold failf, okf. cbn [f_err]. cbn.
    destruct (f_err w =? 0) eqn:E; cbn; [rewrite EE; discriminate|rewrite E; auto].
Qed.

Lemma RJ_rm_call w f : RJ w (rm_call w f).
Proof. destruct (rm_call_quiet_facts w f) as [A [B C]]. apply RJ_one, js_quiet; assumption. Qed.

Lemma RJ_maint_call w mid f : RJ w (maint_call w mid f).
Proof.
  apply RJ_one, js_quiet; [reflexivity| |cbn; auto].
  unfold maint_call. cbv zeta. match goal with |- context[map (conv_mcmd mid) ?l] => exists (map (conv_mcmd mid) l) end.
  split; [reflexivity|apply quiet_mcmds].
Qed.
Lemma RJ_create_wo mid t g w : RJ w (create_wo nw mid t g w).
Proof. apply RJ_maint_call. Qed.

Lemma RJ_sched_pass off w d : RJ w (sched_pass nw off w d).
Proof.
  unfold sched_pass. destruct (d_kind (getd w d)); try Jt;
    (jdev w d (t_waiting_ds false) (fun _ : dev => True); [exact I|Jt]).
Qed.

Lemma RJ_signal fuel : forall m w d, RJ w (signal fuel nw m w d).
Proof.
  induction fuel as [|f IH]; intros m w d; cbn [signal]; [apply RJ_fail|].
  set (x := getd w d).
  assert (NU : forall w0, RJ w0 (fold_left (fun w1 u => signal f nw false w1 u) (d_up (getd w0 d)) w0)).
  { intro w0. apply RJ_fold. intros; apply IH. }
  assert (SW : RJ w (fold_left (fun w1 u => signal f nw false w1 u)
                               (d_up (getd (wait_if_empty nw w d) d)) (wait_if_empty nw w d))).
  { unfold wait_if_empty. destruct (d_part (getd w d)); [apply NU|]. destruct (d_out (getd w d)); [apply NU|].
    jdev w d (dev_set_wait nw true false) (fun _ : dev => True); [exact I|apply NU]. }
  destruct m.
  - destruct (d_kind x); try apply NU; try exact SW.
    + destruct (inf_ltb (d_level x) (d_capacity x)); [exact SW|Jt].
    + destruct (aget (d_group x) (f_groups w)); [|Jt]. apply RJ_fold. intros; apply IH.
  - destruct (d_kind x); try apply IH;
      try (destruct (operational x && d_waiting_ds x); [apply RJ_sched_pass|Jt]).
    destruct (aget (d_group x) (f_groups w)); [apply IH|Jt].
Qed.

Lemma RJ_run_cbop d slot isf lost w o : RJ w (run_cbop nw d slot isf lost w o).
Proof.
  unfold run_cbop. destruct (negb (okf w)); [Jt|].
  destruct o.
  - apply (RJ_dev w d (fun _ => True)); [kj|exact I].
  - apply (RJ_dev w d (fun _ => True)); [kj|exact I].
  - destruct (if slot then d_part (getd w d) else d_out (getd w d)) as [i|]; [|Jt].
    destruct (is_batch i); [Jt|]. apply (RJ_dev w d (fun _ => True)); [kj|exact I].
  - apply (RJ_dev w d (fun _ => True)); [kj|exact I].
  - apply RJ_create_wo.
  - destruct isf; [apply RJ_create_wo|Jt].
  - apply RJ_same; reflexivity.
Qed.

Lemma RJ_run_cbops d slot isf lost ops : forall w, RJ w (run_cbops nw d slot isf lost ops w).
Proof. unfold run_cbops. apply RJ_fold. intros. apply RJ_run_cbop. Qed.

Lemma RJ_finish_cycle fuel w d : RJ w (finish_cycle fuel nw w d).
Proof.
  unfold finish_cycle. set (x := getd w d). destruct (d_kind x) eqn:K; try Jt;
  try (destruct (negb (operational x)); [Jt|]; destruct (d_part x) as [it|] eqn:P; [|Jt]; destruct (d_out x) eqn:O; [Jt|]).
  3:{ (* source *)
      destruct (d_out x) eqn:O; [apply RJ_sched_pass|].
      destruct (generate w d) as [w' it] eqn:G.
      assert (D : f_devs w' = f_devs w) by (pose proof (proj1 (generate_devs w d)) as X; rewrite G in X; exact X).
      apply (RJ_trans w w').
      { destruct (generate_nextid w d) as [z Hz]. rewrite G in Hz. cbn in Hz. subst w'. apply RJ_same; reflexivity. }
      jdev w' d (t_generated it) (fun _ : dev => True); [exact I|apply RJ_sched_pass]. }
  - (* handler *)
    jdev w d (t_finish it) (fun y : dev => d_kind y = KHandler); [exact K|apply RJ_sched_pass].
  - (* processor: one compound step, then the callbacks and the record *)
    eapply RJ_trans; [apply RJ_one, (js_finish_proc nw w d it)|]. cbv zeta.
    match goal with |- context[match d_reserved ?y with _ => _ end] => destruct (d_reserved y) end.
    + eapply RJ_trans; [apply RJ_run_cbops|].
      match goal with |- context[match d_out ?y with _ => _ end] => destruct (d_out y) end; Jt.
    + eapply RJ_trans; [apply RJ_run_cbops|].
      match goal with |- context[match d_out ?y with _ => _ end] => destruct (d_out y) end; Jt.
  - (* sink *)
    jdev w d (t_finish it) (fun y : dev => d_kind y = KSink); [exact K|].
    eapply RJ_trans; [apply RJ_sched_pass|].
    match goal with |- RJ ?w0 _ => jdev w0 d t_clear_out (fun _ : dev => True); [exact I|apply RJ_signal] end.
Qed.

Lemma RJ_sched_finish fuel w d : RJ w (sched_finish fuel nw w d).
Proof.
  unfold sched_finish. jdev w d t_reset_offset (fun _ : dev => True); [exact I|].
  destruct (_ <=? 0); [apply RJ_finish_cycle|Jt].
Qed.

Lemma RJ_batcher_fill n : forall w d, d_kind (getd w d) = KBatcher -> RJ w (batcher_fill n w d).
Proof.
  induction n as [|n IH]; intros w d KB; cbn [batcher_fill]; [Jt|].
  set (x := getd w d) in *. destruct (d_out x) eqn:O; [Jt|]. destruct (d_part x) as [it|] eqn:P; [|Jt].
  match goal with |- context[let '(p, rest) := ?e in _] => destruct e as [[p|] rest] end; [|Jt].
  assert (KP : forall w0 f0, (forall y, d_kind (f0 y) = d_kind y) -> f_devs w0 = f_devs w -> d_kind (getd (updd w0 d f0) d) = KBatcher).
  { intros w0 f0 Hk Hd. rewrite (getd_updd_field d_kind w0 d f0 d Hk). rewrite (getd_other_fields w w0 d Hd). exact KB. }
  destruct (d_batch_size x) as [size|] eqn:BS.
  - destruct (d_inprog x) as [[pp|b ps]|] eqn:IP.
    + apply IH. exact KB.
    + destruct (size <=? Z.of_nat (length (ps ++ [p]))).
      * jdev w d (t_batch_full rest b (ps ++ [p])) (fun y : dev => d_kind y = KBatcher); [exact KB|apply IH; apply KP; reflexivity].
      * jdev w d (t_batch_more rest b (ps ++ [p])) (fun y : dev => d_kind y = KBatcher); [exact KB|apply IH; apply KP; reflexivity].
    + set (w1 := w <| f_next_id := f_next_id w + 1 |>).
      apply (RJ_trans w w1); [apply RJ_same; reflexivity|].
      destruct (size <=? Z.of_nat (length ([] ++ [p]))).
      * jdev w1 d (t_batch_full rest (mkPart (f_next_id w + 1) 0 0 [] []) ([] ++ [p])) (fun y : dev => d_kind y = KBatcher); [exact KB|apply IH; apply KP; reflexivity].
      * jdev w1 d (t_batch_more rest (mkPart (f_next_id w + 1) 0 0 [] []) ([] ++ [p])) (fun y : dev => d_kind y = KBatcher); [exact KB|apply IH; apply KP; reflexivity].
  - jdev w d (t_batch_single rest p) (fun y : dev => d_kind y = KBatcher); [exact KB|apply IH; apply KP; reflexivity].
Qed.

Lemma RJ_batcher_try_move w d : d_kind (getd w d) = KBatcher -> RJ w (batcher_try_move nw w d).
Proof.
  intro KB. unfold batcher_try_move. set (x := getd w d) in *. destruct (d_part x) as [it|] eqn:P; [|Jt]. destruct (d_out x); [Jt|].
  destruct (negb (operational x)); [Jt|].
  assert (G : RJ w (let w1 := batcher_fill (S (Z.to_nat (item_count it))) w d in
                    match d_out (getd w1 d) with Some _ => sched_pass nw 0 w1 d | None => w1 end)).
  { cbv zeta. eapply RJ_trans; [apply RJ_batcher_fill, KB|].
    match goal with |- context[match d_out ?y with _ => _ end] => destruct (d_out y) end; [apply RJ_sched_pass|Jt]. }
  destruct it as [p|b [|p ps]]; try exact G.
  jdev w d t_clear_part (fun y : dev => d_kind y = KBatcher); [exact KB|Jt].
Qed.

(** everything after the part has been taken in *)
Lemma RJ_accept_rest fuel k w2 d it1 : d_kind (getd w2 d) = k -> RJ w2 (accept_rest fuel nw k w2 d it1).
Proof.
  intro K2. unfold accept_rest.
  set (w3 := rec_part w2 L_RECEIVED d nw it1). apply (RJ_trans w2 w3); [apply RJ_data|].
  set (w4 := run_cbops nw d true false (-1) (d_on_receive (getd w3 d)) w3).
  apply (RJ_trans w3 w4); [apply RJ_run_cbops|].
  assert (R4 : R MFull nw w2 w4).
  { eapply R_trans; [apply R_data|apply R_run_cbops]. }
  pose proof (R_kind nw MFull w2 w4 R4 d) as K4. rewrite K2 in K4.
  destruct (negb (okf w4)); [Jt|]. set (x := getd w4 d) in *. destruct (d_out x); [Jt|].
  destruct k eqn:K; cbv zeta;
    try (destruct (operational x && match d_part x with Some _ => true | None => false end); [apply RJ_sched_finish|Jt]).
  - (* buffer *)
    destruct (d_part x) as [itb|] eqn:PB; [|Jt].
    jdev w4 d (t_buf_store nw itb) (fun y : dev => d_kind y = KBuffer); [exact K4|].
    eapply RJ_trans; [apply RJ_signal|].
    match goal with |- context[if ?c then _ else _] => destruct c end; [apply RJ_sched_pass|Jt].
  - apply RJ_batcher_try_move. exact K4.
Qed.

(** taking the part in when no reservation is made at this point *)
Lemma RJ_accept_first w d it1 : RJ w (accept_first nw (d_kind (getd w d)) w d it1).
Proof.
  unfold accept_first. destruct (d_kind (getd w d)) eqn:K.
  all: try (apply (RJ_dev w d (fun _ => True)); [kj|exact I]).
  jdev w d (t_accept_buffer nw it1) (fun _ : dev => True); [exact I|apply RJ_data].
Qed.

Lemma RJ_accept fuel w d it : RJ w (accept fuel nw w d it).
Proof.
  unfold accept. eapply RJ_trans; [apply RJ_accept_first|].
  apply RJ_accept_rest. apply accept_first_kind. reflexivity.
Qed.

Lemma RJ_give fuel : forall w d it, RJ w (fst (give fuel nw w d it)).
Proof.
  induction fuel as [|f IH]; intros w d it; cbn [give]; [apply RJ_fail|].
  destruct (negb (okf w)); [Jt|]. set (x := getd w d).
  assert (TL : forall it0 l w0 b,
             RJ w0 (fst (fold_left (fun (acc : fw * bool) d' => if snd acc then acc else give f nw (fst acc) d' it0) l (w0, b)))).
  { intros it0 l. induction l as [|d' l IHl]; intros w0 b; cbn; [Jt|].
    destruct b; cbn [snd fst].
    - apply IHl.
    - pose proof (IH w0 d' it0) as X. destruct (give f nw w0 d' it0) as [w1 b1]. cbn [fst] in X.
      eapply RJ_trans; [exact X|apply IHl]. }
  destruct (d_kind x) eqn:K.
  - destruct (negb (operational x && negb (d_block x))); [Jt|apply TL].
  - destruct (negb (decide (d_decider x) it)); [Jt|]. destruct (negb (operational x && negb (d_block x))); [Jt|apply TL].
  - destruct (handler_can_accept x); [|Jt]. cbn [fst]. apply RJ_accept.
  - (* processor: the acceptance test may reserve *)
    unfold proc_can_accept. fold x. destruct (negb (handler_can_accept x)); [Jt|].
    destruct (d_req x) as [rq|] eqn:RQ; [|cbn [fst]; apply RJ_accept].
    destruct (d_reserved x) eqn:RV; [cbn [fst]; apply RJ_accept|].
    change (mkRs (r_pools (f_rm w)) (r_wait (f_rm w)) (r_res (f_rm w)) (r_slots (f_rm w)) (r_cblog (f_rm w)) [] 0 (r_env (f_rm w)) (r_nreg (f_rm w)))
      with (clean_rs (f_rm w)).
    set (res := reserve nw rq (clean_rs (f_rm w))). set (w1 := rm_call w (fun _ => fst res)).
    destruct (snd res) as [i|] eqn:SR.
    + destruct (okf w1) eqn:OK; cbn [fst].
      * (* reserve and take the part: one compound step *)
        assert (K1 : d_kind (getd (updd w1 d (t_reserved (Some i))) d) = KProcessor).
        { rewrite (getd_updd_field d_kind w1 d _ d) by reflexivity. unfold w1. rewrite (getd_other_fields w _ d (proj1 (rm_call_devs w _))). exact K. }
        unfold accept. rewrite K1. cbn [accept_first].
        eapply RJ_trans; [apply RJ_one, (js_reserve_accept nw w d rq i (item_add_hist d it)); auto; apply (req_amem w d rq RQ)|].
        apply RJ_accept_rest.
        rewrite (getd_updd_field d_kind _ d _ d); [exact K1|].
        intro y. unfold t_accept_proc, t_accept, dev_set_wait. reflexivity.
      * apply RJ_one, js_dead. unfold okf in *. exact OK.
    + assert (R1 : RJ w w1) by apply RJ_rm_call.
      destruct (negb (okf w1)); [exact R1|]. destruct (d_waiting_res x); [exact R1|]. cbn [fst].
      eapply RJ_trans; [exact R1|]. eapply RJ_trans; [apply RJ_rm_call|].
      match goal with |- RJ ?w0 _ => apply (RJ_dev w0 d (fun _ => True)); [kj|exact I] end.
  - destruct (inf_leb (d_level x + item_count it) (d_capacity x) && handler_can_accept x); [|Jt]. cbn [fst]. apply RJ_accept.
  - destruct (handler_can_accept x); [|Jt]. cbn [fst]. apply RJ_accept.
  - destruct (handler_can_accept x); [|Jt]. cbn [fst]. apply RJ_accept.
  - destruct (handler_can_accept x); [|Jt]. cbn [fst]. apply RJ_accept.
  - destruct (d_block x); [Jt|]. destruct (aget (d_group x) (f_groups w)); [apply IH|Jt].
  - destruct (negb (operational x && negb (d_block x))); [Jt|apply TL].
  - destruct (rev (item_gpath it)) as [|gp rest]; [apply RJ_fail|apply TL].
Qed.

Lemma RJ_try_downstream fuel w d it : RJ w (fst (try_downstream fuel nw w d it)).
Proof.
  unfold try_downstream. generalize (sorted_down fuel w d). intro l. generalize false. revert w.
  induction l as [|d' l IHl]; intros w0 b; cbn; [Jt|].
  destruct b; cbn [snd fst].
  - apply IHl.
  - pose proof (RJ_give fuel w0 d' it) as X. destruct (give fuel nw w0 d' it) as [w1 b1]. cbn [fst] in X.
    eapply RJ_trans; [exact X|apply IHl].
Qed.

Lemma RJ_handler_pass fuel w d : RJ w (fst (handler_pass fuel nw w d)).
Proof.
  unfold handler_pass. set (x := getd w d). destruct (d_out x) as [it|]; [|Jt]. destruct (negb (operational x)); [Jt|].
  pose proof (RJ_try_downstream fuel w d it) as X. destruct (try_downstream fuel nw w d it) as [w1 ok]. cbn [fst] in X.
  destruct ok; cbn [fst]; (eapply RJ_trans; [exact X|]).
  - jdev w1 d t_clear_out (fun _ : dev => True); [exact I|apply RJ_signal].
  - apply (RJ_dev w1 d (fun _ => True)); [kj|exact I].
Qed.

Lemma release_reserved_none w d : d_reserved (getd (release_reserved nw w d) d) = None.
Proof.
  unfold release_reserved. destruct (d_reserved (getd w d)) eqn:RV; [|exact RV].
  rewrite getd_updd, Z.eqb_refl. rewrite (proj1 (rm_call_devs w _)). rewrite (reserved_amem w d n RV). reflexivity.
Qed.

Lemma RJ_release_reserved w d : RJ w (release_reserved nw w d).
Proof.
  unfold release_reserved. destruct (d_reserved (getd w d)) eqn:RV; [|Jt].
  eapply RJ_trans; [apply RJ_rm_call|]. match goal with |- RJ ?w0 _ => apply (RJ_dev w0 d (fun _ => True)); [kj|exact I] end.
Qed.

Lemma RJ_release_if_idle w d : RJ w (release_if_idle nw w d).
Proof. unfold release_if_idle. destruct (_ || _); [apply RJ_release_reserved|Jt]. Qed.

Lemma RJ_shutdown isf lost w d : (isf = true -> d_reserved (getd w d) = None) -> RJ w (shutdown nw isf lost w d).
Proof.
  intro NR. unfold shutdown. set (x := getd w d). destruct (is_processor x) eqn:IP; cbn [negb]; [|Jt].
  assert (AM : amem d (f_devs w) = true).
  { apply not_blank_amem. intro E. fold x in E. rewrite E in IP. discriminate. }
  destruct (d_shut x) eqn:S.
  - destruct isf; [|Jt]. eapply RJ_trans; [apply RJ_one, (js_emit nw w (FCancel d)); cbn; apply NR; reflexivity|apply RJ_run_cbops].
  - jdev w d (t_shutdown nw) (fun _ : dev => True); [exact I|].
    eapply RJ_trans; [|apply RJ_run_cbops].
    apply RJ_one, (js_emit nw (updd w d (t_shutdown nw)) (if isf then FCancel d else FPause d)). destruct isf; cbn.
    + rewrite (getd_updd_field d_reserved w d (t_shutdown nw) d); [apply NR; reflexivity|].
      intro y. unfold t_shutdown, dev_set_wait. reflexivity.
    + rewrite getd_updd, Z.eqb_refl, AM. cbn. unfold t_shutdown, dev_set_wait. reflexivity.
Qed.

Lemma RJ_fail_proc w d : RJ w (fail nw w d).
Proof.
  unfold fail. set (x := getd w d). destruct (is_processor x) eqn:IP; cbn [negb]; [|Jt].
  eapply RJ_trans; [apply RJ_one, (js_fail_release nw w d)|].
  eapply RJ_trans; [apply RJ_data|]. apply RJ_shutdown. intros _.
  unfold data. change (getd (emitf ?a ?c) d) with (getd a d). apply release_reserved_none.
Qed.

Lemma RJ_restore fuel w d : RJ w (restore fuel nw w d).
Proof.
  unfold restore. set (x := getd w d). destruct (is_processor x) eqn:IP; cbn [negb]; [|Jt].
  destruct (negb (d_shut x)) eqn:S; [Jt|].
  set (w1' := emitf (updd w d (t_restore nw)) (FUnpause d)).
  eapply RJ_trans; [apply RJ_one, (js_restore nw w d)|]. fold w1'.
  assert (R2 : RJ w1' (match d_out x, d_part x with
                       | Some _, _ => sched_pass nw 0 w1' d
                       | None, None => signal fuel nw true w1' d
                       | None, Some _ => w1' end)).
  { destruct (d_out x); [apply RJ_sched_pass|]. destruct (d_part x); [Jt|apply RJ_signal]. }
  eapply RJ_trans; [exact R2|]. apply RJ_run_cbops.
Qed.

Lemma RJ_buffer_loop n fuel : forall w d, d_kind (getd w d) = KBuffer -> RJ w (buffer_loop n fuel nw w d).
Proof.
  induction n as [|n IH]; intros w d KB; cbn [buffer_loop]; [Jt|].
  set (x := getd w d) in *. destruct (d_buf x) as [|[t0 it] rest] eqn:B; [Jt|].
  destruct (0 <? d_min_delay x - (nw - t0)); [Jt|].
  pose proof (RJ_try_downstream fuel w d it) as X.
  pose proof (R_try_downstream nw MFull fuel w d it (full_not_neutral MFull eq_refl)) as XR.
  destruct (try_downstream fuel nw w d it) as [w1 ok] eqn:TD. cbn [fst] in X, XR.
  destruct ok; [|exact X]. eapply RJ_trans; [exact X|].
  assert (K1 : d_kind (getd w1 d) = KBuffer) by (rewrite (R_kind nw MFull w w1 XR d); exact KB).
  jdev w1 d (t_buf_pop nw) (fun _ : dev => True); [exact I|]. eapply RJ_trans; [apply RJ_data|]. apply IH.
  match goal with |- d_kind (getd ?ww d) = _ => rewrite (getd_other_fields (updd w1 d (t_buf_pop nw)) ww d eq_refl) end.
  rewrite (getd_updd_field d_kind w1 d (t_buf_pop nw) d); [exact K1|].
  intro y. unfold t_buf_pop. destruct (d_buf y) as [|[? ?] ?]; [reflexivity|]. destruct (0 <? _); reflexivity.
Qed.

Lemma RJ_pass_part fuel w d : RJ w (pass_part fuel nw w d).
Proof.
  unfold pass_part. set (x := getd w d). destruct (d_kind x) eqn:K; try (apply RJ_handler_pass).
  - (* buffer *)
    cbv zeta. set (w1' := buffer_loop (S (length (d_buf x))) fuel nw w d).
    apply (RJ_trans w w1'); [apply RJ_buffer_loop; exact K|].
    eapply RJ_trans; [|apply RJ_signal].
    destruct (d_buf (getd w1' d)) as [|[t0 it] rest]; [Jt|].
    match goal with |- context[if ?c then _ else _] => destruct c end; [apply RJ_sched_pass|].
    apply (RJ_dev w1' d (fun _ => True)); [kj|exact I].
  - (* source *)
    destruct (d_out x) as [it|]; [|Jt].
    match goal with |- context[if negb ?c then _ else _] => destruct (negb c) end; [Jt|].
    pose proof (RJ_handler_pass fuel w d) as X. destruct (handler_pass fuel nw w d) as [w1 ok]. cbn [fst] in X.
    destruct ok; [|exact X]. eapply RJ_trans; [exact X|].
    jdev w1 d (t_supplied nw (item_value it)) (fun _ : dev => True); [exact I|].
    eapply RJ_trans; [apply RJ_data|apply RJ_sched_finish].
  - (* batcher *)
    pose proof (RJ_handler_pass fuel w d) as X. pose proof (R_handler_pass nw MFull fuel w d eq_refl) as XR.
    destruct (handler_pass fuel nw w d) as [w1 ok]. cbn [fst] in X, XR.
    eapply RJ_trans; [exact X|]. destruct (d_out (getd w1 d)); [Jt|]. apply RJ_batcher_try_move.
    rewrite (R_kind nw MFull w w1 XR d). exact K.
Qed.

Lemma RJ_res_check n fuel : forall i w, RJ w (res_check n fuel nw i w).
Proof.
  induction n as [|n IH]; intros i w; cbn [res_check]; [apply RJ_fail|].
  destruct (nth_error (r_wait (f_rm w)) i) as [[r cb id]|]; [|Jt].
  destruct (can_fulfill (r_pools (f_rm w)) r); [|apply IH].
  match goal with |- context[signal fuel nw true (updd ?w1 ?dd _) _] => set (w1' := w1); set (d := dd) end.
  apply (RJ_trans w w1'); [apply RJ_same; reflexivity|].
  jdev w1' d (t_waiting_res false) (fun _ : dev => True); [exact I|].
  eapply RJ_trans; [apply RJ_signal|].
  match goal with |- context[if negb (okf ?w2) then _ else _] => destruct (negb (okf w2)) end; [Jt|].
  eapply RJ_trans; [|apply IH]. apply RJ_same; reflexivity.
Qed.

Lemma RJ_maint_start mid wo w : RJ w (maint_start nw mid wo w).
Proof.
  unfold maint_start. eapply RJ_trans; [apply RJ_maint_call|]. eapply RJ_trans; [apply (RJ_shutdown false); congruence|apply RJ_maint_call].
Qed.

Lemma RJ_maint_finish fuel mid wo w : RJ w (maint_finish fuel nw mid wo w).
Proof. unfold maint_finish. eapply RJ_trans; [apply RJ_restore|apply RJ_maint_call]. Qed.

Lemma RJ_rewire fuel w d ups : RJ w (rewire fuel nw w d ups).
Proof.
  unfold rewire. set (x := getd w d). destruct (existsb (bad_up d w) ups); [Jt|].
  match goal with |- RJ w (fold_left _ ups (updd (fold_left _ _ ?w0') d _)) => set (w0 := w0') end.
  assert (R0 : RJ w w0).
  { unfold w0. destruct (is_holder (d_kind x)); [|Jt]. destruct (d_wait_since x); [|Jt]. apply (RJ_dev w d (fun _ => True)); [kj|exact I]. }
  apply (RJ_trans w w0); [exact R0|].
  set (w1 := fold_left (fun w' u => updd w' u (t_down_del d)) (d_up x) w0).
  apply (RJ_trans w0 w1); [unfold w1; apply RJ_fold; intros w' u; apply (RJ_dev w' u (fun _ => True)); [kj|exact I]|].
  apply (RJ_trans w1 (updd w1 d (t_up ups))); [apply (RJ_dev w1 d (fun _ => True)); [kj|exact I]|].
  apply RJ_fold. intros w' u. destruct (existsb (Z.eqb d) (d_down (getd w' u))); [Jt|].
  apply (RJ_trans w' (updd w' u (t_down_add d))); [apply (RJ_dev w' u (fun _ => True)); [kj|exact I]|apply RJ_signal].
Qed.

Lemma RJ_run_uop fuel w o : RJ w (run_uop fuel nw w o).
Proof.
  unfold run_uop. destruct (negb (okf w)); [Jt|]. destruct o.
  - apply (RJ_shutdown false). congruence.
  - apply RJ_restore.
  - Jt.
  - destruct (Bool.eqb _ _); [Jt|]. jdev w d (t_block b) (fun _ : dev => True); [exact I|]. destruct b; [Jt|apply RJ_signal].
  - destruct (d_budget (getd w d)) as [b|]; [|Jt].
    match goal with |- context[t_budget ?z] => jdev w d (t_budget z) (fun _ : dev => True); [exact I|] end.
    destruct (_ <? 1); [apply RJ_sched_pass|Jt].
  - apply (RJ_dev w d (fun _ => True)); [kj|exact I].
  - apply RJ_rewire.
  - apply RJ_rm_call.
  - apply RJ_create_wo.
Qed.

Theorem RJ_exec_fact fuel uops a w : RJ w (exec_fact fuel uops a w nw).
Proof.
  destruct a as [d|d|d|d| |m [wo|wo]|k]; cbn [exec_fact].
  - apply RJ_finish_cycle.
  - apply RJ_pass_part.
  - apply RJ_fail_proc.
  - apply RJ_release_if_idle.
  - apply RJ_res_check.
  - apply RJ_maint_start.
  - apply RJ_maint_finish.
  - apply RJ_fold. intros. apply RJ_run_uop.
Qed.

(** System initialisation *)
Lemma RJ_init_dev fuel w d : RJ w (init_dev fuel nw w d).
Proof.
  unfold init_dev. set (x := getd w d). destruct (is_holder (d_kind x)); [|Jt].
  set (w1 := updd w d (fun y => dev_set_wait nw true true y)).
  assert (R1 : RJ w w1) by (apply (RJ_dev w d (fun _ => True)); [kj|exact I]).
  destruct (d_kind x); try exact R1.
  - eapply RJ_trans; [exact R1|]. apply (RJ_dev w1 d (fun _ => True)); [|exact I]. intros y _. cbn. tauto.
  - eapply RJ_trans; [exact R1|apply RJ_sched_finish].
Qed.

Lemma RJ_init_world fuel w : RJ w (init_world fuel nw w).
Proof.
  unfold init_world. eapply RJ_trans; [apply RJ_rm_call|]. apply RJ_fold. intros. apply RJ_init_dev.
Qed.

(** a device constructed between two events *)
Lemma RJ_late_create fuel w d ups : RJ w (late_create fuel nw w d ups).
Proof.
  unfold late_create. match goal with |- RJ _ (if ?c then _ else _) => destruct c end; [Jt|].
  set (w0 := w <| f_next_id := f_next_id w + 1 |>).
  apply (RJ_trans w w0); [apply RJ_same; reflexivity|].
  apply (RJ_trans w0 (updd w0 d t_live)); [apply (RJ_dev w0 d (fun _ => True)); [intros y _; unfold t_live; cbn; tauto|exact I]|].
  eapply RJ_trans; [apply RJ_init_dev|apply RJ_rewire].
Qed.

End Link.
