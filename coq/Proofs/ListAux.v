(** Small list lemmas shared by several proof files. *)
From Coq Require Import List Lia Sorting.Permutation.
Import ListNotations.

Lemma NoDup_snoc {X} (l : list X) x : NoDup l -> ~ In x l -> NoDup (l ++ [x]).
Proof.
  induction 1 as [|y l Hy ND IH]; intro N; cbn; [constructor; [intros []|constructor]|].
  constructor.
  - intro H. apply in_app_or in H. destruct H as [H|[<-|[]]]; [contradiction|]. apply N. left. reflexivity.
  - apply IH. intro H. apply N. right. exact H.
Qed.

Lemma NoDup_app_swap {X} (a b : list X) : NoDup (a ++ b) -> NoDup (b ++ a).
Proof.
  intro H. eapply Permutation_NoDup; [|exact H]. apply Permutation_app_comm.
Qed.

Lemma perm_flat_map {X Y} (f : X -> list Y) l l' : Permutation l l' -> Permutation (flat_map f l) (flat_map f l').
Proof. intro P. apply Permutation_flat_map. exact P. Qed.
